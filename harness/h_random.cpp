// C20 harness: random generators respect their ranges and are reproducible from the seed.
//
// Calls the real library code in-process.  Three sources of randomness exist in the library:
//   * GivRandom (givrandom.h), a deterministic multiplicative generator: compared draw by draw with the Lean model;
//   * GMP's generator behind Integer::random* (gmp++_int_rand.inl): the two entry points the library uses
//     (mpz_urandomb / mpz_urandomm) are interposed here: every raw draw is recorded (kind, argument, value) and
//     printed after the result, so that the Lean model -- which is parametric in the raw generator -- is replayed on
//     exactly the raw draws the code consumed; a "pattern" argument replaces chosen raw draws by the extreme values
//     the GMP contract allows (0, bound-1), which is how the boundaries of every range construction are reached
//     deterministically instead of with probability 2^-n;
//   * std::mt19937_64 behind RecInt::rand: the raw words are obtained from a copy of the generator state.
//
// modes:  h_random                 read case lines `key args…` from stdin and run exactly those
//         h_random gen tier seed   print the generated case lines only
//         h_random tier seed       generate and run
#include "proto.h"

#include <dlfcn.h>
#include <signal.h>
#include <unistd.h>
#include <functional>
#include <random>
#include <type_traits>

#include <gmp++/gmp++.h>
#include <givaro/givinteger.h>
#include <givaro/givrandom.h>
#include <givaro/givranditer.h>
#include <givaro/random-integer.h>
#include <givaro/modular.h>
#include <givaro/modular-balanced.h>
#include <givaro/modular-extended.h>
#include <givaro/montgomery.h>
#include <givaro/gfq.h>
#include <givaro/givpoly1.h>
#include <givaro/zring.h>
#include <givaro/gf2.h>
#include <givaro/extension.h>
#include <givaro/givrational.h>
#include <givaro/qfield.h>
#include <recint/recint.h>

using Givaro::Integer;
using vp::Args;

// ------------------------------------------------------------------------------------------
// interposition of GMP's raw draws
// ------------------------------------------------------------------------------------------
namespace tr {
static bool on = false;
static unsigned long long pattern = 0;   // base-3 digits, least significant first: 0 real, 1 minimum, 2 maximum
static std::string log;                  // " k a v" per raw draw (k: 0 = urandomb(nbits) 1 = urandomm(bound))
static void begin(unsigned long long pat) { on = true; pattern = pat; log.clear(); }
static void end() { on = false; }
static int code() { int c = (int)(pattern % 3); pattern /= 3; return c; }
}  // namespace tr

extern "C" {
void mpz_urandomb(mpz_ptr rop, gmp_randstate_t st, mp_bitcnt_t n) {
    typedef void (*fn_t)(mpz_ptr, __gmp_randstate_struct*, mp_bitcnt_t);
    static fn_t real = (fn_t)dlsym(RTLD_NEXT, "__gmpz_urandomb");
    if (!real) { fprintf(stderr, "cannot find the real mpz_urandomb\n"); _exit(90); }
    real(rop, st, n);
    if (!tr::on) return;
    int c = tr::code();
    if (c == 1) mpz_set_ui(rop, 0);
    else if (c == 2) { mpz_set_ui(rop, 1); mpz_mul_2exp(rop, rop, n); mpz_sub_ui(rop, rop, 1); }
    tr::log += " 0 " + vp::hex_ull(n) + " " + vp::hex(rop);
}
void mpz_urandomm(mpz_ptr rop, gmp_randstate_t st, mpz_srcptr m) {
    typedef void (*fn_t)(mpz_ptr, __gmp_randstate_struct*, mpz_srcptr);
    static fn_t real = (fn_t)dlsym(RTLD_NEXT, "__gmpz_urandomm");
    if (!real) { fprintf(stderr, "cannot find the real mpz_urandomm\n"); _exit(90); }
    mpz_t mm; mpz_init_set(mm, m);     // rop may alias m
    real(rop, st, m);
    if (tr::on) {
        int c = tr::code();
        if (c == 1) mpz_set_ui(rop, 0);
        else if (c == 2) mpz_sub_ui(rop, mm, 1);
        tr::log += " 1 " + vp::hex(mm) + " " + vp::hex(rop);
    }
    mpz_clear(mm);
}
}

// ------------------------------------------------------------------------------------------
// helpers
// ------------------------------------------------------------------------------------------
static Integer argZ(const Args& a, size_t i) {
    Integer r(0);
    mpz_set_str(r.get_mpz(), a.s(i).c_str(), 16);
    return r;
}
static std::string hx(const Integer& z) { return vp::hex(z.get_mpz_const()); }
static std::string hx(bool v) { return v ? "1" : "0"; }
static std::string hx(int8_t v) { return vp::hex_ll(v); }
static std::string hx(int16_t v) { return vp::hex_ll(v); }
static std::string hx(int32_t v) { return vp::hex_ll(v); }
static std::string hx(int64_t v) { return vp::hex_ll(v); }
static std::string hx(uint8_t v) { return vp::hex_ull(v); }
static std::string hx(uint16_t v) { return vp::hex_ull(v); }
static std::string hx(uint32_t v) { return vp::hex_ull(v); }
static std::string hx(uint64_t v) { return vp::hex_ull(v); }
static std::string hx(float v) { return (v == (float)(long long)v) ? vp::hex_ll((long long)v) : std::string("NONINT"); }
static std::string hx(double v) { return (v == (double)(long long)v) ? vp::hex_ll((long long)v) : std::string("NONINT"); }
template <size_t K> static std::string hx(const RecInt::ruint<K>& v) {
    mpz_class z; RecInt::ruint_to_mpz(z, v); return vp::hex(z.get_mpz_t());
}
template <size_t K> static std::string hx(const RecInt::rint<K>& v) {
    mpz_class z; RecInt::rint_to_mpz(z, v); return vp::hex(z.get_mpz_t());
}
template <size_t K> static RecInt::rint<K> toRi(const Integer& z) {
    RecInt::rint<K> r; mpz_class c(z.get_mpz_const()); RecInt::mpz_to_rint(r, c); return r;
}
template <size_t K> static RecInt::ruint<K> toRu(const Integer& z) {
    RecInt::ruint<K> r; mpz_class c(z.get_mpz_const()); RecInt::mpz_to_ruint(r, c); return r;
}
static std::string hexZ(const Integer& z) { return hx(z); }
static Integer pow2(unsigned long e) { Integer r(1); r <<= e; return r; }

static void out(const Args& a, const std::string& res) { vp::emit(a, res); fflush(stdout); }

// pre-filled destinations: a value that is NOT a canonical element (all ones / -1 / a huge integer)
template <class E> static typename std::enable_if<std::is_arithmetic<E>::value>::type set_junk(E& e) { e = (E)-1; }
static void set_junk(Integer& e) { e = -(pow2(300) + 7); }
template <size_t K> static void set_junk(RecInt::ruint<K>& e) { e = toRu<K>(pow2(1u << K) - 1); }
template <size_t K> static void set_junk(RecInt::rint<K>& e) { e = toRi<K>(Integer(-1)); }


// ------------------------------------------------------------------------------------------
// A. GivRandom
// ------------------------------------------------------------------------------------------
static void c_giv(const Args& a) {       // giv seed n = a1..an b1..bn
    uint64_t seed = a.W(0); size_t n = a.W(1);
    Givaro::GivRandom g1(seed);
    std::string r;
    for (size_t i = 0; i < n; ++i) { r += (i ? " " : ""); r += vp::hex_ull(g1()); }
    Givaro::GivRandom g2(seed);
    for (size_t i = 0; i < n; ++i) { r += " "; r += vp::hex_ull(g2()); }
    out(a, r);
}
static void c_givlong(const Args& a) {   // givlong seed n = last sum max min eq
    uint64_t seed = a.W(0); size_t n = a.W(1);
    Givaro::GivRandom g1(seed), g2(seed);
    uint64_t last = 0, sum = 0, mx = 0, mn = ~0ULL; int eq = 1;
    for (size_t i = 0; i < n; ++i) {
        uint64_t x = g1(), y = g2();
        if (x != y) eq = 0;
        last = x; sum += x; if (x > mx) mx = x; if (x < mn) mn = x;
    }
    out(a, vp::hex_ull(last) + " " + vp::hex_ull(sum) + " " + vp::hex_ull(mx) + " " + vp::hex_ull(mn) + " " + (eq ? "1" : "0"));
}
static void c_givcopy(const Args& a) {   // givcopy seed k n = eq   (a copy taken after k draws continues with the same sequence)
    uint64_t seed = a.W(0); size_t k = a.W(1), n = a.W(2);
    Givaro::GivRandom g1(seed);
    for (size_t i = 0; i < k; ++i) g1();
    Givaro::GivRandom g2(g1), g3(1); g3 = g1;
    int eq = 1;
    for (size_t i = 0; i < n; ++i) { uint64_t x = g1(), y = g2(), z = g3(); if (x != y || x != z) eq = 0; }
    out(a, eq ? "1" : "0");
}

// givx seed n = d1..dn U x1..xn      g(x) (template operator()(XXX& x)) into pre-filled destinations of types
//   uint64_t, uint32_t, int32_t, int64_t, double, Integer (cycled); a second generator gives the plain draws d_i: x_i must be d_i
//   converted to the type.  brand() is (draw & 2^30) == 0.
static void c_givx(const Args& a) {
    uint64_t seed = a.W(0); size_t n = a.W(1);
    Givaro::GivRandom g1(seed), g2(seed);
    std::string d, x;
    for (size_t i = 0; i < n; ++i) {
        uint64_t plain = g2();
        d += (i ? " " : "") + vp::hex_ull(plain);
        std::string t;
        switch (i % 7) {
            case 0: { uint64_t v = ~0ULL; g1(v); t = vp::hex_ull(v); break; }
            case 1: { uint32_t v = ~0u; g1(v); t = vp::hex_ull(v); break; }
            case 2: { int32_t v = -1; g1(v); t = vp::hex_ll(v); break; }
            case 3: { int64_t v = -1; g1(v); t = vp::hex_ll(v); break; }
            case 4: { double v = -1.5; g1(v); t = hx(v); break; }
            case 5: { Integer v; set_junk(v); g1(v); t = hx(v); break; }
            default: { bool b = g1.brand(); t = b ? "1" : "0"; break; }
        }
        x += " " + t;
    }
    out(a, d + " U" + x);
}

// ------------------------------------------------------------------------------------------
// B. Integer::random* (gmp++_int_rand.inl) and RandomIntegerIterator
// ------------------------------------------------------------------------------------------
// all keys: <key> seed pat x y old = r T <trace> U r2
//   The destination `r` is PRE-FILLED with `old` (grid: 0, ±1, multi-limb, negative) before the call; the call is then repeated from the
//   same generator state (same seed, same substitution pattern) into a destination holding a different value (old2 = -old - 2^67 - 1):
//   r2 must equal r -- a draw is a function of the generator state and the parameters only, never of what the destination held.
static Integer other_old(const Integer& old) { return -old - pow2(67) - 1; }

static bool int_op(const std::string& k, const Args& a, Integer& r) {
    if (k == "lt") { bool ap = a.W(2); Integer m = argZ(a, 3); if (ap) Integer::random_lessthan<true>(r, m); else Integer::random_lessthan<false>(r, m); }
    else if (k == "lt0") { Integer m = argZ(a, 3); Integer::random_lessthan(r, m); }      // non-template overload
    else if (k == "lt2") { bool ap = a.W(2); uint64_t n = a.W(3); if (ap) Integer::random_lessthan_2exp<true>(r, n); else Integer::random_lessthan_2exp<false>(r, n); }
    else if (k == "lt20") { uint64_t n = a.W(3); Integer::random_lessthan_2exp(r, n); }     // non-template overloads
    else if (k == "ltw") { bool ap = a.W(2); uint64_t n = a.W(3); if (ap) Integer::random_lessthan<true>(r, n); else Integer::random_lessthan<false>(r, n); }
    else if (k == "ltw0") { uint64_t n = a.W(3); Integer::random_lessthan(r, n); }
    else if (k == "ltv") { bool ap = a.W(2); unsigned n = (unsigned)a.W(3); r = ap ? Integer::random_lessthan<true, unsigned>(n) : Integer::random_lessthan<false, unsigned>(n); }  // value-returning, T = unsigned
    else if (k == "ltv0") { uint64_t n = a.W(3); r = (a.W(2) ? Integer::random_lessthan_2exp(n) : Integer::random_lessthan_2exp<false>(n)); }
    else if (k == "ltvT") { long n = (long)a.W(3); r = Integer::random_lessthan(n); }       // template<class T> random_lessthan(const T&)
    else if (k == "ex2") { bool ap = a.W(2); uint64_t n = a.W(3); if (ap) Integer::random_exact_2exp<true>(r, n); else Integer::random_exact_2exp<false>(r, n); }
    else if (k == "ex20") { uint64_t n = a.W(3); Integer::random_exact_2exp(r, n); }        // non-template overload
    else if (k == "exw") { bool ap = a.W(2); uint64_t n = a.W(3); if (ap) Integer::random_exact(r, n); else Integer::random_exact<false>(r, n); }   // random_exact(r, const uint64_t&)
    else if (k == "exI") { bool ap = a.W(2); Integer s = argZ(a, 3); if (ap) Integer::random_exact<true>(r, s); else Integer::random_exact<false>(r, s); }
    else if (k == "exI0") { Integer s = argZ(a, 3); Integer::random_exact(r, s); }          // non-template overload
    else if (k == "exT") { bool ap = a.W(2); int n = (int)a.W(3); if (ap) Integer::random_exact(r, n); else Integer::random_exact<false>(r, n); }   // template T = int
    else if (k == "exV") { bool ap = a.W(2); unsigned long n = a.W(3); r = ap ? Integer::random_exact(n) : Integer::random_exact<false>(n); }   // value-returning
    else if (k == "exVI") { Integer s = argZ(a, 3); r = a.W(2) ? Integer::random_exact(s) : Integer::random_exact<false>(s); }                   // value-returning, Integer size
    else if (k == "btw") { Integer lo = argZ(a, 2), hi = argZ(a, 3); Integer::random_between(r, lo, hi); }
    else if (k == "btwv") { Integer lo = argZ(a, 2), hi = argZ(a, 3); r = Integer::random_between(lo, hi); }
    else if (k == "btw2") { uint64_t m = a.W(2), M = a.W(3); Integer::random_between_2exp(r, m, M); }
    else if (k == "btw2v") { uint64_t m = a.W(2), M = a.W(3); r = Integer::random_between_2exp(m, M); }
    else if (k == "btwW") { uint64_t m = a.W(2), M = a.W(3); Integer::random_between(r, m, M); }            // random_between(r, const uint64_t&, const uint64_t&)
    else if (k == "btwT") { int m = (int)a.W(2), M = (int)a.W(3); Integer::random_between(r, m, M); }       // template R = int: exponents
    else if (k == "btwTv") { int m = (int)a.W(2), M = (int)a.W(3); r = Integer::random_between(m, M); }     // template R = int, value-returning
    else if (k == "btwU") { unsigned long m = a.W(2), M = a.W(3); r = Integer::random_between(m, M); }       // as in tests/test-random.C
    else if (k == "nz") { bool ap = a.W(2); uint64_t n = a.W(3); if (ap) Integer::nonzerorandom<true>(r, n); else Integer::nonzerorandom<false>(r, n); }
    else if (k == "nzT") { unsigned long n = a.W(3); Integer::nonzerorandom(r, n); }        // template<class T> nonzerorandom(r, const T&)
    else if (k == "nzv") { bool ap = a.W(2); unsigned long n = a.W(3); r = ap ? Integer::nonzerorandom(n) : Integer::nonzerorandom<false>(n); }
    else if (k == "nzI") { bool ap = a.W(2); Integer m = argZ(a, 3); if (ap) Integer::nonzerorandom<true>(r, m); else Integer::nonzerorandom<false>(r, m); }
    else if (k == "nzIv") { Integer m = argZ(a, 3); r = a.W(2) ? Integer::nonzerorandom(m) : Integer::nonzerorandom<false>(m); }
    else if (k == "rndI") { bool ap = a.W(2); Integer m = argZ(a, 3); if (ap) Integer::random<true>(r, m); else Integer::random<false>(r, m); }
    else if (k == "rndIT") { Integer m = argZ(a, 3); Integer::random(r, m); }               // template<class T> random(r, const T&)
    else if (k == "rndIv") { Integer m = argZ(a, 3); r = a.W(2) ? Integer::random(m) : Integer::random<false>(m); }
    else if (k == "rndW") { bool ap = a.W(2); long n = (long)a.W(3); if (ap) Integer::random<true>(r, n); else Integer::random<false>(r, n); }   // T = long: bits
    else if (k == "rndWv") { int n = (int)a.W(3); r = a.W(2) ? Integer::random(n) : Integer::random<false>(n); }
    else if (k == "rnd0") { bool ap = a.W(2); r = ap ? Integer::random() : Integer::random<false>(); }
    else if (k == "rnd0t") { r = Integer::random<true>(); }
    else if (k == "nz0") { r = Integer::nonzerorandom(); }
    else if (k == "rbool") { r = Integer::RandBool() ? 1 : 0; }
    // the same draws through the domain object ZRing<Integer> (givinteger.h): random(g, r, long s) / random(g, r, const Rep& b) ignore g
    else if (k == "zrW") { Givaro::ZRing<Integer> Z; Givaro::GivRandom g(1); if (a.W(2)) Z.random(g, r, (long)a.W(3)); else Z.nonzerorandom(g, r, (long)a.W(3)); }
    else if (k == "zrI") { Givaro::ZRing<Integer> Z; Givaro::GivRandom g(1); Integer b = argZ(a, 3); if (a.W(2)) Z.random(g, r, b); else Z.nonzerorandom(g, r, b); }
    else return false;
    return true;
}

static void c_int(const Args& a) {
    const std::string& k = a.tok[0];
    uint64_t seed = a.W(0); unsigned long long pat = a.W(1);
    Integer old = a.n() > 4 ? argZ(a, 4) : Integer(0);
    Integer r1(old), r2(other_old(old));
    Integer::seeding((uint64_t)seed);
    tr::begin(pat);
    bool ok = int_op(k, a, r1);
    tr::end();
    if (!ok) { out(a, "BADKEY"); return; }
    std::string log1 = tr::log;
    Integer::seeding((uint64_t)seed);
    tr::begin(pat);
    int_op(k, a, r2);
    tr::end();
    out(a, hx(r1) + " T" + log1 + " U " + hx(r2));
}

// rii seed pat uns exact how bits k old = v1..vk T trace U w1..wk
//   how = 0: RandomIntegerIterator(D, seed) then setBitsize(bits); how = 1: RandomIntegerIterator(D, seed, samplesize)
//   first sequence: one iterator, values drawn with random(v) into a destination pre-filled with `old` (how 0) or read after ++ (how 1);
//   second sequence: same seed and pattern, the iterator is COPIED after k/2 values (copy constructor, then copy assignment) and the copy
//   continues, destinations pre-filled with another value: it must be the same sequence.
template <bool U, bool E>
static void rii_run(const Args& a) {
    typedef Givaro::RandomIntegerIterator<U, E> It;
    uint64_t seed = a.W(0); unsigned long long pat = a.W(1);
    int how = (int)a.W(4); size_t k = a.W(6);
    Integer old = a.n() > 7 ? argZ(a, 7) : Integer(0);
    Givaro::ZRing<Integer> Z;
    std::string r[2], log1;
    for (int rep = 0; rep < 2; ++rep) {
        Integer fill = rep ? other_old(old) : old;
        It spare(Z, 777);                               // assignment target, built before the generator is (re)seeded by `it`
        tr::begin(pat);
        It* it = (how == 0) ? new It(Z, seed) : new It(Z, seed, argZ(a, 5));
        if (how == 0) it->setBitsize((size_t)a.W(5));
        r[rep] += hx(**it);                             // the value generated by the constructor / by setBitsize
        It* cur = it;
        for (size_t i = 1; i < k; ++i) {
            if (rep == 1 && i == k / 2) {               // continue with a copy: copy constructor, then copy assignment
                It c(*it);
                spare = c;
                cur = &spare;
            }
            if (how == 0 && (i % 2)) { Integer v(fill); cur->random(v); r[rep] += " " + hx(v); }
            else if (how == 0) { Integer v(fill); (*cur)(v); r[rep] += " " + hx(v); }
            else { ++*cur; r[rep] += " " + hx(cur->randomInteger()); }
        }
        delete it;
        tr::end();
        if (rep == 0) log1 = tr::log;
    }
    out(a, r[0] + " T" + log1 + " U " + r[1]);
}
static void c_rii(const Args& a) {
    bool u = a.W(2), e = a.W(3);
    if (u && e) rii_run<true, true>(a); else if (u) rii_run<true, false>(a); else if (e) rii_run<false, true>(a); else rii_run<false, false>(a);
}

// seedrep seed how n bits = eq      the same seed gives the same sequence (how: 0 seeding(uint64_t), 1 seeding(Integer), 2 RandomIntegerIterator::setSeed)
static void c_seedrep(const Args& a) {
    Integer sd = argZ(a, 0); int how = (int)a.W(1); size_t n = a.W(2); uint64_t bits = a.W(3);
    std::vector<Integer> s1, s2;
    for (int rep = 0; rep < 2; ++rep) {
        if (how == 0) Integer::seeding((uint64_t)a.W(0));
        else if (how == 1) Integer::seeding(sd);
        else Givaro::RandomIntegerIterator<>::setSeed((uint64_t)a.W(0));
        std::vector<Integer>& s = rep ? s2 : s1;
        for (size_t i = 0; i < n; ++i) {
            Integer v;
            switch (i % 4) {
                case 0: Integer::random_lessthan_2exp(v, bits); break;
                case 1: Integer::random_exact_2exp(v, bits ? bits : 1); break;
                case 2: Integer::random_lessthan(v, pow2(bits) + 12345); break;
                default: Integer::nonzerorandom(v, bits ? bits : 1); break;
            }
            s.push_back(v);
        }
    }
    int eq = 1;
    for (size_t i = 0; i < n; ++i) if (s1[i] != s2[i]) eq = 0;
    out(a, eq ? "1" : "0");
}

// ------------------------------------------------------------------------------------------
// C. ring / field random iterators
// ------------------------------------------------------------------------------------------
// ring T p k seed fn size n = eq e1 … en
//   fn 0  typename Ring::RandIter(F, seed)                n draws; eq: a second iterator built with the same seed agrees
//      1  GIV_randIter<Ring, Element>(F, seed, size)
//      2  GeneralRingRandIter<Ring>(F, seed, size)
//      3  GeneralRingNonZeroRandIter<Ring, RandIter> on RandIter(F, seed)
//      4  F.random(g, e)            with GivRandom g(seed)
//      5  F.nonzerorandom(g, e)
//      6  F.random(g, e, size)
//      7  F.nonzerorandom(g, e, size)
//      8  typename Ring::RandIter(F, seed, size)      the three-argument constructor (ModularRandIter ignores the size, GIV_randIter clamps it,
//                                                     GeneralRingRandIter reduces the draw modulo it)
//      9  typename Ring::RandIter c(F, seed, size), d(F, seed + 977, 2); d = c;   copy ASSIGNMENT between iterators built with different
//         sampling sizes: sequence 0 is drawn from c, sequence 1 from d -- after the assignment d must behave like c
enum Caps { C_SIZE = 1, C_GEN = 2, C_CTOR3 = 4, C_ASSIGN = 8 };   // C_CTOR3: Ring::RandIter(F, seed, size); C_ASSIGN: RandIter::operator=
   // C_SIZE: has random(g, e, size); C_GEN: init(e, uint64_t) exists (GeneralRingRandIter)

// two sequences from the same seed:
//   rep 0: every draw goes into a destination pre-filled with a non-canonical value;
//   rep 1: destinations hold zero, and the iterator / generator is COPIED after n/2 draws (copy constructor) and the copy continues.
// eq = 1 iff the two sequences agree: a draw depends on the seed, the construction parameters and the number of earlier draws only.
template <class Ring, int CAPS>
static void ring_fn(const Args& a, const Ring& F) {
    typedef typename Ring::Element E;
    typedef typename Ring::Residu_t Res_t;
    uint64_t seed = a.W(3); int fn = (int)a.W(4); size_t n = a.W(6);
    std::vector<E> s[2];
    bool ran = true;
    for (int rep = 0; rep < 2; ++rep) {
        std::vector<E>& v = s[rep];
        auto fresh = [&](E& e) { if (rep == 0) set_junk(e); else { e = E(); F.init(e); } };
        size_t half = rep ? n / 2 : n;                  // rep 1 switches to a copy after `half` draws
        if (fn == 0) {
            typename Ring::RandIter it(F, seed);
            for (size_t i = 0; i < half; ++i) { E e; fresh(e); if (i % 2) it.random(e); else it(e); v.push_back(e); }
            typename Ring::RandIter c(it);
            if constexpr (std::is_copy_assignable<typename Ring::RandIter>::value) {
                if (seed & 1) { typename Ring::RandIter d(F, seed + 977); d = c; c = d; }        // copy assignment (both directions)
            }
            for (size_t i = half; i < n; ++i) { E e; fresh(e); if (i % 2) c.random(e); else c(e); v.push_back(e); }
        } else if (fn == 3) {
            typename Ring::RandIter it(F, seed);
            Givaro::GeneralRingNonZeroRandIter<Ring, typename Ring::RandIter> nz(it);
            for (size_t i = 0; i < half; ++i) { E e; fresh(e); if (i % 2) nz.random(e); else nz(e); v.push_back(e); }
            Givaro::GeneralRingNonZeroRandIter<Ring, typename Ring::RandIter> c(nz);
            for (size_t i = half; i < n; ++i) { E e; fresh(e); c.random(e); v.push_back(e); }
        } else if (fn == 8 || fn == 9) {
            if constexpr ((CAPS & C_CTOR3) != 0) {
                Res_t size = (Res_t)a.W(5);
                typename Ring::RandIter it(F, seed, size);
                if (fn == 8) {
                    for (size_t i = 0; i < half; ++i) { E e; fresh(e); if (i % 2) it.random(e); else it(e); v.push_back(e); }
                    typename Ring::RandIter c(it);
                    for (size_t i = half; i < n; ++i) { E e; fresh(e); c.random(e); v.push_back(e); }
                } else if constexpr ((CAPS & C_ASSIGN) != 0) {
                    typename Ring::RandIter d(F, seed + 977, (Res_t)2);
                    d = it;
                    for (size_t i = 0; i < n; ++i) { E e; fresh(e); if (rep) d.random(e); else it.random(e); v.push_back(e); }
                } else ran = false;
            } else ran = false;
        } else if (fn == 4 || fn == 5) {
            Givaro::GivRandom g(seed);
            for (size_t i = 0; i < half; ++i) { E e; fresh(e); if (fn == 4) F.random(g, e); else F.nonzerorandom(g, e); v.push_back(e); }
            Givaro::GivRandom c(g);
            for (size_t i = half; i < n; ++i) { E e; fresh(e); if (fn == 4) F.random(c, e); else F.nonzerorandom(c, e); v.push_back(e); }
        } else if constexpr ((CAPS & C_SIZE) != 0) {
            Res_t size = (Res_t)a.W(5);
            if (fn == 1) {
                Givaro::GIV_randIter<Ring, E> it(F, seed, size);
                for (size_t i = 0; i < half; ++i) { E e; fresh(e); if (i % 2) it.random(e); else it(e); v.push_back(e); }
                Givaro::GIV_randIter<Ring, E> c(it);
                if (seed & 1) { Givaro::GIV_randIter<Ring, E> d(F, seed + 977, size); d = c; c = d; }   // copy assignment
                for (size_t i = half; i < n; ++i) { E e; fresh(e); c.random(e); v.push_back(e); }
            } else if (fn == 6 || fn == 7) {
                Givaro::GivRandom g(seed);
                for (size_t i = 0; i < half; ++i) { E e; fresh(e); if (fn == 6) F.random(g, e, size); else F.nonzerorandom(g, e, size); v.push_back(e); }
                Givaro::GivRandom c(1); c = g;          // copy assignment
                for (size_t i = half; i < n; ++i) { E e; fresh(e); if (fn == 6) F.random(c, e, size); else F.nonzerorandom(c, e, size); v.push_back(e); }
            } else if (fn == 2) {
                if constexpr ((CAPS & C_GEN) != 0) {
                    Givaro::GeneralRingRandIter<Ring> it(F, seed, size);
                    for (size_t i = 0; i < half; ++i) { E e; fresh(e); if (i % 2) it.random(e); else it(e); v.push_back(e); }
                    Givaro::GeneralRingRandIter<Ring> c(it);
                    for (size_t i = half; i < n; ++i) { E e; fresh(e); c.random(e); v.push_back(e); }
                } else ran = false;
            } else ran = false;
        } else if constexpr ((CAPS & C_GEN) != 0) {
            if (fn == 2) {
                Res_t size = (Res_t)a.W(5);
                Givaro::GeneralRingRandIter<Ring> it(F, seed, size);
                for (size_t i = 0; i < half; ++i) { E e; fresh(e); if (i % 2) it.random(e); else it(e); v.push_back(e); }
                Givaro::GeneralRingRandIter<Ring> c(it);
                for (size_t i = half; i < n; ++i) { E e; fresh(e); c.random(e); v.push_back(e); }
            } else ran = false;
        } else ran = false;
    }
    if (!ran) { out(a, "UNSUPPORTED"); return; }
    int eq = 1;
    for (size_t i = 0; i < n; ++i) if (!(s[0][i] == s[1][i])) eq = 0;
    std::string r = eq ? "1" : "0";
    for (size_t i = 0; i < n; ++i) r += " " + hx((E)s[0][i]);
    if (!eq) { r += " U"; for (size_t i = 0; i < n; ++i) r += " " + hx((E)s[1][i]); }
    out(a, r);
}

template <class Ring, int CAPS> static void ring_w(const Args& a) {   // word-sized modulus
    typedef typename Ring::Residu_t Res_t;
    Ring F((Res_t)a.W(1));
    ring_fn<Ring, CAPS>(a, F);
}

typedef RecInt::ruint<7> RU7;
typedef RecInt::ruint<8> RU8;

static void c_ring(const Args& a) {
    unsigned T = (unsigned)a.W(0);
    using namespace Givaro;
    switch (T) {
        case 0x1: ring_w<Modular<int8_t>, C_SIZE | C_GEN | C_CTOR3 | C_ASSIGN>(a); break;
        case 0x2: ring_w<Modular<uint8_t>, C_SIZE | C_GEN | C_CTOR3 | C_ASSIGN>(a); break;
        case 0x3: ring_w<Modular<int16_t>, C_SIZE | C_GEN | C_CTOR3 | C_ASSIGN>(a); break;
        case 0x4: ring_w<Modular<uint16_t>, C_SIZE | C_GEN | C_CTOR3 | C_ASSIGN>(a); break;
        case 0x5: ring_w<Modular<int32_t>, C_SIZE | C_GEN | C_CTOR3 | C_ASSIGN>(a); break;
        case 0x6: ring_w<Modular<uint32_t>, C_SIZE | C_GEN | C_CTOR3 | C_ASSIGN>(a); break;
        case 0x7: ring_w<Modular<int64_t>, C_SIZE | C_GEN | C_CTOR3 | C_ASSIGN>(a); break;
        case 0x8: ring_w<Modular<uint64_t>, C_SIZE | C_GEN | C_CTOR3 | C_ASSIGN>(a); break;
        case 0x9: ring_w<Modular<int32_t, int64_t>, C_SIZE | C_GEN | C_CTOR3 | C_ASSIGN>(a); break;
        case 0xa: ring_w<Modular<uint32_t, uint64_t>, C_SIZE | C_GEN | C_CTOR3 | C_ASSIGN>(a); break;
        case 0x10: ring_w<Modular<float>, C_GEN | C_CTOR3 | C_ASSIGN>(a); break;
        case 0x11: ring_w<Modular<double>, C_GEN | C_CTOR3 | C_ASSIGN>(a); break;
        case 0x12: ring_w<ModularBalanced<int32_t>, C_GEN | C_CTOR3 | C_ASSIGN>(a); break;
        case 0x13: ring_w<ModularBalanced<int64_t>, C_GEN | C_CTOR3 | C_ASSIGN>(a); break;
        case 0x14: ring_w<ModularBalanced<float>, C_GEN | C_CTOR3 | C_ASSIGN>(a); break;
        case 0x15: ring_w<ModularBalanced<double>, C_GEN | C_CTOR3 | C_ASSIGN>(a); break;
        case 0x16: ring_w<Montgomery<int32_t>, C_CTOR3 | C_ASSIGN>(a); break;
        case 0x17: ring_w<ModularExtended<double>, 0>(a); break;
        case 0x30: { GF2 F; ring_fn<GF2, C_SIZE | C_CTOR3 | C_ASSIGN>(a, F); break; }
        case 0x31: { ZRing<int8_t> F; ring_fn<UnparametricZRing<int8_t>, C_GEN | C_CTOR3>(a, F); break; }
        case 0x32: { ZRing<uint8_t> F; ring_fn<UnparametricZRing<uint8_t>, C_GEN | C_CTOR3>(a, F); break; }
        case 0x33: { ZRing<int16_t> F; ring_fn<UnparametricZRing<int16_t>, C_GEN | C_CTOR3>(a, F); break; }
        case 0x34: { ZRing<uint16_t> F; ring_fn<UnparametricZRing<uint16_t>, C_GEN | C_CTOR3>(a, F); break; }
        case 0x35: { ZRing<int32_t> F; ring_fn<UnparametricZRing<int32_t>, C_GEN | C_CTOR3>(a, F); break; }
        case 0x36: { ZRing<uint32_t> F; ring_fn<UnparametricZRing<uint32_t>, C_GEN | C_CTOR3>(a, F); break; }
        case 0x37: { ZRing<int64_t> F; ring_fn<UnparametricZRing<int64_t>, C_GEN | C_CTOR3>(a, F); break; }
        case 0x38: { ZRing<uint64_t> F; ring_fn<UnparametricZRing<uint64_t>, C_GEN | C_CTOR3>(a, F); break; }
        case 0x39: { ZRing<double> F; ring_fn<UnparametricZRing<double>, C_GEN | C_CTOR3>(a, F); break; }
        case 0x18: { Modular<Integer> F(argZ(a, 1)); ring_fn<Modular<Integer>, 0>(a, F); break; }
        case 0x1a: { Modular<RU7, RU8> F(toRu<7>(argZ(a, 1))); ring_fn<Modular<RU7, RU8>, 0>(a, F); break; }
        case 0x1b: { Montgomery<RU7> F(toRu<7>(argZ(a, 1))); ring_fn<Montgomery<RU7>, 0>(a, F); break; }
        case 0x1c: { Modular<RecInt::rint<7>> F(toRi<7>(argZ(a, 1))); ring_fn<Modular<RecInt::rint<7>>, 0>(a, F); break; }
        case 0x20: { GFqDom<int32_t> F((uint32_t)a.W(1), (uint32_t)a.W(2)); ring_fn<GFqDom<int32_t>, C_SIZE | C_CTOR3 | C_ASSIGN>(a, F); break; }
        case 0x21: { GFqDom<int64_t> F((uint64_t)a.W(1), (uint64_t)a.W(2)); ring_fn<GFqDom<int64_t>, C_SIZE | C_CTOR3 | C_ASSIGN>(a, F); break; }
        default: out(a, "BADTYPE");
    }
}

// ------------------------------------------------------------------------------------------
// D. random polynomials over Modular<int32_t> (T = 5) and GFqDom<int32_t> (T = 0x20)
// ------------------------------------------------------------------------------------------
// poly T p k seed kind arg = size c0 … c_{size-1}
//   kind 0 random(g, P, Degree(arg))   1 random(g, P, uint64_t size = arg)   2 random(g, P)   3 random(g, P, B) with B of size arg
//        4..7 the same through nonzerorandom
template <class Dom>
static void poly_run(const Args& a, const Dom& F) {
    typedef Givaro::Poly1Dom<Dom, Givaro::Dense> PD;
    PD D(F, Givaro::Indeter("X"));
    uint64_t seed = a.W(3); int kind = (int)a.W(4); long arg = (long)a.SW(5);
    // three draws from the same seed into destinations that hold (0) a LONGER polynomial of ones, (1) nothing, (2) a shorter
    // non-canonical one: what the destination held must not show in the draw.  Printed: draw 0, then after U draws 1 and 2.
    std::string r;
    for (int rep = 0; rep < 3; ++rep) {
        Givaro::GivRandom g(seed);
        typename PD::Element P, B;
        if (rep == 0) P.assign((size_t)((arg > 0 ? arg : 0) + 9), F.one);
        else if (rep == 2) { P.resize(1); set_junk(P[0]); }
        switch (kind) {
            case 0: D.random(g, P, Givaro::Degree(arg)); break;
            case 1: D.random(g, P, (uint64_t)arg); break;
            case 2: D.random(g, P); break;
            case 3: B.resize((size_t)arg); D.random(g, P, B); break;
            case 4: D.nonzerorandom(g, P, Givaro::Degree(arg)); break;
            case 5: D.nonzerorandom(g, P, (uint64_t)arg); break;
            case 6: D.nonzerorandom(g, P); break;
            case 7: B.resize((size_t)arg); D.nonzerorandom(g, P, B); break;
            default: out(a, "BADKIND"); return;
        }
        if (rep == 1) r += " U";
        if (rep == 2) r += " U";
        r += (rep ? " " : "") + vp::hex_ull(P.size());
        for (size_t i = 0; i < P.size(); ++i) r += " " + hx(P[i]);
    }
    out(a, r);
}
static void c_poly(const Args& a) {
    unsigned T = (unsigned)a.W(0);
    if (T == 0x5) { Givaro::Modular<int32_t> F((uint32_t)a.W(1)); poly_run(a, F); }
    else if (T == 0x20) { Givaro::GFqDom<int32_t> F((uint32_t)a.W(1), (uint32_t)a.W(2)); poly_run(a, F); }
    else if (T == 0x11) { Givaro::Modular<double> F((double)a.W(1)); poly_run(a, F); }
    else if (T == 0x12) { Givaro::ModularBalanced<int32_t> F((int32_t)a.W(1)); poly_run(a, F); }
    else if (T == 0x16) { Givaro::Montgomery<int32_t> F((uint32_t)a.W(1)); poly_run(a, F); }
    else out(a, "BADTYPE");
}

// ------------------------------------------------------------------------------------------
// D2. Extension<Modular<int32_t>> (extension.h): elements are polynomials over the base field
// ------------------------------------------------------------------------------------------
// ext p e seed kind arg = size c0 … U size c0 … U size c0 …
//   kind 0 random(g, r)   1 random(g, r, int64_t s = arg)   2 random(g, r, b) with b of size arg   3..5 the same through nonzerorandom
//        6 Extension::RandIter(F, size = arg, seed): the second element drawn (the iterator of rep 2 is a copy taken after the first draw)
//   three draws from the same seed into destinations that held (0) a longer polynomial of ones, (1) nothing, (2) a shorter non-canonical one
static void c_ext(const Args& a) {
    typedef Givaro::Modular<int32_t> BF;
    typedef Givaro::Extension<BF> EF;
    BF F((uint32_t)a.W(0));
    uint32_t e = (uint32_t)a.W(1);
    EF E(F, e);
    uint64_t seed = a.W(2); int kind = (int)a.W(3); long arg = (long)a.SW(4);
    std::string r;
    for (int rep = 0; rep < 3; ++rep) {
        Givaro::GivRandom g(seed);
        EF::Element P, B;
        if (rep == 0) P.assign((size_t)e + 9, F.one);
        else if (rep == 2) { P.resize(1); set_junk(P[0]); }
        switch (kind) {
            case 0: E.random(g, P); break;
            case 1: E.random(g, P, (int64_t)arg); break;
            case 2: B.resize((size_t)arg); E.random(g, P, B); break;
            case 3: E.nonzerorandom(g, P); break;
            case 4: E.nonzerorandom(g, P, (int64_t)arg); break;
            case 5: B.resize((size_t)arg); E.nonzerorandom(g, P, B); break;
            case 6: {
                EF::RandIter it(E, Integer((long)arg), Integer(seed));
                EF::Element Q; it.random(Q);
                if (rep == 2) { EF::RandIter c(it); c.random(P); } else it(P);
                break;
            }
            default: out(a, "BADKIND"); return;
        }
        if (rep) r += " U ";
        r += vp::hex_ull(P.size());
        for (size_t i = 0; i < P.size(); ++i) r += " " + hx(P[i]);
    }
    out(a, r);
}

// ------------------------------------------------------------------------------------------
// D3. QField<Rational>::random / nonzerorandom (qfield.h): numerator and denominator are Integer::random / nonzerorandom draws (GMP's generator)
// ------------------------------------------------------------------------------------------
// qf seed pat kind a b = num den T trace U num2 den2
//   kind 0 random(g, r, int64_t s = a)   1 nonzerorandom(g, r, s = a)   2 random(g, r, B)   3 nonzerorandom(g, r, B)   with B = Rational(a, b)
//   the draw is made twice from the same generator state into destinations holding different rationals
static void c_qf(const Args& a) {
    uint64_t seed = a.W(0); unsigned long long pat = a.W(1); int kind = (int)a.W(2);
    Integer A = argZ(a, 3), Bd = argZ(a, 4);
    Givaro::QField<Givaro::Rational> Q;
    Givaro::GivRandom g(seed | 1);
    std::string res[2], log1;
    for (int rep = 0; rep < 2; ++rep) {
        Givaro::Rational r = rep ? Givaro::Rational(Integer(-7), pow2(70) + 1) : Givaro::Rational(pow2(300) + 7, Integer(3));
        Givaro::Rational B(1);
        if (kind >= 2) B = Givaro::Rational(A, Bd);
        Integer::seeding((uint64_t)seed);
        tr::begin(pat);
        switch (kind) {
            case 0: Q.random(g, r, (int64_t)(long)A); break;
            case 1: Q.nonzerorandom(g, r, (int64_t)(long)A); break;
            case 2: Q.random(g, r, B); break;
            case 3: Q.nonzerorandom(g, r, B); break;
            default: tr::end(); out(a, "BADKIND"); return;
        }
        tr::end();
        if (rep == 0) log1 = tr::log;
        res[rep] = hx(r.nume()) + " " + hx(r.deno());
    }
    out(a, res[0] + " T" + log1 + " U " + res[1]);
}

// ------------------------------------------------------------------------------------------
// E. RecInt: rand(ruint<K>), rand(rint<K>), rand(rmint<K>) on std::mt19937_64
// ------------------------------------------------------------------------------------------
// ru K seed n = v1..vn T w1 w2 …      (raw 64-bit words in the order the generator produced them)
template <size_t K> static void ru_run(const Args& a) {
    uint64_t seed = a.W(1); size_t n = a.W(2);
    RecInt::srand(seed);
    std::mt19937_64 copy = RecInt::rand_gen;
    std::string r;
    // destinations pre-filled with all ones; then (after U) the same seed into zeroed destinations
    for (size_t i = 0; i < n; ++i) { RecInt::ruint<K> v; set_junk(v); RecInt::rand(v); r += (i ? " " : ""); r += hx(v); }
    r += " T";
    size_t words = n * ((size_t)1 << (K - 6));
    for (size_t i = 0; i < words; ++i) r += " " + vp::hex_ull(copy());
    r += " U";
    RecInt::srand(seed);
    for (size_t i = 0; i < n; ++i) { RecInt::ruint<K> v(0); RecInt::rand(v); r += " " + hx(v); }
    out(a, r);
}
// ri K seed n = v1..vn T words U v1'..vn'     rand(rint<K>&): the same bits, read as a signed number
template <size_t K> static void ri_run(const Args& a) {
    uint64_t seed = a.W(1); size_t n = a.W(2);
    RecInt::srand(seed);
    std::mt19937_64 copy = RecInt::rand_gen;
    std::string r;
    for (size_t i = 0; i < n; ++i) { RecInt::rint<K> v; set_junk(v); RecInt::rand(v); r += (i ? " " : ""); r += hx(v); }
    r += " T";
    size_t words = n * ((size_t)1 << (K - 6));
    for (size_t i = 0; i < words; ++i) r += " " + vp::hex_ull(copy());
    r += " U";
    RecInt::srand(seed);
    for (size_t i = 0; i < n; ++i) { RecInt::rint<K> v(0); RecInt::rand(v); r += " " + hx(v); }
    out(a, r);
}
// rm K mg p seed n = v1..vn T words       (v: the stored residue a.Value after rand(a))
template <size_t K, size_t MG> static void rm_run(const Args& a) {
    uint64_t seed = a.W(3); size_t n = a.W(4);
    RecInt::ruint<K> p = toRu<K>(argZ(a, 2));
    RecInt::rmint<K, MG>::init_module(p);
    RecInt::srand(seed);
    std::mt19937_64 copy = RecInt::rand_gen;
    std::string r;
    for (size_t i = 0; i < n; ++i) { RecInt::rmint<K, MG> v; set_junk(v.Value); if (i % 2) RecInt::rand(v); else v.random(); r += (i ? " " : ""); r += hx(v.Value); }
    r += " T";
    size_t words = n * ((size_t)1 << (K - 6));
    for (size_t i = 0; i < words; ++i) r += " " + vp::hex_ull(copy());
    r += " U";
    RecInt::srand(seed);
    for (size_t i = 0; i < n; ++i) { RecInt::rmint<K, MG> v; v.Value = 0; RecInt::rand(v); r += " " + hx(v.Value); }
    out(a, r);
}
// rurep K seed n = eq       srand(seed) twice gives the same sequence
template <size_t K> static void rurep_run(const Args& a) {
    uint64_t seed = a.W(1); size_t n = a.W(2);
    std::vector<std::string> s[2];
    for (int rep = 0; rep < 2; ++rep) {
        RecInt::srand(seed);
        for (size_t i = 0; i < n; ++i) { RecInt::ruint<K> v; RecInt::rand(v); s[rep].push_back(hx(v)); }
    }
    out(a, s[0] == s[1] ? "1" : "0");
}
static void c_ru(const Args& a) {
    switch (a.W(0)) {
        case 6: ru_run<6>(a); break; case 7: ru_run<7>(a); break; case 8: ru_run<8>(a); break;
        case 9: ru_run<9>(a); break; case 10: ru_run<10>(a); break; default: out(a, "BADK");
    }
}
static void c_ri(const Args& a) {
    switch (a.W(0)) {
        case 6: ri_run<6>(a); break; case 7: ri_run<7>(a); break; case 8: ri_run<8>(a); break; default: out(a, "BADK");
    }
}
static void c_rurep(const Args& a) {
    switch (a.W(0)) {
        case 6: rurep_run<6>(a); break; case 7: rurep_run<7>(a); break; case 8: rurep_run<8>(a); break;
        case 9: rurep_run<9>(a); break; default: out(a, "BADK");
    }
}
static void c_rm(const Args& a) {
    size_t K = a.W(0), mg = a.W(1);
    if (K == 6 && mg == 0) rm_run<6, RecInt::MGI>(a);
    else if (K == 7 && mg == 0) rm_run<7, RecInt::MGI>(a);
    else if (K == 8 && mg == 0) rm_run<8, RecInt::MGI>(a);
    else if (K == 7 && mg == 1) rm_run<7, RecInt::MGA>(a);
    else if (K == 8 && mg == 1) rm_run<8, RecInt::MGA>(a);
    else out(a, "BADK");
}

// ------------------------------------------------------------------------------------------
// dispatch
// ------------------------------------------------------------------------------------------
static void on_alarm(int) {
    const char msg[] = "h_random: case did not terminate within the watchdog time\n";
    if (write(2, msg, sizeof msg - 1)) {}
    _exit(124);
}

static void run_case(const Args& a) {
    const std::string& k = a.tok[0];
    alarm(5);
    if (k == "giv") c_giv(a);
    else if (k == "givlong") c_givlong(a);
    else if (k == "givcopy") c_givcopy(a);
    else if (k == "givx") c_givx(a);
    else if (k == "ri") c_ri(a);
    else if (k == "rii") c_rii(a);
    else if (k == "seedrep") c_seedrep(a);
    else if (k == "ring") c_ring(a);
    else if (k == "poly") c_poly(a);
    else if (k == "ext") c_ext(a);
    else if (k == "qf") c_qf(a);
    else if (k == "ru") c_ru(a);
    else if (k == "rurep") c_rurep(a);
    else if (k == "rm") c_rm(a);
    else c_int(a);
    alarm(0);
}

// ------------------------------------------------------------------------------------------
// case generation (every random choice from the seed)
// ------------------------------------------------------------------------------------------
struct Gen {
    vp::Rng rng;
    bool thorough;
    std::vector<std::string> L;
    Gen(uint64_t seed, bool th) : rng(seed * 1000003ULL + 20), thorough(th) {}
    static std::string H(unsigned long long v) { return vp::hex_ull(v); }
    static std::string HZ(const Integer& z) { return hx(z); }
    void add(const std::string& s) { L.push_back(s); }

    Integer bigrand(unsigned bits) {       // exactly `bits` bits, limbs from {0, 1, 2^63, 2^64-1, random}
        Integer v(0);
        unsigned limbs = (bits + 63) / 64;
        for (unsigned i = 0; i < limbs; ++i) {
            uint64_t l;
            switch (rng.below(6)) { case 0: l = 0; break; case 1: l = 1; break; case 2: l = 1ULL << 63; break; case 3: l = ~0ULL; break; default: l = rng.next(); }
            v <<= 64; v += Integer(l);
        }
        Integer m = pow2(bits); v %= m;
        Integer top = pow2(bits - 1);
        if (v < top) v += top;
        return v;
    }

    std::vector<uint64_t> seeds() {
        const uint64_t M = 2147483647ULL;
        std::vector<uint64_t> s = {1, 2, 3, 7, 48271, 950706376ULL, M - 2, M - 1, M, M + 1, 2 * M - 1, 2 * M, 2 * M + 1, 3 * M, 1ULL << 31, (1ULL << 32) - 1,
                                   1ULL << 32, (1ULL << 32) + 1, 9701ULL * 1000003ULL, 9702000000ULL, 9702500000ULL, M * M, M * 4294967298ULL, 1ULL << 33, 1ULL << 53,
                                   (1ULL << 62) - 1, 1ULL << 62, (1ULL << 63) - 1, 1ULL << 63, (1ULL << 63) + 1, ~0ULL - 1, ~0ULL,
                                   M * 1000ULL, M * (1ULL << 32), 0x8000000000000000ULL / 950706376ULL, 0x8000000000000000ULL / 950706376ULL + 1,
                                   12345678901234567ULL, 0xDEADBEEFCAFEBABEULL,
                                   // seed normalisation grid: x -> 1 + (x-1) mod (M-1); multiples of M and of M-1, their neighbours, the largest ones
                                   // below 2^64, and negative numbers handed over as signed (-1, -M, -(M-1), INT64_MIN +- 1)
                                   2 * (M - 1), 2 * (M - 1) + 1, 2 * (M - 1) + 2, 3 * (M - 1) + 1, (M - 1) << 32, ((M - 1) << 32) + 1,
                                   (~0ULL / M) * M, (~0ULL / M) * M - 1, (~0ULL / M) * M + 1, (~0ULL / (M - 1)) * (M - 1), (~0ULL / (M - 1)) * (M - 1) + 1,
                                   0ULL - M, 0ULL - (M - 1), 0ULL - 2 * M, (1ULL << 63) - M, (1ULL << 63) + M, (1ULL << 63) + 2, 0x8000000000000001ULL};
        size_t extra = thorough ? 200 : 24;
        for (size_t i = 0; i < extra; ++i) {
            uint64_t x = rng.next();
            switch (i % 4) { case 0: x %= M; if (!x) x = 1; break; case 1: x >>= rng.below(33); if (!x) x = 1; break; case 2: x = (x % (1ULL << 33)) * M; if (!x) x = M; break; default: if (!x) x = 1; }
            s.push_back(x);
        }
        return s;
    }

    void gen_giv() {
        std::vector<uint64_t> ss = seeds();
        for (uint64_t s : ss) {
            add("giv " + H(s) + " " + H(24));
            add("givcopy " + H(s) + " " + H(rng.below(9)) + " " + H(16));
            add("givx " + H(s) + " " + H(21));
        }
        size_t nl = thorough ? 48 : 12;
        for (size_t i = 0; i < nl && i < ss.size(); ++i) add("givlong " + H(ss[(i * 5) % ss.size()]) + " " + H(thorough ? 100000 : 10000));
        add("givlong 1 " + H(thorough ? 3000000 : 200000));
        add("givlong " + H(rng.next() % 2147483646ULL + 1) + " " + H(thorough ? 1000000 : 100000));
    }

    std::vector<uint64_t> bit_sizes() {
        std::vector<uint64_t> b = {1, 2, 3, 7, 8, 31, 32, 33, 63, 64, 65, 127, 128, 129, 191, 192, 193, 255, 256, 257, 1000};
        size_t extra = thorough ? 30 : 4;
        for (size_t i = 0; i < extra; ++i) b.push_back(1 + rng.below(thorough ? 5000 : 700));
        return b;
    }
    std::vector<Integer> bounds() {       // m >= 1
        std::vector<Integer> b;
        for (unsigned v : {1u, 2u, 3u, 4u, 5u, 7u, 8u, 10u, 26u, 255u, 256u, 511u}) b.push_back(Integer(v));
        for (unsigned e : {31u, 32u, 63u, 64u, 65u, 127u, 128u, 192u, 256u, 3000u}) { b.push_back(pow2(e) - 1); b.push_back(pow2(e)); b.push_back(pow2(e) + 1); }
        size_t extra = thorough ? 60 : 8;
        for (size_t i = 0; i < extra; ++i) b.push_back(bigrand(1 + (unsigned)rng.below(thorough ? 2000 : 400)));
        return b;
    }
    // patterns: every sequence of length <= 3 over {real, min, max} (27 codes incl. trailing reals), + a few longer
    std::vector<unsigned long long> patterns(size_t maxn) {
        std::vector<unsigned long long> p;
        for (unsigned long long c = 0; c < 27 && p.size() < maxn; ++c) p.push_back(c);
        return p;
    }
    uint64_t sd() { return rng.next() >> rng.below(40); }

    void gen_int() {
        size_t first_line = L.size();
        gen_int_lines();
        // every line gets the previous content of the destination as a last argument (the draw must not depend on it)
        std::vector<Integer> olds = {Integer(0), Integer(1), Integer(-1), pow2(64), -(pow2(130) + 12345), pow2(300) + pow2(64) + 3, -pow2(63), pow2(1000) - 1};
        for (size_t i = first_line; i < L.size(); ++i) {
            if (L[i].compare(0, 7, "seedrep") == 0) continue;
            L[i] += " " + HZ(olds[(i * 7 + i / 8) % olds.size()]);
        }
    }
    void gen_int_lines() {
        std::vector<Integer> bs = bounds();
        std::vector<uint64_t> bits = bit_sizes();
        size_t np = thorough ? 27 : 9;
        const unsigned long long fewpat[] = {0, 1, 2, 4, 5, 7, 8, 13, 26, 40, 80, 121, 242, 364, 728};
        auto pats = [&](size_t i) -> std::vector<unsigned long long> {
            std::vector<unsigned long long> p;
            if (thorough) {     // every sequence over {real, min, max} of length <= 3, and selected ones of length 4 .. 7
                for (unsigned long long c = 0; c < 27; ++c) p.push_back(c);
                for (unsigned long long c : {28ULL, 31ULL, 40ULL, 41ULL, 53ULL, 54ULL, 67ULL, 79ULL, 80ULL, 121ULL, 161ULL, 242ULL, 364ULL, 728ULL, 1093ULL, 2186ULL}) p.push_back(c);
            }
            else { for (size_t j = 0; j < np; ++j) p.push_back(fewpat[(i + j * 2) % 15]); p.push_back(0); }
            return p;
        };
        size_t ci = 0;
        for (const Integer& m : bs) {
            for (unsigned long long pt : pats(ci++)) for (int ap = 0; ap < 2; ++ap) {
                std::string hd = " " + H(sd()) + " " + H(pt) + " " + H(ap) + " " + HZ(m);
                add("lt" + hd);
                add("rndI" + hd);
                if (m >= 2) add("nzI" + hd);
                add("exI" + hd);
                add("exI " + H(sd()) + " " + H(pt) + " " + H(ap) + " -" + HZ(m));
                if (pt < 3 || pt == 13) {       // the remaining overloads that reach the same code (fewer substitution patterns)
                    add("rndIv" + hd); add("exVI" + hd);
                    if (m >= 2) { add("nzIv" + hd); add("zrI" + hd); }
                    if (ap) { add("rndIT" + hd); add("exI0" + hd); add("zrI" + hd); }
                }
            }
            add("lt0 " + H(sd()) + " " + H(ci % 3) + " 1 " + HZ(m));
        }
        add("exI " + H(sd()) + " 0 1 0");      // s = 0: bitsize(0) = 1
        add("exI " + H(sd()) + " 2 0 0");
        for (uint64_t n : bits) {
            for (unsigned long long pt : pats(ci++)) for (int ap = 0; ap < 2; ++ap) {
                std::string hd = " " + H(sd()) + " " + H(pt) + " " + H(ap) + " " + H(n);
                add("lt2" + hd); add("ltw" + hd); add("ltv" + hd); add("ex2" + hd); add("exT" + hd); add("exV" + hd); add("nz" + hd); add("nzv" + hd); add("rndW" + hd);
                if (pt < 3 || pt == 13) {
                    add("ltv0" + hd); add("exw" + hd); add("rndWv" + hd); add("zrW" + hd);
                    if (ap) { add("lt20" + hd); add("ltw0" + hd); add("ltvT" + hd); add("ex20" + hd); add("nzT" + hd); }
                }
            }
        }
        for (int ap = 0; ap < 2; ++ap) for (unsigned long long pt : pats(ci++)) {
            add("lt2 " + H(sd()) + " " + H(pt) + " " + H(ap) + " 0");     // 0 bits: the only value is 0
            add("rnd0 " + H(sd()) + " " + H(pt) + " " + H(ap) + " 0");
            add("nz0 " + H(sd()) + " " + H(pt) + " 1 0");
            add("rnd0t " + H(sd()) + " " + H(pt) + " 1 0");
            add("rbool " + H(sd()) + " " + H(pt) + " 1 0");
        }
        // between: lo < hi, both signs, width 1, word boundaries, multi-limb
        std::vector<Integer> los;
        for (int v : {0, 1, -1, 26, -26, 1000}) los.push_back(Integer(v));
        for (unsigned e : {32u, 63u, 64u, 128u}) { los.push_back(pow2(e)); los.push_back(-pow2(e)); los.push_back(pow2(e) - 1); }
        for (size_t i = 0; i < (thorough ? 20u : 3u); ++i) { Integer v = bigrand(1 + (unsigned)rng.below(300)); los.push_back(rng.below(2) ? v : -v); }
        std::vector<Integer> widths;
        for (unsigned v : {1u, 2u, 3u, 485u}) widths.push_back(Integer(v));
        for (unsigned e : {32u, 64u, 65u, 200u}) { widths.push_back(pow2(e)); widths.push_back(pow2(e) - 1); }
        for (const Integer& lo : los) for (const Integer& w : widths) for (unsigned long long pt : pats(ci++)) {
            Integer hi = lo + w;
            add("btw " + H(sd()) + " " + H(pt) + " " + HZ(lo) + " " + HZ(hi));
            if (pt < 3) add("btwv " + H(sd()) + " " + H(pt) + " " + HZ(lo) + " " + HZ(hi));
        }
        // between exponents m < M
        std::vector<std::pair<uint64_t, uint64_t>> ex = {{0, 1}, {0, 2}, {1, 2}, {3, 6}, {0, 64}, {63, 64}, {64, 65}, {31, 33}, {64, 128}, {1, 300}, {127, 129}, {200, 201}, {0, 1000}};
        for (size_t i = 0; i < (thorough ? 40u : 4u); ++i) { uint64_t m = rng.below(400); ex.push_back({m, m + 1 + rng.below(300)}); }
        for (auto& e : ex) for (unsigned long long pt : pats(ci++)) {
            std::string hd = " " + H(sd()) + " " + H(pt) + " " + H(e.first) + " " + H(e.second);
            add("btw2" + hd); add("btwT" + hd); add("btwU" + hd);
            if (pt < 3 || pt == 13) { add("btw2v" + hd); add("btwW" + hd); add("btwTv" + hd); }
        }
        // RandomIntegerIterator
        for (uint64_t n : bits) for (int u = 0; u < 2; ++u) for (int e = 0; e < 2; ++e) {
            if (n > 300 && !thorough) continue;
            unsigned long long pt = fewpat[(ci++) % 15];
            add("rii " + H(sd() | 1) + " " + H(pt) + " " + H(u) + " " + H(e) + " 0 " + H(n) + " 6");
            add("rii " + H(sd() | 1) + " " + H(pt) + " " + H(u) + " " + H(e) + " 1 " + HZ(bigrand((unsigned)n)) + " 6");
        }
        // reproducibility from the seed
        for (uint64_t s : {1ULL, 2ULL, 0xFFFFFFFFULL, 0x100000000ULL, ~0ULL, (unsigned long long)rng.next(), (unsigned long long)rng.next()})
            for (int how = 0; how < 3; ++how) for (uint64_t b : {1ULL, 64ULL, 65ULL, 300ULL}) add("seedrep " + H(s) + " " + H(how) + " " + H(thorough ? 400 : 40) + " " + H(b));
        add("seedrep " + HZ(pow2(200) + 12345) + " 1 40 80");
    }

    template <class Ring> std::vector<uint64_t> word_moduli(uint64_t cap = 0) {
        uint64_t lo = (uint64_t)Ring::minCardinality(), hi = (uint64_t)Ring::maxCardinality();
        if (cap && hi > cap) hi = cap;
        std::vector<uint64_t> m = {lo, lo + 1, lo + 2, 5, 7, 16, 17, 101, 127, 128, 251, 256, 257, 1009, 32749, 65521, 65536, 65537, 2147483629ULL, 2147483646ULL, 2147483647ULL,
                                   2147483648ULL, 4294967291ULL, 4294967295ULL, hi, hi - 1, hi - 2, hi / 2, hi / 2 + 1};
        for (size_t i = 0; i < (thorough ? 12u : 2u); ++i) m.push_back(lo + rng.next() % (hi - lo + 1));
        std::vector<uint64_t> r;
        for (uint64_t v : m) if (v >= lo && v <= hi && std::find(r.begin(), r.end(), v) == r.end()) r.push_back(v);
        return r;
    }
    // seeds for the GivRandom-based iterators.  `degenerate_ok` = false leaves out the seeds that are 0 modulo 2^31-1 after the
    // first step (multiples of the modulus, 2^63): without the seed normalisation of the GivRandom constructor they make every
    // nonzerorandom loop spin until the watchdog fires; the looping draw functions get them for the first modulus of each type only,
    // so that such a regression costs seconds, not the whole time budget.
    uint64_t gseed(bool degenerate_ok = true) {
        static const uint64_t fixed[] = {1, 2, 2147483646ULL, 2147483647ULL, 2147483648ULL, 4294967294ULL, 1ULL << 33, 1ULL << 63, ~0ULL, 9702500000ULL};
        uint64_t r = rng.next();
        if (r % 3 == 0) {
            uint64_t f = fixed[(r >> 8) % 10];
            if (!degenerate_ok && (f % 2147483647ULL == 0 || f == (1ULL << 63))) f = f / 3 + 1;
            return f;
        }
        if (r % 3 == 1) return (r >> 8) % 2147483646ULL + 1;
        return (r >> rng.below(33)) | 1;
    }
    template <class Ring> void ring_cases(unsigned T, int caps, bool odd_only = false, uint64_t cap = 0) {
        size_t n = thorough ? 200 : 40;
        size_t pi = 0;
        for (uint64_t p : word_moduli<Ring>(cap)) {
            if (odd_only && p % 2 == 0) continue;
            bool first = (pi++ == 0);
            std::string hd = "ring " + H(T) + " " + H(p) + " 1 ";
            for (int fn : {0, 3, 4, 5}) add(hd + H(gseed(first || fn == 0 || fn == 4)) + " " + H(fn) + " 0 " + H(n));
            if (first) for (uint64_t s : {(uint64_t)2147483647ULL, (uint64_t)4294967294ULL, (uint64_t)1 << 63}) add(hd + H(s) + " 5 0 " + H(n));
            add(hd + H(gseed()) + " 0 0 " + H(n));
            if (caps & C_GEN) for (uint64_t sz : {(uint64_t)0, (uint64_t)1, (uint64_t)2, p / 2 + 1, p}) add(hd + H(gseed()) + " 2 " + H(sz) + " " + H(n));
            for (uint64_t sz : {(uint64_t)0, (uint64_t)1, (uint64_t)3, p / 2 + 1, p}) { add(hd + H(gseed()) + " 8 " + H(sz) + " " + H(n)); add(hd + H(gseed()) + " 9 " + H(sz) + " " + H(n)); }
            if (caps & C_SIZE) {
                std::vector<uint64_t> szs = {0, 1, 2, 3, p / 2, p - 1, p, p + 1};
                uint64_t rmax = (uint64_t)(typename Ring::Residu_t)(~0ULL);
                szs.push_back(rmax);
                for (uint64_t sz : szs) {
                    if (sz > rmax) continue;
                    add(hd + H(gseed()) + " 1 " + H(sz) + " " + H(n));
                    if (sz >= 1) add(hd + H(gseed()) + " 6 " + H(sz) + " " + H(n));
                    if (sz >= 2) add(hd + H(gseed(first)) + " 7 " + H(sz) + " " + H(n));
                }
            }
        }
    }
    void gen_ring() {
        using namespace Givaro;
        ring_cases<Modular<int8_t>>(0x1, C_SIZE | C_GEN);
        ring_cases<Modular<uint8_t>>(0x2, C_SIZE | C_GEN);
        ring_cases<Modular<int16_t>>(0x3, C_SIZE | C_GEN);
        ring_cases<Modular<uint16_t>>(0x4, C_SIZE | C_GEN);
        ring_cases<Modular<int32_t>>(0x5, C_SIZE | C_GEN);
        ring_cases<Modular<uint32_t>>(0x6, C_SIZE | C_GEN);
        ring_cases<Modular<int64_t>>(0x7, C_SIZE | C_GEN);
        ring_cases<Modular<uint64_t>>(0x8, C_SIZE | C_GEN);
        ring_cases<Modular<int32_t, int64_t>>(0x9, C_SIZE | C_GEN);
        ring_cases<Modular<uint32_t, uint64_t>>(0xa, C_SIZE | C_GEN);
        ring_cases<Modular<float>>(0x10, C_GEN);
        ring_cases<Modular<double>>(0x11, C_GEN);
        ring_cases<ModularBalanced<int32_t>>(0x12, C_GEN);
        ring_cases<ModularBalanced<int64_t>>(0x13, C_GEN);
        ring_cases<ModularBalanced<float>>(0x14, C_GEN);
        ring_cases<ModularBalanced<double>>(0x15, C_GEN);
        ring_cases<Montgomery<int32_t>>(0x16, 0, true);
        ring_cases<ModularExtended<double>>(0x17, 0);
        {   // GF2 and the ZRing family (no modulus)
            size_t nz = thorough ? 200 : 40;
            for (int fn : {0, 1, 3, 4, 5, 6, 7, 8, 9}) for (int rpt = 0; rpt < (thorough ? 8 : 3); ++rpt)
                add("ring 30 2 1 " + H(gseed(fn != 3)) + " " + H(fn) + " " + H(rpt) + " " + H(nz));
            for (unsigned T = 0x31; T <= 0x39; ++T) {
                for (int fn : {0, 3, 4, 5}) for (int rpt = 0; rpt < (thorough ? 6 : 2); ++rpt)
                    add("ring " + H(T) + " 0 1 " + H(gseed(fn == 0 || fn == 4)) + " " + H(fn) + " 0 " + H(nz));
                for (uint64_t sz : {(uint64_t)0, (uint64_t)1, (uint64_t)2, (uint64_t)3, (uint64_t)100, (uint64_t)127})
                    { add("ring " + H(T) + " 0 1 " + H(gseed()) + " 2 " + H(sz) + " " + H(nz)); add("ring " + H(T) + " 0 1 " + H(gseed()) + " 8 " + H(sz) + " " + H(nz)); }
                if (T >= 0x33) for (uint64_t sz : {(uint64_t)255, (uint64_t)256, (uint64_t)32767}) add("ring " + H(T) + " 0 1 " + H(gseed()) + " 2 " + H(sz) + " " + H(nz));
                if (T >= 0x35) for (uint64_t sz : {(uint64_t)65536, (uint64_t)2147483646ULL, (uint64_t)2147483647ULL}) add("ring " + H(T) + " 0 1 " + H(gseed()) + " 2 " + H(sz) + " " + H(nz));
                if (T >= 0x37 && T != 0x39) for (uint64_t sz : {(uint64_t)2147483648ULL, (uint64_t)1 << 40, (uint64_t)0x7fffffffffffffffULL}) add("ring " + H(T) + " 0 1 " + H(gseed()) + " 2 " + H(sz) + " " + H(nz));
            }
        }
        // big moduli
        std::vector<Integer> big = {Integer(2), Integer(3), Integer(101), pow2(64) - 59, pow2(64) + 13, pow2(127) - 1};
        for (size_t i = 0; i < (thorough ? 8u : 1u); ++i) big.push_back(bigrand(2 + (unsigned)rng.below(126)) | Integer(1));
        size_t n = thorough ? 100 : 20;
        for (const Integer& p : big) {
            for (unsigned T : {0x18u, 0x1au, 0x1bu, 0x1cu}) {
                if (T == 0x1b && (p % 2 == 0 || p < 3)) continue;
                if (T != 0x18 && p >= pow2(127)) continue;
                if (T == 0x1c && p >= pow2(63)) continue;          // signed storage: half the bits (maxCardinality of Modular<rint<7>>)
                for (int fn : {0, 3, 4, 5}) {
                    add("ring " + H(T) + " " + HZ(p) + " 1 " + H(gseed(fn == 0 || fn == 4)) + " " + H(fn) + " 0 " + H(n));
                }
            }
        }
        // GF(p^k), tabulated: q <= 2^20 in quick
        std::vector<std::pair<uint64_t, uint64_t>> pk = {{2, 1}, {2, 2}, {2, 3}, {2, 8}, {3, 1}, {3, 2}, {3, 4}, {5, 3}, {7, 2}, {11, 3}, {13, 1}, {101, 2}, {251, 1}, {257, 2}, {1009, 1}, {65521, 1}, {2, 16}, {3, 10}};
        if (thorough) { pk.push_back({2, 20}); pk.push_back({1048573, 1}); pk.push_back({1021, 2}); }
        for (auto& e : pk) for (unsigned T : {0x20u, 0x21u}) {
            uint64_t q = 1; for (uint64_t i = 0; i < e.second; ++i) q *= e.first;
            std::string hd = "ring " + H(T) + " " + H(e.first) + " " + H(e.second) + " ";
            size_t nn = thorough ? 200 : 40;
            for (int fn : {0, 3, 4, 5}) add(hd + H(gseed(fn != 3 || e.first == 2)) + " " + H(fn) + " 0 " + H(nn));
            // the iterator accepts any sampling size (documented: at most the cardinality is used);
            // the member functions with an explicit size are called with sizes inside the field only
            for (uint64_t sz : {(uint64_t)0, (uint64_t)1, (uint64_t)2, (uint64_t)3, q / 2 + 1, q - 1, q, q + 1, 2 * q + 1, (uint64_t)0x7fffffff}) {
                add(hd + H(gseed()) + " 1 " + H(sz) + " " + H(nn));
                add(hd + H(gseed()) + " 8 " + H(sz) + " " + H(nn));
                add(hd + H(gseed()) + " 9 " + H(sz) + " " + H(nn));
                if (sz >= 1 && sz <= q) add(hd + H(gseed()) + " 6 " + H(sz) + " " + H(nn));
                if (sz >= 2 && sz <= q) add(hd + H(gseed()) + " 7 " + H(sz) + " " + H(nn));
            }
        }
    }
    void gen_poly() {
        std::vector<uint64_t> ps = {2, 3, 5, 101, 32749, 65521, 46337};
        std::vector<long> degs = {0, 1, 2, 3, 7, 8, 31, 32, 33, 64, 100};
        if (thorough) { degs.push_back(255); degs.push_back(256); degs.push_back(1000); }
        for (uint64_t p : ps) for (long d : degs) for (int kind : {0, 1, 3, 4, 5, 7}) {
            long arg = (kind % 4 == 0) ? d : d + 1;      // sizes are degree + 1
            add("poly 5 " + H(p) + " 1 " + H(gseed(p == 2 && d <= 1)) + " " + H(kind) + " " + H(arg));
        }
        for (uint64_t p : ps) for (int kind : {2, 6}) add("poly 5 " + H(p) + " 1 " + H(gseed(p == 2)) + " " + H(kind) + " 0");
        // size 0 / degree -infinity: the zero polynomial
        for (uint64_t p : {(uint64_t)2, (uint64_t)101}) {
            add("poly 5 " + H(p) + " 1 " + H(gseed()) + " 0 -1");
            add("poly 5 " + H(p) + " 1 " + H(gseed()) + " 0 -5");
            add("poly 5 " + H(p) + " 1 " + H(gseed()) + " 1 0");
            add("poly 5 " + H(p) + " 1 " + H(gseed()) + " 3 0");
            add("poly 20 " + H(p) + " 1 " + H(gseed()) + " 3 0");
        }
        // other coefficient domains (the generic polynomial model over the RingDraw classes): Modular<double>, ModularBalanced<int32_t>, Montgomery<int32_t>
        for (unsigned T : {0x11u, 0x12u, 0x16u}) for (uint64_t p : {(uint64_t)3, (uint64_t)5, (uint64_t)101, (uint64_t)32749, (uint64_t)40503}) for (long d : {0L, 1L, 2L, 7L, 33L}) for (int kind : {0, 1, 3, 4, 5, 7}) {
            long arg = (kind % 4 == 0) ? d : d + 1;
            add("poly " + H(T) + " " + H(p) + " 1 " + H(gseed(false)) + " " + H(kind) + " " + H(arg));
            if (d == 0) add("poly " + H(T) + " " + H(p) + " 1 " + H(gseed()) + " " + H(kind) + " " + vp::hex_ll(kind % 4 == 0 ? -1 : 0));
        }
        std::vector<std::pair<uint64_t, uint64_t>> pk = {{2, 1}, {2, 4}, {3, 3}, {5, 2}, {101, 1}};
        for (auto& e : pk) for (long d : {0L, 1L, 2L, 9L, 40L}) for (int kind : {0, 1, 3, 4, 5, 7}) {
            long arg = (kind % 4 == 0) ? d : d + 1;
            add("poly 20 " + H(e.first) + " " + H(e.second) + " " + H(gseed()) + " " + H(kind) + " " + H(arg));
        }
        for (auto& e : pk) for (int kind : {2, 6}) add("poly 20 " + H(e.first) + " " + H(e.second) + " " + H(gseed()) + " " + H(kind) + " 0");
    }
    void gen_ext() {
        std::vector<uint64_t> ps = {2, 3, 5, 101, 32749, 46337};
        std::vector<uint64_t> es = {1, 2, 3, 5, 8};
        if (thorough) { es.push_back(13); es.push_back(24); }
        for (uint64_t p : ps) for (uint64_t e : es) {
            std::string hd = "ext " + H(p) + " " + H(e) + " ";
            for (int kind : {0, 3}) add(hd + H(gseed(p == 2)) + " " + H(kind) + " 0");
            for (int kind : {1, 4}) for (long s : {0L, 1L, 2L, (long)e - 1, (long)e, (long)e + 1, 1000L, -1L, -7L, (long)0x7fffffffffffffffL, (long)rng.below(e + 2)}) {
                if (kind == 4 && s <= 0) continue;             // a non-zero element of size 0 does not exist
                if (kind == 4 && e == 1 && s >= 1) continue;   // Extension::random(g, r, s >= e) asks for size e - 1 = 0
                add(hd + H(gseed(p == 2)) + " " + H(kind) + " " + vp::hex_ll(s));
            }
            for (int kind : {2, 5}) for (uint64_t s = (kind == 5 ? 1 : 0); s <= e; ++s) add(hd + H(gseed(p == 2)) + " " + H(kind) + " " + H(s));
            for (uint64_t sz : {(uint64_t)0, (uint64_t)1, (uint64_t)2, p - 1, p, p + 1, (uint64_t)1000003}) add(hd + H(gseed()) + " 6 " + H(sz));
        }
    }
    void gen_qf() {
        // substitution patterns: real draws, and the extreme values of the GMP contract on the first draws (0 forces the non-zero loops round)
        std::vector<unsigned long long> pats = {0, 1, 2, 3, 4, 5, 6, 7, 8, 9, 13, 26, 27, 40};
        for (unsigned long long pt : pats) {
            for (long s : {1L, 2L, 3L, 8L, 31L, 32L, 63L, 64L, 65L, 128L, 200L}) for (int kind : {0, 1})
                add("qf " + H(rng.next() >> rng.below(60)) + " " + H(pt) + " " + H(kind) + " " + H(s) + " 1");
            std::vector<std::pair<Integer, Integer>> bs = {{Integer(1), Integer(2)}, {Integer(2), Integer(3)}, {Integer(7), Integer(2)}, {Integer(6), Integer(4)}, {Integer(101), Integer(100)},
                {pow2(64), pow2(64) + 1}, {pow2(70) + 3, pow2(65) - 1}, {Integer(3), pow2(130) + 1}, {bigrand(100), bigrand(90)}};
            for (auto& b : bs) for (int kind : {2, 3}) {
                if (kind == 3 && b.first < 2) continue;       // a non-zero numerator below 1 does not exist
                add("qf " + H(rng.next() >> rng.below(60)) + " " + H(pt) + " " + H(kind) + " " + HZ(b.first) + " " + HZ(b.second));
            }
        }
    }
    void gen_recint() {
        size_t n = thorough ? 200 : 24;
        for (unsigned K : {6u, 7u, 8u, 9u, 10u}) for (uint64_t s : {(uint64_t)0, (uint64_t)1, (uint64_t)5489, (uint64_t)rng.next(), (uint64_t)~0ULL}) {
            add("ru " + H(K) + " " + H(s) + " " + H(n));
            if (K <= 8) add("ri " + H(K) + " " + H(s) + " " + H(n));
            if (K <= 9) add("rurep " + H(K) + " " + H(s) + " " + H(n));
        }
        for (unsigned K : {6u, 7u, 8u}) for (unsigned mg : {0u, 1u}) {
            if (K == 6 && mg == 1) continue;
            unsigned bitsK = 1u << K;
            std::vector<Integer> ps = {Integer(3), Integer(101), pow2(bitsK - 1) - 1, pow2(bitsK) - 1, pow2(bitsK / 2) + 1, pow2(bitsK) - 59};
            for (size_t i = 0; i < (thorough ? 6u : 1u); ++i) ps.push_back(bigrand(2 + (unsigned)rng.below(bitsK - 1)) | Integer(1));
            for (const Integer& p : ps) add("rm " + H(K) + " " + H(mg) + " " + HZ(p) + " " + H(rng.next()) + " " + H(n));
        }
    }
    void all() { gen_giv(); gen_int(); gen_ring(); gen_poly(); gen_ext(); gen_qf(); gen_recint(); }
};

int main(int argc, char** argv) {
    signal(SIGALRM, on_alarm);
    if (argc >= 3) {
        bool only_gen = std::string(argv[1]) == "gen";
        std::string tier = argv[only_gen ? 2 : 1];
        uint64_t seed = strtoull(argv[only_gen ? 3 : 2], nullptr, 10);
        Gen G(seed, tier == "thorough");
        G.all();
        if (only_gen) { for (auto& l : G.L) puts(l.c_str()); return 0; }
        for (auto& l : G.L) {
            Args a; std::istringstream ss(l); std::string t;
            while (ss >> t) a.tok.push_back(t);
            run_case(a);
        }
        return 0;
    }
    Args a;
    while (vp::read_line(std::cin, a)) run_case(a);
    return 0;
}
