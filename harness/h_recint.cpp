// Correspondence harness for C06: calls the real RecInt templates (ruint<K>, RecInt::rint<K>, K = 6..12) in-process.
//   line  : "<op> <K> <T> <arg>... = <res>..."      K, T (= __RECINT_THRESHOLD_KARA as compiled) and numbers in hex
//   argv  : "tier seed"  -> generate structured cases;  no argv -> run exactly the lines "<op> <K> <T> <arg>..." of stdin
// Operands are written into the objects limb by limb (memcpy) and read back the same way, so the library's own
// conversion routines are only exercised by the `conv`/`sconv` operations.  Every destination is pre-filled with a
// junk pattern, so a function that accumulates into its destination instead of assigning it is visible.
#include "proto.h"
#include <gmpxx.h>
#include <recint/recint.h>
#include <cstring>
#include <functional>
#include <algorithm>

using namespace RecInt;
typedef mpz_class Z;

#ifndef __RECINT_THRESHOLD_KARA
#error "threshold"
#endif

static Z zhex(const std::string& s) { Z z; mpz_set_str(z.get_mpz_t(), s.c_str(), 16); return z; }
static std::string hx(const Z& z) { return vp::hex(z.get_mpz_t()); }
static Z pow2(unsigned long e) { Z r(1); r <<= e; return r; }

template <size_t K> static ruint<K> toU(const Z& z0) {
    static_assert(sizeof(ruint<K>) == 8 * NBLIMB<K>::value, "layout");
    Z z = z0 % pow2(NBBITS<K>::value); if (z < 0) z += pow2(NBBITS<K>::value);
    limb buf[NBLIMB<K>::value]; memset(buf, 0, sizeof buf);
    size_t cnt = 0; mpz_export(buf, &cnt, -1, 8, 0, 0, z.get_mpz_t());
    ruint<K> a; memcpy((void*)&a, buf, sizeof buf); return a;
}
template <size_t K> static Z fromU(const ruint<K>& a) {
    limb buf[NBLIMB<K>::value]; memcpy(buf, (const void*)&a, sizeof buf);
    Z z; mpz_import(z.get_mpz_t(), NBLIMB<K>::value, -1, 8, 0, 0, buf); return z;
}
template <size_t K> static ruint<K> junk() { ruint<K> a; memset((void*)&a, 0xA5, sizeof a); return a; }
template <size_t K> static RecInt::rint<K> toS(const Z& z) { return RecInt::rint<K>(toU<K>(z)); }
template <size_t K> static Z fromS(const RecInt::rint<K>& a) {
    Z z = fromU<K>(a.Value); if (z >= pow2(NBBITS<K>::value - 1)) z -= pow2(NBBITS<K>::value); return z;
}

struct A : vp::Args {
    Z z(size_t i) const { return zhex(s(i + 2)); }
    limb l(size_t i) const { return (limb)W(i + 2); }
};
struct O : vp::Out {
    void z(const Z& v) { raw(hx(v)); }
    void b(bool v) { raw(v ? "1" : "0"); }
    void i(long long v) { raw(vp::hex_ll(v)); }
    void l(limb v) { raw(vp::hex_ull(v)); }
};

template <size_t K> static bool run(const std::string& op, const A& a, O& o) {
    typedef ruint<K> U; typedef ruint<K + 1> U2; typedef RecInt::rint<K> S; typedef RecInt::rint<K + 1> S2;
    auto u = [&](size_t i) { return toU<K>(a.z(i)); };
    auto u2 = [&](size_t i) { return toU<K + 1>(a.z(i)); };
    auto s = [&](size_t i) { return toS<K>(a.z(i)); };
    auto ou = [&](const U& x) { o.z(fromU<K>(x)); };
    auto ou2 = [&](const U2& x) { o.z(fromU<K + 1>(x)); };
    auto os = [&](const S& x) { o.z(fromS<K>(x)); };
    auto os2 = [&](const S2& x) { o.z(fromS<K + 1>(x)); };
    U r = junk<K>(), r2 = junk<K>(), r3 = junk<K>(); bool c = true; (void)r2; (void)r3;
    // ---- ruadd.h
    if (op == "add") { add(c, r, u(0), u(1)); ou(r); o.b(c); }
    else if (op == "addnc") { add(r, u(0), u(1)); ou(r); }
    else if (op == "addip") { r = u(0); add(c, r, u(1)); ou(r); o.b(c); }
    else if (op == "addop") { r = u(0); r += u(1); ou(r); }
    else if (op == "addplus") { ou(u(0) + u(1)); }
    else if (op == "addwc") { add_wc(c, r, u(0), u(1), a.l(2) != 0); ou(r); o.b(c); }
    else if (op == "addwcnc") { add_wc(r, u(0), u(1), a.l(2) != 0); ou(r); }
    else if (op == "addwcip") { r = u(0); add_wc(c, r, u(1), a.l(2) != 0); ou(r); o.b(c); }
    else if (op == "addwcipnc") { r = u(0); add_wc(r, u(1), a.l(2) != 0); ou(r); }
    else if (op == "add1") { add_1(c, r, u(0)); ou(r); o.b(c); }
    else if (op == "add1nc") { add_1(r, u(0)); ou(r); }
    else if (op == "add1ip") { r = u(0); add_1(c, r); ou(r); o.b(c); }
    else if (op == "inc") { r = u(0); ++r; ou(r); }
    else if (op == "addl") { add(c, r, u(0), a.l(1)); ou(r); o.b(c); }
    else if (op == "addlnc") { add(r, u(0), a.l(1)); ou(r); }
    else if (op == "addlip") { r = u(0); add(c, r, a.l(1)); ou(r); o.b(c); }
    // ---- rusub.h
    else if (op == "sub") { sub(c, r, u(0), u(1)); ou(r); o.b(c); }
    else if (op == "subnc") { sub(r, u(0), u(1)); ou(r); }
    else if (op == "subip") { r = u(0); sub(c, r, u(1)); ou(r); o.b(c); }
    else if (op == "subop") { r = u(0); r -= u(1); ou(r); }
    else if (op == "subwc") { sub_wc(c, r, u(0), u(1), a.l(2) != 0); ou(r); o.b(c); }
    else if (op == "subwcnc") { sub_wc(r, u(0), u(1), a.l(2) != 0); ou(r); }
    else if (op == "subwcip") { r = u(0); sub_wc(c, r, u(1), a.l(2) != 0); ou(r); o.b(c); }
    else if (op == "subwcipnc") { r = u(0); sub_wc(r, u(1), a.l(2) != 0); ou(r); }
    else if (op == "sub1") { sub_1(c, r, u(0)); ou(r); o.b(c); }
    else if (op == "sub1nc") { sub_1(r, u(0)); ou(r); }
    else if (op == "sub1ip") { r = u(0); sub_1(c, r); ou(r); o.b(c); }
    else if (op == "dec") { r = u(0); --r; ou(r); }
    else if (op == "subl") { sub(c, r, u(0), a.l(1)); ou(r); o.b(c); }
    else if (op == "sublnc") { sub(r, u(0), a.l(1)); ou(r); }
    else if (op == "sublip") { r = u(0); sub(c, r, a.l(1)); ou(r); o.b(c); }
    // ---- rucmp.h
    else if (op == "cmp") { o.i(cmp(u(0), u(1))); }
    else if (op == "cmpl") { o.i(cmp(u(0), a.l(1))); }
    else if (op == "cmpsl") { o.i(cmp(u(0), (int64_t)a.l(1))); }
    else if (op == "relul") { U x = u(0); uint64_t w = a.l(1);
        o.b(x < w); o.b(x <= w); o.b(x > w); o.b(x >= w); o.b(x == w); o.b(x != w);
        o.b(w < x); o.b(w <= x); o.b(w > x); o.b(w >= x); o.b(w == x); o.b(w != x); }
    else if (op == "relsl") { U x = u(0); int64_t w = (int64_t)a.l(1);
        o.b(x < w); o.b(x <= w); o.b(x > w); o.b(x >= w); o.b(x == w); o.b(x != w);
        o.b(w < x); o.b(w <= x); o.b(w > x); o.b(w >= x); o.b(w == x); o.b(w != x); }
    else if (op == "scmp") { S x = s(0), y = s(1); o.i(cmp(x, y)); o.b(x < y); o.b(x <= y); o.b(x > y); o.b(x >= y); o.b(x == y); o.b(x != y); }
    else if (op == "scmpsl") { o.i(cmp(s(0), (int64_t)a.l(1))); }
    else if (op == "scmpul") { o.i(cmp(s(0), (uint64_t)a.l(1))); }
    else if (op == "srelsl") { S x = s(0); int64_t w = (int64_t)a.l(1);
        o.b(x < w); o.b(x <= w); o.b(x > w); o.b(x >= w); o.b(x == w); o.b(x != w);
        o.b(w < x); o.b(w <= x); o.b(w > x); o.b(w >= x); o.b(w == x); o.b(w != x); }
    else if (op == "srelul") { S x = s(0); uint64_t w = a.l(1);
        o.b(x < w); o.b(x <= w); o.b(x > w); o.b(x >= w); o.b(x == w); o.b(x != w);
        o.b(w < x); o.b(w <= x); o.b(w > x); o.b(w >= x); o.b(w == x); o.b(w != x); }
    else if (op == "rel") { U x = u(0), y = u(1); o.b(x < y); o.b(x <= y); o.b(x > y); o.b(x >= y); o.b(x == y); o.b(x != y); }
    // ---- rumul.h / ruaddmul.h
    else if (op == "lmul") { lmul(r, r2, u(0), u(1)); ou(r); ou(r2); }
    else if (op == "lmuln") { lmul_naive(r, r2, u(0), u(1)); ou(r); ou(r2); }
    else if (op == "lmulk") { lmul_kara(r, r2, u(0), u(1)); ou(r); ou(r2); }
    else if (op == "lmul2") { U2 w = junk<K + 1>(); lmul(w, u(0), u(1)); ou2(w); }
    else if (op == "mul") { mul(r, u(0), u(1)); ou(r); }
    else if (op == "mulip") { r = u(0); mul(r, u(1)); ou(r); }
    else if (op == "mulop") { ou(u(0) * u(1)); }
    else if (op == "mulal1") { r = u(0); mul(r, r, u(1)); ou(r); }               // output aliases the first operand
    else if (op == "mulal2") { r = u(1); mul(r, u(0), r); ou(r); }               // output aliases the second operand
    else if (op == "mulstar") { r = u(0); r *= u(1); ou(r); }
    else if (op == "mulself") { r = u(0); mul(r, r, r); ou(r); r2 = u(0); r2 *= r2; ou(r2); }
    else if (op == "lmull") { limb ret = 0xA5A5; lmul(ret, r, u(0), a.l(1)); o.l(ret); ou(r); }
    else if (op == "mull") { mul(r, u(0), a.l(1)); ou(r); }
    else if (op == "mullip") { r = u(0); mul(r, a.l(1)); ou(r); }
    else if (op == "lsq") { U2 w = junk<K + 1>(); lsquare(w, u(0)); ou2(w); }
    else if (op == "sq") { square(r, u(0)); ou(r); }
    else if (op == "laddmul") { laddmul(c, r, r2, u(0), u(1), u(2)); ou(r); ou(r2); o.b(c); }
    else if (op == "laddmulnc") { laddmul(r, r2, u(0), u(1), u(2)); ou(r); ou(r2); }
    else if (op == "laddmul3") { laddmul(c, r, r2, u(0), u(1), u2(2)); ou(r); ou(r2); o.b(c); }
    else if (op == "addmul") { r = u(0); addmul(r, u(1), u(2)); ou(r); }
    else if (op == "addmull") { r = u(0); UDItype w = a.l(2); addmul(r, u(1), w); ou(r); }
    // ---- rushift.h
    else if (op == "shl") { left_shift(r, u(0), a.l(1)); ou(r); }
    else if (op == "shr") { right_shift(r, u(0), a.l(1)); ou(r); }
    else if (op == "shlip") { r = u(0); r <<= a.l(1); ou(r); }
    else if (op == "shrip") { r = u(0); r >>= a.l(1); ou(r); }
    else if (op == "shli") { ou(u(0) << (int)a.l(1)); }          // int-typed count
    else if (op == "shri") { ou(u(0) >> (int)a.l(1)); }
    else if (op == "shrself") { r = u(0); right_shift(r, r, a.l(1)); ou(r); }   // the aliasing pattern of div()
    else if (op == "shl1") { left_shift_1(c, r, u(0)); ou(r); o.b(c); }
    else if (op == "shr1") { right_shift_1(c, r, u(0)); ou(r); o.b(c); }
    else if (op == "shlx") { U2 w = junk<K + 1>(); left_shift(w, u(0), a.l(1)); ou2(w); }
    // ---- rudiv.h / rutools.h
    else if (op == "div") { div(r, r2, u(0), u(1)); ou(r); ou(r2); }
    else if (op == "divop") { U x = u(0), y = u(1); ou(x / y); ou(x % y); }
    else if (op == "divip") { r = u(0); r2 = u(0); r /= u(1); r2 %= u(1); ou(r); ou(r2); }
    else if (op == "divl") { limb rem = 0xA5; limb d = a.l(1); div(r, rem, u(0), d); ou(r); o.l(rem); }
    else if (op == "div21") { div_2_1(r, r2, u(0), u(1), u(2)); ou(r); ou(r2); }
    else if (op == "div32") { div_3_2(r, r2, r3, u(0), u(1), u(2), u(3), u(4)); ou(r); ou(r2); ou(r3); }
    else if (op == "modn") { mod_n(r, u2(0), u(1)); ou(r); }
    else if (op == "norm") { UDItype d = 0xA5; normalization(d, u(0)); o.l(d); }
    // ---- rufiddling.h
    else if (op == "not") { ou(~u(0)); }
    else if (op == "neg") { neg(r, u(0)); ou(r); }
    else if (op == "negop") { ou(-u(0)); }
    else if (op == "or") { ou(u(0) | u(1)); }
    else if (op == "and") { ou(u(0) & u(1)); }
    else if (op == "xor") { ou(u(0) ^ u(1)); }
    else if (op == "bits") { U x = u(0); o.b(highest_bit(x)); o.b(lowest_bit(x)); U y = x; set_highest_bit(y); ou(y); y = x; set_lowest_bit(y); ou(y); }
    // ---- rugcd.h / ruinvmod.h / ruexp.h / rmgmodule.h
    else if (op == "gcd") { gcd(r, u(0), u(1)); ou(r); }
    else if (op == "invmod") { inv_mod(r, u(0), u(1)); ou(r); }
    else if (op == "bezout") { bezout_mod(r, r2, u(0), u(1)); ou(r); ou(r2); }
    else if (op == "expmod") { exp_mod(r, u(0), u(1), u(2)); ou(r); }
    else if (op == "expmodl") { limb e = a.l(1); exp_mod(r, u(0), e, u(2)); ou(r); }
    else if (op == "arazi") { arazi_qi(r, u(0)); ou(r); }
    // ---- ruconvert.h / rconvert.h
    else if (op == "conv") { Z z = a.z(0); mpz_to_ruint(r, z); ou(r); Z back; ruint_to_mpz(back, r); o.z(back);
                             U t = junk<K>(); mpz_t_to_ruint(t, z.get_mpz_t()); ou(t); }
    else if (op == "sconv") { Z z = a.z(0); S x; x.Value = junk<K>(); mpz_to_rint(x, z); os(x); Z back; rint_to_mpz(back, x); o.z(back); }
    // ---- signed: radd.h rmul.h rdiv.h (+ the sign-dependent parts they rely on)
    else if (op == "sadd") { S x; x.Value = junk<K>(); add(x, s(0), s(1)); os(x); }
    else if (op == "saddop") { os(s(0) + s(1)); }
    else if (op == "smul") { S x; x.Value = junk<K>(); mul(x, s(0), s(1)); os(x); }
    else if (op == "smulop") { os(s(0) * s(1)); }
    else if (op == "slmul") { S2 w; w.Value = junk<K + 1>(); lmul(w, s(0), s(1)); os2(w); }
    else if (op == "slsq") { S2 w; w.Value = junk<K + 1>(); lsquare(w, s(0)); os2(w); }
    else if (op == "saddmul") { S x = s(0); addmul(x, s(1), s(2)); os(x); }
    else if (op == "sdivq") { S x; x.Value = junk<K>(); div_q(x, s(0), s(1)); os(x); }
    else if (op == "sdivr") { S x; x.Value = junk<K>(); div_r(x, s(0), s(1)); os(x); }
    else if (op == "sdivop") { os(s(0) / s(1)); os(s(0) % s(1)); }
    else if (op == "sinvmod") { S x; x.Value = junk<K>(); inv_mod(x, s(0), s(1)); os(x); }
    else if (op == "smodn") { S x = s(0); mod_n(x, s(1)); os(x); }
    else if (op == "smodn2") { S x; x.Value = junk<K>(); S2 w = toS<K + 1>(a.z(0)); mod_n(x, w, s(1)); os(x); }
    else if (op == "sext") { S2 w(s(0)); os2(w); }
    // ---- rint wrappers, every form (named / operator / in place): all results of one line must agree
    else if (op == "ssub") { S x; x.Value = junk<K>(); sub(x, s(0), s(1)); os(x); os(s(0) - s(1)); S y = s(0); y -= s(1); os(y); S z = s(0); sub(z, s(1)); os(z); }
    else if (op == "saddeq") { S y = s(0); y += s(1); os(y); S z = s(0); add(z, s(1)); os(z); S w = s(0); w *= s(1); os(w); S v = s(0); mul(v, s(1)); os(v); }
    else if (op == "sneg") { os(-s(0)); S y = s(0); neg(y); os(y); os(~s(0)); }
    else if (op == "sbit") { os(s(0) & s(1)); os(s(0) | s(1)); os(s(0) ^ s(1)); S x = s(0); x &= s(1); os(x); S y = s(0); y |= s(1); os(y); S z = s(0); z ^= s(1); os(z); }
    else if (op == "sshl") { os(s(0) << a.l(1)); S x = s(0); x <<= a.l(1); os(x); }
    else if (op == "sshr") { os(s(0) >> a.l(1)); S x = s(0); x >>= a.l(1); os(x); }
    else if (op == "sdiveq") { S x = s(0); x /= s(1); os(x); S y = s(0); y %= s(1); os(y); }
    else return false;
    return true;
}

static bool dispatch(const A& a, O& o) {
    if (a.tok.size() < 3) return false;
    unsigned long K = strtoul(a.tok[1].c_str(), nullptr, 16);
    const std::string& op = a.tok[0];
    switch (K) {
        case 6: return run<6>(op, a, o);
        case 7: return run<7>(op, a, o);
        case 8: return run<8>(op, a, o);
        case 9: return run<9>(op, a, o);
        case 10: return run<10>(op, a, o);
        case 11: return run<11>(op, a, o);
        case 12: return run<12>(op, a, o);
    }
    return false;
}

static void process(A& a) {
    if (a.tok.size() >= 3) a.tok[2] = vp::hex_ull(__RECINT_THRESHOLD_KARA);
    O o;
    bool ok = false;
    try { ok = dispatch(a, o); } catch (...) { vp::emit(a, "EXC"); fflush(stdout); return; }
    vp::emit(a, ok ? o.s : "NOFUNC");
    fflush(stdout);
}

// ------------------------------------------------------------------------------------------ generators
struct Gen {
    vp::Rng rng;
    bool thorough;
    Gen(uint64_t seed, bool th) : rng(seed * 1000003ULL + 0xC06), thorough(th) {}
    limb limbv() {
        switch (rng.below(8)) {
            case 0: case 1: return 0;
            case 2: return 1;
            case 3: return 0x8000000000000000ULL;
            case 4: case 5: return ~0ULL;
            case 6: return rng.below(4) ? rng.next() : (0x8000000000000000ULL + rng.below(3)) ;
            default: return rng.next();
        }
    }
    Z structured(unsigned K) {                 // every limb from {0, 1, 2^63, 2^64-1, random}
        unsigned nl = 1u << (K - 6);
        Z z(0);
        for (unsigned i = 0; i < nl; i++) { z <<= 64; limb w = limbv(); Z l; mpz_import(l.get_mpz_t(), 1, -1, 8, 0, 0, &w); z += l; }
        return z;
    }
    Z randbits(unsigned nb) {                   // exactly nb bits (top bit set), nb >= 1
        Z z(0);
        for (unsigned i = 0; i < (nb + 63) / 64; i++) { z <<= 64; limb w = rng.next(); Z l; mpz_import(l.get_mpz_t(), 1, -1, 8, 0, 0, &w); z += l; }
        z %= pow2(nb); mpz_setbit(z.get_mpz_t(), nb - 1);
        return z;
    }
    Z val(unsigned K) {
        unsigned nb = 1u << K;
        Z M = pow2(nb);
        switch (rng.below(16)) {
            case 0: return 0;
            case 1: return 1;
            case 2: return M - 1;
            case 3: return pow2(nb - 1) + (long)rng.below(3) - 1;
            case 4: return M - 1 - (long)rng.below(3);
            case 5: return (unsigned long)rng.below(1000);
            case 6: { Z p = pow2(rng.below(nb)); return (p + (long)rng.below(3) - 1 + M) % M; }
            case 7: case 8: return randbits(1 + rng.below(nb));
            case 9: return randbits(nb);
            default: return structured(K);
        }
    }
    Z nonzero(unsigned K) { Z z; do z = val(K); while (z == 0); return z; }
    limb word() { return rng.below(3) ? limbv() : rng.below(100); }
    Z normalised(unsigned K) {                 // top bit set; top limb 2^63, 2^63+1, 2^64-1 or random
        unsigned nb = 1u << K;
        Z z = structured(K) % pow2(nb - 64);
        limb top;
        switch (rng.below(5)) { case 0: top = 0x8000000000000000ULL; break; case 1: top = 0x8000000000000001ULL; break;
                                case 2: top = ~0ULL; break; case 3: top = 0x8000000000000000ULL | rng.next(); break; default: top = 0xFFFFFFFFFFFFFFFEULL; }
        Z t; mpz_import(t.get_mpz_t(), 1, -1, 8, 0, 0, &top);
        return z + (t << (nb - 64));
    }
    Z sval(unsigned K) {                         // signed range [-2^(nb-1), 2^(nb-1))
        unsigned nb = 1u << K;
        Z v = val(K);
        if (v >= pow2(nb - 1)) v -= pow2(nb);
        if (rng.below(4) == 0) v = -v;
        if (v >= pow2(nb - 1) || v < -pow2(nb - 1)) v = 0;
        return v;
    }
    unsigned long shiftcount(unsigned K) {
        unsigned long nb = 1ul << K;
        unsigned long g[] = {0, 1, 2, 63, 64, 65, nb / 2 - 1, nb / 2, nb / 2 + 1, nb - 1, nb, nb + 1, 2 * nb, 127, 128, 129};
        if (rng.below(2)) return g[rng.below(sizeof g / sizeof g[0])];
        return rng.below(nb + 2);
    }
};

static void emit_case(const std::string& op, unsigned K, std::initializer_list<Z> args) {
    A a;
    a.tok = {op, vp::hex_ull(K), "0"};
    for (const Z& z : args) a.tok.push_back(hx(z));
    process(a);
}
static Z H0(unsigned nb) { return pow2(nb - 1); }
static Z zl(limb l) { Z t; mpz_import(t.get_mpz_t(), 1, -1, 8, 0, 0, &l); return t; }

static void generate(bool thorough, uint64_t seed) {
    Gen g(seed, thorough);
    unsigned Kmax = thorough ? 12 : 11;
    for (unsigned K = 6; K <= Kmax; K++) {
        unsigned nb = 1u << K;
        Z M = pow2(nb);
        // per-op case counts shrink with the operand size (the Lean model evaluates every line too)
        unsigned base = thorough ? 3000 : 220;
        unsigned nlin = base, nmul = base * 64 / (64 + (1u << (K - 6)) * 6), ndiv = nmul / 2 + 10, nslow = thorough ? 60 : 6;
        if (K >= 11) { nmul /= 2; ndiv /= 2; }
        if (K == 12) { nlin /= 4; nmul /= 4; ndiv /= 4; nslow /= 3; }
        for (unsigned i = 0; i < nlin; i++) {
            Z b = g.val(K), c = g.val(K);
            if (i % 7 == 0) c = M - b;                   // sum exactly 2^bits
            if (i % 7 == 1) c = M - 1 - b;               // sum exactly 2^bits - 1 (long carry chain with cy)
            if (i % 7 == 2) c = b;
            Z cy = (long)((i / 8) & 1);                  // independent of the choice of the overload below
            if (i % 56 == 8) { c = M - 1; cy = 1; }      // c + cy wraps to 0: result equals b, carry/borrow must be set
            if (i % 56 == 16) { b = M - 1; c = 0; cy = 1; }
            if (i % 56 == 24) { b = 0; c = 0; cy = 1; }
            if (i % 56 == 12) { c = M - 1; cy = 1; }     // the same for sub_wc
            if (i % 56 == 20) { b = 0; c = 0; cy = 1; }
            if (i % 56 == 28) { c = b; cy = 1; }
            const char* two[] = {"add", "addnc", "addip", "addop", "addplus", "sub", "subnc", "subip", "subop", "cmp", "rel", "or", "and", "xor"};
            emit_case(two[i % 14], K, {b, c});
            emit_case(two[(i / 14) % 14], K, {g.val(K), g.val(K)});
            const char* wc[] = {"addwc", "addwcnc", "addwcip", "addwcipnc", "subwc", "subwcnc", "subwcip", "subwcipnc"};
            emit_case(wc[i % 8], K, {b, c, cy});
            emit_case(wc[(i / 2) % 8], K, {g.val(K), (i % 3 == 0) ? Z(M - 1) : g.structured(K), Z((long)(i % 2))});
            const char* one[] = {"add1", "add1nc", "add1ip", "inc", "sub1", "sub1nc", "sub1ip", "dec", "not", "neg", "negop", "bits", "shl1", "shr1", "norm", "conv"};
            Z x = (i % 5 == 0) ? Z(M - 1) : (i % 5 == 1) ? Z(pow2(64 * (1 + g.rng.below(nb / 64))) - 1) % M : g.val(K);
            emit_case(one[i % 16], K, {x});
            emit_case(one[(i / 16) % 16], K, {g.val(K)});
            const char* lw[] = {"addl", "addlnc", "addlip", "subl", "sublnc", "sublip", "cmpl"};
            emit_case(lw[i % 7], K, {(i % 3 == 0) ? Z(M - 1 - (long)g.rng.below(2)) : (i % 3 == 1) ? Z((long)g.rng.below(3)) : g.val(K), zl(g.word())});
            const char* sh[] = {"shl", "shr", "shlip", "shrip", "shli", "shri", "shrself", "shlx"};
            emit_case(sh[i % 8], K, {g.val(K), Z(g.shiftcount(K))});
            if (i % 16 == 0) { emit_case("shl", K, {g.val(K), pow2(32 + g.rng.below(32))}); emit_case("shr", K, {g.val(K), pow2(63)}); }
            if (i % 4 == 0) { Z z = g.val(K); if (i % 8 == 0) z += M * (unsigned long)(1 + g.rng.below(5)); emit_case("conv", K, {z}); }
            if (i % 4 == 1) { emit_case("sconv", K, {g.sval(K)}); emit_case("sext", K, {g.sval(K)}); }
            const char* sg[] = {"sadd", "saddop", "smul", "smulop", "slmul", "saddmul"};
            if (i % 3 == 0) { Z p = g.sval(K), q = g.sval(K); const char* f = sg[(i / 3) % 6];
                              if (std::string(f) == "saddmul") emit_case(f, K, {g.sval(K), p, q}); else emit_case(f, K, {p, q}); }
            if (i % 6 == 1) emit_case("slsq", K, {g.sval(K)});
            if (i % 5 == 2) { Z p = g.sval(K), q = g.sval(K); if (i % 10 == 2) q = -p; if (i % 20 == 7) q = p;
                              const char* f = (i / 5) % 3 == 0 ? "ssub" : (i / 5) % 3 == 1 ? "saddeq" : "sbit"; emit_case(f, K, {p, q}); }
            if (i % 9 == 3) emit_case("sneg", K, {g.sval(K)});
            if (i % 4 == 2) { emit_case((i & 4) ? "sshl" : "sshr", K, {g.sval(K), Z(g.shiftcount(K))}); }
            if (i % 32 == 6) { emit_case("sshr", K, {g.sval(K), pow2(63)}); emit_case("sshr", K, {Z(-1 - g.val(K) % pow2(nb - 1)), pow2(32 + g.rng.below(32))}); }
        }
        // the signed boundary grid: every pair from {0, 1, -1, 2, -2, MAX, MAX-1, MIN, MIN+1, 2^(bits/2), -2^(bits/2)} through every wrapper
        {
            Z MAXS = pow2(nb - 1) - 1, MINS = -pow2(nb - 1);
            std::vector<Z> grid = {Z(0), Z(1), Z(-1), Z(2), Z(-2), MAXS, Z(MAXS - 1), MINS, Z(MINS + 1), pow2(nb / 2), Z(-pow2(nb / 2))};
            for (const Z& p : grid) {
                emit_case("sneg", K, {p}); emit_case("slsq", K, {p}); emit_case("sext", K, {p});
                unsigned long cnt[] = {0, 1, 63, 64, nb / 2, nb - 1, nb, nb + 1};
                for (unsigned long d : cnt) { emit_case("sshl", K, {p, Z(d)}); emit_case("sshr", K, {p, Z(d)}); }
                for (const Z& q : grid) {
                    emit_case("ssub", K, {p, q}); emit_case("saddeq", K, {p, q}); emit_case("sbit", K, {p, q}); emit_case("scmp", K, {p, q});
                    emit_case("sadd", K, {p, q}); emit_case("smulop", K, {p, q}); emit_case("slmul", K, {p, q});
                    if (q != 0 && !(p == MINS && q == -1)) emit_case("sdivq", K, {p, q});
                    if (q > 1) { emit_case("sdivr", K, {p, q}); emit_case("sdivop", K, {p, q}); emit_case("sdiveq", K, {p, q}); }
                }
            }
        }
        // comparisons with 64-bit scalars of both signs around 2^31, 2^32, 2^63 (ruint and rint, scalar on either side)
        {
            static const long long wg[] = {0, 1, -1, 2, -2, 5, -5, 0x7fffffffLL, 0x80000000LL, 0x80000001LL, -0x7fffffffLL, -0x80000000LL, -0x80000001LL,
                                           0xffffffffLL, 0x100000000LL, 0x100000001LL, -0xffffffffLL, -0x100000000LL, -0x100000001LL,
                                           0x7ffffffffffffffeLL, 0x7fffffffffffffffLL, (long long)0x8000000000000000ULL, (long long)0x8000000000000001ULL,
                                           -0x7fffffffffffffffLL, (long long)0xffffffffffffffffULL, 0x123456789abLL, -0x123456789abLL};
            unsigned nw = sizeof wg / sizeof wg[0];
            for (unsigned i = 0; i < nw * (thorough ? 12 : 4); i++) {
                long long w = (i / nw) % 4 == 3 ? (long long)(g.rng.next() >> g.rng.below(64)) * ((i & 1) ? -1 : 1) : wg[i % nw];
                Z zs; { Z t((long)(w < 0 ? -(w + 1) : w)); zs = w < 0 ? Z(-t - 1) : t; }      // w as a signed value
                Z zu = zl((limb)w);                                                             // the same bits as an unsigned value
                // the recursive integer: equal to the scalar, next to it, its image modulo 2^64 / 2^bits, or unrelated
                Z cand[] = {zu, zu + 1, zu - 1, (zs + M) % M, (zs + M + 1) % M, (zs + M - 1) % M, zu + pow2(64), g.val(K), Z(0), M - 1};
                Z av = cand[(i / nw + i) % 10]; av = ((av % M) + M) % M;
                emit_case("cmpl", K, {av, zu}); emit_case("relul", K, {av, zu});
                emit_case("cmpsl", K, {av, zs}); emit_case("relsl", K, {av, zs});
                Z scand[] = {zs, zs + 1, zs - 1, -zs, zu, zu + 1, g.sval(K), -H0(nb), H0(nb) - 1, Z(-1)};
                Z sv = scand[(i / nw + 2 * i) % 10]; if (sv >= H0(nb) || sv < -H0(nb)) sv = zs;
                emit_case("scmpsl", K, {sv, zs}); emit_case("srelsl", K, {sv, zs});
                emit_case("scmpul", K, {sv, zu}); emit_case("srelul", K, {sv, zu});
                emit_case("scmp", K, {sv, g.sval(K)}); emit_case("scmp", K, {sv, (i & 1) ? sv : Z(-sv - 1)});
            }
        }
        // borrow / carry arriving at an all-ones 128-bit block that is not the top one (K >= 8)
        if (K >= 8) {
            unsigned nblk = nb / 128;
            for (unsigned i = 0; i < (thorough ? 40u : 6u) * nblk; i++) {
                unsigned j = i % (nblk - 1);                        // block index 0 .. nblk-2
                Z blk = (pow2(128) - 1) << (128 * j);
                Z lowmask = pow2(128 * j) - 1;
                Z c = ((g.val(K) | blk) % M), b = g.val(K);
                // make a borrow arrive at block j: below it the minuend is smaller than the subtrahend (or use the incoming flag when j = 0)
                Z cy = 0;
                if (j == 0) cy = 1; else { b = (b - (b & lowmask)); c = (c - (c & lowmask)) + 1 + (g.val(K) & lowmask) % lowmask; }
                if (i % 3 == 1) b = (b - (b & blk)) | (c & blk) ;   // block of b equal to the block of c (all ones): result block all ones again
                if (i % 3 == 2) b = b - (b & blk);                  // block of b zero
                b = ((b % M) + M) % M; c = ((c % M) + M) % M;
                const char* sw[] = {"subwc", "subwcnc", "subwcip", "subwcipnc"};
                emit_case(sw[i % 4], K, {b, c, cy});
                emit_case(sw[(i / 4) % 4], K, {b, c, Z(1)});
                const char* sb[] = {"sub", "subnc", "subip", "subop"};
                if (j > 0) emit_case(sb[i % 4], K, {b, c});
                // the mirror for additions: all-ones block in c, carry arriving from below
                Z b2 = (j == 0) ? b : Z((b - (b & lowmask)) + lowmask);          // low part all ones: any non-zero low part of c carries
                const char* aw[] = {"addwc", "addwcnc", "addwcip", "addwcipnc"};
                emit_case(aw[i % 4], K, {b2 % M, c, Z(1)});
                const char* ad[] = {"add", "addnc", "addip", "addop"};
                if (j > 0) emit_case(ad[i % 4], K, {b2 % M, c});
            }
        }
        for (unsigned i = 0; i < nmul; i++) {
            Z b = g.val(K), c = g.val(K);
            if (i % 9 == 0) { b = M - 1; c = M - 1; }
            if (i % 9 == 1) { b = (pow2(nb / 2) - 1) * pow2(nb / 2) + (long)g.rng.below(2); c = M - 1 - (long)g.rng.below(2); }  // High+Low overflows in Karatsuba
            const char* mm[] = {"lmul", "lmuln", "lmulk", "lmul2", "mul", "mulip", "mulop", "mulal1", "mulal2", "mulstar"};
            emit_case(mm[i % 10], K, {b, c});
            emit_case(mm[(i / 10) % 10], K, {g.val(K), g.val(K)});
            if (i % 4 == 0) emit_case("mulself", K, {b});
            if (K >= 10) {                              // in-place forms where the Karatsuba levels run (source threshold: K-1 >= 10)
                const char* ip[] = {"mulip", "mulal1", "mulal2", "mulstar", "mulop"};
                emit_case(ip[i % 5], K, {g.structured(K), g.structured(K)});
                emit_case(ip[(i + 2) % 5], K, {b, c});
            }
            const char* ml[] = {"lmull", "mull", "mullip"};
            emit_case(ml[i % 3], K, {g.val(K), zl(g.word())});
            emit_case((i & 1) ? "lsq" : "sq", K, {(i % 5 == 0) ? Z(M - 1 - (long)g.rng.below(2)) : g.val(K)});
            Z d = (i % 4 == 0) ? Z(M - 1) : g.val(K);
            emit_case((i & 1) ? "laddmul" : "laddmulnc", K, {b, c, d});
            Z d2 = (i % 4 == 0) ? Z(M * M - 1 - (long)g.rng.below(2)) : Z(g.val(K) * M + g.val(K));
            emit_case("laddmul3", K, {b, c, d2});
            emit_case("addmul", K, {g.val(K), b, c});
            emit_case("addmull", K, {g.val(K), b, zl(g.word())});
        }
        for (unsigned i = 0; i < ndiv; i++) {
            // general division: divisors of every bit length (every normalisation shift)
            Z b = (i % 3 == 0) ? g.randbits(1 + g.rng.below(nb)) : g.nonzero(K);
            Z a = g.val(K);
            if (i % 5 == 0) { Z q = g.val(K) % (M / b + 1); a = (q * b + g.val(K) % b) % M; }
            const char* dd[] = {"div", "divop", "divip"};
            emit_case(dd[i % 3], K, {a, b});
            limb w; do w = g.word(); while (w == 0);
            if (i % 6 == 0) w = 2;
            emit_case("divl", K, {g.val(K), zl(w)});
            // div_2_1 / div_3_2 with a normalised divisor; dividend = q*b + r so that the preconditions hold by construction
            {
                Z bn = g.normalised(K), q = g.val(K), r = (i % 4 == 0) ? Z(0) : (i % 4 == 1) ? Z(bn - 1) : g.val(K) % bn;
                if (i % 3 == 0) q = M - 1 - (long)g.rng.below(2);
                Z n = q * bn + r;
                emit_case("div21", K, {n / M, n % M, bn});
                Z b1 = g.normalised(K), b0 = (i % 2) ? Z(M - 1 - (long)g.rng.below(3)) : g.val(K);
                if (i % 5 == 0) b1 = pow2(nb - 1);
                Z bb = b1 * M + b0, q3 = (i % 3 == 0) ? Z(M - 1 - (long)g.rng.below(2)) : g.val(K);
                Z r3 = (i % 4 == 0) ? Z((long)g.rng.below(3)) : (i % 4 == 1) ? Z(bb - 1 - (long)g.rng.below(3)) : (g.val(K) * M + g.val(K)) % bb;
                Z n3 = q3 * bb + r3;
                emit_case("div32", K, {n3 / (M * M), (n3 / M) % M, n3 % M, b1, b0});
                Z m = g.nonzero(K);
                Z big = (i % 3 == 0) ? Z(m * M - 1 - (long)g.rng.below(3)) : (g.val(K) % m) * M + g.val(K);
                emit_case("modn", K, {big, m});
            }
            Z sa = g.sval(K), sb = g.sval(K);
            if (sb == 0) sb = 3;
            if (!(sa == -pow2(nb - 1) && sb == -1)) { emit_case("sdivq", K, {sa, sb}); }
            Z sp = g.val(K) % pow2(nb - 1); if (sp < 2) sp = 7;
            emit_case("sdivr", K, {sa, sp});
            emit_case("sdivop", K, {sa, sp});
            emit_case("smodn", K, {sa, sp});
            emit_case("smodn2", K, {g.sval(K + 1) % (sp * pow2(nb - 2)), sp});
        }
        unsigned sh = K - 6;                      // the loops below cost ~2^K divisions per case in the model
        for (unsigned i = 0; i < nslow * 4; i++) {
            Z od = g.val(K); mpz_setbit(od.get_mpz_t(), 0);
            emit_case("arazi", K, {od});
        }
        for (unsigned i = 0; i < std::max(2u, (nslow * 4) >> sh); i++) {
            emit_case("gcd", K, {g.val(K), g.val(K)});
            Z f = g.val(K) % pow2(nb / 2) + 1;
            emit_case("gcd", K, {(g.val(K) % pow2(nb / 2)) * f, (g.val(K) % pow2(nb / 2)) * f});
        }
        for (unsigned i = 0; i < std::max(2u, (nslow * 3) >> sh); i++) {
            Z m = g.val(K); if (m < 2) m = M - 1;
            Z b = g.val(K), gg;
            for (int tries = 0; tries < 50; tries++) { mpz_gcd(gg.get_mpz_t(), b.get_mpz_t(), m.get_mpz_t()); if (gg == 1) break; b = g.val(K); }
            if (gg == 1) {
                emit_case("invmod", K, {b, m});
                if (b != 0) emit_case("bezout", K, {b, m});
                Z sm = m % pow2(nb - 1); if (sm < 2) sm = 5;
                Z sb = g.sval(K); mpz_gcd(gg.get_mpz_t(), sb.get_mpz_t(), sm.get_mpz_t());
                if (gg == 1) emit_case("sinvmod", K, {sb, sm});
            }
        }
        // bezout_mod on pairs that are NOT coprime and on the boundary pairs (1, 1), (1, d), (c, 1), c = d, c | d, d | c, 2^bits - 1
        {
            Z f = g.val(K) % pow2(nb / 2) + 2, p = g.val(K) % pow2(nb / 2 - 1) + 1, q = g.val(K) % pow2(nb / 2 - 1) + 1;
            Z r1 = g.nonzero(K);
            emit_case("bezout", K, {p * f, q * f});
            emit_case("bezout", K, {Z(1), Z(1)}); emit_case("bezout", K, {Z(1), r1}); emit_case("bezout", K, {r1, Z(1)});
            emit_case("bezout", K, {r1, r1}); emit_case("bezout", K, {p, p * f}); emit_case("bezout", K, {p * f, p});
            emit_case("bezout", K, {Z(M - 1), r1}); emit_case("bezout", K, {r1, Z(M - 1)}); emit_case("bezout", K, {Z(M - 1), Z(M - 2)});
            emit_case("bezout", K, {Z(2), Z(M - 1)}); emit_case("bezout", K, {pow2(nb - 1), Z(M - 1)});
        }
        for (unsigned i = 0; i < std::max(K >= 11 ? 1u : 2u, (nslow * 2) >> (2 * sh)); i++) {
            Z m = (i % 3 == 0) ? Z(1 + g.rng.below(3)) : g.nonzero(K);
            Z e = (i % 4 == 0) ? Z((long)g.rng.below(3)) : g.val(K);
            emit_case("expmod", K, {(i % 2) ? g.val(K) % m : g.val(K), e, m});
            emit_case("expmodl", K, {g.val(K) % m, zl(g.word()), m});
        }
        // scalar exponents that are exactly a power of two (the bit loop `for (j = 1; j != 0; j <<= 1)`), and 0
        for (unsigned j = 0; j < 64; j++) {
            if (K >= 9 && j % (K >= 11 ? 16 : 4) != 3 && j != 63 && j != 0) continue;
            Z m = g.nonzero(K); if (m < 2) m = M - 1;
            emit_case("expmodl", K, {g.val(K) % m, pow2(j), m});
            if (K <= 8) emit_case("expmodl", K, {Z(2 + g.rng.below(5)), pow2(j), (j & 1) ? Z(M - 1 - 2 * g.rng.below(9)) : g.nonzero(K)});
        }
        emit_case("expmodl", K, {g.val(K), Z(0), g.nonzero(K)});
        emit_case("expmodl", K, {Z(0), Z(0), Z(1)});          // 0^0 mod 1 = 0
        emit_case("expmodl", K, {g.val(K), Z(0), g.nonzero(K)});
    }
}

int main(int argc, char** argv) {
    if (argc >= 3) {
        generate(std::string(argv[1]) == "thorough", strtoull(argv[2], nullptr, 10));
        return 0;
    }
    A a;
    while (vp::read_line(std::cin, a)) process(a);
    return 0;
}
