// Correspondence harness for C07 (Montgomery-form residue arithmetic).
//
// Calls the real code of /repo in-process:
//   Givaro::Montgomery<int32_t>            (montgomery-int32.h/.inl)        keys m32k m32r m32 m32d m32i
//   Givaro::Montgomery<RecInt::ruint<K>>   (montgomery-ruint.h/.inl)        keys mrk mr mrd mri
//   RecInt::rmint<K,MG_ACTIVE> / rmint<K,MG_INACTIVE> (rmg*.h, rmb*.h, rm*.h) keys rmk rm rmd rme rmc
// One output line per case: "<key> <args…> = <results…>", all numbers in hex.
//
//   h_montgomery <tier> <seed>      generates its own cases (every random choice from the seed)
//   h_montgomery replay < lines     runs exactly the input lines "<key> <args…>"
//
// The generator produces *input lines* and every line goes through the same `process`, so a replay
// executes exactly what the generating run executed.
#include "proto.h"
#include <gmpxx.h>
#include <gmp++/gmp++.h>
#include <givaro/givinteger.h>
#include <givaro/montgomery-int32.h>
#include <givaro/montgomery-ruint.h>
#include <recint/recint.h>
#include <functional>
#include <set>
#include <sstream>

using namespace Givaro;
using vp::Args;
using vp::Out;

// ------------------------------------------------------------------------------------------------
// helpers
// ------------------------------------------------------------------------------------------------
static mpz_class Zarg(const Args& a, size_t i) {
    mpz_class z;
    z.set_str(a.s(i), 16);
    return z;
}
static std::string hx(const mpz_class& z) { return vp::hex(z.get_mpz_t()); }
static void put(Out& o, const mpz_class& z) { o.raw(hx(z)); }
static void putu(Out& o, unsigned long long v) { o.raw(vp::hex_ull(v)); }

template <size_t K> static RecInt::ruint<K> toR(const mpz_class& z) {
    RecInt::ruint<K> r;
    RecInt::mpz_to_ruint(r, z);
    return r;
}
template <size_t K> static mpz_class fromR(const RecInt::ruint<K>& r) {
    mpz_class z;
    RecInt::ruint_to_mpz(z, r);
    return z;
}
template <size_t K> static void put(Out& o, const RecInt::ruint<K>& r) { put(o, fromR<K>(r)); }

// ------------------------------------------------------------------------------------------------
// Montgomery<int32_t>: a derived class gives access to the protected constants and reductions
// ------------------------------------------------------------------------------------------------
struct M32 : Montgomery<int32_t> {
    typedef Montgomery<int32_t> Base;
    explicit M32(uint32_t p) : Base(p) {}
    uint32_t Bp() const { return _Bp; }
    uint32_t B2p() const { return _B2p; }
    uint32_t B3p() const { return _B3p; }
    uint32_t nim() const { return _nim; }
    uint32_t x_redc(uint32_t c) const { Element r = 0xdeadbeefU; redc(r, c); return r; }
    uint32_t x_redcal(uint32_t c) const { return redcal(c); }
    uint32_t x_redcsal(uint32_t c) const { return redcsal(c); }
    uint32_t x_redcs(uint32_t c) const { Element r = 0xdeadbeefU; redcs(r, c); return r; }
    uint32_t x_redcin(uint32_t c) const { Element r = c; redcin(r); return r; }
    uint32_t x_redcsin(uint32_t c) const { Element r = c; redcsin(r); return r; }
};

// m32k p = nim Bp B2p B3p one mOne zero maxCardinality
static void do_m32k(const Args& a, Out& o) {
    uint32_t p = (uint32_t)a.W(0);
    M32 F(p);
    putu(o, F.nim()); putu(o, F.Bp()); putu(o, F.B2p()); putu(o, F.B3p());
    putu(o, F.one); putu(o, F.mOne); putu(o, F.zero); putu(o, M32::maxCardinality());
}
// m32r p c = redc redcal redcsal redcs redcin redcsin      (raw reductions of the 32-bit word c)
static void do_m32r(const Args& a, Out& o) {
    uint32_t p = (uint32_t)a.W(0), c = (uint32_t)a.W(1);
    M32 F(p);
    putu(o, F.x_redc(c)); putu(o, F.x_redcal(c)); putu(o, F.x_redcsal(c));
    putu(o, F.x_redcs(c)); putu(o, F.x_redcin(c)); putu(o, F.x_redcsin(c));
}
// m32 p a b c = A B C  then for each op: raw conv
//   ops: add sub mul neg axpy axmy maxpy axpyin axmyin maxpyin addin subin mulin negin
static void do_m32(const Args& a, Out& o) {
    uint32_t p = (uint32_t)a.W(0);
    uint64_t va = a.W(1), vb = a.W(2), vc = a.W(3);
    M32 F(p);
    uint32_t A, B, C, r;
    F.init(A, va); F.init(B, vb); F.init(C, vc);
    putu(o, A); putu(o, B); putu(o, C);
    auto emit = [&](uint32_t x) { uint32_t v; F.convert(v, x); putu(o, x); putu(o, v); };
    r = 0xdeadbeefU; F.add(r, A, B); emit(r);
    r = 0xdeadbeefU; F.sub(r, A, B); emit(r);
    r = 0xdeadbeefU; F.mul(r, A, B); emit(r);
    r = 0xdeadbeefU; F.neg(r, A); emit(r);
    r = 0xdeadbeefU; F.axpy(r, A, B, C); emit(r);
    r = 0xdeadbeefU; F.axmy(r, A, B, C); emit(r);
    r = 0xdeadbeefU; F.maxpy(r, A, B, C); emit(r);
    r = C; F.axpyin(r, A, B); emit(r);
    r = C; F.axmyin(r, A, B); emit(r);
    r = C; F.maxpyin(r, A, B); emit(r);
    r = A; F.addin(r, B); emit(r);
    r = A; F.subin(r, B); emit(r);
    r = A; F.mulin(r, B); emit(r);
    r = A; F.negin(r); emit(r);
}
// m32d p a b = B  inv(b) conv  div(a,b) conv  invin conv  divin conv  isUnit      (b a unit mod p)
static void do_m32d(const Args& a, Out& o) {
    uint32_t p = (uint32_t)a.W(0);
    uint64_t va = a.W(1), vb = a.W(2);
    M32 F(p);
    uint32_t A, B, r;
    F.init(A, va); F.init(B, vb);
    putu(o, B);
    auto emit = [&](uint32_t x) { uint32_t v; F.convert(v, x); putu(o, x); putu(o, v); };
    r = 0xdeadbeefU; F.inv(r, B); emit(r);
    r = 0xdeadbeefU; F.div(r, A, B); emit(r);
    r = B; F.invin(r); emit(r);
    r = A; F.divin(r, B); emit(r);
    putu(o, F.isUnit(B) ? 1 : 0);
}
// m32i p v = raw(int64) conv  raw(uint64 or 0) conv  raw(Integer) conv  raw(int32 template, if it fits, else int64 again) conv
static void do_m32i(const Args& a, Out& o) {
    uint32_t p = (uint32_t)a.W(0);
    long long v = a.SW(1);
    M32 F(p);
    uint32_t r, c;
    auto emit = [&](uint32_t x) { uint32_t w; F.convert(w, x); putu(o, x); putu(o, w); };
    r = 0xdeadbeefU; F.init(r, (int64_t)v); emit(r);
    if (v >= 0) { r = 0xdeadbeefU; F.init(r, (uint64_t)v); emit(r); } else { putu(o, 0); putu(o, 0); }
    { Integer I; mpz_set_str(I.get_mpz(), a.s(1).c_str(), 16); r = 0xdeadbeefU; F.init(r, I); emit(r); }
    if (v >= INT32_MIN + 1 && v <= INT32_MAX) { r = 0xdeadbeefU; F.init(r, (int32_t)v); emit(r); }
    else { r = 0xdeadbeefU; F.init(r, (int64_t)v); emit(r); }
    (void)c;
}

// ------------------------------------------------------------------------------------------------
// Montgomery<ruint<K>>
// ------------------------------------------------------------------------------------------------
template <size_t K> struct MR : Montgomery<RecInt::ruint<K>> {
    typedef Montgomery<RecInt::ruint<K>> Base;
    typedef RecInt::ruint<K> E;
    explicit MR(const E& p) : Base(p) {}
    const E& p1() const { return this->_p1; }
    const E& r() const { return this->_r; }
    const E& r2() const { return this->_r2; }
    const E& r3() const { return this->_r3; }
    E x_reduc(const E& b) const { E a; this->mg_reduc(a, b); return a; }
};

// mrk K p = p1 r r2 r3 one mOne zero
template <size_t K> static void do_mrk(const Args& a, Out& o) {
    MR<K> F(toR<K>(Zarg(a, 1)));
    put<K>(o, F.p1()); put<K>(o, F.r()); put<K>(o, F.r2()); put<K>(o, F.r3());
    put<K>(o, F.one); put<K>(o, F.mOne); put<K>(o, F.zero);
}
// mr K p a b c = A B C  then for each op: raw conv       (same op list as m32)
template <size_t K> static void do_mr(const Args& a, Out& o) {
    typedef RecInt::ruint<K> E;
    MR<K> F(toR<K>(Zarg(a, 1)));
    E A, B, C, r;
    F.init(A, toR<K>(Zarg(a, 2))); F.init(B, toR<K>(Zarg(a, 3))); F.init(C, toR<K>(Zarg(a, 4)));
    put<K>(o, A); put<K>(o, B); put<K>(o, C);
    auto emit = [&](const E& x) { E v; F.convert(v, x); put<K>(o, x); put<K>(o, v); };
    const E junk = toR<K>(mpz_class("deadbeefdeadbeef", 16));
    r = junk; F.add(r, A, B); emit(r);
    r = junk; F.sub(r, A, B); emit(r);
    r = junk; F.mul(r, A, B); emit(r);
    r = junk; F.neg(r, A); emit(r);
    r = junk; F.axpy(r, A, B, C); emit(r);
    r = junk; F.axmy(r, A, B, C); emit(r);
    r = junk; F.maxpy(r, A, B, C); emit(r);
    r = C; F.axpyin(r, A, B); emit(r);
    r = C; F.axmyin(r, A, B); emit(r);
    r = C; F.maxpyin(r, A, B); emit(r);
    r = A; F.addin(r, B); emit(r);
    r = A; F.subin(r, B); emit(r);
    r = A; F.mulin(r, B); emit(r);
    r = A; F.negin(r); emit(r);
}
// mrd K p a b = B  inv conv  div conv  invin conv  divin conv  isUnit
template <size_t K> static void do_mrd(const Args& a, Out& o) {
    typedef RecInt::ruint<K> E;
    MR<K> F(toR<K>(Zarg(a, 1)));
    E A, B, r;
    F.init(A, toR<K>(Zarg(a, 2))); F.init(B, toR<K>(Zarg(a, 3)));
    put<K>(o, B);
    auto emit = [&](const E& x) { E v; F.convert(v, x); put<K>(o, x); put<K>(o, v); };
    const E junk = toR<K>(mpz_class("deadbeefdeadbeef", 16));
    r = junk; F.inv(r, B); emit(r);
    r = junk; F.div(r, A, B); emit(r);
    r = B; F.invin(r); emit(r);
    r = A; F.divin(r, B); emit(r);
    putu(o, F.isUnit(B) ? 1 : 0);
}
// mri K p v = raw(Integer v) conv  raw(ruint v or 0) conv  reduc(v mod 2^(2^K))     (v signed; |v| < 2^(2^K))
template <size_t K> static void do_mri(const Args& a, Out& o) {
    typedef RecInt::ruint<K> E;
    MR<K> F(toR<K>(Zarg(a, 1)));
    mpz_class v = Zarg(a, 2);
    E r;
    auto emit = [&](const E& x) { E w; F.convert(w, x); put<K>(o, x); put<K>(o, w); };
    { Integer I; mpz_set(I.get_mpz(), v.get_mpz_t()); F.init(r, I); emit(r); }
    if (v >= 0) { F.init(r, toR<K>(v)); emit(r); } else { putu(o, 0); putu(o, 0); }
    { mpz_class m = v; if (m < 0) m = -m; put<K>(o, F.x_reduc(toR<K>(m))); }
}

// ------------------------------------------------------------------------------------------------
// rmint<K, MG_ACTIVE> and rmint<K, MG_INACTIVE>   (class-static modulus: set per case)
// ------------------------------------------------------------------------------------------------
template <size_t K> static void set_modulus(const mpz_class& p) {
    RecInt::ruint<K> rp = toR<K>(p);
    RecInt::rmint<K, RecInt::MG_ACTIVE>::init_module(rp);
    RecInt::rmint<K, RecInt::MG_INACTIVE>::init_module(rp);
}
#define GA RecInt::rmint<K, RecInt::MG_ACTIVE>
#define GI RecInt::rmint<K, RecInt::MG_INACTIVE>

// rmk K p = p(MGA) p1 r p(MGI)
template <size_t K> static void do_rmk(const Args& a, Out& o) {
    set_modulus<K>(Zarg(a, 1));
    put<K>(o, GA::p); put<K>(o, GA::p1); put<K>(o, GA::r); put<K>(o, GI::p);
}
// rm K p a b c = A B C (raw MGA)  then for each op: rawMGA outMGA valMGI
//   ops: add sub mul neg addmul(c += a*b) square(a) addin subin mulin negin  reduction(ruint a)  ctor MGA(MGI a)  ctor MGI(MGA a)
template <size_t K> static void do_rm(const Args& a, Out& o) {
    typedef RecInt::ruint<K> E;
    set_modulus<K>(Zarg(a, 1));
    E ua = toR<K>(Zarg(a, 2)), ub = toR<K>(Zarg(a, 3)), uc = toR<K>(Zarg(a, 4));
    GA A(ua), B(ub), C(uc), r;
    GI a_(ua), b_(ub), c_(uc), s;
    put<K>(o, A.Value); put<K>(o, B.Value); put<K>(o, C.Value);
    auto emit = [&](const GA& x, const GI& y) { put<K>(o, x.Value); put<K>(o, RecInt::get_ruint(x)); put<K>(o, y.Value); };
    RecInt::add(r, A, B); RecInt::add(s, a_, b_); emit(r, s);
    RecInt::sub(r, A, B); RecInt::sub(s, a_, b_); emit(r, s);
    RecInt::mul(r, A, B); RecInt::mul(s, a_, b_); emit(r, s);
    RecInt::neg(r, A); RecInt::neg(s, a_); emit(r, s);
    r = C; s = c_; RecInt::addmul(r, A, B); RecInt::addmul(s, a_, b_); emit(r, s);
    RecInt::square(r, A); RecInt::square(s, a_); emit(r, s);
    r = A; s = a_; RecInt::add(r, B); RecInt::add(s, b_); emit(r, s);
    r = A; s = a_; RecInt::sub(r, B); RecInt::sub(s, b_); emit(r, s);
    r = A; s = a_; RecInt::mul(r, B); RecInt::mul(s, b_); emit(r, s);
    r = A; s = a_; RecInt::neg(r); RecInt::neg(s); emit(r, s);
    { GA t; GI u; RecInt::reduction(t, ua); RecInt::reduction(u, ua); put<K>(o, t.Value); put<K>(o, u.Value); }
    { GA t(a_); put<K>(o, t.Value); put<K>(o, RecInt::get_ruint(t)); }
    { GI u(A); put<K>(o, u.Value); }                      // conversion out: rmint<K,MGI>(const rmint<K,MGA>&)
}
// rmd K p a b = B(raw) inv: rawMGA outMGA valMGI   div(a,b): rawMGA outMGA valMGI   inv-in-place   div-in-place
template <size_t K> static void do_rmd(const Args& a, Out& o) {
    typedef RecInt::ruint<K> E;
    set_modulus<K>(Zarg(a, 1));
    E ua = toR<K>(Zarg(a, 2)), ub = toR<K>(Zarg(a, 3));
    GA A(ua), B(ub), r;
    GI a_(ua), b_(ub), s;
    put<K>(o, B.Value);
    auto emit = [&](const GA& x, const GI& y) { put<K>(o, x.Value); put<K>(o, RecInt::get_ruint(x)); put<K>(o, y.Value); };
    RecInt::inv(r, B); RecInt::inv(s, b_); emit(r, s);
    RecInt::div(r, A, B); RecInt::div(s, a_, b_); emit(r, s);
    r = B; s = b_; RecInt::inv(r); RecInt::inv(s); emit(r, s);
    r = A; s = a_; RecInt::div(r, B); RecInt::div(s, b_); emit(r, s);
}
// rme K p a e = exp(ruint e): rawMGA outMGA valMGI    exp(UDItype e mod 2^64): rawMGA outMGA valMGI
template <size_t K> static void do_rme(const Args& a, Out& o) {
    typedef RecInt::ruint<K> E;
    set_modulus<K>(Zarg(a, 1));
    E ua = toR<K>(Zarg(a, 2));
    mpz_class ze = Zarg(a, 3);
    E e = toR<K>(ze);
    GA A(ua), r;
    GI a_(ua), s;
    auto emit = [&](const GA& x, const GI& y) { put<K>(o, x.Value); put<K>(o, RecInt::get_ruint(x)); put<K>(o, y.Value); };
    RecInt::exp(r, A, e); RecInt::exp(s, a_, e); emit(r, s);
    mpz_class lo = ze & mpz_class("ffffffffffffffff", 16);
    RecInt::UDItype e64 = (RecInt::UDItype)lo.get_ui();
    RecInt::exp(r, A, e64); RecInt::exp(s, a_, e64); emit(r, s);
}
// rmc K p v = ctor from int64 v: rawMGA outMGA valMGI ; ctor from uint64 |v|: rawMGA outMGA valMGI
template <size_t K> static void do_rmc(const Args& a, Out& o) {
    set_modulus<K>(Zarg(a, 1));
    long long v = a.SW(2);
    auto emit = [&](const GA& x, const GI& y) { put<K>(o, x.Value); put<K>(o, RecInt::get_ruint(x)); put<K>(o, y.Value); };
    { GA x((int64_t)v); GI y((int64_t)v); emit(x, y); }
    { uint64_t u = (uint64_t)(v < 0 ? -(unsigned long long)v : (unsigned long long)v); GA x(u); GI y(u); emit(x, y); }
}

// rmx K p a v = (v a built-in int64_t scalar)  for each op: rawMGA outMGA valMGI
//   ops: mul(r,A,v)  mul(r=A,v)  add(r,A,v)  sub(r,A,v)  addmul(r=A,A,v)  v - A  A * v
template <size_t K, typename SV = int64_t> static void do_rmx(const Args& a, Out& o) {
    typedef RecInt::ruint<K> E;
    set_modulus<K>(Zarg(a, 1));
    E ua = toR<K>(Zarg(a, 2));
    SV v = (SV)(int64_t)a.SW(3);      // the scalar in its own built-in type: magnitudes are taken in that type by the library
    GA A(ua), r;
    GI a_(ua), s;
    auto emit = [&](const GA& x, const GI& y) { put<K>(o, x.Value); put<K>(o, RecInt::get_ruint(x)); put<K>(o, y.Value); };
    RecInt::mul(r, A, v); RecInt::mul(s, a_, v); emit(r, s);
    r = A; s = a_; RecInt::mul(r, v); RecInt::mul(s, v); emit(r, s);
    RecInt::add(r, A, v); RecInt::add(s, a_, v); emit(r, s);
    RecInt::sub(r, A, v); RecInt::sub(s, a_, v); emit(r, s);
    r = A; s = a_; RecInt::addmul(r, A, v); RecInt::addmul(s, a_, v); emit(r, s);
    r = v - A; s = v - a_; emit(r, s);
    r = A * v; s = a_ * v; emit(r, s);
}
// rmxd K p a v = (v a built-in int64_t scalar, a unit mod p)  div(r,A,v)  inv(r,v) : rawMGA outMGA valMGI each
template <size_t K> static void do_rmxd(const Args& a, Out& o) {
    typedef RecInt::ruint<K> E;
    set_modulus<K>(Zarg(a, 1));
    E ua = toR<K>(Zarg(a, 2));
    int64_t v = (int64_t)a.SW(3);
    GA A(ua), r;
    GI a_(ua), s;
    auto emit = [&](const GA& x, const GI& y) { put<K>(o, x.Value); put<K>(o, RecInt::get_ruint(x)); put<K>(o, y.Value); };
    RecInt::div(r, A, v); RecInt::div(s, a_, v); emit(r, s);
    RecInt::inv(r, v); RecInt::inv(s, v); emit(r, s);
}

// ------------------------------------------------------------------------------------------------
// histories: a sequence of operations on a file of 5 registers, executed with the real in-place / fused / 3-operand calls
//   m32h p v0 v1 v2 v3 v4  (op d a b c)*  = raw0..raw4 conv0..conv4          mrh K p v0 … v4 (op d a b c)* = raw… conv…
//   op: 0 add(d,a,b) 1 sub(d,a,b) 2 mul(d,a,b) 3 neg(d,a) 4 axpy(d,a,b,c) 5 axmy(d,a,b,c) 6 maxpy(d,a,b,c)
//       7 addin(d,a) 8 subin(d,a) 9 mulin(d,a) a negin(d) b axpyin(d,a,b) c axmyin(d,a,b) d maxpyin(d,a,b)
//   (the generator never aliases the destination of a non-in-place call with a source: alias safety is property C15)
// ------------------------------------------------------------------------------------------------
template <class Field, class Elt> static void run_history(const Field& F, Elt* r, const Args& a, size_t first) {
    for (size_t i = first; i + 5 <= a.n(); i += 5) {
        unsigned op = (unsigned)a.W(i), d = (unsigned)a.W(i + 1) % 5, x = (unsigned)a.W(i + 2) % 5, y = (unsigned)a.W(i + 3) % 5,
                 z = (unsigned)a.W(i + 4) % 5;
        switch (op) {
            case 0: F.add(r[d], r[x], r[y]); break;
            case 1: F.sub(r[d], r[x], r[y]); break;
            case 2: F.mul(r[d], r[x], r[y]); break;
            case 3: F.neg(r[d], r[x]); break;
            case 4: F.axpy(r[d], r[x], r[y], r[z]); break;
            case 5: F.axmy(r[d], r[x], r[y], r[z]); break;
            case 6: F.maxpy(r[d], r[x], r[y], r[z]); break;
            case 7: F.addin(r[d], r[x]); break;
            case 8: F.subin(r[d], r[x]); break;
            case 9: F.mulin(r[d], r[x]); break;
            case 10: F.negin(r[d]); break;
            case 11: F.axpyin(r[d], r[x], r[y]); break;
            case 12: F.axmyin(r[d], r[x], r[y]); break;
            case 13: F.maxpyin(r[d], r[x], r[y]); break;
            default: break;
        }
    }
}
static void do_m32h(const Args& a, Out& o) {
    uint32_t p = (uint32_t)a.W(0);
    M32 F(p);
    uint32_t r[5];
    for (int i = 0; i < 5; ++i) F.init(r[i], (uint64_t)a.W(1 + i));
    run_history(F, r, a, 6);
    for (int i = 0; i < 5; ++i) putu(o, r[i]);
    for (int i = 0; i < 5; ++i) { uint32_t v; F.convert(v, r[i]); putu(o, v); }
}
template <size_t K> static void do_mrh(const Args& a, Out& o) {
    typedef RecInt::ruint<K> E;
    MR<K> F(toR<K>(Zarg(a, 1)));
    E r[5];
    for (int i = 0; i < 5; ++i) F.init(r[i], toR<K>(Zarg(a, 2 + i)));
    run_history(F, r, a, 7);
    for (int i = 0; i < 5; ++i) put<K>(o, r[i]);
    for (int i = 0; i < 5; ++i) { E v; F.convert(v, r[i]); put<K>(o, v); }
}

// ------------------------------------------------------------------------------------------------
// sources far outside [0,p): construction / assignment / conversion of both rmint variants and init of the rings
// ------------------------------------------------------------------------------------------------
// type codes of machine-word sources: 0 int8 1 int16 2 int32 3 int64 4 uint8 5 uint16 6 uint32 7 uint64 8 double (integer-valued)
template <class F> static bool with_word(unsigned t, const mpz_class& v, F&& f) {
    long long sv = v.fits_slong_p() ? v.get_si() : 0;
    unsigned long long uv = (v >= 0 && v.fits_ulong_p()) ? v.get_ui() : 0;
    switch (t) {
        case 0: if (v < INT8_MIN || v > INT8_MAX) return false; f((int8_t)sv); return true;
        case 1: if (v < INT16_MIN || v > INT16_MAX) return false; f((int16_t)sv); return true;
        case 2: if (v < INT32_MIN || v > INT32_MAX) return false; f((int32_t)sv); return true;
        case 3: if (!v.fits_slong_p()) return false; f((int64_t)sv); return true;
        case 4: if (v < 0 || v > UINT8_MAX) return false; f((uint8_t)uv); return true;
        case 5: if (v < 0 || v > UINT16_MAX) return false; f((uint16_t)uv); return true;
        case 6: if (v < 0 || v > UINT32_MAX) return false; f((uint32_t)uv); return true;
        case 7: if (v < 0 || !v.fits_ulong_p()) return false; f((uint64_t)uv); return true;
        case 8: { double d = v.get_d(); if (mpz_class(d) != v) return false; f(d); return true; }
        default: return false;
    }
}
// rmr K p c = (c ANY value of ruint<K>)  ctor from ruint: rawMGA outMGA valMGI   assignment from ruint: …
//             ctor from rint<K> (the same word read in two's complement): …   assignment from rint: …
//             reduction(t, c): MGA MGI    reduction(t) with t.Value = c: MGI MGA
template <size_t K> static void do_rmr(const Args& a, Out& o) {
    typedef RecInt::ruint<K> E;
    set_modulus<K>(Zarg(a, 1));
    E c = toR<K>(Zarg(a, 2));
    RecInt::rint<K> s(c);
    auto emit = [&](const GA& x, const GI& y) { put<K>(o, x.Value); put<K>(o, RecInt::get_ruint(x)); put<K>(o, y.Value); };
    { GA x(c); GI y(c); emit(x, y); }
    { GA x; GI y; x = c; y = c; emit(x, y); }
    { GA x(s); GI y(s); emit(x, y); }
    { GA x; GI y; x = s; y = s; emit(x, y); }
    { GA t; GI u; RecInt::reduction(t, c); RecInt::reduction(u, c); put<K>(o, t.Value); put<K>(o, u.Value); }
    { GI u; u.Value = c; RecInt::reduction(u); put<K>(o, u.Value); GA t; t.Value = c; RecInt::reduction(t); put<K>(o, t.Value); }
}
// rmw K p t v = (v a machine word of type t)  ctor: rawMGA outMGA valMGI   assignment: rawMGA outMGA valMGI
template <size_t K> static void do_rmw(const Args& a, Out& o) {
    set_modulus<K>(Zarg(a, 1));
    unsigned t = (unsigned)a.W(2);
    auto emit = [&](const GA& x, const GI& y) { put<K>(o, x.Value); put<K>(o, RecInt::get_ruint(x)); put<K>(o, y.Value); };
    bool ok = with_word(t, Zarg(a, 3), [&](auto w) {
        { GA x(w); GI y(w); emit(x, y); }
        { GA x; GI y; x = w; y = w; emit(x, y); }
    });
    if (!ok) o.raw("RANGE");
}
// rmz K p v = (v ANY integer)  mpz_to_rmint: rawMGA outMGA valMGI   rmint_to_mpz: MGA MGI
template <size_t K> static void do_rmz(const Args& a, Out& o) {
    set_modulus<K>(Zarg(a, 1));
    mpz_class v = Zarg(a, 2);
    GA x; GI y;
    RecInt::mpz_to_rmint(x, v); RecInt::mpz_to_rmint(y, v);
    put<K>(o, x.Value); put<K>(o, RecInt::get_ruint(x)); put<K>(o, y.Value);
    mpz_class m1, m2;
    RecInt::rmint_to_mpz(m1, x); RecInt::rmint_to_mpz(m2, y);
    put(o, m1); put(o, m2);
}
// rmq K p a c = (a residue, c int64)  (A == c) MGA  MGI   (A == ruint(c)) MGA MGI   [second pair 0 0 when c < 0]
template <size_t K> static void do_rmq(const Args& a, Out& o) {
    typedef RecInt::ruint<K> E;
    set_modulus<K>(Zarg(a, 1));
    E ua = toR<K>(Zarg(a, 2));
    int64_t c = (int64_t)a.SW(3);
    GA A(ua); GI a_(ua);
    putu(o, (A == c) ? 1 : 0); putu(o, (a_ == c) ? 1 : 0);
    if (c >= 0) { E uc((uint64_t)c); putu(o, (A == uc) ? 1 : 0); putu(o, (a_ == uc) ? 1 : 0); } else { putu(o, 0); putu(o, 0); }
}
// mrz K p v = (v ANY integer)  Montgomery<ruint<K>>::init(Integer): raw conv   convert into an Integer
template <size_t K> static void do_mrz(const Args& a, Out& o) {
    typedef RecInt::ruint<K> E;
    MR<K> F(toR<K>(Zarg(a, 1)));
    Integer I; mpz_set_str(I.get_mpz(), a.s(2).c_str(), 16);
    E r, w; F.init(r, I); F.convert(w, r);
    put<K>(o, r); put<K>(o, w);
    Integer back; F.convert(back, r); o.raw(vp::hex(back.get_mpz_const()));
}
// mrw K p t v = init from a machine word (t = 0…8), from ANY ruint<K> (t = 9) or ANY rint<K> (t = a, v the two's-complement word): raw conv
template <size_t K> static void do_mrw(const Args& a, Out& o) {
    typedef RecInt::ruint<K> E;
    MR<K> F(toR<K>(Zarg(a, 1)));
    unsigned t = (unsigned)a.W(2);
    mpz_class v = Zarg(a, 3);
    E r, w;
    bool ok = true;
    if (t == 9) { F.init(r, toR<K>(v)); }
    else if (t == 10) { RecInt::rint<K> s(toR<K>(v)); F.init(r, s); }
    else ok = with_word(t, v, [&](auto x) { F.init(r, x); });
    if (!ok) { o.raw("RANGE"); return; }
    F.convert(w, r);
    put<K>(o, r); put<K>(o, w);
}
// m32u p v = init(uint64_t v), any v: raw conv        m32z p v = init(Integer v), any v: raw conv
static void do_m32u(const Args& a, Out& o) {
    M32 F((uint32_t)a.W(0));
    uint32_t r, w; F.init(r, (uint64_t)a.W(1)); F.convert(w, r); putu(o, r); putu(o, w);
}
static void do_m32z(const Args& a, Out& o) {
    M32 F((uint32_t)a.W(0));
    Integer I; mpz_set_str(I.get_mpz(), a.s(1).c_str(), 16);
    uint32_t r, w; F.init(r, I); F.convert(w, r); putu(o, r); putu(o, w);
}

// ------------------------------------------------------------------------------------------------
// dispatch
// ------------------------------------------------------------------------------------------------
template <size_t K> static bool dispatchK(const std::string& key, const Args& a, Out& o) {
    if (key == "mrk") do_mrk<K>(a, o);
    else if (key == "mr") do_mr<K>(a, o);
    else if (key == "mrd") do_mrd<K>(a, o);
    else if (key == "mri") do_mri<K>(a, o);
    else if (key == "rmk") do_rmk<K>(a, o);
    else if (key == "rm") do_rm<K>(a, o);
    else if (key == "rmd") do_rmd<K>(a, o);
    else if (key == "rme") do_rme<K>(a, o);
    else if (key == "rmc") do_rmc<K>(a, o);
    else if (key == "rmx") do_rmx<K>(a, o);
    else if (key == "rmx32") do_rmx<K, int32_t>(a, o);
    else if (key == "rmxd") do_rmxd<K>(a, o);
    else if (key == "mrh") do_mrh<K>(a, o);
    else if (key == "rmr") do_rmr<K>(a, o);
    else if (key == "rmw") do_rmw<K>(a, o);
    else if (key == "rmz") do_rmz<K>(a, o);
    else if (key == "rmq") do_rmq<K>(a, o);
    else if (key == "mrz") do_mrz<K>(a, o);
    else if (key == "mrw") do_mrw<K>(a, o);
    else return false;
    return true;
}

static void process(const Args& a) {
    Out o;
    const std::string& key = a.tok[0];
    bool ok = true;
    try {
        if (key == "m32k") do_m32k(a, o);
        else if (key == "m32r") do_m32r(a, o);
        else if (key == "m32") do_m32(a, o);
        else if (key == "m32d") do_m32d(a, o);
        else if (key == "m32i") do_m32i(a, o);
        else if (key == "m32h") do_m32h(a, o);
        else if (key == "m32u") do_m32u(a, o);
        else if (key == "m32z") do_m32z(a, o);
        else {
            unsigned long long K = a.W(0);
            switch (K) {
                case 6: ok = dispatchK<6>(key, a, o); break;
                case 7: ok = dispatchK<7>(key, a, o); break;
                case 8: ok = dispatchK<8>(key, a, o); break;
                case 9: ok = dispatchK<9>(key, a, o); break;
                case 10: ok = dispatchK<10>(key, a, o); break;
                default: ok = false;
            }
        }
        vp::emit(a, ok ? o.s : "NOFUNC");
    } catch (...) {
        vp::emit(a, "EXC");
    }
}

// ------------------------------------------------------------------------------------------------
// generators (structured, every random choice from one splitmix64 state)
// ------------------------------------------------------------------------------------------------
struct Gen {
    vp::Rng rng;
    bool thorough;
    size_t count = 0;
    Gen(uint64_t seed, bool th) : rng(seed * 0x9E3779B97F4A7C15ULL + 12345), thorough(th) {}

    void line(const std::string& s) {
        Args a;
        std::istringstream ss(s);
        std::string t;
        while (ss >> t) a.tok.push_back(t);
        process(a);
        if ((++count & 0xfff) == 0) fflush(stdout);
    }
    static std::string H(unsigned long long v) { return vp::hex_ull(v); }
    static std::string HS(long long v) { return vp::hex_ll(v); }

    // ---------------- sources of every magnitude class (construction / assignment / conversion)
    static std::string HZ(const mpz_class& v) { return vp::hex(v.get_mpz_t()); }
    // magnitude classes relative to p, bounded by `top` (inclusive): 0, p-1, p, p+1, 2p-1, 2p, 2p+1, k·p±1 for the largest k, a middle k
    std::vector<mpz_class> magnitudes(const mpz_class& p, const mpz_class& top) {
        std::vector<mpz_class> v = {0, 1, p - 1, p, p + 1, 2 * p - 1, 2 * p, 2 * p + 1, 3 * p, 1003};
        mpz_class k = top / p;
        if (k > 2) { v.push_back(k * p - 1); v.push_back(k * p); if (k * p + 1 <= top) v.push_back(k * p + 1); }
        if (k > 5) { mpz_class j = 2 + mpz_class(H(rng.next()), 16) % (k - 2); v.push_back(j * p - 1); v.push_back(j * p + 1); v.push_back(j * p); }
        v.push_back(top); v.push_back(top - 1); v.push_back(top / 2); v.push_back(top / 2 + 1); v.push_back(top / 2 + 2);
        std::vector<mpz_class> out;
        for (auto& x : v) if (x >= 0 && x <= top) out.push_back(x);
        return out;
    }
    void genSources(size_t K, const mpz_class& p, bool full) {
        const std::string P = H(K) + " " + hx(p);
        const size_t W = (size_t)1 << K;
        const mpz_class R = mpz_class(1) << W;
        // every value class of ruint<K>; the same words read as rint<K> cover both signs and the minimum
        std::vector<mpz_class> cs = magnitudes(p, R - 1);
        for (const mpz_class& m : magnitudes(p, R / 2)) if (m > 0) cs.push_back(R - m);      // small negative rint values / large ruint values
        cs.push_back(limb_structured(W / 64) % R);
        cs.push_back(rnd_bits(W));
        for (const mpz_class& c : cs) {
            line("rmr " + P + " " + hx(c));
            line("mrw " + P + " 9 " + hx(c));
            line("mrw " + P + " a " + hx(c));
        }
        // machine words of every type
        static const char* lo[] = {"-80", "-8000", "-80000000", "-8000000000000000", "0", "0", "0", "0", "-20000000000000"};
        static const char* hi[] = {"7f", "7fff", "7fffffff", "7fffffffffffffff", "ff", "ffff", "ffffffff", "ffffffffffffffff", "20000000000000"};
        for (unsigned t = 0; t <= 8; ++t) {
            if (!full && (t + p.get_ui()) % 3 != 0 && t != 2 && t != 3 && t != 7) continue;
            mpz_class L(lo[t], 16), Hh(hi[t], 16);
            std::vector<mpz_class> ws = magnitudes(p, Hh);
            if (L < 0) for (const mpz_class& m : magnitudes(p, -L)) if (m > 0) ws.push_back(-m);
            if (t == 8) { ws.push_back(mpz_class(1) << 62); ws.push_back(-(mpz_class(1) << 63)); }
            for (const mpz_class& w : ws) {
                if (w < L && t != 8) continue;
                line("rmw " + P + " " + H(t) + " " + HZ(w));
                line("mrw " + P + " " + H(t) + " " + HZ(w));
            }
        }
        // big integers of both signs, beyond the radix
        std::vector<mpz_class> zs = magnitudes(p, R * R * 4 + 12345);
        zs.push_back(R); zs.push_back(R + 5); zs.push_back(R - 1); zs.push_back(R * R); zs.push_back((R << 70) + 7);
        zs.push_back(limb_structured(W / 64 * 3));
        const size_t nz = zs.size();
        for (size_t i = 0; i < nz; ++i) zs.push_back(-zs[i]);
        for (const mpz_class& z : zs) {
            line("rmz " + P + " " + HZ(z));
            line("mrz " + P + " " + HZ(z));
        }
        // equality with a scalar
        if (p.fits_slong_p() && p < (mpz_class(1) << 60)) {
            long long q = p.get_si();
            long long as[] = {0, 1, q - 1, (long long)(rng.next() % (unsigned long long)q)};
            for (long long x : as) {
                long long cand[] = {x, x + 1, (x + 1) % q, x + q, x - q, x + 2 * q, -x, q, 0, -q};
                for (long long c : cand) line("rmq " + P + " " + H((unsigned long long)x) + " " + HS(c));
            }
        }
    }

    // ---------------- histories
    std::string history(size_t len) {
        std::string s;
        for (size_t i = 0; i < len; ++i) {
            unsigned op = (unsigned)rng.below(14);
            unsigned perm[5] = {0, 1, 2, 3, 4};
            for (int j = 4; j > 0; --j) { unsigned k = (unsigned)rng.below(j + 1); std::swap(perm[j], perm[k]); }
            unsigned d = perm[0], x = perm[1], y = perm[2], z = perm[3];
            // sources may coincide with each other (squares, a*a+a), never with the destination of a non-in-place call
            if (rng.below(4) == 0) y = x;
            if (rng.below(8) == 0) z = x;
            s += " " + H(op) + " " + H(d) + " " + H(x) + " " + H(y) + " " + H(z);
        }
        return s;
    }

    // ---------------- 32-bit ring
    std::vector<uint32_t> corners32(uint32_t p) {
        std::vector<uint32_t> c = {0, 1, 2 % p, p - 2, p - 1, p / 2, p / 2 + 1};
        return c;
    }
    static uint32_t gcd32(uint32_t a, uint32_t b) { while (b) { uint32_t t = a % b; a = b; b = t; } return a; }

    void gen32() {
        const uint32_t maxc = M32::maxCardinality();          // as reported by the running code
        for (uint32_t p = 3; p <= maxc; p += 2) {
            const bool edge = (p <= 257) || (p + 130 >= maxc) || (p >= 32749 && p <= 32771);
            const std::string P = H(p);
            line("m32k " + P);
            std::vector<uint32_t> cs = corners32(p);
            // raw reductions: the admissible inputs of redc are 0 … (p-1)^2
            const uint64_t top = (uint64_t)(p - 1) * (p - 1);
            std::vector<uint64_t> rc = {0, 1, 2, p - 1, p, p + 1, 65535, 65536, 65537, top, top - 1, (uint64_t)(p - 1) * (p - 2), top / 2,
                                        (top >> 16) << 16, ((top >> 16) << 16) | 0xffff};
            size_t nr = edge ? 8 : (thorough ? 6 : 1);
            for (size_t i = 0; i < nr; ++i) rc.push_back(rng.below(top + 1));
            size_t stride = edge ? 1 : (thorough ? 2 : 4);
            size_t off = (p >> 1) % 4;
            for (size_t i = 0; i < rc.size(); ++i) {
                if (i < 15 && stride > 1 && (i % stride) != off % stride && i != 9) continue;
                if (rc[i] <= top) line("m32r " + P + " " + H(rc[i]));
            }
            // triples
            if (p <= (thorough ? 31u : 13u)) {
                for (uint32_t x = 0; x < p; ++x) for (uint32_t y = 0; y < p; ++y) for (uint32_t z = 0; z < p; ++z)
                    line("m32 " + P + " " + H(x) + " " + H(y) + " " + H(z));
            } else if (thorough && p <= 127) {
                for (uint32_t x = 0; x < p; ++x) for (uint32_t y = 0; y < p; ++y)
                    line("m32 " + P + " " + H(x) + " " + H(y) + " " + H((x * 7 + y * 3 + 1) % p));
            }
            if (edge || (thorough && p % 64 == 1)) {
                for (uint32_t x : cs) for (uint32_t y : cs) for (uint32_t z : cs)
                    line("m32 " + P + " " + H(x) + " " + H(y) + " " + H(z));
            } else {
                size_t j = 1 + (p >> 1) % 6, k = 1 + (p >> 4) % 6;
                for (size_t i = thorough ? 0 : (p >> 1) % 2; i < 7; i += thorough ? 1 : 2) {
                    line("m32 " + P + " " + H(cs[i]) + " " + H(cs[(i * j + 1) % 7]) + " " + H(cs[(i * k + 2) % 7]));
                    if (thorough) {
                        line("m32 " + P + " " + H(cs[i]) + " " + H(cs[(i + j) % 7]) + " " + H(cs[(i + k + 3) % 7]));
                        line("m32 " + P + " " + H(cs[(i * k + 3) % 7]) + " " + H(cs[i]) + " " + H(cs[(i + 1) % 7]));
                    }
                }
            }
            size_t nt = edge ? 64 : (thorough ? 16 : 3);
            for (size_t i = 0; i < nt; ++i) {
                uint32_t x = rng.below(p), y = rng.below(p), z = rng.below(p);
                if ((i & 3) == 3) x = cs[rng.below(7)];
                if ((i & 7) == 5) y = cs[rng.below(7)];
                line("m32 " + P + " " + H(x) + " " + H(y) + " " + H(z));
            }
            // inverses / divisions: units only
            std::vector<uint32_t> us;
            for (size_t i = 0; i < cs.size(); ++i) if (gcd32(cs[i], p) == 1 && (thorough || edge || i == (p >> 1) % 7)) us.push_back(cs[i]);
            size_t nu = edge ? 32 : (thorough ? 6 : 2);
            for (size_t i = 0, tries = 0; i < nu && tries < 1000; ++tries) {
                uint32_t y = rng.below(p);
                if (gcd32(y, p) == 1) { us.push_back(y); ++i; }
            }
            if (p <= 257) { us.clear(); for (uint32_t y = 1; y < p; ++y) if (gcd32(y, p) == 1) us.push_back(y); }
            for (size_t i = 0; i < us.size(); ++i) {
                uint32_t x = (i % 3 == 0) ? cs[i % 7] : (uint32_t)rng.below(p);
                line("m32d " + P + " " + H(x) + " " + H(us[i]));
            }
            // init / convert
            std::vector<long long> vs;
            if (thorough || edge) vs = {0, 1, (long long)p - 1, (long long)p / 2}; else vs = {((p >> 1) & 1) ? (long long)p - 1 : (long long)p / 2, -(long long)rng.below(p)};
            if (edge || (thorough && p % 16 == 1)) {
                long long extra[] = {(long long)p, (long long)p + 1, -1, -(long long)p, -(long long)p + 1, -(long long)p - 1, 2 * (long long)p,
                                     2147483647LL, -2147483647LL, 4294967295LL, 4294967296LL, -4294967296LL,
                                     (1LL << 62) + 12345, -((1LL << 62) + 12345), 9223372036854775807LL, -9223372036854775807LL};
                for (long long e : extra) vs.push_back(e);
                for (int i = 0; i < 4; ++i) vs.push_back((long long)(rng.next() >> 1) * ((i & 1) ? -1 : 1));
            }
            vs.push_back((long long)rng.below(p));
            for (long long v : vs) line("m32i " + P + " " + HS(v));
            if (edge || (thorough ? (p >> 1) % 4 == 3 : (p >> 1) % 32 == 3)) {   // sources of init far outside [0,p)
                unsigned long long us[] = {0xffffffffffffffffULL, 0x8000000000000000ULL, 0x8000000000000001ULL, 0xffffffffULL, 0x100000000ULL,
                                           (unsigned long long)p * 2 + 1, (0xffffffffffffffffULL / p) * p, (0xffffffffffffffffULL / p) * p - 1, rng.next()};
                for (unsigned long long u : us) line("m32u " + P + " " + H(u));
                mpz_class big = (mpz_class(1) << 200) + 7, kp = mpz_class(p) * mpz_class(H(rng.next()), 16) * mpz_class(H(rng.next()), 16);
                mpz_class zs[] = {big, -big, kp, kp + 1, kp - 1, -kp, -kp - 1, mpz_class(1) << 64, -(mpz_class(1) << 63), -(mpz_class(1) << 64) - 1};
                for (const mpz_class& z : zs) line("m32z " + P + " " + HZ(z));
            }
            {   // histories: short ones exhaustively often, long ones sampled
                size_t nh = edge ? 6 : (thorough ? 3 : ((p >> 1) % 4 == 0 ? 1 : 0));
                for (size_t i = 0; i < nh; ++i) {
                    std::string l = "m32h " + P;
                    for (int j = 0; j < 5; ++j) l += " " + H((j == 0 && (i & 1)) ? cs[rng.below(7)] : (uint32_t)rng.below(p));
                    line(l + history(i % 3 == 0 ? 3 : (i % 3 == 1 ? 12 : 40)));
                }
            }
            if (p <= 257) {
                size_t step = 1;
                for (uint32_t v = 0; v < p; v += step) line("m32i " + P + " " + HS(v));
            }
        }
    }

    // ---------------- RecInt
    mpz_class rnd_bits(size_t bits) {          // uniformly random value with exactly `bits` bits (bits ≥ 1)
        mpz_class v = 0;
        for (size_t i = 0; i < (bits + 63) / 64; ++i) { v <<= 64; v += mpz_class(H(rng.next()), 16); }
        mpz_class m = (mpz_class(1) << bits);
        v %= m;
        v |= (mpz_class(1) << (bits - 1));
        return v;
    }
    mpz_class limb_structured(size_t nl) {     // limbs from {0, 1, 2^63, 2^64-1, random}
        static const char* L[] = {"0", "1", "8000000000000000", "ffffffffffffffff"};
        mpz_class v = 0;
        for (size_t i = 0; i < nl; ++i) {
            v <<= 64;
            size_t c = rng.below(6);
            v += (c < 4) ? mpz_class(L[c], 16) : mpz_class(H(rng.next()), 16);
        }
        return v;
    }
    std::vector<mpz_class> moduli(size_t K) {
        const size_t W = (size_t)1 << K;
        std::set<size_t> Ls;
        if (K == 6 || (thorough && K <= 7)) for (size_t L = 2; L <= W; ++L) Ls.insert(L);
        else {
            for (size_t L = 2; L <= 9; ++L) Ls.insert(L);
            for (size_t c = 64; c <= W; c += 64) { Ls.insert(c - 1); Ls.insert(c); if (c + 1 <= W) Ls.insert(c + 1); if (c + 2 <= W) Ls.insert(c - 31); }
            for (size_t i = 0; i < (thorough ? 60u : 10u); ++i) Ls.insert(2 + rng.below(W - 1));
            Ls.insert(W - 2);
        }
        std::vector<mpz_class> ps;
        for (size_t L : Ls) {
            mpz_class lo = (mpz_class(1) << (L - 1)) + 1;       // smallest odd modulus of this length
            mpz_class hi = (mpz_class(1) << L) - 1;             // all ones
            ps.push_back(hi);
            if (L > 2) ps.push_back(lo);
            if (L > 3) { mpz_class r = rnd_bits(L); r |= 1; ps.push_back(r); }
            if (L > 66) {                                       // top-heavy: top limb(s) all ones, rest random
                mpz_class r = rnd_bits(L);
                mpz_class topmask = ((mpz_class(1) << 64) - 1) << (L - 64);
                r |= topmask; r |= 1; ps.push_back(r);
                mpz_class s = limb_structured((L + 63) / 64) % (mpz_class(1) << L);
                s |= (mpz_class(1) << (L - 1)); s |= 1; ps.push_back(s);
            }
            if (L == W || L == W - 1) { ps.push_back(hi - 2); ps.push_back(hi - 4); }
            if (L > 8 && (thorough || (L % 64) < 2)) { ps.push_back(hi - 2 * (long)rng.below(100)); }
        }
        return ps;
    }
    std::vector<mpz_class> residues(const mpz_class& p, size_t K, size_t nrand) {
        std::vector<mpz_class> rs = {0, 1, 2 % p, p - 2, p - 1, p / 2, p / 2 + 1};
        for (size_t i = 0; i < nrand; ++i) {
            if (i & 1) rs.push_back(limb_structured((size_t)1 << (K - 6)) % p);
            else { mpz_class v = rnd_bits(((size_t)1 << K)); rs.push_back(v % p); }
        }
        return rs;
    }
    void genR(size_t K) {
        const std::string Ks = H(K);
        const size_t W = (size_t)1 << K;
        size_t pidx = 0;
        for (const mpz_class& p : moduli(K)) {
            const std::string P = Ks + " " + hx(p);
            line("mrk " + P);
            line("rmk " + P);
            {   // sources far outside [0,p): small, medium and maximal moduli
                const bool small = p < 1024, maximal = mpz_sizeinbase(p.get_mpz_t(), 2) + 1 >= W;
                if (thorough ? (small || maximal || pidx % 4 == 0) : (p < 64 || (maximal && pidx % 3 == 0) || pidx % 16 == 0))
                    genSources(K, p, (thorough && pidx % 3 == 0) || p < 16 || pidx % 32 == 0);
                ++pidx;
            }
            std::vector<mpz_class> rs = residues(p, K, thorough ? 5 : 3);
            const size_t n = rs.size();
            size_t nt = thorough ? 14 : 8;
            for (size_t i = 0; i < nt; ++i) {
                const mpz_class &x = rs[(i < n) ? i : rng.below(n)], &y = rs[(i < n) ? (i * 3 + 1) % n : rng.below(n)], &z = rs[rng.below(n)];
                line("mr " + P + " " + hx(x) + " " + hx(y) + " " + hx(z));
                line("rm " + P + " " + hx(x) + " " + hx(y) + " " + hx(z));
            }
            // all corner pairs once in a while (pairs decide the carry / compare branches of add, sub)
            if ((thorough && p % 3 == 0) || p % 7 == 0) for (size_t i = 0; i < 7; ++i) for (size_t j = 0; j < 7; ++j) {
                line("mr " + P + " " + hx(rs[i]) + " " + hx(rs[j]) + " " + hx(rs[(i + j) % 7]));
                line("rm " + P + " " + hx(rs[i]) + " " + hx(rs[j]) + " " + hx(rs[(i + j) % 7]));
            }
            // histories
            for (size_t i = 0; i < (thorough ? 4u : 2u); ++i) {
                std::string l = "mrh " + P;
                for (int j = 0; j < 5; ++j) l += " " + hx(rs[rng.below(n)]);
                line(l + history(i % 2 == 0 ? 6 : 30));
            }
            // units
            size_t nd = 0;
            for (size_t i = 0; i < n && nd < (thorough ? 7u : 5u); ++i) {
                mpz_class g;
                mpz_gcd(g.get_mpz_t(), rs[i].get_mpz_t(), p.get_mpz_t());
                if (g != 1) continue;
                ++nd;
                const mpz_class& x = rs[rng.below(n)];
                line("mrd " + P + " " + hx(x) + " " + hx(rs[i]));
                line("rmd " + P + " " + hx(x) + " " + hx(rs[i]));
            }
            // exponents
            std::vector<mpz_class> es = {0, 1, 2, p - 2, p - 1, (mpz_class(1) << W) - 1, mpz_class(1) << (W - 1), mpz_class(1) << 64 % W,
                                         (mpz_class(1) << (64 % W)) - 1, 15, 16, 17, mpz_class(H(rng.next()), 16) % (mpz_class(1) << W)};
            es.push_back(rnd_bits(1 + rng.below(W)));
            size_t ne = thorough ? 7 : 4;
            for (size_t i = 0; i < ne; ++i) {
                const mpz_class& e = es[(thorough && i < 3) ? (3 + i) : rng.below(es.size())];
                const mpz_class& x = rs[(i == 0) ? 0 : 2 + rng.below(n - 2)];
                line("rme " + P + " " + hx(x) + " " + hx(e % (mpz_class(1) << W)));
            }
            // init / constructors from signed machine integers and from Integer
            std::vector<mpz_class> vs = {0, 1, p - 1, rs[n - 1]};
            if (thorough || p % 3 == 0) { vs.push_back(p); vs.push_back(-p); vs.push_back(-1); vs.push_back(p + 1); vs.push_back(-(p - 1)); vs.push_back(-rs[n - 2]); }
            for (const mpz_class& v : vs) line("mri " + P + " " + hx(v));
            std::vector<long long> cs = {0, 1, -1, 7, -7, 2147483647LL, -2147483647LL, 9223372036854775807LL, -9223372036854775807LL};
            if (p.fits_slong_p()) { long long q = p.get_si(); cs.push_back(q); cs.push_back(-q); cs.push_back(q - 1); cs.push_back(-(q - 1)); long long q2 = (q <= 4611686018427387903LL) ? 2 * q : q; cs.push_back(q2); cs.push_back(-q2); }
            size_t nc = thorough ? cs.size() : std::min<size_t>(cs.size(), 15);
            for (size_t i = 0; i < nc; ++i) if (thorough || i >= 9 || (i + p.get_ui()) % 3 == 0) line("rmc " + P + " " + HS(cs[i]));
            // built-in scalars mixed with rmint operands (both signs)
            {   // the minimum of the 32-bit scalar type, as an `int` (its magnitude does not exist in that type), in every tier
                const mpz_class& x = rs[rng.below(n)];
                line("rmx32 " + P + " " + hx(x) + " " + HS(-2147483647LL - 1));
                line("rmx32 " + P + " " + hx(x) + " " + HS(-2147483647LL));
                line("rmx " + P + " " + hx(x) + " " + HS(-2147483647LL - 1));
            }
            for (size_t i = 0; i < nc; ++i) {
                if (!(thorough || i >= 9 || (i + p.get_ui()) % 4 == 1)) continue;
                const mpz_class& x = rs[rng.below(n)];
                line("rmx " + P + " " + hx(x) + " " + HS(cs[i]));
                if (cs[i] >= -2147483647LL - 1 && cs[i] <= 2147483647LL) line("rmx32 " + P + " " + hx(x) + " " + HS(cs[i]));
                mpz_class g, vv = mpz_class(HS(cs[i]).c_str(), 16);
                mpz_gcd(g.get_mpz_t(), vv.get_mpz_t(), p.get_mpz_t());
                if (g == 1) line("rmxd " + P + " " + hx(x) + " " + HS(cs[i]));
            }
        }
    }
};

int main(int argc, char** argv) {
    if (argc >= 2 && std::string(argv[1]) == "replay") {
        Args a;
        while (vp::read_line(std::cin, a)) { process(a); fflush(stdout); }
        return 0;
    }
    std::string tier = argc >= 2 ? argv[1] : "quick";
    uint64_t seed = argc >= 3 ? strtoull(argv[2], nullptr, 10) : 1;
    std::string part = argc >= 4 ? argv[3] : "all";
    Gen g(seed, tier == "thorough");
    if (part == "all" || part == "m32") g.gen32();
    if (part == "all" || part == "rec" || part == "rec9") {        // rec9: K = 6 … 9 only (sanitizer build in the thorough tier)
        for (size_t K = 6; K <= ((tier == "thorough" && part != "rec9") ? 10u : 9u); ++K) g.genR(K);
    }
    fflush(stdout);
    return 0;
}
