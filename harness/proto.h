// Line protocol shared by the correspondence harnesses.
//   input  : "<key> <arg> <arg> ..."              (numbers: optional '-' then hex digits)
//   output : "<key> <arg> ... = <res> <res> ..."  or "... = EXC" when the call threw
#pragma once
#include <gmp.h>
#include <cstdint>
#include <cstdio>
#include <cstdlib>
#include <iostream>
#include <sstream>
#include <string>
#include <vector>
#ifdef VERIF_COVERAGE_BUILD
// tools/coverage.py builds: children that leave through _exit() would lose their gcov counters
#include <unistd.h>
extern "C" void __gcov_dump(void);
static inline void vp_cov_exit(int c) { __gcov_dump(); ::_exit(c); }
#define _exit(c) vp_cov_exit(c)
#endif

namespace vp {

inline std::string hex(mpz_srcptr z) {
    char* s = mpz_get_str(nullptr, 16, z);
    std::string r(s);
    void (*freefn)(void*, size_t);
    mp_get_memory_functions(nullptr, nullptr, &freefn);
    freefn(s, r.size() + 1);
    return r;
}
inline std::string hex_ll(long long v) {
    char buf[40];
    if (v < 0) snprintf(buf, sizeof buf, "-%llx", 0ULL - (unsigned long long)v);
    else snprintf(buf, sizeof buf, "%llx", (unsigned long long)v);
    return buf;
}
inline std::string hex_ull(unsigned long long v) {
    char buf[40];
    snprintf(buf, sizeof buf, "%llx", v);
    return buf;
}

struct Args {
    std::vector<std::string> tok;   // tok[0] = key
    size_t n() const { return tok.size() - 1; }
    const std::string& s(size_t i) const { return tok.at(i + 1); }
    // two's-complement low 64 bits of the (in-range) value
    unsigned long long W(size_t i) const {
        mpz_t z; mpz_init(z); mpz_set_str(z, s(i).c_str(), 16);
        unsigned long long v = mpz_get_ui(z);
        if (mpz_sgn(z) < 0) v = 0ULL - v;
        mpz_clear(z);
        return v;
    }
    long long SW(size_t i) const { return (long long)W(i); }
};

struct Out {
    std::string s;
    void sep() { if (!s.empty()) s += ' '; }
    void raw(const std::string& t) { sep(); s += t; }
    void mpz(mpz_srcptr z) { raw(hex(z)); }
    void W(long long v, bool uns) { raw(uns ? hex_ull((unsigned long long)v) : hex_ll(v)); }
    void none() { raw("0"); }
};

inline bool read_line(std::istream& in, Args& a) {
    std::string line;
    while (std::getline(in, line)) {
        if (line.empty() || line[0] == '#') continue;
        a.tok.clear();
        std::istringstream ss(line);
        std::string t;
        while (ss >> t) a.tok.push_back(t);
        if (!a.tok.empty()) return true;
    }
    return false;
}

inline void emit(const Args& a, const std::string& res) {
    std::string o;
    for (size_t i = 0; i < a.tok.size(); ++i) { if (i) o += ' '; o += a.tok[i]; }
    o += " = ";
    o += res;
    o += '\n';
    fputs(o.c_str(), stdout);
}

// splitmix64: every random choice of a harness derives from one seed
struct Rng {
    uint64_t s;
    explicit Rng(uint64_t seed) : s(seed) {}
    uint64_t next() {
        uint64_t z = (s += 0x9E3779B97F4A7C15ULL);
        z = (z ^ (z >> 30)) * 0xBF58476D1CE4E5B9ULL;
        z = (z ^ (z >> 27)) * 0x94D049BB133111EBULL;
        return z ^ (z >> 31);
    }
    uint64_t below(uint64_t n) { return next() % n; }
};

}  // namespace vp
