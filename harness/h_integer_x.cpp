// C01 (part 2) correspondence harness: the overloads of the gmp++ Integer API outside the translator's dialect --
// comparisons with float/double (12 member + 12 free operators, absCompare), fact, limb access, limb-vector conversions, length,
// size_in_base, isperfectpower, pp.  Floating operands travel as their IEEE bit patterns.
//
//   h_integer_x <tier> <seed>         generate cases          |  h_integer_x replay   read "key args" lines on stdin
// output: cd|cf <rel> <L|R> <a> <bits> = 0|1     acd|acf <a> <bits> = sign     fact <n> = v     limb <a> <i> = l     len <a> = n
//         vec <a> = l0 l1 …     ofvec <l0> … = v     sib <a> <base> = n     ipp <a> = 0|1     pp <p> <q> = u
#include "proto.h"
#include <gmp++/gmp++.h>
#include <givaro/givinteger.h>
#include <cfloat>
#include <cmath>
#include <cstring>

using namespace Givaro;

static Integer Zof(const std::string& s) { Integer r; mpz_set_str(r.get_mpz(), s.c_str(), 16); return r; }
static std::string H(const Integer& x) { return vp::hex(x.get_mpz_const()); }
static double dbits(uint64_t b) { double d; memcpy(&d, &b, 8); return d; }
static float fbits(uint32_t b) { float f; memcpy(&f, &b, 4); return f; }
static uint64_t bitsd(double d) { uint64_t b; memcpy(&b, &d, 8); return b; }
static uint32_t bitsf(float f) { uint32_t b; memcpy(&b, &f, 4); return b; }
static int sg(long long x) { return x < 0 ? -1 : x > 0 ? 1 : 0; }

template <class F>
static int rel_member(const std::string& r, const Integer& a, F d) {
    if (r == "eq") return a == d; if (r == "ne") return a != d; if (r == "lt") return a < d;
    if (r == "le") return a <= d; if (r == "gt") return a > d; return a >= d;
}
template <class F>
static int rel_free(const std::string& r, F d, const Integer& a) {
    if (r == "eq") return d == a; if (r == "ne") return d != a; if (r == "lt") return d < a;
    if (r == "le") return d <= a; if (r == "gt") return d > a; return d >= a;
}

static void run(const vp::Args& a) {
    const std::string& k = a.tok[0];
    std::string out;
    char numbuf[32];
    try {
        if (k == "cd" || k == "cf") {
            Integer x = Zof(a.s(2));
            int r;
            if (k == "cd") { double d = dbits(strtoull(a.s(3).c_str(), nullptr, 16)); r = a.s(1) == "L" ? rel_member(a.s(0), x, d) : rel_free(a.s(0), d, x); }
            else { float f = fbits((uint32_t)strtoul(a.s(3).c_str(), nullptr, 16)); r = a.s(1) == "L" ? rel_member(a.s(0), x, f) : rel_free(a.s(0), f, x); }
            out = r ? "1" : "0";
        } else if (k == "acd") { out = vp::hex_ll(sg(absCompare(Zof(a.s(0)), dbits(strtoull(a.s(1).c_str(), nullptr, 16)))));
        } else if (k == "acf") { out = vp::hex_ll(sg(absCompare(Zof(a.s(0)), fbits((uint32_t)strtoul(a.s(1).c_str(), nullptr, 16)))));
        } else if (k == "ctd") { out = H(Integer(dbits(strtoull(a.s(0).c_str(), nullptr, 16))));
        } else if (k == "asd") { Integer z(12345); z = dbits(strtoull(a.s(0).c_str(), nullptr, 16)); out = H(z);
        } else if (k == "zinit") { ZRing<Integer> Z; Integer z(-7); Z.init(z, dbits(strtoull(a.s(0).c_str(), nullptr, 16))); out = H(z);
        } else if (k == "tod") { snprintf(numbuf, sizeof numbuf, "%llx", (unsigned long long)bitsd((double)Zof(a.s(0)))); out = numbuf;
        } else if (k == "fact") { out = H(fact((uint64_t)a.W(0)));
        } else if (k == "limb") { out = vp::hex_ull(Zof(a.s(0))[(size_t)a.W(1)]);
        } else if (k == "len") { out = vp::hex_ull(length(Zof(a.s(0))));
        } else if (k == "vec") {
            std::vector<mp_limb_t> v = Zof(a.s(0));
            out = vp::hex_ull(v.size());
            for (mp_limb_t l : v) out += " " + vp::hex_ull(l);
        } else if (k == "ofvec") {
            std::vector<mp_limb_t> v;
            for (size_t i = 0; i < a.n(); ++i) v.push_back((mp_limb_t)strtoull(a.s(i).c_str(), nullptr, 16));
            out = H(Integer(v));
        } else if (k == "sib") { out = vp::hex_ull(Zof(a.s(0)).size_in_base((int32_t)a.SW(1)));
        } else if (k == "ipp") { out = isperfectpower(Zof(a.s(0))) ? "1" : "0";
        } else if (k == "pp") { out = H(pp(Zof(a.s(0)), Zof(a.s(1))));
        } else out = "NOFUNC";
    } catch (...) { out = "EXC"; }
    vp::emit(a, out);
}

static void line(const std::string& s) {
    vp::Args a; std::istringstream is(s); std::string t;
    while (is >> t) a.tok.push_back(t);
    run(a);
}

int main(int argc, char** argv) {
    std::string tier = argc > 1 ? argv[1] : "quick";
    if (tier == "replay") { vp::Args a; while (vp::read_line(std::cin, a)) run(a); return 0; }
    uint64_t seed = argc > 2 ? strtoull(argv[2], nullptr, 10) : 1;
    vp::Rng rng(seed * 1000003 + 17);
    const bool thorough = tier == "thorough";
    // integers
    std::vector<Integer> zs = {Integer(0), Integer(1), Integer(-1), Integer(2), Integer(-2), Integer(3)};
    const int ks[] = {7, 8, 23, 24, 25, 31, 32, 33, 52, 53, 54, 62, 63, 64, 65, 100, 127, 128, 129, 192, 1023, 1024, 1025, 1074};
    for (int k : ks) for (int d = -1; d <= 1; ++d) { Integer p = (Integer(1) << (uint64_t)k) + d; zs.push_back(p); zs.push_back(-p); }
    for (int i = 0; i < (thorough ? 400 : 60); ++i) {
        Integer r(0); int limbs = 1 + int(rng.below(4));
        for (int j = 0; j < limbs; ++j) { r <<= 64; r += Integer((uint64_t)rng.next()); }
        if (rng.below(3) == 0) r >>= rng.below(63);
        zs.push_back(rng.below(2) ? r : -r);
    }
    // doubles / floats
    std::vector<uint64_t> ds = {0, 0x8000000000000000ULL, bitsd(0.5), bitsd(-0.5), bitsd(1.0), bitsd(-1.0), bitsd(1.5), bitsd(-2.5), bitsd(9007199254740992.0),
                                bitsd(9007199254740994.0), bitsd(-9007199254740992.0), bitsd(9223372036854775808.0), bitsd(-9223372036854775808.0),
                                bitsd(18446744073709551616.0), bitsd(1e300), bitsd(-1e300), bitsd(DBL_MAX), bitsd(-DBL_MAX), bitsd(DBL_MIN), bitsd(-DBL_MIN),
                                1ULL, 0x8000000000000001ULL, bitsd(INFINITY), bitsd(-INFINITY)};
    std::vector<uint32_t> fs = {0, 0x80000000u, bitsf(0.5f), bitsf(-0.5f), bitsf(1.0f), bitsf(-1.0f), bitsf(1.5f), bitsf(16777216.0f), bitsf(16777218.0f),
                                bitsf(-16777216.0f), bitsf(2147483648.0f), bitsf(-2147483648.0f), bitsf(4294967296.0f), bitsf(9223372036854775808.0f),
                                bitsf(FLT_MAX), bitsf(-FLT_MAX), bitsf(FLT_MIN), 1u, 0x80000001u, bitsf(INFINITY), bitsf(-INFINITY)};
    for (int i = 0; i < (thorough ? 300 : 40); ++i) { uint64_t b = rng.next(); if (((b >> 52) & 0x7ff) == 0x7ff) b ^= 1ULL << 60; ds.push_back(b); }
    for (int i = 0; i < (thorough ? 300 : 40); ++i) { uint32_t b = (uint32_t)rng.next(); if (((b >> 23) & 0xff) == 0xff) b ^= 1u << 29; fs.push_back(b); }
    const char* rels[] = {"eq", "ne", "lt", "le", "gt", "ge"};
    char buf[64];
    size_t zi = 0;
    for (const Integer& z : zs) {
        // the doubles next to z: (double)z and its two neighbours -- where a rounded comparison would go wrong
        std::vector<uint64_t> dl;
        double dz = mpz_get_d(z.get_mpz_const());
        if (std::isfinite(dz)) { dl.push_back(bitsd(dz)); dl.push_back(bitsd(std::nextafter(dz, INFINITY))); dl.push_back(bitsd(std::nextafter(dz, -INFINITY))); }
        for (size_t j = 0; j < (thorough ? 12u : 4u); ++j) dl.push_back(ds[(zi * 7 + j * 5) % ds.size()]);
        std::vector<uint32_t> fl;
        float fz = (float)dz;
        if (std::isfinite(fz)) { fl.push_back(bitsf(fz)); fl.push_back(bitsf(std::nextafterf(fz, INFINITY))); fl.push_back(bitsf(std::nextafterf(fz, -INFINITY))); }
        for (size_t j = 0; j < (thorough ? 12u : 4u); ++j) fl.push_back(fs[(zi * 5 + j * 3) % fs.size()]);
        for (uint64_t d : dl) {
            snprintf(buf, sizeof buf, "%llx", (unsigned long long)d);
            for (const char* r : rels) { line(std::string("cd ") + r + " L " + H(z) + " " + buf); line(std::string("cd ") + r + " R " + H(z) + " " + buf); }
            line("acd " + H(z) + " " + buf);
        }
        for (uint32_t f : fl) {
            snprintf(buf, sizeof buf, "%x", f);
            for (const char* r : rels) { line(std::string("cf ") + r + " L " + H(z) + " " + buf); line(std::string("cf ") + r + " R " + H(z) + " " + buf); }
            line("acf " + H(z) + " " + buf);
        }
        line("len " + H(z)); line("vec " + H(z)); line("ipp " + H(z));
        for (int i = 0; i < 6; ++i) { snprintf(buf, sizeof buf, "%x", i); line("limb " + H(z) + " " + buf); }
        for (int b : {2, 4, 8, 16, 32, 3, 10, 36, 62}) { snprintf(buf, sizeof buf, "%x", b); line("sib " + H(z) + " " + buf); }
        ++zi;
    }
    // every double of the fixed list against a few integers (incl. infinities and subnormals)
    for (uint64_t d : ds) for (size_t j = 0; j < 8; ++j) {
        snprintf(buf, sizeof buf, "%llx", (unsigned long long)d);
        const Integer& z = zs[(j * 13 + (size_t)(d % 7)) % zs.size()];
        for (const char* r : rels) line(std::string("cd ") + r + " L " + H(z) + " " + buf);
    }
    // construction / assignment / init from a double (every finite double of the lists, the doubles around each integer) and conversion back
    for (uint64_t d : ds) { if (((d >> 52) & 0x7ff) == 0x7ff) continue; snprintf(buf, sizeof buf, "%llx", (unsigned long long)d);
        line(std::string("ctd ") + buf); line(std::string("asd ") + buf); line(std::string("zinit ") + buf); }
    for (const Integer& z : zs) {
        double dz = mpz_get_d(z.get_mpz_const());
        if (!std::isfinite(dz)) continue;
        for (double d : {dz, std::nextafter(dz, INFINITY), std::nextafter(dz, -INFINITY), dz + 0.5, dz - 0.5, dz / 3.0}) {
            if (!std::isfinite(d)) continue;
            snprintf(buf, sizeof buf, "%llx", (unsigned long long)bitsd(d));
            line(std::string("ctd ") + buf); line(std::string("asd ") + buf); line(std::string("zinit ") + buf);
        }
        line("tod " + H(z));
    }
    for (int n = 0; n <= (thorough ? 300 : 120); ++n) { snprintf(buf, sizeof buf, "%x", n); line(std::string("fact ") + buf); }
    // perfect powers
    for (int b = -12; b <= 12; ++b) for (int e = 2; e <= 9; ++e) { Integer p = pow(Integer(b), (uint64_t)e); line("ipp " + H(p)); line("ipp " + H(p + 1)); line("ipp " + H(-p)); }
    for (int i = 0; i < 40; ++i) { Integer b((uint64_t)(rng.next() >> 20)); Integer p = pow(b, (uint64_t)(2 + rng.below(3))); line("ipp " + H(p)); line("ipp " + H(-p)); line("ipp " + H(p - 1)); }
    // limb vectors with leading zero limbs
    line("ofvec"); line("ofvec 0"); line("ofvec 0 0"); line("ofvec 1"); line("ofvec 0 1"); line("ofvec ffffffffffffffff ffffffffffffffff 0 0"); line("ofvec 5 0 7 0");
    for (int i = 0; i < 30; ++i) { std::string s = "ofvec"; int n = 1 + int(rng.below(5)); for (int j = 0; j < n; ++j) { snprintf(buf, sizeof buf, " %llx", (unsigned long long)(rng.below(4) ? rng.next() : 0)); s += buf; } line(s); }
    // pp
    const long long smalls[] = {1, -1, 2, -2, 6, 12, 360, -360, 1024, 1001, 30030, 97, -97, 5040};
    for (long long p : smalls) for (long long q : {0LL, 1LL, -1LL, 2LL, 6LL, 14LL, -15LL, 210LL, 1024LL, 97LL, 5040LL}) line("pp " + H(Integer((int64_t)p)) + " " + H(Integer((int64_t)q)));
    for (int i = 0; i < (thorough ? 400 : 60); ++i) {
        Integer p(1), q(1);
        const int pr[] = {2, 3, 5, 7, 11, 13, 101, 65537};
        for (int j = 0; j < 8; ++j) { p *= pow(Integer(pr[j]), (uint64_t)rng.below(5)); q *= pow(Integer(pr[j]), (uint64_t)rng.below(3)); }
        if (rng.below(2)) p = -p; if (rng.below(3) == 0) q = -q;
        line("pp " + H(p) + " " + H(q));
    }
    return 0;
}
