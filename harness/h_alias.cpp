// C15 correspondence harness for the ring / field / rational / polynomial interfaces and RecInt: every three-address operation is
// called with the destination being the same object as one or several of its inputs and compared with the call on distinct objects
// holding the same values.
//
//   h_alias <tier> <seed> [kind|-] [replay]
// output:  al <kind> <op> <pattern> <case> = <digest expected> <digest got>      (equal digests = alias independent)
//          on a mismatch the readable values are printed as:  # <same key> expected=<…> got=<…>
// <op>     = <function name>:<shape>, one letter per parameter: r destination (non-const reference of the element type), a input of
//            the element type, o other output, s other input (scalar, degree, exponent) -- the key of the generated table
//            (translate/aliasfp.py; there a trailing #n distinguishes instantiations that differ only in a scalar type)
// pattern  = the parameters that are ONE object: destinations r s t …, inputs a b c … in parameter order, e.g. "ra" (r≡a), "rab",
//            "sb" (second destination ≡ second input), "ab" (two inputs, destination distinct)
// With `replay` the keys to run are read from stdin (`al kind op pattern case`); everything else is computed but not printed.
// -DALIAS_PART=n compiles only the n-th group of kinds (the template zoo is split to build in parallel).
#include "alias_kinds.h"
#include "proto.h"
#include <cstring>
#include <set>

using namespace Givaro;
namespace AK = Givaro::alias_kinds;

#ifdef ALIAS_PART
#define PART(n) (ALIAS_PART == (n))
#else
#define PART(n) 1
#endif

static std::set<std::string> g_replay;
static bool g_replay_on = false;
static std::string g_only;

static void emit(const std::string& kind, const char* op, const char* pat, int cs, const std::string& exp, const std::string& got) {
    if (g_replay_on) {
        char key[512]; snprintf(key, sizeof key, "al %s %s %s %d", kind.c_str(), op, pat, cs);
        if (!g_replay.count(key)) return;
    }
    printf("al %s %s %s %d = %llx %llx\n", kind.c_str(), op, pat, cs, (unsigned long long)dz::fnv(exp), (unsigned long long)dz::fnv(got));
    if (exp != got) printf("# al %s %s %s %d expected=%s got=%s\n", kind.c_str(), op, pat, cs, exp.c_str(), got.c_str());
}
static bool want(const char* kind) {
    if (!g_only.empty() && g_only != "-" && g_only != kind) return false;
    if (g_replay_on) {
        const std::string pre = std::string("al ") + kind + " ";
        for (auto& k : g_replay) if (k.compare(0, pre.size(), pre) == 0) return true;
        return false;
    }
    return true;
}

template <class D, class E>
static std::string show(const D& F, const E& e) { std::ostringstream os; F.write(os, e); return os.str(); }

// ---- ring interface --------------------------------------------------------------------------------------------------------
template <class D>
static void alias_ring(const std::string& kind, const D& F, const std::vector<Integer>& vals) {
    typedef typename D::Element E;
    int cs = 0;
    for (size_t i = 0; i + 2 < vals.size(); ++i, ++cs) {
        E A, B, C, R, X, Y, Z;
        F.init(A, vals[i]); F.init(B, vals[i + 1]); F.init(C, vals[i + 2]);
        F.init(R); F.init(X); F.init(Y); F.init(Z);
        std::string e;
#define BIN(OP)                                                                                                        \
        F.OP(R, A, B); e = show(F, R);                                                                                  \
        F.assign(X, A); F.OP(X, X, B); emit(kind, #OP ":raa", "ra", cs, e, show(F, X));                                 \
        F.assign(X, B); F.OP(X, A, X); emit(kind, #OP ":raa", "rb", cs, e, show(F, X));                                 \
        F.OP(R, A, A); e = show(F, R);                                                                                  \
        F.assign(X, A); F.OP(Y, X, X); emit(kind, #OP ":raa", "ab", cs, e, show(F, Y));                                 \
        F.assign(X, A); F.OP(X, X, X); emit(kind, #OP ":raa", "rab", cs, e, show(F, X));
        BIN(add) BIN(sub) BIN(mul)
        if (!F.isZero(B) && !F.isZero(A)) try { BIN(div) } catch (const GivMathError&) {}
#define TER(OP)                                                                                                        \
        F.OP(R, A, B, C); e = show(F, R);                                                                               \
        F.assign(X, A); F.OP(X, X, B, C); emit(kind, #OP ":raaa", "ra", cs, e, show(F, X));                             \
        F.assign(X, B); F.OP(X, A, X, C); emit(kind, #OP ":raaa", "rb", cs, e, show(F, X));                             \
        F.assign(X, C); F.OP(X, A, B, X); emit(kind, #OP ":raaa", "rc", cs, e, show(F, X));                             \
        F.OP(R, A, A, C); e = show(F, R);                                                                               \
        F.assign(X, A); F.OP(X, X, X, C); emit(kind, #OP ":raaa", "rab", cs, e, show(F, X));                            \
        F.assign(X, A); F.OP(Y, X, X, C); emit(kind, #OP ":raaa", "ab", cs, e, show(F, Y));                             \
        F.OP(R, A, B, A); e = show(F, R);                                                                               \
        F.assign(X, A); F.OP(X, X, B, X); emit(kind, #OP ":raaa", "rac", cs, e, show(F, X));                            \
        F.assign(X, A); F.OP(Y, X, B, X); emit(kind, #OP ":raaa", "ac", cs, e, show(F, Y));                             \
        F.OP(R, A, A, A); e = show(F, R);                                                                               \
        F.assign(X, A); F.OP(X, X, X, X); emit(kind, #OP ":raaa", "rabc", cs, e, show(F, X));                           \
        F.assign(X, A); F.OP(Y, X, X, X); emit(kind, #OP ":raaa", "abc", cs, e, show(F, Y));                            \
        F.OP(R, A, B, B); e = show(F, R);                                                                               \
        F.assign(X, B); F.OP(X, A, X, X); emit(kind, #OP ":raaa", "rbc", cs, e, show(F, X));                            \
        F.assign(X, B); F.OP(Y, A, X, X); emit(kind, #OP ":raaa", "bc", cs, e, show(F, Y));                             \
        F.OP(R, A, A, B); e = show(F, R);                                                                               \
        F.assign(X, A); F.assign(Y, B); F.OP(Y, X, X, Y); emit(kind, #OP ":raaa", "rc_ab", cs, e, show(F, Y));          \
        F.OP(R, A, B, A); e = show(F, R);                                                                               \
        F.assign(X, A); F.assign(Y, B); F.OP(Y, X, Y, X); emit(kind, #OP ":raaa", "rb_ac", cs, e, show(F, Y));          \
        F.OP(R, A, B, B); e = show(F, R);                                                                               \
        F.assign(X, A); F.assign(Y, B); F.OP(X, X, Y, Y); emit(kind, #OP ":raaa", "ra_bc", cs, e, show(F, X));
        TER(axpy) TER(axmy) TER(maxpy)
        F.neg(R, A); e = show(F, R);
        F.assign(X, A); F.neg(X, X); emit(kind, "neg:ra", "ra", cs, e, show(F, X));
        F.assign(R, A); e = show(F, R);
        F.assign(X, A); F.assign(X, X); emit(kind, "assign:ra", "ra", cs, e, show(F, X));
        if (!F.isZero(A)) try {
            F.inv(R, A); e = show(F, R);
            F.assign(X, A); F.inv(X, X); emit(kind, "inv:ra", "ra", cs, e, show(F, X));
        } catch (const GivMathError&) {}      // not a unit (ZRing)
        // in-place forms with the operand being the destination itself: x op= x
#define INPL(OP, REF)                                                                                                  \
        F.REF(R, A, A); e = show(F, R);                                                                                 \
        F.assign(X, A); F.OP(X, X); emit(kind, #OP ":ra", "ra", cs, e, show(F, X));
        INPL(addin, add) INPL(subin, sub) INPL(mulin, mul)
        if (!F.isZero(A)) try { INPL(divin, div) } catch (const GivMathError&) {}
        // r op= a*b:  OPin(r, a, b) = OP(., a, b, r)
#define TERIN(OPIN, OP)                                                                                                \
        F.OP(R, A, B, A); e = show(F, R);                                                                               \
        F.assign(X, A); F.OPIN(X, X, B); emit(kind, #OPIN ":raa", "ra", cs, e, show(F, X));                             \
        F.OP(R, A, B, B); e = show(F, R);                                                                               \
        F.assign(X, B); F.OPIN(X, A, X); emit(kind, #OPIN ":raa", "rb", cs, e, show(F, X));                             \
        F.OP(R, A, A, A); e = show(F, R);                                                                               \
        F.assign(X, A); F.OPIN(X, X, X); emit(kind, #OPIN ":raa", "rab", cs, e, show(F, X));                            \
        F.OP(R, A, A, B); e = show(F, R);                                                                               \
        F.assign(X, A); F.assign(Y, B); F.OPIN(Y, X, X); emit(kind, #OPIN ":raa", "ab", cs, e, show(F, Y));
        TERIN(axpyin, axpy) TERIN(maxpyin, maxpy) TERIN(axmyin, axmy)
    }
}

// ---- polynomial interface ----------------------------------------------------------------------------------------------------
#define PBIN(OP)                                                                                                       \
        P.OP(R, A, B); e = show(P, R);                                                                                  \
        P.assign(X, A); P.OP(X, X, B); emit(kind, #OP ":raa", "ra", cs, e, show(P, X));                                 \
        P.assign(X, B); P.OP(X, A, X); emit(kind, #OP ":raa", "rb", cs, e, show(P, X));                                 \
        P.OP(R, A, A); e = show(P, R);                                                                                  \
        P.assign(X, A); P.OP(X, X, X); emit(kind, #OP ":raa", "rab", cs, e, show(P, X));                                \
        P.assign(X, A); P.OP(Y, X, X); emit(kind, #OP ":raa", "ab", cs, e, show(P, Y));

template <class PD>
static void alias_poly(const std::string& kind, const PD& P, vp::Rng& rng, int ncases) {
    typedef typename PD::Element Pol;
    const typename PD::Domain_t& F = P.getdomain();
    for (int cs = 0; cs < ncases; ++cs) {
        Pol A, B, C, R, Q, X, Y;
        const int dA = int(rng.below(7)), dB = int(rng.below(5)), dC = int(rng.below(4));
        typename PD::Type_t c;
        P.init(A, Degree(dA)); P.init(B, Degree(dB)); P.init(C, Degree(dC));
        for (int i = 0; i <= dA; ++i) { F.init(c, Integer(uint64_t(rng.below(97)))); A[size_t(i)] = c; }
        for (int i = 0; i <= dB; ++i) { F.init(c, Integer(uint64_t(rng.below(97)))); B[size_t(i)] = c; }
        for (int i = 0; i <= dC; ++i) { F.init(c, Integer(uint64_t(rng.below(97)))); C[size_t(i)] = c; }
        F.init(c, Integer(1)); A[size_t(dA)] = c; B[size_t(dB)] = c; C[size_t(dC)] = c;     // monic: degrees as drawn, non-zero
        std::string e;
        PBIN(add) PBIN(sub) PBIN(mul) PBIN(div) PBIN(mod) PBIN(gcd)
        // the same with the operands exchanged (destination = the operand of smaller degree / of larger degree)
        { Pol A2, B2; P.assign(A2, B); P.assign(B2, A); std::swap(A, A2); std::swap(B, B2); const int cs0 = cs; cs += 100000;
          PBIN(gcd) PBIN(sub) PBIN(div) PBIN(mod)
          cs = cs0; std::swap(A, A2); std::swap(B, B2); }
        // divmod(Q, R, A, B): destinations r = Q, s = R
        P.divmod(Q, R, A, B); e = show(P, Q) + " ; " + show(P, R);
        P.assign(X, A); P.divmod(X, Y, X, B); emit(kind, "divmod:rraa", "ra", cs, e, show(P, X) + " ; " + show(P, Y));
        P.assign(Y, B); P.divmod(X, Y, A, Y); emit(kind, "divmod:rraa", "sb", cs, e, show(P, X) + " ; " + show(P, Y));
        P.assign(X, B); P.divmod(X, Y, A, X); emit(kind, "divmod:rraa", "rb", cs, e, show(P, X) + " ; " + show(P, Y));
        P.assign(Y, A); P.divmod(X, Y, Y, B); emit(kind, "divmod:rraa", "sa", cs, e, show(P, X) + " ; " + show(P, Y));
        P.assign(X, A); P.assign(Y, B); P.divmod(X, Y, X, Y); emit(kind, "divmod:rraa", "ra_sb", cs, e, show(P, X) + " ; " + show(P, Y));
        P.assign(X, B); P.assign(Y, A); P.divmod(X, Y, Y, X); emit(kind, "divmod:rraa", "rb_sa", cs, e, show(P, X) + " ; " + show(P, Y));
        // axpy(R, A, X, Y) = A*X + Y   and relatives
#define PTER(OP)                                                                                                       \
        P.OP(R, A, B, C); e = show(P, R);                                                                               \
        P.assign(X, A); P.OP(X, X, B, C); emit(kind, #OP ":raaa", "ra", cs, e, show(P, X));                             \
        P.assign(X, B); P.OP(X, A, X, C); emit(kind, #OP ":raaa", "rb", cs, e, show(P, X));                             \
        P.assign(X, C); P.OP(X, A, B, X); emit(kind, #OP ":raaa", "rc", cs, e, show(P, X));
        PTER(axpy) PTER(axmy) PTER(maxpy)
        P.neg(R, A); e = show(P, R);
        P.assign(X, A); P.neg(X, X); emit(kind, "neg:ra", "ra", cs, e, show(P, X));
        P.assign(R, A); e = show(P, R);
        P.assign(X, A); P.assign(X, X); emit(kind, "assign:ra", "ra", cs, e, show(P, X));
        P.sqr(R, A); e = show(P, R);
        P.assign(X, A); P.sqr(X, X); emit(kind, "sqr:ra", "ra", cs, e, show(P, X));
        // in-place forms with themselves
        P.add(R, A, A); e = show(P, R); P.assign(X, A); P.addin(X, X); emit(kind, "addin:ra", "ra", cs, e, show(P, X));
        P.sub(R, A, A); e = show(P, R); P.assign(X, A); P.subin(X, X); emit(kind, "subin:ra", "ra", cs, e, show(P, X));
        P.mul(R, A, A); e = show(P, R); P.assign(X, A); P.mulin(X, X); emit(kind, "mulin:ra", "ra", cs, e, show(P, X));
    }
}

// ---- polynomial interface, second part: scalar forms, cofactors, modular forms, pseudo-division, long operands ----------------
template <class PD>
static void alias_poly2(const std::string& kind, const PD& P, vp::Rng& rng, int ncases) {
    typedef typename PD::Element Pol;
    typedef typename PD::Type_t Sc;
    const typename PD::Domain_t& F = P.getdomain();
    for (int cs = 0; cs < ncases; ++cs) {
        Pol A, B, C, R, Q, X, Y, Z, S, T, S2, T2;
        const bool big = (cs % 8 == 7);                                   // beyond KARA_THRESHOLD / SQR_THRESHOLD
        const int dA = big ? 110 + int(rng.below(20)) : int(rng.below(7));
        const int dB = big ? 60 + int(rng.below(60)) : int(rng.below(5));
        const int dC = int(rng.below(4));
        Sc c, u, m, m2;
        P.init(A, Degree(dA)); P.init(B, Degree(dB)); P.init(C, Degree(dC));
        for (int i = 0; i <= dA; ++i) { F.init(c, Integer(uint64_t(rng.below(97)))); A[size_t(i)] = c; }
        for (int i = 0; i <= dB; ++i) { F.init(c, Integer(uint64_t(rng.below(97)))); B[size_t(i)] = c; }
        for (int i = 0; i <= dC; ++i) { F.init(c, Integer(uint64_t(rng.below(97)))); C[size_t(i)] = c; }
        F.init(c, Integer(1)); A[size_t(dA)] = c; C[size_t(dC)] = c;
        F.init(c, Integer(uint64_t(1 + rng.below(96)))); B[size_t(dB)] = c;     // B not monic (pseudo-division, cofactors)
        F.init(u, Integer(uint64_t(2 + rng.below(90))));
        std::string e;
        // long products
        PBIN(mul) PBIN(stdmul) PBIN(karamul)
        P.sqr(R, A); e = show(P, R);
        P.assign(X, A); P.sqr(X, X); emit(kind, "sqr:ra", "ra", cs, e, show(P, X));
        if (!big) {
            PBIN(lcm)
            // truncated product
            const Degree lo(1), hi(3);
            P.mul(R, A, B, lo, hi); e = show(P, R);
            P.assign(X, A); P.mul(X, X, B, lo, hi); emit(kind, "mul:raass", "ra", cs, e, show(P, X));
            P.assign(X, B); P.mul(X, A, X, lo, hi); emit(kind, "mul:raass", "rb", cs, e, show(P, X));
            P.mul(R, A, A, lo, hi); e = show(P, R);
            P.assign(X, A); P.mul(X, X, X, lo, hi); emit(kind, "mul:raass", "rab", cs, e, show(P, X));
            P.assign(X, A); P.mul(Y, X, X, lo, hi); emit(kind, "mul:raass", "ab", cs, e, show(P, Y));
        }
        // scalar / polynomial mixed forms with the destination being the polynomial operand
#define PSC(NAME, CALLR, CALLX)                                                                                        \
        CALLR; e = show(P, R); P.assign(X, A); CALLX; emit(kind, NAME, "ra", cs, e, show(P, X));
        PSC("mul:ras", P.mul(R, A, u), P.mul(X, X, u))
        PSC("mul:rsa", P.mul(R, u, A), P.mul(X, u, X))
        PSC("div:ras", P.div(R, A, u), P.div(X, X, u))
        PSC("add:ras", P.add(R, A, u), P.add(X, X, u))
        PSC("add:rsa", P.add(R, u, A), P.add(X, u, X))
        PSC("sub:ras", P.sub(R, A, u), P.sub(X, X, u))
        PSC("sub:rsa", P.sub(R, u, A), P.sub(X, u, X))
#define PSTER(OP, NAME)                                                                                                \
        P.OP(R, u, A, B); e = show(P, R);                                                                               \
        P.assign(X, A); P.OP(X, u, X, B); emit(kind, NAME, "ra", cs, e, show(P, X));                                    \
        P.assign(X, B); P.OP(X, u, A, X); emit(kind, NAME, "rb", cs, e, show(P, X));                                    \
        P.OP(R, u, B, A); e = show(P, R);                                                                               \
        P.assign(X, B); P.OP(X, u, X, A); emit(kind, NAME, "ra", cs + 100000, e, show(P, X));                           \
        P.assign(X, A); P.OP(X, u, B, X); emit(kind, NAME, "rb", cs + 100000, e, show(P, X));                           \
        P.OP(R, u, A, A); e = show(P, R);                                                                               \
        P.assign(X, A); P.OP(X, u, X, X); emit(kind, NAME, "rab", cs, e, show(P, X));                                   \
        P.assign(X, A); P.OP(Y, u, X, X); emit(kind, NAME, "ab", cs, e, show(P, Y));
        PSTER(axpy, "axpy:rsaa") PSTER(axmy, "axmy:rsaa")
#ifdef ALIAS_MAXPY_S   // Poly1Dom::maxpy(Rep&, const Type_t&, const Rep&, const Rep&) does not instantiate (it calls Rep::copy): not an aliasing matter
        PSTER(maxpy, "maxpy:rsaa")
#endif
        // three polynomial operands: remaining patterns
#define PTER2(OP)                                                                                                      \
        P.OP(R, A, A, C); e = show(P, R);                                                                               \
        P.assign(X, A); P.OP(X, X, X, C); emit(kind, #OP ":raaa", "rab", cs, e, show(P, X));                            \
        P.assign(X, A); P.OP(Y, X, X, C); emit(kind, #OP ":raaa", "ab", cs, e, show(P, Y));                             \
        P.OP(R, A, B, A); e = show(P, R);                                                                               \
        P.assign(X, A); P.OP(X, X, B, X); emit(kind, #OP ":raaa", "rac", cs, e, show(P, X));                            \
        P.assign(X, A); P.OP(Y, X, B, X); emit(kind, #OP ":raaa", "ac", cs, e, show(P, Y));                             \
        P.OP(R, A, B, B); e = show(P, R);                                                                               \
        P.assign(X, B); P.OP(X, A, X, X); emit(kind, #OP ":raaa", "rbc", cs, e, show(P, X));                            \
        P.assign(X, B); P.OP(Y, A, X, X); emit(kind, #OP ":raaa", "bc", cs, e, show(P, Y));                             \
        P.OP(R, A, A, A); e = show(P, R);                                                                               \
        P.assign(X, A); P.OP(X, X, X, X); emit(kind, #OP ":raaa", "rabc", cs, e, show(P, X));                           \
        P.assign(X, A); P.OP(Y, X, X, X); emit(kind, #OP ":raaa", "abc", cs, e, show(P, Y));                            \
        P.OP(R, A, A, B); e = show(P, R);                                                                               \
        P.assign(X, A); P.assign(Y, B); P.OP(Y, X, X, Y); emit(kind, #OP ":raaa", "rc_ab", cs, e, show(P, Y));          \
        P.OP(R, A, B, A); e = show(P, R);                                                                               \
        P.assign(X, A); P.assign(Y, B); P.OP(Y, X, Y, X); emit(kind, #OP ":raaa", "rb_ac", cs, e, show(P, Y));          \
        P.OP(R, A, B, B); e = show(P, R);                                                                               \
        P.assign(X, A); P.assign(Y, B); P.OP(X, X, Y, Y); emit(kind, #OP ":raaa", "ra_bc", cs, e, show(P, X));
        PTER2(axpy) PTER2(axmy) PTER2(maxpy)
#define PTERIN(OPIN, OP)                                                                                               \
        P.OP(R, A, B, A); e = show(P, R);                                                                               \
        P.assign(X, A); P.OPIN(X, X, B); emit(kind, #OPIN ":raa", "ra", cs, e, show(P, X));                             \
        P.OP(R, A, B, B); e = show(P, R);                                                                               \
        P.assign(X, B); P.OPIN(X, A, X); emit(kind, #OPIN ":raa", "rb", cs, e, show(P, X));                             \
        P.OP(R, A, A, A); e = show(P, R);                                                                               \
        P.assign(X, A); P.OPIN(X, X, X); emit(kind, #OPIN ":raa", "rab", cs, e, show(P, X));                            \
        P.OP(R, A, A, B); e = show(P, R);                                                                               \
        P.assign(X, A); P.assign(Y, B); P.OPIN(Y, X, X); emit(kind, #OPIN ":raa", "ab", cs, e, show(P, Y));
        PTERIN(axpyin, axpy) PTERIN(maxpyin, maxpy) PTERIN(axmyin, axmy)
        // r <- u*x - r, r <- r - u*x with r being x
        P.axmy(R, u, A, A); e = show(P, R); P.assign(X, A); P.axmyin(X, u, X); emit(kind, "axmyin:rsa", "ra", cs, e, show(P, X));
        { Pol T1, T2; P.mul(T1, A, u); P.sub(R, A, T1); e = show(P, R); P.assign(X, A); P.maxpyin(X, u, X); emit(kind, "maxpyin:rsa", "ra", cs, e, show(P, X)); }
        // in-place division forms with themselves
        P.div(R, A, A); e = show(P, R); P.assign(X, A); P.divin(X, X); emit(kind, "divin:ra", "ra", cs, e, show(P, X));
        P.mod(R, A, A); e = show(P, R); P.assign(X, A); P.modin(X, X); emit(kind, "modin:ra", "ra", cs, e, show(P, X));
        // divmodin(Q, R, B): R = B Q + newR   (destinations r = Q, s = R; input a = B)
        P.assign(Y, A); P.divmodin(Q, Y, B); e = show(P, Q) + " ; " + show(P, Y);
        P.assign(Y, A); P.assign(X, B); P.divmodin(X, Y, X); emit(kind, "divmodin:rra", "ra", cs, e, show(P, X) + " ; " + show(P, Y));
        P.assign(Y, A); P.divmodin(Q, Y, A); e = show(P, Q) + " ; " + show(P, Y);
        P.assign(Y, A); P.divmodin(X, Y, Y); emit(kind, "divmodin:rra", "sa", cs, e, show(P, X) + " ; " + show(P, Y));
        // derivative, reverse
        P.diff(R, A); e = show(P, R); P.assign(X, A); P.diff(X, X); emit(kind, "diff:ra", "ra", cs, e, show(P, X));
        P.reverse(R, A); e = show(P, R); P.assign(X, A); P.reverse(X, X); emit(kind, "reverse:ra", "ra", cs, e, show(P, X));
        if (big) continue;
        // pseudo-division pdivmod(Q, R, m, A, B): destinations r = Q, s = R
        P.pdivmod(Q, R, m, A, B); e = show(P, Q) + " ; " + show(P, R) + " ; " + show(F, m);
        P.assign(X, A); P.pdivmod(X, Y, m2, X, B); emit(kind, "pdivmod:rroaa", "ra", cs, e, show(P, X) + " ; " + show(P, Y) + " ; " + show(F, m2));
        P.assign(X, B); P.pdivmod(X, Y, m2, A, X); emit(kind, "pdivmod:rroaa", "rb", cs, e, show(P, X) + " ; " + show(P, Y) + " ; " + show(F, m2));
        P.assign(Y, A); P.pdivmod(X, Y, m2, Y, B); emit(kind, "pdivmod:rroaa", "sa", cs, e, show(P, X) + " ; " + show(P, Y) + " ; " + show(F, m2));
        P.assign(Y, B); P.pdivmod(X, Y, m2, A, Y); emit(kind, "pdivmod:rroaa", "sb", cs, e, show(P, X) + " ; " + show(P, Y) + " ; " + show(F, m2));
        P.pmod(R, m, A, B); e = show(P, R) + " ; " + show(F, m);
        P.assign(Y, A); P.pmod(Y, m2, Y, B); emit(kind, "pmod:roaa", "ra", cs, e, show(P, Y) + " ; " + show(F, m2));
        P.assign(Y, B); P.pmod(Y, m2, A, Y); emit(kind, "pmod:roaa", "rb", cs, e, show(P, Y) + " ; " + show(F, m2));
        // gcd with cofactors: gcd(G, S, T, A, B): destinations r = G, s = S, t = T
        P.gcd(R, S, T, A, B); e = show(P, R) + " ; " + show(P, S) + " ; " + show(P, T);
#define PGCD(PAT, CS, SETUP, CALL, G_, S_, T_)                                                                         \
        SETUP; CALL; emit(kind, "gcd:rrraa", PAT, CS, e, show(P, G_) + " ; " + show(P, S_) + " ; " + show(P, T_));
        PGCD("ra", cs, P.assign(X, A), P.gcd(X, S2, T2, X, B), X, S2, T2)
        PGCD("rb", cs, P.assign(X, B), P.gcd(X, S2, T2, A, X), X, S2, T2)
        PGCD("sa", cs, P.assign(X, A), P.gcd(Z, X, T2, X, B), Z, X, T2)
        PGCD("sb", cs, P.assign(X, B), P.gcd(Z, X, T2, A, X), Z, X, T2)
        PGCD("ta", cs, P.assign(X, A), P.gcd(Z, S2, X, X, B), Z, S2, X)
        PGCD("tb", cs, P.assign(X, B), P.gcd(Z, S2, X, A, X), Z, S2, X)
        // the same with a constant operand (early exits of gcd)
        P.gcd(R, S, T, A, C.size() == 1 ? C : P.one); e = show(P, R) + " ; " + show(P, S) + " ; " + show(P, T);
        { Pol K; P.assign(K, C.size() == 1 ? C : P.one);
          PGCD("rb", cs + 100000, P.assign(X, K), P.gcd(X, S2, T2, A, X), X, S2, T2)
          PGCD("sa", cs + 100000, P.assign(X, A), P.gcd(Z, X, T2, X, K), Z, X, T2)
          PGCD("tb", cs + 100000, P.assign(X, K), P.gcd(Z, S2, X, A, X), Z, S2, X)
          P.gcd(R, S, T, K, A); e = show(P, R) + " ; " + show(P, S) + " ; " + show(P, T);
          PGCD("ra", cs + 200000, P.assign(X, K), P.gcd(X, S2, T2, X, A), X, S2, T2)
          PGCD("sa", cs + 200000, P.assign(X, K), P.gcd(Z, X, T2, X, A), Z, X, T2)
          PGCD("ta", cs + 200000, P.assign(X, K), P.gcd(Z, S2, X, X, A), Z, S2, X)
          PGCD("tb", cs + 200000, P.assign(X, A), P.gcd(Z, S2, X, K, X), Z, S2, X) }
        // modular forms (B of positive degree)
        if (dB > 0) {
            P.invmod(R, A, B); e = show(P, R);
            P.assign(X, A); P.invmod(X, X, B); emit(kind, "invmod:raa", "ra", cs, e, show(P, X));
            P.assign(X, B); P.invmod(X, A, X); emit(kind, "invmod:raa", "rb", cs, e, show(P, X));
            P.invmodunit(R, A, B); e = show(P, R);
            P.assign(X, A); P.invmodunit(X, X, B); emit(kind, "invmodunit:raa", "ra", cs, e, show(P, X));
            P.assign(X, B); P.invmodunit(X, A, X); emit(kind, "invmodunit:raa", "rb", cs, e, show(P, X));
            const Integer n(uint64_t(1 + rng.below(40)));
            P.powmod(R, A, n, B); e = show(P, R);
            P.assign(X, A); P.powmod(X, X, n, B); emit(kind, "powmod:rasa", "ra", cs, e, show(P, X));
            P.assign(X, B); P.powmod(X, A, n, X); emit(kind, "powmod:rasa", "rb", cs, e, show(P, X));
        }
        { const uint64_t n = rng.below(6);
          P.pow(R, A, n); e = show(P, R);
          P.assign(X, A); P.pow(X, X, n); emit(kind, "pow:ras", "ra", cs, e, show(P, X)); }
    }
}

// ---- rationals through their operators ---------------------------------------------------------------------------------------
static void alias_rational(const std::string& kind, const std::vector<Integer>& vals) {
    int cs = 0;
    auto sh = [](const Rational& r) { std::ostringstream os; os << r.nume() << "/" << r.deno(); return os.str(); };
    for (size_t i = 0; i + 1 < vals.size(); ++i, ++cs) {
        if (vals[i + 1] == 0) continue;
        const Rational A(vals[i], vals[i + 1]);
        Rational X, R;
        R = A + A; X = A; X += X; emit(kind, "operator+=:ra", "ra", cs, sh(R), sh(X));
        R = A - A; X = A; X -= X; emit(kind, "operator-=:ra", "ra", cs, sh(R), sh(X));
        R = A * A; X = A; X *= X; emit(kind, "operator*=:ra", "ra", cs, sh(R), sh(X));
        if (!isZero(A)) { R = A / A; X = A; X /= X; emit(kind, "operator/=:ra", "ra", cs, sh(R), sh(X)); }
        // binary operators: both operands one object (the result is a fresh object, then assigned over the operand)
        X = A; X = X + X; emit(kind, "operator+:aar", "ab", cs, sh(A + A), sh(X));
        X = A; X = X * X; emit(kind, "operator*:aar", "ab", cs, sh(A * A), sh(X));
        X = A; X = X - X; emit(kind, "operator-:aar", "ab", cs, sh(A - A), sh(X));
        if (!isZero(A)) { X = A; X = X / X; emit(kind, "operator/:aar", "ab", cs, sh(A / A), sh(X)); }
    }
}

// ---- RecInt: ruint<K> -----------------------------------------------------------------------------------------------------------
template <size_t K> static void fill(RecInt::ruint<K>& x, vp::Rng& rng, int style) {
    uint64_t* w = reinterpret_cast<uint64_t*>(&x);
    const size_t n = sizeof(x) / 8;
    for (size_t i = 0; i < n; ++i) {
        switch (style) {
        case 0: w[i] = rng.next(); break;
        case 1: w[i] = ~uint64_t(0); break;
        case 2: w[i] = (i == 0) ? rng.next() >> rng.below(63) : 0; break;          // one limb
        case 3: w[i] = (i + 1 == n) ? (uint64_t(1) << 63) | rng.next() : rng.next(); break;   // top bit set
        case 4: w[i] = (i < (n + 1) / 2) ? rng.next() : 0; break;                  // half length
        default: w[i] = (rng.below(3) == 0) ? 0 : (rng.below(2) ? ~uint64_t(0) : rng.next()); break;
        }
    }
}
template <size_t K> static std::string showu(const RecInt::ruint<K>& x) {
    const uint64_t* w = reinterpret_cast<const uint64_t*>(&x);
    std::string s;
    char buf[20];
    for (size_t i = sizeof(x) / 8; i-- > 0;) { snprintf(buf, sizeof buf, "%016llx", (unsigned long long)w[i]); s += buf; }
    return s;
}

template <size_t K>
static void alias_ruint(const std::string& kind, vp::Rng& rng, int ncases) {
    typedef RecInt::ruint<K> U;
    using namespace RecInt;
    for (int cs = 0; cs < ncases; ++cs) {
        U A, B, C, N, R, S, X, Y;
        fill(A, rng, cs % 6); fill(B, rng, (cs / 2) % 6); fill(C, rng, (cs / 3) % 5); fill(N, rng, cs % 2 ? 0 : 3);
        reinterpret_cast<uint64_t*>(&N)[0] |= 1;                                    // odd modulus
        if (B == 0) B = 3;
        std::string e;
#define UBIN(OP)                                                                                                       \
        OP(R, A, B); e = showu(R);                                                                                      \
        X = A; OP(X, X, B); emit(kind, #OP ":raa", "ra", cs, e, showu(X));                                              \
        X = B; OP(X, A, X); emit(kind, #OP ":raa", "rb", cs, e, showu(X));                                              \
        OP(R, A, A); e = showu(R);                                                                                      \
        X = A; OP(X, X, X); emit(kind, #OP ":raa", "rab", cs, e, showu(X));                                             \
        X = A; OP(Y, X, X); emit(kind, #OP ":raa", "ab", cs, e, showu(Y));
        UBIN(add) UBIN(sub) UBIN(mul) UBIN(gcd)
        if (A != 0) { UBIN(div_q) UBIN(div_r) }
        // a += b*c   (the destination is an operand too: the reference call works on copies)
        { U T2, T3;
          R = C; T2 = C; addmul(R, T2, B); e = showu(R);
          X = C; addmul(X, X, B); emit(kind, "addmul:raa", "ra", cs, e, showu(X));
          R = C; T2 = C; addmul(R, A, T2); e = showu(R);
          X = C; addmul(X, A, X); emit(kind, "addmul:raa", "rb", cs, e, showu(X));
          R = C; T2 = C; T3 = C; addmul(R, T2, T3); e = showu(R);
          X = C; addmul(X, X, X); emit(kind, "addmul:raa", "rab", cs, e, showu(X));
          R = C; T2 = A; T3 = A; addmul(R, T2, T3); e = showu(R);
          X = C; Y = A; addmul(X, Y, Y); emit(kind, "addmul:raa", "ab", cs, e, showu(X)); }
        // two-address forms with themselves
#define UINPL(OP)                                                                                                      \
        R = A; { U T2 = A; OP(R, T2); } e = showu(R);                                                                   \
        X = A; OP(X, X); emit(kind, #OP ":ra", "ra", cs, e, showu(X));
        UINPL(add) UINPL(sub) UINPL(mul)
        square(R, A); e = showu(R); X = A; square(X, X); emit(kind, "square:ra", "ra", cs, e, showu(X));
        copy(R, A); e = showu(R); X = A; copy(X, X); emit(kind, "copy:ra", "ra", cs, e, showu(X));
        neg(R, A); e = showu(R); X = A; neg(X, X); emit(kind, "neg:ra", "ra", cs, e, showu(X));
        if (A != 0) { R = A; { U T2 = A; mod_n(R, T2); } e = showu(R); X = A; mod_n(X, X); emit(kind, "mod_n:ra", "ra", cs, e, showu(X)); }
        // with incoming carry / borrow
        for (int cy = 0; cy < 2; ++cy) { const bool c1 = cy != 0; const int cc = cs + 100000 * cy;
          add_wc(R, A, B, c1); e = showu(R);
          X = A; add_wc(X, X, B, c1); emit(kind, "add_wc:raas", "ra", cc, e, showu(X));
          X = B; add_wc(X, A, X, c1); emit(kind, "add_wc:raas", "rb", cc, e, showu(X));
          add_wc(R, A, A, c1); e = showu(R); X = A; add_wc(X, X, X, c1); emit(kind, "add_wc:raas", "rab", cc, e, showu(X));
          sub_wc(R, A, B, c1); e = showu(R);
          X = A; sub_wc(X, X, B, c1); emit(kind, "sub_wc:raas", "ra", cc, e, showu(X));
          X = B; sub_wc(X, A, X, c1); emit(kind, "sub_wc:raas", "rb", cc, e, showu(X));
          sub_wc(R, A, A, c1); e = showu(R); X = A; sub_wc(X, X, X, c1); emit(kind, "sub_wc:raas", "rab", cc, e, showu(X));
          R = A; { U T2 = A; add_wc(R, T2, c1); } e = showu(R); X = A; add_wc(X, X, c1); emit(kind, "add_wc:ras", "ra", cc, e, showu(X));
          R = A; { U T2 = A; sub_wc(R, T2, c1); } e = showu(R); X = A; sub_wc(X, X, c1); emit(kind, "sub_wc:ras", "ra", cc, e, showu(X)); }
        // div(q, r, a, b): destinations r = q, s = r
        div(R, S, A, B); e = showu(R) + " ; " + showu(S);
        X = A; div(X, Y, X, B); emit(kind, "div:rraa", "ra", cs, e, showu(X) + " ; " + showu(Y));
        X = B; div(X, Y, A, X); emit(kind, "div:rraa", "rb", cs, e, showu(X) + " ; " + showu(Y));
        Y = A; div(X, Y, Y, B); emit(kind, "div:rraa", "sa", cs, e, showu(X) + " ; " + showu(Y));
        Y = B; div(X, Y, A, Y); emit(kind, "div:rraa", "sb", cs, e, showu(X) + " ; " + showu(Y));
        X = A; Y = B; div(X, Y, X, Y); emit(kind, "div:rraa", "ra_sb", cs, e, showu(X) + " ; " + showu(Y));
        X = B; Y = A; div(X, Y, Y, X); emit(kind, "div:rraa", "rb_sa", cs, e, showu(X) + " ; " + showu(Y));
        if (A != 0) {
            div(R, S, A, A); e = showu(R) + " ; " + showu(S);
            X = A; div(Y, S, X, X); emit(kind, "div:rraa", "ab", cs, e, showu(Y) + " ; " + showu(S));
            X = A; div(X, Y, X, X); emit(kind, "div:rraa", "rab", cs, e, showu(X) + " ; " + showu(Y));
            Y = A; div(X, Y, Y, Y); emit(kind, "div:rraa", "sab", cs, e, showu(X) + " ; " + showu(Y));
        }
        // shifts
        { const unsigned sh = unsigned(rng.below(sizeof(U) * 8 + 3));
          left_shift(R, A, sh); e = showu(R); X = A; left_shift(X, X, sh); emit(kind, "left_shift:ras", "ra", cs, e, showu(X));
          right_shift(R, A, sh); e = showu(R); X = A; right_shift(X, X, sh); emit(kind, "right_shift:ras", "ra", cs, e, showu(X)); }
        // modular: mod_n(a, b, n) = b mod n ; inv_mod(a, b, n) ; exp_mod(a, b, c, n)
        mod_n(R, A, N); e = showu(R);
        X = A; mod_n(X, X, N); emit(kind, "mod_n:raa", "ra", cs, e, showu(X));
        X = N; mod_n(X, A, X); emit(kind, "mod_n:raa", "rb", cs, e, showu(X));
        if (A != 0) { mod_n(R, A, A); e = showu(R); X = A; mod_n(X, X, X); emit(kind, "mod_n:raa", "rab", cs, e, showu(X)); }
        { U An; mod_n(An, A, N);
          inv_mod(R, An, N); e = showu(R);
          X = An; inv_mod(X, X, N); emit(kind, "inv_mod:raa", "ra", cs, e, showu(X));
          X = N; inv_mod(X, An, X); emit(kind, "inv_mod:raa", "rb", cs, e, showu(X));
          U Cs = C; if (cs % 4) { Cs = 0; reinterpret_cast<uint64_t*>(&Cs)[0] = rng.next() >> rng.below(60); }   // mostly short exponents
          exp_mod(R, An, Cs, N); e = showu(R);
          X = An; exp_mod(X, X, Cs, N); emit(kind, "exp_mod:raaa", "ra", cs, e, showu(X));
          X = Cs; exp_mod(X, An, X, N); emit(kind, "exp_mod:raaa", "rb", cs, e, showu(X));
          X = N; exp_mod(X, An, Cs, X); emit(kind, "exp_mod:raaa", "rc", cs, e, showu(X));
          if (cs % 4) { exp_mod(R, Cs, Cs, N); e = showu(R);
                        X = Cs; exp_mod(X, X, X, N); emit(kind, "exp_mod:raaa", "rab", cs, e, showu(X)); }
          const uint64_t e64 = rng.next() >> rng.below(62);
          exp_mod(R, An, e64, N); e = showu(R);
          X = An; exp_mod(X, X, e64, N); emit(kind, "exp_mod:rasa", "ra", cs, e, showu(X));
          X = N; exp_mod(X, An, e64, X); emit(kind, "exp_mod:rasa", "rb", cs, e, showu(X)); }
    }
}

// ---- RecInt: rmint<K, MG> ---------------------------------------------------------------------------------------------------------
template <size_t K, size_t MG>
static void alias_rmint(const std::string& kind, vp::Rng& rng, int ncases) {
    typedef RecInt::rmint<K, MG> M;
    typedef RecInt::ruint<K> U;
    using namespace RecInt;
    U p; fill(p, rng, 3); reinterpret_cast<uint64_t*>(&p)[0] |= 1;
    M::init_module(p);
    for (int cs = 0; cs < ncases; ++cs) {
        U a, b, c, ex;
        fill(a, rng, cs % 6); fill(b, rng, (cs / 2) % 6); fill(c, rng, 0);
        ex = 0; reinterpret_cast<uint64_t*>(&ex)[0] = rng.next() >> rng.below(60);
        if (cs % 5 == 4) fill(ex, rng, 0);
        M A(a), B(b), C(c), R, X, Y;
        std::string e;
#define MBIN(OP)                                                                                                       \
        OP(R, A, B); e = showu(R.Value);                                                                                \
        X = A; OP(X, X, B); emit(kind, #OP ":raa", "ra", cs, e, showu(X.Value));                                        \
        X = B; OP(X, A, X); emit(kind, #OP ":raa", "rb", cs, e, showu(X.Value));                                        \
        OP(R, A, A); e = showu(R.Value);                                                                                \
        X = A; OP(X, X, X); emit(kind, #OP ":raa", "rab", cs, e, showu(X.Value));                                       \
        X = A; OP(Y, X, X); emit(kind, #OP ":raa", "ab", cs, e, showu(Y.Value));
        MBIN(add) MBIN(sub) MBIN(mul)
#define MINPL(OP)                                                                                                      \
        R = A; { M T2 = A; OP(R, T2); } e = showu(R.Value);                                                             \
        X = A; OP(X, X); emit(kind, #OP ":ra", "ra", cs, e, showu(X.Value));
        MINPL(add) MINPL(sub) MINPL(mul)
        neg(R, A); e = showu(R.Value); X = A; neg(X, X); emit(kind, "neg:ra", "ra", cs, e, showu(X.Value));
        square(R, A); e = showu(R.Value); X = A; square(X, X); emit(kind, "square:ra", "ra", cs, e, showu(X.Value));
        inv(R, A); e = showu(R.Value); X = A; inv(X, X); emit(kind, "inv:ra", "ra", cs, e, showu(X.Value));
        exp(R, A, ex); e = showu(R.Value); X = A; exp(X, X, ex); emit(kind, "exp:ras", "ra", cs, e, showu(X.Value));
        { const uint64_t e64 = rng.next() >> rng.below(62);
          exp(R, A, e64); e = showu(R.Value); X = A; exp(X, X, e64); emit(kind, "exp:ras", "ra", cs + 100000, e, showu(X.Value)); }
        copy(R, A); e = showu(R.Value); X = A; copy(X, X); emit(kind, "copy:ra", "ra", cs, e, showu(X.Value));
        if (cs % 3 == 0) { MBIN(div) }
    }
}

int main(int argc, char** argv) {
    std::string tier = argc > 1 ? argv[1] : "quick";
    uint64_t seed = argc > 2 ? strtoull(argv[2], nullptr, 10) : 1;
    g_only = argc > 3 ? argv[3] : "";
    if (argc > 4 && std::string(argv[4]) == "replay") {
        g_replay_on = true;
        std::string line;
        while (std::getline(std::cin, line)) {
            if (line.compare(0, 3, "al ") != 0) continue;
            size_t eq = line.find(" = ");
            g_replay.insert(eq == std::string::npos ? line : line.substr(0, eq));
        }
    }
    vp::Rng rng(seed * 1000003 + 5);
    std::vector<Integer> vals = {Integer(7), Integer(5), Integer(1000003), Integer(2), Integer(3), Integer(1), Integer(100), Integer(-3),
                                 Integer(65520), Integer(13), Integer(1), Integer(1), Integer(1), Integer(0), Integer(9), Integer(4)};
    const bool thorough = tier == "thorough";
    const int nrand = thorough ? 400 : 24;
    for (int i = 0; i < nrand; ++i) vals.push_back(Integer(uint64_t(rng.next() >> (rng.below(60)))));
    setvbuf(stdout, nullptr, _IOLBF, 0);
#define RINGP(NAME, ...) if (want(#NAME)) { AK::NAME F_(__VA_ARGS__); alias_ring(#NAME, F_, vals); }
#if PART(0)
    RINGP(Modular_int32, 65521)
    RINGP(Modular_uint32, 65521u)
    RINGP(Modular_int64, int64_t(2147483647))
    RINGP(Modular_uint64, uint64_t(4294967291u))
    RINGP(Modular_int16, int16_t(181))
    RINGP(Modular_int8, int8_t(13))
    RINGP(Modular_uint8, uint8_t(13))
    RINGP(Modular_uint16, uint16_t(251))
#endif
#if PART(1)
    // (moduli within maxCardinality: 2^(N/2) for Compute_t = Storage_t, 2^(N-1) resp. 2^N-1 for a double-width Compute_t)
    RINGP(Modular_uint32_32, 65521u)
    RINGP(Modular_int8_16, int8_t(113))
    RINGP(Modular_uint8_16, uint8_t(251))
    RINGP(Modular_uint16_32, uint16_t(65521))
    RINGP(Modular_uint32_64, 4294967291u)
    RINGP(Modular_int32_64, int32_t(2147483647))
    RINGP(Modular_uint64_128, uint64_t(18446744073709551557ull))
    RINGP(Modular_int16_int64, int16_t(181))
#endif
#if PART(2)
    RINGP(Modular_double, 67108859.)
    RINGP(Modular_float, 4093.f)
    RINGP(Modular_Integer, Integer("1267650600228229401496703205653"))
    RINGP(Modular_Log16, 1009)
    RINGP(ModularBalanced_int32, 65521)
    RINGP(ModularBalanced_int64, int64_t(2147483647))
    RINGP(ModularBalanced_double, 67108859.)
    RINGP(ModularBalanced_float, 4093.f)
    RINGP(ModularExtended_double, 1125899906842597.)
    RINGP(Montgomery_int32, 40499)
#endif
#if PART(3)
    RINGP(Modular_ruint6, RecInt::ruint<6>(65521u))
    RINGP(Modular_ruint7, RecInt::ruint<7>(4294967291u))
    RINGP(Modular_ruint6_7, RecInt::ruint<6>(4294967291u))
    RINGP(Modular_ruint7_8, RecInt::ruint<7>(4294967291u))
    RINGP(Modular_rint7, RecInt::rint<7>(2147483647))
    RINGP(Montgomery_ruint6, RecInt::ruint<6>(4294967291u))
    RINGP(Montgomery_ruint7, RecInt::ruint<7>(4294967291u))
    RINGP(Montgomery_ruint8, RecInt::ruint<8>(4294967291u))
#endif
#if PART(4)
    if (want("QField_Rational")) { AK::QField_Rational F_; alias_ring("QField_Rational", F_, vals); }
    if (want("GFqDom_int32")) { AK::GFqDom_int32 F_(3u, 4u, std::vector<GFqDom<int32_t>::Residu_t>{2, 1, 0, 0, 1}); alias_ring("GFqDom_int32", F_, vals); }
    if (want("GFqDom_int64")) { AK::GFqDom_int64 F_(5u, 3u); alias_ring("GFqDom_int64", F_, vals); }
    if (want("Rational_ops")) alias_rational("Rational_ops", vals);
#endif
#if PART(12)
    if (want("Extension_GFq")) {
        typedef GFqDom<int32_t> B; typedef Poly1Dom<B, Dense> P;
        B base(3, 1); P pd(base, Indeter("Y")); P::Element irr; B::Element e;
        const int c3[] = {2, 1, 0, 0, 1};
        pd.init(irr, Degree(4));
        for (int j = 0; j < 5; ++j) { base.init(e, Integer(c3[j])); irr[size_t(j)] = e; }
        AK::Extension_GFq F_(pd, irr);
        alias_ring("Extension_GFq", F_, vals);
    }
    if (want("Extension_Modular_double")) {
        typedef Modular<double> B; typedef Poly1Dom<B, Dense> P;
        B base(7.); P pd(base, Indeter("Y")); P::Element irr; B::Element e;
        const int c7[] = {1, 1, 0, 1};                  // Y^3 + Y + 1: no root modulo 7, hence irreducible
        pd.init(irr, Degree(3));
        for (int j = 0; j < 4; ++j) { base.init(e, Integer(c7[j])); irr[size_t(j)] = e; }
        AK::Extension_Modular_double F_(pd, irr);
        alias_ring("Extension_Modular_double", F_, vals);
    }
#endif
#if PART(13)
    if (want("ZRing_Integer")) { AK::ZRing_Integer F_; alias_ring("ZRing_Integer", F_, vals); }
    if (want("ZRing_double")) { AK::ZRing_double F_; alias_ring("ZRing_double", F_, vals); }
    if (want("ZRing_int64")) { AK::ZRing_int64 F_; alias_ring("ZRing_int64", F_, std::vector<Integer>(vals.begin(), vals.begin() + 16)); }
    if (want("GF2_bool")) { AK::GF2_bool F_; alias_ring("GF2_bool", F_, vals); }
#endif
    const int npoly = thorough ? 400 : 40;
    vp::Rng rng2(seed * 1000003 + 77);
#if PART(5)
    if (want("Poly1Dom_Modular_int32")) { Modular<int32_t> F(101); AK::Poly1Dom_Modular_int32 P(F, Indeter("X")); alias_poly("Poly1Dom_Modular_int32", P, rng, npoly); alias_poly2("Poly1Dom_Modular_int32", P, rng2, npoly); }
#endif
#if PART(6)
    if (want("Poly1Dom_QField")) { vp::Rng r1(seed * 1000003 + 6), r2(seed * 1000003 + 78); QField<Rational> F; AK::Poly1Dom_QField P(F, Indeter("X")); alias_poly("Poly1Dom_QField", P, r1, npoly / 4); alias_poly2("Poly1Dom_QField", P, r2, npoly / 4); }
#endif
#if PART(7)
    if (want("Poly1Dom_Modular_ruint7")) { vp::Rng r1(seed * 1000003 + 7), r2(seed * 1000003 + 79); Modular<RecInt::ruint<7>> F(RecInt::ruint<7>(4294967291u)); AK::Poly1Dom_Modular_ruint7 P(F, Indeter("X")); alias_poly("Poly1Dom_Modular_ruint7", P, r1, npoly / 4); alias_poly2("Poly1Dom_Modular_ruint7", P, r2, npoly / 4); }
    if (want("Poly1Dom_Modular_Log16")) { vp::Rng r1(seed * 1000003 + 8), r2(seed * 1000003 + 80); Modular<Log16> F(1009); AK::Poly1Dom_Modular_Log16 P(F, Indeter("X")); alias_poly("Poly1Dom_Modular_Log16", P, r1, npoly / 4); alias_poly2("Poly1Dom_Modular_Log16", P, r2, npoly / 4); }
#endif
    const int nrec = thorough ? 300 : 40;
#define RU(K) if (want("ruint" #K)) { vp::Rng r(seed * 1000003 + 100 + K); alias_ruint<K>("ruint" #K, r, K >= 10 ? nrec / 2 : nrec); }
#if PART(8)
    RU(6) RU(7) RU(8) RU(9)
#endif
#if PART(9)
    RU(10) RU(11)
#endif
#define RM(K) if (want("rmintA" #K)) { vp::Rng r(seed * 1000003 + 200 + K); alias_rmint<K, RecInt::MG_ACTIVE>("rmintA" #K, r, K >= 10 ? nrec / 4 : nrec / 2); } \
              if (want("rmintI" #K)) { vp::Rng r(seed * 1000003 + 300 + K); alias_rmint<K, RecInt::MG_INACTIVE>("rmintI" #K, r, K >= 10 ? nrec / 4 : nrec / 2); }
#if PART(10)
    RM(6) RM(7) RM(8)
#endif
#if PART(11)
    RM(9) RM(10) RM(11)
#endif
    return 0;
}
