// C15 correspondence harness for the ring / field / rational / polynomial interfaces: every three-address operation is called
// with the destination being the same object as one or several of its inputs and compared with the call on distinct objects
// holding the same values.
//
//   h_alias <tier> <seed> [kind]
// output:  al <kind> <op> <pattern> <case> = <digest expected> <digest got>      (equal digests = alias independent)
//          on a mismatch the readable values are printed as:  # <same key> expected=<…> got=<…>
// pattern: letters of the parameters that are ONE object, e.g. "ra" (r≡a), "rb", "rc", "ab" (a≡b, r distinct), "rab", "rabc"
#include "domains.h"
#include "proto.h"
#include <givaro/givpoly1.h>
#include <givaro/zring.h>
#include <givaro/gf2.h>

using namespace Givaro;

static void emit(const std::string& kind, const char* op, const char* pat, int cs, const std::string& exp, const std::string& got) {
    printf("al %s %s %s %d = %llx %llx\n", kind.c_str(), op, pat, cs, (unsigned long long)dz::fnv(exp), (unsigned long long)dz::fnv(got));
    if (exp != got) printf("# al %s %s %s %d expected=%s got=%s\n", kind.c_str(), op, pat, cs, exp.c_str(), got.c_str());
}

template <class D, class E>
static std::string show(const D& F, const E& e) { std::ostringstream os; F.write(os, e); return os.str(); }

// ---- ring interface --------------------------------------------------------------------------------------------------------
template <class D>
static void alias_ring(const std::string& kind, const D& F, const std::vector<Integer>& vals) {
    typedef typename D::Element E;
    int cs = 0;
    for (size_t i = 0; i + 2 < vals.size(); ++i, ++cs) {
        E A, B, C, R, X, Y, Z;
        F.init(A, vals[i]); F.init(B, vals[i + 1]); F.init(C, vals[i + 2]);
        F.init(R); F.init(X); F.init(Y); F.init(Z);
        std::string e;
#define BIN(OP)                                                                                                        \
        F.OP(R, A, B); e = show(F, R);                                                                                  \
        F.assign(X, A); F.OP(X, X, B); emit(kind, #OP, "ra", cs, e, show(F, X));                                        \
        F.assign(X, B); F.OP(X, A, X); emit(kind, #OP, "rb", cs, e, show(F, X));                                        \
        F.OP(R, A, A); e = show(F, R);                                                                                  \
        F.assign(X, A); F.OP(Y, X, X); emit(kind, #OP, "ab", cs, e, show(F, Y));                                        \
        F.assign(X, A); F.OP(X, X, X); emit(kind, #OP, "rab", cs, e, show(F, X));
        BIN(add) BIN(sub) BIN(mul)
        if (!F.isZero(B) && !F.isZero(A)) { BIN(div) }
#define TER(OP)                                                                                                        \
        F.OP(R, A, B, C); e = show(F, R);                                                                               \
        F.assign(X, A); F.OP(X, X, B, C); emit(kind, #OP, "ra", cs, e, show(F, X));                                     \
        F.assign(X, B); F.OP(X, A, X, C); emit(kind, #OP, "rb", cs, e, show(F, X));                                     \
        F.assign(X, C); F.OP(X, A, B, X); emit(kind, #OP, "rc", cs, e, show(F, X));                                     \
        F.OP(R, A, A, C); e = show(F, R);                                                                               \
        F.assign(X, A); F.OP(X, X, X, C); emit(kind, #OP, "rab", cs, e, show(F, X));                                    \
        F.OP(R, A, B, A); e = show(F, R);                                                                               \
        F.assign(X, A); F.OP(X, X, B, X); emit(kind, #OP, "rac", cs, e, show(F, X));                                    \
        F.OP(R, A, A, A); e = show(F, R);                                                                               \
        F.assign(X, A); F.OP(X, X, X, X); emit(kind, #OP, "rabc", cs, e, show(F, X));                                   \
        F.OP(R, A, B, B); e = show(F, R);                                                                               \
        F.assign(X, B); F.OP(X, A, X, X); emit(kind, #OP, "rbc", cs, e, show(F, X));
        TER(axpy) TER(axmy) TER(maxpy)
        F.neg(R, A); e = show(F, R);
        F.assign(X, A); F.neg(X, X); emit(kind, "neg", "ra", cs, e, show(F, X));
        if (!F.isZero(A)) try {
            F.inv(R, A); e = show(F, R);
            F.assign(X, A); F.inv(X, X); emit(kind, "inv", "ra", cs, e, show(F, X));
        } catch (const GivMathError&) {}      // not a unit (ZRing)
        // in-place forms with the operand being the destination itself: x op= x
#define INPL(OP, REF)                                                                                                  \
        F.REF(R, A, A); e = show(F, R);                                                                                 \
        F.assign(X, A); F.OP(X, X); emit(kind, #OP, "rr", cs, e, show(F, X));
        INPL(addin, add) INPL(subin, sub) INPL(mulin, mul)
        if (!F.isZero(A)) { INPL(divin, div) }
        F.axpy(R, A, A, A); e = show(F, R);
        F.assign(X, A); F.axpyin(X, X, X); emit(kind, "axpyin", "rab", cs, e, show(F, X));
        F.maxpy(R, A, A, A); e = show(F, R);
        F.assign(X, A); F.maxpyin(X, X, X); emit(kind, "maxpyin", "rab", cs, e, show(F, X));
        F.axmy(R, A, A, A); e = show(F, R);
        F.assign(X, A); F.axmyin(X, X, X); emit(kind, "axmyin", "rab", cs, e, show(F, X));
        // r op= a*b with r being a only / b only:  OPin(r, r, b) = OP(., r, b, r),  OPin(r, a, r) = OP(., a, r, r)
#define TERIN(OPIN, OP)                                                                                                \
        F.OP(R, A, B, A); e = show(F, R);                                                                               \
        F.assign(X, A); F.OPIN(X, X, B); emit(kind, #OPIN, "ra", cs, e, show(F, X));                                    \
        F.OP(R, A, B, B); e = show(F, R);                                                                               \
        F.assign(X, B); F.OPIN(X, A, X); emit(kind, #OPIN, "rb", cs, e, show(F, X));
        TERIN(axpyin, axpy) TERIN(maxpyin, maxpy) TERIN(axmyin, axmy)
    }
}

// ---- polynomial interface ----------------------------------------------------------------------------------------------------
template <class PD>
static void alias_poly(const std::string& kind, const PD& P, vp::Rng& rng, int ncases) {
    typedef typename PD::Element Pol;
    const typename PD::Domain_t& F = P.getdomain();
    for (int cs = 0; cs < ncases; ++cs) {
        Pol A, B, C, R, Q, X, Y;
        const int dA = int(rng.below(7)), dB = int(rng.below(5)), dC = int(rng.below(4));
        typename PD::Type_t c;
        P.init(A, Degree(dA)); P.init(B, Degree(dB)); P.init(C, Degree(dC));
        for (int i = 0; i <= dA; ++i) { F.init(c, Integer(uint64_t(rng.below(97)))); A[size_t(i)] = c; }
        for (int i = 0; i <= dB; ++i) { F.init(c, Integer(uint64_t(rng.below(97)))); B[size_t(i)] = c; }
        for (int i = 0; i <= dC; ++i) { F.init(c, Integer(uint64_t(rng.below(97)))); C[size_t(i)] = c; }
        F.init(c, Integer(1)); A[size_t(dA)] = c; B[size_t(dB)] = c; C[size_t(dC)] = c;     // monic: degrees as drawn, non-zero
        std::string e;
#define PBIN(OP)                                                                                                       \
        P.OP(R, A, B); e = show(P, R);                                                                                  \
        P.assign(X, A); P.OP(X, X, B); emit(kind, #OP, "ra", cs, e, show(P, X));                                        \
        P.assign(X, B); P.OP(X, A, X); emit(kind, #OP, "rb", cs, e, show(P, X));                                        \
        P.OP(R, A, A); e = show(P, R);                                                                                  \
        P.assign(X, A); P.OP(X, X, X); emit(kind, #OP, "rab", cs, e, show(P, X));
        PBIN(add) PBIN(sub) PBIN(mul) PBIN(div) PBIN(mod) PBIN(gcd)
        // divmod(Q, R, A, B)
        P.divmod(Q, R, A, B); e = show(P, Q) + " ; " + show(P, R);
        P.assign(X, A); P.divmod(X, Y, X, B); emit(kind, "divmod", "qa", cs, e, show(P, X) + " ; " + show(P, Y));
        P.assign(Y, B); P.divmod(X, Y, A, Y); emit(kind, "divmod", "rb", cs, e, show(P, X) + " ; " + show(P, Y));
        P.assign(X, B); P.divmod(X, Y, A, X); emit(kind, "divmod", "qb", cs, e, show(P, X) + " ; " + show(P, Y));
        P.assign(Y, A); P.divmod(X, Y, Y, B); emit(kind, "divmod", "ra", cs, e, show(P, X) + " ; " + show(P, Y));
        // axpy(R, A, X, Y) = A*X + Y   and relatives
#define PTER(OP)                                                                                                       \
        P.OP(R, A, B, C); e = show(P, R);                                                                               \
        P.assign(X, A); P.OP(X, X, B, C); emit(kind, #OP, "ra", cs, e, show(P, X));                                     \
        P.assign(X, B); P.OP(X, A, X, C); emit(kind, #OP, "rb", cs, e, show(P, X));                                     \
        P.assign(X, C); P.OP(X, A, B, X); emit(kind, #OP, "rc", cs, e, show(P, X));
        PTER(axpy) PTER(axmy) PTER(maxpy)
        P.neg(R, A); e = show(P, R);
        P.assign(X, A); P.neg(X, X); emit(kind, "neg", "ra", cs, e, show(P, X));
        P.sqr(R, A); e = show(P, R);
        P.assign(X, A); P.sqr(X, X); emit(kind, "sqr", "ra", cs, e, show(P, X));
        // in-place forms with themselves
        P.add(R, A, A); e = show(P, R); P.assign(X, A); P.addin(X, X); emit(kind, "addin", "rr", cs, e, show(P, X));
        P.sub(R, A, A); e = show(P, R); P.assign(X, A); P.subin(X, X); emit(kind, "subin", "rr", cs, e, show(P, X));
        P.mul(R, A, A); e = show(P, R); P.assign(X, A); P.mulin(X, X); emit(kind, "mulin", "rr", cs, e, show(P, X));
    }
}

// ---- polynomial interface, second part: scalar forms, cofactors, modular forms, pseudo-division, long operands ----------------
template <class PD>
static void alias_poly2(const std::string& kind, const PD& P, vp::Rng& rng, int ncases) {
    typedef typename PD::Element Pol;
    typedef typename PD::Type_t Sc;
    const typename PD::Domain_t& F = P.getdomain();
    for (int cs = 0; cs < ncases; ++cs) {
        Pol A, B, C, R, Q, X, Y, Z, S, T, S2, T2;
        const bool big = (cs % 8 == 7);                                   // beyond KARA_THRESHOLD / SQR_THRESHOLD
        const int dA = big ? 110 + int(rng.below(20)) : int(rng.below(7));
        const int dB = big ? 60 + int(rng.below(60)) : int(rng.below(5));
        const int dC = int(rng.below(4));
        Sc c, u, m, m2;
        P.init(A, Degree(dA)); P.init(B, Degree(dB)); P.init(C, Degree(dC));
        for (int i = 0; i <= dA; ++i) { F.init(c, Integer(uint64_t(rng.below(97)))); A[size_t(i)] = c; }
        for (int i = 0; i <= dB; ++i) { F.init(c, Integer(uint64_t(rng.below(97)))); B[size_t(i)] = c; }
        for (int i = 0; i <= dC; ++i) { F.init(c, Integer(uint64_t(rng.below(97)))); C[size_t(i)] = c; }
        F.init(c, Integer(1)); A[size_t(dA)] = c; C[size_t(dC)] = c;
        F.init(c, Integer(uint64_t(1 + rng.below(96)))); B[size_t(dB)] = c;     // B not monic (pseudo-division, cofactors)
        F.init(u, Integer(uint64_t(2 + rng.below(90))));
        std::string e;
        // long products
        PBIN(mul) PBIN(stdmul) PBIN(karamul)
        P.sqr(R, A); e = show(P, R);
        P.assign(X, A); P.sqr(X, X); emit(kind, "sqr", "ra", cs, e, show(P, X));
        if (!big) {
            PBIN(lcm)
            // truncated product
            const Degree lo(1), hi(3);
            P.mul(R, A, B, lo, hi); e = show(P, R);
            P.assign(X, A); P.mul(X, X, B, lo, hi); emit(kind, "multrunc", "ra", cs, e, show(P, X));
            P.assign(X, B); P.mul(X, A, X, lo, hi); emit(kind, "multrunc", "rb", cs, e, show(P, X));
        }
        // scalar forms
#define PSC(NAME, CALLR, CALLX)                                                                                        \
        CALLR; e = show(P, R); P.assign(X, A); CALLX; emit(kind, NAME, "ra", cs, e, show(P, X));
        PSC("mul_s", P.mul(R, A, u), P.mul(X, X, u))
        PSC("s_mul", P.mul(R, u, A), P.mul(X, u, X))
        PSC("div_s", P.div(R, A, u), P.div(X, X, u))
        PSC("add_s", P.add(R, A, u), P.add(X, X, u))
        PSC("s_add", P.add(R, u, A), P.add(X, u, X))
        PSC("sub_s", P.sub(R, A, u), P.sub(X, X, u))
        PSC("s_sub", P.sub(R, u, A), P.sub(X, u, X))
#define PSTER(OP, NAME)                                                                                                \
        P.OP(R, u, A, B); e = show(P, R);                                                                               \
        P.assign(X, A); P.OP(X, u, X, B); emit(kind, NAME, "rb", cs, e, show(P, X));                                    \
        P.assign(X, B); P.OP(X, u, A, X); emit(kind, NAME, "rc", cs, e, show(P, X));                                    \
        P.OP(R, u, B, A); e = show(P, R);                                                                               \
        P.assign(X, B); P.OP(X, u, X, A); emit(kind, NAME, "rb'", cs, e, show(P, X));                                   \
        P.assign(X, A); P.OP(X, u, B, X); emit(kind, NAME, "rc'", cs, e, show(P, X));                                   \
        P.OP(R, u, A, A); e = show(P, R);                                                                               \
        P.assign(X, A); P.OP(X, u, X, X); emit(kind, NAME, "rbc", cs, e, show(P, X));
        PSTER(axpy, "axpy_s") PSTER(axmy, "axmy_s")
#ifdef ALIAS_MAXPY_S   // Poly1Dom::maxpy(Rep&, const Type_t&, const Rep&, const Rep&) does not instantiate (it calls Rep::copy): not an aliasing matter
        PSTER(maxpy, "maxpy_s")
#endif
        // three polynomial operands: remaining patterns
#define PTER2(OP)                                                                                                      \
        P.OP(R, A, A, C); e = show(P, R);                                                                               \
        P.assign(X, A); P.OP(X, X, X, C); emit(kind, #OP, "rab", cs, e, show(P, X));                                    \
        P.OP(R, A, B, A); e = show(P, R);                                                                               \
        P.assign(X, A); P.OP(X, X, B, X); emit(kind, #OP, "rac", cs, e, show(P, X));                                    \
        P.OP(R, A, A, A); e = show(P, R);                                                                               \
        P.assign(X, A); P.OP(X, X, X, X); emit(kind, #OP, "rabc", cs, e, show(P, X));
        PTER2(axpy) PTER2(axmy) PTER2(maxpy)
#define PTERIN(OPIN, OP)                                                                                               \
        P.OP(R, A, B, A); e = show(P, R);                                                                               \
        P.assign(X, A); P.OPIN(X, X, B); emit(kind, #OPIN, "ra", cs, e, show(P, X));                                    \
        P.OP(R, A, B, B); e = show(P, R);                                                                               \
        P.assign(X, B); P.OPIN(X, A, X); emit(kind, #OPIN, "rb", cs, e, show(P, X));                                    \
        P.OP(R, A, A, A); e = show(P, R);                                                                               \
        P.assign(X, A); P.OPIN(X, X, X); emit(kind, #OPIN, "rab", cs, e, show(P, X));
        PTERIN(axpyin, axpy) PTERIN(maxpyin, maxpy) PTERIN(axmyin, axmy)
        // in-place division forms with themselves
        P.div(R, A, A); e = show(P, R); P.assign(X, A); P.divin(X, X); emit(kind, "divin", "rr", cs, e, show(P, X));
        P.mod(R, A, A); e = show(P, R); P.assign(X, A); P.modin(X, X); emit(kind, "modin", "rr", cs, e, show(P, X));
        // divmodin(Q, R, B): R = B Q + newR
        P.assign(Y, A); P.divmodin(Q, Y, B); e = show(P, Q) + " ; " + show(P, Y);
        P.assign(Y, A); P.assign(X, B); P.divmodin(X, Y, X); emit(kind, "divmodin", "qb", cs, e, show(P, X) + " ; " + show(P, Y));
        // derivative, reverse
        P.diff(R, A); e = show(P, R); P.assign(X, A); P.diff(X, X); emit(kind, "diff", "ra", cs, e, show(P, X));
        P.reverse(R, A); e = show(P, R); P.assign(X, A); P.reverse(X, X); emit(kind, "reverse", "ra", cs, e, show(P, X));
        if (big) continue;
        // pseudo-division
        P.pdivmod(Q, R, m, A, B); e = show(P, Q) + " ; " + show(P, R) + " ; " + show(F, m);
        P.assign(X, A); P.pdivmod(X, Y, m2, X, B); emit(kind, "pdivmod", "qa", cs, e, show(P, X) + " ; " + show(P, Y) + " ; " + show(F, m2));
        P.assign(X, B); P.pdivmod(X, Y, m2, A, X); emit(kind, "pdivmod", "qb", cs, e, show(P, X) + " ; " + show(P, Y) + " ; " + show(F, m2));
        P.assign(Y, A); P.pdivmod(X, Y, m2, Y, B); emit(kind, "pdivmod", "ra", cs, e, show(P, X) + " ; " + show(P, Y) + " ; " + show(F, m2));
        P.assign(Y, B); P.pdivmod(X, Y, m2, A, Y); emit(kind, "pdivmod", "rb", cs, e, show(P, X) + " ; " + show(P, Y) + " ; " + show(F, m2));
        P.pmod(R, m, A, B); e = show(P, R) + " ; " + show(F, m);
        P.assign(Y, A); P.pmod(Y, m2, Y, B); emit(kind, "pmod", "ra", cs, e, show(P, Y) + " ; " + show(F, m2));
        P.assign(Y, B); P.pmod(Y, m2, A, Y); emit(kind, "pmod", "rb", cs, e, show(P, Y) + " ; " + show(F, m2));
        // gcd with cofactors: gcd(G, S, T, A, B)
        P.gcd(R, S, T, A, B); e = show(P, R) + " ; " + show(P, S) + " ; " + show(P, T);
#define PGCD(PAT, SETUP, CALL, G_, S_, T_)                                                                             \
        SETUP; CALL; emit(kind, "gcdext", PAT, cs, e, show(P, G_) + " ; " + show(P, S_) + " ; " + show(P, T_));
        PGCD("ga", P.assign(X, A), P.gcd(X, S2, T2, X, B), X, S2, T2)
        PGCD("gb", P.assign(X, B), P.gcd(X, S2, T2, A, X), X, S2, T2)
        PGCD("sa", P.assign(X, A), P.gcd(Z, X, T2, X, B), Z, X, T2)
        PGCD("sb", P.assign(X, B), P.gcd(Z, X, T2, A, X), Z, X, T2)
        PGCD("ta", P.assign(X, A), P.gcd(Z, S2, X, X, B), Z, S2, X)
        PGCD("tb", P.assign(X, B), P.gcd(Z, S2, X, A, X), Z, S2, X)
        // the same with a constant operand (early exits of gcd)
        P.gcd(R, S, T, A, C.size() == 1 ? C : P.one); e = show(P, R) + " ; " + show(P, S) + " ; " + show(P, T);
        { Pol K; P.assign(K, C.size() == 1 ? C : P.one);
          PGCD("gb0", P.assign(X, K), P.gcd(X, S2, T2, A, X), X, S2, T2)
          PGCD("sa0", P.assign(X, A), P.gcd(Z, X, T2, X, K), Z, X, T2)
          PGCD("tb0", P.assign(X, K), P.gcd(Z, S2, X, A, X), Z, S2, X)
          P.gcd(R, S, T, K, A); e = show(P, R) + " ; " + show(P, S) + " ; " + show(P, T);
          PGCD("ga0", P.assign(X, K), P.gcd(X, S2, T2, X, A), X, S2, T2)
          PGCD("sa0'", P.assign(X, K), P.gcd(Z, X, T2, X, A), Z, X, T2)
          PGCD("ta0", P.assign(X, K), P.gcd(Z, S2, X, X, A), Z, S2, X)
          PGCD("tb0'", P.assign(X, A), P.gcd(Z, S2, X, K, X), Z, S2, X) }
        // modular forms (B of positive degree)
        if (dB > 0) {
            P.invmod(R, A, B); e = show(P, R);
            P.assign(X, A); P.invmod(X, X, B); emit(kind, "invmod", "ra", cs, e, show(P, X));
            P.assign(X, B); P.invmod(X, A, X); emit(kind, "invmod", "rb", cs, e, show(P, X));
            P.invmodunit(R, A, B); e = show(P, R);
            P.assign(X, A); P.invmodunit(X, X, B); emit(kind, "invmodunit", "ra", cs, e, show(P, X));
            P.assign(X, B); P.invmodunit(X, A, X); emit(kind, "invmodunit", "rb", cs, e, show(P, X));
            const Integer n(uint64_t(1 + rng.below(40)));
            P.powmod(R, A, n, B); e = show(P, R);
            P.assign(X, A); P.powmod(X, X, n, B); emit(kind, "powmod", "ra", cs, e, show(P, X));
            P.assign(X, B); P.powmod(X, A, n, X); emit(kind, "powmod", "ru", cs, e, show(P, X));
        }
        { const uint64_t n = rng.below(6);
          P.pow(R, A, n); e = show(P, R);
          P.assign(X, A); P.pow(X, X, n); emit(kind, "pow", "ra", cs, e, show(P, X)); }
    }
}

// ---- rationals through their operators ---------------------------------------------------------------------------------------
static void alias_rational(const std::string& kind, const std::vector<Integer>& vals) {
    int cs = 0;
    auto sh = [](const Rational& r) { std::ostringstream os; os << r.nume() << "/" << r.deno(); return os.str(); };
    for (size_t i = 0; i + 1 < vals.size(); ++i, ++cs) {
        if (vals[i + 1] == 0) continue;
        const Rational A(vals[i], vals[i + 1]);
        Rational X, R;
        R = A + A; X = A; X += X; emit(kind, "op+=", "rr", cs, sh(R), sh(X));
        R = A - A; X = A; X -= X; emit(kind, "op-=", "rr", cs, sh(R), sh(X));
        R = A * A; X = A; X *= X; emit(kind, "op*=", "rr", cs, sh(R), sh(X));
        if (!isZero(A)) { R = A / A; X = A; X /= X; emit(kind, "op/=", "rr", cs, sh(R), sh(X)); }
        X = A; X = X + X; emit(kind, "x=x+x", "rab", cs, sh(A + A), sh(X));
        X = A; X = X * X; emit(kind, "x=x*x", "rab", cs, sh(A * A), sh(X));
        X = A; X = X - X; emit(kind, "x=x-x", "rab", cs, sh(A - A), sh(X));
        if (!isZero(A)) { X = A; X = X / X; emit(kind, "x=x/x", "rab", cs, sh(A / A), sh(X)); }
    }
}

int main(int argc, char** argv) {
    std::string tier = argc > 1 ? argv[1] : "quick";
    uint64_t seed = argc > 2 ? strtoull(argv[2], nullptr, 10) : 1;
    std::string only = argc > 3 ? argv[3] : "";
    vp::Rng rng(seed * 1000003 + 5);
    std::vector<Integer> vals = {Integer(7), Integer(5), Integer(1000003), Integer(2), Integer(3), Integer(1), Integer(100), Integer(-3),
                                 Integer(65520), Integer(13), Integer(1), Integer(1), Integer(1), Integer(0), Integer(9), Integer(4)};
    const int nrand = tier == "thorough" ? 400 : 24;
    for (int i = 0; i < nrand; ++i) vals.push_back(Integer(uint64_t(rng.next() >> (rng.below(60)))));
    setvbuf(stdout, nullptr, _IOLBF, 0);
#define RING(NAME, ...) if (only.empty() || only == NAME) { __VA_ARGS__ F_; alias_ring(NAME, F_, vals); }
#define RINGP(NAME, TYPE, ...) if (only.empty() || only == NAME) { TYPE F_(__VA_ARGS__); alias_ring(NAME, F_, vals); }
    RINGP("Modular_int32", Modular<int32_t>, 65521)
    RINGP("Modular_uint32", Modular<uint32_t>, 65521u)
    RINGP("Modular_int64", Modular<int64_t>, int64_t(2147483647))
    RINGP("Modular_uint64", Modular<uint64_t>, uint64_t(4294967291u))
    RINGP("Modular_int16", Modular<int16_t>, int16_t(181))
    RINGP("Modular_double", Modular<double>, 67108859.)
    RINGP("Modular_float", Modular<float>, 4093.f)
    RINGP("Modular_Integer", Modular<Integer>, Integer("1267650600228229401496703205653"))
    RINGP("Modular_Log16", Modular<Log16>, 1009)
    RINGP("Modular_ruint7", Modular<RecInt::ruint<7>>, RecInt::ruint<7>(4294967291u))
    if (only.empty() || only == "Modular_ruint7_8") { Modular<RecInt::ruint<7>, RecInt::ruint<8>> F_(RecInt::ruint<7>(4294967291u)); alias_ring("Modular_ruint7_8", F_, vals); }
    RINGP("ModularBalanced_int32", ModularBalanced<int32_t>, 65521)
    RINGP("ModularBalanced_int64", ModularBalanced<int64_t>, int64_t(2147483647))
    RINGP("ModularBalanced_double", ModularBalanced<double>, 67108859.)
    RINGP("ModularBalanced_float", ModularBalanced<float>, 4093.f)
    RINGP("ModularExtended_double", ModularExtended<double>, 1125899906842597.)
    RINGP("Montgomery_int32", Montgomery<int32_t>, 40499)
    RINGP("Montgomery_ruint7", Montgomery<RecInt::ruint<7>>, RecInt::ruint<7>(4294967291u))
    if (only.empty() || only == "QField_Rational") { QField<Rational> F_; alias_ring("QField_Rational", F_, vals); }
    if (only.empty() || only == "GFqDom_int32") { GFqDom<int32_t> F_(3u, 4u, std::vector<GFqDom<int32_t>::Residu_t>{2, 1, 0, 0, 1}); alias_ring("GFqDom_int32", F_, vals); }
    if (only.empty() || only == "Extension_GFq") {
        typedef GFqDom<int32_t> B; typedef Poly1Dom<B, Dense> P;
        B base(3, 1); P pd(base, Indeter("Y")); P::Element irr; B::Element e;
        const int c3[] = {2, 1, 0, 0, 1};
        pd.init(irr, Degree(4));
        for (int j = 0; j < 5; ++j) { base.init(e, Integer(c3[j])); irr[size_t(j)] = e; }
        Extension<B> F_(pd, irr);
        alias_ring("Extension_GFq", F_, vals);
    }
    const int npoly = tier == "thorough" ? 400 : 40;
    if (only.empty() || only == "Poly1Dom_Modular_int32") { Modular<int32_t> F(101); Poly1Dom<Modular<int32_t>, Dense> P(F, Indeter("X")); alias_poly("Poly1Dom_Modular_int32", P, rng, npoly); }
    if (only.empty() || only == "Poly1Dom_QField") { QField<Rational> F; Poly1Dom<QField<Rational>, Dense> P(F, Indeter("X")); alias_poly("Poly1Dom_QField", P, rng, npoly / 4); }
    // second part (own generator: the lines above do not depend on it)
    vp::Rng rng2(seed * 1000003 + 77);
    if (only.empty() || only == "Poly1Dom_Modular_int32") { Modular<int32_t> F(101); Poly1Dom<Modular<int32_t>, Dense> P(F, Indeter("X")); alias_poly2("Poly1Dom_Modular_int32", P, rng2, npoly); }
    if (only.empty() || only == "Poly1Dom_QField") { QField<Rational> F; Poly1Dom<QField<Rational>, Dense> P(F, Indeter("X")); alias_poly2("Poly1Dom_QField", P, rng2, npoly / 4); }
    if (only.empty() || only == "Poly1Dom_Modular_ruint7") { Modular<RecInt::ruint<7>> F(RecInt::ruint<7>(4294967291u)); Poly1Dom<Modular<RecInt::ruint<7>>, Dense> P(F, Indeter("X")); alias_poly("Poly1Dom_Modular_ruint7", P, rng2, npoly / 4); alias_poly2("Poly1Dom_Modular_ruint7", P, rng2, npoly / 4); }
    if (only.empty() || only == "Poly1Dom_Modular_Log16") { Modular<Log16> F(1009); Poly1Dom<Modular<Log16>, Dense> P(F, Indeter("X")); alias_poly("Poly1Dom_Modular_Log16", P, rng2, npoly / 4); alias_poly2("Poly1Dom_Modular_Log16", P, rng2, npoly / 4); }
    // more rings
    // (moduli within maxCardinality: 2^(N/2) for Compute_t = Storage_t, 2^(N-1) resp. 2^N-1 for a double-width Compute_t)
    RINGP("Modular_int8", Modular<int8_t>, int8_t(13))
    RINGP("Modular_uint8", Modular<uint8_t>, uint8_t(13))
    RINGP("Modular_uint16", Modular<uint16_t>, uint16_t(251))
    if (only.empty() || only == "Modular_uint32_32") { Modular<uint32_t, uint32_t> F_(65521u); alias_ring("Modular_uint32_32", F_, vals); }
    if (only.empty() || only == "Modular_int8_16") { Modular<int8_t, int16_t> F_(int8_t(113)); alias_ring("Modular_int8_16", F_, vals); }
    if (only.empty() || only == "Modular_uint8_16") { Modular<uint8_t, uint16_t> F_(uint8_t(251)); alias_ring("Modular_uint8_16", F_, vals); }
    if (only.empty() || only == "Modular_uint16_32") { Modular<uint16_t, uint32_t> F_(uint16_t(65521)); alias_ring("Modular_uint16_32", F_, vals); }
    if (only.empty() || only == "Modular_uint32_64") { Modular<uint32_t, uint64_t> F_(4294967291u); alias_ring("Modular_uint32_64", F_, vals); }
    if (only.empty() || only == "Modular_int32_64") { Modular<int32_t, int64_t> F_(int32_t(2147483647)); alias_ring("Modular_int32_64", F_, vals); }
    if (only.empty() || only == "Modular_uint64_128") { Modular<uint64_t, __uint128_t> F_(uint64_t(18446744073709551557ull)); alias_ring("Modular_uint64_128", F_, vals); }
    RINGP("Modular_rint7", Modular<RecInt::rint<7>>, RecInt::rint<7>(2147483647))
    RINGP("Modular_ruint6", Modular<RecInt::ruint<6>>, RecInt::ruint<6>(65521u))
    if (only.empty() || only == "Modular_ruint6_7") { Modular<RecInt::ruint<6>, RecInt::ruint<7>> F_(RecInt::ruint<6>(4294967291u)); alias_ring("Modular_ruint6_7", F_, vals); }
    RINGP("Montgomery_ruint6", Montgomery<RecInt::ruint<6>>, RecInt::ruint<6>(4294967291u))
    RINGP("Montgomery_ruint8", Montgomery<RecInt::ruint<8>>, RecInt::ruint<8>(4294967291u))
    if (only.empty() || only == "ZRing_Integer") { ZRing<Integer> F_; alias_ring("ZRing_Integer", F_, vals); }
    if (only.empty() || only == "ZRing_double") { ZRing<double> F_; alias_ring("ZRing_double", F_, vals); }
    if (only.empty() || only == "ZRing_int64") { ZRing<int64_t> F_; alias_ring("ZRing_int64", F_, std::vector<Integer>(vals.begin(), vals.begin() + 16)); }
    // the primary template (modular-inttype.h): any pair of types no specialisation takes
    if (only.empty() || only == "Modular_int16_int64") { Modular<int16_t, int64_t> F_(int16_t(181)); alias_ring("Modular_int16_int64", F_, vals); }
    if (only.empty() || only == "GF2") { GF2 F_; alias_ring("GF2", F_, vals); }
    if (only.empty() || only == "GFqDom_int64") { GFqDom<int64_t> F_(5u, 3u); alias_ring("GFqDom_int64", F_, vals); }
    if (only.empty() || only == "Extension_Modular_double") {
        typedef Modular<double> B; typedef Poly1Dom<B, Dense> P;
        B base(7.); P pd(base, Indeter("Y")); P::Element irr; B::Element e;
        const int c7[] = {1, 1, 0, 1};                  // Y^3 + Y + 1: no root modulo 7, hence irreducible
        pd.init(irr, Degree(3));
        for (int j = 0; j < 4; ++j) { base.init(e, Integer(c7[j])); irr[size_t(j)] = e; }
        Extension<B> F_(pd, irr);
        alias_ring("Extension_Modular_double", F_, vals);
    }
    if (only.empty() || only == "Rational_ops") alias_rational("Rational_ops", vals);
    return 0;
}
