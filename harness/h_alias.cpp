// C15 correspondence harness for the ring / field / rational / polynomial interfaces: every three-address operation is called
// with the destination being the same object as one or several of its inputs and compared with the call on distinct objects
// holding the same values.
//
//   h_alias <tier> <seed> [kind]
// output:  al <kind> <op> <pattern> <case> = <digest expected> <digest got>      (equal digests = alias independent)
//          on a mismatch the readable values are printed as:  # <same key> expected=<…> got=<…>
// pattern: letters of the parameters that are ONE object, e.g. "ra" (r≡a), "rb", "rc", "ab" (a≡b, r distinct), "rab", "rabc"
#include "domains.h"
#include "proto.h"
#include <givaro/givpoly1.h>

using namespace Givaro;

static void emit(const std::string& kind, const char* op, const char* pat, int cs, const std::string& exp, const std::string& got) {
    printf("al %s %s %s %d = %llx %llx\n", kind.c_str(), op, pat, cs, (unsigned long long)dz::fnv(exp), (unsigned long long)dz::fnv(got));
    if (exp != got) printf("# al %s %s %s %d expected=%s got=%s\n", kind.c_str(), op, pat, cs, exp.c_str(), got.c_str());
}

template <class D, class E>
static std::string show(const D& F, const E& e) { std::ostringstream os; F.write(os, e); return os.str(); }

// ---- ring interface --------------------------------------------------------------------------------------------------------
template <class D>
static void alias_ring(const std::string& kind, const D& F, const std::vector<Integer>& vals) {
    typedef typename D::Element E;
    int cs = 0;
    for (size_t i = 0; i + 2 < vals.size(); ++i, ++cs) {
        E A, B, C, R, X, Y, Z;
        F.init(A, vals[i]); F.init(B, vals[i + 1]); F.init(C, vals[i + 2]);
        F.init(R); F.init(X); F.init(Y); F.init(Z);
        std::string e;
#define BIN(OP)                                                                                                        \
        F.OP(R, A, B); e = show(F, R);                                                                                  \
        F.assign(X, A); F.OP(X, X, B); emit(kind, #OP, "ra", cs, e, show(F, X));                                        \
        F.assign(X, B); F.OP(X, A, X); emit(kind, #OP, "rb", cs, e, show(F, X));                                        \
        F.OP(R, A, A); e = show(F, R);                                                                                  \
        F.assign(X, A); F.OP(Y, X, X); emit(kind, #OP, "ab", cs, e, show(F, Y));                                        \
        F.assign(X, A); F.OP(X, X, X); emit(kind, #OP, "rab", cs, e, show(F, X));
        BIN(add) BIN(sub) BIN(mul)
        if (!F.isZero(B) && !F.isZero(A)) { BIN(div) }
#define TER(OP)                                                                                                        \
        F.OP(R, A, B, C); e = show(F, R);                                                                               \
        F.assign(X, A); F.OP(X, X, B, C); emit(kind, #OP, "ra", cs, e, show(F, X));                                     \
        F.assign(X, B); F.OP(X, A, X, C); emit(kind, #OP, "rb", cs, e, show(F, X));                                     \
        F.assign(X, C); F.OP(X, A, B, X); emit(kind, #OP, "rc", cs, e, show(F, X));                                     \
        F.OP(R, A, A, C); e = show(F, R);                                                                               \
        F.assign(X, A); F.OP(X, X, X, C); emit(kind, #OP, "rab", cs, e, show(F, X));                                    \
        F.OP(R, A, B, A); e = show(F, R);                                                                               \
        F.assign(X, A); F.OP(X, X, B, X); emit(kind, #OP, "rac", cs, e, show(F, X));                                    \
        F.OP(R, A, A, A); e = show(F, R);                                                                               \
        F.assign(X, A); F.OP(X, X, X, X); emit(kind, #OP, "rabc", cs, e, show(F, X));
        TER(axpy) TER(axmy) TER(maxpy)
        F.neg(R, A); e = show(F, R);
        F.assign(X, A); F.neg(X, X); emit(kind, "neg", "ra", cs, e, show(F, X));
        if (!F.isZero(A)) {
            F.inv(R, A); e = show(F, R);
            F.assign(X, A); F.inv(X, X); emit(kind, "inv", "ra", cs, e, show(F, X));
        }
        // in-place forms with the operand being the destination itself: x op= x
#define INPL(OP, REF)                                                                                                  \
        F.REF(R, A, A); e = show(F, R);                                                                                 \
        F.assign(X, A); F.OP(X, X); emit(kind, #OP, "rr", cs, e, show(F, X));
        INPL(addin, add) INPL(subin, sub) INPL(mulin, mul)
        if (!F.isZero(A)) { INPL(divin, div) }
        F.axpy(R, A, A, A); e = show(F, R);
        F.assign(X, A); F.axpyin(X, X, X); emit(kind, "axpyin", "rab", cs, e, show(F, X));
        F.maxpy(R, A, A, A); e = show(F, R);
        F.assign(X, A); F.maxpyin(X, X, X); emit(kind, "maxpyin", "rab", cs, e, show(F, X));
        F.axmy(R, A, A, A); e = show(F, R);
        F.assign(X, A); F.axmyin(X, X, X); emit(kind, "axmyin", "rab", cs, e, show(F, X));
    }
}

// ---- polynomial interface ----------------------------------------------------------------------------------------------------
template <class PD>
static void alias_poly(const std::string& kind, const PD& P, vp::Rng& rng, int ncases) {
    typedef typename PD::Element Pol;
    const typename PD::Domain_t& F = P.getdomain();
    for (int cs = 0; cs < ncases; ++cs) {
        Pol A, B, C, R, Q, X, Y;
        const int dA = int(rng.below(7)), dB = int(rng.below(5)), dC = int(rng.below(4));
        typename PD::Type_t c;
        P.init(A, Degree(dA)); P.init(B, Degree(dB)); P.init(C, Degree(dC));
        for (int i = 0; i <= dA; ++i) { F.init(c, Integer(uint64_t(rng.below(97)))); A[size_t(i)] = c; }
        for (int i = 0; i <= dB; ++i) { F.init(c, Integer(uint64_t(rng.below(97)))); B[size_t(i)] = c; }
        for (int i = 0; i <= dC; ++i) { F.init(c, Integer(uint64_t(rng.below(97)))); C[size_t(i)] = c; }
        F.init(c, Integer(1)); A[size_t(dA)] = c; B[size_t(dB)] = c; C[size_t(dC)] = c;     // monic: degrees as drawn, non-zero
        std::string e;
#define PBIN(OP)                                                                                                       \
        P.OP(R, A, B); e = show(P, R);                                                                                  \
        P.assign(X, A); P.OP(X, X, B); emit(kind, #OP, "ra", cs, e, show(P, X));                                        \
        P.assign(X, B); P.OP(X, A, X); emit(kind, #OP, "rb", cs, e, show(P, X));                                        \
        P.OP(R, A, A); e = show(P, R);                                                                                  \
        P.assign(X, A); P.OP(X, X, X); emit(kind, #OP, "rab", cs, e, show(P, X));
        PBIN(add) PBIN(sub) PBIN(mul) PBIN(div) PBIN(mod) PBIN(gcd)
        // divmod(Q, R, A, B)
        P.divmod(Q, R, A, B); e = show(P, Q) + " ; " + show(P, R);
        P.assign(X, A); P.divmod(X, Y, X, B); emit(kind, "divmod", "qa", cs, e, show(P, X) + " ; " + show(P, Y));
        P.assign(Y, B); P.divmod(X, Y, A, Y); emit(kind, "divmod", "rb", cs, e, show(P, X) + " ; " + show(P, Y));
        P.assign(X, B); P.divmod(X, Y, A, X); emit(kind, "divmod", "qb", cs, e, show(P, X) + " ; " + show(P, Y));
        P.assign(Y, A); P.divmod(X, Y, Y, B); emit(kind, "divmod", "ra", cs, e, show(P, X) + " ; " + show(P, Y));
        // axpy(R, A, X, Y) = A*X + Y   and relatives
#define PTER(OP)                                                                                                       \
        P.OP(R, A, B, C); e = show(P, R);                                                                               \
        P.assign(X, A); P.OP(X, X, B, C); emit(kind, #OP, "ra", cs, e, show(P, X));                                     \
        P.assign(X, B); P.OP(X, A, X, C); emit(kind, #OP, "rb", cs, e, show(P, X));                                     \
        P.assign(X, C); P.OP(X, A, B, X); emit(kind, #OP, "rc", cs, e, show(P, X));
        PTER(axpy) PTER(axmy) PTER(maxpy)
        P.neg(R, A); e = show(P, R);
        P.assign(X, A); P.neg(X, X); emit(kind, "neg", "ra", cs, e, show(P, X));
        P.sqr(R, A); e = show(P, R);
        P.assign(X, A); P.sqr(X, X); emit(kind, "sqr", "ra", cs, e, show(P, X));
        // in-place forms with themselves
        P.add(R, A, A); e = show(P, R); P.assign(X, A); P.addin(X, X); emit(kind, "addin", "rr", cs, e, show(P, X));
        P.sub(R, A, A); e = show(P, R); P.assign(X, A); P.subin(X, X); emit(kind, "subin", "rr", cs, e, show(P, X));
        P.mul(R, A, A); e = show(P, R); P.assign(X, A); P.mulin(X, X); emit(kind, "mulin", "rr", cs, e, show(P, X));
    }
}

// ---- rationals through their operators ---------------------------------------------------------------------------------------
static void alias_rational(const std::string& kind, const std::vector<Integer>& vals) {
    int cs = 0;
    auto sh = [](const Rational& r) { std::ostringstream os; os << r.nume() << "/" << r.deno(); return os.str(); };
    for (size_t i = 0; i + 1 < vals.size(); ++i, ++cs) {
        if (vals[i + 1] == 0) continue;
        const Rational A(vals[i], vals[i + 1]);
        Rational X, R;
        R = A + A; X = A; X += X; emit(kind, "op+=", "rr", cs, sh(R), sh(X));
        R = A - A; X = A; X -= X; emit(kind, "op-=", "rr", cs, sh(R), sh(X));
        R = A * A; X = A; X *= X; emit(kind, "op*=", "rr", cs, sh(R), sh(X));
        if (!isZero(A)) { R = A / A; X = A; X /= X; emit(kind, "op/=", "rr", cs, sh(R), sh(X)); }
        X = A; X = X + X; emit(kind, "x=x+x", "rab", cs, sh(A + A), sh(X));
        X = A; X = X * X; emit(kind, "x=x*x", "rab", cs, sh(A * A), sh(X));
    }
}

int main(int argc, char** argv) {
    std::string tier = argc > 1 ? argv[1] : "quick";
    uint64_t seed = argc > 2 ? strtoull(argv[2], nullptr, 10) : 1;
    std::string only = argc > 3 ? argv[3] : "";
    vp::Rng rng(seed * 1000003 + 5);
    std::vector<Integer> vals = {Integer(7), Integer(5), Integer(1000003), Integer(2), Integer(3), Integer(1), Integer(100), Integer(-3),
                                 Integer(65520), Integer(13), Integer(1), Integer(1), Integer(1), Integer(0), Integer(9), Integer(4)};
    const int nrand = tier == "thorough" ? 400 : 24;
    for (int i = 0; i < nrand; ++i) vals.push_back(Integer(uint64_t(rng.next() >> (rng.below(60)))));
    setvbuf(stdout, nullptr, _IOLBF, 0);
#define RING(NAME, ...) if (only.empty() || only == NAME) { __VA_ARGS__ F_; alias_ring(NAME, F_, vals); }
#define RINGP(NAME, TYPE, ...) if (only.empty() || only == NAME) { TYPE F_(__VA_ARGS__); alias_ring(NAME, F_, vals); }
    RINGP("Modular_int32", Modular<int32_t>, 65521)
    RINGP("Modular_uint32", Modular<uint32_t>, 65521u)
    RINGP("Modular_int64", Modular<int64_t>, int64_t(2147483647))
    RINGP("Modular_uint64", Modular<uint64_t>, uint64_t(4294967291u))
    RINGP("Modular_int16", Modular<int16_t>, int16_t(181))
    RINGP("Modular_double", Modular<double>, 67108859.)
    RINGP("Modular_float", Modular<float>, 4093.f)
    RINGP("Modular_Integer", Modular<Integer>, Integer("1267650600228229401496703205653"))
    RINGP("Modular_Log16", Modular<Log16>, 1009)
    RINGP("Modular_ruint7", Modular<RecInt::ruint<7>>, RecInt::ruint<7>(4294967291u))
    if (only.empty() || only == "Modular_ruint7_8") { Modular<RecInt::ruint<7>, RecInt::ruint<8>> F_(RecInt::ruint<7>(4294967291u)); alias_ring("Modular_ruint7_8", F_, vals); }
    RINGP("ModularBalanced_int32", ModularBalanced<int32_t>, 65521)
    RINGP("ModularBalanced_int64", ModularBalanced<int64_t>, int64_t(2147483647))
    RINGP("ModularBalanced_double", ModularBalanced<double>, 67108859.)
    RINGP("ModularBalanced_float", ModularBalanced<float>, 4093.f)
    RINGP("ModularExtended_double", ModularExtended<double>, 1125899906842597.)
    RINGP("Montgomery_int32", Montgomery<int32_t>, 40499)
    RINGP("Montgomery_ruint7", Montgomery<RecInt::ruint<7>>, RecInt::ruint<7>(4294967291u))
    if (only.empty() || only == "QField_Rational") { QField<Rational> F_; alias_ring("QField_Rational", F_, vals); }
    if (only.empty() || only == "GFqDom_int32") { GFqDom<int32_t> F_(3u, 4u, std::vector<GFqDom<int32_t>::Residu_t>{2, 1, 0, 0, 1}); alias_ring("GFqDom_int32", F_, vals); }
    if (only.empty() || only == "Extension_GFq") {
        typedef GFqDom<int32_t> B; typedef Poly1Dom<B, Dense> P;
        B base(3, 1); P pd(base, Indeter("Y")); P::Element irr; B::Element e;
        const int c3[] = {2, 1, 0, 0, 1};
        pd.init(irr, Degree(4));
        for (int j = 0; j < 5; ++j) { base.init(e, Integer(c3[j])); irr[size_t(j)] = e; }
        Extension<B> F_(pd, irr);
        alias_ring("Extension_GFq", F_, vals);
    }
    const int npoly = tier == "thorough" ? 400 : 40;
    if (only.empty() || only == "Poly1Dom_Modular_int32") { Modular<int32_t> F(101); Poly1Dom<Modular<int32_t>, Dense> P(F, Indeter("X")); alias_poly("Poly1Dom_Modular_int32", P, rng, npoly); }
    if (only.empty() || only == "Poly1Dom_QField") { QField<Rational> F; Poly1Dom<QField<Rational>, Dense> P(F, Indeter("X")); alias_poly("Poly1Dom_QField", P, rng, npoly / 4); }
    if (only.empty() || only == "Rational_ops") alias_rational("Rational_ops", vals);
    return 0;
}
