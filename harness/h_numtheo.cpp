// Correspondence harness for C13: calls IntNumTheoDom / IntSqrtModDom and the number-theoretic
// free functions of gmp++ in-process and prints `key args… = results…` (hex).
//   h_numtheo <tier> <seed> [group]  generates its own structured cases (every random choice from the seed)
//   every case runs under a watchdog (C13_CASE_TIMEOUT seconds, default 10): a hang is reported as `… = TIMEOUT`
//   h_numtheo … < lines         runs exactly the given `key args…` lines (replay)
#include "proto.h"
#include <gmp++/gmp++.h>
#include <givaro/givinteger.h>
#include <givaro/givintnumtheo.h>
#include <givaro/givintsqrootmod.h>
#include <algorithm>
#include <list>
#include <set>
#include <fstream>
#include <cstring>
#include <signal.h>
#include <unistd.h>

using namespace Givaro;

static Integer fromHex(const std::string& s) {
    Integer r;
    mpz_set_str(r.get_mpz(), s.c_str(), 16);
    return r;
}
static std::string H(const Integer& x) { return vp::hex(x.get_mpz_const()); }
static std::string H(long long x) { return vp::hex_ll(x); }

// the generators use GMP directly, never the library under test
static int gj(const Integer& a, const Integer& n) { return mpz_jacobi(a.get_mpz_const(), n.get_mpz_const()); }

static IntNumTheoDom<>* NT;
static IntSqrtModDom<>* SQ;

// ------------------------------------------------------------------------------------------ one case
static bool small_prime(uint64_t n) {
    if (n < 2) return false;
    for (uint64_t d = 2; d * d <= n; ++d) if (n % d == 0) return false;
    return true;
}

static void run_case(const std::vector<std::string>& tok) {
    vp::Args a;
    a.tok = tok;
    const std::string& k = tok[0];
    auto Z = [&](size_t i) { return fromHex(a.s(i)); };
    std::string out;
    auto add = [&](const std::string& s) { if (!out.empty()) out += ' '; out += s; };
    try {
        if (k == "phi") { Integer r; NT->phi(r, Z(0)); add(H(r)); }
        else if (k == "phil") {
            std::list<Integer> Lf;
            for (size_t i = 1; i < a.n(); ++i) Lf.push_back(Z(i));
            Integer r; NT->phi(r, Lf, Z(0)); add(H(r));
        }
#ifndef C13_SKIP_UNINSTANTIABLE
        else if (k == "mobius") { add(H((long long)NT->mobius(Z(0)))); }
        else if (k == "priminv") { Integer r; NT->prim_inv(r, Z(0)); add(H(r)); }
        else if (k == "lambdapp") { Integer r; NT->lambda_primpow(r, Z(0), (uint64_t)a.W(1)); add(H(r)); }
#else   // these member templates do not instantiate on this tree (the check reports it); keep the rest running
        else if (k == "mobius" || k == "priminv" || k == "lambdapp") { add("NOINST"); }
#endif
        else if (k == "order") { Integer r; NT->order(r, Z(0), Z(1)); add(H(r)); }
        else if (k == "isorder") { add(H((long long)NT->isorder(Z(0), Z(1), Z(2)))); }
        else if (k == "isprimroot") { add(H((long long)NT->is_prim_root(Z(0), Z(1)))); }
        else if (k == "lowprimroot") { Integer r; NT->lowest_prim_root(r, Z(0)); add(H(r)); }
        else if (k == "primroot") { Integer r; NT->prim_root(r, Z(0)); add(H(r)); }
        else if (k == "primrootpk") {       // prim_root(p^k) / prim_root(2 p^k); the further arguments (prime factors of phi(n)) are for the driver
            Integer n; pow(n, Z(0), (uint64_t)a.W(1));
            if (a.W(2)) n *= 2;
            Integer r; NT->prim_root(r, n); add(H(r));
        }
        else if (k == "primrootp") { Integer r; NT->prim_root_of_prime(r, Z(0)); add(H(r)); }
        else if (k == "probprimroot") { Integer r; double e; NT->probable_prim_root(r, e, Z(0)); add(H(r)); }
        else if (k == "primelem") { Integer r; NT->prim_elem(r, Z(0)); add(H(r)); }
        else if (k == "lambda") { Integer r; NT->lambda(r, Z(0)); add(H(r)); }
        else if (k == "lambdainv") { Integer r; NT->lambda_inv(r, Z(0)); add(H(r)); }
        else if (k == "lambdainvpp") { Integer r; NT->lambda_inv_primpow(r, Z(0), (uint64_t)a.W(1)); add(H(r)); }
        else if (k == "jacobi") { add(H((long long)jacobi(Z(0), Z(1)))); }
        else if (k == "legendre") { add(H((long long)legendre(Z(0), Z(1)))); }
        else if (k == "kronecker") { add(H((long long)kronecker(Z(0), Z(1)))); }
        else if (k == "isqrt") { Integer q; sqrt(q, Z(0)); add(H(q)); }
        else if (k == "sqrtrem") { Integer q, r; sqrtrem(q, Z(0), r); add(H(q)); add(H(r)); }
        else if (k == "root") { Integer q; bool e = root(q, Z(0), (uint32_t)a.W(1)); add(H(q)); add(H((long long)e)); }
        else if (k == "logp") { add(H((long long)logp(Z(0), Z(1)))); }
        else if (k == "sqrtp") { Integer x; SQ->sqrootmodprime(x, Z(0), Z(1)); add(H(x)); }
        else if (k == "sqrtpk") {
            Integer p = Z(1), pk; uint64_t e = a.W(2);
            pow(pk, p, e);
            Integer x; SQ->sqrootmodprimepower(x, Z(0), p, e, pk); add(H(x));
        }
        else if (k == "sqrt2k") {
            uint64_t e = a.W(1);
            Integer pk(1); pk <<= e;
            Integer x; SQ->sqrootmodpoweroftwo(x, Z(0), e, pk); add(H(x));
        }
        else if (k == "sqrtn") { Integer x; SQ->sqrootmod(x, Z(0), Z(1)); add(H(x)); }
        else if (k == "brillhart") { Integer x, y; SQ->Brillhart(x, y, Z(0)); add(H(x)); add(H(y)); }
        else if (k == "sosq") { Integer x, y; SQ->sumofsquaresmodprime(x, y, Z(0), Z(1)); add(H(x)); add(H(y)); }
        else if (k == "sosqmc") { Integer x, y; SQ->sumofsquaresmodprimeMonteCarlo(x, y, Z(0), Z(1)); add(H(x)); add(H(y)); }
        else if (k == "sosqnoerh") { Integer x, y; SQ->sumofsquaresmodprimeNoERH(x, y, Z(0), Z(1)); add(H(x)); add(H(y)); }
        else if (k == "sosqnr") { Integer x, y; SQ->sumofsquaresmodprimewithnonresidue(x, y, Z(0), Z(1), Z(2)); add(H(x)); add(H(y)); }
        else if (k == "selftest_hang") { for (;;) pause(); }      // watchdog self-test (never generated)
        else if (k == "selftest_abort") { abort(); }
        else out = "NOFUNC";
    } catch (...) {
        out = "EXC";
    }
    vp::emit(a, out);
    fflush(stdout);
}

// ------------------------------------------------------------------------------------------ generators
static std::vector<std::vector<std::string>> CASES;
static void C(std::initializer_list<std::string> l) { CASES.emplace_back(l); }
static void CV(const std::vector<std::string>& l) { CASES.push_back(l); }

struct Gen {
    vp::Rng rng;
    bool thorough;
    explicit Gen(uint64_t seed, bool th) : rng(seed * 0x9E3779B97F4A7C15ULL + 12345), thorough(th) {}

    Integer bits(unsigned b) {            // uniform in [0, 2^b)
        Integer r(0);
        for (unsigned i = 0; i < (b + 63) / 64; ++i) { r <<= (uint64_t)64; r += Integer((uint64_t)rng.next()); }
        Integer m(1); m <<= (uint64_t)b;
        Integer::modin(r, m);
        return r;
    }
    Integer exact_bits(unsigned b) {      // top bit set
        Integer r = bits(b - 1), m(1);
        m <<= (uint64_t)(b - 1);
        return r + m;
    }
    Integer below(const Integer& n) { Integer r = bits((unsigned)n.bitsize() + 16); Integer::modin(r, n); return r; }
    Integer prime_class(unsigned b, unsigned c, unsigned mod) {      // a prime = c (mod `mod`) of about b bits
        Integer p = exact_bits(b);
        Integer r; Integer::mod(r, p, (uint64_t)mod);
        p -= r; p += Integer((uint64_t)c);
        while (!mpz_probab_prime_p(p.get_mpz_const(), 30)) p += Integer((uint64_t)mod);
        return p;
    }
    Integer any_prime(unsigned b) { return prime_class(b, 1 + 2 * (unsigned)rng.below(8), 16); }
    Integer residue(const Integer& n) { Integer y = below(n); y *= y; Integer::modin(y, n); return y; }
    Integer nonresidue_prime(const Integer& p) {
        for (;;) { Integer a = below(p); if (gj(a, p) == -1) return a; }
    }
};

static std::vector<std::pair<uint64_t, unsigned>> factor_small(uint64_t n) {
    std::vector<std::pair<uint64_t, unsigned>> f;
    for (uint64_t d = 2; d * d <= n; ++d)
        if (n % d == 0) { unsigned e = 0; while (n % d == 0) { n /= d; ++e; } f.push_back({d, e}); }
    if (n > 1) f.push_back({n, 1});
    return f;
}
// n in {2, 4, p^m, 2 p^m}
static bool has_prim_root(uint64_t n) {
    if (n == 2 || n == 4) return true;
    if (n < 2 || n % 4 == 0) return false;
    if (n % 2 == 0) n /= 2;
    auto f = factor_small(n);
    return f.size() == 1 && f[0].first != 2;
}

static void gen_numtheo(Gen& g) {
    const uint64_t N = 4096;
    const bool T = g.thorough;
    // --- every modulus up to N against the brute-force definitions
    for (uint64_t n = 1; n <= N; ++n) {
        C({"phi", H((long long)n)});
        C({"mobius", H((long long)n)});
        if (n >= 2) {
            C({"lambda", H((long long)n)});
            C({"lambdainv", H((long long)n)});
        }
        if (n >= 2 && (n <= (T ? 2000u : 500u) || has_prim_root(n))) C({"lowprimroot", H((long long)n)});
        if (has_prim_root(n)) C({"primroot", H((long long)n)});
        if (small_prime(n) && n > 2 && (T || n % 3 != 0 || true)) {
            C({"primrootp", H((long long)n)});
            if (T || g.rng.below(3) == 0) C({"probprimroot", H((long long)n)});
        }
        if (n >= 2 && n <= (T ? 1300u : 400u)) {
            C({"priminv", H((long long)n)});
            C({"primelem", H((long long)n)});
        }
    }
    C({"phi", "0"}); C({"phi", "-5"});
    // prim_root where the candidate found modulo p is NOT a primitive root modulo p^2 (5 modulo 40487, 14-free small cases do not exist
    // below 4096): exercises the `A += p` correction and the 2p^k adjustment; judged by the criterion of is_prim_root_iff
    // The pairs (p, g) with g the root the search returns and g^(p-1) = 1 (mod p^2): below 10^7 only (40487, 5) (computed with the
    // model: the base-2/3/6 Wieferich primes 1093, 3511, 11, 1006003, 66161, 534851, 3152573 and 20771 (base 5) get another root);
    // the next one is (6692367337, 5).  k = 1..5 and the forms p^k, 2p^k.  k >= 3 distinguishes "modulo p^2" from "modulo p^k".
    for (uint64_t pp : {40487ULL, 6692367337ULL}) {
        std::vector<std::string> fl;                       // prime factors of p-1 (trial division)
        for (auto& pe : factor_small(pp - 1)) fl.push_back(H((long long)pe.first));
        for (unsigned k = 1; k <= 5; ++k)
            for (int two = 0; two < 2; ++two) {
                Integer n; pow(n, Integer((uint64_t)pp), (uint64_t)k);
                if (two) n *= 2;
                if (pp < 1000000) C({"primroot", H(n)});   // small enough for the model's own trial-division factor lists
                std::vector<std::string> l = {"primrootpk", H((long long)pp), H((long long)k), two ? "1" : "0"};
                l.insert(l.end(), fl.begin(), fl.end());
                if (k > 1) l.push_back(H((long long)pp));
                CV(l);
            }
    }
    // --- order / is_prim_root / isorder
    for (uint64_t n = 2; n <= N; ++n) {
        if (!T && n > 768 && g.rng.below(4) != 0) continue;
        std::set<long long> as = {0, 1, 2, 3, (long long)n - 1, (long long)n / 2, (long long)n / 2 + 1,
                                  (long long)g.rng.below(n), (long long)g.rng.below(n)};
        if (g.rng.below(8) == 0) { as.insert(-(long long)g.rng.below(n) - 1); as.insert((long long)(n + 1 + g.rng.below(3 * n))); }
        for (long long x : as) {
            C({"order", H(x), H((long long)n)});
            if (T || g.rng.below(2) == 0) C({"isprimroot", H(x), H((long long)n)});
        }
        // isorder with the true order (computed here by brute force), a divisor and a multiple of it
        long long x = 2 + (long long)g.rng.below(n);
        uint64_t cur = x % n, ord = 0;
        for (uint64_t i = 1; i <= n; ++i) { if (cur == 1 % n) { ord = i; break; } cur = cur * (x % n) % n; }
        if (ord) {
            C({"isorder", H((long long)ord), H(x), H((long long)n)});
            C({"isorder", H((long long)ord * 2), H(x), H((long long)n)});
            if (ord > 1) C({"isorder", H((long long)(ord % 2 == 0 ? ord / 2 : ord - 1)), H(x), H((long long)n)});
        } else C({"isorder", "1", H(x), H((long long)n)});
    }
    // --- phi with a given factor list, large n
    for (int it = 0; it < (T ? 400 : 80); ++it) {
        unsigned nf = 1 + (unsigned)g.rng.below(4);
        std::vector<Integer> ps;
        Integer n(1);
        for (unsigned i = 0; i < nf; ++i) {
            Integer p = (g.rng.below(3) == 0) ? Integer((uint64_t)(i == 0 ? 2 : 3 + 2 * i)) : g.any_prime(8 + (unsigned)g.rng.below(120));
            if (std::find(ps.begin(), ps.end(), p) != ps.end()) continue;
            ps.push_back(p);
            unsigned e = 1 + (unsigned)g.rng.below(g.rng.below(4) == 0 ? 12 : 3);
            for (unsigned j = 0; j < e; ++j) n *= p;
        }
        for (size_t i = ps.size(); i > 1; --i) std::swap(ps[i - 1], ps[g.rng.below(i)]);
        std::vector<std::string> l = {"phil", H(n)};
        for (auto& p : ps) l.push_back(H(p));
        CV(l);
    }
    for (int it = 0; it < (T ? 300 : 60); ++it) C({"phi", H(g.bits(13 + (unsigned)g.rng.below(20)) + 1)});
    // --- lambda on prime powers
    for (uint64_t p : {2u, 3u, 5u, 7u, 11u, 13u, 31u, 37u})
        for (unsigned e = 1; e <= 12; ++e) {
            double pe = 1; for (unsigned j = 0; j < e; ++j) pe *= (double)p;
            if (pe > 1300 && !(e <= 3 || p <= 3)) continue;
            C({"lambdapp", H((long long)p), H((long long)e)});
            C({"lambdainvpp", H((long long)p), H((long long)e)});
        }
    for (unsigned e : {13u, 31u, 32u, 33u, 63u, 64u, 65u, 100u}) {
        C({"lambdapp", "2", H((long long)e)}); C({"lambdainvpp", "2", H((long long)e)});
        C({"lambdapp", "3", H((long long)e)}); C({"lambdainvpp", "3", H((long long)e)});
    }
    for (int it = 0; it < 40; ++it) C({"lambdainv", H(g.bits(13 + (unsigned)g.rng.below(18)) + 2)});
    for (int it = 0; it < 40; ++it) C({"lambda", H(g.bits(13 + (unsigned)g.rng.below(18)) + 2)});
}

static void gen_symbols(Gen& g) {
    const bool T = g.thorough;
    for (uint64_t n = 1; n <= 4096; n += 2) {
        if (!T && n > 200 && g.rng.below(4) != 0) continue;
        std::set<long long> as = {0, 1, 2, -1, -2, (long long)n - 1, (long long)n, (long long)n + 1, (long long)n / 2};
        for (int i = 0; i < (T ? 8 : 4); ++i) as.insert((long long)g.rng.below(3 * n) - (long long)n);
        if (n <= 64) for (long long x = 0; x < (long long)n; ++x) as.insert(x);
        for (long long x : as) {
            C({"jacobi", H(x), H((long long)n)});
            if (small_prime(n)) C({"legendre", H(x), H((long long)n)});
        }
    }
    for (long long n = -40; n <= 40; ++n)
        for (long long x = -20; x <= 20; ++x) C({"kronecker", H(x), H(n)});
    // moduli around the machine-word boundaries (single-limb v >= 2^63 does not fit a signed long; 2^31, 2^32, 2^64 likewise)
    for (unsigned sh : {31u, 32u, 63u, 64u, 65u, 127u, 128u}) {
        Integer base(1); base <<= (uint64_t)sh;
        std::vector<Integer> ns;
        for (int d = -9; d <= 9; d += 2) ns.push_back(base + d);          // odd numbers around 2^sh
        for (unsigned c = 1; c < 16; c += 6) ns.push_back(g.prime_class(sh + 1, c, 16));   // primes in [2^sh, 2^(sh+1))
        { Integer pr = base; do { pr -= 1; } while (!mpz_probab_prime_p(pr.get_mpz_const(), 30)); ns.push_back(pr); }   // largest prime below 2^sh
        for (auto& n : ns) {
            bool isp = mpz_probab_prime_p(n.get_mpz_const(), 30) != 0;
            std::vector<Integer> xs = {Integer(0), Integer(1), Integer(2), Integer(-1), Integer(3), Integer(5), n - 1, n + 2, g.below(n), g.below(n), -g.below(n), g.residue(n)};
            for (auto& x : xs) {
                C({"jacobi", H(x), H(n)});
                C({"kronecker", H(x), H(n)});
                C({"kronecker", H(x), H(-n)});
                if (isp) C({"legendre", H(x), H(n)});
            }
        }
    }
    for (int it = 0; it < (T ? 600 : 150); ++it) {
        unsigned b = 20 + (unsigned)g.rng.below(300);
        Integer n = g.bits(b); if (!isOdd(n)) n += 1;
        Integer x = g.bits(b + 8) - g.bits(b);
        C({"jacobi", H(x), H(n)});
        C({"kronecker", H(x), H(g.bits(b) - g.bits(b))});
        Integer p = g.any_prime(b);
        C({"legendre", H(g.below(p)), H(p)});
        C({"legendre", H(g.residue(p)), H(p)});
        C({"legendre", H(p * g.bits(20)), H(p)});
    }
}

static void gen_roots(Gen& g) {
    const bool T = g.thorough;
    std::vector<Integer> qs;
    for (long long q = 0; q <= 40; ++q) qs.push_back(Integer((int64_t)q));
    for (unsigned s : {15u, 16u, 31u, 32u, 33u, 53u, 63u, 64u, 65u, 127u, 128u, 200u}) {
        Integer q(1); q <<= (uint64_t)s;
        qs.push_back(q - 1); qs.push_back(q); qs.push_back(q + 1);
    }
    for (int i = 0; i < (T ? 200 : 40); ++i) qs.push_back(g.bits(1 + (unsigned)g.rng.below(300)));
    for (auto& q : qs) {
        for (int d = -1; d <= 1; ++d) {
            Integer a = q * q + d;
            if (a < 0) continue;
            C({"isqrt", H(a)});
            C({"sqrtrem", H(a)});
        }
        C({"isqrt", H(q)});
        for (unsigned n : {1u, 2u, 3u, 5u, 7u, 10u, 64u}) {
            if (q.bitsize() * n > 6000) continue;
            Integer a; pow(a, q, (uint64_t)n);
            for (int d = -1; d <= 1; ++d) if (a + d >= 0) C({"root", H(a + d), H((long long)n)});
        }
        C({"root", H(q), "3"});
    }
    // logp: boundaries of every power
    std::vector<Integer> ps = {Integer(2), Integer(3), Integer(7), Integer(10), Integer(255), Integer(65536)};
    { Integer t(1); t <<= (uint64_t)32; ps.push_back(t - 1); ps.push_back(t); t <<= (uint64_t)32; ps.push_back(t); ps.push_back(t + 1); }
    for (int i = 0; i < (T ? 30 : 6); ++i) ps.push_back(g.bits(2 + (unsigned)g.rng.below(100)) + 2);
    for (auto& p : ps) {
        Integer pw(1);
        for (unsigned j = 0; j <= 40; ++j) {
            for (int d = -1; d <= 1; ++d) if (pw + d >= 1) C({"logp", H(pw + d), H(p)});
            pw *= p;
            if (pw.bitsize() > 5000) break;
        }
        for (int i = 0; i < 6; ++i) C({"logp", H(g.bits(1 + (unsigned)g.rng.below(400)) + 1), H(p)});
    }
}

static void gen_sqrt(Gen& g) {
    const bool T = g.thorough;
    // --- primes: every small prime, every residue class mod 16 for multi-limb primes
    for (uint64_t p = 2; p <= (T ? 2000u : 500u); ++p) {
        if (!small_prime(p)) continue;
        if (p <= 130 || T) { for (uint64_t x = 0; x < p; ++x) if (p <= 130 || g.rng.below(8) == 0 || x < 3) C({"sqrtp", H((long long)x), H((long long)p)}); }
        for (int i = 0; i < 6; ++i) C({"sqrtp", H((long long)g.rng.below(p)), H((long long)p)});
        C({"sqrtp", H(-(long long)g.rng.below(p) - 1), H((long long)p)});
        C({"sqrtp", H((long long)(p + g.rng.below(5 * p))), H((long long)p)});
        if (p % 4 == 1) C({"brillhart", H((long long)p)});
        for (int i = 0; i < (p <= 60 ? (int)p : 4); ++i) {
            long long kk = p <= 60 ? i : (long long)g.rng.below(p);
            C({"sosq", H(kk), H((long long)p)});
            if (T || i < 2) { C({"sosqmc", H(kk), H((long long)p)}); if (p > 2) C({"sosqnoerh", H(kk), H((long long)p)}); }
        }
        if (p > 2) {
            C({"sosq", H(-(long long)g.rng.below(p)), H((long long)p)});
            // s non-residue with s-1 a residue
            // s non-residue with s-1 a residue, k a non-residue (the documented calling context)
            for (uint64_t s = 2; s < p; ++s)
                if (gj(Integer((uint64_t)s), Integer((uint64_t)p)) == -1 && gj(Integer((uint64_t)(s - 1)), Integer((uint64_t)p)) == 1) {
                    for (int i = 0; i < 3; ++i) {
                        uint64_t kk = 1 + g.rng.below(p - 1);
                        while (gj(Integer((uint64_t)kk), Integer((uint64_t)p)) != -1) kk = 1 + kk % (p - 1);
                        C({"sosqnr", H((long long)kk), H((long long)s), H((long long)p)});
                    }
                    if (g.rng.below(2) == 0) break;
                }
        }
    }
    const unsigned sizes[] = {33, 64, 65, 97, 128, 129, 192, 257, 521};
    for (unsigned c = 1; c < 16; c += 2)
        for (unsigned b : sizes) {
            if (!T && (b == 97 || b == 192 || b == 521 || b == 129)) continue;
            for (int rep = 0; rep < (T ? 3 : 1); ++rep) {
                Integer p = g.prime_class(b, c, 16);
                for (int i = 0; i < 3; ++i) C({"sqrtp", H(g.residue(p)), H(p)});
                C({"sqrtp", H(g.nonresidue_prime(p)), H(p)});
                C({"sqrtp", "0", H(p)}); C({"sqrtp", "1", H(p)}); C({"sqrtp", H(p - 1), H(p)});
                C({"sqrtp", "4", H(p)}); C({"sqrtp", "2", H(p)});
                C({"sqrtp", H(g.residue(p) + p * g.bits(10)), H(p)});
                C({"sqrtp", H(g.residue(p) - p * (g.bits(10) + 1)), H(p)});
                if (c % 4 == 1) C({"brillhart", H(p)});
                C({"sosq", H(g.below(p)), H(p)});
                C({"sosq", H(g.nonresidue_prime(p)), H(p)});
                C({"sosqmc", H(g.nonresidue_prime(p)), H(p)});
                if (b <= 129) C({"sosqnoerh", H(g.nonresidue_prime(p)), H(p)});
                C({"sosq", H(-g.below(p)), H(p)});
            }
        }
    // primes with a large 2-part in p-1 (long Tonelli–Shanks chains): p = q 2^e + 1
    // a = -1 and the residues of small 2-power order make the exponent 2^(r-m-1) of the main loop as large as 2^(e-2)
    // (beyond a machine word once e >= 66); the first primes are 3*2^66+1, 5*2^127+1, 3*2^189+1 (q = 1 start below)
    for (unsigned e : {5u, 8u, 16u, 33u, 63u, 64u, 65u, 66u, 67u, 90u, 127u, 130u, 189u}) {
        for (int rep = 0; rep < (T ? 4 : 2); ++rep) {
            Integer q = rep == 0 ? Integer(1) : g.exact_bits(20 + (unsigned)g.rng.below(60));
            if (!isOdd(q)) q += 1;
            Integer p;
            for (;; q += 2) { p = q; p <<= (uint64_t)e; p += 1; if (mpz_probab_prime_p(p.get_mpz_const(), 30)) break; }
            for (int i = 0; i < 3; ++i) C({"sqrtp", H(g.residue(p)), H(p)});
            C({"sqrtp", H(g.nonresidue_prime(p)), H(p)});
            C({"sqrtp", H(p - 1), H(p)});
            C({"sqrtp", "-1", H(p)});
            // residues whose odd-part power has order 2^j, j = 1..4: a = z^(2^(e-j)) with z = nonresidue^q
            { Integer z, nr = g.nonresidue_prime(p); powmod(z, nr, q, p);
              for (unsigned j = 1; j <= 4 && j < e; ++j) {
                  Integer ex(1); ex <<= (uint64_t)(e - j);
                  Integer aa; powmod(aa, z, ex, p);
                  C({"sqrtp", H(aa), H(p)});
                  C({"sqrtp", H((aa * g.residue(p) % p) ), H(p)});
              } }
            C({"brillhart", H(p)});
        }
    }
    // --- prime powers: exhaustive small, structured large
    for (uint64_t p : {3u, 5u, 7u, 11u, 13u, 17u, 41u, 73u, 97u})
        for (unsigned k = 1; k <= 7; ++k) {
            double pk = 1; for (unsigned j = 0; j < k; ++j) pk *= (double)p;
            if (pk > (T ? 20000 : 2500)) break;
            uint64_t PK = (uint64_t)pk;
            for (uint64_t x = 0; x < PK; ++x)
                if (PK <= 800 || x % p == 0 || g.rng.below(PK / 400 + 1) == 0) C({"sqrtpk", H((long long)x), H((long long)p), H((long long)k)});
            C({"sqrtpk", H(-(long long)g.rng.below(PK) - 1), H((long long)p), H((long long)k)});
            C({"sqrtpk", H((long long)(PK + g.rng.below(4 * PK))), H((long long)p), H((long long)k)});
        }
    const unsigned ks[] = {2, 3, 4, 5, 6, 7, 8, 9, 15, 16, 17, 31, 32, 33, 40};
    for (unsigned k : ks)
        for (unsigned c = 1; c < 16; c += 2) {
            if (!T && g.rng.below(3) != 0) continue;
            unsigned b = (g.rng.below(3) == 0) ? 3 + (unsigned)g.rng.below(10) : 20 + (unsigned)g.rng.below(110);
            Integer p = g.prime_class(b, c, 16);
            if (p < 3) continue;
            Integer pk; pow(pk, p, (uint64_t)k);
            std::string sp = H(p), sk = H((long long)k);
            for (int i = 0; i < 2; ++i) {
                Integer y = g.below(pk); if (y % p == 0) y += 1;
                Integer a = y * y; Integer::modin(a, pk);
                C({"sqrtpk", H(a), sp, sk});
            }
            // unit non-residue
            { Integer nr = g.nonresidue_prime(p); nr += p * g.below(pk / p); C({"sqrtpk", H(nr), sp, sk}); }
            // a = p^t b for every parity of t, b residue / non-residue
            for (unsigned t = 1; t < k && t <= 6; ++t) {
                Integer pt; pow(pt, p, (uint64_t)t);
                Integer y = g.below(pk); if (y % p == 0) y += 1;
                Integer b1 = y * y; Integer::modin(b1, pk / pt);
                if (b1 % p == 0) b1 += 1;
                C({"sqrtpk", H(b1 * pt), sp, sk});
                Integer b2 = g.nonresidue_prime(p);
                C({"sqrtpk", H(b2 * pt), sp, sk});
            }
            if (k > 8) {
                unsigned t = k - 1 - (unsigned)g.rng.below(3);
                Integer pt; pow(pt, p, (uint64_t)t);
                C({"sqrtpk", H(pt), sp, sk});
                C({"sqrtpk", H(pt * g.nonresidue_prime(p)), sp, sk});
            }
            C({"sqrtpk", "0", sp, sk}); C({"sqrtpk", "1", sp, sk}); C({"sqrtpk", H(pk - 1), sp, sk});
            C({"sqrtpk", H(pk), sp, sk});
            { Integer y = g.below(pk); if (y % p == 0) y += 1; Integer a = y * y; Integer::modin(a, pk); C({"sqrtpk", H(a - pk * (g.bits(5) + 1)), sp, sk}); C({"sqrtpk", H(a + pk * (g.bits(5) + 1)), sp, sk}); }
        }
    // --- powers of two
    for (unsigned k = 1; k <= (T ? 13u : 10u); ++k)
        for (uint64_t x = 0; x < (1ULL << k); ++x) C({"sqrt2k", H((long long)x), H((long long)k)});
    for (unsigned k = 1; k <= 260; ++k) {
        // word and double-word boundaries of the exponent (a running power 2^i kept in a machine word wraps exactly there, also when the
        // recursion halves k down to it: 126..130 -> 63..65, 250..257 -> 125..129 -> 62..65), in every tier
        const bool boundary = (k >= 62 && k <= 66) || (k >= 125 && k <= 130) || (k >= 250 && k <= 257) || k == 57 || k == 58 || k == 59 || k == 99 || k == 101;
        if (k > 130 && !boundary) continue;
        if (!T && k > 34 && k % 5 != 0 && !boundary) continue;
        Integer pk(1); pk <<= (uint64_t)k;
        std::string sk = H((long long)k);
        for (int i = 0; i < (k >= 27 && k <= 34 ? 6 : 3); ++i) {
            Integer y = g.below(pk); if (!isOdd(y)) y += 1;
            Integer a = y * y; Integer::modin(a, pk);
            C({"sqrt2k", H(a), sk});
        }
        { Integer a = g.below(pk); a -= a % 8; a += 1; C({"sqrt2k", H(a), sk}); }
        for (unsigned r : {3u, 5u, 7u}) { Integer a = g.below(pk); a -= a % 8; a += r; C({"sqrt2k", H(a), sk}); }
        for (unsigned t = 1; t < k && t <= 8; ++t) {
            Integer y = g.below(pk); if (!isOdd(y)) y += 1;
            Integer b = y * y, m(1); m <<= (uint64_t)(k - t); Integer::modin(b, m);
            Integer a = b; a <<= (uint64_t)t;
            C({"sqrt2k", H(a), sk});
            Integer b2 = g.below(m); if (!isOdd(b2)) b2 += 1; Integer::modin(b2, m);
            Integer a2 = b2; a2 <<= (uint64_t)t;
            C({"sqrt2k", H(a2), sk});
        }
        if (k > 10) { unsigned t = k - 1 - (unsigned)g.rng.below(4); Integer a(1); a <<= (uint64_t)t; C({"sqrt2k", H(a), sk}); Integer a3(3); a3 <<= (uint64_t)(t - 1); C({"sqrt2k", H(a3), sk}); }
        { Integer y = g.below(pk); if (!isOdd(y)) y += 1; Integer a = y * y; Integer::modin(a, pk);
          C({"sqrt2k", H(a - pk * (g.bits(4) + 1)), sk}); C({"sqrt2k", H(a + pk * (g.bits(4) + 1)), sk}); }
        C({"sqrt2k", H(pk - 1), sk}); C({"sqrt2k", H(pk - 7), sk}); C({"sqrt2k", H(pk), sk});
    }
    // --- composite moduli: exhaustive small, structured large (2 to 4 prime-power factors)
    for (uint64_t n = 2; n <= (T ? 1500u : 360u); ++n) {
        auto f = factor_small(n);
        std::vector<std::string> tail;
        for (auto& pe : f) { tail.push_back(H((long long)pe.first)); tail.push_back(H((long long)pe.second)); }
        for (uint64_t x = 0; x < n; ++x) {
            if (n > 120 && g.rng.below(n / 40) != 0) continue;
            std::vector<std::string> l = {"sqrtn", H((long long)x), H((long long)n)};
            l.insert(l.end(), tail.begin(), tail.end());
            CV(l);
        }
    }
    for (int it = 0; it < (T ? 400 : 80); ++it) {
        unsigned nf = 2 + (unsigned)g.rng.below(3);
        std::vector<std::pair<Integer, unsigned>> fs;
        if (g.rng.below(2) == 0) fs.push_back({Integer(2), 1 + (unsigned)g.rng.below(g.rng.below(3) == 0 ? 60 : 6)});
        while (fs.size() < nf) {
            Integer p = g.any_prime(3 + (unsigned)g.rng.below(20));
            bool dup = false;
            for (auto& q : fs) if (q.first == p) dup = true;
            if (dup || p < 3) continue;
            fs.push_back({p, 1 + (unsigned)g.rng.below(g.rng.below(3) == 0 ? 9 : 2)});
        }
        std::sort(fs.begin(), fs.end(), [](const std::pair<Integer, unsigned>& x, const std::pair<Integer, unsigned>& y) { return x.first < y.first; });
        Integer n(1);
        std::vector<std::string> tail;
        for (auto& pe : fs) { Integer q; pow(q, pe.first, (uint64_t)pe.second); n *= q; tail.push_back(H(pe.first)); tail.push_back(H((long long)pe.second)); }
        auto emit1 = [&](const Integer& a) {
            std::vector<std::string> l = {"sqrtn", H(a), H(n)};
            l.insert(l.end(), tail.begin(), tail.end());
            CV(l);
        };
        for (int i = 0; i < 3; ++i) emit1(g.residue(n));
        { Integer y = g.below(n); y *= fs.back().first; Integer a = y * y; Integer::modin(a, n); emit1(a); }
        emit1(g.below(n));
        emit1(Integer(0)); emit1(Integer(1));
        emit1(g.residue(n) - n);
    }
}

// ------------------------------------------------------------------------------------------ per-case watchdog
// A case that does not return within WD_SECS seconds is reported as `key args… = TIMEOUT` and the harness re-executes
// itself to go on with the next case (the cases are regenerated from the seed, or re-read from the replay file).
static char WD_LINE[1 << 16];
static size_t WD_LEN = 0;
static char WD_SKIP[32];
static char WD_EVENTS[32];
static char* WD_ARGV[12];
static void on_alarm(int sig) {
    if (sig != SIGALRM && WD_LEN > 9) memcpy(WD_LINE + WD_LEN - 8, "CRASH  \n", 8);   // abort()/SIGFPE inside the library: same treatment
    ssize_t r = write(1, WD_LINE, WD_LEN); (void)r;
    execv("/proc/self/exe", WD_ARGV);
    _exit(3);
}

int main(int argc, char** argv) {
    // positional: tier seed [group|all] ; options: --skip N  --file PATH
    std::string tier = argc > 1 ? argv[1] : "quick", seeds = argc > 2 ? argv[2] : "1", only = "all", file;
    size_t skip = 0, events = 0;
    int pos = 0;
    for (int i = 1; i < argc; ++i) {
        std::string t = argv[i];
        if (t == "--skip" && i + 1 < argc) skip = strtoull(argv[++i], nullptr, 10);
        else if (t == "--events" && i + 1 < argc) events = strtoull(argv[++i], nullptr, 10);
        else if (t == "--file" && i + 1 < argc) file = argv[++i];
        else { ++pos; if (pos == 3) only = t; }
    }
    uint64_t seed = strtoull(seeds.c_str(), nullptr, 10);
    bool thorough = tier == "thorough";
    unsigned wd_secs = getenv("C13_CASE_TIMEOUT") ? (unsigned)atoi(getenv("C13_CASE_TIMEOUT")) : 10;
    {   // SIGALRM stays blocked across the execv done from the handler: unblock it
        sigset_t m; sigemptyset(&m); sigaddset(&m, SIGALRM); sigaddset(&m, SIGABRT); sigaddset(&m, SIGFPE); sigprocmask(SIG_UNBLOCK, &m, nullptr);
        struct sigaction sa; memset(&sa, 0, sizeof sa); sa.sa_handler = on_alarm;
        sigaction(SIGALRM, &sa, nullptr); sigaction(SIGABRT, &sa, nullptr); sigaction(SIGFPE, &sa, nullptr);
    }
    Integer::seeding((uint64_t)(seed * 7919 + 13));
    IntNumTheoDom<> nt(GivRandom(seed * 2 + 101));
    IntSqrtModDom<> sq(GivRandom(seed * 2 + 103));
    NT = &nt; SQ = &sq;

    bool own_file = false;
    if (!file.empty()) {                       // resumed replay
        std::ifstream in(file);
        vp::Args a;
        while (vp::read_line(in, a)) CASES.push_back(a.tok);
    } else {
        // replay mode: lines on stdin
        vp::Args a;
        while (vp::read_line(std::cin, a)) CASES.push_back(a.tok);
        if (!CASES.empty()) {
            file = "/tmp/h_numtheo_" + std::to_string((long)getpid()) + ".lines";
            std::ofstream out(file);
            for (auto& c : CASES) { for (size_t i = 0; i < c.size(); ++i) out << (i ? " " : "") << c[i]; out << "\n"; }
            own_file = true;
        }
    }
    if (CASES.empty()) {
        Gen g(seed, thorough);
        if (only == "all" || only == "numtheo") gen_numtheo(g);
        if (only == "all" || only == "symbols") gen_symbols(g);
        if (only == "all" || only == "roots") gen_roots(g);
        if (only == "all" || only == "sqrt") gen_sqrt(g);
    }
    static std::string a0 = argv[0], a_tier = tier, a_seed = seeds, a_only = only, a_file = file;
    int n = 0;
    WD_ARGV[n++] = (char*)a0.c_str(); WD_ARGV[n++] = (char*)a_tier.c_str(); WD_ARGV[n++] = (char*)a_seed.c_str();
    WD_ARGV[n++] = (char*)a_only.c_str(); WD_ARGV[n++] = (char*)"--skip"; WD_ARGV[n++] = WD_SKIP;
    WD_ARGV[n++] = (char*)"--events"; WD_ARGV[n++] = WD_EVENTS;
    snprintf(WD_EVENTS, sizeof WD_EVENTS, "%zu", events + 1);
    // a tree on which many cases hang would cost (time limit) x (number of cases): give up after 20 TIMEOUT/CRASH events
    // (each of them is already a reported failing input); the non-zero exit status tells the check that the run is incomplete
    if (events >= 20) {
        fputs("harness = ABORTED after 20 TIMEOUT/CRASH events\n", stdout); fflush(stdout);
        if (!file.empty()) unlink(file.c_str());
        return 4;
    }
    if (!a_file.empty()) { WD_ARGV[n++] = (char*)"--file"; WD_ARGV[n++] = (char*)a_file.c_str(); }
    WD_ARGV[n] = nullptr;
    for (size_t i = skip; i < CASES.size(); ++i) {
        std::string l;
        for (size_t j = 0; j < CASES[i].size(); ++j) { if (j) l += ' '; l += CASES[i][j]; }
        l += " = TIMEOUT\n";
        WD_LEN = std::min(l.size(), sizeof WD_LINE);
        memcpy(WD_LINE, l.data(), WD_LEN);
        snprintf(WD_SKIP, sizeof WD_SKIP, "%zu", i + 1);
        alarm(wd_secs);
        run_case(CASES[i]);
        alarm(0);
    }
    if (!file.empty() && (own_file || skip > 0)) unlink(file.c_str());
    return 0;
}
