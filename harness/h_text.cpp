// Correspondence harness for C19 (text output read back yields the same value).
// Calls the real stream operators / string constructors / domain read-write functions in-process.
//   h_text <tier> <seed>      generates its own cases (structured grids + seeded random), one output line per case
//   h_text  < lines           runs exactly the given `key args…` lines (replay)
// Text travels as `x<hex bytes>` (so `x` is the empty text); numbers in hex with `-` prefix.
#include "proto.h"
#include <gmp++/gmp++.h>
#include <givaro/givinteger.h>
#include <givaro/givrational.h>
#include <recint/recint.h>
#include <givaro/modular.h>
#include <givaro/modular-balanced.h>
#include <givaro/modular-extended.h>
#include <givaro/montgomery.h>
#include <givaro/modular-log16.h>
#include <givaro/gfq.h>
#include <givaro/zring.h>
#include <givaro/givpoly1.h>
#include <functional>
#include <map>
#include <memory>
#include <set>
#include <sstream>

using namespace Givaro;

// ------------------------------------------------------------------------------------------ protocol helpers
static std::string enc(const std::string& t) {
    static const char* H = "0123456789abcdef";
    std::string r = "x";
    for (unsigned char c : t) { r += H[c >> 4]; r += H[c & 15]; }
    return r;
}
static std::string dec(const std::string& t) {
    std::string r;
    auto v = [](char c) { return c <= '9' ? c - '0' : (c | 32) - 'a' + 10; };
    for (size_t i = 1; i + 1 < t.size(); i += 2) r += char(v(t[i]) * 16 + v(t[i + 1]));
    return r;
}
static Integer Zof(const std::string& s) {
    Integer r;
    mpz_set_str(r.get_mpz(), s.c_str(), 16);
    return r;
}
static std::string hexZ(const Integer& x) { return vp::hex(x.get_mpz_const()); }

// flags and unread content of a stream, independent of its state
static std::string tail(std::istream& is) {
    std::string r = is.fail() ? "1" : "0";
    r += is.eof() ? " 1 " : " 0 ";
    if (is.bad()) r += "BAD ";
    std::string rem;
    std::streambuf* sb = is.rdbuf();
    for (int ch; (ch = sb->sbumpc()) != EOF;) rem += char(ch);
    return r + enc(rem);
}
// tolerant form for readers that also eat the blanks following a number (Rational)
static void dropsep_tol(std::istream& is, const std::string& sep) {
    for (char c : sep) {
        if (is.peek() == (int)(unsigned char)c) is.get();
        else if (c == ' ') continue;
        else break;
    }
}
static void dropsep(std::istream& is, size_t n) {
    char ch;
    for (size_t i = 0; i < n; ++i) is.get(ch);
}

typedef vp::Args Args;
typedef std::function<std::string(const Args&)> Fn;

// ------------------------------------------------------------------------------------------ ring elements and polynomials
template <class Ring> static Integer conv(const Ring& F, const typename Ring::Element& e) { Integer r; F.convert(r, e); return r; }
template <> Integer conv(const GFqDom<int32_t>& F, const GFqDom<int32_t>::Element& e) { int64_t r; F.convert(r, e); return Integer(r); }
// GF(p^EXP) as a ring constructed from p alone
template <int EXP> struct GFqK : GFqDom<int32_t> {
    GFqK(int64_t p) : GFqDom<int32_t>((uint32_t)p, (uint32_t)EXP) {}
};
template <> Integer conv(const GFqK<2>& F, const GFqK<2>::Element& e) { int64_t r; F.convert(r, e); return Integer(r); }
template <> Integer conv(const GFqK<3>& F, const GFqK<3>::Element& e) { int64_t r; F.convert(r, e); return Integer(r); }
template <> Integer conv(const ModularBalanced<float>& F, const float& e) { return Integer((int64_t)e); }
template <> Integer conv(const ModularBalanced<double>& F, const double& e) { return Integer((int64_t)e); }

// element of F with printed representative rep -> write -> append rest -> read -> representative, flags, unread text
template <class Ring> static std::string ert(const Ring& F, const Integer& rep, const std::string& rest) {
    typename Ring::Element e, e2;
    F.init(e, rep);
    F.init(e2, Integer(1));
    std::ostringstream o;
    F.write(o, e);
    std::istringstream is(o.str() + rest);
    F.read(is, e2);
    return enc(o.str()) + " " + hexZ(conv(F, e2)) + " " + tail(is);
}
// F.read on arbitrary text (malformed stream: model vs code only)
template <class Ring> static std::string eread(const Ring& F, const std::string& text) {
    typename Ring::Element e2;
    F.init(e2, Integer(1));
    std::istringstream is(text);
    F.read(is, e2);
    return hexZ(conv(F, e2)) + " " + tail(is);
}
// polynomial c0 + c1 X + ... over F with indeterminate name x -> write -> read
template <class Ring> static std::string prt(const Ring& F, const std::string& x, const std::vector<Integer>& cs) {
    typedef Poly1Dom<Ring, Dense> PD;
    PD D(F, Indeter(x));
    typename PD::Element P, Q;
    if (!cs.empty()) D.init(P, Degree((long)cs.size() - 1));
    for (size_t i = 0; i < cs.size(); ++i) F.init(P[i], cs[i]);
    std::ostringstream o;
    D.write(o, P);
    std::istringstream is(o.str());
    D.read(is, Q);
    std::string r = enc(o.str());
    std::string fl = tail(is);
    r += " " + fl + " " + vp::hex_ll((long long)Q.size());
    for (size_t i = 0; i < Q.size(); ++i) r += " " + hexZ(conv(F, Q[i]));
    return r;
}
// the write half alone: the vector is stored exactly as given (no normalisation: trailing zero coefficients, all-zero
// vectors, the empty vector) and written
template <class Ring> static std::string pw(const Ring& F, const std::string& x, const std::vector<Integer>& cs) {
    typedef Poly1Dom<Ring, Dense> PD;
    PD D(F, Indeter(x));
    typename PD::Element P;
    P.resize(cs.size());
    for (size_t i = 0; i < cs.size(); ++i) F.init(P[i], cs[i]);
    std::ostringstream o;
    D.write(o, P);
    return enc(o.str());
}
// the library's own read on `input` (which may leave the vector un-normalised), then write of what was read
template <class Ring> static std::string prw(const Ring& F, const std::string& x, const std::string& input) {
    typedef Poly1Dom<Ring, Dense> PD;
    PD D(F, Indeter(x));
    typename PD::Element Q;
    std::istringstream is(input);
    D.read(is, Q);
    std::string r = tail(is) + " " + vp::hex_ll((long long)Q.size());
    for (size_t i = 0; i < Q.size(); ++i) r += " " + hexZ(conv(F, Q[i]));
    std::ostringstream o;
    D.write(o, Q);
    return r + " " + enc(o.str());
}
template <class Ring, class F> static std::string with_ring(const Integer& p, F f) { Ring R(p); return f(R); }

struct RingOps {
    std::function<std::string(const Integer& p, const Integer& rep, const std::string& rest)> ert;
    std::function<std::string(const Integer& p, const std::string& x, const std::vector<Integer>& cs)> prt;
    std::function<std::string(const Integer& p, const std::string& text)> eread;
    std::function<std::string(const Integer& p, const std::string& x, const std::vector<Integer>& cs)> pw;
    std::function<std::string(const Integer& p, const std::string& x, const std::string& input)> prw;
    std::function<Integer(const Integer& p, const Integer& v)> canon;    // representative of the image of v
    Integer minp, maxp;
};
// one domain object per (ring type, modulus): construction builds tables for Log16 / GFqDom
template <class Ring, class PT> static const Ring& ring_for(const Integer& p) {
    static std::map<Integer, std::unique_ptr<Ring>> cache;
    auto it = cache.find(p);
    if (it == cache.end()) it = cache.emplace(p, std::unique_ptr<Ring>(new Ring((PT)p))).first;
    return *it->second;
}
template <class Ring, class PT> static RingOps ops(bool hasmax = true) {
    RingOps o;
    o.ert = [](const Integer& p, const Integer& rep, const std::string& rest) { return ert(ring_for<Ring, PT>(p), rep, rest); };
    o.prt = [](const Integer& p, const std::string& x, const std::vector<Integer>& cs) { return prt(ring_for<Ring, PT>(p), x, cs); };
    o.eread = [](const Integer& p, const std::string& text) { return eread(ring_for<Ring, PT>(p), text); };
    o.pw = [](const Integer& p, const std::string& x, const std::vector<Integer>& cs) { return pw(ring_for<Ring, PT>(p), x, cs); };
    o.prw = [](const Integer& p, const std::string& x, const std::string& input) { return prw(ring_for<Ring, PT>(p), x, input); };
    o.canon = [](const Integer& p, const Integer& v) { const Ring& F = ring_for<Ring, PT>(p); typename Ring::Element e; F.init(e, v); return conv(F, e); };
    o.minp = Integer(Ring::minCardinality());
    o.maxp = hasmax ? Integer(Ring::maxCardinality()) : Integer(0);
    return o;
}
static const std::map<std::string, RingOps>& RINGS() {
    static std::map<std::string, RingOps> M;
    if (M.empty()) {
        M["mi8"] = ops<Modular<int8_t>, int64_t>();
        M["mu8"] = ops<Modular<uint8_t>, int64_t>();
        M["mi16"] = ops<Modular<int16_t>, int64_t>();
        M["mu16"] = ops<Modular<uint16_t>, int64_t>();
        M["mi32"] = ops<Modular<int32_t>, int64_t>();
        M["mu32"] = ops<Modular<uint32_t>, int64_t>();
        M["mi64"] = ops<Modular<int64_t>, int64_t>();
        M["mu64"] = ops<Modular<uint64_t>, uint64_t>();
        M["mf"] = ops<Modular<float>, int64_t>();
        M["md"] = ops<Modular<double>, int64_t>();
        M["mI"] = ops<Modular<Integer>, Integer>(false);
        M["bi32"] = ops<ModularBalanced<int32_t>, int64_t>();
        M["bi64"] = ops<ModularBalanced<int64_t>, int64_t>();
        M["bf"] = ops<ModularBalanced<float>, int64_t>();
        M["bd"] = ops<ModularBalanced<double>, int64_t>();
        M["ed"] = ops<ModularExtended<double>, int64_t>();
        M["g32"] = ops<Montgomery<int32_t>, int64_t>();
        M["l16"] = ops<Modular<Log16>, int64_t>();
        M["gfq"] = ops<GFqDom<int32_t>, int64_t>(false);
        M["gfq2"] = ops<GFqK<2>, int64_t>(false);
        M["gfq3"] = ops<GFqK<3>, int64_t>(false);
        M["ef"] = ops<ModularExtended<float>, int64_t>();
        M["mr7"] = ops<Modular<RecInt::ruint<7>>, RecInt::ruint<7>>();
        M["gr7"] = ops<Montgomery<RecInt::ruint<7>>, RecInt::ruint<7>>();
    }
    return M;
}

// ------------------------------------------------------------------------------------------ RecInt by K
template <size_t K> static std::string urt(const Integer& v, const std::string& rest) {
    RecInt::ruint<K> a(v), b(77u);
    std::ostringstream o;
    o << a;
    std::istringstream is(o.str() + rest);
    is >> b;
    Integer back(b);
    return enc(o.str()) + " " + hexZ(back) + " " + tail(is);
}
template <size_t K> static std::string srt(const Integer& v, const std::string& rest) {
    // the rint is built from / converted back through its bit pattern (conversions Integer <-> rint are not C19's subject)
    Integer two(1); two <<= (uint64_t)(1u << K);
    RecInt::rint<K> a, b(77);
    a.Value = RecInt::ruint<K>(v < 0 ? v + two : v);
    std::ostringstream o;
    o << a;
    std::istringstream is(o.str() + rest);
    is >> b;
    Integer back(b.Value);
    if (b.isNegative()) back -= two;
    return enc(o.str()) + " " + hexZ(back) + " " + tail(is);
}
template <size_t K> static std::string ustr(const Integer& v) {
    RecInt::ruint<K> a(v);
    std::ostringstream o;
    o << a;
    RecInt::ruint<K> b(o.str().c_str());
    return enc(o.str()) + " " + hexZ(Integer(b));
}
template <size_t K> static std::string sstr(const Integer& v) {
    Integer two(1); two <<= (uint64_t)(1u << K);
    RecInt::rint<K> a;
    a.Value = RecInt::ruint<K>(v < 0 ? v + two : v);
    std::ostringstream o;
    o << a;
    RecInt::rint<K> b(o.str().c_str());
    Integer back(b.Value);
    if (b.isNegative()) back -= two;
    return enc(o.str()) + " " + hexZ(back);
}
#define BYK(f, K, ...) ((K) == 6 ? f<6>(__VA_ARGS__) : (K) == 7 ? f<7>(__VA_ARGS__) : (K) == 8 ? f<8>(__VA_ARGS__) : (K) == 9 ? f<9>(__VA_ARGS__) \
                        : (K) == 10 ? f<10>(__VA_ARGS__) : (K) == 11 ? f<11>(__VA_ARGS__) : f<12>(__VA_ARGS__))

// ------------------------------------------------------------------------------------------ the operations
static const std::map<std::string, Fn> TABLE = {
    // Integer: operator<< then operator>> with `rest` appended
    {"irt", [](const Args& a) {
         Integer n = Zof(a.s(0)), b(77);
         std::ostringstream o;
         o << n;
         std::istringstream is(o.str() + dec(a.s(1)));
         is >> b;
         return enc(o.str()) + " " + hexZ(b) + " " + tail(is);
     }},
    // Integer: operator std::string then Integer(const char*)
    {"istr", [](const Args& a) {
         Integer n = Zof(a.s(0));
         std::string t = std::string(n);
         Integer b(t.c_str());
         return enc(t) + " " + hexZ(b);
     }},
    // Integer(const char*) on arbitrary text
    {"icstr", [](const Args& a) {
         std::string t = dec(a.s(0));
         Integer b(t.c_str());
         return hexZ(b);
     }},
    // Integer operator>> on arbitrary text (malformed stream: model vs code only)
    {"iread", [](const Args& a) {
         Integer b(77);
         std::istringstream is(dec(a.s(0)));
         is >> b;
         return hexZ(b) + " " + tail(is);
     }},
    // Integer sequence: values joined by sep, read back in sequence, the separator consumed with get()
    {"iseq", [](const Args& a) {
         std::string sep = dec(a.s(0));
         std::ostringstream o;
         for (size_t i = 1; i < a.n(); ++i) { if (i > 1) o << sep; o << Zof(a.s(i)); }
         std::istringstream is(o.str());
         std::string r = enc(o.str());
         for (size_t i = 1; i < a.n(); ++i) {
             Integer b(0);
             is >> b;
             if (i + 1 < a.n()) dropsep(is, sep.size());
             r += " " + hexZ(b);
         }
         return r + " " + tail(is);
     }},
    // Rational
    {"rrt", [](const Args& a) {
         Rational q(Zof(a.s(0)), Zof(a.s(1)), 0), b(77);
         std::ostringstream o;
         o << q;
         std::istringstream is(o.str() + dec(a.s(2)));
         is >> b;
         return enc(o.str()) + " " + hexZ(b.nume()) + " " + hexZ(b.deno()) + " " + tail(is);
     }},
    {"rstr", [](const Args& a) {
         Rational q(Zof(a.s(0)), Zof(a.s(1)), 0);
         std::ostringstream o;
         o << q;
         Rational b(o.str().c_str());
         return enc(o.str()) + " " + hexZ(b.nume()) + " " + hexZ(b.deno());
     }},
    {"rread", [](const Args& a) {
         Rational b(77);
         std::istringstream is(dec(a.s(0)));
         is >> b;
         return hexZ(b.nume()) + " " + hexZ(b.deno()) + " " + tail(is);
     }},
    {"rseq", [](const Args& a) {
         std::string sep = dec(a.s(0));
         std::ostringstream o;
         size_t k = (a.n() - 1) / 2;
         for (size_t i = 0; i < k; ++i) { if (i) o << sep; o << Rational(Zof(a.s(1 + 2 * i)), Zof(a.s(2 + 2 * i)), 0); }
         std::istringstream is(o.str());
         std::string r = enc(o.str());
         for (size_t i = 0; i < k; ++i) {
             Rational b(0);
             is >> b;
             if (i + 1 < k) dropsep_tol(is, sep);
             r += " " + hexZ(b.nume()) + " " + hexZ(b.deno());
         }
         return r + " " + tail(is);
     }},
    // RecInt
    {"urt", [](const Args& a) { int K = (int)a.W(0); return BYK(urt, K, Zof(a.s(1)), dec(a.s(2))); }},
    {"srt", [](const Args& a) { int K = (int)a.W(0); return BYK(srt, K, Zof(a.s(1)), dec(a.s(2))); }},
    // ring element: ert <ring> <p> <rep> <rest>
    {"ert", [](const Args& a) { return RINGS().at(a.s(0)).ert(Zof(a.s(1)), Zof(a.s(2)), dec(a.s(3))); }},
    // ring element read from arbitrary text: eread <ring> <p> <text>
    {"eread", [](const Args& a) { return RINGS().at(a.s(0)).eread(Zof(a.s(1)), dec(a.s(2))); }},
    // ZRing<Integer> element: zrt <n> <rest>
    {"zrt", [](const Args& a) { ZRing<Integer> Z; return ert(Z, Zof(a.s(0)), dec(a.s(1))); }},
    // polynomial, write half: pw <ring> <p> <indeterminate> c0 c1 ...   (vector stored as given)
    {"pw", [](const Args& a) {
         std::vector<Integer> cs;
         for (size_t i = 3; i < a.n(); ++i) cs.push_back(Zof(a.s(i)));
         return RINGS().at(a.s(0)).pw(Zof(a.s(1)), dec(a.s(2)), cs);
     }},
    // polynomial: the library's read on <input>, then write: prw <ring> <p> <indeterminate> <input>
    {"prw", [](const Args& a) { return RINGS().at(a.s(0)).prw(Zof(a.s(1)), dec(a.s(2)), dec(a.s(3))); }},
    // RecInt string constructors on the printed form: ustr <K> <v>, sstr <K> <v>
    {"ustr", [](const Args& a) { int K = (int)a.W(0); return BYK(ustr, K, Zof(a.s(1))); }},
    {"sstr", [](const Args& a) { int K = (int)a.W(0); return BYK(sstr, K, Zof(a.s(1))); }},
    // polynomial: prt <ring> <p> <indeterminate> c0 c1 ...
    {"prt", [](const Args& a) {
         std::vector<Integer> cs;
         for (size_t i = 3; i < a.n(); ++i) cs.push_back(Zof(a.s(i)));
         return RINGS().at(a.s(0)).prt(Zof(a.s(1)), dec(a.s(2)), cs);
     }},
};

// ------------------------------------------------------------------------------------------ generators
struct Gen {
    vp::Rng rng;
    bool thorough;
    std::vector<std::string> lines;
    Gen(uint64_t seed, bool t) : rng(seed * 1000003ULL + 19), thorough(t) {}

    Integer pow2(unsigned k) { Integer r(1); r <<= k; return r; }
    Integer pow10(unsigned k) { Integer r(1); for (unsigned i = 0; i < k; ++i) r *= 10; return r; }
    Integer limbs(unsigned n) {
        static const uint64_t L[4] = {0, 1, 0x8000000000000000ULL, 0xFFFFFFFFFFFFFFFFULL};
        Integer v(0);
        for (unsigned i = 0; i < n; ++i) {
            uint64_t c = rng.below(3) ? L[rng.below(4)] : rng.next();
            if (i == 0 && c == 0) c = 1 + rng.below(9);
            v <<= 64;
            v += Integer(c);
        }
        return v;
    }
    Integer randbits(unsigned bits) {
        Integer v(0);
        for (unsigned i = 0; i < bits; i += 64) { v <<= 64; v += Integer(rng.next()); }
        v >>= (uint64_t)((bits + 63) / 64 * 64 - bits);
        return v;
    }
    // non-negative magnitudes
    std::vector<Integer> zmag() {
        std::vector<Integer> g;
        for (int v : {0, 1, 2, 7, 9, 10, 11, 77, 99, 100, 101, 255, 999, 1000}) g.push_back(Integer(v));
        for (unsigned k : {15u, 16u, 31u, 32u, 53u, 62u, 63u, 64u, 65u, 127u, 128u, 192u, 255u, 256u}) {
            g.push_back(pow2(k) - 1); g.push_back(pow2(k)); g.push_back(pow2(k) + 1);
        }
        for (unsigned k : {5u, 6u, 7u, 9u, 18u, 19u, 20u, 38u, 39u, 41u, 77u, 100u}) {
            g.push_back(pow10(k) - 1); g.push_back(pow10(k)); g.push_back(pow10(k) + 1);
        }
        for (int i = 0; i < (thorough ? 60 : 10); ++i) g.push_back(limbs(2 + (unsigned)rng.below(4)));
        for (int i = 0; i < (thorough ? 80 : 12); ++i) g.push_back(randbits(1 + (unsigned)rng.below(thorough ? 4200 : 600)));
        return g;
    }
    std::vector<Integer> zgrid() {
        std::vector<Integer> g;
        for (auto& v : zmag()) { g.push_back(v); if (v != 0) g.push_back(-v); }
        return g;
    }
    std::set<std::string> seen;
    void add(const std::string& l) { if (seen.insert(l).second) lines.push_back(l); }
    static std::string hx(const Integer& x) { return hexZ(x); }

    void run() {
        const std::vector<std::string> rests = {"", " ", "\n", ", ", ",", ";", "\t", "x", " x", " 5", "\n12", "/", " /", " / 3", "/3", "-", "+", "-4",
                                                 " -4", ".", "e5", "  ", " \n", "  ;", "7", "0", ")", "*X", " + ", "  /  9", "\r\n", "a1"};
        const std::vector<std::string> seps = {" ", "\n", ", ", ",", ";", "\t", " , ", "  ", ":", " ; ", "\r\n", "|"};
        const std::vector<std::string> bad = {"", " ", "\n", "-", "+", "- 3", "+ 3", "+5", "-0", "00012", "0x1F", "012", "12/", "1 / 2", "/3", "12/ 5", "12/-5", "12/+5", "12/0", "0/0", "1/2/3",
                                               "--3", "+-3", " \n\t 42", "4 2", "12abc", "1  /  2", "3 ", "3  ", "3 x", "0/5", "6/4", "-6/-4", "6/-4", "3 /", "3 / ", "3/ ", "3 /x", "\v\f\r7",
                                               "1e5", "1.5", "٣", "12 /4", "-", "-/2", "5/-", "5/ -2", "5\n/2", "5\t/2", "5 \n/2", "99999999999999999999999/3"};
        const std::string alpha = "0123456789  -+//\n,x";
        std::vector<Integer> zg = zgrid();
        // ---- Integer round trips
        for (auto& n : zg) {
            add("istr " + hx(n));
            for (size_t i = 0; i < rests.size(); ++i)
                if (thorough || i < 6 || rng.below(4) == 0) add("irt " + hx(n) + " " + enc(rests[i]));
        }
        // ---- Integer sequences
        for (auto& sep : seps)
            for (int rep = 0; rep < (thorough ? 40 : 6); ++rep) {
                size_t k = 1 + rng.below(6);
                std::string l = "iseq " + enc(sep);
                for (size_t i = 0; i < k; ++i) l += " " + hx(zg[rng.below(zg.size())]);
                add(l);
            }
        // ---- Rationals: canonical (num, den) pairs
        std::vector<std::pair<Integer, Integer>> qg;
        {
            std::vector<Integer> mags = zmag();
            std::vector<Integer> dens = {Integer(1), Integer(2), Integer(3), Integer(7), Integer(10), Integer(99), pow2(32), pow2(64) - 1, pow2(64), pow10(20) + 1,
                                         pow2(128) + 1, limbs(3), randbits(300)};
            for (auto& m : mags)
                for (size_t j = 0; j < dens.size(); ++j) {
                    if (!(thorough || j < 3 || rng.below(4) == 0)) continue;
                    Integer n = m, d = dens[j];
                    if (n == 0) d = 1;
                    Integer g = gcd(n, d);
                    if (g != 1 && g != 0) { n /= g; d /= g; }
                    qg.push_back({n, d});
                    if (n != 0) qg.push_back({-n, d});
                }
        }
        for (auto& q : qg) {
            if (thorough || rng.below(3) == 0) add("rstr " + hx(q.first) + " " + hx(q.second));
            for (size_t i = 0; i < rests.size(); ++i)
                if ((thorough && rng.below(3) == 0) || i < 3 || rng.below(12) == 0) add("rrt " + hx(q.first) + " " + hx(q.second) + " " + enc(rests[i]));
        }
        for (auto& sep : seps)
            for (int rep = 0; rep < (thorough ? 60 : 8); ++rep) {
                size_t k = 1 + rng.below(6);
                std::string l = "rseq " + enc(sep);
                for (size_t i = 0; i < k; ++i) { auto& q = qg[rng.below(qg.size())]; l += " " + hx(q.first) + " " + hx(q.second); }
                add(l);
            }
        // ---- malformed / arbitrary text (model vs code; no property claim)
        for (auto& t : bad) { add("iread " + enc(t)); add("rread " + enc(t)); add("icstr " + enc(t)); }
        for (int rep = 0; rep < (thorough ? 6000 : 600); ++rep) {
            std::string t;
            size_t len = rng.below(9);
            for (size_t i = 0; i < len; ++i) t += alpha[rng.below(alpha.size())];
            add("iread " + enc(t));
            add("rread " + enc(t));
            if (rep % 4 == 0) add("icstr " + enc(t));
        }
        // ---- RecInt
        for (int K = 6; K <= 12; ++K) {
            unsigned bits = 1u << K;
            std::vector<Integer> ug = {Integer(0), Integer(1), Integer(9), Integer(10), Integer(99), Integer(100), pow2(63), pow2(64) - 1, pow2(bits - 1) - 1, pow2(bits - 1),
                                       pow2(bits - 1) + 1, pow2(bits) - 1, pow2(bits) - 2, pow2(bits / 2), pow2(bits / 2) - 1};
            if (K > 6) { ug.push_back(pow2(64)); ug.push_back(pow2(64) + 1); ug.push_back(pow2(bits - 64)); }
            for (unsigned k = 1; k < 1240; k = k * 3 + 1) if (pow10(k) < pow2(bits)) { ug.push_back(pow10(k)); ug.push_back(pow10(k) - 1); }
            if (K == 12) { ug.push_back(pow10(1023)); ug.push_back(pow10(1024) - 1); }
            int big = K >= 10 ? (K == 12 ? 8 : 3) : 1;     // printing costs one 2^K-bit division per digit
            for (int i = 0; i < (thorough ? 40 : 6) / big; ++i) ug.push_back(randbits(1 + (unsigned)rng.below(bits)));
            for (int i = 0; i < (thorough ? 20 : 3) / big; ++i) { Integer v = limbs(bits / 64); ug.push_back(v); }
            for (auto& v : ug) {
                if (v >= pow2(bits)) continue;
                bool longv = v >= pow10(150);
                for (size_t i = 0; i < rests.size(); ++i) {
                    if (longv ? (i != rng.below(12)) : !(thorough ? (i < 8 || rng.below(4) == 0) : (i < 3 || rng.below(16) == 0))) continue;
                    add("urt " + vp::hex_ll(K) + " " + hx(v) + " " + enc(rests[i]));
                    Integer s = v >= pow2(bits - 1) ? v - pow2(bits) : v;   // the same bit pattern read as signed
                    add("srt " + vp::hex_ll(K) + " " + hx(s) + " " + enc(rests[i]));
                    if (s > 0 && -s >= -pow2(bits - 1)) add("srt " + vp::hex_ll(K) + " " + hx(-s) + " " + enc(rests[i]));
                }
            }
        }
        // ---- ring elements: moduli from the limits the code reports, representatives around 0, p/2, p-1
        for (auto& kv : RINGS()) {
            const std::string& name = kv.first;
            const RingOps& R = kv.second;
            std::vector<Integer> ps;
            for (long q : {2L, 3L, 5L, 7L, 11L, 13L, 101L, 127L, 251L, 257L, 1009L, 32749L, 65521L, 65537L, 1000003L, 16777213L, 94906249L, 2147483629L, 4294967291L})
                ps.push_back(Integer(q));
            if (name == "mI") { ps.push_back(pow2(64) + 13); ps.push_back(pow10(40) + 121); }
            if (name == "mr7" || name == "gr7") { ps.push_back(pow2(61) - 1); ps.push_back(pow2(62) + 135); }
            if (R.maxp > 0) {
                // the largest odd values at and just below the advertised maximum (odd: Montgomery and the balanced rings want it)
                Integer m = R.maxp;
                for (int i = 0; i < 6; ++i) { Integer q = m - i; if (q % 2 != 0 || name[0] == 'm') ps.push_back(q); }
            }
            ps.push_back(R.minp);
            std::set<Integer> seenp;
            for (auto& p : ps) {
                if (p < R.minp || p < 2 || (R.maxp > 0 && p > R.maxp)) continue;
                if ((name == "g32" || name[0] == 'b') && p % 2 == 0) continue;
                if (name == "gfq" && (p > 65521 || (p != 2 && p % 2 == 0))) continue;
                if (name == "gfq2" && p > 251) continue;
                if (name == "gfq3" && p > 13) continue;
                if (name == "gr7" && p % 2 == 0) continue;
                if (name == "l16" && p > 16000) continue;
                if (!seenp.insert(p).second) continue;
                Integer q = name == "gfq2" ? p * p : name == "gfq3" ? p * p * p : p;   // cardinality
                std::vector<Integer> vs = {Integer(0), Integer(1), Integer(2), Integer(9), Integer(10), q - 1, q - 2, q / 2, q / 2 + 1, q / 2 - 1, q / 2 + 2, p, p + 1, Integer(999999), Integer(1000000), Integer(1234567), Integer(12345678)};
                for (int i = 0; i < (thorough ? 12 : 3); ++i) vs.push_back(randbits(1 + (unsigned)rng.below(name == "mr7" || name == "gr7" || name == "mI" ? 127 : 64)) % q);
                for (auto& v : vs) {
                    if (v < 0 || v >= q) continue;
                    Integer rep = R.canon(p, v);
                    for (size_t i = 0; i < rests.size(); ++i)
                        if (i < 3 || rng.below(thorough ? 4 : 12) == 0) add("ert " + name + " " + hx(p) + " " + hx(rep) + " " + enc(rests[i]));
                }
            }
        }
        for (auto& n : zg)
            for (size_t i = 0; i < rests.size(); ++i)
                if (i < 2 || rng.below(16) == 0) add("zrt " + hx(n) + " " + enc(rests[i]));
        // ---- malformed text through the element readers (Integer, native int32/int64, double): model vs code only.
        //      Texts without any non-blank character are left out: the native readers then leave `Element tmp` uninitialised.
        {
            std::vector<std::string> texts = bad;
            for (const char* t : {"2147483647", "2147483648", "-2147483648", "4294967296", "9223372036854775807", "9223372036854775808", "-9223372036854775808",
                                  "99999999999999999999", "+7", "-7", "+", "-x", "007", "-0", " \t\n12", "12 ", "1,2"}) texts.push_back(t);
            for (int rep = 0; rep < (thorough ? 1500 : 150); ++rep) {
                std::string t;
                size_t len = 1 + rng.below(8);
                for (size_t i = 0; i < len; ++i) t += alpha[rng.below(alpha.size())];
                texts.push_back(t);
            }
            for (const char* name : {"mi32", "bi32", "bi64", "ed", "gfq", "bd", "md"})
                for (long p : {101L, 65521L})
                    for (auto& t : texts) {
                        bool blank = true;
                        for (char c : t) if (!isspace((unsigned char)c)) blank = false;
                        if (blank) continue;
                        // a text that num_get clamps to INT32_MIN makes GFqDom::init(Rep&, int32_t) negate INT32_MIN and index
                        // _pol2log out of bounds (seen with ASan; C04/C05's subject, not a text round trip): left out for GFqDom
                        if (std::string(name) == "gfq" && t[0] == '-' && t.size() >= 11) continue;
                        add(std::string("eread ") + name + " " + vp::hex_ll(p) + " " + enc(t));
                    }
        }
        // ---- RecInt string constructors on the printed form (signed: both signs, the extremes)
        for (int K = 6; K <= 12; ++K) {
            unsigned bits = 1u << K;
            std::vector<Integer> ug = {Integer(0), Integer(1), Integer(9), Integer(10), Integer(12345), pow2(63) - 1, pow2(63), pow2(bits - 1) - 1, pow2(bits / 2), pow10(19)};
            if (K > 6) { ug.push_back(pow2(64)); ug.push_back(pow2(64) + 1); ug.push_back(pow2(bits - 64) + 7); }
            for (int i = 0; i < (thorough ? 12 : 2) / (K >= 11 ? 2 : 1); ++i) ug.push_back(randbits(1 + (unsigned)rng.below(bits - 1)));
            for (auto& v : ug) {
                if (v >= pow2(bits - 1)) { if (v < pow2(bits)) add("ustr " + vp::hex_ll(K) + " " + hx(v)); continue; }
                add("ustr " + vp::hex_ll(K) + " " + hx(v));
                add("sstr " + vp::hex_ll(K) + " " + hx(v));
                if (v != 0) add("sstr " + vp::hex_ll(K) + " " + hx(-v));
            }
            add("ustr " + vp::hex_ll(K) + " " + hx(pow2(bits) - 1));
            add("sstr " + vp::hex_ll(K) + " " + hx(-pow2(bits - 1)));
        }
        // ---- polynomials, write half: vectors stored un-normalised (1..3 trailing zero coefficients), all-zero vectors of
        //      size 1..3, the empty vector; and the library's own read of un-normalised input followed by write
        for (const char* name : {"mi32", "md", "gfq", "mI", "bi32"})
            for (long p : {3L, 101L, 65521L})
                for (const char* x : {"X", "x", "Y1", "t"}) {
                    std::vector<std::vector<long>> base = {{}, {1}, {2}, {0, 1}, {1, 1}, {7}, {0, 0, 1}, {2, 0, 1}, {1, 2, 0, 1}, {0, 1, 0, 2}, {100, 1}, {1, 0, 0, 0, 0, 5}};
                    for (int i = 0; i < (thorough ? 6 : 1); ++i) {
                        std::vector<long> c;
                        size_t d = 1 + rng.below(6);
                        for (size_t j = 0; j < d; ++j) c.push_back((long)rng.below(3) == 0 ? 0 : (long)rng.below((uint64_t)p));
                        base.push_back(c);
                    }
                    bool balanced = name[0] == 'b';
                    for (auto& c : base)
                        for (int z = 0; z <= 3; ++z) {
                            if (!(thorough || z < 2 || c.size() < 3 || rng.below(2) == 0)) continue;
                            std::string l = std::string("pw ") + name + " " + vp::hex_ll(p) + " " + enc(x);
                            for (long v : c) { long r = v % p; if (balanced && r > p / 2) r -= p; l += " " + vp::hex_ll(r); }
                            for (int j = 0; j < z; ++j) l += " 0";
                            add(l);
                        }
                    // inputs of Poly1Dom::read: "deg c_deg ... c_0"; leading coefficients that are zero modulo p
                    std::vector<std::string> ins = {"2 " + std::to_string(p) + " 1 1", "2 0 1 1", "2 0 0 0", "0 0", "1 0 0", "1 0 5", "3 0 0 1 2", "0 7", "2 1 0 0",
                                                    "3 " + std::to_string(2 * p) + " " + std::to_string(p) + " 2 1", "1 " + std::to_string(p) + " " + std::to_string(p + 1),
                                                    "2 1 2", "1 1 x", "x"};
                    for (auto& in : ins) {
                        // native element readers leave `Element tmp` uninitialised at the end of the stream: complete inputs only
                        if (balanced || (std::string(name) == "gfq" && in == "2 1 2")) continue;
                        add(std::string("prw ") + name + " " + vp::hex_ll(p) + " " + enc(x) + " " + enc(in));
                    }
                }
        // ---- polynomials: domains x indeterminate names x coefficient patterns
        for (const char* name : {"mi32", "md", "gfq", "mI"})
            for (long p : {2L, 3L, 101L, 65521L})
                for (const char* x : {"X", "x", "Y1", "t"}) {
                    std::vector<std::vector<long>> pats = {{}, {0}, {1}, {2}, {0, 1}, {1, 1}, {2, 3, 1}, {0, 0, 1}, {1, 0, 1}, {5, 0, 0, 7}, {1, 1, 1, 1, 1}, {0, 2}, {100, 99, 98}};
                    for (int i = 0; i < (thorough ? 10 : 2); ++i) {
                        std::vector<long> c;
                        size_t d = 1 + rng.below(8);
                        for (size_t j = 0; j < d; ++j) c.push_back((long)rng.below(3) == 0 ? 0 : (long)rng.below((uint64_t)p));
                        pats.push_back(c);
                    }
                    for (auto& c : pats) {
                        std::string l = std::string("prt ") + name + " " + vp::hex_ll(p) + " " + enc(x);
                        for (long v : c) l += " " + vp::hex_ll(v % p);
                        add(l);
                    }
                }
    }
};

static void run_line(const Args& a) {
    auto it = TABLE.find(a.tok[0]);
    if (it == TABLE.end()) { vp::emit(a, "NOFUNC"); return; }
    try {
        vp::emit(a, it->second(a));
    } catch (...) {
        vp::emit(a, "EXC");
    }
    fflush(stdout);
}

int main(int argc, char** argv) {
    Args a;
    if (argc >= 3) {
        Gen g(strtoull(argv[2], nullptr, 10), std::string(argv[1]) == "thorough");
        g.run();
        for (auto& l : g.lines) {
            std::istringstream ss(l);
            a.tok.clear();
            std::string t;
            while (ss >> t) a.tok.push_back(t);
            run_line(a);
        }
        return 0;
    }
    while (vp::read_line(std::cin, a)) run_line(a);
    return 0;
}
