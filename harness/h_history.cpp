// C16 correspondence harness: histories of construct / copy-construct / assign / self-assign / destroy / probe over
// three slots holding domain objects of one kind (harness/domains.h).  The probe of every live slot must be what an
// isolated object with the slot's construction parameters returns -- whatever the history.
//
//   h_history <tier> <seed> [kind]          generate histories (exhaustive up to a length, then sampled)
//   h_history replay                        read lines "hist <kind> <op> ..." on stdin and run exactly those
//
// output:  iso <kind> <param> = <digest>
//          hist <kind> <op> <op> ... = <slot>:<digest> ...       (digests of every live slot at the end and at each P)
//          hist <kind> <op> ... = CRASH <status>                (the history killed the process: sanitizer report / signal)
// ops:     N<k><p> construct slot k with parameter set p | C<k><j> slot k := copy-construct(slot j) | A<k><j> slot k = slot j
//          S<k> self-assignment | D<k> destroy | P<k> probe
#include "domains.h"
#include "proto.h"
#include <sys/wait.h>
#include <unistd.h>
#include <cstring>

using dz::Box;

static uint64_t iso_digest(const Box& b) { return dz::fnv(b.probe() + " || " + b.xprobe(b) + (b.sane() ? "" : " || LOST-PARAMETERS")); }

static std::string run_history(const std::string& kind, const std::vector<std::string>& ops) {
    const dz::Maker& mk = dz::kinds().at(kind);
    std::unique_ptr<Box> slot[3];
    int par[3] = {-1, -1, -1};      // lineage of each live slot: objects related by copy-construction / assignment denote the same
    int fresh = 0;                  // domain and must be interchangeable (independently built objects need not share a representation)
    std::string out;
    auto add = [&](int k) {
        // the probe of slot k, and the exchange probe with another live slot of the same lineage (else with itself):
        // elements created through that object are used through slot k
        int partner = k;
        for (int j = 0; j < 3; ++j) if (j != k && slot[j] && par[j] == par[k]) { partner = j; break; }
        char buf[64];
        snprintf(buf, sizeof buf, "%s%d:%llx", out.empty() ? "" : " ", k,
                 (unsigned long long)dz::fnv(slot[k]->probe() + " || " + slot[k]->xprobe(*slot[partner]) + (slot[k]->sane() ? "" : " || LOST-PARAMETERS")));
        out += buf;
    };
    for (const std::string& op : ops) {
        int k = op[1] - '0';
        switch (op[0]) {
            case 'N': slot[k].reset(mk(op[2] - '0')); par[k] = fresh++; break;
            case 'C': slot[k].reset(slot[op[2] - '0']->copy()); par[k] = par[op[2] - '0']; break;
            case 'A': slot[k]->assign(*slot[op[2] - '0']); par[k] = par[op[2] - '0']; break;
            case 'S': slot[k]->selfassign(); break;
            case 'D': slot[k].reset(); par[k] = -1; break;
            case 'P': add(k); break;
        }
    }
    for (int k = 0; k < 3; ++k) if (slot[k]) add(k);
    return out;
}

// legal next operations given which slots are live
static void next_ops(const bool live[3], std::vector<std::string>& out) {
    out.clear();
    char b[4] = {0, 0, 0, 0};
    for (int k = 0; k < 3; ++k) {
        if (!live[k]) {
            for (int p = 0; p < 2; ++p) { b[0] = 'N'; b[1] = char('0' + k); b[2] = char('0' + p); out.push_back(b); }
            for (int j = 0; j < 3; ++j) if (live[j]) { b[0] = 'C'; b[1] = char('0' + k); b[2] = char('0' + j); out.push_back(b); }
        } else {
            for (int j = 0; j < 3; ++j) if (live[j] && j != k) { b[0] = 'A'; b[1] = char('0' + k); b[2] = char('0' + j); out.push_back(b); }
            b[2] = 0;
            b[0] = 'S'; b[1] = char('0' + k); out.push_back(b);
            b[0] = 'D'; b[1] = char('0' + k); out.push_back(b);
            b[0] = 'P'; b[1] = char('0' + k); out.push_back(b);
        }
    }
}
static void apply_live(bool live[3], const std::string& op) {
    int k = op[1] - '0';
    if (op[0] == 'N' || op[0] == 'C') live[k] = true;
    if (op[0] == 'D') live[k] = false;
}

static void enumerate(int len, std::vector<std::string>& cur, bool live[3], std::vector<std::vector<std::string>>& all) {
    if (int(cur.size()) == len) { all.push_back(cur); return; }
    std::vector<std::string> nx;
    next_ops(live, nx);
    for (const std::string& op : nx) {
        // prune: a probe as the last op is redundant (all live slots are probed at the end)
        if (int(cur.size()) == len - 1 && op[0] == 'P') continue;
        bool l2[3] = {live[0], live[1], live[2]};
        apply_live(l2, op);
        cur.push_back(op);
        enumerate(len, cur, l2, all);
        cur.pop_back();
    }
}

static std::string join(const std::vector<std::string>& v) {
    std::string s;
    for (const auto& x : v) { s += ' '; s += x; }
    return s;
}

// run a batch in a child process; on abnormal exit re-run one by one so that the crashing history is identified
static void run_batch(const std::string& kind, const std::vector<std::vector<std::string>>& hs, size_t lo, size_t hi) {
    fflush(stdout);
    pid_t pid = fork();
    if (pid == 0) {
        for (size_t i = lo; i < hi; ++i) {
            std::string r = run_history(kind, hs[i]);
            printf("hist %s%s = %s\n", kind.c_str(), join(hs[i]).c_str(), r.c_str());
        }
        fflush(stdout);
        _exit(0);
    }
    int st = 0;
    waitpid(pid, &st, 0);
    if (WIFEXITED(st) && WEXITSTATUS(st) == 0) return;
    if (hi - lo == 1) {
        printf("hist %s%s = CRASH %d\n", kind.c_str(), join(hs[lo]).c_str(), WIFSIGNALED(st) ? 128 + WTERMSIG(st) : WEXITSTATUS(st));
        fflush(stdout);
        return;
    }
    // the child's partial output is already on stdout; lines may repeat -- harmless (the driver judges each line)
    for (size_t i = lo; i < hi; ++i) run_batch(kind, hs, i, i + 1);
}

int main(int argc, char** argv) {
    std::string tier = argc > 1 ? argv[1] : "quick";
    if (tier == "replay") {
        // iso lines for every kind, then exactly the given histories
        std::map<std::string, std::vector<std::vector<std::string>>> by;
        vp::Args a;
        while (vp::read_line(std::cin, a)) {
            if (a.tok.size() < 3 || a.tok[0] != "hist") continue;
            by[a.tok[1]].push_back(std::vector<std::string>(a.tok.begin() + 2, a.tok.end()));
        }
        for (auto& kv : by) {
            if (!dz::kinds().count(kv.first)) continue;
            dz::enter_kind(kv.first);
            for (int p = 0; p < 2; ++p) {
                std::unique_ptr<Box> b(dz::kinds().at(kv.first)(p));
                printf("iso %s %d = %llx\n", kv.first.c_str(), p, (unsigned long long)iso_digest(*b));
                printf("sane %s %d = %d\n", kv.first.c_str(), p, b->sane() ? 1 : 0);
            }
            for (size_t i = 0; i < kv.second.size(); ++i) run_batch(kv.first, kv.second, i, i + 1);
        }
        return 0;
    }
    uint64_t seed = argc > 2 ? strtoull(argv[2], nullptr, 10) : 1;
    std::string only = argc > 3 ? argv[3] : "";
    const int exh = tier == "thorough" ? 5 : 3;          // exhaustive length
    const int nrand = tier == "thorough" ? 4000 : 300;   // sampled longer histories per kind
    const int maxlen = tier == "thorough" ? 12 : 9;
    for (const auto& kv : dz::kinds()) {
        const std::string& kind = kv.first;
        if (!only.empty() && only != kind) continue;
        dz::enter_kind(kind);
        for (int p = 0; p < 2; ++p) {
            std::unique_ptr<Box> b(kv.second(p));
            printf("iso %s %d = %llx\n", kind.c_str(), p, (unsigned long long)iso_digest(*b));
            printf("sane %s %d = %d\n", kind.c_str(), p, b->sane() ? 1 : 0);
        }
        std::vector<std::vector<std::string>> hs;
        for (int len = 1; len <= exh; ++len) {
            std::vector<std::string> cur;
            bool live[3] = {false, false, false};
            enumerate(len, cur, live, hs);
        }
        vp::Rng rng(seed * 7919 + dz::fnv(kind));
        for (int i = 0; i < nrand; ++i) {
            int len = exh + 1 + int(rng.below(uint64_t(maxlen - exh)));
            std::vector<std::string> cur, nx;
            bool live[3] = {false, false, false};
            for (int s = 0; s < len; ++s) {
                next_ops(live, nx);
                const std::string& op = nx[rng.below(nx.size())];
                cur.push_back(op);
                apply_live(live, op);
            }
            hs.push_back(cur);
        }
        const size_t B = 64;
        for (size_t lo = 0; lo < hs.size(); lo += B) run_batch(kind, hs, lo, std::min(hs.size(), lo + B));
    }
    return 0;
}
