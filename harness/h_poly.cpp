// Correspondence harness for C08: calls the real Poly1Dom<Field,Dense> code (and Interpolation, Poly1CRT,
// Poly1PadicDom) in-process and prints one line per case:
//     <op> t:<KARA_THRESHOLD> <field> <arg> ... = <result> ...
// field  : p:<hex>  Modular<int32_t>(p)   |  P:<hex>  Modular<Integer>(p)   |  Q  QField<Rational>
// scalar : hex (Z/p)  or  [-]num/den (Q);   polynomial: [c0,c1,...] exactly as stored (raw, may carry leading zeros)
// every polynomial result is printed raw, followed by the degree the library's own observer reports for it.
//
// modes:  h_poly gen <tier> <seed> [profile]   print the generated input lines only
//         h_poly <tier> <seed> [profile]       generate and execute
//         h_poly                                execute the lines read from stdin
#include "proto.h"
#include <gmp++/gmp++.h>
#include <givaro/modular.h>
#include <givaro/modular-integer.h>
#include <givaro/qfield.h>
#include <givaro/givrational.h>
#include <givaro/givpoly1.h>
#include <givaro/givinterp.h>
#include <givaro/givpoly1crt.h>
#include <givaro/givpoly1padic.h>
#include <givaro/gfq.h>
#include <givaro/givinterpgeom.h>
#include <algorithm>
#include <set>
#include <unistd.h>

using namespace Givaro;
typedef std::vector<std::string> Toks;

#ifndef KARA_THRESHOLD
#error "givpoly1kara.inl must define KARA_THRESHOLD"
#endif

// ------------------------------------------------------------------------------------------ field traits
template <class F> struct Tr;
template <> struct Tr<Modular<int32_t>> {
    typedef Modular<int32_t> F; typedef F::Element E;
    static void parse(const F& f, E& e, const std::string& s) { f.init(e, (uint64_t)strtoull(s.c_str(), nullptr, 16)); }
    static std::string show(const F&, const E& e) { return vp::hex_ll((long long)e); }
};
template <> struct Tr<Modular<Integer>> {
    typedef Modular<Integer> F; typedef F::Element E;
    static void parse(const F& f, E& e, const std::string& s) { Integer z; mpz_set_str(z.get_mpz(), s.c_str(), 16); f.init(e, z); }
    static std::string show(const F&, const E& e) { return vp::hex(e.get_mpz()); }
};
template <> struct Tr<QField<Rational>> {
    typedef QField<Rational> F; typedef F::Element E;
    static void parse(const F&, E& e, const std::string& s) {
        size_t k = s.find('/');
        Integer n, d(1);
        mpz_set_str(n.get_mpz(), s.substr(0, k).c_str(), 16);
        if (k != std::string::npos) mpz_set_str(d.get_mpz(), s.substr(k + 1).c_str(), 16);
        e = Rational(n, d);
    }
    static std::string show(const F&, const E& e) {
        Integer n = e.nume(), d = e.deno();
        return vp::hex(n.get_mpz()) + "/" + vp::hex(d.get_mpz());
    }
};

static Toks split(const std::string& s, char c) {
    Toks r; std::string cur;
    for (char ch : s) { if (ch == c) { r.push_back(cur); cur.clear(); } else cur += ch; }
    r.push_back(cur);
    return r;
}

template <class F> std::vector<typename F::Element> parseVec(const F& f, const std::string& t) {
    std::vector<typename F::Element> v;
    if (t.size() < 2 || t[0] != '[' || t[t.size() - 1] != ']') throw std::runtime_error("bad poly token");
    std::string in = t.substr(1, t.size() - 2);
    if (in.empty()) return v;
    for (auto& s : split(in, ',')) { typename F::Element e; f.init(e); Tr<F>::parse(f, e, s); v.push_back(e); }
    return v;
}
template <class F, class V> std::string showVec(const F& f, const V& v) {
    std::string o = "[";
    for (size_t i = 0; i < v.size(); ++i) { if (i) o += ','; o += Tr<F>::show(f, v[i]); }
    return o + "]";
}

static long long num(const std::string& s) { return strtoll(s.c_str(), nullptr, 16); }

// the range forms (iterator intervals) are protected members: a derived class makes them callable
template <class F> struct PDX : Poly1Dom<F, Dense> {
    typedef Poly1Dom<F, Dense> Base;
    PDX(const F& f, const Indeter& X) : Base(f, X) {}
    using Base::mul; using Base::stdmul; using Base::karamul; using Base::sqr;
    using Base::midmul; using Base::stdmidmul; using Base::karamidmul;
};

// ------------------------------------------------------------------------------------------ one case
template <class F> std::string exec(const F& f, const Toks& a) {
    typedef Poly1Dom<F, Dense> PD_t;
    typedef typename PD_t::Element Pol;
    typedef typename F::Element E;
    PD_t PD(f, Indeter("X"));   // fresh domain per case: the observers mutate PD.zero through const_cast
    auto P = [&](size_t i) { return parseVec(f, a.at(i)); };
    auto S = [&](size_t i) { E e; f.init(e); Tr<F>::parse(f, e, a.at(i)); return e; };
    std::string o;
    auto outP = [&](Pol& R) {
        if (!o.empty()) o += ' ';
        o += showVec(f, R);
        Degree d; PD.degree(d, R);
        o += ' '; o += vp::hex_ll(d.value());
    };
    auto outS = [&](const E& e) { if (!o.empty()) o += ' '; o += Tr<F>::show(f, e); };
    auto outN = [&](long long v) { if (!o.empty()) o += ' '; o += vp::hex_ll(v); };
    // destination pre-filled with junk whose size depends on the case (results must not depend on it)
    size_t h = 0; for (auto& t : a) for (char c : t) h = h * 131 + (unsigned char)c;
    auto junk = [&](size_t expected) {
        Pol R; size_t n = 0;
        switch (h % 4) { case 0: n = 0; break; case 1: n = 1; break; case 2: n = expected; break; default: n = expected + 3; }
        R.assign(n, f.one);
        return R;
    };
    const std::string& op = a.at(0);
    // ---- additive
    if (op == "add")        { Pol A = P(2), B = P(3), R = junk(std::max(A.size(), B.size())); PD.add(R, A, B); outP(R); }
    else if (op == "sub")   { Pol A = P(2), B = P(3), R = junk(std::max(A.size(), B.size())); PD.sub(R, A, B); outP(R); }
    else if (op == "addin") { Pol R = P(2), B = P(3); PD.addin(R, B); outP(R); }
    else if (op == "subin") { Pol R = P(2), B = P(3); PD.subin(R, B); outP(R); }
    else if (op == "neg")   { Pol A = P(2), R = junk(A.size()); PD.neg(R, A); outP(R); }
    else if (op == "negin") { Pol R = P(2); PD.negin(R); outP(R); }
    // ---- with a scalar
    else if (op == "addv")   { Pol A = P(2), R = junk(A.size()); E v = S(3); PD.add(R, A, v); outP(R); }
    else if (op == "vadd")   { Pol A = P(3), R = junk(A.size()); E v = S(2); PD.add(R, v, A); outP(R); }
    else if (op == "subv")   { Pol A = P(2), R = junk(A.size()); E v = S(3); PD.sub(R, A, v); outP(R); }
    else if (op == "vsub")   { Pol A = P(3), R = junk(A.size()); E v = S(2); PD.sub(R, v, A); outP(R); }
    else if (op == "addinv") { Pol R = P(2); E v = S(3); PD.addin(R, v); outP(R); }
    else if (op == "subinv") { Pol R = P(2); E v = S(3); PD.subin(R, v); outP(R); }
    else if (op == "mulv")   { Pol A = P(2), R = junk(A.size()); E v = S(3); PD.mul(R, A, v); outP(R); }
    else if (op == "vmul")   { Pol A = P(3), R = junk(A.size()); E v = S(2); PD.mul(R, v, A); outP(R); }
    else if (op == "mulinv") { Pol R = P(2); E v = S(3); PD.mulin(R, v); outP(R); }
    else if (op == "divv")   { Pol A = P(2), R = junk(A.size()); E v = S(3); PD.div(R, A, v); outP(R); }
    else if (op == "divinv") { Pol R = P(2); E v = S(3); PD.divin(R, v); outP(R); }
    else if (op == "vdiv")   { Pol A = P(3), R = junk(1); E v = S(2); PD.div(R, v, A); outP(R); }
    else if (op == "vmod")   { Pol A = P(3), R = junk(1); E v = S(2); PD.mod(R, v, A); outP(R); }
    // ---- the same mixed overloads called in place (result object = polynomial operand), as the library itself uses them
    else if (op == "al_addv")   { Pol A = P(2); E v = S(3); PD.add(A, A, v); outP(A); }
    else if (op == "al_vadd")   { Pol A = P(3); E v = S(2); PD.add(A, v, A); outP(A); }
    else if (op == "al_subv")   { Pol A = P(2); E v = S(3); PD.sub(A, A, v); outP(A); }
    else if (op == "al_vsub")   { Pol A = P(3); E v = S(2); PD.sub(A, v, A); outP(A); }
    else if (op == "al_mulv")   { Pol A = P(2); E v = S(3); PD.mul(A, A, v); outP(A); }
    else if (op == "al_vmul")   { Pol A = P(3); E v = S(2); PD.mul(A, v, A); outP(A); }
    else if (op == "al_divv")   { Pol A = P(2); E v = S(3); PD.div(A, A, v); outP(A); }
    // ---- fused forms
    else if (op == "axpy")    { Pol A = P(2), X = P(3), Y = P(4), R = junk(A.size() + X.size()); PD.axpy(R, A, X, Y); outP(R); }
    else if (op == "axpyv")   { Pol X = P(3), Y = P(4), R = junk(X.size()); E c = S(2); PD.axpy(R, c, X, Y); outP(R); }
    else if (op == "axpyin")  { Pol R = P(2), A = P(3), X = P(4); PD.axpyin(R, A, X); outP(R); }
    else if (op == "axpyinv") { Pol R = P(2), X = P(4); E c = S(3); PD.axpyin(R, c, X); outP(R); }
    else if (op == "maxpy")   { Pol A = P(2), B = P(3), C = P(4), R = junk(A.size() + B.size()); PD.maxpy(R, A, B, C); outP(R); }
    else if (op == "maxpyin") { Pol R = P(2), A = P(3), B = P(4); PD.maxpyin(R, A, B); outP(R); }
    else if (op == "maxpyinv"){ Pol R = P(2), B = P(4); E c = S(3); PD.maxpyin(R, c, B); outP(R); }
    else if (op == "axmy")    { Pol A = P(2), X = P(3), Y = P(4), R = junk(A.size() + X.size()); PD.axmy(R, A, X, Y); outP(R); }
    else if (op == "axmyv")   { Pol X = P(3), Y = P(4), R = junk(X.size()); E c = S(2); PD.axmy(R, c, X, Y); outP(R); }
    else if (op == "axmyin")  { Pol R = P(2), A = P(3), X = P(4); PD.axmyin(R, A, X); outP(R); }
    else if (op == "axmyinv") { Pol R = P(2), X = P(4); E c = S(3); PD.axmyin(R, c, X); outP(R); }
#ifdef C08_HAVE_MAXPY_SCALAR
    else if (op == "maxpyv")  { Pol B = P(3), C = P(4), R = junk(B.size()); E c = S(2); PD.maxpy(R, c, B, C); outP(R); }
#endif
    // ---- products
    else if (op == "mul")     { Pol A = P(2), B = P(3), R = junk(A.size() + B.size()); PD.mul(R, A, B); outP(R); }
    else if (op == "stdmul")  { Pol A = P(2), B = P(3), R = junk(A.size() + B.size()); PD.stdmul(R, A, B); outP(R); }
    else if (op == "karamul") { Pol A = P(2), B = P(3), R = junk(A.size() + B.size()); PD.karamul(R, A, B); outP(R); }
    else if (op == "mulin")   { Pol R = P(2), B = P(3); PD.mulin(R, B); outP(R); }
    else if (op == "sqr")     { Pol A = P(2), R = junk(2 * A.size()); PD.sqr(R, A); outP(R); }
    else if (op == "multr")   { Pol A = P(2), B = P(3), R = junk(A.size()); PD.mul(R, A, B, Degree(num(a.at(4))), Degree(num(a.at(5)))); outP(R); }
    else if (op == "midmul")  { Pol A = P(2), B = P(3), R = junk(A.size()); PD.midmul(R, A, B); outP(R); }
    else if (op == "stdmidmul")  { Pol A = P(2), B = P(3), R = junk(A.size()); PD.stdmidmul(R, A, B); outP(R); }
    else if (op == "karamidmul") { Pol A = P(2), B = P(3), R = junk(A.size()); PD.karamidmul(R, A, B); outP(R); }
    else if (op == "pow")     { Pol A = P(2), R = junk(A.size()); PD.pow(R, A, (uint64_t)num(a.at(3))); outP(R); }
    else if (op == "powmod")  { Pol A = P(2), U = P(4), R = junk(U.size()); Integer n; mpz_set_str(n.get_mpz(), a.at(3).c_str(), 16); PD.powmod(R, A, n, U); outP(R); }
    // ---- division
    else if (op == "div")     { Pol A = P(2), B = P(3), R = junk(A.size()); PD.div(R, A, B); outP(R); }
    else if (op == "divin")   { Pol R = P(2), B = P(3); PD.divin(R, B); outP(R); }
    else if (op == "mod")     { Pol A = P(2), B = P(3), R = junk(B.size()); PD.mod(R, A, B); outP(R); }
    else if (op == "modin")   { Pol R = P(2), B = P(3); PD.modin(R, B); outP(R); }
    else if (op == "divmod")  { Pol A = P(2), B = P(3), Q = junk(A.size()), R = junk(B.size()); PD.divmod(Q, R, A, B); outP(Q); outP(R); }
    else if (op == "divmodin"){ Pol R = P(2), B = P(3), Q = junk(R.size()); PD.divmodin(Q, R, B); outP(Q); outP(R); }
    else if (op == "pdivmod") { Pol A = P(2), B = P(3), Q = junk(A.size()), R = junk(B.size()); E m; f.init(m); PD.pdivmod(Q, R, m, A, B); outP(Q); outP(R); outS(m); }
    else if (op == "pmod")    { Pol A = P(2), B = P(3), R = junk(B.size()); E m; f.init(m); PD.pmod(R, m, A, B); outP(R); outS(m); }
    else if (op == "isdiv")   { Pol A = P(2), B = P(3); outN(PD.isDivisor(A, B) ? 1 : 0); }
    // ---- gcd family
    else if (op == "gcd")     { Pol A = P(2), B = P(3), D = junk(A.size()); PD.gcd(D, A, B); outP(D); }
    else if (op == "gcdext")  { Pol A = P(2), B = P(3), D = junk(A.size()), U = junk(1), V = junk(2); PD.gcd(D, U, V, A, B); outP(D); outP(U); outP(V); }
    else if (op == "lcm")     { Pol A = P(2), B = P(3), D = junk(A.size()); PD.lcm(D, A, B); outP(D); }
    else if (op == "invmod")  { Pol A = P(2), B = P(3), U = junk(B.size()); PD.invmod(U, A, B); outP(U); }
    else if (op == "invmodunit") { Pol A = P(2), B = P(3), U = junk(B.size()); PD.invmodunit(U, A, B); outP(U); }
    // ---- mod X^l
    else if (op == "modpowx")    { Pol A = P(2), R = junk(A.size()); PD.modpowx(R, A, Degree(num(a.at(3)))); outP(R); }
    else if (op == "invmodpowx") { Pol A = P(2), R = junk(A.size()); PD.invmodpowx(R, A, Degree(num(a.at(3)))); outP(R); }
    // ---- definitions
    else if (op == "eval")    { Pol A = P(2); E v = S(3), r; f.init(r); PD.eval(r, A, v); outS(r); }
    else if (op == "diff")    { Pol A = P(2), R = junk(A.size()); PD.diff(R, A); outP(R); }
    else if (op == "reverse") { Pol A = P(2), R = junk(A.size()); PD.reverse(R, A); outP(R); }
    else if (op == "reversein") { Pol R = P(2); PD.reversein(R); outP(R); }
    else if (op == "compose") { Pol A = P(2), R = junk(A.size()); PD.power_compose(R, A, (uint64_t)num(a.at(3))); outP(R); }
    // ---- observers
    else if (op == "setdegree") { Pol R = P(2); PD.setdegree(R); outP(R); }
    else if (op == "observe") {   // degree, isZero, isOne, leadcoef, val on the (possibly un-normalised) argument
        Pol A = P(2);
        { Pol B = A; Degree d; PD.degree(d, B); outN(d.value()); }
        { Pol B = A; outN(PD.isZero(B) ? 1 : 0); }
        { Pol B = A; outN(PD.isOne(B) ? 1 : 0); }
        { Pol B = A; E c; f.init(c); PD.leadcoef(c, B); outS(c); }
    }
    else if (op == "areequal") { Pol A = P(2), B = P(3); outN(PD.areEqual(A, B) ? 1 : 0); outN(PD.areNEqual(A, B) ? 1 : 0); }
    else if (op == "getentry") { Pol A = P(2); E c; f.init(c); PD.getEntry(c, Degree(num(a.at(3))), A); outS(c); }
    // ---- constructors / assignments (givpoly1cstor.inl)
    else if (op == "init0")    { Pol R = junk(2); PD.init(R); outP(R); }
    else if (op == "initv")    { Pol R = junk(2); E v = S(2); PD.init(R, v); outP(R); }
    else if (op == "initl3")   { Pol R = junk(2); E x = S(2), y = S(3), z = S(4); PD.init(R, {x, y, z}); outP(R); }
    else if (op == "initdeg")  { Pol R = junk(2); PD.init(R, Degree(num(a.at(2)))); outP(R); }
    else if (op == "initdv")   { Pol R = junk(2); E v = S(3); PD.init(R, Degree(num(a.at(2))), v); outP(R); }
    else if (op == "assigndv") { Pol R = junk(2); E v = S(3); PD.assign(R, Degree(num(a.at(2))), v); outP(R); }
    else if (op == "assignv")  { Pol R = junk(2); E v = S(2); PD.assign(R, v); outP(R); }
    else if (op == "assign")   { Pol A = P(2), R = junk(A.size()); PD.assign(R, A); outP(R); }
    else if (op == "toscalar") { Pol A = P(2); E c; f.init(c); PD.assign(c, A); outS(c); }
    else if (op == "convert")  { Pol A = P(2); E c; f.init(c); PD.convert(c, A); outS(c); }
    // ---- further observers (givpoly1misc.inl)
    else if (op == "observe2") {   // isMOne, isUnit, val, degree(P) by value
        Pol A = P(2);
        { Pol B = A; outN(PD.isMOne(B) ? 1 : 0); }
        { Pol B = A; outN(PD.isUnit(B) ? 1 : 0); }
        { Pol B = A; Degree d; PD.val(d, B); outN(d.value()); }
        { Pol B = A; outN(PD.degree(B).value()); }
    }
    else if (op == "setentry") { Pol A = P(2); E c = S(3); PD.setEntry(A, c, Degree(num(a.at(4)))); outP(A); }
    // ---- scalar remainder, inverse, shift (givpoly1muldiv.inl)
    else if (op == "modinv")   { Pol R = P(2); E v = S(3); PD.modin(R, v); outP(R); }
    else if (op == "modv")     { Pol A = P(2), R = junk(A.size()); E v = S(3); PD.mod(R, A, v); outP(R); }
    else if (op == "inv")      { Pol A = P(2), R = junk(1); PD.inv(R, A); outP(R); }
    else if (op == "invin")    { Pol R = P(2); PD.invin(R); outP(R); }
    else if (op == "shiftin")  { Pol R = P(2); PD.shiftin(R, (int)num(a.at(3))); outP(R); }
    else if (op == "random") {   // random / nonzerorandom overloads: a[2] = 0|s|d|b, a[3] = nonzerorandom?, a[4] = argument
        const std::string& ov = a.at(2); const bool nzf = num(a.at(3)) != 0; const long long v = num(a.at(4));
        GivRandom gen((uint64_t)(h | 1));
        Pol R = junk(3);
        if (ov == "0") { if (nzf) PD.nonzerorandom(gen, R); else PD.random(gen, R); }
        else if (ov == "s") { if (nzf) PD.nonzerorandom(gen, R, (uint64_t)v); else PD.random(gen, R, (uint64_t)v); }
        else if (ov == "d") { if (nzf) PD.nonzerorandom(gen, R, Degree(v)); else PD.random(gen, R, Degree(v)); }
        else { Pol B((size_t)v, f.one); if (nzf) PD.nonzerorandom(gen, R, B); else PD.random(gen, R, B); }
        outP(R);
    }
    else if (op == "modpowxin"){ Pol R = P(2); PD.modpowxin(R, Degree(num(a.at(3)))); outP(R); }
    else if (op == "wrappers") {   // givpoly1dense.h: characteristic / cardinality / setDegree / getdomain
        Pol A = P(2);
        Integer c; PD.characteristic(c); o += vp::hex(c.get_mpz());
        Integer k; PD.cardinality(k); outN(k == 0 ? 0 : 1);
        outN((PD.getdomain() == f && PD.subdomain() == f && PD.getDomain() == f && PD.subDomain() == f) ? 1 : 0);
        PD.setDegree(A); outP(A);
    }
    // ---- the range forms on an R range of n places: R is printed raw (all n places)
    else if (op == "rmul" || op == "rstdmul" || op == "rkaramul" || op == "rmidmul" || op == "rstdmidmul" || op == "rkaramidmul") {
        PDX<F> X(f, Indeter("X"));
        size_t n = (size_t)num(a.at(2)); Pol A = P(3), B = P(4); Pol R(n, f.one);
        if (op == "rmul") X.mul(R, R.begin(), R.end(), A, A.begin(), A.end(), B, B.begin(), B.end());
        else if (op == "rstdmul") X.stdmul(R, R.begin(), R.end(), A, A.begin(), A.end(), B, B.begin(), B.end());
        else if (op == "rkaramul") X.karamul(R, R.begin(), R.end(), A, A.begin(), A.end(), B, B.begin(), B.end());
        else if (op == "rmidmul") X.midmul(R, R.begin(), R.end(), A, A.begin(), A.end(), B, B.begin(), B.end());
        else if (op == "rstdmidmul") X.stdmidmul(R, R.begin(), R.end(), A, A.begin(), A.end(), B, B.begin(), B.end());
        else X.karamidmul(R, R.begin(), R.end(), A, A.begin(), A.end(), B, B.begin(), B.end());
        o += showVec(f, R);
    }
    else if (op == "rsqr") {
        PDX<F> X(f, Indeter("X"));
        Pol A = P(2); Pol R(2 * A.size() - 1, f.one);
        X.sqr(R, R.begin(), R.end(), A, A.begin(), A.end());
        o += showVec(f, R);
    }
    // ---- interpolation, CRT
    else if (op == "interp") {
        Pol xs = P(2), fs = P(3);
        Interpolation<F> I(f, Indeter("X"));
        for (size_t i = 0; i < xs.size(); ++i) I(xs[i], fs[i]);
        Pol R = I.interpolator(); outP(R);
    }
    else if (op == "crt") {
        Pol primes = P(2), rns = P(3);
        Poly1CRT<F> C(f, primes, Indeter("X"));
        Pol R; C.RnsToRing(R, rns); outP(R);
    }
    else if (op == "rtr") {
        Pol primes = P(2), A = P(3);
        Poly1CRT<F> C(f, primes, Indeter("X"));
        typename Poly1CRT<F>::array_T rns; C.RingToRns(rns, A);
        if (!o.empty()) o += ' ';
        o += showVec(f, rns);
    }
    else return "NOFUNC";
    return o;
}

// p-adic conversion only exists for word-sized prime fields
static std::string exec_padic(const Modular<int32_t>& f, const Toks& a) {
    typedef Poly1Dom<Modular<int32_t>, Dense> PD_t;
    PD_t PD(f, Indeter("X"));
    Poly1PadicDom<Modular<int32_t>, Dense> PAD(PD);
    if (a.at(0) == "padic_eval") {
        PD_t::Element A = parseVec(f, a.at(2));
        Integer e; PAD.eval(e, A);
        return vp::hex(e.get_mpz());
    }
    if (a.at(0) == "convertvec") {   // convert(Vect<UU>&, P): every stored coefficient converted
        PD_t::Element A = parseVec(f, a.at(2));
        std::vector<long> V; PD.convert(V, A);
        std::string o = "[";
        for (size_t i = 0; i < V.size(); ++i) { if (i) o += ','; o += vp::hex_ll(V[i]); }
        return o + "]";
    }
    if (a.at(0) == "padic_eval64") {   // the uint64_t overload (value below 2^64 by construction of the case)
        PD_t::Element A = parseVec(f, a.at(2));
        uint64_t e = 0; PAD.eval(e, A);
        return vp::hex_ull(e);
    }
    if (a.at(0) == "padic_evaldirect") {   // evaldirect<uint64_t>: the coefficients as they are stored (canonical residues)
        PD_t::Element A = parseVec(f, a.at(2));
        uint64_t e = 0; PAD.evaldirect(e, A);
        return vp::hex_ull(e);
    }
    if (a.at(0) == "padic_radixdirect") {   // radixdirect with an integral value: exactly n digits, raw storage
        uint64_t e = strtoull(a.at(2).c_str(), nullptr, 16);
        PD_t::Element R(3, f.one); PAD.radixdirect(R, e, (uint64_t)num(a.at(3)));
        return showVec(f, R);
    }
    if (a.at(0) == "padic_radixn") {   // explicit number of digits
        Integer e; mpz_set_str(e.get_mpz(), a.at(2).c_str(), 16);
        PD_t::Element R; PAD.radix(R, e, (int64_t)num(a.at(3)));
        std::string o = showVec(f, R);
        Degree d; PD.degree(d, R);
        return o + " " + vp::hex_ll(d.value());
    }
    if (a.at(0) == "padic_radix") {
        Integer e; mpz_set_str(e.get_mpz(), a.at(2).c_str(), 16);
        PD_t::Element R; PAD.radix(R, e);
        std::string o = showVec(f, R);
        Degree d; PD.degree(d, R);
        return o + " " + vp::hex_ll(d.value());
    }
    return "NOFUNC";
}

// per-case watchdog: a library loop that does not terminate kills the process (SIGALRM); the check attributes the
// crash to the first input line without output
#ifndef C08_CASE_TIMEOUT
#define C08_CASE_TIMEOUT 5
#endif
// geometric interpolation needs a field with generator(): GFqDom<int64_t>(p,1); coefficients travel as integers < p
static std::string exec_interpgeom(long p, const Toks& a) {
    typedef GFqDom<int64_t> F; typedef Poly1Dom<F, Dense> PD_t; typedef PD_t::Element Pol;
    F Fq((uint64_t)p, 1); PD_t PD(Fq, Indeter("X"));
    Pol T;
    { std::string in = a.at(2).substr(1, a.at(2).size() - 2);
      if (!in.empty()) for (auto& t : split(in, ',')) { F::Element e; Fq.init(e, (int64_t)strtoll(t.c_str(), nullptr, 16)); T.push_back(e); } }
    long n = strtol(a.at(3).c_str(), nullptr, 16);
    auto bb = [&](F::Element& v, const F::Element& x) -> F::Element& { return PD.eval(v, T, x); };
    NewtonInterpGeom<F> G(Fq, Indeter("X"));
    G.initialize(bb);
    for (long i = 1; i < n; ++i) G(bb);
    Pol I; G.interpolator(I);
    std::string o = "[";
    for (size_t i = 0; i < I.size(); ++i) { int64_t v; Fq.convert(v, I[i]); if (i) o += ','; o += vp::hex_ll(v); }
    o += "]";
    Degree d; PD.degree(d, I);
    return o + " " + vp::hex_ll(d.value());
}

static std::string run_line(const Toks& in) {
    // in: op [t:..] field args...
    alarm(C08_CASE_TIMEOUT);
    Toks a;
    for (auto& t : in) if (t.compare(0, 2, "t:") != 0) a.push_back(t);
    std::string res;
    try {
        const std::string& ft = a.at(1);
        if (ft == "Q") { QField<Rational> f; res = exec(f, a); }
        else if (ft.compare(0, 2, "p:") == 0) {
            Modular<int32_t> f((int32_t)strtoll(ft.c_str() + 2, nullptr, 16));
            if (a[0] == "interpgeom") res = exec_interpgeom(strtol(ft.c_str() + 2, nullptr, 16), a);
            else res = (a[0].compare(0, 6, "padic_") == 0 || a[0] == "convertvec") ? exec_padic(f, a) : exec(f, a);
        }
        else if (ft.compare(0, 2, "P:") == 0) {
            Integer p; mpz_set_str(p.get_mpz(), ft.c_str() + 2, 16);
            Modular<Integer> f(p); res = exec(f, a);
        }
        else res = "NOFIELD";
    } catch (...) { res = "EXC"; }
    std::string o = a.at(0) + " t:" + vp::hex_ll(KARA_THRESHOLD);
    for (size_t i = 1; i < a.size(); ++i) { o += ' '; o += a[i]; }
    return o + " = " + res;
}

// ------------------------------------------------------------------------------------------ generators
struct Gen {
    vp::Rng rng;
    std::string ftok;      // field token
    bool isQ; Integer p;   // modulus when !isQ
    std::vector<std::string> out;
    explicit Gen(uint64_t seed) : rng(seed), isQ(false) {}

    std::string scalar(int kind = -1) {   // kind: 0 zero, 1 one, 2 minus one, 3.. random
        if (kind < 0) kind = (int)rng.below(8);
        if (isQ) {
            long long n, d = 1;
            switch (kind) { case 0: n = 0; break; case 1: n = 1; break; case 2: n = -1; break;
                default: n = (long long)rng.below(19) - 9; d = 1 + (long long)rng.below(5); }
            if (n == 0) d = 1;
            long long g = 1; { long long x = n < 0 ? -n : n, y = d; while (y) { long long t = x % y; x = y; y = t; } g = x ? x : 1; }
            return vp::hex_ll(n / g) + "/" + vp::hex_ll(d / g);
        }
        Integer v;
        switch (kind) { case 0: v = 0; break; case 1: v = 1; break; case 2: v = p - 1; break;
            case 3: v = p / 2; break; case 4: v = p / 2 + 1; break;
            default: { Integer r(0); for (int i = 0; i < 3; ++i) { r <<= 64; r += Integer((uint64_t)rng.next()); } v = r % p; } }
        v %= p;
        return vp::hex(v.get_mpz());
    }
    std::string nz() { for (;;) { std::string s = scalar((int)(1 + rng.below(7))); if (s != "0" && s != "0/1") return s; } }
    std::string zero() { return isQ ? "0/1" : "0"; }

    // shape: 0 dense, 1 monomial, 2 sparse, 3 all ones, 4 small alphabet {0,1,-1}, 5 dense + leading zeros (un-normalised)
    std::vector<std::string> coeffs(long deg, int shape) {
        std::vector<std::string> c;
        if (deg < 0) { if (shape == 5) c.assign(1 + rng.below(2), zero()); return c; }
        for (long i = 0; i < deg; ++i) {
            switch (shape) {
                case 1: c.push_back(zero()); break;
                case 2: c.push_back(rng.below(6) == 0 ? nz() : zero()); break;
                case 3: c.push_back(scalar(1)); break;
                case 4: c.push_back(scalar((int)rng.below(3))); break;
                default: c.push_back(scalar());
            }
        }
        c.push_back(shape == 3 ? scalar(1) : nz());
        if (shape == 5) for (uint64_t k = 1 + rng.below(2); k--;) c.push_back(zero());
        return c;
    }
    static std::string tok(const std::vector<std::string>& c) {
        std::string o = "[";
        for (size_t i = 0; i < c.size(); ++i) { if (i) o += ','; o += c[i]; }
        return o + "]";
    }
    std::string poly(long deg, int shape = -1) { if (shape < 0) shape = pick_shape(); return tok(coeffs(deg, shape)); }
    int pick_shape() { static const int S[] = {0, 0, 0, 1, 2, 3, 4, 5}; return S[rng.below(8)]; }
    int pick_norm_shape() { static const int S[] = {0, 0, 0, 1, 2, 3, 4}; return S[rng.below(7)]; }

    void emit(const std::string& op, const std::vector<std::string>& args) {
        std::string l = op + " " + ftok;
        for (auto& s : args) { l += ' '; l += s; }
        out.push_back(l);
    }
};

// product of two coefficient lists over the generator's field is not available here (the harness must not
// re-implement the arithmetic it checks); common factors are therefore produced by the *cases*: see "gcd" below,
// which passes (A*G, B*G) computed by the library's own stdmul -- the driver re-checks everything from the inputs.
template <class F> static std::string lib_mul(const F& f, const std::string& A, const std::string& B) {
    Poly1Dom<F, Dense> PD(f, Indeter("X"));
    auto a = parseVec(f, A), b = parseVec(f, B);
    typename Poly1Dom<F, Dense>::Element r;
    PD.stdmul(r, a, b);
    return showVec(f, r);
}
static std::string field_mul(const std::string& ftok, const std::string& A, const std::string& B) {
    if (ftok == "Q") { QField<Rational> f; return lib_mul(f, A, B); }
    if (ftok.compare(0, 2, "p:") == 0) { Modular<int32_t> f((int32_t)strtoll(ftok.c_str() + 2, nullptr, 16)); return lib_mul(f, A, B); }
    Integer p; mpz_set_str(p.get_mpz(), ftok.c_str() + 2, 16);
    Modular<Integer> f(p); return lib_mul(f, A, B);
}

static void gen_field(Gen& g, const std::string& tier, const std::string& profile) {
    const bool thorough = (tier == "thorough");
    const bool karaonly = (profile == "kara");         // second build (-DKARA_THRESHOLD=2): product-dependent operations only
    const long dmax = g.isQ ? (thorough ? 6 : 4) : (thorough ? 12 : 7);
    std::vector<std::pair<long, long>> pairs;
    for (long i = -1; i <= dmax; ++i) for (long j = -1; j <= dmax; ++j) pairs.push_back({i, j});
    auto H = [](long v) { return vp::hex_ll(v); };
    const long T = KARA_THRESHOLD;

    // ---------------- binary operations on every degree pair
    static const char* BIN_ALL[] = {"add", "sub", "addin", "subin", "areequal", "mul", "stdmul", "karamul", "mulin",
                                    "div", "divin", "mod", "modin", "divmod", "divmodin", "pdivmod", "pmod", "isdiv",
                                    "gcd", "gcdext", "lcm", "invmod", "invmodunit"};
    static const char* BIN_KARA[] = {"mul", "karamul", "mulin", "div", "mod", "divmod", "gcdext", "lcm", "invmod"};
    std::vector<std::string> bins;
    if (karaonly) bins.assign(BIN_KARA, BIN_KARA + sizeof BIN_KARA / sizeof *BIN_KARA);
    else bins.assign(BIN_ALL, BIN_ALL + sizeof BIN_ALL / sizeof *BIN_ALL);
    for (auto& op : bins)
        for (auto& pr : pairs) {
            const bool divlike = !(op == "add" || op == "sub" || op == "addin" || op == "subin" || op == "areequal" ||
                                   op == "mul" || op == "stdmul" || op == "karamul" || op == "mulin");
            if (divlike && pr.second < 0 && op != "gcd" && op != "gcdext" && op != "lcm" && op != "isdiv") continue;  // B = 0 excluded by the property
            if ((op == "invmod" || op == "invmodunit") && (pr.second < 1 || pr.first < 0)) continue;   // 0 is not invertible
            if (op == "gcdext" && pr.first < 0 && pr.second < 0) continue;                              // needs the inverse of the coefficient 0
            std::string A = g.poly(pr.first), B = g.poly(pr.second, divlike && pr.second < 0 ? 0 : -1);
            g.emit(op, {A, B});
        }
    // ---------------- unary / scalar operations on every degree
    for (long d = -1; d <= dmax + 2 && !karaonly; ++d)
        for (int rep = 0; rep < 3; ++rep) {
            std::string A = g.poly(d);
            g.emit("neg", {A}); g.emit("negin", {A}); g.emit("setdegree", {A}); g.emit("observe", {A});
            g.emit("diff", {A}); g.emit("reverse", {A}); g.emit("reversein", {A}); g.emit("sqr", {A});
            g.emit("eval", {A, g.scalar()});
            g.emit("compose", {A, H(rep == 0 ? 0 : 1 + (long)g.rng.below(4))});   // b = 0: P(1)
            g.emit("getentry", {A, H((long)g.rng.below(d + 3))});
            g.emit("modpowx", {A, H((long)g.rng.below(d + 3))});
            for (const char* op : {"addv", "subv", "addinv", "subinv", "mulv", "mulinv"}) g.emit(op, {A, g.scalar()});
            for (const char* op : {"vadd", "vsub", "vmul"}) g.emit(op, {g.scalar(), A});
            for (const char* op : {"divv", "divinv"}) g.emit(op, {A, g.nz()});
            for (const char* op : {"al_addv", "al_subv", "al_mulv"}) g.emit(op, {A, g.scalar()});
            for (const char* op : {"al_vadd", "al_vsub", "al_vmul"}) g.emit(op, {g.scalar(), A});
            g.emit("al_divv", {A, g.nz()});
            if (d >= 0) { g.emit("vdiv", {g.scalar(), A}); g.emit("vmod", {g.scalar(), A}); }
            g.emit("pow", {A, H((long)g.rng.below(d > 4 ? 4 : 7))});
            // constructors, further observers, scalar remainder, inverse, shift, wrappers
            g.emit("assign", {A}); g.emit("toscalar", {A}); g.emit("convert", {A}); g.emit("observe2", {A}); g.emit("wrappers", {A});
            g.emit("setentry", {A, g.scalar((int)g.rng.below(4)), H((long)g.rng.below(d + 4))});
            g.emit("modinv", {A, g.nz()}); g.emit("modv", {A, g.nz()});
            g.emit("shiftin", {A, H((long)g.rng.below(4))});
            if (!g.isQ && rep == 0) {   // shapes of random / nonzerorandom: no argument, size (0 included), Degree (deginfty included), like b
                for (const char* nzf : {"0", "1"}) {
                    g.emit("random", {"0", nzf, "0"});
                    g.emit("random", {"s", nzf, H(d + 1)});
                    g.emit("random", {"d", nzf, H(d)});
                    g.emit("random", {"b", nzf, H(d + 1)});
                }
            }
            g.emit("modpowxin", {A, H((long)g.rng.below(d + 3))});
            if (d == 0) { g.emit("inv", {A}); g.emit("invin", {A}); }
            if (rep == 0) {
                g.emit("init0", {}); g.emit("initv", {g.scalar((int)g.rng.below(4))});
                g.emit("initl3", {g.scalar(), g.scalar(), g.scalar((int)g.rng.below(3))});
                g.emit("initdeg", {H(d < 0 ? 0 : d)});
                g.emit("initdv", {H(d < 0 ? 0 : d), g.scalar((int)g.rng.below(4))});
                g.emit("assigndv", {H(d < 0 ? 0 : d), g.scalar((int)g.rng.below(4))});
                g.emit("assignv", {g.scalar((int)g.rng.below(4))});
            }
            if (d >= 0) {
                std::string A1 = g.poly(d, g.pick_norm_shape());
                // invertible constant term
                auto c = g.coeffs(d, 0); c[0] = g.nz();
                g.emit("invmodpowx", {Gen::tok(c), H(1 + (long)g.rng.below(2 * d + 4))});
            }
        }
    // ---------------- fused forms
    for (long i = -1; i <= 3 && !karaonly; ++i) for (long j = -1; j <= 3; ++j) for (long k = -1; k <= 4; ++k) {
        std::string A = g.poly(i), X = g.poly(j), Y = g.poly(k);
        g.emit("axpy", {A, X, Y}); g.emit("maxpy", {A, X, Y}); g.emit("axmy", {A, X, Y});
        g.emit("axpyin", {Y, A, X}); g.emit("maxpyin", {Y, A, X}); g.emit("axmyin", {Y, A, X});
        if (i == 0) {
            std::string c = g.scalar();
            g.emit("axpyv", {c, X, Y}); g.emit("axmyv", {c, X, Y});
            g.emit("axpyinv", {Y, c, X}); g.emit("maxpyinv", {Y, c, X}); g.emit("axmyinv", {Y, c, X});
#ifdef C08_HAVE_MAXPY_SCALAR
            g.emit("maxpyv", {c, X, Y});
#endif
        }
    }
    // ---------------- powmod, truncated and middle products
    for (int rep = 0; rep < (thorough ? 60 : 20) && !karaonly; ++rep) {
        long du = 1 + (long)g.rng.below(dmax), da = (long)g.rng.below(2 * dmax) - 1;
        std::string e = (rep % 5 == 0 && !g.isQ) ? vp::hex_ull(g.rng.next()) + vp::hex_ull(g.rng.next() & 0xff) : H((long)g.rng.below(40));   // multi-limb exponents (finite fields only: over Q the coefficients explode)
        g.emit("powmod", {g.poly(da), e, g.poly(du, g.pick_norm_shape())});
    }
    // exponents around and above 2^64 (the loop must run on the Integer, not on a machine word), and q^n - 1
    if (!g.isQ && !karaonly) {
        std::vector<std::string> es = {"10000000000000000", "10000000000000005", "ffffffffffffffff", "20000000000000003",
                                       "10000000000000001", "fffffffffffffffe"};
        // exponent 0 (and small ones) with a constant modulus: every power is 0 modulo a unit
        for (const char* e : {"0", "1", "5"}) g.emit("powmod", {g.poly(2, g.pick_norm_shape()), e, g.poly(0, 0)});
        g.emit("powmod", {g.poly(-1), "0", g.poly(1, 0)});
        for (long du = 1; du <= 3; ++du) {
            Integer q(1); for (long k = 0; k < du * 24 && q < Integer(1) << 70; ++k) q *= g.p;   // a power of p beyond 2^64
            Integer qm = q - 1;
            es.push_back(vp::hex(qm.get_mpz()));
            for (auto& e : es) {
                std::string U = g.poly(du, g.pick_norm_shape());
                g.emit("powmod", {g.poly((long)g.rng.below(2 * du + 2), g.pick_norm_shape()), e, U});
            }
            es.pop_back();
        }
    }
    for (auto& pr : pairs) {
        if (pr.first < 0 || pr.second < 0) continue;
        long total = pr.first + pr.second;
        long lo = (long)g.rng.below(total + 2), hi = lo + (long)g.rng.below(total + 3 - lo);
        if (!karaonly) g.emit("multr", {g.poly(pr.first), g.poly(pr.second), H(lo), H(hi)});
        if (pr.first >= pr.second) {
            g.emit("midmul", {g.poly(pr.first, 0), g.poly(pr.second, 0)});
            if (!karaonly) g.emit("stdmidmul", {g.poly(pr.first, 0), g.poly(pr.second, 0)});
        }
        if (pr.first == 2 * pr.second) g.emit("karamidmul", {g.poly(pr.first, 0), g.poly(pr.second, 0)});
    }
    // ---------------- the range forms: every R range length from 1 to beyond the full product (truncated and over-long)
    for (long i = 1; i <= (g.isQ ? 3 : 5); ++i) for (long j = 1; j <= (g.isQ ? 3 : 5); ++j) {
        std::string A = g.poly(i - 1, (int)g.rng.below(3) == 0 ? 5 : 0), B = g.poly(j - 1, 0);
        auto sz = [](const std::string& t) { long c = 1; for (char ch : t) if (ch == ',') ++c; return t == "[]" ? 0L : c; };
        long sa = sz(A), sb = sz(B);
        for (long n = 1; n <= sa + sb + 1; ++n) {
            g.emit("rmul", {H(n), A, B});
            if (!karaonly) g.emit("rstdmul", {H(n), A, B});
            if (sa >= 2 && sb >= 2) g.emit("rkaramul", {H(n), A, B});
        }
        g.emit("rsqr", {A});
        if (sa >= sb) {
            g.emit("rmidmul", {H(sa - sb + 1), A, B});
            if (!karaonly) g.emit("rstdmidmul", {H(sa - sb + 1), A, B});
            if (sa == 2 * sb - 1) g.emit("rkaramidmul", {H(sb), A, B});
        }
    }
    // ---------------- middle product: every shape class of the generic dispatch (m = |P|-|Q|+1, n = |Q|): schoolbook, balanced,
    // m > n (blocks along P, with and without a rest), m < n (blocks along Q accumulated into R, with and without a rest);
    // all of them above the threshold in the threshold-2 build
    {
        const long lim = karaonly ? (thorough ? 16 : 12) : (g.isQ ? 4 : 6);
        for (long m = 1; m <= lim; ++m) for (long n = 1; n <= lim; ++n) {
            if (!karaonly && ((m + n) % 2)) continue;
            std::string A = g.poly(m + n - 2, (int)g.rng.below(4) == 0 ? 4 : 0), B = g.poly(n - 1, (int)g.rng.below(5) == 0 ? 4 : 0);
            g.emit("midmul", {A, B}); g.emit("rmidmul", {H(m), A, B});
        }
        if (!g.isQ) {
            const long T0 = KARA_THRESHOLD;
            std::vector<std::pair<long, long>> big = {{T0 + 1, 2 * T0 + 3}, {2 * T0 + 5, T0 + 1}, {T0 + 2, T0 + 1}, {T0 + 1, T0 + 2}, {T0 + 1, T0 + 1}};
            if (thorough) { big.push_back({T0 + 1, 3 * T0 + 4}); big.push_back({3 * T0 + 3, T0 + 1}); big.push_back({2 * T0 + 2, 2 * T0 + 2}); }
            for (auto& mn : big) {
                std::string A = g.poly(mn.first + mn.second - 2, 0), B = g.poly(mn.second - 1, 0);
                g.emit("midmul", {A, B}); g.emit("rmidmul", {H(mn.first), A, B});
                if (mn.first == mn.second) g.emit("rkaramidmul", {H(mn.first), A, B});
            }
        }
    }
    // ---------------- operands sharing a large common factor
    for (int rep = 0; rep < (thorough ? 40 : 12); ++rep) {
        long dg = 1 + (long)g.rng.below(dmax), da = (long)g.rng.below(4) - 1, db = (long)g.rng.below(4);
        std::string G = g.poly(dg, g.pick_norm_shape());
        std::string A = field_mul(g.ftok, g.poly(da, g.pick_norm_shape()), G), B = field_mul(g.ftok, g.poly(db, g.pick_norm_shape()), G);
        for (const char* op : {"gcd", "gcdext", "lcm", "divmod", "pdivmod", "pmod", "isdiv"}) if (!karaonly || std::string(op) == "gcdext") g.emit(op, {A, B});
        g.emit("divmod", {A, G}); g.emit("modin", {A, G});
    }
    // ---------------- around the algorithm switch points and power-of-two degree gaps (prime fields only: cost)
    if (!g.isQ) {
        std::set<long> sizes;
        for (long s : {T - 1, T, T + 1, T + 2, 2 * T, 2 * T + 1, 2 * T + 2, 2 * T + 3, 4 * T + 3}) if (s >= 1) sizes.insert(s);
        if (thorough) for (long s : {4 * T + 4, 4 * T + 5, 8 * T + 1, (long)150, (long)257, (long)400}) sizes.insert(s);
        std::vector<long> sz(sizes.begin(), sizes.end());
        for (size_t i = 0; i < sz.size(); ++i) for (size_t j = 0; j < sz.size(); ++j) {
            if (!thorough && ((i + 2 * j + g.rng.below(3)) % 3 != 0) && i != j) continue;
            if (sz[i] + sz[j] > (thorough ? 620 : 330)) continue;
            int sh = (int)g.rng.below(3) == 0 ? 2 : 0;
            std::string A = g.poly(sz[i] - 1, sh), B = g.poly(sz[j] - 1, 0);
            g.emit("mul", {A, B}); g.emit("karamul", {A, B});
            if (!karaonly) g.emit("stdmul", {A, B});
            if (sz[i] >= sz[j]) { g.emit("divmod", {A, B}); g.emit("midmul", {A, B}); if (!karaonly) { g.emit("modin", {A, B}); g.emit("pmod", {A, B}); } }
            if (sz[i] == 2 * sz[j] - 1) g.emit("karamidmul", {A, B});
            long tot = sz[i] + sz[j] - 2, lo = (long)g.rng.below(tot + 1), hi = lo + (long)g.rng.below(tot + 1 - lo);
            if (!karaonly) g.emit("multr", {A, B, H(lo), H(hi)});
        }
        for (long s : sz) { if (s > (thorough ? 401 : 210)) continue; g.emit("sqr", {g.poly(s - 1, 0)}); g.emit("sqr", {g.poly(s - 1, 2)}); }
        // division with deg A - deg B + 1 in {2^k - 1, 2^k, 2^k + 1}
        for (long k = 1; k <= (thorough ? 8 : 6); ++k) for (long dl = -1; dl <= 1; ++dl) {
            long q = (1L << k) + dl; if (q < 1) continue;
            for (long db : {(long)1, (long)3, T + 1}) {
                if (!thorough && db > 3 && k > 5) continue;
                std::string A = g.poly(db + q - 1, 0), B = g.poly(db, g.rng.below(4) == 0 ? 2 : 0);
                g.emit("divmod", {A, B}); g.emit("div", {A, B});
                if (!karaonly) { g.emit("modin", {A, B}); g.emit("pdivmod", {A, B}); }
            }
        }
        // gcd / inverse of larger operands
        for (int rep = 0; rep < (thorough ? 10 : 3); ++rep) {
            long da = T + (long)g.rng.below(T + 4), db = 2 + (long)g.rng.below(T + 4);
            std::string A = g.poly(da, 0), B = g.poly(db, 0);
            g.emit("gcdext", {A, B}); g.emit("invmod", {A, B}); if (!karaonly) { g.emit("gcd", {A, B}); g.emit("lcm", {A, B}); }
            std::string e = H((long)g.rng.below(1000));
            if (!karaonly) g.emit("powmod", {A, e, B});
        }
    }
    // ---------------- interpolation, CRT (distinct points), p-adic conversion
    if (!karaonly) {
        Integer lim = g.isQ ? Integer(1000) : g.p;
        for (long n = 1; n <= (thorough ? 12 : 7); ++n) {
            if (!g.isQ && Integer(n) > lim) break;
            for (int rep = 0; rep < 2; ++rep) {
                std::set<std::string> seen; std::vector<std::string> xs, fs;
                int guard = 0;
                while ((long)xs.size() < n && guard++ < 1000) { std::string x = g.scalar(3 + (int)g.rng.below(5)); if (rep == 0 && xs.empty()) x = g.zero(); if (seen.insert(x).second) xs.push_back(x); }
                if ((long)xs.size() < n) continue;
                for (long i = 0; i < n; ++i) fs.push_back(g.scalar());
                g.emit("interp", {Gen::tok(xs), Gen::tok(fs)});
                g.emit("crt", {Gen::tok(xs), Gen::tok(fs)});
                g.emit("rtr", {Gen::tok(xs), g.poly((long)g.rng.below(n + 2) - 1, g.pick_norm_shape())});
            }
        }
        // Newton interpolation: no point at all, one point, and longer divided-difference columns (fields large enough)
        g.emit("interp", {"[]", "[]"});
        for (long n : {(long)16, (long)33, (long)64}) {
            if (g.isQ ? n > 16 : Integer(4 * n) > g.p) continue;
            if (!thorough && n > 33) continue;
            std::set<std::string> seen; std::vector<std::string> xs, fs;
            int guard = 0;
            while ((long)xs.size() < n && guard++ < 100000) { std::string x = g.isQ ? vp::hex_ll((long long)xs.size() - 5) + "/1" : g.scalar(5); if (seen.insert(x).second) xs.push_back(x); }
            if ((long)xs.size() < n) continue;
            // values of a polynomial of low degree (the top of the column must vanish) or arbitrary values
            for (long i = 0; i < n; ++i) fs.push_back(g.isQ ? g.scalar((int)g.rng.below(4)) : g.scalar());
            g.emit("interp", {Gen::tok(xs), Gen::tok(fs)});
            g.emit("crt", {Gen::tok(xs), Gen::tok(fs)});
            std::vector<std::string> cst(n, g.nz());
            g.emit("interp", {Gen::tok(xs), Gen::tok(cst)});
        }
        if (g.ftok.compare(0, 2, "p:") == 0)
            for (int rep = 0; rep < (thorough ? 60 : 20); ++rep) {
                long d = (long)g.rng.below(12);
                g.emit("padic_eval", {g.poly(rep == 4 ? -1 : d, g.pick_norm_shape())});
                if (rep % 4 == 1) g.emit("convertvec", {g.poly(d, -1)});
                if (g.p > 16 && rep % 2 == 1) {   // geometric interpolation: enough points, and more than enough
                    long dg = (long)g.rng.below(6) - 1;
                    g.emit("interpgeom", {g.poly(dg, g.pick_norm_shape()), vp::hex_ll((dg < 0 ? 1 : dg + 1) + (long)g.rng.below(3))});
                }
                if (rep % 3 == 0) g.emit("padic_eval64", {g.poly((long)g.rng.below(3), g.pick_norm_shape())});
                {   // direct conversions: digit counts 0, 1, exactly enough, too few (value mod p^n), more than enough (padding zeros)
                    uint64_t v = rep < 3 ? (uint64_t)rep : (g.rng.next() >> (rep % 2 ? 8 : 40));
                    long nd = 1; { Integer q(g.p); while (q <= Integer(v)) { q *= g.p; ++nd; } }
                    long n = rep % 5 == 0 ? nd : rep % 5 == 1 ? nd + 2 : rep % 5 == 2 ? (nd > 1 ? nd - 1 : 0) : rep % 5 == 3 ? 1 : 0;
                    g.emit("padic_radixdirect", {vp::hex_ull(v), vp::hex_ll(n)});
                    long dmaxd = 0; { Integer q(g.p); while (q * g.p < (Integer(1) << 63)) { q *= g.p; ++dmaxd; } }
                    g.emit("padic_evaldirect", {g.poly(rep == 7 ? -1 : (long)g.rng.below(dmaxd + 1), -1)});
                }
                Integer e(0); for (uint64_t k = 1 + g.rng.below(3); k--;) { e <<= 32; e += Integer((uint64_t)(g.rng.next() >> 32)); }
                if (rep < 3) e = rep;
                if (e > 0) g.emit("padic_radix", {vp::hex(e.get_mpz())});
                if (rep % 2 == 0) {   // explicit digit count: exactly enough, and more than enough
                    long nd = 1; { Integer q(g.p); while (q <= e) { q *= g.p; ++nd; } }
                    g.emit("padic_radixn", {vp::hex(e.get_mpz()), vp::hex_ll(nd + (rep % 4 == 0 ? 0 : 3))});
                }
            }
    }
}

static void generate(std::vector<std::string>& lines, const std::string& tier, uint64_t seed, const std::string& profile) {
    Gen g(seed * 0x9E3779B97F4A7C15ULL + 12345);
    const bool thorough = (tier == "thorough");
    std::vector<std::string> fields = {"p:2", "p:3", "p:65", "p:fff1", "P:10000000000000000000000115", "Q"};   // 2, 3, 101, 65521, 2^100+277
    if (thorough) { fields.push_back("p:5"); fields.push_back("P:7fffffed"); }   // 2^31-19 through Modular<Integer> (above maxCardinality of Modular<int32_t>)
    if (profile == "kara") { fields = {"p:2", "p:65", "P:10000000000000000000000115", "Q"}; }
    for (auto& ft : fields) {
        g.ftok = ft; g.isQ = (ft == "Q");
        if (!g.isQ) mpz_set_str(g.p.get_mpz(), ft.c_str() + 2, 16);
        gen_field(g, tier, profile);
    }
    lines.swap(g.out);
}

int main(int argc, char** argv) {
    std::vector<std::string> lines;
    bool gen_only = false, from_stdin = true;
    if (argc >= 4 && std::string(argv[1]) == "gen") {
        gen_only = true; from_stdin = false;
        generate(lines, argv[2], strtoull(argv[3], nullptr, 10), argc >= 5 ? argv[4] : "");
    } else if (argc >= 3) {
        from_stdin = false;
        generate(lines, argv[1], strtoull(argv[2], nullptr, 10), argc >= 4 ? argv[3] : "");
    }
    if (gen_only) { for (auto& l : lines) { fputs(l.c_str(), stdout); fputc('\n', stdout); } return 0; }
    if (from_stdin) {
        vp::Args a;
        while (vp::read_line(std::cin, a)) {
            std::string o = run_line(a.tok);
            fputs(o.c_str(), stdout); fputc('\n', stdout); fflush(stdout);
        }
        return 0;
    }
    for (auto& l : lines) {
        Toks t; std::istringstream ss(l); std::string w; while (ss >> w) t.push_back(w);
        std::string o = run_line(t);
        fputs(o.c_str(), stdout); fputc('\n', stdout); fflush(stdout);
    }
    return 0;
}
