// Correspondence harness for C12: calls the real primality / factorisation code of the working tree in-process
// (IntPrimeDom, IntFactorDom<GivRandom>, Protected::{next,prev}prime, Primes16) and prints one line per case:
//     <key> <n> = <results…>        numbers in hex, '-' prefix for negatives;   "= TIMEOUT" / "= SIGNAL" when the call did not return / raised SIGFPE
// argv = <tier> <seed> : generate the cases (every random choice from the seed);  no argv: run the lines `key n` read from stdin.
#include "proto.h"
#include <gmp++/gmp++.h>
#include <givaro/givinteger.h>
#include <givaro/givintprime.h>
#include <givaro/givintfactor.h>
#include <givaro/givrandom.h>
#include <givaro/givprimes16.h>
#include <givaro/givrandom.h>
#include <csetjmp>
#include <sstream>
#include <csignal>
#include <list>
#include <string>
#include <unistd.h>
#include <vector>

using namespace Givaro;

static IntPrimeDom IP;
static FermatDom FD;
static GivRandom* GENp = nullptr;      // generator handed to Lenstra / Pollard / Miller / Lehmann
static IntFactorDom<GivRandom>* IFp = nullptr;
static sigjmp_buf JB;
static volatile sig_atomic_t armed = 0;
static unsigned CASE_TIMEOUT = 20;

static void on_alarm(int) { if (armed) siglongjmp(JB, 1); }
static void on_fpe(int) { if (armed) siglongjmp(JB, 2); _exit(70); }    // GMP raises SIGFPE (e.g. even root of a negative number)

static std::string hz(const Integer& x) { return vp::hex(x.get_mpz_const()); }
static Integer fromhex(const std::string& s) { Integer r; mpz_set_str(r.get_mpz(), s.c_str(), 16); return r; }

static size_t NLINES = 0;
static void put(const std::string& key, const Integer& n, const std::string& res) {
    std::string o = key + " " + hz(n) + " = " + res + "\n";
    fputs(o.c_str(), stdout);
    if ((++NLINES & 1023) == 0) fflush(stdout);
}

// one case; returns the result text
static std::string call(const std::string& key, const Integer& n) {
    IntFactorDom<GivRandom>& IF = *IFp;
    if (key == "isprime") return vp::hex_ll(IP.isprime(n));
    if (key == "nextprime") { Integer r(-7); IP.nextprime(r, n); return hz(r); }
    if (key == "prevprime") { Integer r(-7); IP.prevprime(r, n); return hz(r); }
    if (key == "nextprimein") { Integer r(n); IP.nextprimein(r); return hz(r); }
    if (key == "prevprimein") { Integer r(n); IP.prevprimein(r); return hz(r); }
    if (key == "Pnextprime") { Integer r(-7); Protected::nextprime(r, n); return hz(r); }
    if (key == "Pprevprime") { Integer r(-7); Protected::prevprime(r, n); return hz(r); }
    if (key == "factor") { Integer r(-7); IF.factor(r, n); return hz(r); }
    if (key == "iffactorprime") { Integer r(-7); IF.iffactorprime(r, n); return hz(r); }
    if (key == "primefactor") { Integer r(-7); IF.primefactor(r, n); return hz(r); }
    if (key == "set") {
        std::vector<Integer> Lf; std::vector<unsigned long> Lo;
        bool c = IF.set(Lf, Lo, n);
        std::string s = std::string(c ? "1" : "0") + " " + vp::hex_ull(Lf.size());
        for (size_t i = 0; i < Lf.size(); ++i) s += " " + hz(Lf[i]) + " " + vp::hex_ull(i < Lo.size() ? Lo[i] : 0);
        return s;
    }
    if (key == "set1") {
        std::vector<Integer> Lf;
        IF.set(Lf, n);
        std::string s = vp::hex_ull(Lf.size());
        for (size_t i = 0; i < Lf.size(); ++i) s += " " + hz(Lf[i]);
        return s;
    }
    if (key == "divisors") {
        std::list<Integer> Lf; std::vector<unsigned long> Lo;
        IF.set(Lf, Lo, n);
        std::list<Integer> L, L2;
        IF.divisors(L, Lf, Lo);          // determined by (Lf, Lo)
        IF.divisors(L2, n);              // factors internally
        std::string s = vp::hex_ull(Lf.size());
        size_t i = 0;
        for (auto& f : Lf) { s += " " + hz(f) + " " + vp::hex_ull(i < Lo.size() ? Lo[i] : 0); ++i; }
        s += " " + vp::hex_ull(L.size());
        for (auto& d : L) s += " " + hz(d);
        s += " " + vp::hex_ull(L2.size());
        for (auto& d : L2) s += " " + hz(d);
        return s;
    }
    if (key == "isprimepower") {
        Integer q(0);
        unsigned int e = IP.isprimepower(q, n);
        return vp::hex_ull(e) + " " + (e ? hz(q) : std::string("0"));
    }
    if (key == "p16") { return vp::hex_ull(Primes16::ith((size_t)(uint64_t)n)); }
    return "NOFUNC";
}

static void run(const std::string& key, const Integer& n) {
    if (key == "isprime" || key == "p16") { put(key, n, call(key, n)); return; }
    if (key == "p16count") { std::string o = "p16count = " + vp::hex_ull(Primes16::count()) + "\n"; fputs(o.c_str(), stdout); return; }
    int why = sigsetjmp(JB, 1);
    if (why == 0) {
        armed = 1;
        alarm(CASE_TIMEOUT);
        std::string r = call(key, n);
        alarm(0);
        armed = 0;
        put(key, n, r);
    } else {
        armed = 0;
        alarm(0);
        put(key, n, why == 2 ? "SIGNAL" : "TIMEOUT");
        fflush(stdout);
    }
}

// set(Lf, Lo, n, loops) with a bound on the rho iterations: "setl <n> <loops> = <complete> <k> f1 e1 …"
static void run_setl(const Integer& n, unsigned long loops) {
    IntFactorDom<GivRandom>& IF = *IFp;
    std::string head = "setl " + hz(n) + " " + vp::hex_ull(loops) + " = ";
    int why = sigsetjmp(JB, 1);
    if (why == 0) {
        armed = 1;
        alarm(CASE_TIMEOUT);
        std::vector<Integer> Lf; std::vector<unsigned long> Lo;
        bool c = IF.set(Lf, Lo, n, loops);
        alarm(0);
        armed = 0;
        std::string s = std::string(c ? "1" : "0") + " " + vp::hex_ull(Lf.size());
        for (size_t i = 0; i < Lf.size(); ++i) s += " " + hz(Lf[i]) + " " + vp::hex_ull(i < Lo.size() ? Lo[i] : 0);
        fputs((head + s + "\n").c_str(), stdout);
    } else {
        armed = 0;
        alarm(0);
        fputs((head + (why == 2 ? "SIGNAL" : "TIMEOUT") + "\n").c_str(), stdout);
        fflush(stdout);
    }
}


// strict parser of IntFactorDom::write's text:  ['-'] ( NUM | FACT (" * " FACT)* ),  FACT = NUM ['^' NUM]   (decimal)
static bool parse_write(const std::string& t, bool& neg, std::vector<std::pair<Integer, Integer>>& fs) {
    size_t i = 0;
    neg = false; fs.clear();
    if (i < t.size() && t[i] == '-') { neg = true; ++i; }
    auto num = [&](Integer& v) -> bool {
        size_t j = i;
        while (j < t.size() && t[j] >= '0' && t[j] <= '9') ++j;
        if (j == i || (t[i] == '0' && j > i + 1)) return false;
        v = Integer(t.substr(i, j - i).c_str());
        i = j;
        return true;
    };
    for (;;) {
        Integer p, e(1);
        if (!num(p)) return false;
        if (i < t.size() && t[i] == '^') { ++i; if (!num(e)) return false; if (e < 2) return false; }   // "^1" is never printed
        fs.push_back(std::make_pair(p, e));
        if (i == t.size()) return true;
        if (t.compare(i, 3, " * ") != 0) return false;
        i += 3;
    }
}

// the first value mpz_urandomm gives below `bound` from a default GMP state seeded with `seed` -- what IntegerDom::random(g, r, bound)
// draws right after Integer::seeding(seed) (recomputed here with a state of our own: the library's state is not read)
static Integer draw_below(uint64_t seed, const Integer& bound) {
    Integer r(0);
    if (bound <= 0) return r;
    gmp_randstate_t st;
    gmp_randinit_default(st);
    gmp_randseed_ui(st, (unsigned long)seed);
    mpz_urandomm(r.get_mpz(), st, bound.get_mpz_const());
    gmp_randclear(st);
    return r;
}

// multi-argument cases:  "<key> a0 a1 … = …"
static std::string callv(const std::string& key, const std::vector<Integer>& a) {
    IntFactorDom<GivRandom>& IF = *IFp;
    GivRandom& gen = *GENp;
    const Integer& n = a[0];
    if (key == "lenstra") {        // Lenstra(gen, g, n, B1, curves): a divisor, or -1 (and a message on stderr) when every curve fails
        Integer g(-7);
        std::streambuf* old = std::cerr.rdbuf(nullptr);
        IF.Lenstra(gen, g, n, a[1], (unsigned long)(uint64_t)a[2]);
        std::cerr.rdbuf(old);
        return hz(g);
    }
    if (key == "pollard") { Integer g(-7); IF.Pollard(gen, g, n, (unsigned long)(uint64_t)a[1]); return hz(g); }
    if (key == "pollards") {       // Pollard(gen, g, n, loops) right after Integer::seeding(seed); the start values it draws (one mpz_urandomm(n) per
        uint64_t sd = (uint64_t)a[2];          // (re)try) are recomputed with a GMP state of our own:  "pollards n loops seed = k y0 … y(k-1) g"
        const int K = 8;
        std::string ys;
        if (n >= 3) {
            gmp_randstate_t st; gmp_randinit_default(st); gmp_randseed_ui(st, (unsigned long)sd);
            for (int i = 0; i < K; ++i) { Integer y; mpz_urandomm(y.get_mpz(), st, n.get_mpz_const()); ys += " " + hz(y); }
            gmp_randclear(st);
        } else for (int i = 0; i < K; ++i) ys += " 0";
        Integer::seeding(sd);
        Integer g(-7);
        IF.Pollard(gen, g, n, (unsigned long)(uint64_t)a[1]);
        return vp::hex_ull(K) + ys + " " + hz(g);
    }
    if (key == "factorl") { Integer r(-7); IF.factor(r, n, (unsigned long)(uint64_t)a[1]); return hz(r); }                  // the overloads with a bound
    if (key == "iffactorprimel") { Integer r(-7); std::streambuf* old = std::cerr.rdbuf(nullptr); IF.iffactorprime(r, n, (unsigned long)(uint64_t)a[1]); std::cerr.rdbuf(old); return hz(r); }   // on Pollard's loops
    if (key == "fermat") { Integer f(-7); FD.fermat(f, (size_t)(uint64_t)n); return hz(f); }
    if (key == "pepin") { return FD.pepin((size_t)(uint64_t)n) ? "1" : "0"; }
    if (key == "isprimer") return vp::hex_ll(IP.isprime(n, (int)(int64_t)a[1]));
    if (key == "localprime") return vp::hex_ll(IP.local_prime(n, (int)(int64_t)a[1]));
    if (key == "tabule") return vp::hex_ll(IP.isprime_Tabule((int)(int64_t)n));
    if (key == "tabule2") return vp::hex_ll(IP.isprime_Tabule2((int)(int64_t)n));
    if (key == "miller") return vp::hex_ull(IP.Miller(gen, n));                       // the base is drawn inside (Integer::random, global GMP state):
    if (key == "lehmann") { Integer r(-7); IP.test_Lehmann(gen, r, n); return hz(r); }   // not observable, so these are certified one-sidedly
    if (key == "lehmannb") return vp::hex_ll(IP.Lehmann(gen, n));
    // ---- the same tests with the base they draw made observable: the library generator is seeded, the base is recomputed
    //      "millers n seed = base v"      "lehmanns n seed = base r v"  (r = test_Lehmann's value, v = Lehmann's answer)
    if (key == "millers") {
        uint64_t sd = (uint64_t)a[1];
        Integer base = n >= 4 ? draw_below(sd, n - 3) + 2 : Integer(0);
        Integer::seeding(sd);
        unsigned int v = IP.Miller(gen, n);
        return hz(base) + " " + vp::hex_ull(v);
    }
    if (key == "lehmanns") {
        uint64_t sd = (uint64_t)a[1];
        Integer base = n >= 2 ? draw_below(sd, n - 1) + 1 : Integer(0);
        Integer r(0);
        if (n >= 2) { Integer::seeding(sd); IP.test_Lehmann(gen, r, n); }
        Integer::seeding(sd);
        int v = IP.Lehmann(gen, n);
        return hz(base) + " " + hz(r) + " " + vp::hex_ll(v);
    }
    if (key == "write") {          // write(o, Lf, n) and write(o, n): text parsed strictly, numbers handed to the driver
        std::ostringstream o1, o2;
        std::vector<Integer> Lf;
        IF.write(o1, Lf, n);
        IF.write(o2, n);
        bool neg, neg2; std::vector<std::pair<Integer, Integer>> fs, fs2;
        if (!parse_write(o1.str(), neg, fs) || !parse_write(o2.str(), neg2, fs2)) return "BADFMT";
        std::string s = std::string(neg ? "1" : "0") + " " + vp::hex_ull(fs.size());
        for (auto& f : fs) s += " " + hz(f.first) + " " + hz(f.second);
        s += " " + vp::hex_ull(Lf.size());
        for (auto& f : Lf) s += " " + hz(f);
        s += std::string(" ") + (neg2 ? "1" : "0") + " " + vp::hex_ull(fs2.size());
        for (auto& f : fs2) s += " " + hz(f.first) + " " + hz(f.second);
        return s;
    }
    // ---- container-output functions called with a PRE-FILLED / reused output container (previous result for another number m, plus junk):
    //      what they leave in the container must be what the model says (divisors: assignment, the old content is dropped;
    //      set / set(Lf,n) / Erathostene / write's Lf: push_back, the old entries stay in front, untouched)
    if (key == "divinto") {
        const Integer& m = a[1];
        std::list<Integer> Lf; std::vector<unsigned long> Lo;
        IF.set(Lf, Lo, n);
        std::list<Integer> L, L2;
        IF.divisors(L, m); L.push_back(Integer(0)); L.push_back(Integer(7)); L.push_back(Integer(7));
        L2 = L;
        IF.divisors(L, Lf, Lo);
        IF.divisors(L2, n);
        std::string s = vp::hex_ull(Lf.size());
        size_t i = 0;
        for (auto& f : Lf) { s += " " + hz(f) + " " + vp::hex_ull(i < Lo.size() ? Lo[i] : 0); ++i; }
        for (auto* l : {&L, &L2}) { s += " " + vp::hex_ull(l->size()); for (auto& d : *l) s += " " + hz(d); }
        return s;
    }
    if (key == "divalias") {       // divisors(Lf, Lf, Le): the output list is the list of factors itself
        std::list<Integer> Lf; std::vector<unsigned long> Lo;
        IF.set(Lf, Lo, n);
        std::string s = vp::hex_ull(Lf.size());
        size_t i = 0;
        for (auto& f : Lf) { s += " " + hz(f) + " " + vp::hex_ull(i < Lo.size() ? Lo[i] : 0); ++i; }
        IF.divisors(Lf, Lf, Lo);
        s += " " + vp::hex_ull(Lf.size());
        for (auto& d : Lf) s += " " + hz(d);
        return s;
    }
    if (key == "setinto") {
        const Integer& m = a[1];
        std::vector<Integer> Lf; std::vector<unsigned long> Lo;
        IF.set(Lf, Lo, m);
        Lf.push_back(Integer(9)); Lo.push_back(77); Lf.push_back(Integer(4)); Lo.push_back(1);
        std::vector<Integer> pf(Lf); std::vector<unsigned long> po(Lo);
        bool c = IF.set(Lf, Lo, n);
        std::string s = std::string(c ? "1" : "0") + " " + vp::hex_ull(pf.size());
        for (size_t i = 0; i < pf.size(); ++i) s += " " + hz(pf[i]) + " " + vp::hex_ull(po[i]);
        s += " " + vp::hex_ull(Lf.size()) + " " + vp::hex_ull(Lo.size());
        for (size_t i = 0; i < Lf.size(); ++i) s += " " + hz(Lf[i]) + " " + vp::hex_ull(i < Lo.size() ? Lo[i] : 0);
        return s;
    }
    if (key == "set1into" || key == "eratinto" || key == "writeinto") {
        const Integer& m = a[1];
        std::vector<Integer> Lf;
        std::ostringstream o1, o2;
        std::streambuf* old = std::cerr.rdbuf(nullptr);
        if (key == "set1into") IF.set(Lf, m); else if (key == "eratinto") IF.Erathostene(Lf, m); else IF.write(o1, Lf, m);
        Lf.push_back(Integer(9)); Lf.push_back(Integer(0)); Lf.push_back(Integer(9));
        std::vector<Integer> pf(Lf);
        if (key == "set1into") IF.set(Lf, n); else if (key == "eratinto") IF.Erathostene(Lf, n); else IF.write(o2, Lf, n);
        std::cerr.rdbuf(old);
        std::string s = vp::hex_ull(pf.size());
        for (auto& x : pf) s += " " + hz(x);
        s += " " + vp::hex_ull(Lf.size());
        for (auto& x : Lf) s += " " + hz(x);
        return s;
    }
    if (key == "erat") {           // Erathostene(Lf, p): the sieve variant ("valid for p < BOUNDARY_factor")
        std::vector<Integer> Lf;
        std::streambuf* old = std::cerr.rdbuf(nullptr);
        IF.Erathostene(Lf, n);
        std::cerr.rdbuf(old);
        std::string s = vp::hex_ull(Lf.size());
        for (auto& f : Lf) s += " " + hz(f);
        return s;
    }
#ifdef GIVARO_LENSTRA
    if (key == "factorL") { Integer r(-7); std::streambuf* old = std::cerr.rdbuf(nullptr); IF.factor(r, n); std::cerr.rdbuf(old); return hz(r); }
    if (key == "setL") {
        std::vector<Integer> Lf; std::vector<unsigned long> Lo;
        std::streambuf* old = std::cerr.rdbuf(nullptr);
        bool c = IF.set(Lf, Lo, n);
        std::cerr.rdbuf(old);
        std::string s = std::string(c ? "1" : "0") + " " + vp::hex_ull(Lf.size());
        for (size_t i = 0; i < Lf.size(); ++i) s += " " + hz(Lf[i]) + " " + vp::hex_ull(i < Lo.size() ? Lo[i] : 0);
        return s;
    }
#endif
    return "NOFUNC";
}

static void runv(const std::string& key, const std::vector<Integer>& a) {
    std::string head = key;
    for (auto& x : a) head += " " + hz(x);
    head += " = ";
    int why = sigsetjmp(JB, 1);
    if (why == 0) {
        armed = 1;
        alarm(CASE_TIMEOUT);
        std::string r = callv(key, a);
        alarm(0);
        armed = 0;
        fputs((head + r + "\n").c_str(), stdout);
        if ((++NLINES & 1023) == 0) fflush(stdout);
    } else {
        armed = 0;
        alarm(0);
        fputs((head + (why == 2 ? "SIGNAL" : "TIMEOUT") + "\n").c_str(), stdout);
        fflush(stdout);
    }
}
static bool is_vkey(const std::string& k) {
    for (const char* v : {"lenstra", "pollard", "fermat", "pepin", "isprimer", "localprime", "tabule", "tabule2", "miller", "lehmann", "lehmannb", "millers", "lehmanns", "factorl", "iffactorprimel", "pollards",
                          "write", "erat", "factorL", "setL", "divinto", "divalias", "setinto", "set1into", "eratinto", "writeinto"}) if (k == v) return true;
    return false;
}

// ------------------------------------------------------------------------------------------------------------------
// generators
// ------------------------------------------------------------------------------------------------------------------
static Integer gmp_nextprime(const Integer& a) { Integer r; mpz_nextprime(r.get_mpz(), a.get_mpz_const()); return r; }
static Integer pw(const Integer& b, unsigned e) { Integer r; mpz_pow_ui(r.get_mpz(), b.get_mpz_const(), e); return r; }
static Integer rnd_bits(vp::Rng& g, unsigned bits) {
    Integer r(0);
    for (unsigned i = 0; i < (bits + 63) / 64; ++i) { r <<= 64; r += Integer((uint64_t)g.next()); }
    Integer m = pw(Integer(2), bits);
    r %= m;
    Integer top = pw(Integer(2), bits - 1);
    if (r < top) r += top;
    return r;
}

static const char* PSP[] = {   // strong pseudoprimes to the first k prime bases (psi_1 … psi_12), and other classics
    "2047", "1373653", "25326001", "3215031751", "2152302898747", "3474749660383", "341550071728321",
    "3825123056546413051", "318665857834031151167461",
    "4759123141", "1122004669633", "4295032833", "18446744030759878681", "18446744047939747781", "18446744073709551557",
    "18446744073709551533", "18446744073709551521", "9223372036854775783", "9223372036854775643", "4294967291", "4294967311",
    "2147483647", "2147483629", "4611686014132420609", "18446744065119617025", "1000036000099", "999999999989", "65537", "65539", "65543",
    "4295098369", "4295229443", "4295360521", "1194649", "12327121", "3277", "4033", "4681", "8321", "3279", "5777", "10877", "75077"};
static const char* CARMICHAEL[] = {"561", "1105", "1729", "2465", "2821", "6601", "8911", "10585", "15841", "29341", "41041", "46657", "52633",
    "62745", "63973", "75361", "101101", "115921", "126217", "162401", "172081", "188461", "252601", "278545", "294409", "314821", "334153",
    "340561", "399001", "410041", "449065", "488881", "512461", "9746347772161", "1436697831295441", "60977817398996785",
    "7156857700403137441", "1791562810662585767521", "87674969936234821377601"};

static void gen(const std::string& tier, uint64_t seed) {
    const bool th = (tier == "thorough");
    vp::Rng g(seed * 0x9E3779B97F4A7C15ULL + 12);
    CASE_TIMEOUT = th ? 120 : 30;
    // ---- Primes16
    run("p16count", Integer(0));
    for (size_t i = 0; i < Primes16::count() && i < 7000; ++i) run("p16", Integer((uint64_t)i));
    // ---- isprime: the whole tabulated range and its surroundings, exhaustively
    for (long n = -70; n < 65536 + 64; ++n) run("isprime", Integer((int64_t)n));
    std::vector<Integer> big;     // 64-bit and larger grid
    for (int e : {20, 31, 32, 33, 48, 53, 62, 63, 64})
        for (long d = -40; d <= 40; ++d) big.push_back(pw(Integer(2), (unsigned)e) + Integer((int64_t)d));
    for (auto s : PSP) big.push_back(Integer(s));
    for (auto s : CARMICHAEL) big.push_back(Integer(s));
    for (int i = 0; i < (th ? 4000 : 400); ++i) {      // n = p*q near 2^32 and 2^64, p^2, primes
        unsigned b = (i & 1) ? 32 : 16;
        Integer p = gmp_nextprime(pw(Integer(2), b) - Integer((uint64_t)g.below(1u << 14)));
        Integer q = gmp_nextprime(pw(Integer(2), b) - Integer((uint64_t)g.below(1u << 14)));
        big.push_back(p * q); big.push_back(p * p); big.push_back(p); big.push_back(p * q + 2);
    }
    for (int i = 0; i < (th ? 40000 : 3000); ++i) {    // random odd/any numbers of 17..64 bits; random primes
        unsigned b = 17 + (unsigned)g.below(48);
        Integer r = rnd_bits(g, b);
        big.push_back(r | Integer(1));
        if ((i & 7) == 0) big.push_back(gmp_nextprime(r));
        if ((i & 31) == 0) big.push_back(rnd_bits(g, 65 + (unsigned)g.below(16)) | Integer(1));
    }
    for (auto& n : big) run("isprime", n);
    // negative arguments: small, around -2^31, -2^32 (where (int32_t)convert wraps onto table entries), -2^63, -2^64
    for (int e : {31, 32, 33, 63, 64})
        for (long d = -40; d <= 40; ++d) run("isprime", Integer((int64_t)d) - pw(Integer(2), (unsigned)e));
    for (int i = 0; i < 60; ++i) run("isprime", -big[(size_t)g.below(big.size())]);
    // ---- nextprime / prevprime: every p of the tabulated range; the in-place and GMP-level variants on sub-ranges
    for (long p = -5; p < 65536 + 64; ++p) { run("nextprime", Integer((int64_t)p)); run("prevprime", Integer((int64_t)p)); }
    for (long p = -5; p < 65536 + 64; ++p) {
        bool sub = p < 3000 || (p > 32700 && p < 32850) || (p > 65450 && p < 65600) || th;
        if (!sub) continue;
        for (const char* k : {"nextprimein", "prevprimein", "Pnextprime", "Pprevprime"}) run(k, Integer((int64_t)p));
    }
    for (size_t i = 0; i < big.size(); i += (th ? 3 : 23)) {
        if (big[i] > pw(Integer(2), 70)) continue;
        for (const char* k : {"nextprime", "prevprime", "nextprimein", "prevprimein", "Pnextprime", "Pprevprime"}) run(k, big[i]);
    }
    fflush(stdout);
    // ---- factorisation
    std::vector<Integer> fa;
    for (long n = -40; n < (th ? 20000 : 2500); ++n) fa.push_back(Integer((int64_t)n));
    for (auto s : CARMICHAEL) fa.push_back(Integer(s));
    const unsigned long SP[] = {2, 3, 5, 7, 11, 13, 17, 19, 23, 29, 31, 37, 41, 43, 47, 53, 59, 61, 67, 71, 73, 79, 83, 89, 97, 101, 103, 107, 109,
                                113, 127, 251, 257, 997, 1009, 1013, 32749, 32771, 65521, 65537};
    const size_t NSP = sizeof SP / sizeof SP[0];
    for (int i = 0; i < (th ? 3000 : 300); ++i) {      // products of small primes with multiplicity
        Integer n(1);
        int k = 1 + (int)g.below(5);
        for (int j = 0; j < k; ++j) n *= pw(Integer((uint64_t)SP[g.below(NSP)]), 1 + (unsigned)g.below(4));
        fa.push_back(n);
    }
    for (size_t i = 0; i < NSP; ++i) for (unsigned e : {1u, 2u, 3u, 7u}) fa.push_back(pw(Integer((uint64_t)SP[i]), e));   // prime powers
    for (int i = 0; i < (th ? 300 : 60); ++i) {        // semiprimes p*q, p^2*q: factors of 17..32 bits; thorough: ten with factors up to 40 bits (n up to 2^80)
        unsigned span = (th && i < 4) ? 24 : 16;
        unsigned b1 = 17 + (unsigned)g.below(span), b2 = 17 + (unsigned)g.below(span);
        Integer p = gmp_nextprime(rnd_bits(g, b1)), q = gmp_nextprime(rnd_bits(g, b2));
        fa.push_back(p * q);
        if ((i & 3) == 0) fa.push_back(p * p * q);
        if ((i & 7) == 0) fa.push_back(p * q * Integer((uint64_t)SP[g.below(NSP)]));
        if ((i & 15) == 0) fa.push_back(p);
    }
    for (int i = 0; i < (th ? 12 : 4); ++i) {          // two primes near 2^32 (n near 2^64), squares of such primes, primes around the table boundary 2^16
        Integer p = gmp_nextprime(pw(Integer(2), 32) - Integer((uint64_t)g.below(1u << 14)));
        Integer q = gmp_nextprime(pw(Integer(2), 32) + Integer((uint64_t)g.below(1u << 14)));
        fa.push_back(p * q); fa.push_back(p * p);
        if (i == 0) { fa.push_back(q * q); fa.push_back(p * q * 2); fa.push_back(p * p * 9); }
    }
    for (const char* t : {"4293001441", "4295098369", "4294049777", "4611686014132420609", "9223372030412324863", "18446744030759878681"}) fa.push_back(Integer(t));   // 65521^2, 65537^2, 65521*65537, (2^31-1)^2, (2^31-1)*(2^32-5), (2^32-5)^2
    fa.push_back(Integer("18446744073709551617"));   // F6 = 274177 * 67280421310721
    fa.push_back(Integer("1208907372870555465154561"));
    size_t nf = fa.size();
    for (size_t i = 40; i < nf; i += 7) fa.push_back(-fa[i]);
    // numbers above 2^68 (factors up to 40 bits: ~2^20 rho steps per factorisation) go through set / factor / iffactorprime only
    auto heavy = [](const Integer& n) { return abs(n) > pw(Integer(2), 68); };
    for (auto& n : fa) {
        run("set", n);
        run("factor", n);
        run("iffactorprime", n);
        if (heavy(n)) continue;
        if (n != 1) run("primefactor", n);      // primefactor(1) has no answer: `while (iffactorprime(r,1)==1 && !isprime(1)) {}` (reported separately)
        run("divisors", n);
        run("set1", n);
    }
    // factor / iffactorprime with an explicit bound on Pollard's loops (0 = unbounded, the default argument)
    for (size_t i = 0; i < fa.size(); i += (th ? 2 : 7))
        for (unsigned long loops : {0UL, 1UL, 3UL, 100UL, 100000UL}) if (!heavy(fa[i])) {
            runv("factorl", {fa[i], Integer((uint64_t)loops)});
            runv("iffactorprimel", {fa[i], Integer((uint64_t)loops)});
        }
    // the loops-bounded variant: small bounds make Pollard give up (partial contract), large ones complete
    for (size_t i = 0; i < fa.size(); i += (th ? 3 : 11))
        for (unsigned long loops : {1UL, 2UL, 3UL, 7UL, 40UL, 5000UL}) if (!heavy(fa[i])) run_setl(fa[i], loops);
    fflush(stdout);
    // ---- prime-power test
    std::vector<Integer> pp;
    for (long n = -300; n < (th ? 200000 : 70000); ++n) pp.push_back(Integer((int64_t)n));
    const unsigned long PB[] = {2, 3, 5, 7, 11, 13, 31, 97, 251, 991, 997, 1009, 1013, 1019, 32749, 32771, 65521, 65537, 2147483647UL, 4294967311UL};
    for (unsigned long p : PB)
        for (unsigned e = 1; e <= (th ? 40u : 16u); ++e) {
            Integer v = pw(Integer((uint64_t)p), e);
            if (v > pw(Integer(2), th ? 600 : 260)) break;
            pp.push_back(v); pp.push_back(-v); pp.push_back(v + 1); pp.push_back(v - 1); pp.push_back(v * 2); pp.push_back(v * 3);
            pp.push_back(v * Integer((uint64_t)PB[g.below(sizeof PB / sizeof PB[0])]));
        }
    for (int i = 0; i < (th ? 600 : 80); ++i) {
        Integer p = gmp_nextprime(rnd_bits(g, 11 + (unsigned)g.below(30)));
        unsigned e = 2 + (unsigned)g.below(8);
        pp.push_back(pw(p, e)); pp.push_back(pw(p, e) * gmp_nextprime(p)); pp.push_back(p);
    }
    for (auto& n : pp) run("isprimepower", n);
    fflush(stdout);
    // ---- Fermat numbers and Pepin's test
    for (unsigned n = 0; n <= (th ? 14u : 12u); ++n) { runv("fermat", {Integer((uint64_t)n)}); runv("pepin", {Integer((uint64_t)n)}); }
    // ---- the table searches called directly (public members), inside their domains
    for (long n = 0; n < 32768; n += (th ? 1 : 7)) runv("tabule", {Integer((int64_t)n)});
    for (long n = 32768; n < 65536; n += (th ? 1 : 7)) runv("tabule2", {Integer((int64_t)n)});
    // ---- isprime(n, r) / local_prime(n, r) for the repetition counts the API accepts; Miller, Lehmann with the base they draw
    const long REPS[] = {1, 2, 5, 10, 25, 50};
    for (size_t i = 0; i < big.size(); i += (th ? 5 : 37))
        for (long r : REPS) {
            runv("isprimer", {big[i], Integer((int64_t)r)});
            if (big[i] >= 65536) runv("localprime", {big[i], Integer((int64_t)r)});
        }
    for (long n = -3; n < 300; ++n) for (long r : {1L, 25L}) runv("isprimer", {Integer((int64_t)n), Integer((int64_t)r)});
    for (long n = 2; n < 60; ++n) for (int rep = 0; rep < 40; ++rep) { runv("miller", {Integer((int64_t)n)}); runv("lehmann", {Integer((int64_t)n)}); }   // small n: every base gets drawn
    for (long n = -3; n < (th ? 3000 : 1200); ++n) for (const char* k : {"miller", "lehmann", "lehmannb"}) {
        if (n < 2 && std::string(k) == "lehmann") continue;      // test_Lehmann draws a base below n: meaningless (division by zero) for n < 1
        runv(k, {Integer((int64_t)n)});
    }
    for (size_t i = 0; i < big.size(); i += (th ? 3 : 17)) for (const char* k : {"miller", "lehmann", "lehmannb"}) runv(k, {big[i]});
    fflush(stdout);
    // ---- Miller / Lehmann with the base observable (generator seeded per case, base recomputed): small n with so many seeds that every
    //      base of [2,n-2] resp. [1,n-1] is drawn (liars included); the guards n < 4; strong pseudoprimes / Carmichael numbers / the 64-bit grid
    // (each case costs two or three seedings of GMP's Mersenne twister, ~1 ms under the sanitizers: the counts are sized for that)
    for (long n = -3; n < (th ? 600 : 200); ++n) {
        long reps = n < 4 ? 2 : (n < 40 ? 5 * n : (th ? 30 : 14));
        for (long sd = 0; sd < reps; ++sd) for (const char* k : {"millers", "lehmanns"}) runv(k, {Integer((int64_t)n), Integer((int64_t)(sd * 7919 + n + 10))});
    }
    for (auto s : PSP) for (int sd = 0; sd < (th ? 60 : 24); ++sd) for (const char* k : {"millers", "lehmanns"}) runv(k, {Integer(s), Integer((uint64_t)g.below(1u << 30))});
    for (auto s : CARMICHAEL) for (int sd = 0; sd < (th ? 60 : 24); ++sd) for (const char* k : {"millers", "lehmanns"}) runv(k, {Integer(s), Integer((uint64_t)g.below(1u << 30))});
    for (size_t i = 0; i < big.size(); i += (th ? 4 : 7)) for (const char* k : {"millers", "lehmanns"}) runv(k, {big[i], Integer((uint64_t)g.below(1u << 30))});
    fflush(stdout);
    // ---- Pollard and Lenstra called directly; write; the sieve variant
    for (size_t i = 0; i < fa.size(); i += (th ? 2 : 5)) {
        const Integer& n = fa[i];
        if (heavy(n)) continue;
        // Pollard directly, on the arguments `factor` hands it (no prime factor below 100) and on n < 3 / primes: with a small prime
        // factor the rho iteration x^2+1 can fail for every start (n = 4, 25) and the retry recursion never ends (stack overflow) --
        // outside what factor() ever passes; reported in the notes of the check, not exercised
        {
            Integer g1, g2;
            bool dom = n < 3 || (isOne(gcd(g1, n, Integer(223092870))) && isOne(gcd(g2, n, Integer("10334565887047481278774629361"))));
            if (dom) for (unsigned long loops : {0UL, 1UL, 3UL, 100UL}) runv("pollard", {n, Integer((uint64_t)loops)});
            // the same with the generator seeded, so that the start values of the rho iteration are known to the model
            if (dom) for (unsigned long loops : {0UL, 1UL, 2UL, 3UL, 4UL, 5UL, 9UL, 17UL, 100UL, 100000UL}) runv("pollards", {n, Integer((uint64_t)loops), Integer((uint64_t)g.below(1u << 30))});
        }
        runv("lenstra", {n, Integer(2000), Integer(8)});
        if ((i % 3) == 0) runv("lenstra", {n, Integer(30), Integer(2)});       // a bound so small that the documented failure value is produced
        runv("write", {n});
    }
    {   // rho on every product of two primes of {101 … 199} (squares included: the iteration fails with g = n for some starts and is retried),
        // several seeds and bounds each
        const unsigned long R[] = {101, 103, 107, 109, 113, 127, 131, 137, 139, 149, 151, 157, 163, 167, 173, 179, 181, 191, 193, 197, 199};
        for (unsigned long p1 : R) for (unsigned long p2 : R) if (p1 <= p2 && (th || ((p1 + p2) % 3 == 0) || p1 == p2))
            for (int sd = 0; sd < (th ? 6 : 2); ++sd)
                for (unsigned long loops : {0UL, 2UL, 6UL, 40UL}) runv("pollards", {Integer((uint64_t)(p1 * p2)), Integer((uint64_t)loops), Integer((uint64_t)g.below(1u << 30))});
        for (unsigned long p1 : R) runv("pollards", {Integer((uint64_t)p1), Integer(0), Integer(5)});       // primes: returned as they are
        for (long n = -3; n < 3; ++n) runv("pollards", {Integer((int64_t)n), Integer(0), Integer(5)});       // n < 3
    }
    for (int i = 0; i < (th ? 200 : 40); ++i) {        // Lenstra on semiprimes / prime squares / primes of 20..80 bits
        unsigned b1 = 10 + (unsigned)g.below(31), b2 = 10 + (unsigned)g.below(31);
        Integer p = gmp_nextprime(rnd_bits(g, b1)), q = gmp_nextprime(rnd_bits(g, b2));
        runv("lenstra", {p * q, Integer(5000), Integer(10)});
        if ((i & 3) == 0) { runv("lenstra", {p * p, Integer(5000), Integer(10)}); runv("lenstra", {p, Integer(5000), Integer(10)}); }
    }
    for (long n = -30; n < (th ? 30000 : 6000); ++n) runv("erat", {Integer((int64_t)n)});
    {   // the sieve on structured larger arguments (array of n+1 shorts; the int counters are fine far below 2^31): squares and cubes of primes
        // (the walk ends exactly at i = sqrt n), p*q with close and distant factors, powers of 2 times an odd part, primes, and neighbours
        std::vector<Integer> er;
        const unsigned long Q[] = {3, 5, 7, 11, 13, 47, 97, 101, 251, 257, 509, 997, 1009, 1999, 2003};
        for (unsigned long a : Q) for (unsigned long b : Q) if (a <= b) { er.push_back(Integer((uint64_t)(a * b))); er.push_back(Integer((uint64_t)(a * b + 2))); er.push_back(Integer((uint64_t)(2 * a * b))); }
        for (unsigned long a : Q) if (a < 160) { er.push_back(pw(Integer((uint64_t)a), 3)); er.push_back(pw(Integer((uint64_t)a), 3) * 4); }
        for (unsigned e = 1; e <= 22; ++e) { er.push_back(pw(Integer(2), e)); er.push_back(pw(Integer(2), e) + 1); er.push_back(pw(Integer(2), e) - 1); er.push_back(pw(Integer(2), e) * 3); er.push_back(pw(Integer(2), e) * 15); }
        for (unsigned e = 1; e <= 13; ++e) { er.push_back(pw(Integer(3), e)); er.push_back(pw(Integer(3), e) * 5); er.push_back(pw(Integer(3), e) * 2 + 0); }
        for (int i = 0; i < (th ? 400 : 60); ++i) { Integer r = rnd_bits(g, 14 + (unsigned)g.below(9)); er.push_back(r); er.push_back(-r); er.push_back(gmp_nextprime(r)); }
        for (auto& n : er) runv("erat", {n});
    }
    // ---- the same container-output functions with a pre-filled / reused output container
    {
        std::vector<Integer> light;
        for (auto& n : fa) if (!heavy(n)) light.push_back(n);
        for (size_t i = 0; i < light.size(); i += (th ? 2 : 5)) {
            const Integer& n = light[i];
            const Integer& m = light[(i * 7 + 13) % light.size()];
            runv("divinto", {n, m});
            runv("setinto", {n, m});
            runv("set1into", {n, m});
            runv("writeinto", {n, m});
        }
        for (long n = 1; n < (th ? 6000 : 1500); ++n) runv("eratinto", {Integer((int64_t)n), Integer((int64_t)((n * 37 + 11) % 5000 + 1))});
        // last (a broken aliasing can run off the exponent vector and abort the process under the sanitizers): flushed case by case
        for (size_t i = 0; i < light.size(); i += (th ? 2 : 5)) { fflush(stdout); runv("divalias", {light[i]}); }
    }
    fflush(stdout);
    fflush(stdout);
}

#ifdef GIVARO_LENSTRA
// second build: `factor` routes through Lenstra (default B1 = 10^7, 30 curves); only the factor-driven lines, under their own keys
static void genL(const std::string& tier, uint64_t seed) {
    const bool th = (tier == "thorough");
    vp::Rng g(seed * 0x9E3779B97F4A7C15ULL + 99);
    CASE_TIMEOUT = th ? 120 : 40;
    std::vector<Integer> fa;
    for (long n = -20; n < (th ? 3000 : 600); ++n) fa.push_back(Integer((int64_t)n));
    for (auto s : CARMICHAEL) fa.push_back(Integer(s));
    for (int i = 0; i < (th ? 120 : 25); ++i) {
        unsigned b1 = 10 + (unsigned)g.below(23), b2 = 10 + (unsigned)g.below(23);
        Integer p = gmp_nextprime(rnd_bits(g, b1)), q = gmp_nextprime(rnd_bits(g, b2));
        fa.push_back(p * q); fa.push_back(p);
        if ((i & 3) == 0) { fa.push_back(p * p); fa.push_back(p * q * Integer(101)); }
    }
    for (auto& n : fa) { runv("factorL", {n}); runv("setL", {n}); }
    fflush(stdout);
}
#endif

int main(int argc, char** argv) {
    struct sigaction sa;
    sa.sa_handler = on_alarm;
    sigemptyset(&sa.sa_mask);
    sa.sa_flags = SA_NODEFER;
    sigaction(SIGALRM, &sa, nullptr);
    sa.sa_handler = on_fpe;
    sigaction(SIGFPE, &sa, nullptr);
    uint64_t seed = argc >= 3 ? strtoull(argv[2], nullptr, 10) : 1;
    IntFactorDom<GivRandom> IF(GivRandom(seed + 1000));     // deterministic generator state
    IFp = &IF;
    GivRandom GEN(seed + 2000);
    GENp = &GEN;
    Integer::seeding((uint64_t)(seed + 3000));       // Integer::random (used by Pollard, Lenstra, Miller, Lehmann) draws from a global GMP state
#ifdef GIVARO_LENSTRA
    if (argc >= 3) { genL(argv[1], seed); return 0; }
#else
    if (argc >= 3) { gen(argv[1], seed); return 0; }
#endif
    vp::Args a;
    while (vp::read_line(std::cin, a)) {
        if (a.tok[0] == "p16count") { run("p16count", Integer(0)); continue; }
        if (a.tok.size() < 2) { vp::emit(a, "NOFUNC"); continue; }
        if (is_vkey(a.tok[0])) { std::vector<Integer> v; for (size_t i = 1; i < a.tok.size(); ++i) v.push_back(fromhex(a.tok[i])); runv(a.tok[0], v); fflush(stdout); continue; }
        if (a.tok[0] == "setl" && a.tok.size() >= 3) { run_setl(fromhex(a.tok[1]), strtoul(a.tok[2].c_str(), nullptr, 16)); fflush(stdout); continue; }
        run(a.tok[0], fromhex(a.tok[1]));
        fflush(stdout);
    }
    return 0;
}
