// Correspondence harness for C09 (polynomial factorisation / irreducibility / primitivity over GF(q)).
// Calls the real Poly1FactorDom code in-process.  One line per case:
//     <op> <dom> <p> <k> <irr> <args...> = <results...>
//   dom  : m = Modular<int32_t>(p), l = Modular<int64_t>(p), i = Modular<Integer>(p) (k = 1, irr = 0) ;
//          g = GFqDom<int64_t>(p,k) (irr = p-adic code of the modulus the running code chose, as reported by irreducible())
//   field elements travel as p-adic codes (hex) of their polynomial-basis representation, polynomials as
//   `c0,c1,...,cn` (little endian, exactly the stored vector, no normalisation) or `z` for the empty vector.
//   ops  : irr P = b            is_irreducible            irr2 P = b        is_irreducible2
//          czf P = F:e F:e ...  CZfactor                  sqf P = G G ...   sqrfree (Nfact = deg+1)
//          (Poly1FactorDom::factor(Rep&,const Rep&,Residu_t) cannot be instantiated: it does not compile -- not exercised)
//          ord P F = o          order                     ipr P F = b       is_prim_root
//          gpr F = R            give_prim_root            grp F = R         give_random_prim_root
//          rir n = R            random_irreducible        cir n = R         creux_random_irreducible
//          xir n = R            ixe_irreducible           xi2 n = R         ixe_irreducible2
//          rpr n = P R          random_prim_root
//          irrM / irr2M / czfM  the overloads taking MOD explicitly, called with MOD = residu() ; czfF = factor(factors, exp, P)
//          czf2 P1 P2 = L1 | L12  two CZfactor calls accumulating into the SAME lists (L1 after the first, L12 after the second)
//   big fields (q^n >= 2^64): a trailing argument `pl=r1,r2,...` carries the distinct primes of q^n - 1 (hard-coded here,
//   re-verified by the driver: each prime by trial division, complete factorisation of the group order)
// With argv = tier seed the harness generates its own cases; otherwise it reads `op dom p k irr args` lines from stdin.
#include "proto.h"
#include <givaro/gfq.h>
#include <givaro/modular.h>
#include <givaro/givpoly1.h>
#include <givaro/givpoly1factor.h>
#include <givaro/givinteger.h>
#include <cmath>
#include <functional>
#include <map>
#include <memory>
#include <set>
#include <csignal>
#include <cstring>
#include <sys/wait.h>
#include <unistd.h>
#include <fcntl.h>

using namespace Givaro;

static uint64_t ipow(uint64_t b, unsigned e) { uint64_t r = 1; while (e--) r *= b; return r; }

typedef std::vector<uint64_t> CPoly;   // polynomial as codes, little endian, un-normalised

static std::string show(const CPoly& P) {
    if (P.empty()) return "z";
    std::string s;
    for (size_t i = 0; i < P.size(); ++i) { if (i) s += ','; s += vp::hex_ull(P[i]); }
    return s;
}
static CPoly parse(const std::string& t) {
    CPoly P;
    if (t == "z") return P;
    size_t i = 0;
    while (i <= t.size()) {
        size_t j = t.find(',', i);
        if (j == std::string::npos) j = t.size();
        P.push_back(strtoull(t.substr(i, j - i).c_str(), nullptr, 16));
        i = j + 1;
    }
    return P;
}

// ------------------------------------------------------------------------------------------
struct Runner {            // type-erased interface over the two coefficient domains
    uint64_t p, k, q, irr; char dom;
    virtual ~Runner() {}
    virtual std::string run(const std::string& op, const std::vector<std::string>& a) = 0;
    virtual CPoly vmul(const CPoly& a, const CPoly& b) = 0;                              // generation only
    virtual CPoly vpowmod(const CPoly& a, const Integer& e, const CPoly& f) = 0;         // generation only
    std::string prefix(const std::string& op) const {
        return op + " " + std::string(1, dom) + " " + vp::hex_ull(p) + " " + vp::hex_ull(k) + " " + vp::hex_ull(irr);
    }
};

template <class Field> struct Codec;
template <> struct Codec<Modular<int32_t>> {
    typedef Modular<int32_t> F;
    static const bool table = false;
    static F make(uint64_t p, uint64_t) { return F((int32_t)p); }
    static uint64_t irr(const F&) { return 0; }
    static void from(const F& f, F::Element& e, uint64_t c) { f.init(e, (int64_t)c); }
    static uint64_t to(const F& f, const F::Element& e) { uint64_t c; f.convert(c, e); return c; }
};
template <> struct Codec<Modular<int64_t>> {
    typedef Modular<int64_t> F;
    static const bool table = false;
    static F make(uint64_t p, uint64_t) { return F((int64_t)p); }
    static uint64_t irr(const F&) { return 0; }
    static void from(const F& f, F::Element& e, uint64_t c) { f.init(e, (int64_t)c); }
    static uint64_t to(const F& f, const F::Element& e) { uint64_t c; f.convert(c, e); return c; }
};
template <> struct Codec<Modular<Integer>> {
    typedef Modular<Integer> F;
    static const bool table = false;
    static F make(uint64_t p, uint64_t) { return F(Integer(p)); }
    static uint64_t irr(const F&) { return 0; }
    static void from(const F& f, F::Element& e, uint64_t c) { f.init(e, Integer(c)); }
    static uint64_t to(const F& f, const F::Element& e) { Integer c; f.convert(c, e); return (uint64_t)c; }
};
template <> struct Codec<GFqDom<int64_t>> {
    typedef GFqDom<int64_t> F;
    static const bool table = true;
    static F make(uint64_t p, uint64_t k) { return F(p, k); }
    static uint64_t irr(const F& f) { return f.exponent() > 1 ? (uint64_t)f.irreducible() : 0; }   // not set by the constructor for k = 1
    static void from(const F&, F::Element&, uint64_t) {}
    static uint64_t to(const F& f, const F::Element& e) { uint64_t c; f.convert(c, e); return c; }
};

template <class Field>
struct RunnerT : Runner {
    typedef Poly1FactorDom<Field, Dense> PD;
    typedef typename PD::Element Poly;
    typedef typename Field::Element Elt;
    Field F;
    PD D;
    std::vector<Elt> fromCode;
    RunnerT(char dm, uint64_t p_, uint64_t k_, uint64_t seed)
        : F(Codec<Field>::make(p_, k_)), D(F, Indeter("X"), GivRandom(seed ? seed : 1)) {
        dom = dm; p = p_; k = k_; q = ipow(p_, (unsigned)k_); irr = Codec<Field>::irr(F);
        if (Codec<Field>::table) {
            fromCode.resize(q);
            std::vector<char> seen(q, 0);
            for (uint64_t e = 0; e < q; ++e) {      // every element index of the Zech-logarithm representation
                Elt x = (Elt)e;
                uint64_t c = Codec<Field>::to(F, x);
                if (c < q) { fromCode[c] = x; seen[c] = 1; }
            }
            for (uint64_t c = 0; c < q; ++c) if (!seen[c]) { fprintf(stderr, "codec: code %llu not reached\n", (unsigned long long)c); exit(3); }
        }
    }
    Elt elt(uint64_t c) const {
        if (Codec<Field>::table) return fromCode.at(c % q);
        Elt e; Codec<Field>::from(F, e, c % q); return e;
    }
    uint64_t code(const Elt& e) const { return Codec<Field>::to(F, e); }
    Poly toPoly(const CPoly& P) const { Poly R; R.resize(P.size()); for (size_t i = 0; i < P.size(); ++i) R[i] = elt(P[i]); return R; }
    CPoly toC(const Poly& P) const { CPoly R(P.size()); for (size_t i = 0; i < P.size(); ++i) R[i] = code(P[i]); return R; }
    std::string sh(const Poly& P) const { return show(toC(P)); }

    CPoly vmul(const CPoly& a, const CPoly& b) override {
        if (a.empty() || b.empty()) return CPoly();
        Poly A = toPoly(a), B = toPoly(b), C; D.mul(C, A, B); return toC(C);
    }
    CPoly vpowmod(const CPoly& a, const Integer& e, const CPoly& f) override {
        Poly A = toPoly(a), Fm = toPoly(f), W; D.powmod(W, A, e, Fm); return toC(W);
    }
    std::string showFactors(const std::vector<Poly>& Lf, const std::vector<uint64_t>& Le) const {
        if (Lf.size() != Le.size()) return "SIZES";
        std::string r;
        for (size_t i = 0; i < Lf.size(); ++i) { if (i) r += ' '; r += sh(Lf[i]) + ":" + vp::hex_ull(Le[i]); }
        if (Lf.empty()) r = "none";
        return r;
    }

    std::string run(const std::string& op, const std::vector<std::string>& a) override {
        std::string r;
        if (op == "irrM") { Poly P = toPoly(parse(a.at(0))); return D.is_irreducible(P, F.residu()) ? "1" : "0"; }
        if (op == "irr2M") { Poly P = toPoly(parse(a.at(0))); return D.is_irreducible2(P, F.residu()) ? "1" : "0"; }
        if (op == "czfM" || op == "czfF") {
            Poly P = toPoly(parse(a.at(0)));
            std::vector<Poly> Lf; std::vector<uint64_t> Le;
            if (op == "czfM") D.CZfactor(Lf, Le, P, F.residu()); else D.factor(Lf, Le, P);
            return showFactors(Lf, Le);
        }
        if (op == "czf2") {
            Poly P1 = toPoly(parse(a.at(0))), P2 = toPoly(parse(a.at(1)));
            std::vector<Poly> Lf; std::vector<uint64_t> Le;
            D.CZfactor(Lf, Le, P1);
            r = showFactors(Lf, Le) + " | ";
            D.factor(Lf, Le, P2);                    // the accumulating call form (forwards to CZfactor)
            return r + showFactors(Lf, Le);
        }
        if (op == "czf3") {
            // the exponent list still holds the multiplicities of an earlier factorisation while the factor list was cleared:
            // the second call has to size and fill the exponents of ITS factors
            Poly P1 = toPoly(parse(a.at(0))), P2 = toPoly(parse(a.at(1)));
            std::vector<Poly> Lf; std::vector<uint64_t> Le;
            D.CZfactor(Lf, Le, P1);
            Lf.clear();
            D.CZfactor(Lf, Le, P2);
            if (Lf.size() != Le.size()) return "SIZES";
            for (size_t i = 0; i < Lf.size(); ++i) { if (i) r += ' '; r += sh(Lf[i]) + ":" + vp::hex_ull(Le[i]); }
            if (Lf.empty()) r = "none";
            return r;
        }
        if (op == "irr") { Poly P = toPoly(parse(a.at(0))); return D.is_irreducible(P) ? "1" : "0"; }
        if (op == "irr2") { Poly P = toPoly(parse(a.at(0))); return D.is_irreducible2(P) ? "1" : "0"; }
        if (op == "czf") {
            Poly P = toPoly(parse(a.at(0)));
            std::vector<Poly> Lf; std::vector<uint64_t> Le;
            D.CZfactor(Lf, Le, P);
            if (Lf.size() != Le.size()) return "SIZES";
            for (size_t i = 0; i < Lf.size(); ++i) { if (i) r += ' '; r += sh(Lf[i]) + ":" + vp::hex_ull(Le[i]); }
            if (Lf.empty()) r = "none";
            return r;
        }
        if (op == "sqf") {
            Poly P = toPoly(parse(a.at(0)));
            Degree d; D.degree(d, P);
            size_t nb = (size_t)(d.value() < 0 ? 0 : d.value()) + 1;
            std::unique_ptr<Poly[]> g(new Poly[nb]);      // exactly deg+1 slots, as CZfactor allocates
            D.sqrfree(nb, g.get(), P);
            for (size_t i = 0; i < nb; ++i) { if (i) r += ' '; r += sh(g[i]); }
            if (nb == 0) r = "none";
            return r;
        }
        if (op == "ord") {
            Poly P = toPoly(parse(a.at(0))), Fm = toPoly(parse(a.at(1)));
            Integer o = D.order(P, Fm);
            return vp::hex(o.get_mpz_const());
        }
        if (op == "ipr") { Poly P = toPoly(parse(a.at(0))), Fm = toPoly(parse(a.at(1))); return D.is_prim_root(P, Fm) ? "1" : "0"; }
        if (op == "gpr") { Poly Fm = toPoly(parse(a.at(0))), R; D.give_prim_root(R, Fm); return sh(R); }
        if (op == "grp") { Poly Fm = toPoly(parse(a.at(0))), R; D.give_random_prim_root(R, Fm); return sh(R); }
        long n = a.empty() ? 0 : strtol(a.at(0).c_str(), nullptr, 16);
        if (op == "rir") { Poly R; D.random_irreducible(R, Degree(n)); return sh(R); }
        if (op == "cir") { Poly R; D.creux_random_irreducible(R, Degree(n)); return sh(R); }
        if (op == "xir") { Poly R; D.ixe_irreducible(R, Degree(n)); return sh(R); }
        if (op == "xi2") { Poly R; D.ixe_irreducible2(R, Degree(n)); return sh(R); }
        if (op == "rpr") { Poly P, R; D.random_prim_root(P, R, Degree(n)); return sh(P) + " " + sh(R); }
        return "NOFUNC";
    }
};

static uint64_t g_seed = 1;
static std::map<std::string, std::unique_ptr<Runner>> g_runners;
static Runner& runner(char dom, uint64_t p, uint64_t k) {
    std::string key = std::string(1, dom) + ":" + std::to_string(p) + ":" + std::to_string(k);
    auto it = g_runners.find(key);
    if (it != g_runners.end()) return *it->second;
    Runner* r;
    if (dom == 'm') r = new RunnerT<Modular<int32_t>>('m', p, 1, g_seed);
    else if (dom == 'l') r = new RunnerT<Modular<int64_t>>('l', p, 1, g_seed);
    else if (dom == 'i') r = new RunnerT<Modular<Integer>>('i', p, 1, g_seed);
    else r = new RunnerT<GFqDom<int64_t>>('g', p, k, g_seed);
    g_runners[key].reset(r);
    return *r;
}

static size_t g_count = 0;
static unsigned g_case_seconds = 30;          // per-case watchdog: a case that does not return is an outcome, not a hang
static char g_current[8192];
static void on_alarm(int) {
    // the library is stuck inside the current case: report it and stop (remaining cases are not run)
    size_t n = strlen(g_current);
    if (write(1, g_current, n) < 0) {}
    if (write(1, " = TIMEOUT\n", 11) < 0) {}
    _exit(0);
}
static std::string emit_case(Runner& R, const std::string& op, const std::vector<std::string>& args) {
    std::string line = R.prefix(op);
    for (auto& s : args) line += " " + s;
    std::string res;
    snprintf(g_current, sizeof g_current, "%s", line.c_str());
    alarm(g_case_seconds);
    try { res = R.run(op, args); } catch (...) { res = "EXC"; }
    alarm(0);
    line += " = " + res + "\n";
    fputs(line.c_str(), stdout);
    ++g_count;
    fflush(stdout);      // a crash is attributed to the case after the last complete line
    return res;
}
// a case that may crash or loop forever runs in a child process under a watchdog: `= TIMEOUT` / `= CRASH` are outcomes
static void emit_case_guarded(Runner& R, const std::string& op, const std::vector<std::string>& args, unsigned seconds) {
    fflush(stdout);
    pid_t pid = fork();
    if (pid == 0) {
        signal(SIGALRM, SIG_DFL);
        g_case_seconds = seconds;
        int devnull = open("/dev/null", O_WRONLY);
        if (devnull >= 0) dup2(devnull, 2);
        emit_case(R, op, args);
        _exit(0);
    }
    int st = 0;
    waitpid(pid, &st, 0);
    if (WIFEXITED(st) && WEXITSTATUS(st) == 0) return;
    std::string line = R.prefix(op);
    for (auto& s : args) line += " " + s;
    line += (WIFSIGNALED(st) && WTERMSIG(st) == SIGALRM) ? " = TIMEOUT\n" : " = CRASH\n";
    fputs(line.c_str(), stdout);
    fflush(stdout);
}

// ------------------------------------------------------------------------------------------
// generators (arithmetic on codes is done through the library's *field* only for products; the checker is independent)
struct Gen {
    Runner& R; vp::Rng& rng;
    CPoly mul(const CPoly& a, const CPoly& b) { return R.vmul(a, b); }
    CPoly pw(const CPoly& a, unsigned e) { CPoly r{1}; while (e--) r = mul(r, a); return r; }
    CPoly randMonic(unsigned d) { CPoly P(d + 1); for (unsigned i = 0; i < d; ++i) P[i] = rng.below(R.q); P[d] = 1; return P; }
    CPoly randPoly(unsigned d) { CPoly P(d + 1); for (unsigned i = 0; i < d; ++i) P[i] = rng.below(R.q); P[d] = 1 + rng.below(R.q - 1); return P; }
    CPoly randIrr(unsigned d) {      // uses the library's own test only to make structured inputs likely; the decision is the driver's
        for (int t = 0; t < 400; ++t) { CPoly P = randMonic(d); if (R.run("irr", {show(P)}) == "1") return P; }
        return randMonic(d);
    }
};

static void all_polys(Runner& R, unsigned maxdeg, bool monicTopOnly, const std::function<void(const CPoly&)>& f) {
    // every coefficient vector of length <= maxdeg+1 with non-zero leading coefficient (plus the empty one);
    // when monicTopOnly, vectors of full length maxdeg+1 are restricted to monic ones
    // (the zero polynomial is outside every operation's contract: is_irreducible/powmod divide by it)
    for (unsigned len = 1; len <= maxdeg + 1; ++len) {
        CPoly P(len, 0);
        uint64_t total = ipow(R.q, len - 1);
        for (uint64_t lc = 1; lc < R.q; ++lc) {
            if (monicTopOnly && len == maxdeg + 1 && lc != 1) break;
            for (uint64_t idx = 0; idx < total; ++idx) {
                uint64_t t = idx;
                for (unsigned i = 0; i + 1 < len; ++i) { P[i] = t % R.q; t /= R.q; }
                P[len - 1] = lc;
                f(P);
            }
        }
    }
}

struct FieldSpec { char dom; uint64_t p, k; unsigned dq, dt; };   // exhaustive degree bound quick / thorough

static void generate(const std::string& tier, uint64_t seed) {
    bool th = (tier == "thorough");
    vp::Rng rng(seed * 0x9E3779B97F4A7C15ULL + 77);
    const FieldSpec fields[] = {
        {'g', 2, 1, 7, 10}, {'g', 3, 1, 4, 6}, {'g', 2, 2, 3, 5}, {'g', 5, 1, 3, 5}, {'g', 7, 1, 3, 4}, {'g', 3, 2, 1, 3},
        {'g', 2, 3, 2, 3}, {'m', 2, 1, 6, 8}, {'m', 3, 1, 4, 5}, {'m', 5, 1, 2, 4}, {'m', 7, 1, 2, 3}, {'m', 11, 1, 1, 2},
        {'g', 11, 1, 1, 2}, {'g', 13, 1, 1, 2}, {'m', 13, 1, 1, 2}, {'g', 5, 2, 1, 1}, {'g', 2, 4, 1, 2}, {'g', 3, 3, 1, 1},
    };
    for (const FieldSpec& fs : fields) {
        Runner& R = runner(fs.dom, fs.p, fs.k);
        Gen G{R, rng};
        unsigned d = th ? fs.dt : fs.dq;
        // --- exhaustive: every polynomial of degree <= d (all leading coefficients), monic ones of degree d+1
        all_polys(R, d + 1, true, [&](const CPoly& P) {
            std::string s = show(P);
            emit_case(R, "irr", {s});
            emit_case(R, "irr2", {s});
            if (!P.empty()) {
                emit_case(R, "czf", {s});
                emit_case(R, "sqf", {s});
            }
        });
        // --- un-normalised input (trailing zero coefficients in the stored vector)
        for (int t = 0; t < 6; ++t) {
            CPoly P = G.randPoly(1 + (unsigned)rng.below(4)); P.push_back(0); if (t & 1) P.push_back(0);
            for (const char* op : {"irr", "irr2", "czf", "sqf"}) emit_case(R, op, {show(P)});
        }
        // --- structured larger inputs
        unsigned reps = th ? 40 : 6;
        std::vector<unsigned> mults = {1, 2, 3, (unsigned)R.p, (unsigned)R.p + 1, 2 * (unsigned)R.p};
        if (R.p * R.p <= 30) mults.push_back((unsigned)(R.p * R.p));
        for (unsigned rep = 0; rep < reps; ++rep) {
            // (a) product of many distinct irreducibles of one degree
            {
                unsigned dg = 1 + (unsigned)rng.below(R.q <= 4 ? 4 : 3);
                while (R.p == 2 && dg > 1 && ipow(R.q, dg) > 300) --dg;     // see C09-cz-char2-split below
                unsigned nf = 2 + (unsigned)rng.below(th ? 7 : 5);
                CPoly P{1 + rng.below(R.q - 1)};
                for (unsigned i = 0; i < nf; ++i) P = G.mul(P, G.randIrr(dg));
                for (const char* op : {"irr", "irr2", "czf", "sqf"}) emit_case(R, op, {show(P)});
            }
            // (b) high multiplicities, multiples of p
            {
                unsigned nf = 1 + (unsigned)rng.below(3);
                CPoly P{1 + rng.below(R.q - 1)};
                unsigned deg = 0;
                for (unsigned i = 0; i < nf && deg < (th ? 60u : 36u); ++i) {
                    unsigned dg = 1 + (unsigned)rng.below(3);
                    unsigned m = mults[rng.below(mults.size())];
                    if (dg * m > 40) m = 2;
                    P = G.mul(P, G.pw(G.randIrr(dg), m));
                    deg += dg * m;
                }
                for (const char* op : {"irr", "irr2", "czf", "sqf"}) emit_case(R, op, {show(P)});
            }
            // (c) degree divisible by p: random and P(X^p)
            {
                unsigned dg = (unsigned)R.p * (1 + (unsigned)rng.below(3));
                if (dg <= 24) {
                    CPoly P = G.randMonic(dg);
                    for (const char* op : {"irr", "irr2", "czf", "sqf"}) emit_case(R, op, {show(P)});
                }
                CPoly S = G.randMonic(1 + (unsigned)rng.below(3));
                CPoly P((S.size() - 1) * R.p + 1, 0);
                for (size_t i = 0; i < S.size(); ++i) P[i * R.p] = S[i];
                if (P.size() <= 40)
                    for (const char* op : {"irr", "irr2", "czf", "sqf"}) emit_case(R, op, {show(P)});
            }
        }
        // (e) products of k distinct irreducibles of equal degree d with k*d in {4,8,9,12,16,18} (degrees divisible by a
        //     square / with several prime divisors: where Rabin-style tests that skip a cofactor go wrong)
        {
            static const unsigned KD[][2] = {{2,2},{4,1},{2,4},{4,2},{8,1},{3,3},{9,1},{2,6},{3,4},{4,3},{6,2},{12,1},
                                             {2,8},{4,4},{8,2},{16,1},{2,9},{3,6},{6,3},{9,2},{18,1}};
            for (auto& kd : KD) {
                unsigned kk = kd[0], dg = kd[1];
                for (unsigned rep = 0; rep < (th ? 4u : 1u); ++rep) {
                    std::set<CPoly> fs;
                    for (int t = 0; t < 60 && fs.size() < kk; ++t) fs.insert(G.randIrr(dg));
                    if (fs.size() < kk) break;                       // fewer than k irreducibles of that degree exist
                    CPoly P{1};
                    for (auto& f : fs) P = G.mul(P, f);
                    emit_case(R, "irr", {show(P)});
                    emit_case(R, "irr2", {show(P)});
                    if (rep == 0) { emit_case(R, "irrM", {show(P)}); emit_case(R, "irr2M", {show(P)}); }
                    if (R.p != 2 || ipow(R.q, dg) <= 300) emit_case(R, rep ? "czf" : "czfM", {show(P)});
                }
            }
        }
        // (f) two factorisations accumulated into the same lists (CZfactor then factor(factors, exp, P))
        for (unsigned rep = 0; rep < (th ? 12u : 4u); ++rep) {
            auto mk = [&]() {
                CPoly P{1 + rng.below(R.q - 1)};
                unsigned nf = 1 + (unsigned)rng.below(3);
                for (unsigned i = 0; i < nf; ++i) {
                    unsigned m = 1 + (unsigned)rng.below(R.p > 2 ? 2 : 1);      // multiplicities < p (outside C09-yun-charp)
                    P = G.mul(P, G.pw(G.randIrr(1 + (unsigned)rng.below(3)), m));
                }
                return P;
            };
            CPoly P1 = mk(), P2 = mk();
            emit_case(R, "czf2", {show(P1), show(P2)});
            emit_case(R, "czfF", {show(P2)});
            emit_case(R, "czf3", {show(P1), show(P2)});
            emit_case(R, "czf3", {show(P2), show(P1)});
        }
        // (d) X^p - a, X^(q^j) - X, X^n - 1
        for (uint64_t a = 0; a < R.q && a < 6; ++a) {
            if (R.p <= 13) {
                CPoly P(R.p + 1, 0); P[R.p] = 1; P[0] = a;
                for (const char* op : {"irr", "irr2", "czf", "sqf"}) emit_case(R, op, {show(P)});
            }
        }
        for (unsigned j = 1; j <= 3; ++j) {
            uint64_t n = ipow(R.q, j);
            if (n > (th ? 130u : 70u)) break;
            CPoly P(n + 1, 0); P[n] = 1; P[1] = (R.p == 2 ? 1 : R.p - 1);    // X^(q^j) - X  (the code of -1 is p-1 in every field here)
            for (const char* op : {"irr", "czf", "sqf"}) emit_case(R, op, {show(P)});
        }
        for (unsigned n : {6u, 8u, 9u, 12u, 15u, 16u, 24u, 25u, 27u, 30u}) {
            // characteristic 2: equal-degree factors of degree d with q^d large make SplitFactor loop (known finding
            // C09-cz-char2-split, exercised under a watchdog at the end); keep q^d <= 256 here
            if (R.p == 2 && R.q > 2 && (n == 25 || n == 27)) continue;
            CPoly P(n + 1, 0); P[n] = 1; P[0] = (R.p == 2 ? 1 : R.p - 1);
            for (const char* op : {"irr", "irr2", "czf", "sqf"}) emit_case(R, op, {show(P)});
        }
        // --- order / primitivity: every residue modulo irreducible moduli of small degree
        for (unsigned n = 1; n <= 8; ++n) {
            uint64_t qn = ipow(R.q, n);
            if (qn > (th ? 1100u : 130u)) break;
            for (int t = 0; t < 2; ++t) {
                CPoly Fm = G.randIrr(n);
                if (t == 1) { uint64_t c = 1 + rng.below(R.q - 1); if (c != 1) Fm = G.mul(Fm, CPoly{c}); }     // non-monic modulus
                std::string sF = show(Fm);
                all_polys(R, n - 1, false, [&](const CPoly& P) {
                    emit_case(R, "ord", {show(P), sF});
                    emit_case(R, "ipr", {show(P), sF});
                });
                for (int u = 0; u < 6; ++u) {        // unreduced arguments (degree >= deg F), multiples of F
                    CPoly P = (u < 4) ? G.randPoly(n + (unsigned)rng.below(3)) : G.mul(Fm, G.randPoly((unsigned)rng.below(2)));
                    emit_case(R, "ord", {show(P), sF});
                    emit_case(R, "ipr", {show(P), sF});
                }
                emit_case(R, "gpr", {sF});
                emit_case(R, "grp", {sF});
            }
        }
        // larger moduli: sampled residues
        for (unsigned n : {5u, 7u, 8u, 10u, 12u}) {
            double bits = n * std::log2((double)R.q);
            if (bits > (th ? 38 : 26)) continue;
            CPoly Fm = G.randIrr(n);
            std::string sF = show(Fm);
            for (int t = 0; t < (th ? 40 : 8); ++t) {
                CPoly P = G.randPoly((unsigned)rng.below(n + 2));
                emit_case(R, "ord", {show(P), sF});
                emit_case(R, "ipr", {show(P), sF});
            }
            emit_case(R, "gpr", {sF});
            emit_case(R, "grp", {sF});
        }
        // --- searches: every requested degree 1..12 (bounded so that q^n - 1 stays factorable by trial division in the driver)
        for (unsigned n = 1; n <= 12; ++n) {
            double bits = n * std::log2((double)R.q);
            if (bits > (th ? 40 : 27)) break;
            std::string sn = vp::hex_ull(n);
            emit_case(R, "rir", {sn});
            if (n >= 2 || true) emit_case(R, "cir", {sn});
            if (n >= 2) { emit_case(R, "xir", {sn}); emit_case(R, "xi2", {sn}); }
            emit_case(R, "rpr", {sn});
        }
        fflush(stdout);
    }
    // --- big fields: q^n >= 2^64 (group order beyond every machine word); the primes of q^n - 1 travel with the line
    {
        struct Big { char dom; uint64_t p, k; unsigned n; const char* primes; const char* fixedF; bool quick; };
        static const Big bigs[] = {
            // 2^65-1 = 31 * 8191 * 145295143558111 ; X^65 + X^18 + 1
            {'g', 2, 1, 65, "1f,1fff,8425296b5bdf", "1,0,0,0,0,0,0,0,0,0,0,0,0,0,0,0,0,0,1,0,0,0,0,0,0,0,0,0,0,0,0,0,0,0,0,0,0,0,0,0,0,0,0,0,0,0,0,0,0,0,0,0,0,0,0,0,0,0,0,0,0,0,0,0,0,1", true},
            {'l', 2, 1, 65, "1f,1fff,8425296b5bdf", nullptr, false},
            {'i', 2, 1, 65, "1f,1fff,8425296b5bdf", nullptr, false},
            // 65537^4 - 1
            {'l', 65537, 1, 4, "2,3,5,b,14b,21e9,c145", nullptr, true},
            {'i', 65537, 1, 4, "2,3,5,b,14b,21e9,c145", nullptr, true},
            {'g', 65537, 1, 4, "2,3,5,b,14b,21e9,c145", nullptr, false},
            // (2^31-1)^3 - 1
            {'l', 2147483647ULL, 1, 3, "2,3,7,b,1f,97,14b,1f8fb21b,ad09f2b1", nullptr, true},
            {'i', 2147483647ULL, 1, 3, "2,3,7,b,1f,97,14b,1f8fb21b,ad09f2b1", nullptr, false},
            // 4^33 - 1 = 2^66 - 1
            {'g', 2, 2, 33, "3,7,17,43,59,2ab,5179,925b7", nullptr, false},
            // 3^41 - 1
            {'g', 3, 1, 41, "2,53,268ec1,143eaa56ab", nullptr, false},
            {'l', 3, 1, 41, "2,53,268ec1,143eaa56ab", nullptr, false},
            // 2^67 - 1 = 193707721 * 761838257287
            {'g', 2, 1, 67, "b8bbec9,b161194487", nullptr, false},
            // 2^128 - 1
            {'g', 2, 1, 128, "3,5,11,101,281,10001,42f01,663d81,3d30f19cd101", nullptr, false},
            // 5^28 - 1, 7^24 - 1, 13^18 - 1, 1009^7 - 1, 16^17 - 1, 9^21 - 1
            {'g', 5, 1, 28, "2,3,d,1d,1c1,4c4b,dfe0289", nullptr, false},
            {'l', 7, 1, 24, "2,3,5,d,13,2b,49,b5,c1,199,4b1", nullptr, false},
            {'i', 13, 1, 18, "2,3,7,13,3d,9d,10f,3a9,188fc5", nullptr, false},
            {'l', 1009, 1, 7, "2,3,7,1d,4d7931,3d159055", nullptr, false},
            {'g', 2, 4, 17, "3,5,89,3b9,66cd,aaab,1ffff", nullptr, false},
            {'g', 3, 2, 21, "2,7,d,2b,223,445,8dd,59dd9", nullptr, false},
        };
        for (const Big& b : bigs) {
            if (!th && !b.quick) continue;
            Runner& R = runner(b.dom, b.p, b.k);
            Gen G{R, rng};
            std::string pl = std::string("pl=") + b.primes;
            std::string sn = vp::hex_ull(b.n);
            // the modulus: the given one, else what the library's own search returns (the driver checks degree and irreducibility)
            std::string sF = b.fixedF ? std::string(b.fixedF) : emit_case(R, "cir", {sn, pl});
            if (sF == "EXC" || sF == "TIMEOUT") continue;
            CPoly Fm = parse(sF);
            for (const char* op : {"irr", "irr2", "irrM", "irr2M"}) emit_case(R, op, {sF});
            // reducible polynomials of the same degree: two factors, and equal-degree products d | n
            {
                unsigned a = b.n / 2;
                CPoly P = G.mul(G.randIrr(a), G.randIrr(b.n - a));
                for (const char* op : {"irr", "irr2", "irrM", "irr2M"}) emit_case(R, op, {show(P)});
                for (unsigned d = 2; d < b.n; ++d) {
                    if (b.n % d || d > 16) continue;
                    CPoly Q{1};
                    for (unsigned i = 0; i < b.n / d; ++i) Q = G.mul(Q, G.randIrr(d));
                    emit_case(R, "irr", {show(Q)});
                    emit_case(R, "irr2", {show(Q)});
                }
                if (R.p != 2) { emit_case(R, "czf", {show(P)}); emit_case(R, "czfM", {show(P)}); }
            }
            // the exact group order and its primes
            Integer N(1);
            for (unsigned i = 0; i < b.n; ++i) N *= Integer(R.q);
            N -= 1;
            std::vector<Integer> primes;
            { CPoly tmp = parse(b.primes); for (uint64_t r : tmp) primes.push_back(Integer(r)); }
            // a primitive element as found by the library, then elements of known order derived from it
            std::string sg = emit_case(R, "gpr", {sF, pl});
            emit_case_guarded(R, "grp", {sF, pl}, 60);
            if (sg != "EXC" && sg != "TIMEOUT") {
                CPoly g = parse(sg);
                std::vector<CPoly> elts = {g};
                for (const Integer& r : primes) {
                    elts.push_back(R.vpowmod(g, N / r, Fm));          // order r
                    elts.push_back(R.vpowmod(g, r, Fm));              // order N / r
                }
                if (primes.size() >= 2) elts.push_back(R.vpowmod(g, primes[0] * primes.back(), Fm));
                elts.push_back(R.vpowmod(g, Integer(7919), Fm));      // primitive again unless 7919 | N
                if (b.n > 16 && (!th || b.n > 100) && elts.size() > 5) elts.resize(5);   // g, order r1, N/r1, r2, N/r2
                for (auto& e : elts) {
                    emit_case(R, "ipr", {show(e), sF, pl});
                    emit_case(R, "ord", {show(e), sF, pl});
                }
            }
            std::vector<CPoly> misc = {CPoly{0, 1}, CPoly{1}, G.mul(Fm, CPoly{1, 1})};
            if ((th && b.n <= 100) || b.n <= 16) { misc.push_back(CPoly{1, 1}); misc.push_back(G.randPoly(b.n - 1)); misc.push_back(G.randPoly(b.n + 1)); }
            for (const CPoly& e : misc) {
                emit_case(R, "ipr", {show(e), sF, pl});
                emit_case(R, "ord", {show(e), sF, pl});
            }
            // the searches at this degree
            emit_case_guarded(R, "rir", {sn, pl}, 60);
            if (R.q <= 16) {       // for large q the scans of ixe_irreducible enumerate q (binomials: X is never primitive) then q^2 candidates
                emit_case_guarded(R, "xir", {sn, pl}, th ? 120 : 40);
                emit_case_guarded(R, "xi2", {sn, pl}, th ? 120 : 40);
            }
            emit_case_guarded(R, "rpr", {sn, pl}, th ? 120 : 40);
            fflush(stdout);
        }
    }
    // --- cases that crash or do not terminate on some trees: each in a child process under a watchdog
    {
        Runner& R4 = runner('g', 2, 2);
        CPoly P(28, 0); P[27] = 1; P[0] = 1;             // X^27 - 1 over GF(4): two irreducible factors of degree 9
        emit_case_guarded(R4, "czf", {show(P)}, th ? 20 : 5);
        for (const FieldSpec& fs : {fields[0], fields[1], fields[7]}) {
            Runner& R = runner(fs.dom, fs.p, fs.k);
            emit_case_guarded(R, "irr", {"z"}, 10);       // the zero polynomial
            emit_case_guarded(R, "irr", {"0"}, 10);
            emit_case_guarded(R, "irr2", {"z"}, 10);
        }
    }
    fflush(stdout);
}

int main(int argc, char** argv) {
    signal(SIGALRM, on_alarm);
    if (argc >= 3) {
        g_seed = strtoull(argv[2], nullptr, 10);
        generate(argv[1], g_seed);
        return 0;
    }
    if (argc == 2) g_seed = strtoull(argv[1], nullptr, 10);
    vp::Args a;
    while (vp::read_line(std::cin, a)) {
        // op dom p k irr args...
        if (a.tok.size() < 5) { vp::emit(a, "BADLINE"); continue; }
        char dom = a.tok[1][0];
        uint64_t p = strtoull(a.tok[2].c_str(), nullptr, 16), k = strtoull(a.tok[3].c_str(), nullptr, 16);
        Runner& R = runner(dom, p, k);
        std::vector<std::string> args(a.tok.begin() + 5, a.tok.end());
        emit_case(R, a.tok[0], args);
        fflush(stdout);
    }
    return 0;
}
