// Correspondence harness for C11 (rational reconstruction).  Calls the real library code in-process:
//   rr   f m k fr rc      ZRing<Integer>::ratrecon(num,den,f,m,k,fr,rc)            = ok num den
//   rrm  f m k fr rc      Rational::ratrecon(num,den,f,m,k,fr,rc) (static)          = ok num den
//   rr7  f m k fr rc      ZRing<Integer>::RationalReconstruction(a,b,f,m,k,fr,rc)   = ok num den
//   rr4  f m              ZRing<Integer>::RationalReconstruction(a,b,f,m)           = ok num den
//   rr6  x m ab bb        ZRing<Integer>::RationalReconstruction(a,b,x,m,ab,bb)     = ok num den
//   cmp  a b m [f]        f = a*b^-1 mod m (computed here), RationalReconstruction(n,d,f,m) = ok num den
//   qcmp a b m [f] rc     same through QField<Rational>::ratrecon(r,f,m,rc)         = num den
//   qf   f m k rc         QField<Rational>::ratrecon(r,f,m,k,rc)                    = num den
//   pr   p dk fr nP P.. nM M..   Poly1Dom<Modular<int64_t>>::ratrecon(N,D,P,M,dk,fr) = ok nN N.. nD D..
//   ucmp  n d m k fr f    ZRing<Integer>::ratrecon(num,den,f,m,k,fr,false), f = n/d mod m built by the generator   = ok num den
//   ucmp7 n d m k fr f    ZRing<Integer>::RationalReconstruction(a,b,f,m,k,fr,true)                                 = ok num den
//   ucmpq n d m k rc f    QField<Rational>::ratrecon(r,f,m,k,rc)                                                    = num den
//   pcmp  p dk nA A.. nB B.. nM M.. nP P..   ratrecon(N,D,P,M,dk,true), P = A/B mod M built by the generator        = ok nN N.. nD D..
// With argv = "<tier> <seed>" the harness generates its cases (structured, see gen_*); with no argument it
// reads case lines from stdin (replay).
#include "proto.h"
#include <gmp++/gmp++.h>
#include <givaro/givinteger.h>
#include <givaro/givrational.h>
#include <givaro/qfield.h>
#include <givaro/modular-integral.h>
#include <givaro/givpoly1.h>
#include <algorithm>
#include <cstring>

using namespace Givaro;

static Integer Zof(const std::string& s) {
    Integer r;
    mpz_set_str(r.get_mpz(), s.c_str(), 16);
    return r;
}
static std::string H(const Integer& x) { return vp::hex(x.get_mpz_const()); }
static std::string H(long long v) { return vp::hex_ll(v); }

static ZRing<Integer> ZZ;
// constructed in main (a QField<Rational> built during static initialisation throws GivMathDivZero: Rational::one not yet set up)
static QField<Rational>* QQp = nullptr;
#define QQ (*QQp)

typedef Modular<int64_t> Field;
typedef Poly1Dom<Field, Dense> PolDom;

static size_t n_cases = 0;

static void emit_line(const std::string& in, const std::string& out) {
    std::string o = in + " = " + out + "\n";
    fputs(o.c_str(), stdout);
    ++n_cases;
}

static std::string polystr(const PolDom& PD, const PolDom::Element& A) {
    Degree d;
    PD.degree(d, A);
    long long n = d.value() + 1;
    std::string s = H(n);
    for (long long i = 0; i < n; ++i) {
        int64_t c;
        PD.getdomain().convert(c, A[(size_t)i]);
        s += ' ';
        s += H((long long)c);
    }
    return s;
}

// run one case given as tokens
static void run_case(const std::vector<std::string>& t) {
    std::string in;
    for (size_t i = 0; i < t.size(); ++i) { if (i) in += ' '; in += t[i]; }
    const std::string& key = t[0];
    auto Z = [&](size_t i) { return Zof(t.at(i)); };
    auto B = [&](size_t i) { return t.at(i) != "0"; };
    // the outputs start from recognisable junk so that "not written" would be visible
    Integer num(-77), den(-78);
    if (key == "rr") {
        bool ok = ZZ.ratrecon(num, den, Z(1), Z(2), Z(3), B(4), B(5));
        emit_line(in, H(ok) + " " + H(num) + " " + H(den));
    } else if (key == "rrm") {
        bool ok = Rational::ratrecon(num, den, Z(1), Z(2), Z(3), B(4), B(5));
        emit_line(in, H(ok) + " " + H(num) + " " + H(den));
    } else if (key == "rr7") {
        bool ok = ZZ.RationalReconstruction(num, den, Z(1), Z(2), Z(3), B(4), B(5));
        emit_line(in, H(ok) + " " + H(num) + " " + H(den));
    } else if (key == "rr4") {
        bool ok = ZZ.RationalReconstruction(num, den, Z(1), Z(2));
        emit_line(in, H(ok) + " " + H(num) + " " + H(den));
    } else if (key == "rr6") {
        bool ok = ZZ.RationalReconstruction(num, den, Z(1), Z(2), Z(3), Z(4));
        emit_line(in, H(ok) + " " + H(num) + " " + H(den));
    } else if (key == "cmp" || key == "qcmp") {
        Integer a = Z(1), b = Z(2), m = Z(3), f, g, u, v;
        // f = a * b^-1 mod m, canonical, computed with GMP directly (not with the code under test)
        mpz_t inv; mpz_init(inv);
        int has = mpz_invert(inv, b.get_mpz_const(), m.get_mpz_const());
        if (has) {
            mpz_mul(inv, inv, a.get_mpz_const());
            mpz_mod(inv, inv, m.get_mpz_const());
        } else mpz_set_si(inv, -1);
        mpz_set(f.get_mpz(), inv);
        mpz_clear(inv);
        if (key == "cmp") {
            std::string in2 = t[0] + " " + t[1] + " " + t[2] + " " + t[3] + " " + H(f);
            bool ok = ZZ.RationalReconstruction(num, den, f, m);
            emit_line(in2, H(ok) + " " + H(num) + " " + H(den));
        } else {
            bool rc = t.back() != "0";
            std::string in2 = t[0] + " " + t[1] + " " + t[2] + " " + t[3] + " " + H(f) + " " + (rc ? "1" : "0");
            Rational r;
            QQ.ratrecon(r, f, m, rc);
            emit_line(in2, H(r.nume()) + " " + H(r.deno()));
        }
    } else if (key == "qf") {
        Rational r;
        QQ.ratrecon(r, Z(1), Z(2), Z(3), B(4));
        emit_line(in, H(r.nume()) + " " + H(r.deno()));
    } else if (key == "ucmp") {
        bool ok = ZZ.ratrecon(num, den, Z(6), Z(3), Z(4), B(5), false);
        emit_line(in, H(ok) + " " + H(num) + " " + H(den));
    } else if (key == "ucmp7") {
        bool ok = ZZ.RationalReconstruction(num, den, Z(6), Z(3), Z(4), B(5), true);
        emit_line(in, H(ok) + " " + H(num) + " " + H(den));
    } else if (key == "ucmpq") {
        Rational r;
        QQ.ratrecon(r, Z(6), Z(3), Z(4), B(5));
        emit_line(in, H(r.nume()) + " " + H(r.deno()));
    } else if (key == "pcmp") {
        long long p = strtoll(t.at(1).c_str(), nullptr, 16);
        long long dk = strtoll(t.at(2).c_str(), nullptr, 16);
        Field F((int64_t)p);
        PolDom PD(F, "X");
        size_t pos = 3;
        auto rd = [&](PolDom::Element& A) {
            long long n = strtoll(t.at(pos++).c_str(), nullptr, 16);
            A.resize((size_t)n);
            for (long long i = 0; i < n; ++i) F.init(A[(size_t)i], (int64_t)strtoll(t.at(pos++).c_str(), nullptr, 16));
            PD.setdegree(A);
        };
        PolDom::Element A, Bp, M, P, N, D;
        rd(A); rd(Bp); rd(M); rd(P);
        bool ok = PD.ratrecon(N, D, P, M, Degree(dk), true);
        emit_line(in, H(ok) + " " + polystr(PD, N) + " " + polystr(PD, D));
    } else if (key == "pr") {
        long long p = strtoll(t.at(1).c_str(), nullptr, 16);
        long long dk = strtoll(t.at(2).c_str(), nullptr, 16);
        bool fr = B(3);
        Field F((int64_t)p);
        PolDom PD(F, "X");
        size_t pos = 4;
        auto rd = [&](PolDom::Element& A) {
            long long n = strtoll(t.at(pos++).c_str(), nullptr, 16);
            A.resize((size_t)n);
            for (long long i = 0; i < n; ++i) F.init(A[(size_t)i], (int64_t)strtoll(t.at(pos++).c_str(), nullptr, 16));
            PD.setdegree(A);
        };
        PolDom::Element P, M, N, D;
        rd(P); rd(M);
        bool ok = PD.ratrecon(N, D, P, M, Degree(dk), fr);
        emit_line(in, H(ok) + " " + polystr(PD, N) + " " + polystr(PD, D));
    } else {
        emit_line(in, "NOFUNC");
    }
}

static void run_guarded(const std::vector<std::string>& t) {
    try {
        run_case(t);
    } catch (...) {
        std::string in;
        for (size_t i = 0; i < t.size(); ++i) { if (i) in += ' '; in += t[i]; }
        emit_line(in, "EXC");
    }
}
static void C(std::initializer_list<std::string> l) { run_guarded(std::vector<std::string>(l)); }

// ------------------------------------------------------------------------------------------------
// generators
// ------------------------------------------------------------------------------------------------
static Integer rand_bits(vp::Rng& g, unsigned bits) {
    Integer r(0);
    // limbs drawn from {0, 1, 2^63, 2^64-1, random}
    for (unsigned done = 0; done < bits; done += 64) {
        uint64_t limb;
        switch (g.below(8)) {
            case 0: limb = 0; break;
            case 1: limb = 1; break;
            case 2: limb = 1ULL << 63; break;
            case 3: limb = ~0ULL; break;
            default: limb = g.next();
        }
        r <<= 64;
        r += Integer((uint64_t)limb);
    }
    Integer mask(1); mask <<= bits;
    Integer res; Integer::mod(res, r, mask);
    return res;
}

static Integer gen_modulus(vp::Rng& g, unsigned bits) {
    Integer m = rand_bits(g, bits);
    Integer top(1); top <<= (bits - 1);
    m += top;                              // force the size
    switch (g.below(5)) {
        case 0: { Integer p; mpz_nextprime(p.get_mpz(), m.get_mpz_const()); return p; }          // prime
        case 1: { // prime power
            unsigned e = 2 + (unsigned)g.below(4);
            Integer b = rand_bits(g, bits / e + 1) + 2, p, r(1);
            mpz_nextprime(p.get_mpz(), b.get_mpz_const());
            for (unsigned i = 0; i < e; ++i) r *= p;
            return r;
        }
        case 2: { Integer r(1); r <<= bits; return r; }                                       // power of two
        case 3: { // smooth composite
            Integer r(1);
            static const unsigned sp[] = {2, 3, 5, 7, 11, 13, 101, 257, 65521};
            while (r.bitsize() < bits) r *= Integer((uint64_t)sp[g.below(9)]);
            return r;
        }
        default: return m;                                                                       // arbitrary
    }
}

static Integer isqrt(const Integer& m) { Integer r; mpz_sqrt(r.get_mpz(), m.get_mpz_const()); return r; }

// exhaustive grid: every m in [2, mmax], f in [-2m-1, 2m+1], k in [1, m], both reduce flags
static void gen_exhaustive(long long mmax, long long m6max) {
    for (long long m = 2; m <= mmax; ++m)
        for (long long f = -2 * m - 1; f <= 2 * m + 1; ++f) {
            for (long long k = 1; k <= m; ++k)
                for (int fr = 0; fr < 2; ++fr) {
                    C({"rr", H(f), H(m), H(k), fr ? "1" : "0", "1"});
                    if ((m + f + k) % 3 == 0) {
                        C({"rr7", H(f), H(m), H(k), fr ? "1" : "0", (k & 1) ? "1" : "0"});
                        C({"rr7", H(f), H(m), H(k), fr ? "1" : "0", (k & 1) ? "0" : "1"});
                    }
                    if ((m + f + k) % 7 == 0) {
                        C({"rrm", H(f), H(m), H(k), fr ? "1" : "0", "0"});
                        C({"qf", H(f), H(m), H(k), fr ? "1" : "0"});
                    }
                }
            C({"rr4", H(f), H(m)});
        }
    for (long long m = 2; m <= m6max; ++m)
        for (long long x = 0; x <= m + 1; ++x)
            for (long long ab = 1; ab <= m; ++ab)
                for (long long bb = 1; bb <= m; ++bb) C({"rr6", H(x), H(m), H(ab), H(bb)});
}

static long long gcdll(long long a, long long b) { a = a < 0 ? -a : a; while (b) { long long t = a % b; a = b; b = t; } return a; }

// every fraction of the uniqueness envelope for all m in [16, mmax] (step), through both default-bound entry points
static void gen_envelope_small(long long mlo, long long mhi, long long step) {
    for (long long m = mlo; m <= mhi; m += step) {
        long long s = 0;
        while ((s + 1) * (s + 1) <= m) ++s;
        long long e = s / 4;
        for (long long b = 1; b <= e; ++b) {
            if (gcdll(b, m) != 1) continue;
            for (long long a = -e; a <= e; ++a) {
                if (gcdll(a, b) != 1) continue;
                C({"cmp", H(a), H(b), H(m)});
                if ((a + b + m) % 4 == 0) C({"qcmp", H(a), H(b), H(m), ((a + b) & 1) ? "1" : "0"});
            }
        }
    }
}

static void gen_random_large(vp::Rng& g, size_t count) {
    static const unsigned sizes[] = {5, 8, 13, 16, 31, 32, 33, 63, 64, 65, 100, 127, 128, 129, 200, 256, 400, 512};
    for (size_t it = 0; it < count; ++it) {
        unsigned bits = sizes[g.below(sizeof sizes / sizeof *sizes)];
        Integer m = gen_modulus(g, bits);
        if (m < 2) m = 2;
        Integer s = isqrt(m);
        // residues: canonical, negative, >= m, < -m, multiples of m, boundary
        Integer f;
        switch (g.below(10)) {
            case 0: f = rand_bits(g, bits + 3); break;
            case 1: f = -rand_bits(g, bits + 3); break;
            case 2: f = m; break;
            case 3: f = -m; break;
            case 4: f = m - 1; break;
            case 5: f = m * Integer((uint64_t)g.below(5)) ; break;
            case 6: f = -(m * Integer((uint64_t)(1 + g.below(4)))) - Integer((uint64_t)g.below(3)); break;
            default: Integer::mod(f, rand_bits(g, bits + 2), m);
        }
        // bounds in [1, m]
        Integer k;
        switch (g.below(9)) {
            case 0: k = 1; break;
            case 1: k = 2; break;
            case 2: k = s; break;
            case 3: k = s + 1; break;
            case 4: k = m; break;
            case 5: k = m - 1; break;
            case 6: k = m / 2; break;
            default: Integer::mod(k, rand_bits(g, bits + 1), m); k += 1;
        }
        if (k < 1) k = 1;
        if (k > m) k = m;
        std::string fr = g.below(2) ? "1" : "0", rc = g.below(2) ? "1" : "0";
        C({"rr", H(f), H(m), H(k), fr, rc});
        C({"rr7", H(f), H(m), H(k), fr, rc});
        C({"rr4", H(f), H(m)});
        if (it % 4 == 0) { C({"rrm", H(f), H(m), H(k), fr, "1"}); C({"qf", H(f), H(m), H(k), rc}); }
        if (it % 4 == 1) {
            Integer bb; Integer::mod(bb, rand_bits(g, bits), s + 1); bb += 1;
            Integer ab; Integer::mod(ab, rand_bits(g, bits), s + 1); ab += 1;
            Integer x; Integer::mod(x, rand_bits(g, bits + 1), m);
            C({"rr6", H(x), H(m), H(ab), H(bb)});
        }
        // fractions in the envelope (incl. its corners) for this m
        Integer e = s / 4;
        if (e >= 1) {
            for (int j = 0; j < 4; ++j) {
                Integer a, b;
                switch (g.below(6)) {
                    case 0: a = e; break;
                    case 1: a = -e; break;
                    case 2: a = 0; break;
                    case 3: a = 1; break;
                    default: Integer::mod(a, rand_bits(g, bits), 2 * e + 1); a -= e;
                }
                switch (g.below(5)) {
                    case 0: b = e; break;
                    case 1: b = 1; break;
                    case 2: b = e - 1; break;
                    default: Integer::mod(b, rand_bits(g, bits), e); b += 1;
                }
                if (b < 1) b = 1;
                // make it admissible: walk b down until coprime to m and a
                for (int tries = 0; tries < 64 && b >= 1; ++tries) {
                    if (gcd(b, m) == 1 && gcd(a, b) == 1) break;
                    b -= 1;
                }
                if (b < 1 || gcd(b, m) != 1 || gcd(a, b) != 1) continue;
                C({"cmp", H(a), H(b), H(m)});
                if (j == 0) C({"qcmp", H(a), H(b), H(m), rc});
            }
        }
    }
}

// polynomials over Z/p: exhaustive small (p = 2, 3), structured random for larger p
static std::vector<std::string> polytoks(const std::vector<long long>& a) {
    std::vector<std::string> r;
    size_t n = a.size();
    while (n && a[n - 1] == 0) --n;
    r.push_back(H((long long)n));
    for (size_t i = 0; i < n; ++i) r.push_back(H(a[i]));
    return r;
}
static void poly_case(long long p, long long dk, int fr, const std::vector<long long>& P, const std::vector<long long>& M) {
    std::vector<std::string> t = {"pr", H(p), H(dk), fr ? "1" : "0"};
    for (auto& s : polytoks(P)) t.push_back(s);
    for (auto& s : polytoks(M)) t.push_back(s);
    run_guarded(t);
}
static std::vector<long long> poly_of_index(long long idx, long long p, int len) {
    std::vector<long long> a((size_t)len);
    for (int i = 0; i < len; ++i) { a[(size_t)i] = idx % p; idx /= p; }
    return a;
}
static long long ipow(long long b, int e) { long long r = 1; while (e--) r *= b; return r; }
static int pdeg(const std::vector<long long>& a) { int n = (int)a.size(); while (n && a[(size_t)n - 1] == 0) --n; return n - 1; }

static void gen_poly_exhaustive(long long p, int maxlenM, int maxlenP) {
    long long nM = ipow(p, maxlenM), nP = ipow(p, maxlenP);
    for (long long im = 0; im < nM; ++im) {
        std::vector<long long> M = poly_of_index(im, p, maxlenM);
        int dM = pdeg(M);
        if (dM < 1) continue;
        for (long long ip = 0; ip < nP; ++ip) {
            std::vector<long long> P = poly_of_index(ip, p, maxlenP);
            for (long long dk = 0; dk < dM; ++dk)
                for (int fr = 0; fr < 2; ++fr) poly_case(p, dk, fr, P, M);
        }
    }
}
static void gen_poly_random(vp::Rng& g, size_t count) {
    static const long long primes[] = {2, 3, 5, 7, 101, 65521, 2147483647LL};
    for (size_t it = 0; it < count; ++it) {
        long long p = primes[g.below(7)];
        int dM = 1 + (int)g.below(it % 8 == 0 ? 40 : 12);
        std::vector<long long> M((size_t)dM + 1), P;
        auto coef = [&]() -> long long { switch (g.below(6)) { case 0: return 0; case 1: return 1; case 2: return p - 1; default: return (long long)g.below((uint64_t)p); } };
        for (auto& c : M) c = coef();
        M[(size_t)dM] = 1 + (long long)g.below((uint64_t)(p - 1));
        long long dk = (long long)g.below((uint64_t)dM);
        int mode = (int)g.below(4);
        if (mode == 0) {           // arbitrary residue, possibly of degree >= deg M
            P.resize((size_t)(1 + g.below((uint64_t)dM + 3)));
            for (auto& c : P) c = coef();
        } else {                   // a true fraction image: P = A * B^-1 mod M is not available without the code under test,
                                   // so build P = (A + S*M) style residues of low-degree numerators instead: P = A*X^j mod-free
            P.resize((size_t)dM);
            for (auto& c : P) c = coef();
            if (mode == 2) for (size_t i = (size_t)dk + 1; i < P.size(); ++i) P[i] = 0;   // already short
            if (mode == 3) { P.assign((size_t)dM, 0); P[(size_t)g.below((uint64_t)dM)] = coef(); }   // monomial
        }
        poly_case(p, dk, (int)g.below(2), P, M);
    }
}

// ------------------------------------------------------------------------------------------------
// uniqueness / completeness generators (depth round)
// ------------------------------------------------------------------------------------------------
static Integer residue_of(const Integer& n, const Integer& d, const Integer& m) {   // n * d^-1 mod m, or -1
    Integer f;
    mpz_t inv; mpz_init(inv);
    if (mpz_invert(inv, d.get_mpz_const(), m.get_mpz_const())) {
        mpz_mul(inv, inv, n.get_mpz_const());
        mpz_mod(inv, inv, m.get_mpz_const());
    } else mpz_set_si(inv, -1);
    mpz_set(f.get_mpz(), inv);
    mpz_clear(inv);
    return f;
}
static void ucmp_lines(const Integer& n, const Integer& d, const Integer& m, const Integer& k, unsigned sel) {
    Integer f = residue_of(n, d, m);
    if (f < 0) return;
    switch (sel % 5) {          // other representatives of the same residue class
        case 1: f += m; break;
        case 2: f -= m; break;
        case 3: f -= m * 3; break;
        case 4: f += m * 2; break;
        default: break;
    }
    std::string fr = (sel & 1) ? "1" : "0";
    C({"ucmp", H(n), H(d), H(m), H(k), fr, H(f)});
    if (sel % 3 == 0) C({"ucmp7", H(n), H(d), H(m), H(k), fr, H(f)});
    if (sel % 4 == 0) C({"ucmpq", H(n), H(d), H(m), H(k), (sel & 2) ? "1" : "0", H(f)});
}
// every reduced n/d with |n| < k, 2 k d <= m, gcd(d,m) = 1, for every m <= mmax and k in [1,m]
static void gen_unique_small(long long mmax) {
    unsigned sel = 0;
    for (long long m = 2; m <= mmax; ++m)
        for (long long k = 1; k <= m; ++k)
            for (long long d = 1; 2 * k * d <= m; ++d) {
                if (gcdll(d, m) != 1) continue;
                for (long long n = -k + 1; n < k; ++n) {
                    if (gcdll(n, d) != 1) continue;
                    ucmp_lines(Integer((int64_t)n), Integer((int64_t)d), Integer((int64_t)m), Integer((int64_t)k), sel++);
                }
            }
}
static void gen_unique_large(vp::Rng& g, size_t count) {
    static const unsigned sizes[] = {6, 9, 16, 31, 32, 33, 63, 64, 65, 100, 128, 129, 256, 400};
    for (size_t it = 0; it < count; ++it) {
        unsigned bits = sizes[g.below(sizeof sizes / sizeof *sizes)];
        Integer m = gen_modulus(g, bits);
        if (m < 8) m = 8;
        // k anywhere in [1, m/2]; d at the edge of 2 k d <= m or below; n at the edge of |n| < k or inside
        Integer k;
        switch (g.below(6)) {
            case 0: k = 1; break;
            case 1: k = 2; break;
            case 2: k = isqrt(m); break;
            case 3: k = m / 2; break;
            case 4: k = m / 3; break;
            default: Integer::mod(k, rand_bits(g, bits), m / 2); k += 1;
        }
        if (k < 1) k = 1;
        Integer dmax = m / (k * 2);
        if (dmax < 1) continue;
        Integer d, n;
        switch (g.below(4)) {
            case 0: d = dmax; break;
            case 1: d = 1; break;
            default: Integer::mod(d, rand_bits(g, bits), dmax); d += 1;
        }
        switch (g.below(5)) {
            case 0: n = k - 1; break;
            case 1: n = -(k - 1); break;
            case 2: n = 0; break;
            default: Integer::mod(n, rand_bits(g, bits), k * 2 - 1); n -= (k - 1);
        }
        for (int tries = 0; tries < 64 && d >= 1; ++tries) {
            if (gcd(d, m) == 1 && gcd(n, d) == 1) break;
            d -= 1;
        }
        if (d < 1 || gcd(d, m) != 1 || gcd(n, d) != 1) continue;
        ucmp_lines(n, d, m, k, (unsigned)g.below(60));
    }
}

// pcmp: P = A * B^-1 mod M (+ T*M), with deg A <= dk, deg B < deg M - dk, gcd(B,M) = 1
static void pcmp_case(long long p, long long dk, const std::vector<long long>& Av, const std::vector<long long>& Bv,
                      const std::vector<long long>& Mv, const std::vector<long long>& Tv) {
    Field F((int64_t)p);
    PolDom PD(F, "X");
    auto mk = [&](PolDom::Element& X, const std::vector<long long>& v) {
        X.resize(v.size());
        for (size_t i = 0; i < v.size(); ++i) F.init(X[i], (int64_t)v[i]);
        PD.setdegree(X);
    };
    PolDom::Element A, Bp, M, T, G, R, X;
    mk(A, Av); mk(Bp, Bv); mk(M, Mv); mk(T, Tv);
    Degree dg;
    PD.degree(dg, Bp);
    if (dg.value() < 0) return;
    PD.gcd(G, Bp, M);
    PD.degree(dg, G);
    if (dg.value() != 0) return;
    PD.invmod(R, Bp, M);
    PD.mulin(R, A);
    PD.modin(R, M);
    PD.mul(X, T, M);
    PD.addin(R, X);
    std::vector<std::string> t = {"pcmp", H(p), H(dk)};
    auto push = [&](const PolDom::Element& Y) {
        std::istringstream ss(polystr(PD, Y));
        std::string w;
        while (ss >> w) t.push_back(w);
    };
    push(A); push(Bp); push(M); push(R);
    run_guarded(t);
}
static void gen_pcmp_exhaustive(long long p, int lenM) {
    long long nM = ipow(p, lenM);
    for (long long im = 0; im < nM; ++im) {
        std::vector<long long> M = poly_of_index(im, p, lenM);
        int dM = pdeg(M);
        if (dM < 1) continue;
        for (long long dk = 0; dk < dM; ++dk) {
            long long nA = ipow(p, (int)dk + 1), nB = ipow(p, dM - (int)dk);
            for (long long ia = 0; ia < nA; ++ia)
                for (long long ib = 1; ib < nB; ++ib) {
                    std::vector<long long> T;
                    if ((ia + ib + im) % 5 == 0) T = {1, (ia % p)};      // residue of degree >= deg M
                    pcmp_case(p, dk, poly_of_index(ia, p, (int)dk + 1), poly_of_index(ib, p, dM - (int)dk), M, T);
                }
        }
    }
}
static void gen_pcmp_random(vp::Rng& g, size_t count) {
    static const long long primes[] = {2, 3, 5, 7, 101, 65521, 2147483647LL};
    for (size_t it = 0; it < count; ++it) {
        long long p = primes[g.below(7)];
        int dM = 1 + (int)g.below(it % 8 == 0 ? 40 : 14);
        auto coef = [&]() -> long long { switch (g.below(6)) { case 0: return 0; case 1: return 1; case 2: return p - 1; default: return (long long)g.below((uint64_t)p); } };
        std::vector<long long> M((size_t)dM + 1);
        for (auto& c : M) c = coef();
        M[(size_t)dM] = 1 + (long long)g.below((uint64_t)(p - 1));
        long long dk = (long long)g.below((uint64_t)dM);
        // degrees at the edge of the bounds or inside
        int dA = g.below(3) == 0 ? (int)dk : (int)g.below((uint64_t)dk + 1);
        int dB = g.below(3) == 0 ? dM - (int)dk - 1 : (int)g.below((uint64_t)(dM - dk));
        std::vector<long long> A((size_t)dA + 1), B((size_t)dB + 1), T;
        for (auto& c : A) c = coef();
        for (auto& c : B) c = coef();
        B[(size_t)dB] = 1 + (long long)g.below((uint64_t)(p - 1));
        if (g.below(4) == 0) A.assign(1, 0);                                   // zero numerator
        if (g.below(4) == 0) { T.resize(1 + g.below(3)); for (auto& c : T) c = coef(); }
        pcmp_case(p, dk, A, B, M, T);
    }
}

int main(int argc, char** argv) {
    static QField<Rational> theQQ;
    QQp = &theQQ;
    std::cerr.setstate(std::ios::failbit);   // the library prints "*** Error ***" diagnostics for failed reconstructions
    if (argc >= 3) {
        std::string tier = argv[1];
        uint64_t seed = strtoull(argv[2], nullptr, 10);
        vp::Rng g(seed * 0x9E3779B97F4A7C15ULL + 11);
        bool thorough = tier == "thorough";
        // reproduced-defect corpus first
        C({"rr", "-64", "7", "3", "1", "0"});
        C({"rr", H(75), H(250), H(17), "1", "1"});
        C({"rr", H(75), H(250), H(26), "1", "1"});
        gen_exhaustive(thorough ? 64 : 36, thorough ? 16 : 11);
        gen_envelope_small(16, thorough ? 6000 : 1500, 1);
        gen_envelope_small(100000 + (long long)g.below(1000), 100000 + (thorough ? 40000 : 6000), 997);
        gen_random_large(g, thorough ? 60000 : 6000);
        gen_poly_exhaustive(2, thorough ? 6 : 5, thorough ? 7 : 6);
        gen_poly_exhaustive(3, thorough ? 4 : 3, thorough ? 5 : 4);
        if (thorough) gen_poly_exhaustive(5, 3, 4);
        gen_poly_random(g, thorough ? 40000 : 5000);
        gen_unique_small(thorough ? 72 : 44);
        gen_unique_large(g, thorough ? 60000 : 6000);
        gen_pcmp_exhaustive(2, thorough ? 6 : 5);
        gen_pcmp_exhaustive(3, thorough ? 4 : 3);
        if (thorough) gen_pcmp_exhaustive(5, 3);
        gen_pcmp_random(g, thorough ? 40000 : 5000);
        fflush(stdout);
        return 0;
    }
    vp::Args a;
    while (vp::read_line(std::cin, a)) {
        run_guarded(a.tok);
        fflush(stdout);
    }
    return 0;
}
