// C05 correspondence harness: calls the real GFqDom / GF2 / Extension / GFqExt / GFqKronecker code in-process.
//
//   h_gfq <tier> <seed>      generates its own cases (every random choice from the seed)
//   h_gfq  < lines           runs exactly the given input lines (`kind args…`, replay mode)
//
// line kinds (numbers in hex).  A field is named by six tokens  fs = T P K C Fc Gc :
//   T = 20|40 (GFqDom<int32_t>|GFqDom<int64_t>), C = 0 (GFqDom(P,K)), 1 (GFqDom(P,K,modPoly)), 2 (GFqDom(P,K,modPoly,genPoly)),
//   Fc/Gc = p-adic codes of the user-supplied polynomials (0 when unused).
//   fld fs            = q char expo irred zero one mOne gen card size residu | log2pol… | pol2log… | plus1…
//   ops fs a b c      = mul mulin div divin add addin sub subin neg negin inv invin axpy axpyin maxpyin axmyin axmy maxpy
//   arr fs op sz s s2 X… Y… R0… = r[0] … r[sz-1]      (or CRASH: the call died; run in a child process when sz = 0)
//   dot fs sz X… Y…   = r
//   gf2 a b c         = 12 results of the Element& overloads, 12 of the BitReference overloads, cardinality characteristic
// An operation line whose field has not been dumped yet is preceded by its `fld` line.
#include "proto.h"

#include <signal.h>
#include <sys/mman.h>
#include <sys/wait.h>
#include <unistd.h>

#include <algorithm>
#include <map>
#include <memory>
#include <set>

#include <givaro/gfq.h>
#include <givaro/gf2.h>

#include "h_gfq_ext.inc"

using namespace Givaro;
// the sz = 0 array calls are probed in a forked child; a crash report there must not spend time symbolizing
extern "C" const char* __asan_default_options() { return "symbolize=0:detect_leaks=0"; }
typedef long long ll;
typedef unsigned long long ull;

// --- surviving a crash of the library -------------------------------------------------------------
// In generating mode every field is exercised in a forked child; when the library crashes there (sanitizer
// abort or a fatal signal) the child first flushes the lines it has computed and reports the call it was in as
// `<input line> = CRASH` (a line the driver rejects), then the parent goes on with the next field.
static std::string g_now;          // the input line whose library call is running
static bool g_report_crash = false;
static void on_death() {
    if (g_report_crash && !g_now.empty()) { fputs(g_now.c_str(), stdout); fputs(" = CRASH\n", stdout); }
    fflush(stdout);
    if (g_report_crash) _exit(77);
}
static void on_signal(int) { on_death(); _exit(78); }
#if defined(__SANITIZE_ADDRESS__)
extern "C" void __sanitizer_set_death_callback(void (*)(void));
#endif
static void install_crash_reporting() {
#if defined(__SANITIZE_ADDRESS__)
    __sanitizer_set_death_callback(on_death);
#endif
    signal(SIGSEGV, on_signal); signal(SIGBUS, on_signal); signal(SIGFPE, on_signal); signal(SIGABRT, on_signal);
    signal(SIGALRM, on_signal);    // the watchdog of a per-field child: reported like a crash of the call that was running
}

static void c05_set_now(const std::string& s) { g_now = s; }
static void c05_child_setup(bool quick) { g_report_crash = true; alarm(quick ? 120 : 1500); }
static std::string H(ll v) { return vp::hex_ll(v); }
// append ' ' + hex(v) to a char buffer (the ops lines are the bulk of the output)
static inline char* put_hex(char* w, ll v) {
    *w++ = ' ';
    ull u = (ull)v;
    if (v < 0) { *w++ = '-'; u = 0ULL - u; }
    char t[20]; int n = 0;
    do { t[n++] = "0123456789abcdef"[u & 15]; u >>= 4; } while (u);
    while (n) *w++ = t[--n];
    return w;
}

// ------------------------------------------------------------------------------------------------
// independent small arithmetic of F_p[X]/(f) (only used to *choose* user-supplied polynomials)
// ------------------------------------------------------------------------------------------------
typedef std::vector<ull> Pol;   // low degree first, normalised (no leading zeros)
static void norm(Pol& a) { while (!a.empty() && a.back() == 0) a.pop_back(); }
static Pol fromCode(ull c, ull p) { Pol a; while (c) { a.push_back(c % p); c /= p; } return a; }
static ull toCode(const Pol& a, ull p) { ull c = 0; for (size_t i = a.size(); i--;) c = c * p + a[i]; return c; }
static ull invmod(ull a, ull p) { ull r = 1, e = p - 2; a %= p; while (e) { if (e & 1) r = r * a % p; a = a * a % p; e >>= 1; } return r; }
static Pol pmod(Pol a, const Pol& f, ull p) {
    norm(a);
    ull li = invmod(f.back(), p);
    while (a.size() >= f.size()) {
        ull c = a.back() * li % p;
        size_t sh = a.size() - f.size();
        for (size_t i = 0; i < f.size(); ++i) a[sh + i] = (a[sh + i] + (p - c) * f[i]) % p;
        norm(a);
    }
    return a;
}
static Pol pmul(const Pol& a, const Pol& b, ull p) {
    if (a.empty() || b.empty()) return Pol();
    Pol r(a.size() + b.size() - 1, 0);
    for (size_t i = 0; i < a.size(); ++i) for (size_t j = 0; j < b.size(); ++j) r[i + j] = (r[i + j] + a[i] * b[j]) % p;
    norm(r);
    return r;
}
static bool irreducible(const Pol& f, ull p) {   // trial division by every monic polynomial of degree 1..deg/2
    size_t k = f.size() - 1;
    ull lim = 1;
    for (size_t d = 1; d <= k / 2; ++d) {
        lim *= p;                                 // codes in [p^d, 2 p^d) are the monic polynomials of degree d
        for (ull c = lim; c < 2 * lim; ++c) if (pmod(f, fromCode(c, p), p).empty()) return false;
    }
    return true;
}
static Pol ppow(Pol g, ull e, const Pol& f, ull p) {
    Pol r{1};
    while (e) { if (e & 1) r = pmod(pmul(r, g, p), f, p); g = pmod(pmul(g, g, p), f, p); e >>= 1; }
    return r;
}
static bool primitive(const Pol& g, const Pol& f, ull p, ull q) {
    if (g.empty()) return false;
    ull n = q - 1, m = n;
    for (ull r = 2; r * r <= m; ++r) if (m % r == 0) {
        if (ppow(g, n / r, f, p) == Pol{1}) return false;
        while (m % r == 0) m /= r;
    }
    if (m > 1 && n > 1 && ppow(g, n / m, f, p) == Pol{1}) return false;
    return true;
}
static bool isprime(ull n) { if (n < 2) return false; for (ull d = 2; d * d <= n; ++d) if (n % d == 0) return false; return true; }
static ull ipow(ull p, ull k) { ull r = 1; while (k--) r *= p; return r; }

// ------------------------------------------------------------------------------------------------
// type-erased access to a constructed field
// ------------------------------------------------------------------------------------------------
struct IField {
    virtual ~IField() {}
    virtual ll q() const = 0;
    virtual ll mOne() const = 0;
    virtual std::string dump() const = 0;
    virtual std::string ops(ll a, ll b, ll c) const = 0;
    virtual std::string arr(const std::string& op, size_t sz, ll s, ll s2, const std::vector<ll>& X, const std::vector<ll>& Y,
                            const std::vector<ll>& R0) const = 0;
    virtual std::string dot(size_t sz, const std::vector<ll>& X, const std::vector<ll>& Y) const = 0;
    virtual std::string vinit(const std::vector<ull>& cs) const = 0;
};

template <class TT>
struct Open : public GFqDom<TT> {
    using GFqDom<TT>::GFqDom;
    using GFqDom<TT>::_plus1;
    using GFqDom<TT>::_log2pol;
    using GFqDom<TT>::_pol2log;
};

template <class TT>
struct FieldT : IField {
    typedef Open<TT> Dom;
    typedef typename Dom::Element E;
    typedef typename Dom::Residu_t UTT;
    std::unique_ptr<Dom> Fp;
    ull P, K;
    FieldT(ull p, ull k, int c, ull fc, ull gc) : P(p), K(k) {
        if (c == 0) Fp.reset(new Dom((UTT)p, (UTT)k));
        else if (c == 3) {
            // modulus found by Poly1FactorDom::ixe_irreducible2 (Rabin's test), then the user-modulus constructor
            GFqDom<TT> Zp((UTT)p, (UTT)1);
            typedef Poly1FactorDom<GFqDom<TT>, Dense> PolDom;
            PolDom Pdom(Zp);
            typename PolDom::Element Fx;
            Pdom.ixe_irreducible2(Fx, Degree((int64_t)k));
            std::vector<int64_t> mod(k + 1, 0);
            for (size_t i = 0; i < Fx.size() && i <= k; ++i) { int64_t v; Zp.convert(v, Fx[i]); mod[i] = v; }
            Fp.reset(new Dom((UTT)p, (UTT)k, mod));
        } else {
            std::vector<int64_t> mod(k + 1, 0);
            { ull x = fc; for (size_t i = 0; i <= k; ++i) { mod[i] = (int64_t)(x % p); x /= p; } }
            if (c == 1) Fp.reset(new Dom((UTT)p, (UTT)k, mod));
            else {
                std::vector<int64_t> gen;
                { ull x = gc; while (x) { gen.push_back((int64_t)(x % p)); x /= p; } }
                Fp.reset(new Dom((UTT)p, (UTT)k, mod, gen));
            }
        }
    }
    const Dom& F() const { return *Fp; }
    ll q() const override { return (ll)F().cardinality(); }
    ll mOne() const override { return (ll)F().mOne; }
    std::string dump() const override {
        const Dom& D = F();
        std::string s;
        ull card = 0; D.cardinality(card);
        uint64_t ch = 0; D.characteristic(ch);
        s += H((ll)D.cardinality()); s += ' ' + H((ll)D.characteristic()); s += ' ' + H((ll)D.exponent());
        s += ' ' + H(K >= 2 ? (ll)D.irreducible() : 0);     // for k = 1 the constructor leaves _irred unset
        s += ' ' + H((ll)D.zero); s += ' ' + H((ll)D.one); s += ' ' + H((ll)D.mOne);
        s += ' ' + H((ll)D.generator()); s += ' ' + H((ll)card); s += ' ' + H((ll)D.size()); s += ' ' + H((ll)D.residu());
        (void)ch;
        s += " |";
        for (size_t i = 0; i < D._log2pol.size(); ++i) { s += ' '; s += vp::hex_ull((ull)D._log2pol[i]); }
        s += " |";
        for (size_t i = 0; i < D._pol2log.size(); ++i) { s += ' '; s += vp::hex_ull((ull)D._pol2log[i]); }
        s += " |";
        for (size_t i = 0; i < D._plus1.size(); ++i) { s += ' '; s += H((ll)D._plus1[i]); }
        return s;
    }
    std::string ops(ll a_, ll b_, ll c_) const override {
        const Dom& D = F();
        E a = (E)a_, b = (E)b_, c = (E)c_, r;
        char buf[512]; char* w = buf;
        auto put = [&](E v) { w = put_hex(w, (ll)v); };
        r = 0; D.mul(r, a, b); put(r);
        r = a; D.mulin(r, b); put(r);
        r = 0; D.div(r, a, b); put(r);
        r = a; D.divin(r, b); put(r);
        r = 0; D.add(r, a, b); put(r);
        r = a; D.addin(r, b); put(r);
        r = 0; D.sub(r, a, b); put(r);
        r = a; D.subin(r, b); put(r);
        r = 0; D.neg(r, a); put(r);
        r = a; D.negin(r); put(r);
        r = 0; D.inv(r, a); put(r);
        r = a; D.invin(r); put(r);
        r = 0; D.axpy(r, a, b, c); put(r);
        r = c; D.axpyin(r, a, b); put(r);
        r = c; D.maxpyin(r, a, b); put(r);
        r = c; D.axmyin(r, a, b); put(r);
        r = 0; D.axmy(r, a, b, c); put(r);
        r = 0; D.maxpy(r, a, b, c); put(r);
        return std::string(buf + 1, w);
    }
    void runArr(const std::string& op, size_t sz, E s, E s2, E* r, const E* x, const E* y) const {
        const Dom& D = F();
        if (op == "mulVV") D.mul(sz, r, x, y);
        else if (op == "mulVS") D.mul(sz, r, x, s);
        else if (op == "divVV") D.div(sz, r, x, y);
        else if (op == "divVS") D.div(sz, r, x, s);
        else if (op == "addVV") D.add(sz, r, x, y);
        else if (op == "addVS") D.add(sz, r, x, s);
        else if (op == "subVV") D.sub(sz, r, x, y);
        else if (op == "subVS") D.sub(sz, r, x, s);
        else if (op == "negV") D.neg(sz, r, x);
        else if (op == "invV") D.inv(sz, r, x);
        else if (op == "axpyVV") D.axpy(sz, r, s, x, y);
        else if (op == "axpyVS") D.axpy(sz, r, s, x, s2);
        else if (op == "axpyinV") D.axpyin(sz, r, s, x);
        else if (op == "axmyVV") D.axmy(sz, r, s, x, y);
        else if (op == "axmyVS") D.axmy(sz, r, s, x, s2);
        else if (op == "maxpyinV") D.maxpyin(sz, r, s, x);
        else throw 1;
    }
    std::string arr(const std::string& op, size_t sz, ll s, ll s2, const std::vector<ll>& X, const std::vector<ll>& Y,
                    const std::vector<ll>& R0) const override {
        // exact-size heap blocks so that the sanitizer sees any access outside [0,sz)
        E* x = new E[sz]; E* y = new E[sz]; E* r = new E[sz];
        for (size_t i = 0; i < sz; ++i) { x[i] = (E)X[i]; y[i] = (E)Y[i]; r[i] = (E)R0[i]; }
        std::string out;
        bool crashed = false;
        if (sz == 0) {
            // a wrong loop header runs off the arrays for sz = 0: try it in a child first
            fflush(stdout);
            pid_t pid = fork();
            if (pid == 0) {
                g_report_crash = false; g_now.clear();
                signal(SIGSEGV, SIG_DFL); signal(SIGBUS, SIG_DFL); signal(SIGFPE, SIG_DFL); signal(SIGABRT, SIG_DFL);
                alarm(10);
                int fd = open_devnull(); (void)fd;
                try { runArr(op, sz, (E)s, (E)s2, r, x, y); } catch (...) { _exit(3); }
                _exit(0);
            }
            int st = 0;
            waitpid(pid, &st, 0);
            crashed = !(WIFEXITED(st) && WEXITSTATUS(st) == 0);
        } else {
            runArr(op, sz, (E)s, (E)s2, r, x, y);
        }
        if (crashed) out = "CRASH";
        else for (size_t i = 0; i < sz; ++i) { if (i) out += ' '; out += H((ll)r[i]); }
        delete[] x; delete[] y; delete[] r;
        return out;
    }
    std::string dot(size_t sz, const std::vector<ll>& X, const std::vector<ll>& Y) const override {
        E* x = new E[sz]; E* y = new E[sz];
        for (size_t i = 0; i < sz; ++i) { x[i] = (E)X[i]; y[i] = (E)Y[i]; }
        E r = 0;
        F().dotprod(r, sz, x, y);
        delete[] x; delete[] y;
        return H((ll)r);
    }
    // init(Rep&, const Vector&): the vector holds prime-field *elements* (GFqDom<TT>(P) representation) of the integers cs
    std::string vinit(const std::vector<ull>& cs) const override {
        GFqDom<TT> Zp((UTT)P, (UTT)1);
        std::vector<TT> V(cs.size());
        for (size_t i = 0; i < cs.size(); ++i) Zp.init(V[i], (int64_t)cs[i]);
        E r = 0;
        F().init(r, V);
        return H((ll)r);
    }
    static int open_devnull() { if (!freopen("/dev/null", "w", stderr)) return -1; return 0; }
};

// ------------------------------------------------------------------------------------------------
struct FS { ull T, P, K, C, Fc, Gc;
    std::string str() const { return vp::hex_ull(T) + ' ' + vp::hex_ull(P) + ' ' + vp::hex_ull(K) + ' ' + vp::hex_ull(C) + ' ' + vp::hex_ull(Fc) + ' ' + vp::hex_ull(Gc); }
};

static std::string g_curKey;
static std::unique_ptr<IField> g_cur;

static IField* field(const FS& f) {
    std::string k = f.str();
    if (k == g_curKey && g_cur) return g_cur.get();
    g_cur.reset();
    g_now = "fld " + k;
    if (f.T == 0x20) g_cur.reset(new FieldT<int32_t>(f.P, f.K, (int)f.C, f.Fc, f.Gc));
    else g_cur.reset(new FieldT<int64_t>(f.P, f.K, (int)f.C, f.Fc, f.Gc));
    g_curKey = k;
    std::string o = "fld " + k + " = " + g_cur->dump() + "\n";
    fputs(o.c_str(), stdout);
    g_now.clear();
    return g_cur.get();
}

static void line_ops(const FS& f, ll a, ll b, ll c) {
    IField* F = field(f);
    char buf[256]; char* w = buf;
    w = put_hex(w, a); w = put_hex(w, b); w = put_hex(w, c); *w = 0;
    g_now.assign("ops "); g_now += g_curKey; g_now += buf;
    std::string res = F->ops(a, b, c);
    g_now.clear();
    fputs("ops ", stdout); fputs(g_curKey.c_str(), stdout); fputs(buf, stdout); fputs(" = ", stdout);
    fputs(res.c_str(), stdout); fputc('\n', stdout);
}
static void line_arr(const FS& f, const std::string& op, size_t sz, ll s, ll s2, const std::vector<ll>& X, const std::vector<ll>& Y,
                     const std::vector<ll>& R0) {
    IField* F = field(f);
    std::string o = "arr " + f.str() + ' ' + op + ' ' + H((ll)sz) + ' ' + H(s) + ' ' + H(s2);
    for (ll v : X) o += ' ' + H(v);
    for (ll v : Y) o += ' ' + H(v);
    for (ll v : R0) o += ' ' + H(v);
    g_now = o;
    o += " = " + F->arr(op, sz, s, s2, X, Y, R0) + "\n";
    g_now.clear();
    fputs(o.c_str(), stdout);
}
static void line_dot(const FS& f, size_t sz, const std::vector<ll>& X, const std::vector<ll>& Y) {
    IField* F = field(f);
    std::string o = "dot " + f.str() + ' ' + H((ll)sz);
    for (ll v : X) o += ' ' + H(v);
    for (ll v : Y) o += ' ' + H(v);
    g_now = o;
    o += " = " + F->dot(sz, X, Y) + "\n";
    g_now.clear();
    fputs(o.c_str(), stdout);
}

static void line_vin(const FS& f, const std::vector<ull>& cs) {
    IField* F = field(f);
    std::string o = "vin " + f.str() + ' ' + vp::hex_ull(cs.size());
    for (ull c : cs) o += ' ' + vp::hex_ull(c);
    g_now = o;
    o += " = " + F->vinit(cs) + "\n";
    g_now.clear();
    fputs(o.c_str(), stdout);
}

static void line_gf2(int a, int b, int c) {
    GF2 F;
    std::string s;
    auto put = [&](bool v) { s += v ? " 1" : " 0"; };
    bool A = a, B = b, C = c, r;
    r = false; F.add(r, A, B); put(r);
    r = false; F.sub(r, A, B); put(r);
    r = false; F.mul(r, A, B); put(r);
    r = false; F.div(r, A, B); put(r);
    r = false; F.neg(r, A); put(r);
    r = false; F.inv(r, A); put(r);
    r = false; F.axpy(r, A, B, C); put(r);
    r = false; F.axmy(r, A, B, C); put(r);
    r = false; F.maxpy(r, A, B, C); put(r);
    r = C; F.axpyin(r, A, B); put(r);
    r = C; F.axmyin(r, A, B); put(r);
    r = C; F.maxpyin(r, A, B); put(r);
    std::vector<bool> v(3, false);
    v[1] = false; F.add(v[1], A, B); put(v[1]);
    v[1] = false; F.sub(v[1], A, B); put(v[1]);
    v[1] = false; F.mul(v[1], A, B); put(v[1]);
    v[1] = false; F.div(v[1], A, B); put(v[1]);
    v[1] = false; F.neg(v[1], A); put(v[1]);
    v[1] = false; F.inv(v[1], A); put(v[1]);
    v[1] = false; F.axpy(v[1], A, B, C); put(v[1]);
    v[1] = false; F.axmy(v[1], A, B, C); put(v[1]);
    v[1] = false; F.maxpy(v[1], A, B, C); put(v[1]);
    v[1] = C; F.axpyin(v[1], A, B); put(v[1]);
    v[1] = C; F.axmyin(v[1], A, B); put(v[1]);
    v[1] = C; F.maxpyin(v[1], A, B); put(v[1]);
    s += ' ' + H((ll)F.cardinality()) + ' ' + H((ll)F.characteristic());
    std::string o = "gf2 " + H(a) + ' ' + H(b) + ' ' + H(c) + " =" + s + "\n";
    fputs(o.c_str(), stdout);
}

// ------------------------------------------------------------------------------------------------
// generators
// ------------------------------------------------------------------------------------------------
static const char* ARR_OPS[] = {"mulVV", "mulVS", "divVV", "divVS", "addVV", "addVS", "subVV", "subVS", "negV", "invV",
                                "axpyVV", "axpyVS", "axpyinV", "axmyVV", "axmyVS", "maxpyinV"};

static std::vector<ll> grid(ll q, ll mo, vp::Rng& rng, int nrand) {
    std::set<ll> s;
    ll base[] = {0, 1, 2, 3, mo - 1, mo, mo + 1, q - 3, q - 2, q - 1, (q - 1) / 2, (q - 1) / 2 + 1, q / 3};
    for (ll v : base) if (v >= 0 && v < q) { s.insert(v); if (q - 1 - v >= 0) s.insert(q - 1 - v); }
    for (int i = 0; i < nrand; ++i) s.insert((ll)rng.below((uint64_t)q));
    return std::vector<ll>(s.begin(), s.end());
}

static void gen_field_cases(const FS& f, bool quick, vp::Rng& rng, bool arrays, bool zero_sz) {
    IField* F = field(f);
    ll q = F->q(), mo = F->mOne();
    if (q <= 9 || (q <= 16 && f.C == 0)) {
        for (ll a = 0; a < q; ++a) for (ll b = 0; b < q; ++b) for (ll c = 0; c < q; ++c) line_ops(f, a, b, c);
    } else if (q <= 64 || (!quick && q <= 160)) {
        for (ll a = 0; a < q; ++a) for (ll b = 0; b < q; ++b) {
            line_ops(f, a, b, (ll)rng.below((uint64_t)q));
            if (((a + b) & 7) == 0) { line_ops(f, a, b, 0); line_ops(f, a, b, mo); line_ops(f, a, b, q - 1); }
        }
    }
    if (q > 16) {
        std::vector<ll> g = grid(q, mo, rng, quick ? 2 : 6);
        for (ll a : g) for (ll b : g) {
            line_ops(f, a, b, 0);
            line_ops(f, a, b, rng.below(2) ? q - 1 : mo);
            line_ops(f, a, b, (ll)rng.below((uint64_t)q));
            // c chosen so that a*b + c, a*b - c hit the sentinels: c = ±(a*b) in log form when a,b != 0
            if (a && b) { ll ab = a + b > q - 1 ? a + b - (q - 1) : a + b; line_ops(f, a, b, ab);
                          ll nab = ab - mo > 0 ? ab - mo : ab - mo + (q - 1); line_ops(f, a, b, nab); }
        }
        int nr = quick ? 60 : 600;
        for (int i = 0; i < nr; ++i) line_ops(f, (ll)rng.below((uint64_t)q), (ll)rng.below((uint64_t)q), (ll)rng.below((uint64_t)q));
    }
    if (f.K >= 2) {
        // init from a polynomial over the prime field: every degree 0 … 2k+2 (k-1, k, k+1 are the branch boundary of the
        // reduction modulo the defining polynomial), leading coefficient 1 and p-1, three fillings, with and without
        // stored leading zeros; the zero polynomial (empty / stored zeros) and multiples of the defining polynomial
        std::vector<std::vector<ull>> vl;
        for (ull d = 0; d <= 2 * f.K + 2; ++d) for (int lead = 0; lead < 2; ++lead) for (int fill = 0; fill < 3; ++fill) {
            std::vector<ull> cs(d + 1);
            for (ull i = 0; i < d; ++i) cs[i] = fill == 0 ? 0 : fill == 1 ? f.P - 1 : rng.below(f.P);
            cs[d] = lead ? f.P - 1 : 1;
            vl.push_back(cs);
            if (fill == 2) { cs.push_back(0); cs.push_back(0); vl.push_back(cs); }
        }
        {   // the defining polynomial itself (as the object reports it), X * it, (p-1) * it
            std::string d = F->dump();
            ull irr = strtoull(d.c_str() + d.find(' ', d.find(' ', d.find(' ') + 1) + 1) + 1, nullptr, 16);
            std::vector<ull> fp; for (ull x = irr; x; x /= f.P) fp.push_back(x % f.P);
            vl.push_back(fp);
            std::vector<ull> xf(fp); xf.insert(xf.begin(), 0); vl.push_back(xf);
            std::vector<ull> mf(fp); for (ull& c : mf) c = c * (f.P - 1) % f.P; vl.push_back(mf);
        }
        vl.push_back(std::vector<ull>());
        vl.push_back(std::vector<ull>(1, 0));
        vl.push_back(std::vector<ull>(3, 0));
        // a crash of one init must not lose the others: the block runs in children that resume after the crashed line
        size_t* prog = (size_t*)mmap(nullptr, sizeof(size_t), PROT_READ | PROT_WRITE, MAP_SHARED | MAP_ANONYMOUS, -1, 0);
        size_t start = 0;
        while (prog != MAP_FAILED && start < vl.size()) {
            fflush(stdout);
            pid_t pid = fork();
            if (pid == 0) {
                g_report_crash = true;
                for (size_t i = start; i < vl.size(); ++i) { *prog = i; line_vin(f, vl[i]); }
                fflush(stdout);
                _exit(0);
            }
            int st = 0;
            waitpid(pid, &st, 0);
            if (WIFEXITED(st) && WEXITSTATUS(st) == 0) break;
            if (!(WIFEXITED(st) && (WEXITSTATUS(st) == 77 || WEXITSTATUS(st) == 78))) {
                std::string o = "vin " + f.str() + ' ' + vp::hex_ull(vl[*prog].size());
                for (ull c : vl[*prog]) o += ' ' + vp::hex_ull(c);
                o += " = CRASH\n"; fputs(o.c_str(), stdout);
            }
            start = *prog + 1;
        }
        if (prog != MAP_FAILED) munmap(prog, sizeof(size_t));
    }
    if (!arrays) return;
    std::vector<ll> g = grid(q, mo, rng, 4);
    auto pick = [&](bool nz) { for (;;) { ll v = (rng.below(3) == 0) ? (ll)rng.below((uint64_t)q) : g[rng.below(g.size())]; if (!nz || v != 0) return v; } };
    std::vector<size_t> sizes = {1, 2, 7};
    if (zero_sz) sizes.insert(sizes.begin(), 0);
    if (!quick) { sizes.push_back(3); sizes.push_back(16); sizes.push_back(33); }
    for (const char* opc : ARR_OPS) {
        std::string op(opc);
        for (size_t sz : sizes) for (int rep = 0; rep < (quick ? 2 : 4); ++rep) {
            std::vector<ll> X(sz), Y(sz), R0(sz);
            bool nzX = op == "invV", nzY = op == "divVV";
            for (size_t i = 0; i < sz; ++i) { X[i] = pick(nzX); Y[i] = pick(nzY); R0[i] = pick(false); }
            ll s = pick(op == "divVS"), s2 = pick(false);
            line_arr(f, op, sz, s, s2, X, Y, R0);
            if (sz == 0) break;
        }
    }
    {   // array-by-scalar forms with the scalar running explicitly over the code values 0, 1 (the generator), 2, one = q-1, mOne
        std::vector<ll> sg = {0, 1, 2, q - 1, mo, q - 2, mo + 1 < q ? mo + 1 : 1};
        for (const char* opc : {"mulVS", "divVS", "addVS", "subVS", "axpyVV", "axpyVS", "axpyinV", "axmyVV", "axmyVS", "maxpyinV"}) {
            std::string op(opc);
            for (ll s : sg) {
                if (s < 0 || s >= q || (op == "divVS" && s == 0)) continue;
                for (ll s2 : {(ll)0, q - 1, mo}) {
                    if (s2 != 0 && op != "axpyVS" && op != "axmyVS") continue;
                    size_t sz = 5;
                    std::vector<ll> X(sz), Y(sz), R0(sz);
                    ll fixed[5] = {0, 1, q - 1, mo, 2 % q};
                    for (size_t i = 0; i < sz; ++i) { X[i] = fixed[i]; Y[i] = pick(false); R0[i] = fixed[(i + 2) % 5]; }
                    line_arr(f, op, sz, s, s2, X, Y, R0);
                }
            }
        }
    }
    std::vector<size_t> dsz = {0, 1, 2, 3, 7};
    if (!quick) { dsz.push_back(64); dsz.push_back(257); }
    for (size_t sz : dsz) for (int rep = 0; rep < 2; ++rep) {
        std::vector<ll> X(sz), Y(sz);
        for (size_t i = 0; i < sz; ++i) { X[i] = pick(false); Y[i] = pick(false); }
        line_dot(f, sz, X, Y);
    }
}

static void generate(const std::string& tier, uint64_t seed) {
    bool quick = tier != "thorough";
    vp::Rng rng(seed * 0x9E3779B97F4A7C15ULL + 5);
    for (int a = 0; a < 2; ++a) for (int b = 0; b < 2; ++b) for (int c = 0; c < 2; ++c) line_gf2(a, b, c);
    // --- automatic construction: every (p,k) with p^k <= bound
    ull bound = quick ? 512 : 4096;             // k = 1
    ull kbound = quick ? 4096 : 65536;          // k >= 2
    ull maxc32 = (ull)GFqDom<int32_t>::maxCardinality();
    std::vector<FS> fields;
    for (ull p = 2; p <= 65536; ++p) {
        if (!isprime(p)) continue;
        for (ull k = 1; ipow(p, k) <= maxc32 && k <= 16; ++k) {
            ull q = ipow(p, k);
            bool in = (k == 1) ? q <= bound : q <= kbound;
            if (!in) continue;
            fields.push_back(FS{0x20, p, k, 0, 0, 0});
            if (q <= 64 || rng.below(quick ? 12 : 4) == 0) fields.push_back(FS{0x40, p, k, 0, 0, 0});
        }
    }
    // boundary of maxCardinality() as reported by the running code, and the fields of tests/test-ffarith.C
    fields.push_back(FS{0x20, 2, 16, 0, 0, 0});           // q = maxCardinality()
    fields.push_back(FS{0x20, 65521, 1, 0, 0, 0});        // largest prime below it (GFpmax)
    fields.push_back(FS{0x20, 3, 10, 0, 0, 0});
    fields.push_back(FS{0x20, 251, 2, 0, 0, 0});
    fields.push_back(FS{0x20, 5, 4, 0, 0, 0});
    fields.push_back(FS{0x40, 2, 2, 0, 0, 0});
    fields.push_back(FS{0x40, 11, 3, 0, 0, 0});
    fields.push_back(FS{0x40, 2, 8, 1, 0x11b, 0});        // 1 + x + x^3 + x^4 + x^8  (GF256 of the test)
    fields.push_back(FS{0x40, 7, 3, 2, 3 + 343, 5 + 3 * 7 + 4 * 49});   // 3 + x^3, generator 5 + 3x + 4x^2 (GF343)
    fields.push_back(FS{0x20, 3, 8, 0, 0, 0});            // degrees divisible by a square: 4, 8, 9
    // moduli chosen by ixe_irreducible2 (C = 3), in particular degrees 4, 8, 9
    for (FS g : std::vector<FS>{{0x20, 3, 4, 3, 0, 0}, {0x40, 5, 4, 3, 0, 0}, {0x20, 7, 4, 3, 0, 0}, {0x40, 2, 8, 3, 0, 0}, {0x20, 2, 9, 3, 0, 0},
                                {0x20, 2, 4, 3, 0, 0}, {0x40, 3, 2, 3, 0, 0}, {0x20, 2, 6, 3, 0, 0}, {0x20, 3, 3, 3, 0, 0}}) fields.push_back(g);
    if (!quick) { fields.push_back(FS{0x20, 3, 9, 0, 0, 0}); fields.push_back(FS{0x40, 3, 9, 3, 0, 0}); fields.push_back(FS{0x40, 3, 8, 3, 0, 0}); fields.push_back(FS{0x40, 5, 8, 0, 0, 0}); }
    if (!quick) {
        fields.push_back(FS{0x40, 2, 16, 0, 0, 0});
        fields.push_back(FS{0x40, 2, 18, 0, 0, 0});
        fields.push_back(FS{0x40, 262139, 1, 0, 0, 0});
        fields.push_back(FS{0x40, 65537, 1, 0, 0, 0});    // first prime above the int32 limit
        fields.push_back(FS{0x40, 257, 2, 0, 0, 0});
    }
    // user-supplied irreducible / generator polynomials, chosen with the independent arithmetic above
    struct PK { ull p, k; };
    std::vector<PK> user = {{2, 2}, {2, 3}, {2, 5}, {3, 2}, {3, 3}, {5, 2}, {7, 3}, {13, 2}};
    if (!quick) { for (PK u : std::vector<PK>{{2, 4}, {2, 8}, {2, 10}, {3, 4}, {3, 6}, {5, 3}, {5, 4}, {7, 2}, {11, 2}, {17, 3}, {31, 2}, {61, 2}}) user.push_back(u); }
    for (PK u : user) {
        ull q = ipow(u.p, u.k);
        std::vector<ull> irr;
        for (ull c = q; c < 2 * q && irr.size() < 400; ++c) if (irreducible(fromCode(c, u.p), u.p)) irr.push_back(c);
        if (irr.empty()) continue;
        std::set<ull> chosen = {irr[rng.below(irr.size())], irr.back()};
        if (!quick) { chosen.insert(irr.front()); chosen.insert(irr[irr.size() / 2]); }
        for (ull fc : chosen) {
            fields.push_back(FS{(rng.below(2) ? 0x20ULL : 0x40ULL), u.p, u.k, 1, fc, 0});
            Pol f = fromCode(fc, u.p);
            // primitive generators: the smallest code, the largest, a random one
            std::vector<ull> prim;
            for (ull g = 2; g < q && prim.size() < 200; ++g) if (primitive(fromCode(g, u.p), f, u.p, q)) prim.push_back(g);
            for (ull g = q - 1; g >= 2; --g) if (primitive(fromCode(g, u.p), f, u.p, q)) { prim.push_back(g); break; }
            if (prim.empty()) continue;
            std::set<ull> gs = {prim.back(), prim[rng.below(prim.size())]};
            if (!quick) gs.insert(prim.front());
            for (ull gc : gs) fields.push_back(FS{(rng.below(2) ? 0x20ULL : 0x40ULL), u.p, u.k, 2, fc, gc});
        }
    }
    size_t idx = 0;
    for (const FS& f : fields) {
        ull q = ipow(f.P, f.K);
        bool arrays = q <= 64 || f.C != 0 || (idx % 7 == seed % 7) || q >= 59049;
        bool zero_sz = q <= 16 || (f.C != 0 && q <= 128 && idx % 3 == seed % 3) || (arrays && q <= 4096 && idx % 16 == seed % 16);
        uint64_t fseed = rng.next();
        fflush(stdout);
        pid_t pid = fork();
        if (pid == 0) {
            g_report_crash = true;
            alarm(quick ? 90 : 900);       // watchdog: a broken field can make the library's own searches loop forever
            vp::Rng frng(fseed);
            gen_field_cases(f, quick, frng, arrays, zero_sz);
            fflush(stdout);
            _exit(0);
        }
        int st = 0;
        waitpid(pid, &st, 0);
        bool reported = WIFEXITED(st) && (WEXITSTATUS(st) == 0 || WEXITSTATUS(st) == 77 || WEXITSTATUS(st) == 78);
        if (!reported) { std::string o = "fld " + f.str() + " = CRASH\n"; fputs(o.c_str(), stdout); }
        ++idx;
    }
    fflush(stdout);
    gen_ext_cases(quick, rng);
}

// ------------------------------------------------------------------------------------------------
static bool parse_fs(const vp::Args& a, size_t at, FS& f) {
    if (a.n() < at + 6) return false;
    f.T = a.W(at); f.P = a.W(at + 1); f.K = a.W(at + 2); f.C = a.W(at + 3); f.Fc = a.W(at + 4); f.Gc = a.W(at + 5);
    return true;
}

int main(int argc, char** argv) {
    install_crash_reporting();
    if (argc >= 3) { generate(argv[1], strtoull(argv[2], nullptr, 10)); return 0; }
    vp::Args a;
    while (vp::read_line(std::cin, a)) {
        const std::string& k = a.tok[0];
        FS f;
        try {
            if (k == "gf2" && a.n() >= 3) line_gf2((int)a.W(0), (int)a.W(1), (int)a.W(2));
            else if (k == "fld" && parse_fs(a, 0, f)) { g_curKey.clear(); field(f); }
            else if (k == "ops" && parse_fs(a, 0, f) && a.n() >= 9) line_ops(f, a.SW(6), a.SW(7), a.SW(8));
            else if (k == "arr" && parse_fs(a, 0, f) && a.n() >= 10) {
                std::string op = a.s(6);
                size_t sz = (size_t)a.W(7);
                ll s = a.SW(8), s2 = a.SW(9);
                if (a.n() != 10 + 3 * sz) { vp::emit(a, "BADLINE"); continue; }
                std::vector<ll> X(sz), Y(sz), R0(sz);
                for (size_t i = 0; i < sz; ++i) { X[i] = a.SW(10 + i); Y[i] = a.SW(10 + sz + i); R0[i] = a.SW(10 + 2 * sz + i); }
                line_arr(f, op, sz, s, s2, X, Y, R0);
            } else if (k == "dot" && parse_fs(a, 0, f) && a.n() >= 7) {
                size_t sz = (size_t)a.W(6);
                if (a.n() != 7 + 2 * sz) { vp::emit(a, "BADLINE"); continue; }
                std::vector<ll> X(sz), Y(sz);
                for (size_t i = 0; i < sz; ++i) { X[i] = a.SW(7 + i); Y[i] = a.SW(7 + sz + i); }
                line_dot(f, sz, X, Y);
            } else if (k == "vin" && parse_fs(a, 0, f) && a.n() >= 7) {
                size_t n = (size_t)a.W(6);
                if (a.n() != 7 + n) { vp::emit(a, "BADLINE"); continue; }
                std::vector<ull> cs(n);
                for (size_t i = 0; i < n; ++i) cs[i] = a.W(7 + i);
                line_vin(f, cs);
            } else if (!ext_line(a)) vp::emit(a, "BADLINE");
        } catch (...) { vp::emit(a, "EXC"); }
    }
    return 0;
}
