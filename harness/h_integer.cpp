// Correspondence harness for C01/C02 (and, with -DALIAS_STUBS, C15 on the Integer layer): calls every specified overload of the gmp++ Integer API
// (stubs generated from the clang AST by translate/gen_integer.py) on the arguments of each
// input line and prints the returned value and the final values of the output parameters.
#include "proto.h"
#include <gmp++/gmp++.h>
#include <givaro/givinteger.h>
#include <functional>
#include <map>

using namespace Givaro;

struct IArgs : vp::Args {
    Integer Z(size_t i) const {
        Integer r;
        mpz_set_str(r.get_mpz(), s(i).c_str(), 16);
        return r;
    }
};
struct IOut : vp::Out {
    void Z(const Integer& x) { mpz(x.get_mpz_const()); }
};
typedef IArgs Args;
typedef IOut Out;

static ZRing<Integer> ZZ;

static const std::map<std::string, std::function<void(Args&, Out&)>> TABLE = {
#ifdef ALIAS_STUBS
#include "integerAlias_calls.inc"
#else
#include "integer_calls.inc"
#endif
};

int main() {
    Args a;
    size_t unknown = 0;
    while (vp::read_line(std::cin, a)) {
        auto it = TABLE.find(a.tok[0]);
        if (it == TABLE.end()) { ++unknown; vp::emit(a, "NOFUNC"); continue; }
        Out o;
        try {
            it->second(a, o);
            vp::emit(a, o.s);
        } catch (...) {
            vp::emit(a, "EXC");
        }
    }
    return 0;
}
