// Correspondence harness for C14 (CRT / residue number systems).
//
// Calls the real library code in-process:
//   IntRNSsystem<std::vector,std::allocator>          (givintrns*.{h,inl})
//   RNSsystem<Integer, Domain>                        (givrns*.{h,inl})   over many residue domains
//   RNSsystemFixed<Integer>                           (givrnsfixed.{h,inl})
//   ChineseRemainder<Ring, Domain, REDUCE>            (chineseremainder.h)
//   Poly1CRT<Field>                                   (givpoly1crt*.{h,inl})
//
// Line protocol (numbers in hex):
//   irns <hist> <n> p.. <nb> b.. r.. a            = x m_0..m_{n-1} c_1..c_{n-1} t_0..t_{n-1} prod y acc
//   rns.<dom> <hist> <n> p.. <nb> b.. r.. a       = x m_0..m_{n-1} c_1..c_{n-1} t_0..t_{n-1} y acc      (acc: accessor agreement bits)
//   fixed <hist> <n> p.. r..                      = x L s_0 e.. s_1 e.. … size() ith(0).. x'   (L levels of Primes(); x' from another container)
//   cra.<dom> <hist> M d A e                      = res resNoReduce
//   pcrt.<dom> <hist> p <n> a.. r..               = k c_0..c_{k-1} t_0..t_{n-1} acc
//   prt.<dom> <hist> p <n> a.. <k> c..            = t_0..t_{n-1} k' c'_0..          (RingToRns of a polynomial, then RnsToRing)
//   mirns <prog> <n> p.. <nb> b.. r.. a           = as irns      (program over several objects, see run_prog)
//   mrns.<dom> <prog> <n> p.. <nb> b.. r.. a      = as rns.<dom>
// <hist> is a string of operation letters (see run_* below) describing how the system object was obtained.
// With argv = "<tier> <seed>" the harness generates its own input lines; with lines on stdin it runs exactly those.
#include "proto.h"
#include <gmp++/gmp++.h>
#include <givaro/givinteger.h>
#include <givaro/givintprime.h>
#include <givaro/modular.h>
#include <givaro/montgomery.h>
#include <givaro/gfq.h>
#include <givaro/givintrns.h>
#include <givaro/chineseremainder.h>
#include <givaro/givrns.h>
#include <givaro/givrnsfixed.h>
#include <givaro/givpoly1crt.h>
#include <algorithm>
#include <functional>
#include <map>
#include <memory>
#include <set>
#include <sys/wait.h>
#include <unistd.h>

using namespace Givaro;
typedef std::vector<Integer> IVec;

static Integer parseZ(const std::string& s) {
    Integer r;
    mpz_set_str(r.get_mpz(), s.c_str(), 16);
    return r;
}
static std::string hexZ(const Integer& x) { return vp::hex(x.get_mpz_const()); }

struct Cur {
    const vp::Args& a;
    size_t i;
    explicit Cur(const vp::Args& aa) : a(aa), i(0) {}
    const std::string& str() { return a.s(i++); }
    Integer Z() { return parseZ(a.s(i++)); }
    size_t N() { return (size_t)a.W(i++); }
    IVec vec(size_t n) { IVec v; for (size_t k = 0; k < n; ++k) v.push_back(Z()); return v; }
};
struct Res {
    std::string s;
    void Z(const Integer& x) { if (!s.empty()) s += ' '; s += hexZ(x); }
    void N(size_t x) { if (!s.empty()) s += ' '; s += vp::hex_ull(x); }
};

// ------------------------------------------------------------------------------------------ IntRNSsystem
// final query on an IntRNSsystem: every public member, compared by the driver with the model
//   x m_0.. c_1.. t_0.. prod y acc      acc = bit mask of accessor agreements (all bits expected):
//   1 NumOfPrimes()==n  2 Primes()==A  4 ith(i)==A[i]  8 reciprocal(i)==Reciprocals()[i]  16 MixedRadixToRing(m)==x
//   32 RnsToRing from a container of another integral type == x
static std::string final_irns(IntRNSsystem<std::vector, std::allocator>& sys, size_t n, const IVec& A, const IVec& R, const Integer& a) {
    Res o;
    Integer x; sys.RnsToRing(x, R); o.Z(x);
    IVec m; sys.RnsToMixedRadix(m, R);
    for (size_t i = 0; i < n; ++i) o.Z(m[i]);
    const IVec& ck = sys.Reciprocals();
    for (size_t i = 1; i < n; ++i) o.Z(ck[i]);
    IVec t; sys.RingToRns(t, a);
    for (size_t i = 0; i < n; ++i) o.Z(t[i]);
    o.Z(sys.product());
    Integer y; sys.RnsToRing(y, t); o.Z(y);
    unsigned acc = 0;
    if ((size_t)sys.NumOfPrimes() == n) acc |= 1;
    { const IVec& P = sys.Primes(); bool ok = P.size() == n; for (size_t i = 0; ok && i < n; ++i) ok = (P[i] == A[i]); if (ok) acc |= 2; }
    { bool ok = true; for (size_t i = 0; i < n; ++i) ok = ok && (sys.ith(i) == A[i]); if (ok) acc |= 4; }
    { bool ok = true; for (size_t i = 1; i < n; ++i) ok = ok && (sys.reciprocal(i) == ck[i]); if (ok) acc |= 8; }
    { Integer x2; IVec m2(m.begin(), m.begin() + (long)n); sys.MixedRadixToRing(x2, m2); if (x2 == x) acc |= 16; }
    {
        bool fitsU = true, fitsS = true;
        for (auto& r : R) { if (r < 0 || r.bitsize() > 64) fitsU = false; if (r.bitsize() > 62) fitsS = false; }
        Integer x3;
        if (fitsU && (n % 2 == 0)) { std::vector<uint64_t> w; for (auto& r : R) w.push_back((uint64_t)r); sys.RnsToRing(x3, w); }
        else if (fitsS) { std::vector<int64_t> w; for (auto& r : R) w.push_back((int64_t)r); sys.RnsToRing(x3, w); }
        else sys.RnsToRing(x3, R);
        if (x3 == x) acc |= 32;
    }
    o.N(acc);
    return o.s;
}

// construction through the template constructor from a container of another integral type
static IntRNSsystem<std::vector, std::allocator>* irns_template_ctor(const IVec& X) {
    typedef IntRNSsystem<std::vector, std::allocator> Sys;
    bool fits64 = true, fits63 = true, fits32 = true;
    for (auto& p : X) { if (p < 0 || p.bitsize() > 64) fits64 = false; if (p < 0 || p.bitsize() > 62) fits63 = false; if (p < 0 || p.bitsize() > 32) fits32 = false; }
    if (fits32 && X.size() % 3 == 0) { std::vector<uint32_t> w; for (auto& p : X) w.push_back((uint32_t)(uint64_t)p); return new Sys(w); }
    if (fits63 && X.size() % 3 == 1) { std::vector<int64_t> w; for (auto& p : X) w.push_back((int64_t)p); return new Sys(w); }
    if (fits64) { std::vector<uint64_t> w; for (auto& p : X) w.push_back((uint64_t)p); return new Sys(w); }
    return new Sys(X);
}

static std::string run_irns(Cur& c) {
    typedef IntRNSsystem<std::vector, std::allocator> Sys;
    std::string hist = c.str();
    size_t n = c.N(); IVec A = c.vec(n);
    size_t nb = c.N(); IVec B = c.vec(nb);
    IVec R = c.vec(n); Integer a = c.Z();
    std::unique_ptr<Sys> cur;
    auto touch = [&](Sys& s) { IVec e; s.RingToRns(e, a); Integer x; s.RnsToRing(x, e); };
    for (char op : hist) {
        switch (op) {
        case 'D': cur.reset(new Sys(A)); break;
        case 'T': cur.reset(irns_template_ctor(A)); break;   // template constructor from a container of another integral type
        case 'O': cur.reset(new Sys(B)); break;
        case 'V': { Sys tmp(A); *cur = tmp; break; }
        case 'q': touch(*cur); break;
        case 'k': (void)cur->Reciprocals(); break;
        case 'm': (void)cur->product(); break;
        case 'C': { Sys* n2 = new Sys(*cur); cur.reset(n2); break; }
        case 'K': { Sys n2(*cur); touch(n2); break; }
        case 'A': { Sys* f = new Sys(); *f = *cur; cur.reset(f); break; }
        case 'B': { Sys* o = new Sys(B); *o = *cur; cur.reset(o); break; }
        case 'b': { Sys* o = new Sys(B); touch(*o); (void)o->product(); *o = *cur; cur.reset(o); break; }
        default: return "BADHIST";
        }
    }
    if (!cur || (size_t)cur->NumOfPrimes() != n) return "BADHIST";
    return final_irns(*cur, n, A, R, a);
}

// ------------------------------------------------------------------------------------------ RNSsystem<Integer, Dom>
// final query on an RNSsystem<Integer,Dom>: every public member
//   x m_0.. c_1.. t_0.. y acc     acc bits: 1 size()==n  2 Primes()[i].characteristic()==A[i]  4 ith(i).characteristic()==A[i]
//   8 reciprocal(i)==Reciprocals()[i]  16 MixedRadixToRing(m)==x  32 MixedRadixToRing rejects a digit array of the wrong size
template <class Dom>
static std::string final_rns(RNSsystem<Integer, Dom>& sys, size_t n, const IVec& A, const IVec& R, const Integer& a) {
    typedef RNSsystem<Integer, Dom> Sys;
    typedef typename Sys::array Elts;
    Sys* cur = &sys;
    Res o;
    Elts res(n);
    for (size_t i = 0; i < n; ++i) cur->ith(i).init(res[i], R[i]);
    Integer x; cur->RnsToRing(x, res); o.Z(x);
    Elts m; cur->RnsToMixedRadix(m, res);
    Integer z;
    for (size_t i = 0; i < n; ++i) o.Z(cur->ith(i).convert(z, m[i]));
    const Elts& ck = cur->Reciprocals();
    for (size_t i = 1; i < n; ++i) o.Z(cur->ith(i).convert(z, ck[i]));
    Elts t; cur->RingToRns(t, a);
    for (size_t i = 0; i < n; ++i) o.Z(cur->ith(i).convert(z, t[i]));
    Integer y; cur->RnsToRing(y, t); o.Z(y);
    unsigned acc = 0;
    if (cur->size() == n) acc |= 1;
    { const typename Sys::domains& P = cur->Primes(); bool ok = P.size() == n; for (size_t i = 0; ok && i < n; ++i) ok = (Integer(P[i].characteristic()) == A[i]); if (ok) acc |= 2; }
    { bool ok = true; for (size_t i = 0; i < n; ++i) ok = ok && (Integer(cur->ith(i).characteristic()) == A[i]); if (ok) acc |= 4; }
    { bool ok = true; for (size_t i = 1; i < n; ++i) ok = ok && cur->ith(i).areEqual(cur->reciprocal(i), ck[i]); if (ok) acc |= 8; }
    { Integer x2; Elts m2(n); for (size_t i = 0; i < n; ++i) m2[i] = m[i]; cur->MixedRadixToRing(x2, m2); if (x2 == x) acc |= 16; }
    // the rejection the code defines: a digit array of the wrong size makes MixedRadixToRing throw GivError
    { Integer x2; Elts m3(n + 1); for (size_t i = 0; i < n; ++i) m3[i] = m[i]; m3[n] = m[0];
      try { cur->MixedRadixToRing(x2, m3); } catch (GivError&) { acc |= 32; } }
    o.N(acc);
    return o.s;
}

template <class Dom>
static std::string run_rns(Cur& c) {
    typedef RNSsystem<Integer, Dom> Sys;
    typedef typename Sys::domains Doms;
    typedef typename Sys::array Elts;
    std::string hist = c.str();
    size_t n = c.N(); IVec A = c.vec(n);
    size_t nb = c.N(); IVec B = c.vec(nb);
    IVec R = c.vec(n); Integer a = c.Z();
    Doms dA(n), dB(nb);
    for (size_t i = 0; i < n; ++i) dA[i] = Dom(A[i]);
    for (size_t i = 0; i < nb; ++i) dB[i] = Dom(B[i]);
    std::unique_ptr<Sys> cur;
    auto touch = [&](Sys& s) { Elts e; s.RingToRns(e, a); Integer x; s.RnsToRing(x, e); };
    for (char op : hist) {
        switch (op) {
        case 'D': cur.reset(new Sys(dA)); break;
        case 'E': cur.reset(new Sys()); cur->setPrimes(dA); break;
        case 'O': cur.reset(new Sys(dB)); break;
        case 'S': cur->setPrimes(dA); break;
        case 'V': { Sys tmp(dA); *cur = tmp; break; }
        case 'q': touch(*cur); break;
        case 'k': (void)cur->Reciprocals(); break;
        case 'C': { Sys* n2 = new Sys(*cur); cur.reset(n2); break; }
        case 'K': { Sys n2(*cur); touch(n2); break; }
        case 'A': { Sys* f = new Sys(); *f = *cur; cur.reset(f); break; }
        case 'B': { Sys* o = new Sys(dB); *o = *cur; cur.reset(o); break; }
        case 'b': { Sys* o = new Sys(dB); touch(*o); *o = *cur; cur.reset(o); break; }
        default: return "BADHIST";
        }
    }
    if (!cur || cur->size() != n) return "BADHIST";
    return final_rns<Dom>(*cur, n, A, R, a);
}

// ------------------------------------------------------------------------------------------ RNSsystemFixed<Integer>
static std::string run_fixed(Cur& c) {
    typedef RNSsystemFixed<Integer> Sys;
    std::string hist = c.str();
    size_t n = c.N(); IVec A = c.vec(n);
    IVec R = c.vec(n);
    std::unique_ptr<Sys> cur;
    auto touch = [&](Sys& s) { Integer x; s.RnsToRing(x, R); };
    for (char op : hist) {
        switch (op) {
        case 'D': cur.reset(new Sys(A)); break;
        case 'q': touch(*cur); break;
        case 'A': { Sys* f = new Sys(); *f = *cur; cur.reset(f); break; }
        case 'C': { Sys* n2 = new Sys(*cur); cur.reset(n2); break; }
        case 'K': { Sys n2(*cur); touch(n2); break; }
        default: return "BADHIST";
        }
    }
    if (!cur) return "BADHIST";
    // x | the whole table Primes(): number of levels, then per level its size and entries | size() | ith(0..n-1) | x from another container
    Res o;
    Integer x; cur->RnsToRing(x, R); o.Z(x);
    const Sys::tree& T = cur->Primes();
    o.N(T.size());
    for (auto& lev : T) { o.N(lev.size()); for (auto& e : lev) o.Z(e); }
    o.N((size_t)cur->size());
    for (size_t i = 0; i < n; ++i) o.Z(cur->ith(i));
    {
        bool fitsU = true;
        for (auto& r : R) if (r < 0 || r.bitsize() > 64) fitsU = false;
        Integer x3;
        if (fitsU) { std::vector<uint64_t> w; for (auto& r : R) w.push_back((uint64_t)r); cur->RnsToRing(x3, w); }
        else { Array0<Integer> w(n); for (size_t i = 0; i < n; ++i) w[i] = R[i]; cur->RnsToRing(x3, w); }
        o.Z(x3);
    }
    return o.s;
}

// ------------------------------------------------------------------------------------------ programs over several objects
// <prog> = operations separated by ',' acting on slots 0..3 (X = A or B names a moduli list of the line):
//   nSX  slot S := new system on X          tSX  same through the template constructor (IntRNSsystem)
//   dS   slot S := default-constructed      cST  slot S := copy-constructed from slot T
//   aST  slot S = slot T (S == T: self-assignment)      sSX  slot S .setPrimes(X)   (RNSsystem)
//   qS   RingToRns(a) then RnsToRing on S   kS   Reciprocals()    mS  product()  (IntRNSsystem)
//   fS   final query on slot S (last operation)
static std::vector<std::string> split_prog(const std::string& p) {
    std::vector<std::string> v; std::string cur;
    for (char ch : p) { if (ch == ',') { v.push_back(cur); cur.clear(); } else cur += ch; }
    if (!cur.empty()) v.push_back(cur);
    return v;
}

static std::string run_mirns(Cur& c) {
    typedef IntRNSsystem<std::vector, std::allocator> Sys;
    std::string prog = c.str();
    size_t n = c.N(); IVec A = c.vec(n);
    size_t nb = c.N(); IVec B = c.vec(nb);
    IVec R = c.vec(n); Integer a = c.Z();
    std::unique_ptr<Sys> slot[4];
    Sys* fin = nullptr;
    auto touch = [&](Sys& s) { IVec e; s.RingToRns(e, a); Integer x; s.RnsToRing(x, e); };
    for (auto& op : split_prog(prog)) {
        if (op.size() < 2) return "BADPROG";
        size_t S = (size_t)(op[1] - '0'); if (S > 3) return "BADPROG";
        size_t T = op.size() > 2 && op[2] >= '0' && op[2] <= '3' ? (size_t)(op[2] - '0') : 9;
        const IVec& X = (op.size() > 2 && op[2] == 'B') ? B : A;
        switch (op[0]) {
        case 'n': slot[S].reset(new Sys(X)); break;
        case 't': slot[S].reset(irns_template_ctor(X)); break;
        case 'd': slot[S].reset(new Sys()); if (slot[S]->NumOfPrimes() != 0) return "BADSTATE"; break;
        case 'c': { if (T > 3 || !slot[T] || S == T) return "BADPROG"; Sys* n2 = new Sys(*slot[T]); slot[S].reset(n2); break; }
        case 'a': { if (T > 3 || !slot[T] || !slot[S]) return "BADPROG"; *slot[S] = *slot[T]; break; }
        case 'q': if (!slot[S]) return "BADPROG"; touch(*slot[S]); break;
        case 'k': if (!slot[S]) return "BADPROG"; (void)slot[S]->Reciprocals(); break;
        case 'm': if (!slot[S]) return "BADPROG"; (void)slot[S]->product(); break;
        case 'f': fin = slot[S].get(); break;
        default: return "BADPROG";
        }
    }
    if (!fin) return "BADPROG";
    if ((size_t)fin->NumOfPrimes() != n) return "BADSTATE";     // the object does not hold the moduli the program gave it
    return final_irns(*fin, n, A, R, a);
}

template <class Dom>
static std::string run_mrns(Cur& c) {
    typedef RNSsystem<Integer, Dom> Sys;
    typedef typename Sys::domains Doms;
    typedef typename Sys::array Elts;
    std::string prog = c.str();
    size_t n = c.N(); IVec A = c.vec(n);
    size_t nb = c.N(); IVec B = c.vec(nb);
    IVec R = c.vec(n); Integer a = c.Z();
    Doms dA(n), dB(nb);
    for (size_t i = 0; i < n; ++i) dA[i] = Dom(A[i]);
    for (size_t i = 0; i < nb; ++i) dB[i] = Dom(B[i]);
    std::unique_ptr<Sys> slot[4];
    Sys* fin = nullptr;
    auto touch = [&](Sys& s) { Elts e; s.RingToRns(e, a); Integer x; s.RnsToRing(x, e); };
    for (auto& op : split_prog(prog)) {
        if (op.size() < 2) return "BADPROG";
        size_t S = (size_t)(op[1] - '0'); if (S > 3) return "BADPROG";
        size_t T = op.size() > 2 && op[2] >= '0' && op[2] <= '3' ? (size_t)(op[2] - '0') : 9;
        const Doms& X = (op.size() > 2 && op[2] == 'B') ? dB : dA;
        switch (op[0]) {
        case 'n': slot[S].reset(new Sys(X)); break;
        case 'd': slot[S].reset(new Sys()); if (slot[S]->size() != 0) return "BADSTATE"; break;
        case 'c': { if (T > 3 || !slot[T] || S == T) return "BADPROG"; Sys* n2 = new Sys(*slot[T]); slot[S].reset(n2); break; }
        case 'a': { if (T > 3 || !slot[T] || !slot[S]) return "BADPROG"; *slot[S] = *slot[T]; break; }
        case 's': if (!slot[S]) return "BADPROG"; slot[S]->setPrimes(X); break;
        case 'q': if (!slot[S]) return "BADPROG"; touch(*slot[S]); break;
        case 'k': if (!slot[S]) return "BADPROG"; (void)slot[S]->Reciprocals(); break;
        case 'f': fin = slot[S].get(); break;
        default: return "BADPROG";
        }
    }
    if (!fin) return "BADPROG";
    if (fin->size() != n) return "BADSTATE";                    // the object does not hold the moduli the program gave it
    return final_rns<Dom>(*fin, n, A, R, a);
}

// ------------------------------------------------------------------------------------------ ChineseRemainder functor
template <class Dom>
static std::string run_cra(Cur& c) {
    typedef ChineseRemainder<IntPrimeDom, Dom, true> F1;
    typedef ChineseRemainder<IntPrimeDom, Dom, false> F0;
    std::string hist = c.str();
    Integer M = c.Z(), d = c.Z(), A = c.Z(), e = c.Z();
    IntPrimeDom ID;
    Dom D(d);
    typename Dom::Element el; D.init(el, e);
    std::unique_ptr<F1> f1; std::unique_ptr<F0> f0;
    for (char op : hist) {
        switch (op) {
        case 'D': f1.reset(new F1(ID, M, D)); f0.reset(new F0(ID, M, D)); break;
        case 'C': { F1* a1 = new F1(*f1); F0* a0 = new F0(*f0); f1.reset(a1); f0.reset(a0); break; }
        case 'A': { Dom D2(d == 3 ? Integer(5) : Integer(3)); F1* a1 = new F1(ID, Integer(1), D2); F0* a0 = new F0(ID, Integer(1), D2);
                    *a1 = *f1; *a0 = *f0; f1.reset(a1); f0.reset(a0); break; }
        case 'q': { Integer r; (*f1)(r, A, el); (*f0)(r, A, el); break; }
        default: return "BADHIST";
        }
    }
    if (!f1) return "BADHIST";
    Res o;
    Integer r1, r0;
    (*f1)(r1, A, el); o.Z(r1);
    (*f0)(r0, A, el); o.Z(r0);
    return o.s;
}

// ------------------------------------------------------------------------------------------ Poly1CRT<Field>
template <class Dom>
static std::string run_pcrt(Cur& c) {
    typedef Poly1CRT<Dom> Sys;
    typedef typename Sys::array_T VScal;
    typedef typename Sys::Element Poly;
    std::string hist = c.str();
    Integer p = c.Z();
    size_t n = c.N(); IVec A = c.vec(n); IVec R = c.vec(n);
    Dom F(p);
    VScal pts(n), res(n);
    for (size_t i = 0; i < n; ++i) { F.init(pts[i], A[i]); F.init(res[i], R[i]); }
    std::unique_ptr<Sys> cur;
    auto touch = [&](Sys& s) { Poly P; s.RnsToRing(P, res); };
    for (char op : hist) {
        switch (op) {
        case 'D': cur.reset(new Sys(F, pts, "X")); break;
        case 'q': touch(*cur); break;
        case 'k': (void)cur->Reciprocals(); break;
        case 'C': { Sys* n2 = new Sys(*cur); cur.reset(n2); break; }
        case 'K': { Sys n2(*cur); touch(n2); break; }
        default: return "BADHIST";
        }
    }
    if (!cur) return "BADHIST";
    Res o;
    Poly P; cur->RnsToRing(P, res);
    // normalised coefficient list (raw size() of an un-normalised polynomial is not determined by the property)
    size_t k = P.size();
    while (k > 0 && F.isZero(P[k - 1])) --k;
    o.N(k);
    Integer z;
    for (size_t i = 0; i < k; ++i) o.Z(F.convert(z, P[i]));
    VScal t; cur->RingToRns(t, P);
    for (size_t i = 0; i < n; ++i) o.Z(F.convert(z, t[i]));
    // accessors: 1 size()==n  2 Primes()==points  4 ith(i)==points[i]  8 reciprocal(i)==Reciprocals()[i]  16 getdomain() is F
    // 32 getpolydom() evaluates P like RingToRns  (write() is executed; its text is property C19)
    unsigned acc = 0;
    if ((size_t)cur->size() == n) acc |= 1;
    { const VScal& Q = cur->Primes(); bool ok = Q.size() == n; for (size_t i = 0; ok && i < n; ++i) ok = F.areEqual(Q[i], pts[i]); if (ok) acc |= 2; }
    { bool ok = true; for (size_t i = 0; i < n; ++i) ok = ok && F.areEqual(cur->ith(i), pts[i]); if (ok) acc |= 4; }
    { const typename Sys::array_E& ck = cur->Reciprocals(); bool ok = ck.size() == n + 1;
      for (size_t i = 1; ok && i < n; ++i) ok = cur->getpolydom().areEqual(cur->reciprocal(i), ck[i]); if (ok) acc |= 8; }
    if (Integer(cur->getdomain().characteristic()) == p) acc |= 16;
    { bool ok = true; typename Dom::Element v; for (size_t i = 0; i < n; ++i) { cur->getpolydom().eval(v, P, pts[i]); ok = ok && F.areEqual(v, t[i]); } if (ok) acc |= 32; }
    { std::ostringstream os; cur->write(os); cur->write(os, P); if (n) cur->write(os, pts[0]); }
    o.N(acc);
    return o.s;
}

// Poly1CRT round trip starting from a polynomial: RingToRns, then RnsToRing
template <class Dom>
static std::string run_prt(Cur& c) {
    typedef Poly1CRT<Dom> Sys;
    typedef typename Sys::array_T VScal;
    typedef typename Sys::Element Poly;
    std::string hist = c.str();
    Integer p = c.Z();
    size_t n = c.N(); IVec A = c.vec(n);
    size_t k = c.N(); IVec Cf = c.vec(k);
    Dom F(p);
    VScal pts(n);
    for (size_t i = 0; i < n; ++i) F.init(pts[i], A[i]);
    Poly P(k);
    for (size_t i = 0; i < k; ++i) F.init(P[i], Cf[i]);
    std::unique_ptr<Sys> cur;
    auto touch = [&](Sys& s) { VScal t; s.RingToRns(t, P); Poly Q; s.RnsToRing(Q, t); };
    for (char op : hist) {
        switch (op) {
        case 'D': cur.reset(new Sys(F, pts, "X")); break;
        case 'q': touch(*cur); break;
        case 'k': (void)cur->Reciprocals(); break;
        case 'C': { Sys* n2 = new Sys(*cur); cur.reset(n2); break; }
        case 'K': { Sys n2(*cur); touch(n2); break; }
        default: return "BADHIST";
        }
    }
    if (!cur) return "BADHIST";
    Res o;
    Integer z;
    VScal t; cur->RingToRns(t, P);
    for (size_t i = 0; i < n; ++i) o.Z(F.convert(z, t[i]));
    Poly Q; cur->RnsToRing(Q, t);
    size_t kk = Q.size();
    while (kk > 0 && F.isZero(Q[kk - 1])) --kk;
    o.N(kk);
    for (size_t i = 0; i < kk; ++i) o.Z(F.convert(z, Q[i]));
    return o.s;
}

// ------------------------------------------------------------------------------------------ domain table
struct DomInfo {
    std::string name;
    Integer maxc;        // maxCardinality() as reported by the running code (<= 0: unbounded)
    Integer minc;
    bool primeOnly;      // tabulated / Montgomery domains need a prime (odd) modulus
    int bitsCap;         // for unbounded domains: largest modulus size generated
};
static std::map<std::string, std::function<std::string(Cur&)>> TABLE;
static std::vector<DomInfo> DOMS;

template <class Dom>
static void reg(const char* name, bool primeOnly, int bitsCap = 0) {
    TABLE[std::string("rns.") + name] = run_rns<Dom>;
    TABLE[std::string("cra.") + name] = run_cra<Dom>;
    TABLE[std::string("pcrt.") + name] = run_pcrt<Dom>;
    TABLE[std::string("prt.") + name] = run_prt<Dom>;
    TABLE[std::string("mrns.") + name] = run_mrns<Dom>;
    DomInfo d;
    d.name = name;
    d.maxc = Integer(Dom::maxCardinality());
    d.minc = Integer(Dom::minCardinality());
    d.primeOnly = primeOnly;
    d.bitsCap = bitsCap;
    DOMS.push_back(d);
}
static void init_table() {
    TABLE["irns"] = run_irns;
    TABLE["fixed"] = run_fixed;
    TABLE["mirns"] = run_mirns;
    reg<Modular<int32_t>>("mi32", false);
    reg<Modular<int64_t>>("mi64", false);
    reg<Modular<uint32_t>>("mu32", false);
    reg<Modular<uint64_t>>("mu64", false);
    reg<Modular<int16_t>>("mi16", false);
    reg<Modular<uint16_t>>("mu16", false);
    reg<Modular<int8_t>>("mi8", false);
    reg<Modular<uint8_t>>("mu8", false);
    reg<Modular<double>>("mdbl", false);
    reg<Modular<float>>("mflt", false);
    reg<Modular<Integer>>("mint", false, 200);
    reg<Modular<Log16>>("mlog16", true);
    reg<Montgomery<int32_t>>("mont32", true);
    reg<GFqDom<int32_t>>("gfq32", true);
}

// ------------------------------------------------------------------------------------------ generators
struct Gen {
    vp::Rng rng;
    bool thorough;
    std::vector<std::string> lines;
    Gen(uint64_t seed, bool th) : rng(seed * 0x9E3779B97F4A7C15ULL + 12345), thorough(th) {}

    Integer randBits(int bits) {
        Integer v(0);
        for (int k = 0; k < bits; k += 64) { v <<= 64; v += Integer((uint64_t)rng.next()); }
        Integer mask(1); mask <<= (uint64_t)bits;
        v %= mask;
        return v;
    }
    Integer randBelow(const Integer& m) {   // uniform-ish in [0, m)
        if (m <= 1) return Integer(0);
        Integer v = randBits((int)m.bitsize() + 8);
        v %= m;
        return v;
    }
    static bool isprime(const Integer& p) { return mpz_probab_prime_p(p.get_mpz_const(), 8) != 0; }
    static Integer prevprime(Integer p) { while (p >= 2 && !isprime(p)) p -= 1; return p; }
    static bool coprimeAll(const IVec& v, const Integer& p) {
        for (auto& q : v) if (gcd(q, p) != 1) return false;
        return true;
    }
    // candidate modulus in [lo, hi] according to a "style"
    Integer candidate(const Integer& lo, const Integer& hi, int style, size_t k) {
        switch (style) {
        case 0: return hi - Integer((uint64_t)k);                       // just below the maximum
        case 1: return lo + Integer((uint64_t)k);                       // smallest
        case 2: { Integer h = hi; h /= 2; return h + Integer((int64_t)k) - 3; }  // around max/2
        default: { Integer w = hi - lo + 1; return lo + randBelow(w); }
        }
    }
    // pairwise coprime moduli list of length n in [lo, hi]; primes only when requested
    IVec moduli(size_t n, Integer lo, Integer hi, bool primeOnly, int style) {
        IVec v;
        size_t k = 0, tries = 0;
        if (lo < 2) lo = 2;
        const size_t maxTries = 40 * n + 100;
        while (v.size() < n && tries < maxTries) {
            ++tries;
            int st = style;
            if (style == 4) st = (int)rng.below(4);                 // mixed
            Integer c = candidate(lo, hi, st, k++);
            if (st != 3 && k > 60) { st = 3; c = candidate(lo, hi, 3, k); }
            if (c < lo || c > hi) continue;
            if (primeOnly) { c = prevprime(c); if (c < lo || c < 3) continue; }
            if (c < 2) continue;
            if (!coprimeAll(v, c)) continue;
            v.push_back(c);
        }
        return v;
    }
    void order(IVec& v, int how) {
        if (how == 0) std::sort(v.begin(), v.end());
        else if (how == 1) { std::sort(v.begin(), v.end()); std::reverse(v.begin(), v.end()); }
        else for (size_t i = v.size(); i > 1; --i) std::swap(v[i - 1], v[rng.below(i)]);
    }
    IVec residues(const IVec& ps, int how) {
        IVec r;
        for (auto& p : ps) {
            switch (how) {
            case 0: r.push_back(Integer(0)); break;
            case 1: r.push_back(p - 1); break;
            case 2: r.push_back(Integer(1) % p); break;
            case 3: { Integer h = p; h /= 2; r.push_back(h); break; }
            default: r.push_back(randBelow(p));
            }
        }
        return r;
    }
    Integer product(const IVec& ps) { Integer m(1); for (auto& p : ps) m *= p; return m; }
    Integer someInt(const IVec& ps, int how) {
        Integer M = product(ps);
        switch (how) {
        case 0: return Integer(0);
        case 1: return M - 1;
        case 2: return M;
        case 3: return -Integer(1);
        case 4: return M + 1;
        case 5: { Integer v = randBelow(M * M); return -v; }
        case 6: return randBelow(M * M * 3);
        default: return randBelow(M);
        }
    }
    static std::string join(const IVec& v) { std::string s; for (auto& x : v) { s += ' '; s += hexZ(x); } return s; }

    void sysLine(const std::string& key, const std::string& hist, const IVec& A, const IVec& B, const IVec& R, const Integer& a) {
        std::string s = key + " " + hist + " " + vp::hex_ull(A.size()) + join(A) + " " + vp::hex_ull(B.size()) + join(B) + join(R) + " " + hexZ(a);
        lines.push_back(s);
    }

    // all histories: a start, then up to `len` further operations
    std::vector<std::string> histories(bool isInt, size_t len) {
        std::vector<std::string> starts, ops;
        if (isInt) { starts = {"D", "T", "OV", "OqV", "OqmV"}; ops = {"q", "k", "m", "C", "K", "A", "B", "b"}; }
        else { starts = {"D", "E", "OS", "OqS", "OV", "OqV"}; ops = {"q", "k", "C", "K", "A", "B", "b", "S"}; }
        std::vector<std::string> all, frontier = starts;
        all = starts;
        for (size_t l = 0; l < len; ++l) {
            std::vector<std::string> next;
            for (auto& h : frontier) for (auto& o : ops) next.push_back(h + o);
            all.insert(all.end(), next.begin(), next.end());
            frontier.swap(next);
        }
        return all;
    }
    std::string randomHistory(bool isInt, size_t len) {
        auto st = histories(isInt, 0);
        std::string h = st[rng.below(st.size())];
        const char* opsI = "qkmCKABb";
        const char* opsR = "qkCKABbS";
        for (size_t i = 0; i < len; ++i) h += (isInt ? opsI : opsR)[rng.below(8)];
        return h;
    }

    // a random valid program over 4 slots; tags: 0 = no object, 1 = empty moduli, 2 = moduli A, 3 = moduli B
    std::string randomProgram(bool isInt, size_t len) {
        int tag[4] = {0, 0, 0, 0};
        std::string prog;
        auto add = [&](const std::string& op) { if (!prog.empty()) prog += ','; prog += op; };
        auto D = [](size_t v) { return std::string(1, (char)('0' + v)); };
        for (size_t i = 0; i < len; ++i) {
            size_t S = rng.below(4), T = rng.below(4);
            switch (rng.below(isInt ? 9 : 9)) {
            case 0: { bool b = rng.below(2); add((isInt && rng.below(4) == 0 ? "t" : "n") + D(S) + (b ? "B" : "A")); tag[S] = b ? 3 : 2; break; }
            case 1: if (rng.below(3) == 0) { add("d" + D(S)); tag[S] = 1; } break;
            case 2: case 3: if (tag[T] && S != T) { add("c" + D(S) + D(T)); tag[S] = tag[T]; } break;
            case 4: case 5: if (tag[T] && tag[S]) { add("a" + D(S) + D(T)); tag[S] = tag[T]; } break;
            case 6: if (tag[S] >= 2) add("q" + D(S)); break;
            case 7: if (tag[S] >= 2) add((isInt && rng.below(2) ? "m" : "k") + D(S)); break;
            default:
                if (!isInt && tag[S]) { bool b = rng.below(2); add("s" + D(S) + (b ? "B" : "A")); tag[S] = b ? 3 : 2; }
                else if (isInt && tag[S] >= 2) add("q" + D(S));
                break;
            }
        }
        // make some slot hold A at the end, preferably through a copy / assignment chain
        size_t f = 4;
        for (size_t s = 0; s < 4; ++s) if (tag[s] == 2) f = s;
        if (f == 4) {
            size_t S = rng.below(4);
            if (!isInt && tag[S] && rng.below(2)) add("s" + D(S) + "A"); else add("n" + D(S) + "A");
            tag[S] = 2; f = S;
            size_t T = (S + 1 + rng.below(3)) % 4;
            if (rng.below(2)) { if (tag[T]) add("a" + D(T) + D(S)); else add("c" + D(T) + D(S)); tag[T] = 2; f = T; }
        }
        add("f" + D(f));
        return prog;
    }

    void genSystems(const std::string& key, bool isInt, const Integer& lo, const Integer& hi, bool primeOnly, size_t maxLen, size_t budget, bool fullHist = true) {
        // the "other" primes B used by histories that start on different primes / assign over another system
        size_t made = 0;
        // (1) boundary moduli, all orders, residue corners, direct + a few histories
        std::vector<size_t> lens = {1, 2, 3, 4, 5, 8};
        if (maxLen >= 15) lens.push_back(15);
        if (maxLen >= 40) lens.push_back(40);
        if (thorough) { lens.push_back(6); lens.push_back(7); lens.push_back(12); lens.push_back(23); }
        for (size_t n : lens) {
            if (n > maxLen) continue;
            for (int style = 0; style <= 4; ++style) {
                IVec A = moduli(n, lo, hi, primeOnly, style);
                if (A.size() != n) continue;
                IVec B = moduli(1 + rng.below(4), lo, hi, primeOnly, 3);
                if (B.empty()) continue;
                for (int ord = 0; ord < 3; ++ord) {
                    if (!thorough && ord != (int)((n + (size_t)style) % 3)) continue;
                    order(A, ord);
                    for (int rh = 0; rh < 6; ++rh) {
                        if (!thorough && rh != 1 && rh < 4) continue;
                        IVec R = residues(A, rh);
                        Integer a = someInt(A, (int)rng.below(8));
                        sysLine(key, "D", A, B, R, a);
                        sysLine(key, randomHistory(isInt, 1 + rng.below(4)), A, B, R, a);
                        made += 2;
                    }
                }
            }
        }
        // (2) exhaustive histories up to length hl on small systems
        size_t hl = thorough ? 3 : 2;
        if (!fullHist) hl = thorough ? 2 : 1;
        auto hs = histories(isInt, hl);
        size_t reps = thorough ? 2 : 1;
        for (size_t rep = 0; rep < reps; ++rep) {
            for (auto& h : hs) {
                size_t n = 1 + rng.below(std::min<size_t>(5, maxLen));
                IVec A = moduli(n, lo, hi, primeOnly, 4);
                IVec B = moduli(1 + rng.below(5), lo, hi, primeOnly, 3);
                if (A.size() != n || B.empty()) continue;
                order(A, 2);
                IVec R = residues(A, 4);
                sysLine(key, h, A, B, R, someInt(A, (int)rng.below(8)));
                ++made;
            }
        }
        // (3) random systems, random histories (length up to 5 and sampled beyond)
        while (made < budget) {
            size_t n = 1 + rng.below(maxLen);
            if (rng.below(3)) n = 1 + rng.below(std::min<size_t>(maxLen, 9));
            IVec A = moduli(n, lo, hi, primeOnly, (int)rng.below(5));
            IVec B = moduli(1 + rng.below(6), lo, hi, primeOnly, 3);
            ++made;
            if (A.size() != n || B.empty()) continue;
            order(A, (int)rng.below(3));
            IVec R = residues(A, (int)rng.below(9));
            sysLine(key, randomHistory(isInt, rng.below(rng.below(4) ? 6 : 12)), A, B, R, someInt(A, (int)rng.below(10)));
        }
    }

    void genAll() {
        const size_t maxLen = 40;
        Integer two(2);
        // ---- IntRNSsystem: word-sized and multi-limb moduli
        {
            Integer w16(1); w16 <<= 16; Integer w32(1); w32 <<= 32; Integer w64(1); w64 <<= 64; Integer w200(1); w200 <<= 200;
            size_t b = thorough ? 3000 : 700;
            genSystems("irns", true, two, Integer(64), false, 12, b / 2, false);
            genSystems("irns", true, two, w16, false, maxLen, b);
            genSystems("irns", true, w32 - 1000, w32 + 1000, false, maxLen, b, false);
            genSystems("irns", true, w64 - 1000, w64 + 1000, false, maxLen, b, false);
            genSystems("irns", true, two, w200, false, maxLen, b);
            genSystems("irns", true, w64, w200, true, maxLen, b / 2, false);
        }
        // ---- RNSsystem<Integer, Domain>
        for (auto& d : DOMS) {
            Integer hi = d.maxc;
            if (hi <= 0) { hi = Integer(1); hi <<= (uint64_t)(d.bitsCap ? d.bitsCap : 64); }
            if (d.name == "gfq32") hi = Integer(thorough ? 4099 : 1021);   // table construction dominates the cost
            Integer lo = d.minc;
            if (d.primeOnly && lo < 3) lo = 3;
            size_t b = thorough ? 1800 : 800;
            if (d.name == "gfq32" || d.name == "mlog16") b = thorough ? 1200 : 700;
            size_t ml = maxLen;
            std::string key = "rns." + d.name;
            genSystems(key, false, lo, hi, d.primeOnly, ml, b);
            // small moduli (many coprime small numbers do not exist: lists are short)
            Integer smallhi = hi < Integer(97) ? hi : Integer(97);
            genSystems(key, false, lo, smallhi, d.primeOnly, 10, b / 3, false);
            if (d.name == "mint") {
                Integer w64(1); w64 <<= 64; Integer w200(1); w200 <<= 200;
                genSystems(key, false, w64 - 1000, w64 + 1000, false, ml, b / 2, false);
                genSystems(key, false, w64, w200, false, ml, b / 2, false);
            }
            // ---- ChineseRemainder functor over the same domain
            size_t nc = thorough ? 1500 : 200;
            for (size_t i = 0; i < nc; ++i) {
                IVec dv = moduli(1, lo, hi, d.primeOnly, (int)rng.below(5));
                if (dv.empty()) continue;
                Integer dd = dv[0];
                // M coprime to d: a product of a few moduli of any size
                Integer M(1);
                size_t parts = rng.below(4);
                for (size_t k = 0; k < parts; ++k) {
                    Integer f = randBits(1 + (int)rng.below(i % 3 == 0 ? 130 : 40)) + 1;
                    if (gcd(f, dd) == 1) M *= f;
                }
                if (i % 17 == 0) M = dd - 1;
                if (i % 19 == 0) M = dd + 1;
                if (M < 1 || gcd(M, dd) != 1) M = Integer(1);
                Integer A;
                switch (rng.below(6)) { case 0: A = 0; break; case 1: A = M - 1; break; case 2: A = -randBelow(M * 3 + 1); break; case 3: A = randBelow(M * dd * 2 + 1); break; default: A = randBelow(M); }
                Integer e;
                switch (rng.below(4)) { case 0: e = 0; break; case 1: e = dd - 1; break; default: e = randBelow(dd); }
                const char* hs[] = {"D", "DC", "DqC", "DA", "DqA", "DCq"};
                lines.push_back("cra." + d.name + " " + hs[rng.below(6)] + " " + hexZ(M) + " " + hexZ(dd) + " " + hexZ(A) + " " + hexZ(e));
            }
            // ---- Poly1CRT over the same domain as coefficient field (prime characteristic)
            size_t np = thorough ? 400 : 60;
            for (size_t i = 0; i < np; ++i) {
                Integer cap = hi;
                if (i % 3 == 0 && cap > Integer(300)) cap = Integer(300);
                Integer plo = lo < 3 ? Integer(3) : lo;
                if (plo > cap) continue;
                IVec pv = moduli(1, plo, cap, true, i % 4 == 0 ? 0 : 3);
                if (pv.empty()) continue;
                Integer p = pv[0];
                if (!isprime(p)) continue;
                size_t n = 1 + rng.below(i % 3 == 0 ? 30 : 8);
                if (Integer((uint64_t)n) > p) n = (size_t)(uint64_t)p;
                std::set<std::string> seen;
                IVec A;
                size_t tries = 0;
                while (A.size() < n && tries++ < 1000) {
                    Integer x;
                    switch (rng.below(6)) { case 0: x = Integer((uint64_t)A.size()) % p; break; case 1: x = p - 1 - Integer((uint64_t)rng.below(3)); break; default: x = randBelow(p); }
                    if (x < 0) continue;
                    if (seen.insert(hexZ(x)).second) A.push_back(x);
                }
                if (A.size() != n) continue;
                IVec Pm(n, p);
                IVec R = residues(Pm, (int)rng.below(8));
                const char* hs[] = {"D", "DC", "DqC", "DkC", "DKq", "DCqC", "DqKq"};
                lines.push_back("pcrt." + d.name + " " + hs[rng.below(7)] + " " + hexZ(p) + " " + vp::hex_ull(n) + join(A) + join(R));
                // residues that agree with a polynomial of low degree d on the first points and leave it only near the end: the Newton
                // corrections are zero for many consecutive points in the middle (an interpolation loop that stops after a run of zero
                // corrections returns the low-degree interpolant, wrong at the last points)
                if (n >= 7) {
                    const size_t dg = rng.below(3);
                    IVec g(dg + 1, p); for (auto& c : g) c = randBelow(p);
                    IVec R2(n, p);
                    for (size_t j = 0; j < n; ++j) { Integer v(0); for (size_t t = dg + 1; t-- > 0;) { v *= A[j]; v += g[t]; v %= p; } R2[j] = v; }
                    const size_t from = n - 1 - rng.below(n - dg - 6 > 0 ? std::min<size_t>(2, n - dg - 6) + 1 : 1);
                    for (size_t j = from; j < n; ++j) { R2[j] += 1 + randBelow(p - 1); R2[j] %= p; }
                    lines.push_back("pcrt." + d.name + " " + hs[rng.below(7)] + " " + hexZ(p) + " " + vp::hex_ull(n) + join(A) + join(R2));
                }
                // round trip from a polynomial: degree < n (identity expected), and a few of degree >= n (reduction)
                size_t k = rng.below(6) == 0 ? n + rng.below(3) : rng.below(n + 1);
                IVec Pk(k, p);
                IVec Cf = residues(Pk, 4 + (int)rng.below(3));
                if (k > 0 && rng.below(3) == 0) Cf[k - 1] = Integer(0);          // un-normalised input
                lines.push_back("prt." + d.name + " " + hs[rng.below(7)] + " " + hexZ(p) + " " + vp::hex_ull(n) + join(A) + " " + vp::hex_ull(k) + join(Cf));
            }
            // ---- programs over several RNSsystem objects
            {
                size_t npg = thorough ? 600 : 150;
                if (d.name == "gfq32" || d.name == "mlog16") npg = thorough ? 200 : 60;
                for (size_t i = 0; i < npg; ++i) {
                    size_t n = 1 + rng.below(i % 7 == 0 ? 12 : 5);
                    IVec A = moduli(n, lo, hi, d.primeOnly, (int)rng.below(5));
                    IVec B = moduli(1 + rng.below(6), lo, hi, d.primeOnly, 3);
                    if (A.size() != n || B.empty()) continue;
                    order(A, (int)rng.below(3));
                    IVec R = residues(A, (int)rng.below(9));
                    sysLine("mrns." + d.name, randomProgram(false, 2 + rng.below(i % 5 == 0 ? 20 : 9)), A, B, R, someInt(A, (int)rng.below(10)));
                }
            }
        }
        // ---- programs over several IntRNSsystem objects
        {
            Integer w64(1); w64 <<= 64; Integer w200(1); w200 <<= 200;
            size_t npg = thorough ? 3000 : 700;
            for (size_t i = 0; i < npg; ++i) {
                size_t n = 1 + rng.below(i % 7 == 0 ? 14 : 5);
                Integer w16(1); w16 <<= 16;
                Integer lo = two, hi = w16;
                switch (rng.below(4)) { case 0: hi = Integer(64); break; case 1: lo = w64 - 500; hi = w64 + 500; break; case 2: hi = w200; break; default: break; }
                if (hi == Integer(64) && n > 8) n = 8;
                IVec A = moduli(n, lo, hi, false, (int)rng.below(5));
                IVec B = moduli(1 + rng.below(6), lo, hi, false, 3);
                if (A.size() != n || B.empty()) continue;
                order(A, (int)rng.below(3));
                IVec R = residues(A, (int)rng.below(9));
                sysLine("mirns", randomProgram(true, 2 + rng.below(i % 5 == 0 ? 24 : 9)), A, B, R, someInt(A, (int)rng.below(10)));
            }
        }
        // ---- RNSsystemFixed<Integer>
        {
            Integer w32(1); w32 <<= 32; Integer w64(1); w64 <<= 64; Integer w200(1); w200 <<= 200;
            size_t nf = thorough ? 3000 : 400;
            for (size_t i = 0; i < nf; ++i) {
                // every number of moduli 1..40 in turn, the powers of two (complete trees: the final reduction is the only one) again
                static const size_t pow2[] = {2, 4, 8, 16, 32};
                size_t n = i < 80 ? 1 + i % 40 : (i % 4 == 0 ? pow2[rng.below(5)] : 1 + rng.below(rng.below(4) ? 12 : 40));
                Integer lo = two, hi = w32;
                switch (rng.below(5)) { case 0: hi = Integer(200); break; case 1: lo = w64 - 500; hi = w64 + 500; break; case 2: hi = w200; break; case 3: lo = w32 - 500; hi = w32 + 500; break; default: break; }
                IVec A = moduli(n, lo, hi, false, (int)rng.below(5));
                if (A.size() != n) continue;
                order(A, (int)rng.below(3));
                IVec R = residues(A, (int)rng.below(8));
                const char* hs[] = {"D", "Dq", "DA", "DqA", "DAq", "DC", "DqC", "DCq", "DKq", "DCA", "DqKCq"};
                lines.push_back(std::string("fixed ") + hs[rng.below(11)] + " " + vp::hex_ull(n) + join(A) + join(R));
            }
        }
    }
};

static void run_one(const std::string& line) {
    vp::Args a;
    std::istringstream ss(line);
    std::string t;
    while (ss >> t) a.tok.push_back(t);
    if (a.tok.empty()) return;
    auto it = TABLE.find(a.tok[0]);
    if (it == TABLE.end()) { vp::emit(a, "NOFUNC"); return; }
    try {
        Cur c(a);
        std::string r = it->second(c);
        vp::emit(a, r);
    } catch (...) {
        vp::emit(a, "EXC");
    }
    fflush(stdout);
}

// Cases run in forked children (batches): a crash / sanitizer abort is attributed to the exact input line
// ("<line> = CRASH") and the remaining cases still run.
static void run_all(const std::vector<std::string>& lines) {
#ifdef VERIF_COVERAGE_BUILD
    for (auto& l : lines) run_one(l);      // gcov counters of _exit()ing children would be lost
    fflush(stdout);
    return;
#endif
    const size_t K = 400;
    size_t i = 0;
    while (i < lines.size()) {
        size_t to = std::min(lines.size(), i + K);
        int fd[2];
        if (pipe(fd) != 0) { perror("pipe"); exit(3); }
        fflush(stdout);
        pid_t pid = fork();
        if (pid < 0) { perror("fork"); exit(3); }
        if (pid == 0) {
            close(fd[0]);
            dup2(fd[1], 1);
            close(fd[1]);
            for (size_t k = i; k < to; ++k) run_one(lines[k]);
            fflush(stdout);
            _exit(0);
        }
        close(fd[1]);
        std::string buf;
        char tmp[65536];
        ssize_t n;
        while ((n = read(fd[0], tmp, sizeof tmp)) > 0) buf.append(tmp, (size_t)n);
        close(fd[0]);
        int st = 0;
        waitpid(pid, &st, 0);
        // complete lines only
        size_t done = 0, pos = 0, last = 0;
        while ((pos = buf.find('\n', last)) != std::string::npos) { ++done; last = pos + 1; }
        fwrite(buf.data(), 1, last, stdout);
        bool ok = WIFEXITED(st) && WEXITSTATUS(st) == 0;
        if (ok || i + done >= to) { i = to; continue; }
        // the child died while running lines[i + done]
        std::string l = lines[i + done];
        printf("%s = CRASH\n", l.c_str());
        i = i + done + 1;
    }
    fflush(stdout);
}

int main(int argc, char** argv) {
    init_table();
    std::vector<std::string> lines;
    if (argc >= 3) {
        Gen g((uint64_t)atoll(argv[2]), std::string(argv[1]) == "thorough");
        g.genAll();
        if (argc >= 4 && std::string(argv[3]) == "--inputs") { for (auto& l : g.lines) puts(l.c_str()); return 0; }
        lines.swap(g.lines);
    } else {
        std::string line;
        while (std::getline(std::cin, line)) if (!line.empty() && line[0] != '#') lines.push_back(line);
    }
    run_all(lines);
    return 0;
}
