// Correspondence harness for C06, mixed operands: every operator and named function of RecInt::ruint<K> / rint<K>
// (K = 6..9) that accepts a built-in scalar, for every built-in integral type (u8 s8 u16 s16 u32 s32 u64 s64 bool).
//   line : "mx_<form> <K> 0 <cls> <ty> <x> <w> <y> = <rt> <res>..."
//          cls 0 = ruint, 1 = rint; ty = index of the scalar type; x the recursive integer, w the scalar (C++ value), y a second
//          recursive operand (modulus of exp_mod, accumulator of addmul); numbers hex, '-' for negatives
//          rt: 0 the expression does not compile for this (class, type) (no viable or ambiguous overload)
//              8 it compiles but does not link (template declared, never defined); 9 its body does not compile (see NOBODY)
//              1 X value | 2 scalar value | 3 six booleans | 4 sign of an int | 5 X value + bool | 6 X value + scalar value | 7 double-width value
//   argv : "tier seed" -> generate cases;  no argv -> run the lines of stdin
// Which (form, class, K, type) combinations do not link is not known to the compiler: the check first builds with everything
// enabled, reads the undefined references of the linker, and rebuilds with those combinations listed in MX_DISABLED.
#include "proto.h"
#include <gmpxx.h>
#include <recint/recint.h>
#include <cstring>
#include <type_traits>
#include <utility>

using RecInt::ruint;
using RecInt::limb;
using RecInt::NBLIMB;
using RecInt::NBBITS;
typedef mpz_class Z;

static Z zhex(const std::string& s) { Z z; mpz_set_str(z.get_mpz_t(), s.c_str(), 16); return z; }
static std::string hx(const Z& z) { return vp::hex(z.get_mpz_t()); }
static Z pow2(unsigned long e) { Z r(1); r <<= e; return r; }

template <size_t K> static ruint<K> toU(const Z& z0) {
    static_assert(sizeof(ruint<K>) == 8 * NBLIMB<K>::value, "layout");
    Z z = z0 % pow2(NBBITS<K>::value); if (z < 0) z += pow2(NBBITS<K>::value);
    limb buf[NBLIMB<K>::value]; memset(buf, 0, sizeof buf);
    size_t cnt = 0; mpz_export(buf, &cnt, -1, 8, 0, 0, z.get_mpz_t());
    ruint<K> a; memcpy((void*)&a, buf, sizeof buf); return a;
}
template <size_t K> static Z fromU(const ruint<K>& a) {
    limb buf[NBLIMB<K>::value]; memcpy(buf, (const void*)&a, sizeof buf);
    Z z; mpz_import(z.get_mpz_t(), NBLIMB<K>::value, -1, 8, 0, 0, buf); return z;
}
template <size_t K> static Z fromS(const RecInt::rint<K>& a) {
    Z z = fromU<K>(a.Value); if (z >= pow2(NBBITS<K>::value - 1)) z -= pow2(NBBITS<K>::value); return z;
}
template <class X> struct XT;
template <size_t K> struct XT<ruint<K>> {
    static const size_t k = K; typedef ruint<K + 1> Wide;
    static ruint<K> mk(const Z& z) { return toU<K>(z); }
    static Z val(const ruint<K>& a) { return fromU<K>(a); }
    static Z wval(const ruint<K + 1>& a) { return fromU<K + 1>(a); }
    static ruint<K> junk() { ruint<K> a; memset((void*)&a, 0xA5, sizeof a); return a; }
};
template <size_t K> struct XT<RecInt::rint<K>> {
    static const size_t k = K; typedef RecInt::rint<K + 1> Wide;
    static RecInt::rint<K> mk(const Z& z) { return RecInt::rint<K>(toU<K>(z)); }
    static Z val(const RecInt::rint<K>& a) { return fromS<K>(a); }
    static Z wval(const RecInt::rint<K + 1>& a) { return fromS<K + 1>(a); }
    static RecInt::rint<K> junk() { RecInt::rint<K> a; memset((void*)&a.Value, 0xA5, sizeof a.Value); return a; }
};

struct O : vp::Out {
    void rt(int t) { raw(vp::hex_ull((unsigned)t)); }
    void z(const Z& v) { raw(hx(v)); }
    void b(bool v) { raw(v ? "1" : "0"); }
    template <class X> void x(const X& v) { z(XT<X>::val(v)); }
    template <class T> void t(T v) {
        if (std::is_signed<T>::value) raw(vp::hex_ll((long long)v)); else raw(vp::hex_ull((unsigned long long)v));
    }
    // a result whose static type is the recursive class or the scalar type
    template <class X, class T, class R> void xr(const R& r) {
        if constexpr (std::is_same<R, X>::value) { rt(1); x(r); } else { rt(2); t((T)r); }
    }
};

// ---------------------------------------------------------------------------------------------- forms
template <class X> X& LX();
template <class X> const X& CX();
template <class T> const T& W();

enum {
    F_add_xt, F_add_tx, F_sub_xt, F_sub_tx, F_mul_xt, F_mul_tx, F_div_xt, F_mod_xt, F_and_xt, F_or_xt, F_xor_xt, F_shl_xt, F_shr_xt,
    F_addeq, F_subeq, F_muleq, F_diveq, F_modeq, F_andeq, F_oreq, F_xoreq, F_shleq, F_shreq,
    F_rel_xt, F_rel_tx, F_cmp, F_add3, F_add3c, F_add2, F_sub3, F_sub3c, F_sub2, F_mul3, F_mul2, F_divq, F_divr, F_div, F_lmul3,
    F_addmul, F_expmod, F_COUNT
};
static const char* FNAME[F_COUNT] = {
    "add_xt", "add_tx", "sub_xt", "sub_tx", "mul_xt", "mul_tx", "div_xt", "mod_xt", "and_xt", "or_xt", "xor_xt", "shl_xt", "shr_xt",
    "addeq", "subeq", "muleq", "diveq", "modeq", "andeq", "oreq", "xoreq", "shleq", "shreq",
    "rel_xt", "rel_tx", "cmp", "add3", "add3c", "add2", "sub3", "sub3c", "sub2", "mul3", "mul2", "divq", "divr", "div", "lmul3",
    "addmul", "expmod"};

template <int F, class X, class T, class = void> struct Can : std::false_type {};
template <int F, class X, class T> struct Run { static void go(const X&, const T&, const X&, O&) {} };

#define FORM(F, EXPR, ...)                                                                                        \
    template <class X, class T> struct Can<F, X, T, std::void_t<decltype(EXPR)>> : std::true_type {};             \
    template <class X, class T> struct Run<F, X, T> {                                                             \
        static __attribute__((noinline)) void go(const X& cx, const T& w, const X& cy, O& o) {                    \
            (void)cx; (void)w; (void)cy; __VA_ARGS__                                                              \
        }                                                                                                         \
    };
#define RX(e) { auto r_ = (e); o.template xr<X, T>(r_); }
#define CEQ(stmt) { X x = cx; stmt; o.rt(1); o.x(x); }

FORM(F_add_xt, CX<X>() + W<T>(), RX(cx + w))
FORM(F_add_tx, W<T>() + CX<X>(), RX(w + cx))
FORM(F_sub_xt, CX<X>() - W<T>(), RX(cx - w))
FORM(F_sub_tx, W<T>() - CX<X>(), RX(w - cx))
FORM(F_mul_xt, CX<X>() * W<T>(), RX(cx * w))
FORM(F_mul_tx, W<T>() * CX<X>(), RX(w * cx))
FORM(F_div_xt, CX<X>() / W<T>(), RX(cx / w))
FORM(F_mod_xt, CX<X>() % W<T>(), RX(cx % w))
FORM(F_and_xt, CX<X>() & W<T>(), RX(cx & w))
FORM(F_or_xt, CX<X>() | W<T>(), RX(cx | w))
FORM(F_xor_xt, CX<X>() ^ W<T>(), RX(cx ^ w))
FORM(F_shl_xt, CX<X>() << W<T>(), RX(cx << w))
FORM(F_shr_xt, CX<X>() >> W<T>(), RX(cx >> w))
FORM(F_addeq, LX<X>() += W<T>(), CEQ(x += w))
FORM(F_subeq, LX<X>() -= W<T>(), CEQ(x -= w))
FORM(F_muleq, LX<X>() *= W<T>(), CEQ(x *= w))
FORM(F_diveq, LX<X>() /= W<T>(), CEQ(x /= w))
FORM(F_modeq, LX<X>() %= W<T>(), CEQ(x %= w))
FORM(F_andeq, LX<X>() &= W<T>(), CEQ(x &= w))
FORM(F_oreq, LX<X>() |= W<T>(), CEQ(x |= w))
FORM(F_xoreq, LX<X>() ^= W<T>(), CEQ(x ^= w))
FORM(F_shleq, LX<X>() <<= W<T>(), CEQ(x <<= w))
FORM(F_shreq, LX<X>() >>= W<T>(), CEQ(x >>= w))
FORM(F_rel_xt, (CX<X>() < W<T>(), CX<X>() <= W<T>(), CX<X>() > W<T>(), CX<X>() >= W<T>(), CX<X>() == W<T>(), CX<X>() != W<T>()),
     o.rt(3); o.b(cx < w); o.b(cx <= w); o.b(cx > w); o.b(cx >= w); o.b(cx == w); o.b(cx != w);)
FORM(F_rel_tx, (W<T>() < CX<X>(), W<T>() <= CX<X>(), W<T>() > CX<X>(), W<T>() >= CX<X>(), W<T>() == CX<X>(), W<T>() != CX<X>()),
     o.rt(3); o.b(w < cx); o.b(w <= cx); o.b(w > cx); o.b(w >= cx); o.b(w == cx); o.b(w != cx);)
FORM(F_cmp, cmp(CX<X>(), W<T>()), o.rt(4); { int c = cmp(cx, w); o.raw(c < 0 ? "-1" : c > 0 ? "1" : "0"); })
FORM(F_add3, add(LX<X>(), CX<X>(), W<T>()), { X r = XT<X>::junk(); add(r, cx, w); o.rt(1); o.x(r); })
FORM(F_add3c, add(std::declval<bool&>(), LX<X>(), CX<X>(), W<T>()), { X r = XT<X>::junk(); bool c = true; add(c, r, cx, w); o.rt(5); o.x(r); o.b(c); })
FORM(F_add2, add(LX<X>(), W<T>()), CEQ(add(x, w)))
FORM(F_sub3, sub(LX<X>(), CX<X>(), W<T>()), { X r = XT<X>::junk(); sub(r, cx, w); o.rt(1); o.x(r); })
FORM(F_sub3c, sub(std::declval<bool&>(), LX<X>(), CX<X>(), W<T>()), { X r = XT<X>::junk(); bool c = true; sub(c, r, cx, w); o.rt(5); o.x(r); o.b(c); })
FORM(F_sub2, sub(LX<X>(), W<T>()), CEQ(sub(x, w)))
FORM(F_mul3, mul(LX<X>(), CX<X>(), W<T>()), { X r = XT<X>::junk(); mul(r, cx, w); o.rt(1); o.x(r); })
FORM(F_mul2, mul(LX<X>(), W<T>()), CEQ(mul(x, w)))
FORM(F_divq, div_q(LX<X>(), CX<X>(), W<T>()), { X r = XT<X>::junk(); div_q(r, cx, w); o.rt(1); o.x(r); })
FORM(F_divr, div_r(std::declval<T&>(), CX<X>(), W<T>()), { T r = (T)0x5A; div_r(r, cx, w); o.rt(2); o.t(r); })
FORM(F_div, div(LX<X>(), std::declval<T&>(), CX<X>(), W<T>()), { X q = XT<X>::junk(); T r = (T)0x5A; div(q, r, cx, w); o.rt(6); o.x(q); o.t(r); })
FORM(F_lmul3, lmul(std::declval<typename XT<X>::Wide&>(), CX<X>(), W<T>()),
     { typename XT<X>::Wide r; memset((void*)&r, 0xA5, sizeof r); lmul(r, cx, w); o.rt(7); o.z(XT<X>::wval(r)); })
FORM(F_addmul, addmul(LX<X>(), CX<X>(), W<T>()), { X x = cy; addmul(x, cx, w); o.rt(1); o.x(x); })
FORM(F_expmod, exp_mod(LX<X>(), CX<X>(), W<T>(), CX<X>()), { X r = XT<X>::junk(); exp_mod(r, cx, w, cy); o.rt(1); o.x(r); })

// forms whose body does not compile although the call is well-formed: NOBODY(form, cls, ty-mask) -- listed by hand, reported as rt = 9
//   rint % scalar, rint %= scalar, div_r(T&, rint, T): `return -r;` binds a prvalue to T&
//   (only on a tree without fixes/C06_17: the check first tries to build with every body, and defines MX_NOBODY when that fails)
#ifndef MX_NOBODY
#define MX_NOBODY 0
#endif
template <int F, int C, int TY> constexpr bool nobody() {
    return MX_NOBODY && C == 1 && (F == F_mod_xt || F == F_modeq || F == F_divr);
}
// combinations that do not link (filled in by the check): MX_DISABLED is a list of D(form, cls, kidx, ty) ||
#ifndef MX_DISABLED
#define MX_DISABLED false
#endif
template <int F, int C, int KI, int TY> constexpr bool disabled() {
#define D(f, c, k, t) (F == (f) && C == (c) && KI == (k) && TY == (t)) ||
    return MX_DISABLED;
#undef D
}

// ---------------------------------------------------------------------------------------------- dispatch
template <int TY> struct TyOf;
template <> struct TyOf<0> { typedef uint8_t type; };
template <> struct TyOf<1> { typedef int8_t type; };
template <> struct TyOf<2> { typedef uint16_t type; };
template <> struct TyOf<3> { typedef int16_t type; };
template <> struct TyOf<4> { typedef uint32_t type; };
template <> struct TyOf<5> { typedef int32_t type; };
template <> struct TyOf<6> { typedef uint64_t type; };
template <> struct TyOf<7> { typedef int64_t type; };
template <> struct TyOf<8> { typedef bool type; };
static const int NTY = 9;
template <int C, int KI> struct ClsOf { typedef ruint<6 + KI> type; };
template <int KI> struct ClsOf<1, KI> { typedef RecInt::rint<6 + KI> type; };

struct A : vp::Args { Z z(size_t i) const { return zhex(s(i + 2)); } };
typedef void (*Entry)(const A&, O&);

template <int F, int C, int KI, int TY> __attribute__((noinline)) void mx_entry(const A& a, O& o) {
    typedef typename ClsOf<C, KI>::type X;
    typedef typename TyOf<TY>::type T;
    if constexpr (nobody<F, C, TY>()) { o.rt(9); }
    else if constexpr (disabled<F, C, KI, TY>()) { o.rt(8); }
    else if constexpr (!Can<F, X, T>::value) { o.rt(0); }
    else {
        X x = XT<X>::mk(a.z(2)), y = XT<X>::mk(a.z(4));
        T w = (T)a.SW(5);                   // s(5) = tok[6] = the scalar
        Run<F, X, T>::go(x, w, y, o);
    }
}
template <int F, int C, int KI, int... TY> static void fill_ty(Entry* t, std::integer_sequence<int, TY...>) { ((t[TY] = &mx_entry<F, C, KI, TY>), ...); }
template <int F, int C, int... KI> static void fill_k(Entry (*t)[NTY], std::integer_sequence<int, KI...>) { (fill_ty<F, C, KI>(t[KI], std::make_integer_sequence<int, NTY>()), ...); }
static Entry TABLE[F_COUNT][2][4][NTY];
template <int... F> static void fill_f(std::integer_sequence<int, F...>) {
    ((fill_k<F, 0>(TABLE[F][0], std::make_integer_sequence<int, 4>()), fill_k<F, 1>(TABLE[F][1], std::make_integer_sequence<int, 4>())), ...);
}

static void process(A& a) {
    O o; bool ok = false;
    if (a.tok.size() >= 8 && a.tok[0].compare(0, 3, "mx_") == 0) {
        int f = -1; for (int i = 0; i < F_COUNT; i++) if (a.tok[0].substr(3) == FNAME[i]) f = i;
        unsigned long K = strtoul(a.tok[1].c_str(), nullptr, 16), c = strtoul(a.tok[3].c_str(), nullptr, 16), ty = strtoul(a.tok[4].c_str(), nullptr, 16);
        if (f >= 0 && K >= 6 && K <= 9 && c <= 1 && ty < (unsigned)NTY) {
            try { TABLE[f][c][K - 6][ty](a, o); ok = true; } catch (...) { vp::emit(a, "EXC"); fflush(stdout); return; }
        }
    }
    vp::emit(a, ok ? o.s : "NOFUNC");
    fflush(stdout);
}

// ---------------------------------------------------------------------------------------------- generator
static const int TBITS[NTY] = {8, 8, 16, 16, 32, 32, 64, 64, 1};
static const bool TSIGNED[NTY] = {false, true, false, true, false, true, false, true, false};

static void emit_case(int f, unsigned K, int c, int ty, const Z& x, const Z& w, const Z& y) {
    A a; a.tok = {std::string("mx_") + FNAME[f], vp::hex_ull(K), "0", vp::hex_ull(c), vp::hex_ull(ty), hx(x), hx(w), hx(y)};
    process(a);
}

int main(int argc, char** argv) {
    fill_f(std::make_integer_sequence<int, F_COUNT>());
    if (argc < 3) { A a; while (vp::read_line(std::cin, a)) process(a); return 0; }
    bool thorough = std::string(argv[1]) == "thorough";
    vp::Rng rng(strtoull(argv[2], nullptr, 10) * 1000003ULL + 0xC06D);
    auto rnd = [&](unsigned nb) { Z z(0); for (unsigned i = 0; i < (nb + 63) / 64; i++) { z <<= 64; limb w = rng.next(); Z l; mpz_import(l.get_mpz_t(), 1, -1, 8, 0, 0, &w); z += l; } return Z(z % pow2(nb)); };
    for (unsigned K = 6; K <= 9; K++) {
        unsigned nb = 1u << K; Z M = pow2(nb), H = pow2(nb - 1);
        for (int c = 0; c < 2; c++) for (int ty = 0; ty < NTY; ty++) {
            unsigned wb = TBITS[ty];
            Z tmin = TSIGNED[ty] ? Z(-pow2(wb - 1)) : Z(0), tmax = TSIGNED[ty] ? Z(pow2(wb - 1) - 1) : Z(pow2(wb) - 1);
            std::vector<Z> ws = {0, 1, tmin, tmax, tmin + 1, tmax - 1, 2, 3, 5, 7, 100, pow2(wb - 1) - 1, pow2(wb - 1), pow2(wb / 2), pow2(wb / 2) + 1};
            if (TSIGNED[ty]) { ws.push_back(-1); ws.push_back(-2); ws.push_back(-3); ws.push_back(-100); ws.push_back(-pow2(wb / 2)); ws.push_back(-pow2(wb - 2)); }
            for (int i = 0; i < (thorough ? 12 : 2); i++) ws.push_back(tmin + rnd(wb));
            std::vector<Z> wsv;
            for (Z& w : ws) if (w >= tmin && w <= tmax) wsv.push_back(w);
            for (int f = 0; f < F_COUNT; f++) {
                unsigned j = 0;
                for (const Z& w : wsv) {
                    // recursive operands: boundary values of the class, values next to the scalar and to its images, a few others
                    Z xmin = c ? Z(-H) : Z(0), xmax = c ? Z(H - 1) : Z(M - 1);
                    std::vector<Z> xs = {0, 1, xmax, xmin, xmax - 1, xmin + 1, 100, w, w + 1, w - 1, -w, pow2(64), pow2(64) - 1, pow2(63), pow2(32) + 5,
                                         c ? Z(-1) : Z(M - 2), c ? Z(-100) : Z(pow2(nb - 1)), c ? Z(-pow2(64)) : Z(pow2(nb - 1) + 1), xmin + rnd(nb), xmin + rnd(nb)};
                    unsigned take = thorough ? xs.size() : 4;
                    for (unsigned k = 0; k < take; k++) {
                        Z x = xs[(j * 7 + k * (thorough ? 1 : 5) + f) % xs.size()];
                        if (x < xmin || x > xmax) x = ((x - xmin) % M + M) % M + xmin;
                        Z y = (k & 1) ? Z(xmin + rnd(nb)) : Z(xmax - (long)rng.below(3));
                        if (f == F_expmod) { y = rnd(nb); if (y < 2) y = 7; if (k == 0) y = 1; }
                        Z ww = w;
                        if ((f == F_shl_xt || f == F_shr_xt || f == F_shleq || f == F_shreq) && ww > 2 * nb + 3 && (j & 1)) ww = rng.below(nb + 2);  // also useful counts
                        if (ww < tmin || ww > tmax) ww = w;
                        bool isdiv = f == F_div_xt || f == F_mod_xt || f == F_diveq || f == F_modeq || f == F_divq || f == F_divr || f == F_div;
                        bool isshift = f == F_shl_xt || f == F_shr_xt || f == F_shleq || f == F_shreq;
                        if (isdiv && (ww == 0 || (c == 1 && x == xmin && ww == -1))) continue;      // outside the contract
                        if (isshift && ww < 0) continue;
                        if (f == F_expmod && ty == 8) continue;     // exp_mod with a bool exponent: probed separately by the check (it may not terminate)
                        emit_case(f, K, c, ty, x, ww, y);
                    }
                    j++;
                }
            }
        }
    }
    return 0;
}
