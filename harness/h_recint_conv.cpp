// Correspondence harness for C06, conversions: every path between RecInt::ruint<K> / rint<K> (K = 6..9) and
// Givaro::Integer / mpz_class / mpz_t / const char* / built-in words / double.
//   line : "<op> <K> <T> <arg> = <res>..."   (K hex; T unused, kept for the common line format; numbers hex, '-' for negatives)
//   argv : "tier seed" -> generate cases;  no argv -> run the lines "<op> <K> <T> <arg>" of stdin
// Values are written into / read from the objects by memcpy, so each line exercises only the conversion paths it names.
#include "proto.h"
#include <gmpxx.h>
#include <gmp++/gmp++.h>
#include <givaro/givinteger.h>
#include <recint/recint.h>
#include <cstring>

using Givaro::Integer;
using RecInt::ruint;
using RecInt::limb;
using RecInt::NBLIMB;
using RecInt::NBBITS;
typedef mpz_class Z;

static Z zhex(const std::string& s) { Z z; mpz_set_str(z.get_mpz_t(), s.c_str(), 16); return z; }
static std::string hx(const Z& z) { return vp::hex(z.get_mpz_t()); }
static Z pow2(unsigned long e) { Z r(1); r <<= e; return r; }
static Integer toI(const Z& z) { Integer r; mpz_set(r.get_mpz(), z.get_mpz_t()); return r; }
static Z fromI(const Integer& i) { Z z; mpz_set(z.get_mpz_t(), i.get_mpz_const()); return z; }

template <size_t K> static ruint<K> toU(const Z& z0) {
    static_assert(sizeof(ruint<K>) == 8 * NBLIMB<K>::value, "layout");
    Z z = z0 % pow2(NBBITS<K>::value); if (z < 0) z += pow2(NBBITS<K>::value);
    limb buf[NBLIMB<K>::value]; memset(buf, 0, sizeof buf);
    size_t cnt = 0; mpz_export(buf, &cnt, -1, 8, 0, 0, z.get_mpz_t());
    ruint<K> a; memcpy((void*)&a, buf, sizeof buf); return a;
}
template <size_t K> static Z fromU(const ruint<K>& a) {
    limb buf[NBLIMB<K>::value]; memcpy(buf, (const void*)&a, sizeof buf);
    Z z; mpz_import(z.get_mpz_t(), NBLIMB<K>::value, -1, 8, 0, 0, buf); return z;
}
template <size_t K> static ruint<K> junk() { ruint<K> a; memset((void*)&a, 0xA5, sizeof a); return a; }
template <size_t K> static RecInt::rint<K> toS(const Z& z) { return RecInt::rint<K>(toU<K>(z)); }
template <size_t K> static Z fromS(const RecInt::rint<K>& a) {
    Z z = fromU<K>(a.Value); if (z >= pow2(NBBITS<K>::value - 1)) z -= pow2(NBBITS<K>::value); return z;
}

struct A : vp::Args { Z z(size_t i) const { return zhex(s(i + 2)); } };
struct O : vp::Out {
    void z(const Z& v) { raw(hx(v)); }
    void ll(long long v) { raw(vp::hex_ll(v)); }
    void ull(unsigned long long v) { raw(vp::hex_ull(v)); }
};

template <size_t K> static bool run(const std::string& op, const A& a, O& o) {
    typedef ruint<K> U; typedef RecInt::rint<K> S;
    Z z = a.z(0);
    auto ou = [&](const U& x) { o.z(fromU<K>(x)); };
    auto os = [&](const S& x) { o.z(fromS<K>(x)); };
    if (op == "cvu_from") {                        // big integer -> ruint, every path
        Integer I = toI(z);
        { U x(I); ou(x); }                                         // constructor from Integer
        { U x = junk<K>(); x = I; ou(x); }                         // operator= (through the converting constructor)
        { U x = junk<K>(); Givaro::Caster(x, I); ou(x); }          // Caster(ruint&, Integer)
        { U x = junk<K>(); x = I.operator U(); ou(x); }            // Integer::operator ruint<K>()
        { U x = junk<K>(); RecInt::mpz_to_ruint(x, z); ou(x); }    // mpz_class
        { U x = junk<K>(); RecInt::mpz_t_to_ruint(x, z.get_mpz_t()); ou(x); }   // mpz_t
#if defined(C06_STR6)
        { std::string d = z.get_str(10); U x(d.c_str()); ou(x); }  // const char*
#else   // ruint<6>(const char*) is declared but not defined on an unrepaired tree (link error): the check builds without it then
        if constexpr (K != 6) { std::string d = z.get_str(10); U x(d.c_str()); ou(x); } else { U x = junk<K>(); RecInt::mpz_to_ruint(x, z); ou(x); }
#endif
    } else if (op == "cvu_back") {                 // ruint -> big integer, every path
        U x = toU<K>(z);
        { Integer I(x); o.z(fromI(I)); }
        { Integer I(-12345); I <<= 200; Givaro::Caster(I, x); o.z(fromI(I)); }   // live destination
        { Z m(-7); RecInt::ruint_to_mpz(m, x); o.z(m); }
        { mpz_t m; RecInt::ruint_to_mpz_t(m, x); Z r(m); mpz_clear(m); o.z(r); } // initialises its destination
    } else if (op == "cvu_word") {                 // built-in words -> ruint
        long long w = a.SW(2);
        { U x((int64_t)w); ou(x); }
        { U x((uint64_t)w); ou(x); }
        { U x((int32_t)w); ou(x); }
        { U x((uint32_t)w); ou(x); }
        { U x = junk<K>(); x = (int64_t)w; ou(x); }
    } else if (op == "cvu_toword") {               // ruint -> built-in words
        U x = toU<K>(z);
        o.ull((uint64_t)x); o.ll((int64_t)x); o.ull((uint32_t)x); o.ll((int32_t)x); o.ull((bool)x ? 1 : 0);
    } else if (op == "cvu_dbl") {                  // double (an integer of magnitude < 2^53) <-> ruint
        long long w = a.SW(2);
        { U x((double)w); ou(x); }
        { U x = toU<K>(Z((long)(w < 0 ? -w : w))); o.ll((long long)(double)x); }
    } else if (op == "cvu_todbl") {                // ruint -> double, every magnitude (printed exactly through mpz_set_d)
        U x = toU<K>(z); double d = (double)x; Z r; mpz_set_d(r.get_mpz_t(), d); o.z(r);
    } else if (op == "cvs_todbl") {
        S x = toS<K>(z); double d = (double)x; Z r; mpz_set_d(r.get_mpz_t(), d); o.z(r);
    } else if (op == "cvs_from") {
        Integer I = toI(z);
        { S x(I); os(x); }
        { S x; x.Value = junk<K>(); x = I; os(x); }
        { S x; x.Value = junk<K>(); Givaro::Caster(x, I); os(x); }
        { S x; x.Value = junk<K>(); x = I.operator S(); os(x); }
        { S x; x.Value = junk<K>(); RecInt::mpz_to_rint(x, z); os(x); }
        { S x; x.Value = junk<K>(); RecInt::mpz_t_to_rint(x, z.get_mpz_t()); os(x); }
#if defined(C06_STR6)
        { std::string d = z.get_str(10); S x(d.c_str()); os(x); }
#else
        if constexpr (K != 6) { std::string d = z.get_str(10); S x(d.c_str()); os(x); } else { S x; x.Value = junk<K>(); RecInt::mpz_to_rint(x, z); os(x); }
#endif
    } else if (op == "cvs_back") {
        S x = toS<K>(z);
        { Integer I(x); o.z(fromI(I)); }
        { Integer I(-12345); I <<= 200; Givaro::Caster(I, x); o.z(fromI(I)); }
        { Z m(-7); RecInt::rint_to_mpz(m, x); o.z(m); }
        { mpz_t m; RecInt::rint_to_mpz_t(m, x); Z r(m); mpz_clear(m); o.z(r); }
    } else if (op == "cvs_word") {
        long long w = a.SW(2);
        { S x((int64_t)w); os(x); }
        { S x((uint64_t)w); os(x); }
        { S x((int32_t)w); os(x); }
        { S x((uint32_t)w); os(x); }
        { S x; x.Value = junk<K>(); x = (int64_t)w; os(x); }
    } else if (op == "cvs_toword") {
        S x = toS<K>(z);
        o.ll((int64_t)x); o.ull((uint64_t)x); o.ll((int32_t)x);
    } else if (op == "cvs_dbl") {
        long long w = a.SW(2);
        { S x((double)w); os(x); }
        { S x = toS<K>(Z((long)w)); o.ll((long long)(double)x); }
    } else return false;
    return true;
}

static void process(A& a) {
    O o; bool ok = false;
    if (a.tok.size() >= 4) {
        unsigned long K = strtoul(a.tok[1].c_str(), nullptr, 16);
        try {
            switch (K) {
                case 6: ok = run<6>(a.tok[0], a, o); break;
                case 7: ok = run<7>(a.tok[0], a, o); break;
                case 8: ok = run<8>(a.tok[0], a, o); break;
                case 9: ok = run<9>(a.tok[0], a, o); break;
            }
        } catch (...) { vp::emit(a, "EXC"); fflush(stdout); return; }
    }
    vp::emit(a, ok ? o.s : "NOFUNC");
    fflush(stdout);
}

static void emit_case(const char* op, unsigned K, const Z& z) {
    A a; a.tok = {op, vp::hex_ull(K), "0", hx(z)}; process(a);
}

int main(int argc, char** argv) {
    if (argc < 3) { A a; while (vp::read_line(std::cin, a)) process(a); return 0; }
    bool thorough = std::string(argv[1]) == "thorough";
    vp::Rng rng(strtoull(argv[2], nullptr, 10) * 1000003ULL + 0xC06C);
    auto rnd = [&](unsigned nb) { Z z(0); for (unsigned i = 0; i < (nb + 63) / 64; i++) { z <<= 64; limb w = rng.next(); Z l; mpz_import(l.get_mpz_t(), 1, -1, 8, 0, 0, &w); z += l; } return Z(z % pow2(nb)); };
    auto limbs = [&](unsigned nl) { Z z(0); static const limb pat[] = {0, 1, 0x8000000000000000ULL, ~0ULL};
        for (unsigned i = 0; i < nl; i++) { z <<= 64; limb w = rng.below(5) == 4 ? rng.next() : pat[rng.below(4)]; Z l; mpz_import(l.get_mpz_t(), 1, -1, 8, 0, 0, &w); z += l; } return z; };
    unsigned rounds = thorough ? 2500 : 120;
    for (unsigned K = 6; K <= 9; K++) {
        unsigned nb = 1u << K; Z M = pow2(nb), H = pow2(nb - 1);
        std::vector<Z> grid = {0, 1, 2, -1, -2, 10, -10, H - 1, H, H + 1, -H, -H + 1, -H - 1, M - 1, M, M + 1, -M, -M + 1, -M - 1,
                               pow2(63), pow2(64), pow2(64) - 1, pow2(64) + 1, -pow2(63), -pow2(64), -pow2(64) + 1, -pow2(64) - 1,
                               Z("10000000000000000000"), Z("-10000000000000000000"), 2 * M + 5, -2 * M - 5};
        for (unsigned i = 0; i < rounds; i++) {
            Z z = i < grid.size() ? grid[i] : (i % 3 == 0 ? limbs(nb / 64) : rnd(1 + rng.below(nb + (i % 7 == 0 ? 70 : 0))));
            if (i >= grid.size() && (i & 1)) z = -z;
            emit_case("cvu_from", K, z);
            emit_case("cvs_from", K, z);
            Z u = ((z % M) + M) % M;
            emit_case("cvu_back", K, u);
            emit_case("cvu_toword", K, u);
            Z s = u >= H ? Z(u - M) : u;
            emit_case("cvs_back", K, s);
            emit_case("cvs_toword", K, s);
            static const long long wg[] = {0, 1, -1, 2, -2, 0x7fffffffLL, 0x80000000LL, 0x80000001LL, -0x7fffffffLL, -0x80000000LL, -0x80000001LL,
                                           0xffffffffLL, 0x100000000LL, -0xffffffffLL, -0x100000000LL, 0x7fffffffffffffffLL, (long long)0x8000000000000000ULL,
                                           (long long)0x8000000000000001ULL, -0x7fffffffffffffffLL};
            long long w = i < sizeof wg / sizeof wg[0] ? wg[i] : (long long)(rng.next() >> rng.below(64)) * ((i & 1) ? -1 : 1);
            Z zw; { Z t((long)(w < 0 ? -(w + 1) : w)); zw = w < 0 ? Z(-t - 1) : t; }
            emit_case("cvu_word", K, zw);
            emit_case("cvs_word", K, zw);
            long long d = (long long)(rng.next() >> (11 + rng.below(53))) * ((i & 1) ? -1 : 1);
            if (i < 6) { static const long long dg[] = {0, 1, -1, (1LL << 53) - 1, -((1LL << 53) - 1), -5}; d = dg[i]; }
            Z zd((long)d);
            emit_case("cvu_dbl", K, zd);
            emit_case("cvs_dbl", K, zd);
            // ruint/rint -> double beyond 2^53: ties (odd/even neighbours), just below/above a power of two, the top of the limb
            {
                unsigned e = 53 + (unsigned)rng.below(11);                       // 2^e <= v < 2^(e+1) <= 2^64
                Z sp = pow2(e - 52), base = pow2(e) + sp * Z((unsigned long)rng.below(1u << 20));
                Z cand[] = {base, base + sp / 2, base + sp / 2 + 1, base + sp / 2 - 1, base + sp + sp / 2, Z(pow2(e + 1) - 1), Z(pow2(e + 1) - sp / 2),
                            Z(pow2(e + 1) - sp / 2 - 1), rnd(64), pow2(53), pow2(53) + 1, pow2(53) + 2, pow2(53) + 3, pow2(64) - 1, pow2(64) - 1024, pow2(64) - 1025, pow2(63)};
                const Z& v = cand[i % (sizeof cand / sizeof cand[0])];
                if (v < M) emit_case("cvu_todbl", K, v);
                Z sv = v % pow2(63);
                emit_case("cvs_todbl", K, (i & 1) ? Z(-sv) : sv);
                if (i % 16 == 0) { emit_case("cvs_todbl", K, -pow2(63)); emit_case("cvs_todbl", K, Z(-pow2(53) - 1)); emit_case("cvs_todbl", K, Z(-pow2(53) - 3)); }
            }
        }
    }
    return 0;
}
