// The "kinds" of the C15 alias check (ring / field / rational / polynomial interfaces): one typedef per instantiated class.
// The names are the kind column of the harness output and of the generated table (translate/aliasfp.py finds the typedefs of
// namespace Givaro::alias_kinds in the clang AST and enumerates the three-address member functions of each class).
#pragma once
#include "domains.h"
#include <givaro/givpoly1.h>
#include <givaro/zring.h>
#include <givaro/gf2.h>
#include <recint/recint.h>

namespace Givaro { namespace alias_kinds {
typedef Modular<int32_t> Modular_int32;
typedef Modular<uint32_t> Modular_uint32;
typedef Modular<int64_t> Modular_int64;
typedef Modular<uint64_t> Modular_uint64;
typedef Modular<int16_t> Modular_int16;
typedef Modular<int8_t> Modular_int8;
typedef Modular<uint8_t> Modular_uint8;
typedef Modular<uint16_t> Modular_uint16;
typedef Modular<uint32_t, uint32_t> Modular_uint32_32;
typedef Modular<int8_t, int16_t> Modular_int8_16;
typedef Modular<uint8_t, uint16_t> Modular_uint8_16;
typedef Modular<uint16_t, uint32_t> Modular_uint16_32;
typedef Modular<uint32_t, uint64_t> Modular_uint32_64;
typedef Modular<int32_t, int64_t> Modular_int32_64;
typedef Modular<uint64_t, __uint128_t> Modular_uint64_128;
typedef Modular<int16_t, int64_t> Modular_int16_int64;          // the primary template (modular-inttype.h)
typedef Modular<double> Modular_double;
typedef Modular<float> Modular_float;
typedef Modular<Integer> Modular_Integer;
typedef Modular<Log16> Modular_Log16;
typedef ModularBalanced<int32_t> ModularBalanced_int32;
typedef ModularBalanced<int64_t> ModularBalanced_int64;
typedef ModularBalanced<double> ModularBalanced_double;
typedef ModularBalanced<float> ModularBalanced_float;
typedef ModularExtended<double> ModularExtended_double;
typedef Modular<RecInt::ruint<6>> Modular_ruint6;
typedef Modular<RecInt::ruint<7>> Modular_ruint7;
typedef Modular<RecInt::ruint<6>, RecInt::ruint<7>> Modular_ruint6_7;
typedef Modular<RecInt::ruint<7>, RecInt::ruint<8>> Modular_ruint7_8;
typedef Modular<RecInt::rint<7>> Modular_rint7;
typedef Montgomery<int32_t> Montgomery_int32;
typedef Montgomery<RecInt::ruint<6>> Montgomery_ruint6;
typedef Montgomery<RecInt::ruint<7>> Montgomery_ruint7;
typedef Montgomery<RecInt::ruint<8>> Montgomery_ruint8;
typedef QField<Rational> QField_Rational;
typedef GFqDom<int32_t> GFqDom_int32;
typedef GFqDom<int64_t> GFqDom_int64;
typedef Extension<GFqDom<int32_t>> Extension_GFq;
typedef Extension<Modular<double>> Extension_Modular_double;
typedef ZRing<Integer> ZRing_Integer;
typedef ZRing<double> ZRing_double;
typedef ZRing<int64_t> ZRing_int64;
typedef GF2 GF2_bool;
typedef Poly1Dom<Modular<int32_t>, Dense> Poly1Dom_Modular_int32;
typedef Poly1Dom<QField<Rational>, Dense> Poly1Dom_QField;
typedef Poly1Dom<Modular<RecInt::ruint<7>>, Dense> Poly1Dom_Modular_ruint7;
typedef Poly1Dom<Modular<Log16>, Dense> Poly1Dom_Modular_Log16;
typedef Rational Rational_ops;
typedef RecInt::ruint<6> ruint6;
typedef RecInt::ruint<7> ruint7;
typedef RecInt::ruint<8> ruint8;
typedef RecInt::ruint<9> ruint9;
typedef RecInt::ruint<10> ruint10;
typedef RecInt::ruint<11> ruint11;
typedef RecInt::rmint<6, RecInt::MG_ACTIVE> rmintA6;
typedef RecInt::rmint<7, RecInt::MG_ACTIVE> rmintA7;
typedef RecInt::rmint<8, RecInt::MG_ACTIVE> rmintA8;
typedef RecInt::rmint<9, RecInt::MG_ACTIVE> rmintA9;
typedef RecInt::rmint<10, RecInt::MG_ACTIVE> rmintA10;
typedef RecInt::rmint<11, RecInt::MG_ACTIVE> rmintA11;
typedef RecInt::rmint<6, RecInt::MG_INACTIVE> rmintI6;
typedef RecInt::rmint<7, RecInt::MG_INACTIVE> rmintI7;
typedef RecInt::rmint<8, RecInt::MG_INACTIVE> rmintI8;
typedef RecInt::rmint<9, RecInt::MG_INACTIVE> rmintI9;
typedef RecInt::rmint<10, RecInt::MG_INACTIVE> rmintI10;
typedef RecInt::rmint<11, RecInt::MG_INACTIVE> rmintI11;
}}  // namespace Givaro::alias_kinds
