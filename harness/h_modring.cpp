// Correspondence harness for C03 / C04: residue rings Z/m of every storage/compute pair the library
// instantiates.  Calls the real ring operations in-process and prints one line per call:
//     <ring>.<op> <m> <arg>... = <result>          (hex, '-' prefix for negatives)
// Elements travel as the integer value of their representation (for Modular<Log16>, whose elements
// are discrete logarithms, as the residue obtained through convert/init).
//   argv = <prop> <tier> <seed> : generate the cases (every random choice from the seed);
//   stdin lines "<ring>.<op> <m> <arg>..." : run exactly those (replay).
#include "proto.h"
#include <gmpxx.h>
#include <cmath>
#include <cstring>
#include <functional>
#include <limits>
#include <map>
#include <set>
#include <type_traits>
#include <givaro/givinteger.h>
#include <recint/recint.h>
#include <givaro/modular.h>
#include <givaro/modular-balanced.h>
#include <givaro/modular-extended.h>
#include <givaro/montgomery.h>
#include <givaro/gfq.h>

using namespace Givaro;
typedef mpz_class Z;

static std::string zhex(const Z& z) { return vp::hex(z.get_mpz_t()); }
static Z zparse(const std::string& s) { Z z; mpz_set_str(z.get_mpz_t(), s.c_str(), 16); return z; }
static Z zpow2(unsigned k) { Z z(1); z <<= k; return z; }

// ------------------------------------------------------------------------------------------
// element <-> integer value (exact; never through the library's init/convert)
// ------------------------------------------------------------------------------------------
template <class E, class = void> struct ElIO;

template <class E> struct ElIO<E, typename std::enable_if<std::is_integral<E>::value>::type> {
    static bool fits(const Z& z) {
        Z lo, hi;
        if (std::is_signed<E>::value) { hi = zpow2(8 * sizeof(E) - 1) - 1; lo = -hi - 1; }
        else { lo = 0; hi = zpow2(8 * sizeof(E)) - 1; }
        return lo <= z && z <= hi;
    }
    static bool from(E& e, const Z& z) {
        if (!fits(z)) return false;
        if (std::is_signed<E>::value) e = (E)z.get_si(); else e = (E)z.get_ui();
        return true;
    }
    static std::string to(const E& e) {
        return std::is_signed<E>::value ? vp::hex_ll((long long)e) : vp::hex_ull((unsigned long long)e);
    }
    static Z lo() { return std::is_signed<E>::value ? Z(-zpow2(8 * sizeof(E) - 1)) : Z(0); }
    static Z hi() { return std::is_signed<E>::value ? Z(zpow2(8 * sizeof(E) - 1) - 1) : Z(zpow2(8 * sizeof(E)) - 1); }
};

template <class E> struct ElIO<E, typename std::enable_if<std::is_floating_point<E>::value>::type> {
    static bool from(E& e, const Z& z) {
        double d = z.get_d();           // truncates
        e = (E)d;
        if (!std::isfinite(e)) return false;
        Z back; mpz_set_d(back.get_mpz_t(), (double)e);
        return back == z;               // exactly representable only
    }
    static std::string to(const E& e) {
        if (!std::isfinite(e) || std::floor(e) != e) return "NAI";
        Z z; mpz_set_d(z.get_mpz_t(), (double)e);
        return zhex(z);
    }
    static Z hi() { return zpow2(std::numeric_limits<E>::digits); }
    static Z lo() { return -hi(); }
};

template <> struct ElIO<Integer, void> {
    static bool from(Integer& e, const Z& z) { mpz_set(e.get_mpz(), z.get_mpz_t()); return true; }
    static std::string to(const Integer& e) { return vp::hex(e.get_mpz_const()); }
    static Z hi() { return zpow2(300); }
    static Z lo() { return -hi(); }
};

template <size_t K> struct ElIO<RecInt::ruint<K>, void> {
    static bool from(RecInt::ruint<K>& e, const Z& z) {
        if (z < 0 || z >= zpow2(1u << K)) return false;
        RecInt::mpz_to_ruint(e, z); return true;
    }
    static std::string to(const RecInt::ruint<K>& e) { Z z; RecInt::ruint_to_mpz(z, e); return zhex(z); }
    static Z hi() { return zpow2(1u << K) - 1; }
    static Z lo() { return 0; }
};
template <size_t K> struct ElIO<RecInt::rint<K>, void> {
    static bool from(RecInt::rint<K>& e, const Z& z) {
        if (z < -zpow2((1u << K) - 1) || z >= zpow2((1u << K) - 1)) return false;
        RecInt::mpz_to_rint(e, z); return true;
    }
    static std::string to(const RecInt::rint<K>& e) { Z z; RecInt::rint_to_mpz(z, e); return zhex(z); }
    static Z hi() { return zpow2((1u << K) - 1) - 1; }
    static Z lo() { return -zpow2((1u << K) - 1); }
};

// ring-level element I/O (default: the representation *is* the value)
template <class R> struct RIO {
    typedef typename R::Element E;
    static bool from(const R&, E& e, const Z& z) { return ElIO<E>::from(e, z); }
    static std::string to(const R&, const E& e) { return ElIO<E>::to(e); }
    static const bool raw = true;
};
template <> struct RIO<Modular<Log16>> {
    typedef Modular<Log16> R;
    typedef R::Element E;
    static bool from(const R& F, E& e, const Z& z) {
        if (z < 0 || z >= Z((unsigned long)F.residu())) return false;
        F.init(e, (uint32_t)z.get_ui()); return true;
    }
    static std::string to(const R& F, const E& e) { uint32_t v; F.convert(v, e); return vp::hex_ull(v); }
    static const bool raw = false;
};

// multiplication with a precomputed reciprocal (modular-mulprecomp.inl): only the machine-word Modular<Storage,Compute>
// specialisation has it
template <class R, class = void> struct PrecompOps {
    static const bool has = false;
    static std::string run(R&, const std::string&, typename R::Element, typename R::Element) { return "NOOP"; }
};
static std::string hex_u128(unsigned __int128 v) {
    if (v == 0) return "0";
    std::string s;
    while (v) { s.insert(s.begin(), "0123456789abcdef"[(unsigned)(v & 15)]); v >>= 4; }
    return s;
}
template <class S, class C>
struct PrecompOps<Modular<S, C>, typename std::enable_if<std::is_integral<S>::value && std::is_integral<C>::value
        && (sizeof(S) == sizeof(C) || 2 * sizeof(S) == sizeof(C))>::type> {
    typedef Modular<S, C> R;
    static const bool has = true;
    static std::string run(R& F, const std::string& op, typename R::Element a, typename R::Element b) {
        typedef typename R::Compute_t Cu;
        typedef typename R::Residu_t Ru;
        typename R::Element r; F.init(r);
        if (op == "mulpp") {          // precomp_p ; mul_precomp_p   -> bitsizep invp result
            Cu invp; size_t n = 0;
            F.precomp_p(invp, n);
            F.mul_precomp_p(r, a, b, invp, n);
            return vp::hex_ull(n) + " " + hex_u128((unsigned __int128)invp) + " " + ElIO<typename R::Element>::to(r);
        }
        if (op == "mulpb") {          // precomp_b(invb, b) ; mul_precomp_b_without_reduction ; mul_precomp_b  -> invb noreduction result
            Cu invb;
            F.precomp_b(invb, b);
            typename R::Element r0; F.init(r0);
            Ru nr = F.mul_precomp_b_without_reduction(r0, a, b, invb);
            F.mul_precomp_b(r, a, b, invb);
            return hex_u128((unsigned __int128)invb) + " " + hex_u128((unsigned __int128)nr) + " " + ElIO<typename R::Element>::to(r);
        }
        return "NOOP";
    }
};

// maxCardinality() as reported by the running code; a ring class without one (the generic Modular<IntType,Compute_t> before
// it advertised a maximum) is only bounded by what its Residu_t holds
template <class R, class = void> struct MaxCardOf {
    static Z get() { return ElIO<typename R::Residu_t>::hi(); }
};
template <class R> struct MaxCardOf<R, decltype((void)R::maxCardinality())> {
    static Z get() { typename R::Residu_t r = R::maxCardinality(); return zparse(ElIO<typename R::Residu_t>::to(r)); }
};

// ------------------------------------------------------------------------------------------
struct RingBase {
    std::string tag;
    bool balanced = false, needs_prime = false, floating = false, needs_odd = false, c04_only = false, has_precomp = false;
    virtual ~RingBase() {}
    virtual Z maxCard() const = 0;      // < 0 : unbounded
    virtual Z minCard() const = 0;
    virtual bool setModulus(const Z& m) = 0;
    virtual std::string run(const std::string& op, const std::vector<Z>& a) = 0;  // a = operands (after m)
    virtual Z elemLo() const = 0;       // range of the storage type (for reduce / init grids)
    virtual Z elemHi() const = 0;
    virtual std::vector<std::string> initSources() const = 0;
    virtual std::vector<std::string> convertTargets() const = 0;
};

static bool is_unit(const Z& a, const Z& m) { Z g; mpz_gcd(g.get_mpz_t(), a.get_mpz_t(), m.get_mpz_t()); return g == 1; }

// source-value construction for init: returns false when z is not a value of the source type
template <class S> static bool src_from(S& s, const Z& z) { return ElIO<S>::from(s, z); }

template <class R> struct RingH : RingBase {
    typedef typename R::Element E;
    typedef typename R::Residu_t Res;
    R* F = nullptr;
    Z m;
    ~RingH() { delete F; }
    Z maxCard() const override { return MaxCardOf<R>::get(); }
    Z minCard() const override { Res r = R::minCardinality(); return zparse(ElIO<Res>::to(r)); }
    Z elemLo() const override { return ElIO<E>::lo(); }
    Z elemHi() const override { return ElIO<E>::hi(); }
    bool setModulus(const Z& mm) override {
        if (F && m == mm) return true;
        Res p;
        if (!ElIO<Res>::from(p, mm)) return false;
        delete F; F = nullptr;
        F = new R(p);
        m = mm;
        return true;
    }
    bool el(E& e, const Z& z) { return RIO<R>::from(*F, e, z); }
    std::string out(const E& e) { return RIO<R>::to(*F, e); }

    template <class S> std::string do_init(const Z& x) {
        S s;
        if (!src_from<S>(s, x)) return "NOSRC";
        E e; F->init(e);
        F->init(e, s);
        return out(e);
    }
    template <class T> std::string do_convert(const Z& ev) {
        E e; if (!el(e, ev)) return "NOELT";
        T t; F->convert(t, e);
        return ElIO<T>::to(t);
    }

    std::string run(const std::string& op, const std::vector<Z>& a) override {
        E r, x, y, z;
        F->init(r); F->init(x); F->init(y); F->init(z);
        size_t n = a.size();
        auto need = [&](size_t k) { return n == k; };
#define EL(v, i) if (!el(v, a[i])) return "NOELT";
        if (op == "add" && need(2)) { EL(x, 0) EL(y, 1) F->add(r, x, y); return out(r); }
        if (op == "sub" && need(2)) { EL(x, 0) EL(y, 1) F->sub(r, x, y); return out(r); }
        if (op == "mul" && need(2)) { EL(x, 0) EL(y, 1) F->mul(r, x, y); return out(r); }
        if (op == "div" && need(2)) { EL(x, 0) EL(y, 1) if (!is_unit(a[1], m)) return "NONUNIT"; F->div(r, x, y); return out(r); }
        if (op == "neg" && need(1)) { EL(x, 0) F->neg(r, x); return out(r); }
        if (op == "inv" && need(1)) { EL(x, 0) if (!is_unit(a[0], m)) return "NONUNIT"; F->inv(r, x); return out(r); }
        if (op == "addin" && need(2)) { EL(r, 0) EL(y, 1) F->addin(r, y); return out(r); }
        if (op == "subin" && need(2)) { EL(r, 0) EL(y, 1) F->subin(r, y); return out(r); }
        if (op == "mulin" && need(2)) { EL(r, 0) EL(y, 1) F->mulin(r, y); return out(r); }
        if (op == "divin" && need(2)) { EL(r, 0) EL(y, 1) if (!is_unit(a[1], m)) return "NONUNIT"; F->divin(r, y); return out(r); }
        if (op == "negin" && need(1)) { EL(r, 0) F->negin(r); return out(r); }
        if (op == "invin" && need(1)) { EL(r, 0) if (!is_unit(a[0], m)) return "NONUNIT"; F->invin(r); return out(r); }
        if (op == "axpy" && need(3)) { EL(x, 0) EL(y, 1) EL(z, 2) F->axpy(r, x, y, z); return out(r); }
        if (op == "axmy" && need(3)) { EL(x, 0) EL(y, 1) EL(z, 2) F->axmy(r, x, y, z); return out(r); }
        if (op == "maxpy" && need(3)) { EL(x, 0) EL(y, 1) EL(z, 2) F->maxpy(r, x, y, z); return out(r); }
        if (op == "axpyin" && need(3)) { EL(r, 0) EL(x, 1) EL(y, 2) F->axpyin(r, x, y); return out(r); }
        if (op == "axmyin" && need(3)) { EL(r, 0) EL(x, 1) EL(y, 2) F->axmyin(r, x, y); return out(r); }
        if (op == "maxpyin" && need(3)) { EL(r, 0) EL(x, 1) EL(y, 2) F->maxpyin(r, x, y); return out(r); }
        if (op == "isUnit" && need(1)) { EL(x, 0) return F->isUnit(x) ? "1" : "0"; }
        if (op == "isZero" && need(1)) { EL(x, 0) return F->isZero(x) ? "1" : "0"; }
        if (op == "isOne" && need(1)) { EL(x, 0) return F->isOne(x) ? "1" : "0"; }
        if (op == "areEqual" && need(2)) { EL(x, 0) EL(y, 1) return F->areEqual(x, y) ? "1" : "0"; }
        if ((op == "mulpp" || op == "mulpb") && need(2)) { EL(x, 0) EL(y, 1) return PrecompOps<R>::run(*F, op, x, y); }
        if (op == "assign" && need(1)) {
            // a ring object ASSIGNED from *F (modulus m): the destination was built with modulus a[0] (0: default-constructed)
            R A;
            if (a[0] != 0) { Res p1; if (!ElIO<Res>::from(p1, a[0])) return "NOMOD"; R B(p1); A = B; }
            A = *F;
            E e; A.init(e);
            A.init(e, (int64_t)-1);
            E mx = A.maxElement(), mn = A.minElement();
            Res c = A.cardinality();
            return RIO<R>::to(A, A.zero) + " " + RIO<R>::to(A, A.one) + " " + RIO<R>::to(A, A.mOne) + " " + RIO<R>::to(A, e) + " "
                   + (A.isMOne(e) ? "1" : "0") + " " + RIO<R>::to(A, mx) + " " + RIO<R>::to(A, mn) + " " + ElIO<Res>::to(c);
        }
        if (op == "hist" && n >= 4) {
            // a history: registers r0..r3, then one code per API call: op*256 + d*64 + a*16 + b*4 + c
            E reg[4];
            for (int i = 0; i < 4; ++i) { F->init(reg[i]); if (!el(reg[i], a[i])) return "NOELT"; }
            for (size_t i = 4; i < n; ++i) {
                unsigned long code = a[i].get_ui();
                unsigned o = (unsigned)(code >> 8), d = (code >> 6) & 3, s1 = (code >> 4) & 3, s2 = (code >> 2) & 3, s3 = code & 3;
                switch (o) {
                    case 0: F->add(reg[d], reg[s1], reg[s2]); break;
                    case 1: F->sub(reg[d], reg[s1], reg[s2]); break;
                    case 2: F->mul(reg[d], reg[s1], reg[s2]); break;
                    case 3: F->neg(reg[d], reg[s1]); break;
                    case 4: F->axpy(reg[d], reg[s1], reg[s2], reg[s3]); break;
                    case 5: F->axmy(reg[d], reg[s1], reg[s2], reg[s3]); break;
                    case 6: F->maxpy(reg[d], reg[s1], reg[s2], reg[s3]); break;
                    case 7: F->addin(reg[d], reg[s1]); break;
                    case 8: F->subin(reg[d], reg[s1]); break;
                    case 9: F->mulin(reg[d], reg[s1]); break;
                    case 10: F->negin(reg[d]); break;
                    case 11: F->axpyin(reg[d], reg[s1], reg[s2]); break;
                    case 12: F->axmyin(reg[d], reg[s1], reg[s2]); break;
                    case 13: F->maxpyin(reg[d], reg[s1], reg[s2]); break;
                    default: return "BADCODE";
                }
            }
            return out(reg[0]) + " " + out(reg[1]) + " " + out(reg[2]) + " " + out(reg[3]);
        }
        return run2(op, a);
#undef EL
    }
    // reduce, init, convert, constants: split off (some are not available for every ring)
    std::string run2(const std::string& op, const std::vector<Z>& a);
    std::vector<std::string> initSources() const override;
    std::vector<std::string> convertTargets() const override;
};

// raw element from a storage value (reduce takes any value of the storage type)
template <class R> static bool raw_el(typename R::Element& e, const Z& z) { return ElIO<typename R::Element>::from(e, z); }

template <class R, bool Raw = RIO<R>::raw> struct Extra {
    static std::string reduce(RingH<R>& H, const std::string& op, const std::vector<Z>& a) {
        typename R::Element x, r;
        H.F->init(r);
        if (!raw_el<R>(x, a[0])) return "NOELT";
        if (op == "reduce2") { H.F->reduce(r, x); return H.out(r); }
        H.F->reduce(x); return H.out(x);
    }
};
template <class R> struct Extra<R, false> {
    static std::string reduce(RingH<R>&, const std::string&, const std::vector<Z>&) { return "NOOP"; }
};

// representation-level lines for the log-table ring: operands arrive as residues, the line reports the generator
// (`_tab_rep2value[1]`, through convert), the raw representations of the operands and of the result
template <class R> struct RawOps {
    static std::string run(RingH<R>&, const std::string&, const std::vector<Z>&) { return "NOOP"; }
};
template <> struct RawOps<Modular<Log16>> {
    typedef Modular<Log16> R;
    static std::string run(RingH<R>& H, const std::string& op, const std::vector<Z>& a) {
        R& F = *H.F;
        R::Element x[3], r;
        F.init(r);
        for (int i = 0; i < 3; ++i) {
            F.init(x[i]);
            if ((size_t)i < a.size()) { if (a[i] < 0 || a[i] >= H.m) return "NOELT"; F.init(x[i], (uint32_t)a[i].get_ui()); }
        }
        R::Element rx[3] = {x[0], x[1], x[2]};
        std::string o = op.substr(4);
        if (o == "add") F.add(r, x[0], x[1]);
        else if (o == "sub") F.sub(r, x[0], x[1]);
        else if (o == "mul") F.mul(r, x[0], x[1]);
        else if (o == "div") { if (!is_unit(a[1], H.m)) return "NONUNIT"; F.div(r, x[0], x[1]); }
        else if (o == "inv") { if (!is_unit(a[0], H.m)) return "NONUNIT"; F.inv(r, x[0]); }
        else if (o == "neg") F.neg(r, x[0]);
        else if (o == "addin") { r = x[0]; F.addin(r, x[1]); }
        else if (o == "subin") { r = x[0]; F.subin(r, x[1]); }
        else if (o == "mulin") { r = x[0]; F.mulin(r, x[1]); }
        else if (o == "negin") { r = x[0]; F.negin(r); }
        else if (o == "axpy") F.axpy(r, x[0], x[1], x[2]);
        else if (o == "axmy") F.axmy(r, x[0], x[1], x[2]);
        else if (o == "maxpy") F.maxpy(r, x[0], x[1], x[2]);
        else if (o == "axpyin") { r = x[0]; F.axpyin(r, x[1], x[2]); }
        else if (o == "axmyin") { r = x[0]; F.axmyin(r, x[1], x[2]); }
        else if (o == "maxpyin") { r = x[0]; F.maxpyin(r, x[1], x[2]); }
        else return "NOOP";
        uint32_t g = 1;
        if (H.m > 2) F.convert(g, (R::Element)1);
        return vp::hex_ull(g) + " " + vp::hex_ll(rx[0]) + " " + vp::hex_ll(rx[1]) + " " + vp::hex_ll(rx[2]) + " " + vp::hex_ll(r);
    }
};

// which source / target types each ring's init / convert is exercised with
template <class R, class = void> struct SrcList {
    static std::vector<std::string> src() { return {"s8", "u8", "s16", "u16", "s32", "u32", "s64", "u64", "f32", "f64", "Z"}; }
    static std::vector<std::string> dst() { return {"s8", "u8", "s16", "u16", "s32", "u32", "s64", "u64", "f32", "f64", "Z"}; }
};
template <> struct SrcList<Modular<Log16>, void> {
    static std::vector<std::string> src() { return {"s16", "u16", "s32", "u32", "s64", "u64", "f32", "f64", "Z"}; }
    static std::vector<std::string> dst() { return {"s16", "u16", "s32", "u32", "s64", "u64", "f64", "Z"}; }
};
template <class R> std::vector<std::string> RingH<R>::initSources() const { return SrcList<R>::src(); }
template <class R> std::vector<std::string> RingH<R>::convertTargets() const { return SrcList<R>::dst(); }

template <class R> std::string RingH<R>::run2(const std::string& op, const std::vector<Z>& a) {
    size_t n = a.size();
    if (op.compare(0, 4, "raw_") == 0) return RawOps<R>::run(*this, op, a);
    if ((op == "reduce2" || op == "reduce1") && n == 1) return Extra<R>::reduce(*this, op, a);
    if (op == "consts" && n == 0) {
        // zero, one, mOne as element values, and what init() (no source) gives
        E e; F->init(e);
        return out(F->zero) + " " + out(F->one) + " " + out(F->mOne) + " " + out(e);
    }
    if (op == "card" && n == 0) {
        Res c = F->cardinality(), ch = F->characteristic();
        return ElIO<Res>::to(c) + " " + ElIO<Res>::to(ch);
    }
    if (n == 1 && op.compare(0, 5, "init_") == 0) {
        std::string s = op.substr(5);
        if (s == "s8") return do_init<int8_t>(a[0]);
        if (s == "u8") return do_init<uint8_t>(a[0]);
        if (s == "s16") return do_init<int16_t>(a[0]);
        if (s == "u16") return do_init<uint16_t>(a[0]);
        if (s == "s32") return do_init<int32_t>(a[0]);
        if (s == "u32") return do_init<uint32_t>(a[0]);
        if (s == "s64") return do_init<int64_t>(a[0]);
        if (s == "u64") return do_init<uint64_t>(a[0]);
        if (s == "f32") return do_init<float>(a[0]);
        if (s == "f64") return do_init<double>(a[0]);
        if (s == "Z") return do_init<Integer>(a[0]);
        if (s == "f64h") {   // the double a[0]/2 (a non-integer when a[0] is odd)
            if (abs(a[0]) >= zpow2(53)) return "NOSRC";
            double d = a[0].get_d() / 2.0;
            E e; F->init(e); F->init(e, d);
            return out(e);
        }
        return "NOSRC";
    }
    if (n == 1 && op.compare(0, 8, "convert_") == 0) {
        std::string s = op.substr(8);
        if constexpr (!std::is_same<R, Modular<Log16>>::value) {   // the log-table ring has a fixed list of convert overloads
            if (s == "s8") return do_convert<int8_t>(a[0]);
            if (s == "u8") return do_convert<uint8_t>(a[0]);
            if (s == "f32") return do_convert<float>(a[0]);
        }
        if (s == "s16") return do_convert<int16_t>(a[0]);
        if (s == "u16") return do_convert<uint16_t>(a[0]);
        if (s == "s32") return do_convert<int32_t>(a[0]);
        if (s == "u32") return do_convert<uint32_t>(a[0]);
        if (s == "s64") return do_convert<int64_t>(a[0]);
        if (s == "u64") return do_convert<uint64_t>(a[0]);
        if (s == "f64") return do_convert<double>(a[0]);
        if (s == "Z") return do_convert<Integer>(a[0]);
        return "NODST";
    }
    return "NOOP";
}

// rings that are Z/p behind another representation (Montgomery form, Zech logarithms): exercised for
// init / convert / constants only (C04); elements travel as residues through the ring's own init/convert
template <class R> struct MakeRing;
template <> struct MakeRing<Montgomery<int32_t>> { static Montgomery<int32_t>* make(const Z& m) { return new Montgomery<int32_t>((uint32_t)m.get_ui()); } };
template <> struct MakeRing<GFqDom<int32_t>> { static GFqDom<int32_t>* make(const Z& m) { return new GFqDom<int32_t>((uint32_t)m.get_ui(), 1); } };

template <class R> struct RingC04 : RingBase {
    typedef typename R::Element E;
    typedef typename R::Residu_t Res;
    R* F = nullptr;
    Z m;
    ~RingC04() { delete F; }
    Z maxCard() const override { Res r = R::maxCardinality(); return zparse(ElIO<Res>::to(r)); }
    Z minCard() const override { Res r = R::minCardinality(); return zparse(ElIO<Res>::to(r)); }
    Z elemLo() const override { return 0; }
    Z elemHi() const override { return 0; }
    bool setModulus(const Z& mm) override {
        if (F && m == mm) return true;
        if (needs_odd && mm % 2 == 0) return false;
        if (needs_prime && mpz_probab_prime_p(mm.get_mpz_t(), 30) == 0) return false;
        delete F; F = nullptr;
        F = MakeRing<R>::make(mm);
        m = mm;
        return true;
    }
    std::string out(const E& e) { uint64_t v = 0; F->convert(v, e); return vp::hex_ull(v); }
    template <class S> std::string do_init(const Z& x) {
        S s;
        if (!src_from<S>(s, x)) return "NOSRC";
        E e; F->init(e);
        F->init(e, s);
        return out(e);
    }
    template <class T> std::string do_convert(const Z& ev) {
        if (ev < 0 || ev >= m) return "NOELT";
        E e; F->init(e, (uint64_t)ev.get_ui());
        T t; F->convert(t, e);
        return ElIO<T>::to(t);
    }
    std::string run(const std::string& op, const std::vector<Z>& a) override {
        size_t n = a.size();
        if (op == "consts" && n == 0) { E e; F->init(e); return out(F->zero) + " " + out(F->one) + " " + out(F->mOne) + " " + out(e); }
        if (op == "card" && n == 0) { Res c = (Res)F->cardinality(), ch = (Res)F->characteristic(); return ElIO<Res>::to(c) + " " + ElIO<Res>::to(ch); }
        if (n == 1 && op.compare(0, 5, "init_") == 0) {
            std::string s = op.substr(5);
            if (s == "s8") return do_init<int8_t>(a[0]);
            if (s == "u8") return do_init<uint8_t>(a[0]);
            if (s == "s16") return do_init<int16_t>(a[0]);
            if (s == "u16") return do_init<uint16_t>(a[0]);
            if (s == "s32") return do_init<int32_t>(a[0]);
            if (s == "u32") return do_init<uint32_t>(a[0]);
            if (s == "s64") return do_init<int64_t>(a[0]);
            if (s == "u64") return do_init<uint64_t>(a[0]);
            if (s == "f32") return do_init<float>(a[0]);
            if (s == "f64") return do_init<double>(a[0]);
            if (s == "Z") return do_init<Integer>(a[0]);
            return "NOSRC";
        }
        if (n == 1 && op.compare(0, 8, "convert_") == 0) {
            std::string s = op.substr(8);
            if (s == "s64") return do_convert<int64_t>(a[0]);
            if (s == "u64") return do_convert<uint64_t>(a[0]);
            if (s == "f64") return do_convert<double>(a[0]);
            if (s == "Z") return do_convert<Integer>(a[0]);
            return "NODST";
        }
        return "NOOP";
    }
    std::vector<std::string> initSources() const override { return {"s8", "u8", "s16", "u16", "s32", "u32", "s64", "u64", "f32", "f64", "Z"}; }
    std::vector<std::string> convertTargets() const override { return {"s64", "u64", "f64", "Z"}; }
};

// ------------------------------------------------------------------------------------------
static std::vector<RingBase*> RINGS;
template <class R> static void reg(const char* tag, bool balanced = false, bool prime = false, bool fl = false) {
    auto* h = new RingH<R>();
    h->has_precomp = PrecompOps<R>::has;
    h->tag = tag; h->balanced = balanced; h->needs_prime = prime; h->floating = fl;
    RINGS.push_back(h);
}
typedef __uint128_t u128;

static void register_all() {
    reg<Modular<int8_t>>("s8");   reg<Modular<int16_t>>("s16"); reg<Modular<int32_t>>("s32"); reg<Modular<int64_t>>("s64");
    reg<Modular<uint8_t>>("u8");  reg<Modular<uint16_t>>("u16"); reg<Modular<uint32_t>>("u32"); reg<Modular<uint64_t>>("u64");
    reg<Modular<int8_t, uint16_t>>("s8u16");   reg<Modular<int16_t, uint32_t>>("s16u32");
    reg<Modular<int32_t, uint64_t>>("s32u64"); reg<Modular<int64_t, u128>>("s64u128");
    reg<Modular<uint8_t, uint16_t>>("u8u16");   reg<Modular<uint16_t, uint32_t>>("u16u32");
    reg<Modular<uint32_t, uint64_t>>("u32u64"); reg<Modular<uint64_t, u128>>("u64u128");
    reg<Modular<float>>("f32", false, false, true); reg<Modular<double>>("f64", false, false, true);
    reg<Modular<float, double>>("f32f64", false, false, true);
    reg<ModularBalanced<float>>("bf32", true, false, true); reg<ModularBalanced<double>>("bf64", true, false, true);
    reg<ModularBalanced<int32_t>>("bs32", true); reg<ModularBalanced<int64_t>>("bs64", true);
    reg<ModularExtended<float>>("xf32", false, false, true); reg<ModularExtended<double>>("xf64", false, false, true);
    reg<Modular<Integer>>("Z");
    reg<Modular<RecInt::ruint<7>>>("ru7"); reg<Modular<RecInt::rint<7>>>("ri7");
    reg<Modular<RecInt::ruint<6>>>("ru6");
    reg<Modular<RecInt::ruint<7>, RecInt::ruint<8>>>("ru7ru8");
    reg<Modular<Log16>>("log16", false, true);
    // the generic Modular<IntType,Compute_t> (modular-inttype.h): type pairs that no specialisation takes
    reg<Modular<int8_t, int32_t>>("g8"); reg<Modular<int16_t, int64_t>>("g16"); reg<Modular<int32_t, Integer>>("g32");
    reg<Modular<int64_t, Integer>>("g64"); reg<Modular<uint8_t, uint32_t>>("gu8"); reg<Modular<uint16_t, uint64_t>>("gu16");
    { auto* h = new RingC04<Montgomery<int32_t>>(); h->tag = "mg32"; h->needs_odd = true; h->c04_only = true; RINGS.push_back(h); }
    { auto* h = new RingC04<GFqDom<int32_t>>(); h->tag = "gfq32"; h->needs_prime = true; h->c04_only = true; RINGS.push_back(h); }
}

static RingBase* find_ring(const std::string& tag) {
    for (auto* r : RINGS) if (r->tag == tag) return r;
    return nullptr;
}

// ------------------------------------------------------------------------------------------
static size_t NLINES = 0;
static void run_line(const std::string& key, const Z& m, const std::vector<Z>& args) {
    size_t dot = key.find('.');
    std::string line = key + " " + zhex(m);
    for (auto& z : args) { line += ' '; line += zhex(z); }
    std::string res;
    RingBase* R = dot == std::string::npos ? nullptr : find_ring(key.substr(0, dot));
    if (!R) res = "NORING";
    else if (key.compare(dot + 1, std::string::npos, "limits") == 0) res = zhex(R->minCard()) + " " + zhex(R->maxCard());
    else if (m < R->minCard() || (R->maxCard() >= 0 && m > R->maxCard())) res = "OUTOFRANGE";   // outside what the running code advertises
    else if (!R->setModulus(m)) res = "NOMOD";
    else {
        try { res = R->run(key.substr(dot + 1), args); } catch (...) { res = "EXC"; }
    }
    line += " = "; line += res; line += '\n';
    fputs(line.c_str(), stdout);
    ++NLINES;
}

// ------------------------------------------------------------------------------------------
// generators
// ------------------------------------------------------------------------------------------
static Z zrand_below(vp::Rng& g, const Z& n) {   // uniform-ish in [0, n)
    Z r = 0;
    size_t bits = mpz_sizeinbase(n.get_mpz_t(), 2) + 64;
    for (size_t i = 0; i < bits; i += 64) { r <<= 64; Z w; mpz_set_ui(w.get_mpz_t(), (unsigned long)g.next()); r += w; }
    return r % n;
}
static Z prev_prime(Z n) {   // largest prime <= n (n >= 2)
    while (n > 2 && mpz_probab_prime_p(n.get_mpz_t(), 30) == 0) --n;
    return n;
}
static Z next_prime(Z n) { Z r; mpz_nextprime(r.get_mpz_t(), Z(n - 1).get_mpz_t()); return r; }

static std::vector<Z> moduli_for(RingBase* R, vp::Rng& g, bool thorough) {
    Z lo = R->minCard(), hi = R->maxCard();
    if (hi < 0) hi = zpow2(R->tag == "Z" ? 200 : 64);   // "no maximum": exercise multi-limb moduli
    std::set<Z> s;
    auto add = [&](const Z& v) { if (v >= lo && v <= hi) s.insert(v); };
    unsigned hibits = (unsigned)mpz_sizeinbase(hi.get_mpz_t(), 2);
    for (int i = 0; i < (thorough ? 4 : 3); ++i) { add(lo + i); add(hi - i); }
    add(prev_prime(hi));
    for (long v : {2, 3, 4, 5, 6, 7, 8, 9, 12, 13, 15, 16, 17, 25, 31, 32, 64, 97, 100, 101, 127, 128, 251, 255, 256, 257, 1009, 4093, 4096, 8191, 32749,
                   32768, 65521, 65536, 65537, 92681, 92682, 131071})
        if (thorough || v == 4 || v == 6 || v == 7 || v == 12 || v == 101) add(Z(v));
    add(hi / 2); add(hi / 2 + 1);
    if (thorough) add(prev_prime(hi / 2 + 1));
    // powers of two and their neighbours up to the maximum
    for (unsigned k = 2; zpow2(k) <= hi + 1; k += (thorough ? std::max(1u, hibits / 24) : std::max(3u, hibits / 3))) { add(zpow2(k)); add(zpow2(k) - 1); if (thorough && k <= 16) add(zpow2(k) + 1); }
    // square-root region of the maximum (where products start to need the wide type)
    { Z r; mpz_sqrt(r.get_mpz_t(), hi.get_mpz_t()); add(r); add(r + 1); if (thorough) add(r - 1); }
    // the domain limits of the precomputed-reciprocal multiplications (asserts of modular-mulprecomp.inl): around 2^(h-2), 2^(h-1)
    { Z r; mpz_sqrt(r.get_mpz_t(), hi.get_mpz_t()); for (Z v : std::vector<Z>{Z(r / 4), Z(r / 2), Z((hi + 1) / 4), Z((hi + 1) / 2)}) { add(v - 1); add(v); if (thorough) add(v + 1); } }
    int nr = thorough ? 6 : 2;
    for (int i = 0; i < nr; ++i) { Z v = lo + zrand_below(g, hi - lo + 1); add(v); if (thorough) add(prev_prime(v < 2 ? Z(2) : v)); }
    std::vector<Z> out;
    for (auto& v : s) {
        if (R->needs_prime) { Z p = prev_prime(v); if (p >= lo && p <= hi) out.push_back(p); }
        else if (R->needs_odd) { Z o = (v % 2 == 0) ? Z(v - 1) : v; if (o >= 3 && o <= hi) out.push_back(o); }
        else out.push_back(v);
    }
    if (R->needs_prime || R->needs_odd) { std::set<Z> u(out.begin(), out.end()); out.assign(u.begin(), u.end()); }
    if (thorough && out.size() > 44) {          // bounded tier: the extremes and an even spread of the rest
        std::vector<Z> k;
        size_t n = out.size(), mid = n - 8 - 14;
        for (size_t i = 0; i < n; ++i)
            if (i < 8 || i + 14 >= n || ((i - 8) * 22 / mid != (i - 7) * 22 / mid)) k.push_back(out[i]);
        out = k;
    }
    return out;
}

static Z canon(RingBase* R, const Z& m, Z v) {   // residue v in [0,m) -> canonical representative of the ring
    v %= m; if (v < 0) v += m;
    if (R->balanced) { Z half = m / 2; if (v > half) v -= m; }
    return v;
}

static std::vector<Z> operands_for(RingBase* R, const Z& m, vp::Rng& g, int nrand) {
    std::vector<Z> raw = {0, 1, 2, m - 1, m - 2, m / 2, m / 2 + 1, m / 2 - 1};
    { Z r; mpz_sqrt(r.get_mpz_t(), m.get_mpz_t()); raw.push_back(r); raw.push_back(r + 1); }
    for (int i = 0; i < nrand; ++i) raw.push_back(zrand_below(g, m));
    std::vector<Z> out;
    std::set<Z> seen;
    for (auto& v : raw) {
        if (v < 0) continue;
        Z c = canon(R, m, v);
        if (seen.insert(c).second) out.push_back(c);
    }
    return out;
}

static void gen_c03(RingBase* R, vp::Rng& g, bool thorough) {
    const char* un[] = {"neg", "negin", "inv", "invin", "isUnit"};
    const char* bin[] = {"add", "sub", "mul", "div", "addin", "subin", "mulin", "divin"};
    const char* ter[] = {"axpy", "axmy", "maxpy", "axpyin", "axmyin", "maxpyin"};
    std::vector<Z> ms = moduli_for(R, g, thorough);
    run_line(R->tag + ".limits", 0, {});      // minCardinality() / maxCardinality() as reported by the running code
    for (auto& m : ms) {
        std::vector<Z> ops = operands_for(R, m, g, thorough ? 3 : 1);
        // ternary operations on a smaller operand set (the corners first)
        std::vector<Z> ops3;
        if (thorough) { ops3.assign(ops.begin(), ops.begin() + std::min<size_t>(ops.size(), 7)); if (ops.size() > ops3.size()) ops3.push_back(ops.back()); }
        else {   // corners: 0 (implicitly through others), 1, m-1, floor(m/2), floor(m/2)+1, one random
            std::set<Z> seen3;
            for (auto& v : std::vector<Z>{canon(R, m, 1), canon(R, m, m - 1), canon(R, m, m / 2), canon(R, m, m / 2 + 1), canon(R, m, 0), ops.back()})
                if (seen3.insert(v).second) ops3.push_back(v);
        }
        for (auto* o : un) for (auto& a : ops) {
            if ((!strcmp(o, "inv") || !strcmp(o, "invin")) && !is_unit(a, m)) continue;
            run_line(R->tag + "." + o, m, {a});
        }
        for (auto* o : bin) for (auto& a : ops) for (auto& b : ops) {
            if ((!strcmp(o, "div") || !strcmp(o, "divin")) && !is_unit(b, m)) continue;
            run_line(R->tag + "." + o, m, {a, b});
        }
        for (auto* o : ter) for (auto& a : ops3) for (auto& b : ops3) for (auto& c : ops3)
            run_line(R->tag + "." + o, m, {a, b, c});
        if (R->has_precomp) for (auto& a : ops) for (auto& b : ops) { run_line(R->tag + ".mulpp", m, {a, b}); run_line(R->tag + ".mulpb", m, {a, b}); }
        // reduce: any value of the storage type (exact-integer range for floating storage)
        if (R->tag != "log16") {
            Z lo = R->elemLo(), hi = R->elemHi();
            std::set<Z> vs;
            for (auto& v : std::vector<Z>{0, 1, -1, m - 1, m, m + 1, 2 * m - 1, 2 * m, 2 * m + 1, -m, -m + 1, -m - 1, m * m, m * (m - 1), (m - 1) * (m - 1) + m,
                                          m / 2, -(m / 2), m / 2 + 1, -(m / 2) - 1, lo, lo + 1, hi, hi - 1, hi / 2, lo / 2})
                if (v >= lo && v <= hi) vs.insert(v);
            for (int i = 0; i < (thorough ? 8 : 2); ++i) vs.insert(lo + zrand_below(g, hi - lo + 1));
            for (auto& v : vs) { run_line(R->tag + ".reduce2", m, {v}); run_line(R->tag + ".reduce1", m, {v}); }
        }
    }
    // representation-level lines (log-table ring): every operation, all pairs / corner triples; fewer lines for large tables
    if (R->tag == "log16") {
        const char* un2[] = {"raw_neg", "raw_negin", "raw_inv"};
        const char* bin2[] = {"raw_add", "raw_sub", "raw_mul", "raw_div", "raw_addin", "raw_subin", "raw_mulin"};
        const char* ter2[] = {"raw_axpy", "raw_axmy", "raw_maxpy", "raw_axpyin", "raw_axmyin", "raw_maxpyin"};
        for (auto& m : ms) {
            std::vector<Z> ops = operands_for(R, m, g, thorough ? 6 : 2);
            bool big = m > 2000;
            size_t k2 = big ? std::min<size_t>(ops.size(), 5) : ops.size(), k3 = std::min<size_t>(ops.size(), big ? 3 : 6);
            for (auto* o : un2) for (auto& a : ops) run_line(R->tag + "." + o, m, {a});
            for (auto* o : bin2) for (size_t i = 0; i < k2; ++i) for (size_t j = 0; j < k2; ++j) run_line(R->tag + "." + o, m, {ops[i], ops[j]});
            for (auto* o : ter2) for (size_t i = 0; i < k3; ++i) for (size_t j = 0; j < k3; ++j) for (size_t l = 0; l < k3; ++l)
                run_line(R->tag + "." + o, m, {ops[i], ops[j], ops[l]});
        }
    }
    // histories: random programs over a register file (sources may coincide; the destination never aliases a source)
    {
        std::vector<Z> hm;
        for (size_t i = 0; i < ms.size(); ++i)
            if (thorough || i + 3 >= ms.size() || i == 0 || i == ms.size() / 2) hm.push_back(ms[i]);
        int nprog = thorough ? 12 : 8, len = thorough ? 48 : 16;
        for (auto& m : hm) {
            std::vector<Z> ops = operands_for(R, m, g, 4);
            for (int t = 0; t < nprog; ++t) {
                std::vector<Z> args;
                for (int i = 0; i < 4; ++i) args.push_back(ops[g.below(ops.size())]);
                int L = 1 + (int)g.below(len);
                for (int i = 0; i < L; ++i) {
                    unsigned o = (unsigned)g.below(14), d = (unsigned)g.below(4);
                    unsigned src[3];
                    for (int j = 0; j < 3; ++j) { do { src[j] = (unsigned)g.below(4); } while (src[j] == d); }
                    args.push_back(Z((unsigned long)(o * 256 + d * 64 + src[0] * 16 + src[1] * 4 + src[2])));
                }
                run_line(R->tag + ".hist", m, args);
            }
        }
    }
}

// value grid of a source type (C04): limits, powers of two +-1, values around m and 2m, negatives
static Z src_lo(const std::string& s) {
    if (s == "s8") return -zpow2(7); if (s == "s16") return -zpow2(15); if (s == "s32") return -zpow2(31); if (s == "s64") return -zpow2(63);
    if (s == "f32") return -zpow2(127); if (s == "f64") return -zpow2(1000); if (s == "Z") return -zpow2(400);
    return 0;
}
static Z src_hi(const std::string& s) {
    if (s == "s8") return zpow2(7) - 1; if (s == "s16") return zpow2(15) - 1; if (s == "s32") return zpow2(31) - 1; if (s == "s64") return zpow2(63) - 1;
    if (s == "u8") return zpow2(8) - 1; if (s == "u16") return zpow2(16) - 1; if (s == "u32") return zpow2(32) - 1; if (s == "u64") return zpow2(64) - 1;
    if (s == "f32") return zpow2(127); if (s == "f64") return zpow2(1000);
    return zpow2(400);
}
static unsigned src_mant(const std::string& s) { return s == "f32" ? 24 : s == "f64" ? 53 : 0; }

static void gen_c04(RingBase* R, vp::Rng& g, bool thorough) {
    std::vector<Z> ms = moduli_for(R, g, false);
    if (!thorough && ms.size() > 14) {           // keep the extremes and a spread
        std::vector<Z> k;
        for (size_t i = 0; i < ms.size(); ++i) if (i < 4 || i + 5 > ms.size() || i % 3 == 0) k.push_back(ms[i]);
        ms = k;
    }
    for (auto& m : ms) {
        run_line(R->tag + ".consts", m, {});
        run_line(R->tag + ".card", m, {});
        if (!R->c04_only) {
            // the ring assigned onto a default-constructed ring and onto rings of other moduli
            run_line(R->tag + ".assign", m, {Z(0)});
            run_line(R->tag + ".assign", m, {ms.front()});
            run_line(R->tag + ".assign", m, {ms.back()});
            run_line(R->tag + ".assign", m, {ms[ms.size() / 2]});
            // non-integer doubles (k + 1/2): what the code defines for them is compared with the model where it has one
            for (auto& v : std::vector<Z>{1, -1, 3, -3, 2 * m + 1, -(2 * m + 1), 2 * m - 1, zpow2(40) + 1, -(zpow2(52) + 1), 4, -6})
                run_line(R->tag + ".init_f64h", m, {v});
        }
        for (auto& s : R->initSources()) {
            Z lo = src_lo(s), hi = src_hi(s);
            unsigned mant = src_mant(s);
            std::set<Z> vs;
            auto add = [&](Z v) {
                if (v < lo || v > hi) return;
                if (mant) {   // keep only exactly representable values: round to `mant` significant bits (toward zero)
                    size_t b = mpz_sizeinbase(v.get_mpz_t(), 2);
                    if (b > mant) { Z a = abs(v); a >>= (b - mant); a <<= (b - mant); v = v < 0 ? Z(-a) : a; }
                }
                vs.insert(v);
            };
            for (auto& v : std::vector<Z>{0, 1, 2, m - 1, m, m + 1, 2 * m - 1, 2 * m, 2 * m + 1, m / 2, m / 2 + 1, m * m, m * m - 1, 3 * m + 7,
                                          lo, lo + 1, hi, hi - 1, hi / 2, hi / 2 + 1})
            { add(v); add(-v); }
            for (unsigned k : {7u, 8u, 15u, 16u, 23u, 24u, 25u, 31u, 32u, 33u, 52u, 53u, 54u, 62u, 63u, 64u, 65u, 100u, 126u, 127u, 128u, 200u, 399u, 999u})
            { add(zpow2(k)); add(zpow2(k) - 1); add(zpow2(k) + 1); add(-zpow2(k)); add(-zpow2(k) + 1); add(-zpow2(k) - 1); }
            for (int i = 0; i < (thorough ? 12 : 3); ++i) {
                Z span = hi - lo + 1;
                Z v = lo + zrand_below(g, span);
                add(v);
                // a random value of random magnitude
                unsigned sh = (unsigned)g.below(mpz_sizeinbase(span.get_mpz_t(), 2));
                add(v >> sh);
            }
            for (auto& v : vs) run_line(R->tag + ".init_" + s, m, {v});
        }
        std::vector<Z> ops = operands_for(R, m, g, thorough ? 6 : 2);
        for (auto& t : R->convertTargets()) for (auto& e : ops) run_line(R->tag + ".convert_" + t, m, {e});
    }
}

static uint64_t fnv(const std::string& s) { uint64_t h = 1469598103934665603ULL; for (unsigned char c : s) { h ^= c; h *= 1099511628211ULL; } return h % 1000003; }

int main(int argc, char** argv) {
    register_all();
    // replay mode: lines on stdin
    vp::Args a;
    bool any = false;
    while (vp::read_line(std::cin, a)) {
        any = true;
        if (a.tok.size() < 2) { vp::emit(a, "BADLINE"); continue; }
        std::vector<Z> args;
        for (size_t i = 2; i < a.tok.size(); ++i) args.push_back(zparse(a.tok[i]));
        run_line(a.tok[0], zparse(a.tok[1]), args);
        fflush(stdout);
    }
    if (any) return 0;
    std::string prop = argc > 1 ? argv[1] : "C03";
    bool thorough = argc > 2 && !strcmp(argv[2], "thorough");
    uint64_t seed = argc > 3 ? strtoull(argv[3], nullptr, 10) : 1;
    const char* only = getenv("VERIF_RING");
    for (auto* R : RINGS) {
        if (only && R->tag != only) continue;
        vp::Rng g(seed * 0x9E3779B97F4A7C15ULL + fnv(R->tag));
        if (prop == "C03") { if (!R->c04_only) gen_c03(R, g, thorough); }
        else gen_c04(R, g, thorough);
        fflush(stdout);
    }
    return 0;
}
