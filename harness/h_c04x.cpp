// Correspondence harness for C04, round 2: init / convert / reduce / constants of the rings that are Z/p behind another
// representation, at the level of the STORED representation (so that the line-by-line models are compared, not only the residues):
//   Montgomery<int32_t>                 tags mgx32
//   Montgomery<RecInt::ruint<6|7|8>>    tags mgr6 mgr7 mgr8
//   GFqDom<int32_t> / GFqDom<int64_t>   tags gfx32 gfx64   (exponent k >= 1)
// Lines (all numbers hex, '-' prefix for negatives):
//   mg*.init_<src> p x      = raw conv          raw = stored word after init(e, (src)x); conv = convert(uint64/Integer, e)
//   mg*.rt_<src> p e        = lift raw          e a stored word < p: lift = convert(e), raw = init(e', (src)lift)   (init(convert e) = e)
//   mg*.consts p            = zero one mOne init0 conv(zero) conv(one) conv(mOne)
//   mg*.reduce p y          = reduce(x,y) reduce(y)
//   mg*.conv_<dst> p e      = convert((dst)&, e)
//   gfq*.init_<src> p k x   = r l2p c_s32 c_u32 c_s64 c_u64 c_f64 c_Z c_TT    r = element (index), l2p = _log2pol[r], c_* = convert to each target
//   gfq*.rt_<src> p k e     = lift r                                          lift = convert(int64, e), r = init((src)lift)
//   gfq*.consts p k         = zero one mOne l2p[zero] l2p[one] l2p[mOne] init() reduce(e=one) q
//   argv = <tier> <seed> : generate;   stdin lines "<key> <args…>" : run exactly those (replay)
#include "proto.h"
#include <gmpxx.h>
#include <cmath>
#include <cstring>
#include <limits>
#include <map>
#include <memory>
#include <set>
#include <type_traits>
#include <givaro/givinteger.h>
#include <recint/recint.h>
#include <givaro/montgomery.h>
#include <givaro/gfq.h>

using namespace Givaro;
typedef mpz_class Z;
typedef unsigned long long ull;

static std::string zhex(const Z& z) { return vp::hex(z.get_mpz_t()); }
static Z zparse(const std::string& s) { Z z; mpz_set_str(z.get_mpz_t(), s.c_str(), 16); return z; }
static Z zpow2(unsigned k) { Z z(1); z <<= k; return z; }

// ---- source values: exact conversion of an integer to the source type (false: not a value of the type)
template <class S, class = void> struct SrcIO;
template <class S> struct SrcIO<S, typename std::enable_if<std::is_integral<S>::value>::type> {
    static bool from(S& s, const Z& z) {
        Z lo, hi;
        if (std::is_signed<S>::value) { hi = zpow2(8 * sizeof(S) - 1) - 1; lo = -hi - 1; } else { lo = 0; hi = zpow2(8 * sizeof(S)) - 1; }
        if (z < lo || z > hi) return false;
        Z a = abs(z);
        ull m = 0;
        mpz_export(&m, nullptr, -1, 8, 0, 0, a.get_mpz_t());
        s = (S)(z < 0 ? 0ULL - m : m);
        return true;
    }
    static std::string to(const S& s) { return std::is_signed<S>::value ? vp::hex_ll((long long)s) : vp::hex_ull((ull)s); }
};
template <class S> struct SrcIO<S, typename std::enable_if<std::is_floating_point<S>::value>::type> {
    static bool from(S& s, const Z& z) {
        double d = z.get_d();
        s = (S)d;
        if (!std::isfinite(s)) return false;
        Z back; mpz_set_d(back.get_mpz_t(), (double)s);
        return back == z;
    }
    static std::string to(const S& s) {
        if (!std::isfinite(s) || std::floor(s) != s) return "NAI";
        Z z; mpz_set_d(z.get_mpz_t(), (double)s);
        return zhex(z);
    }
};
template <> struct SrcIO<Integer, void> {
    static bool from(Integer& e, const Z& z) { mpz_set(e.get_mpz(), z.get_mpz_t()); return true; }
    static std::string to(const Integer& e) { return vp::hex(e.get_mpz_const()); }
};

// dispatch on the source tag
template <class Fn> static std::string with_src(const std::string& s, Fn&& f) {
    if (s == "s8") return f(int8_t());   if (s == "u8") return f(uint8_t());
    if (s == "s16") return f(int16_t()); if (s == "u16") return f(uint16_t());
    if (s == "s32") return f(int32_t()); if (s == "u32") return f(uint32_t());
    if (s == "s64") return f(int64_t()); if (s == "u64") return f(uint64_t());
    if (s == "f32") return f(float());   if (s == "f64") return f(double());
    if (s == "Z") return f(Integer());
    return "NOSRC";
}
static const char* SRCS[] = {"s8", "u8", "s16", "u16", "s32", "u32", "s64", "u64", "f32", "f64", "Z"};

// ---- Montgomery<int32_t>
struct Mg32 {
    typedef Montgomery<int32_t> R;
    typedef uint32_t E;
    static Z maxCard() { return Z((unsigned long)R::maxCardinality()); }
    static Z radix() { return zpow2(32); }
    static R* make(const Z& p) { return new R((uint32_t)p.get_ui()); }
    static bool elt(E& e, const Z& z) { if (z < 0 || z >= zpow2(32)) return false; e = (E)z.get_ui(); return true; }
    static std::string raw(const E& e) { return vp::hex_ull(e); }
};
template <size_t K> struct MgR {
    typedef Montgomery<RecInt::ruint<K>> R;
    typedef RecInt::ruint<K> E;
    static Z maxCard() { return zpow2(1u << K) - 1; }
    static Z radix() { return zpow2(1u << K); }
    static R* make(const Z& p) { E pp; RecInt::mpz_to_ruint(pp, p); return new R(pp); }
    static bool elt(E& e, const Z& z) { if (z < 0 || z >= zpow2(1u << K)) return false; RecInt::mpz_to_ruint(e, z); return true; }
    static std::string raw(const E& e) { Z z; RecInt::ruint_to_mpz(z, e); return zhex(z); }
};

struct RingX {
    std::string tag;
    bool is_gfq = false;
    virtual ~RingX() {}
    virtual std::string run(const std::string& op, const std::vector<Z>& a) = 0;
    virtual Z maxCard() const = 0;
};

template <class H> struct MontX : RingX {
    typedef typename H::R R;
    typedef typename H::E E;
    std::unique_ptr<R> F;
    Z m;
    Z maxCard() const override { return H::maxCard(); }
    bool setModulus(const Z& p) {
        if (F && m == p) return true;
        if (p < 3 || p > H::maxCard() || p % 2 == 0) return false;
        F.reset(H::make(p)); m = p;
        return true;
    }
    std::string conv(const E& e) { Integer c; F->convert(c, e); return vp::hex(c.get_mpz_const()); }
    std::string run(const std::string& op, const std::vector<Z>& a) override {
        if (a.empty()) return "NOARGS";
        if (!setModulus(a[0])) return "NOMOD";
        if (op == "consts") {
            E e; F->init(e);
            return H::raw(F->zero) + " " + H::raw(F->one) + " " + H::raw(F->mOne) + " " + H::raw(e) + " " + conv(F->zero) + " " + conv(F->one) + " " + conv(F->mOne);
        }
        if (a.size() < 2) return "NOARGS";
        if (op == "reduce") {
            E y, x, z;
            if (!H::elt(y, a[1])) return "NOELT";
            F->reduce(x, y); z = y; F->reduce(z);
            return H::raw(x) + " " + H::raw(z);
        }
        if (op.compare(0, 5, "init_") == 0)
            return with_src(op.substr(5), [&](auto tagv) -> std::string {
                typedef decltype(tagv) S;
                S s;
                if (!SrcIO<S>::from(s, a[1])) return "NOSRC";
                E e; F->init(e);
                F->init(e, s);
                return H::raw(e) + " " + conv(e);
            });
        if (op.compare(0, 3, "rt_") == 0)
            return with_src(op.substr(3), [&](auto tagv) -> std::string {
                typedef decltype(tagv) S;
                E e;
                if (!H::elt(e, a[1]) || a[1] >= m) return "NOELT";
                S s; F->convert(s, e);
                E r; F->init(r); F->init(r, s);
                return SrcIO<S>::to(s) + " " + H::raw(r);
            });
        if (op.compare(0, 5, "conv_") == 0)
            return with_src(op.substr(5), [&](auto tagv) -> std::string {
                typedef decltype(tagv) S;
                E e;
                if (!H::elt(e, a[1]) || a[1] >= m) return "NOELT";
                S s; F->convert(s, e);
                return SrcIO<S>::to(s);
            });
        return "NOOP";
    }
};

// ---- GFqDom
template <class TT> struct OpenGF : public GFqDom<TT> {
    using GFqDom<TT>::GFqDom;
    using GFqDom<TT>::_log2pol;
    using GFqDom<TT>::_pol2log;
};
template <class TT> struct GfqX : RingX {
    typedef OpenGF<TT> R;
    typedef typename R::Element E;
    typedef typename R::Residu_t UTT;
    std::unique_ptr<R> F;
    Z P, K, Q;
    GfqX() { is_gfq = true; }
    Z maxCard() const override { return Z((unsigned long)R::maxCardinality()); }
    bool setField(const Z& p, const Z& k) {
        if (F && P == p && K == k) return true;
        if (p < 2 || k < 1 || k > 40 || mpz_probab_prime_p(p.get_mpz_t(), 30) == 0) return false;
        Z q = 1;
        for (unsigned i = 0; i < k.get_ui(); ++i) { q *= p; if (q > maxCard() || q > 1100000) return false; }   // tables of at most ~10^6 entries
        F.reset(new R((UTT)p.get_ui(), (UTT)k.get_ui())); P = p; K = k; Q = q;
        return true;
    }
    std::string l2p(const E& e) { ull i = (ull)e; return i < F->_log2pol.size() ? vp::hex_ull((ull)F->_log2pol[i]) : std::string("OOB"); }
    std::string run(const std::string& op, const std::vector<Z>& a) override {
        if (a.size() < 2) return "NOARGS";
        if (!setField(a[0], a[1])) return "NOMOD";
        if (op == "consts") {
            E e = F->one; F->init(e);
            E o = F->one, rr; F->reduce(rr, o); F->reduce(o);
            return vp::hex_ll((long long)F->zero) + " " + vp::hex_ll((long long)F->one) + " " + vp::hex_ll((long long)F->mOne) + " " + l2p(F->zero) + " " + l2p(F->one) + " " +
                   l2p(F->mOne) + " " + vp::hex_ll((long long)e) + " " + vp::hex_ll((long long)rr) + " " + vp::hex_ull((ull)F->cardinality());
        }
        if (a.size() < 3) return "NOARGS";
        if (op.compare(0, 5, "init_") == 0)
            return with_src(op.substr(5), [&](auto tagv) -> std::string {
                typedef decltype(tagv) S;
                S s;
                if (!SrcIO<S>::from(s, a[2])) return "NOSRC";
                E e; F->init(e);
                F->init(e, s);
                if ((ull)e >= F->_log2pol.size()) return vp::hex_ll((long long)e) + " OOB";
                int32_t c1; uint32_t c2; int64_t c3; uint64_t c4; double c5; Integer c6;
                F->convert(c1, e); F->convert(c2, e); F->convert(c3, e); F->convert(c4, e); F->convert(c5, e); F->convert(c6, e);
                TT c7 = F->convert(e);
                return vp::hex_ll((long long)e) + " " + l2p(e) + " " + vp::hex_ll(c1) + " " + vp::hex_ull(c2) + " " + vp::hex_ll(c3) + " " + vp::hex_ull(c4) + " " +
                       SrcIO<double>::to(c5) + " " + vp::hex(c6.get_mpz_const()) + " " + vp::hex_ll((long long)c7);
            });
        if (op.compare(0, 3, "rt_") == 0)
            return with_src(op.substr(3), [&](auto tagv) -> std::string {
                typedef decltype(tagv) S;
                if (a[2] < 0 || a[2] >= Q) return "NOELT";
                E e = (E)a[2].get_ui();
                int64_t lift; F->convert(lift, e);
                S s;
                if (!SrcIO<S>::from(s, Z((long)lift))) return "NOSRC";
                E r; F->init(r); F->init(r, s);
                return vp::hex_ll(lift) + " " + vp::hex_ll((long long)r);
            });
        return "NOOP";
    }
};

// ------------------------------------------------------------------------------------------
static std::vector<RingX*> RINGS;
static void register_all() {
    { auto* r = new MontX<Mg32>(); r->tag = "mgx32"; RINGS.push_back(r); }
    { auto* r = new MontX<MgR<6>>(); r->tag = "mgr6"; RINGS.push_back(r); }
    { auto* r = new MontX<MgR<7>>(); r->tag = "mgr7"; RINGS.push_back(r); }
    { auto* r = new MontX<MgR<8>>(); r->tag = "mgr8"; RINGS.push_back(r); }
    { auto* r = new GfqX<int32_t>(); r->tag = "gfx32"; RINGS.push_back(r); }
    { auto* r = new GfqX<int64_t>(); r->tag = "gfx64"; RINGS.push_back(r); }
}
static RingX* find_ring(const std::string& tag) { for (auto* r : RINGS) if (r->tag == tag) return r; return nullptr; }

static void run_line(const std::string& key, const std::vector<Z>& args) {
    size_t dot = key.find('.');
    std::string line = key;
    for (auto& z : args) { line += ' '; line += zhex(z); }
    std::string res;
    RingX* R = dot == std::string::npos ? nullptr : find_ring(key.substr(0, dot));
    if (!R) res = "NORING";
    else { try { res = R->run(key.substr(dot + 1), args); } catch (...) { res = "EXC"; } }
    line += " = "; line += res; line += '\n';
    fputs(line.c_str(), stdout);
}

// ---- generators
static Z zrand_bits(vp::Rng& g, unsigned bits) {
    Z r = 0;
    for (unsigned i = 0; i < bits; i += 64) { r <<= 64; Z w; mpz_set_ui(w.get_mpz_t(), (unsigned long)g.next()); r += w; }
    r >>= ((bits + 63) / 64 * 64 - bits);
    return r;
}
static Z src_lo(const std::string& s) {
    if (s == "s8") return -zpow2(7); if (s == "s16") return -zpow2(15); if (s == "s32") return -zpow2(31); if (s == "s64") return -zpow2(63);
    if (s == "f32") return -zpow2(127); if (s == "f64") return -zpow2(1000); if (s == "Z") return -zpow2(600);
    return 0;
}
static Z src_hi(const std::string& s) {
    if (s == "s8") return zpow2(7) - 1; if (s == "s16") return zpow2(15) - 1; if (s == "s32") return zpow2(31) - 1; if (s == "s64") return zpow2(63) - 1;
    if (s == "u8") return zpow2(8) - 1; if (s == "u16") return zpow2(16) - 1; if (s == "u32") return zpow2(32) - 1; if (s == "u64") return zpow2(64) - 1;
    if (s == "f32") return zpow2(127); if (s == "f64") return zpow2(1000);
    return zpow2(600);
}
static unsigned src_mant(const std::string& s) { return s == "f32" ? 24 : s == "f64" ? 53 : 0; }

// the boundary grid of one source type around a modulus m (and a second scale q2, e.g. the radix)
static std::vector<Z> source_grid(const std::string& s, const Z& m, const Z& q2, vp::Rng& g, int nrand) {
    Z lo = src_lo(s), hi = src_hi(s);
    unsigned mant = src_mant(s);
    std::set<Z> vs;
    auto add = [&](Z v) {
        if (v < lo || v > hi) return;
        if (mant) {
            size_t b = mpz_sizeinbase(v.get_mpz_t(), 2);
            if (b > mant) { Z a = abs(v); a >>= (b - mant); a <<= (b - mant); v = v < 0 ? Z(-a) : a; }
        }
        vs.insert(v);
    };
    for (auto& v : std::vector<Z>{0, 1, 2, m - 1, m, m + 1, 2 * m - 1, 2 * m, 2 * m + 1, m / 2, m / 2 + 1, m * m, m * m - 1, m * m + 1, 3 * m + 7, 65535 * m, 65536 * m + 1,
                                  lo, lo + 1, hi, hi - 1, hi / 2, hi / 2 + 1, q2 - 1, q2, q2 + 1, q2 - m, q2 + m, q2 * q2, q2 * q2 - 1})
    { add(v); add(-v); }
    for (unsigned k : {7u, 8u, 15u, 16u, 23u, 24u, 25u, 31u, 32u, 33u, 47u, 48u, 49u, 52u, 53u, 54u, 62u, 63u, 64u, 65u, 100u, 126u, 127u, 128u, 129u, 200u, 255u, 256u, 257u, 511u, 512u, 599u, 999u})
    { add(zpow2(k)); add(zpow2(k) - 1); add(zpow2(k) + 1); add(-zpow2(k)); add(-zpow2(k) + 1); add(-zpow2(k) - 1); }
    unsigned span_bits = (unsigned)mpz_sizeinbase(Z(hi - lo + 1).get_mpz_t(), 2);
    for (int i = 0; i < nrand; ++i) {
        Z v = zrand_bits(g, 1 + (unsigned)g.below(span_bits));
        add(v); add(-v);
        add(v - v % m); add(-(v - v % m));          // exact multiples of the modulus
    }
    return std::vector<Z>(vs.begin(), vs.end());
}

static void gen_mont(RingX* R, vp::Rng& g, bool thorough) {
    Z hi = R->maxCard();
    Z radix = R->tag == "mgx32" ? zpow2(16) : Z(hi + 1);
    std::set<Z> ms;
    auto addm = [&](Z v) { if (v % 2 == 0) v -= 1; if (v >= 3 && v <= hi) ms.insert(v); };
    for (long v : {3, 5, 7, 9, 15, 101, 255, 257, 32749, 32767, 32769, 40499}) if (thorough || v == 3 || v == 7 || v == 101 || v == 32769) addm(Z(v));
    for (int i = 0; i < (thorough ? 4 : 2); ++i) addm(hi - 2 * i);
    addm(hi / 2); addm(hi / 2 + 2);
    if (R->tag != "mgx32") { addm(zpow2(63) - 25); addm(zpow2(64) - 59); addm(zpow2(64) + 13); addm(zpow2(32) + 15); if (thorough) { addm(zpow2(31) - 1); addm(hi - zpow2(64)); } }
    unsigned hb = (unsigned)mpz_sizeinbase(hi.get_mpz_t(), 2);
    for (int i = 0; i < (thorough ? 6 : 2); ++i) addm(zrand_bits(g, 2 + (unsigned)g.below(hb - 1)));
    for (auto& m : ms) {
        run_line(R->tag + ".consts", {m});
        for (auto* s : SRCS) {
            for (auto& v : source_grid(s, m, radix, g, thorough ? 10 : 3)) {
                // Montgomery<int32_t>: the template's contract ("T is supposed to be fit into an Element") excludes float beyond 2^32
                if (R->tag == "mgx32" && !strcmp(s, "f32") && abs(v) >= zpow2(32)) continue;
                run_line(R->tag + ".init_" + s, {m, v});
            }
        }
        // stored words: init(convert(e)) = e, reduce, convert to every type
        std::set<Z> es;
        for (auto& v : std::vector<Z>{0, 1, 2, m - 1, m - 2, m / 2, m / 2 + 1}) if (v >= 0 && v < m) es.insert(v);
        for (int i = 0; i < (thorough ? 6 : 2); ++i) es.insert(zrand_bits(g, hb + 8) % m);
        for (auto& e : es) for (auto* s : SRCS) { run_line(R->tag + ".rt_" + s, {m, e}); run_line(R->tag + ".conv_" + s, {m, e}); }
        std::set<Z> ys(es.begin(), es.end());
        Z top = R->tag == "mgx32" ? zpow2(32) : Z(hi + 1);
        for (auto& v : std::vector<Z>{m, m + 1, 2 * m, 2 * m + 1, m * m, top - 1, top - 2, top / 2, top / 2 - 1}) if (v >= 0 && v < top) ys.insert(v);
        for (int i = 0; i < (thorough ? 6 : 2); ++i) ys.insert(zrand_bits(g, hb + 8) % top);
        for (auto& y : ys) run_line(R->tag + ".reduce", {m, y});
    }
}

static void gen_gfq(RingX* R, vp::Rng& g, bool thorough) {
    bool w64 = R->tag == "gfx64";
    // (p, k): prime fields up to the maximum the storage type allows (tables <= ~10^6 entries), extension fields of every small shape
    std::vector<std::pair<long, long>> fs = {{2, 1}, {3, 1}, {5, 1}, {7, 1}, {101, 1}, {257, 1}, {32749, 1}, {65521, 1},
                                             {2, 2}, {2, 3}, {3, 2}, {2, 8}, {3, 5}, {5, 3}, {7, 2}, {2, 16}, {251, 2}, {13, 4}};
    if (w64) { fs.push_back({65537, 1}); fs.push_back({1048573, 1}); fs.push_back({2, 20}); fs.push_back({1021, 2}); fs.push_back({3, 12}); }
    if (thorough) { fs.push_back({11, 1}); fs.push_back({2, 4}); fs.push_back({2, 10}); fs.push_back({3, 3}); fs.push_back({3, 10}); fs.push_back({11, 3}); fs.push_back({17, 2}); fs.push_back({127, 2}); fs.push_back({4093, 1});
                    if (w64) { fs.push_back({101, 3}); fs.push_back({524287, 1}); fs.push_back({31, 4}); } }
    for (auto& f : fs) {
        Z p(f.first), k(f.second), q = 1;
        for (long i = 0; i < f.second; ++i) q *= p;
        run_line(R->tag + ".consts", {p, k});
        for (auto* s : SRCS)
            for (auto& v : source_grid(s, q, p, g, thorough ? 8 : 2)) run_line(R->tag + ".init_" + s, {p, k, v});
        std::set<Z> es;
        for (auto& v : std::vector<Z>{0, 1, 2, q - 1, q - 2, q / 2, p - 1, p, p + 1}) if (v >= 0 && v < q) es.insert(v);
        for (int i = 0; i < (thorough ? 8 : 3); ++i) es.insert(zrand_bits(g, 40) % q);
        if (q <= 64 || (thorough && q <= 1024)) for (Z e = 0; e < q; ++e) es.insert(e);
        for (auto& e : es) for (auto* s : SRCS) run_line(R->tag + ".rt_" + s, {p, k, e});
    }
}

static uint64_t fnv(const std::string& s) { uint64_t h = 1469598103934665603ULL; for (unsigned char c : s) { h ^= c; h *= 1099511628211ULL; } return h % 1000003; }

int main(int argc, char** argv) {
    register_all();
    vp::Args a;
    bool any = false;
    while (vp::read_line(std::cin, a)) {
        any = true;
        std::vector<Z> args;
        for (size_t i = 1; i < a.tok.size(); ++i) args.push_back(zparse(a.tok[i]));
        run_line(a.tok[0], args);
        fflush(stdout);
    }
    if (any) return 0;
    bool thorough = argc > 1 && !strcmp(argv[1], "thorough");
    uint64_t seed = argc > 2 ? strtoull(argv[2], nullptr, 10) : 1;
    const char* only = getenv("VERIF_RING");
    for (auto* R : RINGS) {
        if (only && R->tag != only) continue;
        vp::Rng g(seed * 0x9E3779B97F4A7C15ULL + fnv(R->tag));
        if (R->is_gfq) gen_gfq(R, g, thorough); else gen_mont(R, g, thorough);
        fflush(stdout);
    }
    return 0;
}
