// Correspondence harness for C10 (rationals are exact, canonical and totally ordered).
//
// Calls the real Givaro::Rational / QField<Rational> code in-process and prints one line per case
//     <key> <red> <args...> = <results...>        (numbers in hex, '-' prefix; "EXC" when the call threw)
// <red> = 1: default reduction mode (Rational::SetReduce), operands are canonical pairs;
// <red> = 0: Rational::SetNoReduce, operands are arbitrary pairs with a positive denominator.
// Operands are installed *directly into the protected members* (derived accessor class), so no
// constructor under test is involved in building an input.
//
//   argv = <tier> <seed>   : generate the structured case set of the tier (every random choice from the seed)
//   stdin lines            : run exactly those cases (replay)
#include "proto.h"
#include <gmp++/gmp++.h>
#include <givaro/givrational.h>
#include <givaro/qfield.h>
#include <cstring>
#include <functional>
#include <map>
#include <sstream>
#include <linux/hw_breakpoint.h>
#include <linux/perf_event.h>
#include <sys/syscall.h>
#include <unistd.h>

using namespace Givaro;

struct RA : Rational {
    RA(const Integer& n, const Integer& d) : Rational() { num = n; den = d; }
    static void initEnd() { Rational::Init(nullptr, nullptr); Rational::End(); }   // the (empty) module hooks
    static int mode() { return (int)flags; }                  // the process-wide reduction mode, as the library sees it
    static const void* modeAddr() { return &flags; }
};

// Hardware write watchpoint on Rational::flags: counts every machine-level store to the mode, so that a call which
// changes the mode temporarily and restores it (invisible in any input/output behaviour) is still seen.
static int WFD = -1;
static void watch_init() {
    if (getenv("C10_NOWATCH")) return;
    struct perf_event_attr pe;
    memset(&pe, 0, sizeof pe);
    pe.type = PERF_TYPE_BREAKPOINT;
    pe.size = sizeof pe;
    pe.bp_type = HW_BREAKPOINT_W;
    pe.bp_addr = (uint64_t)(uintptr_t)RA::modeAddr();
    pe.bp_len = HW_BREAKPOINT_LEN_4;
    pe.exclude_kernel = 1;
    pe.exclude_hv = 1;
    WFD = (int)syscall(SYS_perf_event_open, &pe, 0, -1, -1, 0);
}
static long long watch_count() {
    if (WFD < 0) return -1;
    uint64_t c = 0;
    if (read(WFD, &c, sizeof c) != (ssize_t)sizeof c) return -1;
    return (long long)c;
}

// constructed on first use (after the library's own static Integer constants)
static QField<Rational>& QQf() { static QField<Rational> q; return q; }
#define QQ QQf()

struct A : vp::Args {
    Integer Z(size_t i) const {
        Integer r;
        mpz_set_str(r.get_mpz(), s(i).c_str(), 16);
        return r;
    }
    Rational Q(size_t i) const { return RA(Z(i), Z(i + 1)); }
};
struct O : vp::Out {
    void Z(const Integer& x) { mpz(x.get_mpz_const()); }
    void Q(const Rational& x) { Z(x.nume()); Z(x.deno()); }
    void I(long long v) { raw(vp::hex_ll(v)); }
};

static double mkdouble(const A& a, size_t i) {
    uint64_t bits = (a.W(i) << 63) | (a.W(i + 1) << 52) | a.W(i + 2);
    double x;
    memcpy(&x, &bits, sizeof x);
    return x;
}
static std::string decode(const std::string& t) {   // '_' stands for a blank, '~' for the empty string
    std::string r;
    for (char c : t) if (c == '_') r += ' '; else if (c != '~') r += c;
    return r;
}

typedef std::function<void(const A&, O&)> Fn;
// argument 0 is always the reduction flag; operands start at 1
#define QA a.Q(1)
#define QB a.Q(3)
#define QC a.Q(5)
static const std::map<std::string, Fn> TABLE = {
    // ---- value-returning operators
    {"add",   [](const A& a, O& o) { o.Q(QA + QB); }},
    {"sub",   [](const A& a, O& o) { o.Q(QA - QB); }},
    {"mul",   [](const A& a, O& o) { o.Q(QA * QB); }},
    {"div",   [](const A& a, O& o) { o.Q(QA / QB); }},
    {"neg",   [](const A& a, O& o) { o.Q(-QA); }},
    {"pos",   [](const A& a, O& o) { o.Q(+QA); }},
    {"abs",   [](const A& a, O& o) { o.Q(abs(QA)); }},
    // ---- in-place operators (destination distinct from the operand: identity alias map)
    {"addin", [](const A& a, O& o) { Rational r = QA; const Rational b = QB; r += b; o.Q(r); }},
    {"subin", [](const A& a, O& o) { Rational r = QA; const Rational b = QB; r -= b; o.Q(r); }},
    {"mulin", [](const A& a, O& o) { Rational r = QA; const Rational b = QB; r *= b; o.Q(r); }},
    {"divin", [](const A& a, O& o) { Rational r = QA; const Rational b = QB; r /= b; o.Q(r); }},
    // ---- mixed forms with int (givrational.inl)
    {"addi",  [](const A& a, O& o) { o.Q(QA + (int)a.SW(3)); }},
    {"subi",  [](const A& a, O& o) { o.Q(QA - (int)a.SW(3)); }},
    {"muli",  [](const A& a, O& o) { o.Q(QA * (int)a.SW(3)); }},
    {"divi",  [](const A& a, O& o) { o.Q(QA / (int)a.SW(3)); }},
    {"iadd",  [](const A& a, O& o) { o.Q((int)a.SW(3) + QA); }},
    {"isub",  [](const A& a, O& o) { o.Q((int)a.SW(3) - QA); }},
    {"imul",  [](const A& a, O& o) { o.Q((int)a.SW(3) * QA); }},
    {"idiv",  [](const A& a, O& o) { o.Q((int)a.SW(3) / QA); }},
    // ---- field interface (QField<Rational>); destination is a fresh element
    {"fadd",  [](const A& a, O& o) { Rational r(5, 7); const Rational x = QA, y = QB; QQ.add(r, x, y); o.Q(r); }},
    {"fsub",  [](const A& a, O& o) { Rational r(5, 7); const Rational x = QA, y = QB; QQ.sub(r, x, y); o.Q(r); }},
    {"fmul",  [](const A& a, O& o) { Rational r(5, 7); const Rational x = QA, y = QB; QQ.mul(r, x, y); o.Q(r); }},
    {"fdiv",  [](const A& a, O& o) { Rational r(5, 7); const Rational x = QA, y = QB; QQ.div(r, x, y); o.Q(r); }},
    {"faddin", [](const A& a, O& o) { Rational r = QA; const Rational y = QB; QQ.addin(r, y); o.Q(r); }},
    {"fsubin", [](const A& a, O& o) { Rational r = QA; const Rational y = QB; QQ.subin(r, y); o.Q(r); }},
    {"fmulin", [](const A& a, O& o) { Rational r = QA; const Rational y = QB; QQ.mulin(r, y); o.Q(r); }},
    {"fdivin", [](const A& a, O& o) { Rational r = QA; const Rational y = QB; QQ.divin(r, y); o.Q(r); }},
    {"faxpy",  [](const A& a, O& o) { Rational r(5, 7); const Rational x = QA, y = QB, z = QC; QQ.axpy(r, x, y, z); o.Q(r); }},
    {"fmaxpy", [](const A& a, O& o) { Rational r(5, 7); const Rational x = QA, y = QB, z = QC; QQ.maxpy(r, x, y, z); o.Q(r); }},
    {"faxmy",  [](const A& a, O& o) { Rational r(5, 7); const Rational x = QA, y = QB, z = QC; QQ.axmy(r, x, y, z); o.Q(r); }},
    // in-place fused forms: r is operand 1, a and b operands 2 and 3
    {"faxpyin",  [](const A& a, O& o) { Rational r = QA; const Rational x = QB, y = QC; QQ.axpyin(r, x, y); o.Q(r); }},
    {"fmaxpyin", [](const A& a, O& o) { Rational r = QA; const Rational x = QB, y = QC; QQ.maxpyin(r, x, y); o.Q(r); }},
    {"faxmyin",  [](const A& a, O& o) { Rational r = QA; const Rational x = QB, y = QC; QQ.axmyin(r, x, y); o.Q(r); }},
    {"fneg",   [](const A& a, O& o) { Rational r(5, 7); const Rational x = QA; QQ.neg(r, x); o.Q(r); }},
    {"fnegin", [](const A& a, O& o) { Rational r = QA; QQ.negin(r); o.Q(r); }},
    {"finv",   [](const A& a, O& o) { Rational r(5, 7); const Rational x = QA; QQ.inv(r, x); o.Q(r); }},
    {"finvin", [](const A& a, O& o) { Rational r = QA; QQ.invin(r); o.Q(r); }},
    {"fassign", [](const A& a, O& o) { Rational r(5, 7); const Rational x = QA; QQ.assign(r, x); o.Q(r); }},
    {"fget_num", [](const A& a, O& o) { const Rational x = QA; Integer n; QQ.get_num(n, x); o.Z(n); }},
    {"fget_den", [](const A& a, O& o) { const Rational x = QA; Integer d; QQ.get_den(d, x); o.Z(d); }},
    {"nume",   [](const A& a, O& o) { const Rational x = QA; o.Z(x.nume()); }},
    {"deno",   [](const A& a, O& o) { const Rational x = QA; o.Z(x.deno()); }},
    // the same object on both sides (guards added by 7655b35 / 8f9d69f / 69bebbc)
    {"addself",  [](const A& a, O& o) { Rational r = QA; r += r; o.Q(r); }},
    {"subself",  [](const A& a, O& o) { Rational r = QA; r -= r; o.Q(r); }},
    {"finvself", [](const A& a, O& o) { Rational r = QA; QQ.inv(r, r); o.Q(r); }},
    // ---- powers
    {"powi",   [](const A& a, O& o) { o.Q(pow(QA, (int64_t)a.SW(3))); }},
    {"powu32", [](const A& a, O& o) { o.Q(pow(QA, (uint32_t)a.W(3))); }},
    {"powu64", [](const A& a, O& o) { o.Q(pow(QA, (uint64_t)a.W(3))); }},
    {"fpowu32", [](const A& a, O& o) { Rational r(5, 7); const Rational x = QA; QQ.pow(r, x, (uint32_t)a.W(3)); o.Q(r); }},
    {"fpowu64", [](const A& a, O& o) { Rational r(5, 7); const Rational x = QA; QQ.pow(r, x, (uint64_t)a.W(3)); o.Q(r); }},
    // ---- rounding to Integer
    {"floor",  [](const A& a, O& o) { o.Z(floor(QA)); }},
    {"ceil",   [](const A& a, O& o) { o.Z(ceil(QA)); }},
    {"round",  [](const A& a, O& o) { o.Z(round(QA)); }},
    {"trunc",  [](const A& a, O& o) { o.Z(trunc(QA)); }},
    // ---- order
    {"lt", [](const A& a, O& o) { o.I(Givaro::operator<(QA, QB) ? 1 : 0); }},
    {"gt", [](const A& a, O& o) { o.I(Givaro::operator>(QA, QB) ? 1 : 0); }},
    {"le", [](const A& a, O& o) { o.I(Givaro::operator<=(QA, QB) ? 1 : 0); }},
    {"ge", [](const A& a, O& o) { o.I(Givaro::operator>=(QA, QB) ? 1 : 0); }},
    {"eq", [](const A& a, O& o) { o.I(Givaro::operator==(QA, QB) ? 1 : 0); }},
    {"ne", [](const A& a, O& o) { o.I(Givaro::operator!=(QA, QB) ? 1 : 0); }},
    {"compare",    [](const A& a, O& o) { o.I(compare(QA, QB)); }},       // only the sign is specified
    {"absCompare", [](const A& a, O& o) { o.I(absCompare(QA, QB)); }},    // only the sign is specified
    {"fareEqual",  [](const A& a, O& o) { o.I(QQ.areEqual(QA, QB) ? 1 : 0); }},
    {"fareNEqual", [](const A& a, O& o) { o.I(QQ.areNEqual(QA, QB) ? 1 : 0); }},
    {"fisZero", [](const A& a, O& o) { o.I(QQ.isZero(QA) ? 1 : 0); }},
    {"fisOne",  [](const A& a, O& o) { o.I(QQ.isOne(QA) ? 1 : 0); }},
    {"fisMOne", [](const A& a, O& o) { o.I(QQ.isMOne(QA) ? 1 : 0); }},
    {"fisUnit", [](const A& a, O& o) { o.I(QQ.isUnit(QA) ? 1 : 0); }},
    {"fsign",   [](const A& a, O& o) { o.I(QQ.sign(QA)); }},
    {"isZero",  [](const A& a, O& o) { o.I(isZero(QA) ? 1 : 0); }},
    {"isOne",   [](const A& a, O& o) { o.I(isOne(QA) ? 1 : 0); }},
    {"isMOne",  [](const A& a, O& o) { o.I(isMOne(QA) ? 1 : 0); }},
    {"isInteger", [](const A& a, O& o) { o.I(isInteger(QA) ? 1 : 0); }},
    {"sign",    [](const A& a, O& o) { o.I(sign(QA)); }},
    // ---- construction
    {"c_neutral", [](const A& a, O& o) { o.Q(a.W(1) ? Rational(Neutral::one) : Rational(Neutral::zero)); }},
    {"c_i32", [](const A& a, O& o) { o.Q(Rational((int32_t)a.SW(1))); }},
    {"c_u32", [](const A& a, O& o) { o.Q(Rational((uint32_t)a.W(1))); }},
    {"c_i64", [](const A& a, O& o) { o.Q(Rational((int64_t)a.SW(1))); }},
    {"c_u64", [](const A& a, O& o) { o.Q(Rational((uint64_t)a.W(1))); }},
    {"c2_i32", [](const A& a, O& o) { o.Q(Rational((int32_t)a.SW(1), (int32_t)a.SW(2))); }},
    {"c2_u32", [](const A& a, O& o) { o.Q(Rational((uint32_t)a.W(1), (uint32_t)a.W(2))); }},
    {"c2_i64", [](const A& a, O& o) { o.Q(Rational((int64_t)a.SW(1), (int64_t)a.SW(2))); }},
    {"c2_u64", [](const A& a, O& o) { o.Q(Rational((uint64_t)a.W(1), (uint64_t)a.W(2))); }},
    {"c_Z",   [](const A& a, O& o) { o.Q(Rational(a.Z(1))); }},
    {"c2_Z",  [](const A& a, O& o) { o.Q(Rational(a.Z(1), a.Z(2))); }},
    {"c3_Z",  [](const A& a, O& o) { o.Q(Rational(a.Z(1), a.Z(2), (int)a.SW(3))); }},
    {"c_dbl", [](const A& a, O& o) { o.Q(Rational(mkdouble(a, 1))); }},
    {"c_str", [](const A& a, O& o) { std::string s = decode(a.s(1)); o.Q(Rational(s.c_str())); }},
    {"c_copyctor", [](const A& a, O& o) { const Rational x = QA; Rational y(x); o.Q(y); }},
    {"c_assign",   [](const A& a, O& o) { const Rational x = QA; Rational z(5, 7); z = x; o.Q(z); }},
    {"c_copy",     [](const A& a, O& o) { const Rational x = QA; Rational z(5, 7); z.copy(x); o.Q(z); }},
    {"c_logcpy",   [](const A& a, O& o) { const Rational x = QA; Rational z(5, 7); z.logcpy(x); o.Q(z); }},
    {"c_noinit",   [](const A& a, O& o) { Rational z((givNoInit())); o.Q(z); }},
    {"c_default",  [](const A& a, O& o) { Rational z; o.Q(z); }},
    {"c_initend",  [](const A& a, O& o) { RA::initEnd(); Rational z; o.Q(z); }},
    {"finit0",     [](const A& a, O& o) { Rational r = QA; QQ.init(r); o.Q(r); }},
    {"c_zero",  [](const A& a, O& o) { o.Q(Rational::zero); }},
    {"c_one",   [](const A& a, O& o) { o.Q(Rational::one); }},
    {"c_mone",  [](const A& a, O& o) { o.Q(Rational::mOne); }},
    {"fc_zero", [](const A& a, O& o) { QField<Rational> F; o.Q(F.zero); }},
    {"fc_one",  [](const A& a, O& o) { QField<Rational> F; o.Q(F.one); }},
    {"fc_mone", [](const A& a, O& o) { QField<Rational> F; o.Q(F.mOne); }},
    {"fread",   [](const A& a, O& o) { std::istringstream in(decode(a.s(1))); Rational r(5, 7); QQ.read(in, r); o.Q(r); }},
    // ---- conversions out of Q
    {"to_i64", [](const A& a, O& o) { const Rational x = QA; o.I((int64_t)x); }},
    {"to_u64", [](const A& a, O& o) { const Rational x = QA; o.raw(vp::hex_ull((uint64_t)x)); }},
    {"to_i32", [](const A& a, O& o) { const Rational x = QA; o.I((int)x); }},
    {"to_u32", [](const A& a, O& o) { const Rational x = QA; o.raw(vp::hex_ull((uint32_t)x)); }},
    {"to_i16", [](const A& a, O& o) { const Rational x = QA; o.I((short)x); }},
    {"to_u16", [](const A& a, O& o) { const Rational x = QA; o.raw(vp::hex_ull((uint16_t)x)); }},
    {"to_i8",  [](const A& a, O& o) { const Rational x = QA; o.I((signed char)x); }},
    {"to_u8",  [](const A& a, O& o) { const Rational x = QA; o.raw(vp::hex_ull((uint8_t)x)); }},
    {"to_dbl", [](const A& a, O& o) { const Rational x = QA; double d = (double)x; uint64_t b; memcpy(&b, &d, 8); o.raw(vp::hex_ull(b)); }},
    {"to_flt", [](const A& a, O& o) { const Rational x = QA; float f = (float)x; uint32_t b; memcpy(&b, &f, 4); o.raw(vp::hex_ull(b)); }},
    {"to_str", [](const A& a, O& o) { const Rational x = QA; o.raw(std::string(x)); }},
    {"fwrite", [](const A& a, O& o) { const Rational x = QA; std::ostringstream os; QQ.write(os, x); o.raw(os.str()); }},
    {"print",  [](const A& a, O& o) { const Rational x = QA; std::ostringstream os; os << x; o.raw(os.str()); }},
    {"fsig",   [](const A& a, O& o) { std::ostringstream os; QQ.write(os); std::istringstream is(os.str()); QField<Rational> F; F.read(is); o.raw(os.str()); }},
    {"modz",   [](const A& a, O& o) { const Rational x = QA; o.Z(x % a.Z(3)); }},
    // ---- the only two writers of the mode
    {"setred",   [](const A&, O&) { Rational::SetReduce(); }},
    {"setnored", [](const A&, O&) { Rational::SetNoReduce(); }},
    {"reduce", [](const A& a, O& o) { const Rational x = QA; o.Q(x.reduce(x)); }},
    {"finit_ZZ",  [](const A& a, O& o) { Rational r(5, 7); QQ.init(r, a.Z(1), a.Z(2)); o.Q(r); }},
    {"finit_Z",   [](const A& a, O& o) { Rational r(5, 7); QQ.init(r, a.Z(1)); o.Q(r); }},
    {"finit_i32", [](const A& a, O& o) { Rational r(5, 7); QQ.init(r, (int32_t)a.SW(1)); o.Q(r); }},
    {"finit_u32", [](const A& a, O& o) { Rational r(5, 7); QQ.init(r, (uint32_t)a.W(1)); o.Q(r); }},
    {"finit_i64", [](const A& a, O& o) { Rational r(5, 7); QQ.init(r, (int64_t)a.SW(1)); o.Q(r); }},
    {"finit_u64", [](const A& a, O& o) { Rational r(5, 7); QQ.init(r, (uint64_t)a.W(1)); o.Q(r); }},
    {"finit_dbl", [](const A& a, O& o) { Rational r(5, 7); QQ.init(r, mkdouble(a, 1)); o.Q(r); }},
};

static bool HIST = false;          // inside a history the mode is whatever the previous calls left (only setred/setnored change it)
static std::string LAST;           // outputs of the last call (without the trailer)
// the harness itself stores to the mode only when it has to (a store that hits the watchpoint costs ~40 us)
static void want_mode(bool red) { if ((RA::mode() != 0) != red) { if (red) Rational::SetReduce(); else Rational::SetNoReduce(); } }

static void run(A& a) {
    auto it = TABLE.find(a.tok[0]);
    if (it == TABLE.end() || a.tok.size() < 2) { vp::emit(a, "NOFUNC"); return; }
    if (!HIST) want_mode(a.s(0) != "0");
    O o;
    std::string res;
    const long long w0 = watch_count();
    try {
        it->second(a, o);
        res = o.s;
    } catch (...) {
        res = "EXC";
    }
    const long long w1 = watch_count();
    const int after = RA::mode();
    LAST = res;
    // trailer: the mode the call left behind, and the number of machine-level stores to Rational::flags during the call
    vp::emit(a, res + " ; " + vp::hex_ll(after) + " " + ((w0 < 0 || w1 < 0) ? std::string("-1") : vp::hex_ll(w1 - w0)));
}

// ------------------------------------------------------------------------------------------------
// generators
// ------------------------------------------------------------------------------------------------
struct Z {                       // small RAII wrapper around mpz_t for the generators
    mpz_t v;
    Z() { mpz_init(v); }
    Z(const Z& o) { mpz_init_set(v, o.v); }
    Z(long x) { mpz_init_set_si(v, x); }
    Z& operator=(const Z& o) { mpz_set(v, o.v); return *this; }
    ~Z() { mpz_clear(v); }
    std::string hex() const { return vp::hex(v); }
};
static Z zstr(const char* s, int base = 10) { Z r; mpz_set_str(r.v, s, base); return r; }
static Z zpow2(unsigned k, long add = 0) { Z r; mpz_set_ui(r.v, 1); mpz_mul_2exp(r.v, r.v, k); if (add >= 0) mpz_add_ui(r.v, r.v, add); else mpz_sub_ui(r.v, r.v, -add); return r; }
static Z zmul(const Z& a, const Z& b) { Z r; mpz_mul(r.v, a.v, b.v); return r; }
static Z zneg(const Z& a) { Z r; mpz_neg(r.v, a.v); return r; }

static vp::Rng* G;
static std::vector<Z> GRID;      // non-negative magnitudes: small, word boundaries, multi-limb
static std::vector<Z> FACT;      // factors shared between numerators and denominators

static Z limbs(unsigned k) {     // k limbs drawn from {0, 1, 2^63, 2^64-1, random}; top limb non-zero
    Z r;
    for (unsigned i = 0; i < k; ++i) {
        uint64_t l;
        switch (G->below(5)) {
            case 0: l = 0; break;
            case 1: l = 1; break;
            case 2: l = 1ULL << 63; break;
            case 3: l = ~0ULL; break;
            default: l = G->next();
        }
        if (i == 0 && l == 0) l = 1 + G->below(1000);
        mpz_mul_2exp(r.v, r.v, 64);
        mpz_add_ui(r.v, r.v, l);
    }
    return r;
}
static void init_pools() {
    for (long s : {0L, 1L, 2L, 3L, 4L, 5L, 6L, 7L, 9L, 10L, 12L, 30L, 97L, 255L, 256L, 1000L}) GRID.push_back(Z(s));
    for (unsigned k : {15u, 16u, 31u, 32u, 53u, 63u, 64u, 127u, 128u, 192u})
        for (long d : {-1L, 0L, 1L}) GRID.push_back(zpow2(k, d));
    GRID.push_back(zstr("100000000000000000000000000000000000000001"));   // 10^41+1 (DESIGN.md: seen to fail)
    GRID.push_back(zstr("100000000000000000000000000000000000000000"));
    GRID.push_back(zstr("340282366920938463463374607431768211297"));      // a 128-bit prime
    GRID.push_back(zstr("18446744073709551557"));                          // largest 64-bit prime
    for (long s : {2L, 3L, 5L, 6L, 7L, 12L, 49L, 1001L}) FACT.push_back(Z(s));
    FACT.push_back(zpow2(32, 15));
    FACT.push_back(zpow2(64, 13));
    FACT.push_back(zpow2(31, -1));
    FACT.push_back(zstr("18446744073709551557"));
    FACT.push_back(zstr("1000000000000000000000000000057"));
    FACT.push_back(zpow2(100));
}
static Z mag() {                 // a non-negative magnitude
    switch (G->below(8)) {
        case 0: case 1: case 2: return GRID[G->below(GRID.size())];
        case 3: return Z((long)G->below(50));
        case 4: { Z r; mpz_set_ui(r.v, G->next() >> G->below(64)); return r; }
        case 5: return limbs(2 + G->below(2));
        case 6: return limbs(3 + G->below(4));
        default: return zmul(FACT[G->below(FACT.size())], FACT[G->below(FACT.size())]);
    }
}
static Z mag_nz() { for (;;) { Z m = mag(); if (mpz_sgn(m.v) != 0) return m; } }
static Z sgn(const Z& m) { return G->below(2) ? zneg(m) : m; }

struct Rt { Z n, d; };
static Rt canon(Rt r) {
    Z g; mpz_gcd(g.v, r.n.v, r.d.v);
    if (mpz_sgn(g.v) != 0) { mpz_divexact(r.n.v, r.n.v, g.v); mpz_divexact(r.d.v, r.d.v, g.v); }
    if (mpz_sgn(r.d.v) < 0) { mpz_neg(r.n.v, r.n.v); mpz_neg(r.d.v, r.d.v); }
    return r;
}
static Rt fin(Rt r, bool red) { return red ? canon(r) : r; }
static Rt rnd_rat(bool red) {
    Rt r;
    switch (G->below(10)) {
        case 0: r.n = Z(0); r.d = red ? Z(1) : mag_nz(); break;               // zero (0/d when not reducing)
        case 1: r.n = sgn(mag()); r.d = Z(1); break;                            // integer
        case 2: r.n = sgn(Z(1)); r.d = mag_nz(); break;                         // unit fraction
        case 3: r.n = sgn(Z((long)G->below(20))); r.d = Z(1 + (long)G->below(20)); break;   // tiny
        case 4: case 5: {                                                       // products of shared factors
            r.n = sgn(zmul(FACT[G->below(FACT.size())], mag_nz()));
            r.d = zmul(FACT[G->below(FACT.size())], FACT[G->below(FACT.size())]);
            break;
        }
        default: r.n = sgn(mag()); r.d = mag_nz();
    }
    return fin(r, red);
}
// a second operand related to `a` in one of the ways the shortcut branches distinguish
static Rt related(const Rt& a, bool red, unsigned how) {
    Rt b;
    switch (how % 12) {
        case 0: return rnd_rat(red);
        case 1: b.n = sgn(mag()); b.d = a.d; break;                              // equal denominators
        case 2: b = a; break;                                                    // equal
        case 3: b.n = zneg(a.n); b.d = a.d; break;                               // opposite
        case 4: if (mpz_sgn(a.n.v) == 0) return rnd_rat(red);                    // inverse
                b.n = a.d; b.d = a.n; if (mpz_sgn(b.d.v) < 0) { b.n = zneg(b.n); b.d = zneg(b.d); } break;
        case 5: b.n = sgn(zmul(a.d, mag_nz())); b.d = (mpz_sgn(a.n.v) ? zmul(a.n, mag_nz()) : mag_nz()); mpz_abs(b.d.v, b.d.v); break;  // cross factors
        case 6: b.n = sgn(mag()); b.d = zmul(a.d, FACT[G->below(FACT.size())]); break;  // denominator multiple
        case 7: { Z k = mag_nz(); b.n = zmul(a.n, k); mpz_add_ui(b.n.v, b.n.v, 1); b.d = zmul(a.d, k); break; }   // a + 1/(k d): just above
        case 8: { Z k = mag_nz(); b.n = zmul(a.n, k); mpz_sub_ui(b.n.v, b.n.v, 1); b.d = zmul(a.d, k); break; }   // just below
        case 9: b.n = a.n; b.d = mag_nz(); break;                                // equal numerators
        case 10: b.n = sgn(zmul(a.n, FACT[G->below(FACT.size())])); b.d = zmul(a.d, FACT[G->below(FACT.size())]); break;  // same value scaled (non-canonical twin)
        default: { Z t; mpz_mul_2exp(t.v, a.d.v, 64 * (1 + G->below(3))); mpz_add_ui(t.v, t.v, 1); b.n = sgn(mag()); b.d = t; }  // denominators of very different size
    }
    return fin(b, red);
}

static void go(std::vector<std::string> toks) { A a; a.tok = std::move(toks); run(a); }
static std::string R(bool red) { return red ? "1" : "0"; }

static const char* BIN[] = {"add", "sub", "mul", "div", "addin", "subin", "mulin", "divin",
                            "fadd", "fsub", "fmul", "fdiv", "faddin", "fsubin", "fmulin", "fdivin"};
static const char* CMP[] = {"lt", "gt", "le", "ge", "eq", "ne", "compare", "absCompare", "fareEqual", "fareNEqual"};
static const char* UNA[] = {"neg", "pos", "abs", "fneg", "fnegin", "finv", "finvin", "fassign", "fget_num", "fget_den", "nume", "deno", "floor", "ceil", "round", "trunc",
                            "fisZero", "fisOne", "fisMOne", "fisUnit", "fsign", "isZero", "isOne", "isMOne", "isInteger", "sign", "c_copyctor", "c_assign", "c_copy", "c_logcpy", "finit0", "reduce", "addself", "subself", "finvself",
                            "to_i64", "to_u64", "to_i32", "to_u32", "to_i16", "to_u16", "to_i8", "to_u8", "to_dbl", "to_flt", "to_str", "fwrite", "print"};
static const char* TER[] = {"faxpy", "fmaxpy", "faxmy", "faxpyin", "fmaxpyin", "faxmyin"};
static const char* MIXI[] = {"addi", "subi", "muli", "divi", "iadd", "isub", "imul", "idiv"};

static void pair_cases(const Rt& a, const Rt& b, bool red, bool all) {
    for (const char* k : BIN) if (all || G->below(3) == 0) go({k, R(red), a.n.hex(), a.d.hex(), b.n.hex(), b.d.hex()});
    for (const char* k : CMP) go({k, R(red), a.n.hex(), a.d.hex(), b.n.hex(), b.d.hex()});
}
static void unary_cases(const Rt& a, bool red) {
    for (const char* k : UNA) go({k, R(red), a.n.hex(), a.d.hex()});
    // operator%(Integer): moduli coprime to the denominator (the driver skips the others), 0 (throws), +-1
    for (int i = 0; i < 3; ++i) { Z r = sgn(mag()); if (i == 2) mpz_add_ui(r.v, a.d.v, 1); go({"modz", R(red), a.n.hex(), a.d.hex(), r.hex()}); }
}
// operands sized for the conversions: quotients around the limits of every word type, and doubles/floats of every magnitude
static void conv_cases(size_t n) {
    static const char* CONV[] = {"to_i64", "to_u64", "to_i32", "to_u32", "to_i16", "to_u16", "to_i8", "to_u8", "to_dbl", "to_flt", "trunc"};
    static const unsigned LIM[] = {7, 8, 15, 16, 31, 32, 63, 64};
    for (size_t i = 0; i < n; ++i) {
        bool red = G->below(4) != 0;
        Rt a;
        a.d = (G->below(3) == 0) ? Z(1) : mag_nz();
        switch (G->below(4)) {
            case 0: {  // quotient next to +-2^k
                Z q = zpow2(LIM[G->below(8)], (long)G->below(5) - 2);
                a.n = zmul(q, a.d);
                if (G->below(2)) { Z r; mpz_set_ui(r.v, G->next()); mpz_mod(r.v, r.v, a.d.v); mpz_add(a.n.v, a.n.v, r.v); }
                a.n = sgn(a.n);
                break;
            }
            case 1: a.n = sgn(mag()); break;
            case 2: { a.n = sgn(limbs(1 + G->below(15))); a.d = limbs(1 + G->below(15)); break; }      // up to 2^960: inside double's range
            default: { Z t; mpz_set_ui(t.v, G->next() >> G->below(40)); a.n = sgn(t); mpz_set_ui(t.v, 1 + (G->next() >> G->below(63))); a.d = t; }
        }
        a = fin(a, red);
        for (const char* k : CONV) go({k, R(red), a.n.hex(), a.d.hex()});
    }
}

// ------------------------------------------------------------------------------------------------
// histories: calls on live objects, the mode left to the library (only setred / setnored change it).  Every line shows the
// mode observed before the call and the stored pairs of the operands as they are in the registers at that moment.
// ------------------------------------------------------------------------------------------------
static bool parse_pair(const std::string& res, Rt& out) {
    std::istringstream ss(res);
    std::string a, b, c;
    if (!(ss >> a >> b) || (ss >> c) || a == "EXC") return false;
    return mpz_set_str(out.n.v, a.c_str(), 16) == 0 && mpz_set_str(out.d.v, b.c_str(), 16) == 0;
}
static void special_double(uint64_t& s, uint64_t& e, uint64_t& m) {
    const uint64_t MMAX = (1ULL << 52) - 1;
    s = G->below(2);
    switch (G->below(8)) {
        case 0: e = 0; m = 0; break;                                   // +-0
        case 1: e = 0; m = 1; break;                                   // +-denorm_min
        case 2: e = 0; m = MMAX; break;                                // largest subnormal
        case 3: e = 0; m = G->next() & MMAX; break;                    // random subnormal
        case 4: e = 2046; m = MMAX; break;                             // +-DBL_MAX
        case 5: e = 2046 - G->below(4); m = G->next() & MMAX; break;   // huge
        case 6: e = 1; m = 0; break;                                   // +-DBL_MIN
        default: e = 1000 + G->below(150); m = (G->next() & MMAX) & ~((1ULL << G->below(52)) - 1);
    }
}
static void history(size_t len) {
    const size_t NR = 6;
    std::vector<Rt> reg(NR);
    want_mode(true);
    for (auto& r : reg) r = rnd_rat(true);
    HIST = true;
    auto M = []() { return std::string(RA::mode() ? "1" : "0"); };
    auto put = [&](size_t d) { Rt t; if (parse_pair(LAST, t)) { reg[d] = t; if (mpz_sizeinbase(t.n.v, 2) + mpz_sizeinbase(t.d.v, 2) > 3000) reg[d] = rnd_rat(RA::mode() != 0); } };
    static const char* CM[] = {"lt", "gt", "le", "ge", "eq", "ne", "compare", "fareEqual"};
    static const char* U1[] = {"neg", "abs", "fneg", "fnegin", "reduce", "c_assign", "c_copyctor", "fassign", "addself", "subself"};
    static const char* OBS[] = {"floor", "ceil", "round", "trunc", "nume", "deno", "sign", "isZero", "fisOne", "to_dbl", "to_i64"};
    for (size_t i = 0; i < len; ++i) {
        size_t a = G->below(NR), b = G->below(NR), c = G->below(NR), d = G->below(NR);
        switch (G->below(16)) {
            case 0: go({G->below(2) ? "setnored" : "setred", M()}); break;
            case 1: go({"setnored", M()}); break;
            case 2: case 3: case 4: {                                   // construction from a special double
                uint64_t s, e, m; special_double(s, e, m);
                go({G->below(2) ? "c_dbl" : "finit_dbl", M(), vp::hex_ull(s), vp::hex_ull(e), vp::hex_ull(m)}); put(d); break;
            }
            case 5: { Z x = sgn(mag()), y = sgn(mag_nz());                  // construction from pairs
                      go({G->below(2) ? "c2_Z" : "c3_Z", M(), x.hex(), y.hex(), "0"}); put(d); break; }
            case 6: case 7: case 8: case 9: {                               // binary operators and in-place forms
                const char* k = BIN[G->below(sizeof BIN / sizeof *BIN)];
                go({k, M(), reg[a].n.hex(), reg[a].d.hex(), reg[b].n.hex(), reg[b].d.hex()});
                put(strstr(k, "in") ? a : d); break;
            }
            case 10: { const char* k = TER[G->below(sizeof TER / sizeof *TER)];
                       go({k, M(), reg[a].n.hex(), reg[a].d.hex(), reg[b].n.hex(), reg[b].d.hex(), reg[c].n.hex(), reg[c].d.hex()});
                       put(strstr(k, "in") ? a : d); break; }
            case 11: { const char* k = U1[G->below(sizeof U1 / sizeof *U1)];
                       go({k, M(), reg[a].n.hex(), reg[a].d.hex()}); put(d); break; }
            case 12: if (mpz_sgn(reg[a].n.v) != 0) { go({G->below(2) ? "finv" : "finvself", M(), reg[a].n.hex(), reg[a].d.hex()}); put(d); } break;
            case 13: { long long e = (long long)G->below(5) - 2;
                       if (mpz_sizeinbase(reg[a].n.v, 2) + mpz_sizeinbase(reg[a].d.v, 2) < 600 && !(e < 0 && mpz_sgn(reg[a].n.v) == 0)) {
                           go({"powi", M(), reg[a].n.hex(), reg[a].d.hex(), vp::hex_ll(e)}); put(d); }
                       break; }
            case 14: go({CM[G->below(sizeof CM / sizeof *CM)], M(), reg[a].n.hex(), reg[a].d.hex(), reg[b].n.hex(), reg[b].d.hex()}); break;
            default: go({OBS[G->below(sizeof OBS / sizeof *OBS)], M(), reg[a].n.hex(), reg[a].d.hex()});
        }
    }
    HIST = false;
    want_mode(true);
}
static const long long IGRID[] = {0, 1, -1, 2, -2, 3, 7, -12, 32767, -32768, 65536, 2147483647LL, -2147483648LL};
static void mixed_cases(const Rt& a, bool red) {
    for (const char* k : MIXI) go({k, R(red), a.n.hex(), a.d.hex(), vp::hex_ll(IGRID[G->below(sizeof IGRID / sizeof *IGRID)])});
}
static void pow_cases(const Rt& a, bool red) {
    // exponents are kept small unless the base is 0 or +-1 (the result must stay printable)
    size_t bits = mpz_sizeinbase(a.n.v, 2) + mpz_sizeinbase(a.d.v, 2);
    bool unit = mpz_cmpabs_ui(a.n.v, 1) <= 0 && mpz_cmp_ui(a.d.v, 1) == 0;
    long long emax = unit ? 0 : (bits < 40 ? 40 : bits < 400 ? 9 : 3);
    for (int i = 0; i < 3; ++i) {
        long long e = emax ? (long long)G->below(emax + 1) : 0;
        if (unit) { static const long long U[] = {0, 1, 2, 3, 1000, 1001, 2147483647LL, 2147483648LL, 4294967295LL, 4294967296LL, 9223372036854775807LL}; e = U[G->below(sizeof U / sizeof *U)]; }
        go({"powi", R(red), a.n.hex(), a.d.hex(), vp::hex_ll(e)});
        go({"powi", R(red), a.n.hex(), a.d.hex(), vp::hex_ll(-e)});
        go({"powu64", R(red), a.n.hex(), a.d.hex(), vp::hex_ll(e)});
        go({"fpowu64", R(red), a.n.hex(), a.d.hex(), vp::hex_ll(e)});
        if (e <= 4294967295LL) {
            go({"powu32", R(red), a.n.hex(), a.d.hex(), vp::hex_ll(e)});
            go({"fpowu32", R(red), a.n.hex(), a.d.hex(), vp::hex_ll(e)});
        }
    }
    if (unit) go({"powi", R(red), a.n.hex(), a.d.hex(), "-8000000000000000"});   // INT64_MIN: -y overflows in pow(Rational,int64_t)
}

static void dbl(const char* key, uint64_t s, uint64_t e, uint64_t m, bool red = true) {
    go({key, R(red), vp::hex_ull(s), vp::hex_ull(e), vp::hex_ull(m)});
}
static void double_cases(bool thorough, size_t nrand) {
    const uint64_t MMAX = (1ULL << 52) - 1;
    std::vector<uint64_t> ms = {0, 1, 2, 3, 1ULL << 51, (1ULL << 51) + 1, MMAX, MMAX - 1, 1ULL << 26, 0x5555555555555ULL, 0xAAAAAAAAAAAAAULL, 1ULL << 32, 0xFFFFF00000000ULL};
    std::vector<uint64_t> es;
    if (thorough) for (uint64_t e = 0; e < 2047; ++e) es.push_back(e);
    else for (uint64_t e : {0ULL, 1ULL, 2ULL, 3ULL, 52ULL, 53ULL, 970ULL, 1021ULL, 1022ULL, 1023ULL, 1024ULL, 1025ULL, 1074ULL, 1075ULL, 1076ULL, 1077ULL, 1086ULL, 1087ULL, 1126ULL, 1127ULL, 2000ULL, 2045ULL, 2046ULL}) es.push_back(e);
    for (uint64_t e : es) for (uint64_t m : ms) for (uint64_t s = 0; s < 2; ++s) {
        dbl("c_dbl", s, e, m);
        if (!thorough || m < 4) dbl("finit_dbl", s, e, m);
        if (m < 3 || m == MMAX) dbl("c_dbl", s, e, m, false);
    }
    for (size_t i = 0; i < nrand; ++i) {
        uint64_t s = G->below(2), e = G->below(2047), m = G->next() & MMAX;
        if (G->below(4) == 0) m &= ~((1ULL << G->below(52)) - 1);               // trailing zero bits: reducible
        if (G->below(6) == 0) e = 0;                                            // subnormals
        if (G->below(6) == 0) e = 1000 + G->below(140);                         // around the integer/fraction switch (1075)
        dbl(G->below(3) ? "c_dbl" : "finit_dbl", s, e, m, G->below(8) != 0);
    }
}

static std::string dec(const Z& z) { char* s = mpz_get_str(nullptr, 10, z.v); std::string r(s); void (*fr)(void*, size_t); mp_get_memory_functions(nullptr, nullptr, &fr); fr(s, r.size() + 1); return r; }
static void ctor_cases(size_t n) {
    for (const char* k : {"c_noinit", "c_default", "c_initend", "c_zero", "c_one", "c_mone", "fc_zero", "fc_one", "fc_mone", "fsig"}) { go({k, "1"}); go({k, "0"}); }
    go({"c_neutral", "1", "0"}); go({"c_neutral", "1", "1"});
    static const long long S64[] = {0, 1, -1, 2, -2, 3, 6, -6, 12, 2147483647LL, -2147483648LL, 2147483648LL, 4294967295LL, 4294967296LL,
                                     9223372036854775807LL, -9223372036854775807LL, (-9223372036854775807LL - 1), 4611686018427387904LL, -4611686018427387904LL};
    static const unsigned long long U64[] = {0, 1, 2, 3, 6, 12, 2147483647ULL, 2147483648ULL, 4294967295ULL, 4294967296ULL, 9223372036854775807ULL,
                                               9223372036854775808ULL, 18446744073709551615ULL, 18446744073709551614ULL, 12297829382473034410ULL};
    static const long long S32[] = {0, 1, -1, 2, -2, 3, 6, -6, 12, 65536, -65536, 2147483647LL, -2147483647LL, -2147483648LL, 1073741824LL};
    static const unsigned long long U32[] = {0, 1, 2, 3, 6, 12, 65536, 2147483647ULL, 2147483648ULL, 4294967295ULL, 4294967294ULL};
    for (int red = 1; red >= 0; --red) {
        for (long long x : S64) { go({"c_i64", R(red), vp::hex_ll(x)}); go({"finit_i64", R(red), vp::hex_ll(x)}); for (long long y : S64) go({"c2_i64", R(red), vp::hex_ll(x), vp::hex_ll(y)}); }
        for (unsigned long long x : U64) { go({"c_u64", R(red), vp::hex_ull(x)}); go({"finit_u64", R(red), vp::hex_ull(x)}); for (unsigned long long y : U64) go({"c2_u64", R(red), vp::hex_ull(x), vp::hex_ull(y)}); }
        for (long long x : S32) { go({"c_i32", R(red), vp::hex_ll(x)}); go({"finit_i32", R(red), vp::hex_ll(x)}); for (long long y : S32) go({"c2_i32", R(red), vp::hex_ll(x), vp::hex_ll(y)}); }
        for (unsigned long long x : U32) { go({"c_u32", R(red), vp::hex_ull(x)}); go({"finit_u32", R(red), vp::hex_ull(x)}); for (unsigned long long y : U32) go({"c2_u32", R(red), vp::hex_ull(x), vp::hex_ull(y)}); }
    }
    for (size_t i = 0; i < n; ++i) {
        bool red = G->below(6) != 0;
        Z x = sgn(mag()), y = (G->below(12) == 0) ? Z(0) : sgn(mag_nz());
        if (G->below(3) == 0) { Z f = FACT[G->below(FACT.size())]; x = zmul(x, f); y = zmul(y, f); }
        go({"c_Z", R(red), x.hex()});
        go({"finit_Z", R(red), x.hex()});
        go({"c2_Z", R(red), x.hex(), y.hex()});
        go({"finit_ZZ", R(red), x.hex(), y.hex()});
        go({"c3_Z", R(red), x.hex(), y.hex(), "1"});
        go({"c3_Z", R(red), x.hex(), y.hex(), "0"});
        // strings (decimal): "n", "n/d", blanks before the slash, leading blanks
        std::string sx = dec(x), sy = dec(y);
        go({"c_str", R(red), sx});
        go({"c_str", R(red), sx + "/" + sy});
        go({"c_str", R(red), "_" + sx + "_/" + sy});
        go({"c_str", R(red), sx + "__/_" + sy});
        go({"fread", R(red), sx + "/" + sy});
        go({"fread", R(red), "_" + sx});
        // text after the number that is not a slash is left in the stream (putback): the integer alone is read
        go({"c_str", R(red), sx + "_" + sy});
        go({"c_str", R(red), sx + "x/" + sy});
        go({"fread", R(red), sx + "__"});
    }
}

int main(int argc, char** argv) {
    watch_init();
    if (argc < 3) {
        A a;
        while (vp::read_line(std::cin, a)) { run(a); fflush(stdout); }
        return 0;
    }
    bool thorough = std::string(argv[1]) == "thorough";
    uint64_t seed = strtoull(argv[2], nullptr, 10);
    vp::Rng rng(seed * 0x9E3779B97F4A7C15ULL + 0xC10);
    G = &rng;
    init_pools();

    // 1. the operands DESIGN.md lists as seen to fail, first
    {
        Rt a{zstr("100000000000000000000000000000000000000001"), Z(3)}, b{Z(1), Z(3)}, h{Z(1), Z(2)};
        pair_cases(a, b, true, true); pair_cases(b, a, true, true); pair_cases(h, h, true, true);
        dbl("c_dbl", 1, 0, 1); dbl("c_dbl", 0, 0, 1);
    }
    // 2. constructors: word grids (all pairs), big-integer pairs, strings
    ctor_cases(thorough ? 6000 : 500);
    // 3. doubles: class grid + random
    double_cases(thorough, thorough ? 120000 : 15000);
    // 4. small exhaustive square: every pair of canonical fractions with |num| <= 6, den <= 6
    {
        std::vector<Rt> small;
        for (long n = -6; n <= 6; ++n) for (long d = 1; d <= 6; ++d) { Z g; Z zn(n), zd(d); mpz_gcd(g.v, zn.v, zd.v); if (mpz_cmp_ui(g.v, 1) == 0) small.push_back(Rt{zn, zd}); }
        for (auto& a : small) { unary_cases(a, true); mixed_cases(a, true); pow_cases(a, true); for (auto& b : small) pair_cases(a, b, true, true); }
        // not reducing: every pair n/d, including non-canonical ones
        std::vector<Rt> raw;
        for (long n = -4; n <= 4; ++n) for (long d = 1; d <= 4; ++d) raw.push_back(Rt{Z(n), Z(d)});
        for (auto& a : raw) { unary_cases(a, false); mixed_cases(a, false); pow_cases(a, false); for (auto& b : raw) pair_cases(a, b, false, true); }
    }
    // 4b. conversions out of Q around the limits of every target type
    conv_cases(thorough ? 25000 : 2500);
    // 4c. histories: special doubles, pair constructors, arithmetic and in-place forms interleaved with mode switches
    for (size_t h = 0; h < (thorough ? 2500u : 300u); ++h) history(thorough ? 120 : 80);
    // 5. structured random operands
    size_t npairs = thorough ? 42000 : 6000;
    for (size_t i = 0; i < npairs; ++i) {
        bool red = G->below(5) != 0;
        Rt a = rnd_rat(red);
        Rt b = related(a, red, (unsigned)i);
        pair_cases(a, b, red, i % 4 == 0);
        if (i % 2 == 0) unary_cases(a, red);
        if (i % 4 == 1) { mixed_cases(a, red); pow_cases(a, red); }
        if (i % 3 == 0) {
            Rt c = related(b, red, (unsigned)G->below(12));
            for (const char* k : TER) go({k, R(red), a.n.hex(), a.d.hex(), b.n.hex(), b.d.hex(), c.n.hex(), c.d.hex()});
        }
    }
    return 0;
}
