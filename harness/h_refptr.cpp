// Correspondence harness for C17, RefCountPtr<T> (givaro/givpointer.h).  Separate from h_array.cpp because the header
// of the pinned tree does not compile; the check reports a build failure of this file as a broken obligation.
//   rp <op>…  = <obs>…  end.<live>
//     ops:  n.k.v  if (!S[k]) S[k] = new RefCountPtr<Tracked>(new Tracked(v))
//           c.k.j  if (S[k] && !S[j]) S[j] = new RefCountPtr<Tracked>(*S[k])      (copy constructor)
//           a.k.j  if (S[k] && S[j]) *S[j] = *S[k]                                 (assignment, k == j allowed)
//           d.k    delete S[k]; S[k] = 0
//     obs = <live objects>:<id of the pointee of slot 0>,<slot 1>,…   ('-' for an empty slot)
#include "proto.h"
#include <givaro/givpointer.h>
#include <cstring>

struct Tracked {
    static long live;
    long id;
    explicit Tracked(long i) : id(i) { ++live; }
    ~Tracked() { --live; id = -1; }
};
long Tracked::live = 0;
typedef Givaro::RefCountPtr<Tracked> Ptr;

static std::vector<long> fields(const std::string& tok) {
    std::vector<long> r;
    size_t p = tok.find('.');
    while (p != std::string::npos) {
        size_t q = tok.find('.', p + 1);
        r.push_back(strtol(tok.substr(p + 1, q == std::string::npos ? q : q - p - 1).c_str(), nullptr, 16));
        p = q;
    }
    return r;
}

int main() {
    vp::Args a;
    setvbuf(stdout, nullptr, _IOLBF, 0);
    while (vp::read_line(std::cin, a)) {
        const int NS = 3;
        Ptr* S[NS] = {0, 0, 0};
        Tracked::live = 0;
        std::string res;
        for (size_t k = 0; k < a.n(); ++k) {
            const std::string& op = a.s(k);
            std::vector<long> f = fields(op);
            const long s = f.at(0);
            switch (op[0]) {
            case 'n': if (!S[s]) S[s] = new Ptr(new Tracked(f.at(1))); break;
            case 'c': if (S[s] && !S[f.at(1)]) S[f.at(1)] = new Ptr(*S[s]); break;
            case 'a': if (S[s] && S[f.at(1)]) *S[f.at(1)] = *S[s]; break;
            case 'd': delete S[s]; S[s] = 0; break;
            default: break;
            }
            if (!res.empty()) res += ' ';
            res += vp::hex_ll(Tracked::live) + ":";
            for (int j = 0; j < NS; ++j) { if (j) res += ','; res += S[j] ? vp::hex_ll((*S[j])->id) : std::string("-"); }
        }
        for (int j = 0; j < NS; ++j) delete S[j];
        res += " end." + vp::hex_ll(Tracked::live);
        vp::emit(a, res);
    }
    return 0;
}
