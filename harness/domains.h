// Domain zoo shared by the history harness (C16) and the thread harness (C18): one type-erased box per
// ring / field / polynomial domain the library instantiates, each with two distinct parameter sets, a
// fixed probe (a digest of the results of the claimed operations on fixed operands) and the special
// member functions (copy-construction, assignment, self-assignment, destruction).
#pragma once
#include <givaro/givinteger.h>
#include <givaro/givrational.h>
#include <givaro/modular.h>
#include <givaro/modular-balanced.h>
#include <givaro/modular-extended.h>
#include <givaro/montgomery.h>
#include <givaro/gfq.h>
#include <givaro/gfqext.h>
#include <givaro/extension.h>
#include <givaro/qfield.h>
#include <givaro/givpoly1.h>
#include <givaro/givpoly1factor.h>
#include <givaro/givintrns.h>
#include <givaro/givrns.h>
#include <recint/recint.h>
#include <cstdint>
#include <functional>
#include <map>
#include <memory>
#include <sstream>
#include <string>
#include <vector>

namespace dz {
using namespace Givaro;

inline uint64_t fnv(const std::string& s) {
    uint64_t h = 1469598103934665603ULL;
    for (unsigned char c : s) { h ^= c; h *= 1099511628211ULL; }
    return h;
}

// ---- probes: const operations only (this is also the operation set of C18) -------------------------------------------
template <class D>
std::string probe_ring(const D& F) {
    std::ostringstream os;
    typename D::Element a, b, c, r, s;
    F.init(a, Integer(7));
    F.init(b, Integer(5));
    F.init(c, Integer(1000003));
    F.init(r); F.init(s);
    F.add(r, a, b);      F.write(os, r) << ' ';
    F.sub(r, a, c);      F.write(os, r) << ' ';
    F.mul(r, a, c);      F.write(os, r) << ' ';
    F.neg(r, b);         F.write(os, r) << ' ';
    F.axpy(r, a, b, c);  F.write(os, r) << ' ';
    F.maxpy(r, a, b, c); F.write(os, r) << ' ';
    F.axmy(r, a, b, c);  F.write(os, r) << ' ';
    F.inv(r, a);         F.write(os, r) << ' ';
    F.div(r, c, b);      F.write(os, r) << ' ';
    // the middle of the residue range (⌊q/2⌋): where a balanced representation changes sign, i.e. where cached half-moduli matter
    { typename D::Element h, t; F.init(h, Integer(F.cardinality()) / 2);
      F.neg(t, h); F.write(os, t) << ' '; F.add(t, h, F.zero); F.write(os, t) << ' '; F.sub(t, F.zero, h); F.write(os, t) << ' ';
      F.mul(t, h, F.one); F.write(os, t) << ' '; F.add(t, h, h); F.write(os, t) << ' '; }
    // (in-place forms are left to C15: the probe must not depend on another property's defects)
    F.assign(s, a); F.write(os, s) << ' ';
    os << (F.areEqual(a, b) ? 1 : 0) << (F.isZero(a) ? 1 : 0) << (F.isOne(F.one) ? 1 : 0) << ' ';
    F.write(os, F.one) << ' ';
    F.write(os, F.mOne) << ' ';
    F.write(os, F.zero) << ' ';
    os << Integer(F.characteristic()) << ' ' << Integer(F.cardinality()) << ' ';
    // other source types of init, and convert (C04's operations; here they widen the instantiated const interface)
    F.init(r, int64_t(-7));   F.write(os, r) << ' ';
    F.init(r, uint64_t(9));   F.write(os, r) << ' ';
    F.init(r, 12345.0);       F.write(os, r) << ' ';
    Integer back; F.convert(back, a); os << back;
    return os.str();
}

// exchange probe: elements created through G (an object that must denote the same domain as F: its copy, the source it was
// assigned from, or an object built from the same parameters by copy) are used through F.  C16: copies and assignment targets are
// interchangeable with the original, so the result must be what F alone gives.
template <class D>
std::string xprobe_ring(const D& F, const D& G) {
    std::ostringstream os;
    typename D::Element a, b, c, r;
    G.init(a, Integer(7));
    G.init(b, Integer(5));
    G.init(c, Integer(1000003));
    F.init(r);
    F.mul(r, a, c);      F.write(os, r) << ' ';
    F.axpy(r, a, b, c);  F.write(os, r) << ' ';
    F.inv(r, b);         F.write(os, r) << ' ';
    F.write(os, a) << ' ';
    F.write(os, G.mOne) << ' ';
    os << (F.areEqual(a, G.one) ? 1 : 0) << (F.isOne(G.one) ? 1 : 0) << (F.isZero(G.zero) ? 1 : 0);
    return os.str();
}

// Extension: the ring probe plus the structural accessors (exponent over the prime field, order over the base field, the modulus)
template <class D>
std::string probe_ext(const D& F) {
    std::ostringstream os;
    os << probe_ring<D>(F) << ' ' << F.exponent() << ' ' << F.order() << ' ' << F.irreducible().size() << ' ';
    typename D::Element r; F.init(r);
    Givaro::GivRandom g(12345);           // a thread-/call-private generator: the draw's SIZE is a function of the field's order
    F.random(g, r); os << r.size();
    return os.str();
}

// GFqDom: the ring probe plus the initialisation from a coefficient vector (p-adic digits)
template <class D>
std::string probe_gfq(const D& F) {
    std::ostringstream os;
    os << probe_ring<D>(F) << ' ';
    typename D::Element r;
    // degree < k only: above it the result depends on the modulus polynomial the constructor draws with the documented global
    // random state (Integer::randstate), which is not a construction parameter of GFqDom(p,k)
    std::vector<typename D::Element> lo = {1, 1};
    F.init(r, lo); F.write(os, r) << ' ';
    // degree >= k: reduced modulo the field's own modulus polynomial (an explicit construction parameter in this zoo)
    std::vector<typename D::Element> hi = {1, 0, 1, 1, 0, 1, 1, 1, 0, 1, 1};
    F.init(r, hi); F.write(os, r) << ' ';
    std::vector<typename D::Element> eq(size_t(F.exponent()) + 1, 0); eq.back() = 1; eq[0] = 1;   // X^k + 1
    F.init(r, eq); F.write(os, r);
    return os.str();
}

// GFqExtFast: the table-field probe plus the q-adic initialisation from a double (uses _pceil / _MODOUT and the three double tables,
// members of the derived class that its hand-written operator= has to copy as well)
template <class D>
std::string probe_gfqx(const D& F) {
    std::ostringstream os;
    os << probe_gfq<D>(F) << " |";
    typename D::Element r;
    for (int d = 0; d <= 40; d += (d < 8 ? 1 : 7)) { F.init(r, double(d)); os << ' ' << (long long)r; }
    os << ' ' << F.bits() << ' ' << F.base() << ' ' << F.mask();
    return os.str();
}

// QField<Rational>: the field operations, and a product computed before and after a Rational is built from a subnormal double
// (the constructor's scaling branch): the process-wide reduction mode (Rational::SetReduce / SetNoReduce, documented) must not be
// changed by any field operation.  The harnesses run this kind once in each mode.
template <class D>
std::string probe_qfield(const D& F) {
    std::ostringstream os;
    typename D::Element a, b, c, r, x;
    F.init(a, Integer(2), Integer(3));
    F.init(b, Integer(3), Integer(4));
    F.init(c, Integer(-5), Integer(6));
    F.mul(r, a, b);      F.write(os, r) << ' ';
    F.add(r, a, c);      F.write(os, r) << ' ';
    F.sub(r, a, b);      F.write(os, r) << ' ';
    F.div(r, a, b);      F.write(os, r) << ' ';
    F.neg(r, b);         F.write(os, r) << ' ';
    F.inv(r, c);         F.write(os, r) << ' ';
    F.axpy(r, a, b, c);  F.write(os, r) << ' ';
    F.maxpy(r, a, b, c); F.write(os, r) << ' ';
    F.axmy(r, a, b, c);  F.write(os, r) << ' ';
    F.init(x, 4.9406564584124654e-324);   // smallest subnormal double
    os << (F.isZero(x) ? 1 : 0) << ' ';
    F.init(x, 0.375);    F.write(os, x) << ' ';
    F.init(x, Integer(7)); F.write(os, x) << ' ';
    F.mul(r, a, b);      F.write(os, r) << ' ';          // same operands as the first line: same result
    os << (F.areEqual(a, b) ? 1 : 0) << (F.isZero(a) ? 1 : 0) << (F.isOne(F.one) ? 1 : 0) << ' ';
    F.write(os, F.one) << ' '; F.write(os, F.mOne) << ' '; F.write(os, F.zero);
    return os.str();
}
template <class D>
std::string xprobe_qfield(const D& F, const D& G) {
    std::ostringstream os;
    typename D::Element a, b, r;
    G.init(a, Integer(2), Integer(3));
    G.init(b, Integer(3), Integer(4));
    F.mul(r, a, b); F.write(os, r) << ' ';
    F.write(os, G.mOne);
    return os.str();
}

template <class PD>
std::string probe_poly(const PD& P) {
    std::ostringstream os;
    typename PD::Element A, B, R, Q;
    const typename PD::Domain_t& F = P.getdomain();
    typename PD::Type_t e;
    P.init(A, Degree(3)); P.init(B, Degree(2));
    for (int i = 0; i <= 3; ++i) { F.init(e, Integer(3 + 5 * i)); A[size_t(i)] = e; }
    for (int i = 0; i <= 2; ++i) { F.init(e, Integer(2 + 7 * i)); B[size_t(i)] = e; }
    P.add(R, A, B);  P.write(os, R) << " | ";
    P.mul(R, A, B);  P.write(os, R) << " | ";
    P.divmod(Q, R, A, B); P.write(os, Q) << " | "; P.write(os, R) << " | ";
    P.gcd(R, A, B);  P.write(os, R) << " | ";
    Degree d; P.degree(d, A); os << d.value();
    return os.str();
}

template <class PD>
std::string xprobe_poly(const PD& P, const PD& Q) {
    std::ostringstream os;
    typename PD::Element A, B, R;
    const typename PD::Domain_t& G = Q.getdomain();
    typename PD::Type_t e;
    Q.init(A, Degree(3)); Q.init(B, Degree(2));
    for (int i = 0; i <= 3; ++i) { G.init(e, Integer(3 + 5 * i)); A[size_t(i)] = e; }
    for (int i = 0; i <= 2; ++i) { G.init(e, Integer(2 + 7 * i)); B[size_t(i)] = e; }
    P.mul(R, A, B);  P.write(os, R) << " | ";
    P.gcd(R, A, B);  P.write(os, R);
    return os.str();
}

// Are the polynomial constants that const operations hand to the (in-place normalising) polynomial predicates stored normalised?
// Poly1Dom::isZero/assign/degree/mod… strip leading zero coefficients of their `const Rep&` argument through a const_cast; on the
// domain's own `zero`/`one`/`mOne` and on Extension's modulus `_irred` that store is never reached iff these are stored normalised
// (translate/footprint.py lists such call sites in the column argNormalise; this probe is the checked side of that assumption).
template <class V, class F> inline bool norm_rep(const V& v, const F& f) { return v.size() == 0 || !f.isZero(v[v.size() - 1]); }
template <class D> inline bool norm_ok(const D&) { return true; }
template <class B> inline bool norm_ok(const Givaro::Poly1Dom<B, Givaro::Dense>& P) {
    return P.zero.size() == 0 && norm_rep(P.one, P.getdomain()) && P.one.size() == 1 && norm_rep(P.mOne, P.getdomain()) && P.mOne.size() == 1;
}
template <class B> inline bool norm_ok(const Givaro::Extension<B>& E) {
    return norm_rep(E.irreducible(), E.base_field()) && norm_ok(E.polynomial_domain());
}

struct Box {
    virtual ~Box() {}
    virtual bool normalised() const { return true; }        // see norm_ok
    virtual Box* copy() const = 0;              // copy-construct a new domain object from this one
    virtual void assign(const Box& o) = 0;      // operator=
    virtual void selfassign() = 0;              // x = x
    virtual std::string probe() const = 0;
    virtual std::string xprobe(const Box& src) const = 0;   // elements created through `src` (same domain), used through this
    virtual bool sane() const { return true; }              // the object still holds the construction parameters it was given
};

template <class D, std::string (*PROBE)(const D&), std::string (*XPROBE)(const D&, const D&)>
struct BoxT : Box {
    D d;
    template <class... A> explicit BoxT(A&&... a) : d(std::forward<A>(a)...) {}
    BoxT(const BoxT& o) : d(o.d) {}
    Box* copy() const override { return new BoxT(*this); }
    void assign(const Box& o) override { d = static_cast<const BoxT&>(o).d; }
    void selfassign() override { D& alias = d; d = alias; }
    std::string probe() const override { return PROBE(d); }
    std::string xprobe(const Box& src) const override { return XPROBE(d, static_cast<const BoxT&>(src).d); }
    bool normalised() const override { return norm_ok(d); }
};

template <class D> using RingBox = BoxT<D, probe_ring<D>, xprobe_ring<D>>;
template <class D> using GFqBox = BoxT<D, probe_gfq<D>, xprobe_ring<D>>;
template <class D> using ExtBox = BoxT<D, probe_ext<D>, xprobe_ring<D>>;
template <class D> using GFqxBox = BoxT<D, probe_gfqx<D>, xprobe_ring<D>>;
// QField<Rational> has const data members and therefore no assignment operator: "assignment" is replacement by a copy-constructed
// object, which is all user code can do
template <class D>
struct QBox : Box {
    std::unique_ptr<D> d;
    QBox() : d(new D()) {}
    QBox(const QBox& o) : d(new D(*o.d)) {}
    Box* copy() const override { return new QBox(*this); }
    void assign(const Box& o) override { d.reset(new D(*static_cast<const QBox&>(o).d)); }
    void selfassign() override { std::unique_ptr<D> c(new D(*d)); d.swap(c); }
    std::string probe() const override { return probe_qfield<D>(*d); }
    std::string xprobe(const Box& src) const override { return xprobe_qfield<D>(*d, *static_cast<const QBox&>(src).d); }
};

// polynomial domain over Modular<int32_t>: the box owns the coefficient field too
struct PolyBox : Box {
    typedef Modular<int32_t> F_t;
    typedef Poly1Dom<F_t, Dense> P_t;
    P_t d;
    explicit PolyBox(int32_t p) : d(F_t(p), Indeter("X")) {}
    PolyBox(const PolyBox& o) : d(o.d) {}
    Box* copy() const override { return new PolyBox(*this); }
    void assign(const Box& o) override { d = static_cast<const PolyBox&>(o).d; }
    void selfassign() override { P_t& alias = d; d = alias; }
    std::string probe() const override { return probe_poly<P_t>(d); }
    std::string xprobe(const Box& src) const override { return xprobe_poly<P_t>(d, static_cast<const PolyBox&>(src).d); }
    bool normalised() const override { return norm_ok(d); }
};

// ---- residue number systems: the accessors `product()`, `Reciprocals()`, `reciprocal(i)` are const (C18's anchors name their caches) ----
struct IntRnsBox : Box {
    typedef IntRNSsystem<std::vector, std::allocator> R;
    R d;
    static std::vector<Integer> primes(int i) {
        return i ? std::vector<Integer>{Integer(1009), Integer(1013), Integer(1019), Integer("18446744073709551557")}
                 : std::vector<Integer>{Integer(101), Integer(103), Integer(107)};
    }
    explicit IntRnsBox(int i) : d(primes(i)) {}
    IntRnsBox(const IntRnsBox& o) : d(o.d) {}
    Box* copy() const override { return new IntRnsBox(*this); }
    void assign(const Box& o) override { d = static_cast<const IntRnsBox&>(o).d; }
    void selfassign() override { R& alias = d; d = alias; }
    std::string probe() const override {
        std::ostringstream os;
        os << d.product() << ' ';
        for (const Integer& c : d.Reciprocals()) os << c << ' ';
        os << d.reciprocal(1) << ' ' << d.ith(0) << ' ' << d.NumOfPrimes() << ' ';
        R::array mix(d.Primes().size());
        for (size_t j = 0; j < mix.size(); ++j) mix[j] = Integer(int64_t(j + 2));
        Integer res; d.MixedRadixToRing(res, mix); os << res;
        return os.str();
    }
    std::string xprobe(const Box& src) const override {      // mixed-radix digits laid out for the source's primes, recombined here
        const R& g = static_cast<const IntRnsBox&>(src).d;
        R::array mix(g.Primes().size());
        for (size_t j = 0; j < mix.size(); ++j) mix[j] = Integer(int64_t(3 * j + 1));
        Integer res; d.MixedRadixToRing(res, mix);
        std::ostringstream os; os << res << ' ' << d.product();
        return os.str();
    }
};

struct RnsBox : Box {
    typedef Modular<int32_t> F_t;
    typedef RNSsystem<Integer, F_t> R;
    R d;
    static R::domains doms(int i) {
        const int32_t p0[] = {101, 103, 107}, p1[] = {65521, 65519, 65497, 65479};
        const size_t n = i ? 4 : 3;
        R::domains D(n);
        for (size_t j = 0; j < n; ++j) D[j] = F_t(i ? p1[j] : p0[j]);
        return D;
    }
    int par;
    static R make(int i) {          // the caller's array is reused (overwritten) after the system was built from it
        R::domains D = doms(i);
        R sys(D);
        for (size_t j = 0; j < D.size(); ++j) D[j] = F_t(7);
        return sys;
    }
    explicit RnsBox(int i) : d(make(i)), par(i) {}
    RnsBox(const RnsBox& o) : d(o.d), par(o.par) {}
    bool sane() const override {
        const int32_t p0[] = {101, 103, 107}, p1[] = {65521, 65519, 65497, 65479};
        const size_t n = par ? 4 : 3;
        if ((size_t)d.size() != n) return false;
        for (size_t j = 0; j < n; ++j) if (d.ith(j).characteristic() != (uint64_t)(par ? p1[j] : p0[j])) return false;
        return true;
    }
    Box* copy() const override { return new RnsBox(*this); }
    void assign(const Box& o) override { d = static_cast<const RnsBox&>(o).d; par = static_cast<const RnsBox&>(o).par; }
    void selfassign() override { R& alias = d; d = alias; }
    std::string probe() const override {
        std::ostringstream os;
        R::array rns(d.Primes().size());
        d.RingToRns(rns, Integer("123456789012345"));
        for (size_t j = 0; j < rns.size(); ++j) os << rns[j] << ' ';
        const R::array& ck = d.Reciprocals();
        for (size_t j = 1; j < ck.size(); ++j) os << ck[j] << ' ';
        os << d.reciprocal(1) << ' ' << d.size() << ' ';
        Integer res; d.MixedRadixToRing(res, rns); os << res;
        return os.str();
    }
    std::string xprobe(const Box& src) const override {
        const R& g = static_cast<const RnsBox&>(src).d;
        R::array rns(g.Primes().size());
        g.RingToRns(rns, Integer("987654321987"));
        Integer res; d.MixedRadixToRing(res, rns);
        std::ostringstream os; os << res;
        return os.str();
    }
};

// ---- factorisation domain (holds a `mutable` random generator): the deterministic decision functions only ----
struct FactorBox : Box {
    typedef Modular<int32_t> F_t;
    typedef Poly1FactorDom<F_t, Dense> P_t;
    P_t d;
    explicit FactorBox(int i) : d(F_t(i ? 65521 : 101), Indeter("X")) {}
    FactorBox(const FactorBox& o) : d(o.d) {}
    Box* copy() const override { return new FactorBox(*this); }
    void assign(const Box& o) override { d = static_cast<const FactorBox&>(o).d; }
    void selfassign() override { P_t& alias = d; d = alias; }
    bool normalised() const override { return norm_ok(static_cast<const Poly1Dom<F_t, Dense>&>(d)); }
    static void fill(const P_t& P, P_t::Element& A, int k) {
        const F_t& F = P.getdomain(); F_t::Element e;
        P.init(A, Degree(3));
        for (int i = 0; i <= 3; ++i) { F.init(e, Integer(k + 5 * i * i + (i == 3 ? 1 - k - 45 : 0))); A[size_t(i)] = e; }
    }
    std::string probe() const override {
        std::ostringstream os;
        P_t::Element A, B, R;
        fill(d, A, 3); fill(d, B, 2);
        os << (d.is_irreducible(A) ? 1 : 0) << (d.is_irreducible(B) ? 1 : 0) << ' ';
        d.mul(R, A, B); os << (d.is_irreducible(R) ? 1 : 0) << ' ';
        d.gcd(R, A, B); d.write(os, R);
        return os.str();
    }
    std::string xprobe(const Box& src) const override {
        const P_t& g = static_cast<const FactorBox&>(src).d;
        P_t::Element A; fill(g, A, 3);
        std::ostringstream os; os << (d.is_irreducible(A) ? 1 : 0);
        return os.str();
    }
};

// ---- independent values (C18: "independent big integers, rationals and fixed-precision integers may likewise be operated on
//      concurrently"): no domain state at all; every thread computes on its own objects ----
struct ValueBox : Box {
    int par;
    explicit ValueBox(int i) : par(i) {}
    Box* copy() const override { return new ValueBox(*this); }
    void assign(const Box& o) override { par = static_cast<const ValueBox&>(o).par; }
    void selfassign() override {}
    std::string probe() const override {
        std::ostringstream os;
        Integer a(par ? "340282366920938463463374607431768211507" : "123456789012345678901234567"), b(a * a + 7), g, u, v;
        gcd(g, u, v, a, b);
        os << (b % a) << ' ' << g << ' ' << pow(a, (uint64_t)5) % b << ' ' << (a << 70) / 3 << ' ' << sqrt(b) << ' ';
        Integer::mod(g, -b, a); os << g << ' ' << isperfectpower(a) << ' ' << a.bitsize() << ' ';
        Rational r(a, b), s(Integer(-5), Integer(6)), t;
        t = r * s + s / r - r; os << t << ' ' << (t < s) << ' ' << floor(t) << ' ' << Rational(0.375) << ' ';
        RecInt::ruint<7> x(par ? 4294967291u : 101u), y(12345u), z;
        z = x * y + x; z <<= 37; z = z / y; os << z << ' ' << (z % x) << ' ';
        RecInt::rint<6> m(-77), n(13); os << (m * n) << ' ' << (m / n);
        return os.str();
    }
    std::string xprobe(const Box&) const override { return ""; }
};

typedef std::function<Box*(int)> Maker;   // argument: parameter set 0 or 1

// process-wide mode a kind is run in (documented global state of the library, not a property of the object)
inline void enter_kind(const std::string& kind) {
    if (kind.size() > 9 && kind.compare(kind.size() - 9, 9, "_noreduce") == 0) Rational::SetNoReduce(); else Rational::SetReduce();
}

inline const std::map<std::string, Maker>& kinds() {
    static const std::map<std::string, Maker> K = {
        {"Modular_int32", [](int i) -> Box* { return new RingBox<Modular<int32_t>>(i ? 65521 : 101); }},
        {"Modular_uint32", [](int i) -> Box* { return new RingBox<Modular<uint32_t>>(i ? 65521u : 101u); }},
        {"Modular_int64", [](int i) -> Box* { return new RingBox<Modular<int64_t>>(i ? int64_t(2147483647) : int64_t(101)); }},
        {"Modular_uint64", [](int i) -> Box* { return new RingBox<Modular<uint64_t>>(i ? uint64_t(4294967291u) : uint64_t(101)); }},
        {"Modular_int16", [](int i) -> Box* { return new RingBox<Modular<int16_t>>(int16_t(i ? 181 : 101)); }},
        {"Modular_double", [](int i) -> Box* { return new RingBox<Modular<double>>(i ? 67108859. : 101.); }},
        {"Modular_float", [](int i) -> Box* { return new RingBox<Modular<float>>(i ? 4093.f : 101.f); }},
        {"Modular_Integer", [](int i) -> Box* { return new RingBox<Modular<Integer>>(i ? Integer("1267650600228229401496703205653") : Integer(101)); }},
        {"Modular_Log16", [](int i) -> Box* { return new RingBox<Modular<Log16>>(i ? 1009 : 101); }},
        // primes for which 2 is not a primitive root: the constructor draws the generator of its tables with rand(), so two rings
        // built independently for the same prime may use different tables (only visible when elements cross objects)
        {"Modular_Log16_b", [](int i) -> Box* { return new RingBox<Modular<Log16>>(i ? 23 : 17); }},
        // element type ruint<7> with the double-width compute type ruint<8> (its fused kernels keep a double-width product buffer)
        {"Modular_ruint7_ruint8", [](int i) -> Box* { return new RingBox<Modular<RecInt::ruint<7>, RecInt::ruint<8>>>(RecInt::ruint<7>(i ? uint64_t(18446744073709551557ULL) : uint64_t(101))); }},
        {"Modular_ruint7", [](int i) -> Box* { return new RingBox<Modular<RecInt::ruint<7>>>(RecInt::ruint<7>(i ? 4294967291u : 101u)); }},
        {"ModularBalanced_int32", [](int i) -> Box* { return new RingBox<ModularBalanced<int32_t>>(i ? 65521 : 101); }},
        {"ModularBalanced_int64", [](int i) -> Box* { return new RingBox<ModularBalanced<int64_t>>(i ? int64_t(2147483647) : int64_t(101)); }},
        // even moduli (powers of two, so that the probe's odd operands are units): a cached bound such as -⌊p/2⌋ that is right for odd
        // moduli only is invisible with the odd moduli above
        {"ModularBalanced_int64_even", [](int i) -> Box* { return new RingBox<ModularBalanced<int64_t>>(i ? int64_t(4294967296LL) : int64_t(16)); }},
        {"ModularBalanced_double_even", [](int i) -> Box* { return new RingBox<ModularBalanced<double>>(i ? 4096. : 16.); }},
        {"ModularBalanced_double", [](int i) -> Box* { return new RingBox<ModularBalanced<double>>(i ? 67108859. : 101.); }},
        {"ModularBalanced_float", [](int i) -> Box* { return new RingBox<ModularBalanced<float>>(i ? 4093.f : 101.f); }},
        {"ModularExtended_double", [](int i) -> Box* { return new RingBox<ModularExtended<double>>(i ? 1125899906842597. : 101.); }},
        {"Montgomery_int32", [](int i) -> Box* { return new RingBox<Montgomery<int32_t>>(i ? 40499 : 101); }},
        {"Montgomery_ruint7", [](int i) -> Box* { return new RingBox<Montgomery<RecInt::ruint<7>>>(RecInt::ruint<7>(i ? 4294967291u : 101u)); }},
        // GFqDom(p,k) and Extension(p,k) draw their modulus polynomial with the documented global random state, so two objects built
        // from (p,k) alone are different (isomorphic) fields: the zoo passes the modulus explicitly -- it IS a construction parameter
        {"GFqDom_int32", [](int i) -> Box* { typedef GFqDom<int32_t> F; typedef std::vector<F::Residu_t> V;
            return i ? new GFqBox<F>(3u, 4u, V{2, 1, 0, 0, 1}) : new GFqBox<F>(5u, 2u, V{2, 0, 1}); }},
        {"GFqDom_int64", [](int i) -> Box* { typedef GFqDom<int64_t> F; typedef std::vector<F::Residu_t> V;
            return i ? new GFqBox<F>(2u, 8u, V{1, 1, 0, 1, 1, 0, 0, 0, 1}) : new GFqBox<F>(7u, 2u, V{1, 0, 1}); }},
        // same characteristic, same degree, same table sizes -- different modulus polynomial: an assignment that keeps "what is already
        // the right size" keeps the wrong tables (X^3+2X^2+1 and X^3+X^2+2 over GF(3))
        {"GFqDom_int32_samepk", [](int i) -> Box* { typedef GFqDom<int32_t> F; typedef std::vector<F::Residu_t> V;
            return i ? new GFqBox<F>(3u, 3u, V{2, 0, 1, 1}) : new GFqBox<F>(3u, 3u, V{1, 0, 2, 1}); }},
        // the q-adic variant of the table field (derived class with its own tables and a hand-written assignment operator)
        {"GFqExtFast_int64", [](int i) -> Box* { typedef GFqExtFast<int64_t> F; typedef std::vector<F::Residu_t> V;
            return i ? new GFqxBox<F>(3u, 4u, V{2, 1, 0, 0, 1}) : new GFqxBox<F>(5u, 2u, V{2, 0, 1}); }},
        {"Extension_GFq", [](int i) -> Box* { typedef GFqDom<int32_t> B; typedef Extension<B> E; typedef Poly1Dom<B, Dense> P;
            B base(i ? 3 : 5, 1); P pd(base, Indeter("Y")); P::Element irr; B::Element e;
            const int c5[] = {2, 0, 1}, c3[] = {2, 1, 0, 0, 1};
            const int* c = i ? c3 : c5; const int n = i ? 5 : 3;
            // the user's polynomial is stored with two leading zero coefficients: the constructor must normalise it (a const operation
            // that meets an un-normalised member strips it, i.e. writes to the shared object)
            irr.resize(size_t(n + 2));
            for (int j = 0; j < n + 2; ++j) { base.init(e, Integer(j < n ? c[j] : 0)); irr[size_t(j)] = e; }
            return new ExtBox<E>(pd, irr); }},
        // extension of a NON-prime base field GF(3^2) resp. GF(2^2) (the exponent of the base differs from the order of the extension)
        {"Extension_GFq_nonprime", [](int i) -> Box* { typedef GFqDom<int64_t> B; typedef Extension<B> E; typedef Poly1Dom<B, Dense> P;
            typedef std::vector<B::Residu_t> V;
            B base = i ? B(2u, 2u, V{1, 1, 1}) : B(3u, 2u, V{2, 1, 1});
            // modulus of the extension: found once per process by the library's own search (deterministic default random state; the harnesses
            // build every object of a kind in processes forked after this first call), then passed explicitly
            static P::Element irrs[2];
            static bool have[2] = {false, false};
            P pd(base, Indeter("Y"));
            if (!have[i]) { E tmp(base, 3u, Indeter("Y")); irrs[i] = tmp.irreducible(); have[i] = true; }
            return new ExtBox<E>(pd, irrs[i]); }},
        {"Poly1Dom_Modular_int32", [](int i) -> Box* { return new PolyBox(i ? 65521 : 101); }},
        {"Values_Integer_Rational_RecInt", [](int i) -> Box* { return new ValueBox(i); }},
        {"IntRNSsystem", [](int i) -> Box* { return new IntRnsBox(i); }},
        {"RNSsystem_Modular_int32", [](int i) -> Box* { return new RnsBox(i); }},
        {"Poly1FactorDom_Modular_int32", [](int i) -> Box* { return new FactorBox(i); }},
        // no construction parameter; "_noreduce": the harnesses put the process in Rational::SetNoReduce() mode for this kind
        {"QField_Rational", [](int) -> Box* { return new QBox<QField<Rational>>(); }},
        {"QField_Rational_noreduce", [](int) -> Box* { return new QBox<QField<Rational>>(); }},
    };
    return K;
}

}  // namespace dz
