// Correspondence harness for C17: Array0<int>, Array0<Integer>, the pooled allocator (GivMMFreeList, GivMMRefCount)
// and allocation balance of conversions/arithmetic (Integer, Rational, RecInt).
//
// Every case is one line `key args…`; the output is `key args… = results…`.
//   hist <T> <nh> <op>…      = <obs per executed op>… end.<pool-leak>.<gmp-delta>
//        T = i (int) | Z (Givaro::Integer, element value v stands for v*(2^80+1))
//        ops (all numbers hex):  B.h.s.t  ~h; new(h) Array0(s,t)         N.h.g  ~h; new(h) Array0(g, givNoCopy())
//                                C.h.g    ~h; new(h) Array0(g, givWithCopy())      D.h  h.destroy()
//                                A.h.s allocate  R.h.s resize  V.h.s reserve  P.h.v push_back(v)
//                                Q.h.i    if (i < h.size()) h.push_back(h[i])        (argument inside the array)
//                                W.h.i.v  if (i < h.size()) h.write(i, v)
//                                Y.h.g copy   L.h.g logcopy   E.h.g operator=
//        obs = <poolleak>:<handle>|<handle>|…   handle = size.psz.cnt.share.c0,c1,….kd.kc   (cnt '-' when _cnt==0,
//              kd/kc = size-class index in the header of the data / counter block,
//              share = lowest handle index with the same _d when psz!=0, '-' otherwise, contents '-' when empty)
//              or X:<reason> when the harness sees a block that is referenced and on a free list, handed out twice,
//              a null counter under a non-empty handle, or the process crashed inside the operation (X:crash)
//   fl <op>…                 = <obs>…        GivMMFreeList:  a.k.sz  f.k  r.k.sz  z.k.sz (resize from null)
//        obs = idx.cap.id.ok  (class index read from the block header, TabSize[idx], canonical block id, pattern intact) or '-' / EXC;
//        last token end.<n>: blocks still missing from the free lists after every slot has been released
//   rc <op>…                 = <obs>…        GivMMRefCount:  a.k.sz  d.k  s.k.j (assign)  i.k.j (j := k, incrc)  r.k.sz  z.k.sz
//        obs = rc0,rc1,…;id0,id1,…;ok         (getrc and canonical block id per slot, '-' when null)
//   leak <name> <x> <y>      = <delta>       live GMP blocks after the scope minus before (second execution)
//
// Cases are executed in a forked worker; a crash or a detected pool corruption ends the worker, the parent reports the
// case and restarts a worker at the next case (so one broken history cannot poison the following ones).
#include "proto.h"
#include <gmp++/gmp++.h>
#include <givaro/givinteger.h>
#include <givaro/givrational.h>
#include <givaro/givarray0.h>
#include <givaro/givaromm.h>
#include <recint/recint.h>
#include <sys/mman.h>
#include <sys/wait.h>
#include <unistd.h>
#include <csignal>
#include <cstring>
#include <map>
#include <set>
#include <algorithm>
#include <functional>

using namespace Givaro;

// ---------------------------------------------------------------------------------------------------------
// counting of the pool's physical allocations: the link line wraps malloc for the *library objects and this file*
// (-Wl,--wrap=malloc); libstdc++/GMP are shared objects and are not affected.
static long g_pool_mallocs = 0;
extern "C" void* __real_malloc(size_t);
extern "C" void* __wrap_malloc(size_t n) { ++g_pool_mallocs; return __real_malloc(n); }

// GMP allocation counters
static long g_gmp_live = 0;
static void* gmp_alloc(size_t n) { ++g_gmp_live; return __real_malloc(n ? n : 1); }
static void* gmp_realloc(void* p, size_t o, size_t n) {   // always moves, so that a stale limb pointer is visible to ASan
    void* q = __real_malloc(n ? n : 1);
    memcpy(q, p, o < n ? o : n);
    memset(p, 0xDD, o);
    free(p);
    return q;
}
static void gmp_free(void* p, size_t n) { --g_gmp_live; memset(p, 0xDD, n); free(p); }   // a read of released limbs yields 0xDD…DD, deterministically

// ---------------------------------------------------------------------------------------------------------
// read-only access to the private free-list table (explicit instantiation may name private members)
template <class Tag, typename Tag::type P> struct Rob { friend typename Tag::type steal(Tag) { return P; } };
struct TabFreeTag { typedef BlocFreeList* (*type)[]; friend type steal(TabFreeTag); };
template struct Rob<TabFreeTag, &BlocFreeList::TabFree>;

static const int NCLASS = 512;
static void* tabfree(int i) { return (void*)(*steal(TabFreeTag()))[i]; }

// all blocks on the free lists (header addresses, sorted); false when a list is cyclic / a block is listed twice
struct FreeSet {
    std::vector<void*> v;
    size_t size() const { return v.size(); }
    size_t count(void* p) const { return std::binary_search(v.begin(), v.end(), p) ? 1 : 0; }
};
static bool free_blocks(FreeSet& F) {
    F.v.clear();
    for (int i = 0; i < NCLASS; ++i) {
        void* b = tabfree(i);
        size_t guard = 0;
        while (b) {
            F.v.push_back(b);
            if (++guard > 100000) return false;
            b = *(void**)b;
        }
    }
    std::sort(F.v.begin(), F.v.end());
    return std::adjacent_find(F.v.begin(), F.v.end()) == F.v.end();
}
static void* hdr(const void* user) { return user ? (void*)((char*)user - 8) : nullptr; }

// ---------------------------------------------------------------------------------------------------------
struct Shared { long cur; char buf[1 << 16]; };
static Shared* SH;
static void sh_set(const std::string& s) {
    size_t n = s.size() < sizeof(SH->buf) - 1 ? s.size() : sizeof(SH->buf) - 1;
    memcpy(SH->buf, s.data(), n);
    SH->buf[n] = 0;
}
[[noreturn]] static void worker_abort() { fflush(stdout); _exit(77); }

// ---------------------------------------------------------------------------------------------------------
template <class T> struct Elt;
template <> struct Elt<int> {
    static int mk(long v) { return (int)v; }
    static std::string show(const int& x) { return vp::hex_ll(x); }
};
template <> struct Elt<Integer> {
    static Integer mk(long v) { Integer r(1); r <<= 80; r += 1; r *= Integer((int64_t)v); return r; }
    static std::string show(const Integer& x) { return vp::hex(x.get_mpz_const()); }
};

template <class T> struct Probe : Array0<T> {
    Probe() : Array0<T>() {}
    Probe(size_t s, const T& t) : Array0<T>(s, t) {}
    Probe(const Array0<T>& p, givNoCopy c) : Array0<T>(p, c) {}
    Probe(const Array0<T>& p, givWithCopy c) : Array0<T>(p, c) {}
    int* cnt() const { return this->_cnt; }
    const T* dat() const { return this->_d; }
    size_t psz() const { return this->_psz; }
};

static std::vector<long> fields(const std::string& tok) {   // "B.1.5.7" -> [1,5,7]
    std::vector<long> r;
    size_t p = tok.find('.');
    while (p != std::string::npos) {
        size_t q = tok.find('.', p + 1);
        r.push_back(strtol(tok.substr(p + 1, q == std::string::npos ? q : q - p - 1).c_str(), nullptr, 16));
        p = q;
    }
    return r;
}

template <class T> static void run_hist(const vp::Args& a) {
    typedef Probe<T> A;
    const int nh = (int)strtol(a.s(1).c_str(), nullptr, 16);
    std::string line;
    for (size_t i = 0; i < a.tok.size(); ++i) { if (i) line += ' '; line += a.tok[i]; }
    line += " =";
    const long gmp0 = g_gmp_live;
    FreeSet F;
    free_blocks(F);
    const long base = g_pool_mallocs - (long)F.size();   // blocks the pool has given out before this history (should be 0)
    alignas(A) static unsigned char store[8][sizeof(A)];
    A* H[8];
    for (int h = 0; h < nh; ++h) H[h] = new (store[h]) A();
    auto fail = [&](const std::string& why) {
        line += " X:" + why + "\n";
        fputs(line.c_str(), stdout);
        worker_abort();
    };
    for (size_t k = 2; k < a.n(); ++k) {
        const std::string& op = a.s(k);
        std::vector<long> f = fields(op);
        sh_set(line);
        const int h = (int)f.at(0);
        if (h >= nh) fail("badop");
        switch (op[0]) {
        case 'B': H[h]->~A(); H[h] = new (store[h]) A((size_t)f.at(1), Elt<T>::mk(f.at(2))); break;
        case 'N': if (f.at(1) == h) fail("badop"); H[h]->~A(); H[h] = new (store[h]) A(*H[f.at(1)], givNoCopy()); break;
        case 'C': if (f.at(1) == h) fail("badop"); H[h]->~A(); H[h] = new (store[h]) A(*H[f.at(1)], givWithCopy()); break;
        case 'D': H[h]->destroy(); break;
        case 'A': H[h]->allocate((size_t)f.at(1)); break;
        case 'R': H[h]->resize((size_t)f.at(1)); break;
        case 'V': H[h]->reserve((size_t)f.at(1)); break;
        case 'P': H[h]->push_back(Elt<T>::mk(f.at(1))); break;
        case 'Q': if ((size_t)f.at(1) < H[h]->size()) H[h]->push_back((*H[h])[(size_t)f.at(1)]); break;   // the argument refers into the array
        case 'W': if ((size_t)f.at(1) < H[h]->size()) H[h]->write((size_t)f.at(1), Elt<T>::mk(f.at(2))); break;
        case 'Y': H[h]->copy(*H[f.at(1)]); break;
        case 'L': H[h]->logcopy(*H[f.at(1)]); break;
        case 'E': *static_cast<Array0<T>*>(H[h]) = *H[f.at(1)]; break;
        default: fail("badop");
        }
        // ---- inspect the pool before touching any element
        if (!free_blocks(F)) fail("freelist-corrupt");
        std::set<void*> dblk, cblk;
        for (int g = 0; g < nh; ++g) {
            A& x = *H[g];
            if (x.psz() != 0 || x.size() != 0) {
                if (x.cnt() == nullptr || x.dat() == nullptr) fail("null-under-nonempty.h" + std::to_string(g));
                if (F.count(hdr(x.dat()))) fail("data-block-released-while-referenced.h" + std::to_string(g));
                if (F.count(hdr(x.cnt()))) fail("counter-released-while-referenced.h" + std::to_string(g));
                if (x.size() > x.psz()) fail("size-above-capacity.h" + std::to_string(g));
                dblk.insert(hdr(x.dat()));
                cblk.insert(hdr(x.cnt()));
            }
        }
        for (void* b : dblk) if (cblk.count(b)) fail("block-handed-out-twice");
        for (int g = 0; g < nh; ++g) for (int g2 = 0; g2 < g; ++g2) {
            A &x = *H[g], &y = *H[g2];
            if (x.psz() && y.psz() && ((x.dat() == y.dat()) != (x.cnt() == y.cnt()))) fail("data/counter-sharing-mismatch");
        }
        long leak = g_pool_mallocs - (long)F.size() - (long)dblk.size() - (long)cblk.size() - base;
        line += ' ';
        line += vp::hex_ll(leak);
        line += ':';
        for (int g = 0; g < nh; ++g) {
            A& x = *H[g];
            if (g) line += '|';
            line += vp::hex_ull(x.size()) + "." + vp::hex_ull(x.psz()) + ".";
            line += x.cnt() ? vp::hex_ll(x.getCounter()) : std::string("-");
            line += '.';
            int sh = -1;
            if (x.psz()) for (int g2 = 0; g2 <= g; ++g2) if (H[g2]->psz() && H[g2]->dat() == x.dat()) { sh = g2; break; }
            line += sh < 0 ? std::string("-") : vp::hex_ll(sh);
            line += '.';
            if (x.size() == 0) line += '-';
            for (size_t i = 0; i < x.size(); ++i) { if (i) line += ','; line += Elt<T>::show(x[i]); }
            // class indices stored in the headers of the data block and of the counter block
            if (x.psz()) line += "." + vp::hex_ll(*(int*)hdr(x.dat())) + "." + vp::hex_ll(*(int*)hdr(x.cnt()));
            else line += ".-.-";
        }
    }
    sh_set(line);
    for (int h = 0; h < nh; ++h) H[h]->~A();
    if (!free_blocks(F)) fail("freelist-corrupt-at-end");
    long leak = g_pool_mallocs - (long)F.size() - base;
    line += " end." + vp::hex_ll(leak) + "." + vp::hex_ll(g_gmp_live - gmp0) + "\n";
    fputs(line.c_str(), stdout);
}

// ---------------------------------------------------------------------------------------------------------
// the allocators
struct Canon {
    std::map<void*, int> id;
    std::string operator()(void* p) {
        if (!p) return "-";
        auto it = id.find(p);
        if (it == id.end()) it = id.insert({p, (int)id.size()}).first;
        return vp::hex_ll(it->second);
    }
};
static void fill(void* p, size_t n, int k) { unsigned char* c = (unsigned char*)p; for (size_t i = 0; i < n && i < 512; ++i) c[i] = (unsigned char)(k * 37 + i * 11 + 5); }
static bool intact(void* p, size_t n, int k) { unsigned char* c = (unsigned char*)p; for (size_t i = 0; i < n && i < 512; ++i) if (c[i] != (unsigned char)(k * 37 + i * 11 + 5)) return false; return true; }

static void run_fl(const vp::Args& a) {
    std::string line;
    for (size_t i = 0; i < a.tok.size(); ++i) { if (i) line += ' '; line += a.tok[i]; }
    line += " =";
    void* P[8] = {0}; size_t S[8] = {0}; int K[8] = {0};
    Canon canon;
    const size_t* tabsize = GivMMFreeList::Usage().tabbloc;
    FreeSet F;
    auto fail = [&](const std::string& why) { line += " X:" + why + "\n"; fputs(line.c_str(), stdout); worker_abort(); };
    int stamp = 0;
    free_blocks(F);
    const long base = g_pool_mallocs - (long)F.size();
    for (size_t k = 0; k < a.n(); ++k) {
        const std::string& op = a.s(k);
        std::vector<long> f = fields(op);
        sh_set(line);
        const int s = (int)f.at(0);
        std::string obs = "-";
        bool ok = true;
        for (int j = 0; j < 8; ++j) if (P[j] && !intact(P[j], S[j], K[j])) ok = false;   // nobody scribbled over a held block
        const size_t oldS = S[s];
        try {
            switch (op[0]) {
            case 'a': if (P[s]) break; P[s] = GivMMFreeList::allocate((size_t)f.at(1)); S[s] = (size_t)f.at(1); K[s] = 0; break;
            case 'f': GivMMFreeList::desallocate(P[s]); P[s] = 0; S[s] = 0; break;
            case 'r': if (!P[s]) break; P[s] = GivMMFreeList::resize(P[s], S[s], (size_t)f.at(1)); if ((size_t)f.at(1) > S[s]) S[s] = (size_t)f.at(1); break;
            case 'z': if (P[s]) break; P[s] = GivMMFreeList::resize(0, 0, (size_t)f.at(1)); S[s] = (size_t)f.at(1); K[s] = 0; break;
            default: fail("badop");
            }
        } catch (GivError&) { line += " EXC"; continue; }
        if (!free_blocks(F)) fail("freelist-corrupt");
        for (int j = 0; j < 8; ++j) if (P[j]) {
            if (F.count(hdr(P[j]))) fail("block-on-free-list-while-held.s" + std::to_string(j));
            for (int j2 = 0; j2 < j; ++j2) if (P[j2] == P[j]) fail("block-handed-out-twice");
        }
        if (P[s] && op[0] != 'f') {
            int idx = *(int*)hdr(P[s]);
            if (idx < 0 || idx >= NCLASS) fail("bad-class-index");
            if (op[0] == 'r' && K[s] != 0 && !intact(P[s], oldS, K[s])) ok = false;          // a moved block keeps its old bytes
            K[s] = ++stamp; fill(P[s], S[s], K[s]);
            obs = vp::hex_ll(idx) + "." + vp::hex_ull(tabsize[idx]) + "." + canon(hdr(P[s])) + "." + (ok ? "1" : "0");
        } else if (!ok) obs = "bad";
        line += ' ';
        line += obs;
    }
    for (int j = 0; j < 8; ++j) GivMMFreeList::desallocate(P[j]);
    if (!free_blocks(F)) fail("freelist-corrupt-at-end");
    line += " end." + vp::hex_ll(g_pool_mallocs - (long)F.size() - base);     // blocks that were never given back
    line += "\n";
    fputs(line.c_str(), stdout);
}

static void run_rc(const vp::Args& a) {
    std::string line;
    for (size_t i = 0; i < a.tok.size(); ++i) { if (i) line += ' '; line += a.tok[i]; }
    line += " =";
    void* P[8] = {0}; size_t S[8] = {0};
    const int NS = 4;
    Canon canon;
    FreeSet F;
    auto fail = [&](const std::string& why) { line += " X:" + why + "\n"; fputs(line.c_str(), stdout); worker_abort(); };
    free_blocks(F);
    const long base = g_pool_mallocs - (long)F.size();
    for (size_t k = 0; k < a.n(); ++k) {
        const std::string& op = a.s(k);
        std::vector<long> f = fields(op);
        sh_set(line);
        const int s = (int)f.at(0);
        switch (op[0]) {
        case 'a': if (P[s]) break; P[s] = GivMMRefCount::allocate((size_t)f.at(1)); S[s] = (size_t)f.at(1); memset(P[s], 0x40 + s, S[s] < 64 ? S[s] : 64); break;
        case 'd': GivMMRefCount::desallocate(P[s]); P[s] = 0; S[s] = 0; break;
        case 's': GivMMRefCount::assign(&P[s], P[f.at(1)]); S[s] = S[f.at(1)]; break;
        case 'i': if (P[f.at(1)] || !P[s]) break; GivMMRefCount::incrc(P[s]); P[f.at(1)] = P[s]; S[f.at(1)] = S[s]; break;
        case 'r': if (!P[s]) break; { size_t n = (size_t)f.at(1); P[s] = GivMMRefCount::resize(P[s], S[s], n); S[s] = n; } break;
        case 'z': if (P[s]) break; P[s] = GivMMRefCount::resize(0, 0, (size_t)f.at(1)); S[s] = (size_t)f.at(1); break;
        default: fail("badop");
        }
        if (!free_blocks(F)) fail("freelist-corrupt");
        for (int j = 0; j < NS; ++j) if (P[j] && F.count((char*)P[j] - 16)) fail("block-on-free-list-while-held.s" + std::to_string(j));
        line += ' ';
        for (int j = 0; j < NS; ++j) { if (j) line += ','; line += P[j] ? vp::hex_ll(GivMMRefCount::getrc(P[j])) : std::string("-"); }
        line += ';';
        for (int j = 0; j < NS; ++j) { if (j) line += ','; line += canon(P[j] ? (char*)P[j] - 16 : nullptr); }
    }
    // release what is still held (each slot holds one reference)
    for (int j = 0; j < NS; ++j) { GivMMRefCount::desallocate(P[j]); P[j] = 0; }
    if (!free_blocks(F)) fail("freelist-corrupt-at-end");
    line += " end." + vp::hex_ll(g_pool_mallocs - (long)F.size() - base);
    line += "\n";
    fputs(line.c_str(), stdout);
}

// ---------------------------------------------------------------------------------------------------------
// allocation balance of conversions and arithmetic: every scope constructs its operands, works, and destroys everything
typedef std::function<void(const Integer&, const Integer&)> LeakFn;
template <size_t K> static void rec_scopes(std::map<std::string, LeakFn>& T, const std::string& k) {
    using RecInt::ruint; using RecInt::rint;
    T["caster_Z_ruint" + k] = [](const Integer& x, const Integer& y) { ruint<K> r(x); Integer t(y); Caster(t, r); volatile bool z = (t == x); (void)z; };
    T["caster_Z_rint" + k] = [](const Integer& x, const Integer& y) { rint<K> r(x); Integer t(y); Caster(t, r); };
    T["caster_ruint_Z" + k] = [](const Integer& x, const Integer& y) { ruint<K> r(y); Caster(r, x); };
    T["caster_rint_Z" + k] = [](const Integer& x, const Integer& y) { rint<K> r(y); Caster(r, x); };
    T["ctor_Z_ruint" + k] = [](const Integer& x, const Integer&) { ruint<K> r(x); Integer t(r); };
    T["ctor_Z_rint" + k] = [](const Integer& x, const Integer&) { rint<K> r(x); Integer t(r); };
    T["conv_ruint_Z" + k] = [](const Integer& x, const Integer&) { ruint<K> r; r = (ruint<K>)x; Integer t; t = (Integer)r; };
    T["ruint_to_mpz" + k] = [](const Integer& x, const Integer& y) { ruint<K> r(x); mpz_class m(y.get_mpz_const()); RecInt::ruint_to_mpz(m, r); RecInt::mpz_to_ruint(r, m); };
    T["rint_to_mpz" + k] = [](const Integer& x, const Integer& y) { rint<K> r(x); mpz_class m(y.get_mpz_const()); RecInt::rint_to_mpz(m, r); RecInt::mpz_to_rint(r, m); };
    T["ruint_arith" + k] = [](const Integer& x, const Integer& y) { ruint<K> a(x), b(y), c; c = a * b + a; c -= b; if (b != 0) { c /= b; c %= b; } Integer t(c); };
    T["rint_arith" + k] = [](const Integer& x, const Integer& y) { rint<K> a(x), b(y), c; c = a * b + a; c -= b; if (b != 0) { c /= b; } Integer t(c); };
}
static std::map<std::string, LeakFn> leak_table() {
    std::map<std::string, LeakFn> T;
    rec_scopes<6>(T, "6"); rec_scopes<7>(T, "7"); rec_scopes<8>(T, "8");
    T["Z_copy_assign"] = [](const Integer& x, const Integer& y) { Integer a(x), b(y); a = b; b = a + 1; Integer c(b); c = c; };
    T["Z_arith"] = [](const Integer& x, const Integer& y) { Integer a(x), b(y), c; c = a * b; c += a; c -= b; c = c * c; if (!isZero(b)) { c /= b; c %= b; } c = -c; Integer::axpy(c, a, b, c); Integer::maxpyin(c, a, b); };
    T["Z_divmod"] = [](const Integer& x, const Integer& y) { if (isZero(y)) return; Integer q, r; Integer::divmod(q, r, x, y); Integer::divexact(q, x * y, y); q = x / y; r = x % y; };
    T["Z_gcd"] = [](const Integer& x, const Integer& y) { Integer g, u, v; g = gcd(x, y); gcd(g, u, v, x, y); g = lcm(x, y); };
    T["Z_pow"] = [](const Integer& x, const Integer& y) { Integer a = pow(x, (uint64_t)5); Integer m = abs(y) + 2; Integer r = powmod(x, (uint64_t)77, m); r = sqrt(abs(x)); };
    T["Z_conv_words"] = [](const Integer& x, const Integer&) { Integer a((int64_t)(int64_t)x); Integer b((uint64_t)(uint64_t)x); Integer c((double)x); a = (int32_t)x; b = (uint32_t)x; volatile double d = (double)c; (void)d; };
    T["Z_string"] = [](const Integer& x, const Integer&) { std::ostringstream o; o << x; Integer a(o.str().c_str()); std::string s = (std::string)x; (void)s; };
    T["Z_mpz_class"] = [](const Integer& x, const Integer&) { mpz_class m(x.get_mpz_const()); Integer a(m); };
    T["Z_shift_bits"] = [](const Integer& x, const Integer& y) { Integer a(x); a <<= 70; a >>= 3; a = a | y; a = a & x; a ^= y; };
    T["Q_ctor"] = [](const Integer& x, const Integer& y) { Integer d = isZero(y) ? Integer(1) : y; Rational r(x, d); Rational s(r); Rational t(x); t = s; Rational u((double)0.375); Rational w((int64_t)5, (int64_t)-10); };
    T["Q_arith"] = [](const Integer& x, const Integer& y) { Integer d = isZero(y) ? Integer(1) : y; Rational r(x, d), s(y, abs(x) + 1), t; t = r + s; t = t - r; t = t * s; if (!isZero(s)) t = t / s; t += r; t -= s; t *= r; t = -t; volatile bool b = (t < r); (void)b; };
    T["Q_conv"] = [](const Integer& x, const Integer& y) { Integer d = isZero(y) ? Integer(1) : y; Rational r(x, d); Integer n = r.nume(), e = r.deno(); volatile double f = (double)r; (void)f; Integer fl = floor(r), ce = ceil(r), ro = round(r); std::ostringstream o; o << r; };
    return T;
}
static void run_leak(const vp::Args& a, const std::map<std::string, LeakFn>& T) {
    auto it = T.find(a.s(0));
    if (it == T.end()) { vp::emit(a, "NOFUNC"); return; }
    std::string line;
    for (size_t i = 0; i < a.tok.size(); ++i) { if (i) line += ' '; line += a.tok[i]; }
    sh_set(line + " =");
    long delta;
    {
        Integer x, y;
        mpz_set_str(x.get_mpz(), a.s(1).c_str(), 16);
        mpz_set_str(y.get_mpz(), a.s(2).c_str(), 16);
        it->second(x, y);           // warm-up (function-local statics)
        long before = g_gmp_live;
        it->second(x, y);
        delta = g_gmp_live - before;
    }
    vp::emit(a, vp::hex_ll(delta));
}

// ---------------------------------------------------------------------------------------------------------
// generators
static const char* HEX = "0123456789abcdef";
static std::string hx(long v) { return vp::hex_ll(v); }

struct OpGen {
    int nh;
    std::vector<std::string> alpha;   // every op token
    OpGen(int nh_, const std::vector<int>& bs, const std::vector<int>& rs, const std::vector<int>& as, const std::vector<int>& vs, bool full) : nh(nh_) {
        for (int h = 0; h < nh; ++h) {
            for (int s : bs) alpha.push_back("B." + hx(h) + "." + hx(s) + "." + hx(3 + h));
            for (int s : rs) alpha.push_back("R." + hx(h) + "." + hx(s));
            for (int s : as) alpha.push_back("A." + hx(h) + "." + hx(s));
            for (int s : vs) alpha.push_back("V." + hx(h) + "." + hx(s));
            alpha.push_back("D." + hx(h));
            alpha.push_back("P." + hx(h) + "." + hx(9 + h));
            alpha.push_back("Q." + hx(h) + ".0");
            alpha.push_back("W." + hx(h) + ".0." + hx(12 + h));
            if (full) alpha.push_back("W." + hx(h) + ".1." + hx(6 + h));
            for (int g = 0; g < nh; ++g) {
                if (g != h) { alpha.push_back("N." + hx(h) + "." + hx(g)); alpha.push_back("C." + hx(h) + "." + hx(g)); }
                alpha.push_back("L." + hx(h) + "." + hx(g));
                alpha.push_back("Y." + hx(h) + "." + hx(g));
                if (full || g <= h) alpha.push_back("E." + hx(h) + "." + hx(g));
            }
        }
    }
};
// handles are interchangeable: keep only histories that introduce handles in increasing order
static bool canonical(const std::vector<const std::string*>& ops) {
    int seen = 0;   // handles 0..seen-1 have been mentioned
    for (const std::string* o : ops) {
        std::vector<long> f = fields(*o);
        char c = (*o)[0];
        int h = (int)f[0];
        if (h > seen) return false;
        if (h == seen) ++seen;
        if (c == 'N' || c == 'C' || c == 'L' || c == 'Y' || c == 'E') {
            int g = (int)f[1];
            if (g > seen) return false;
            if (g == seen) ++seen;
        }
    }
    return true;
}
static void gen_exhaustive(std::vector<std::string>& out, const char* T, const OpGen& G, int maxlen) {
    std::vector<const std::string*> cur;
    std::function<void()> rec = [&]() {
        if (!cur.empty()) {
            std::string l = std::string("hist ") + T + " " + hx(G.nh);
            for (auto* o : cur) { l += ' '; l += *o; }
            out.push_back(l);
        }
        if ((int)cur.size() == maxlen) return;
        for (const std::string& o : G.alpha) {
            cur.push_back(&o);
            if (canonical(cur)) rec();
            cur.pop_back();
        }
    };
    rec();
}
static void gen_random(std::vector<std::string>& out, const char* T, vp::Rng& R, long count) {
    static const int sizes[] = {0, 0, 1, 2, 3, 5, 5, 8, 9, 33};
    for (long c = 0; c < count; ++c) {
        int nh = 2 + (int)R.below(3);
        int len = 5 + (int)R.below(12);
        std::string l = std::string("hist ") + T + " " + hx(nh);
        for (int k = 0; k < len; ++k) {
            int h = (int)R.below(nh), g = (int)R.below(nh), s = sizes[R.below(10)], v = 1 + (int)R.below(14);
            int g2 = (g == h) ? (h + 1) % nh : g;
            switch (R.below(16)) {
            case 0: l += " B." + hx(h) + "." + hx(s) + "." + hx(v); break;
            case 1: l += " N." + hx(h) + "." + hx(g2); break;
            case 2: l += " C." + hx(h) + "." + hx(g2); break;
            case 3: l += " D." + hx(h); break;
            case 4: l += " A." + hx(h) + "." + hx(s); break;
            case 5: case 6: l += " R." + hx(h) + "." + hx(s); break;
            case 7: l += " V." + hx(h) + "." + hx(s); break;
            case 8: l += " P." + hx(h) + "." + hx(v); break;
            case 9: l += " Q." + hx(h) + "." + hx(R.below(4)); break;
            case 10: case 11: l += " W." + hx(h) + "." + hx(R.below(6)) + "." + hx(v); break;
            case 12: l += " Y." + hx(h) + "." + hx(g); break;
            case 13: case 14: l += " L." + hx(h) + "." + hx(g); break;
            default: l += " E." + hx(h) + "." + hx(g); break;
            }
        }
        out.push_back(l);
    }
}
static void gen_fl(std::vector<std::string>& out, vp::Rng& R, bool thorough) {
    const size_t* ts = GivMMFreeList::Usage().tabbloc;
    // class boundaries: the block returned for T[i]-1, T[i], T[i]+1  (smallest fit)
    for (int i = 0; i < NCLASS; ++i) {
        if (!thorough && i > 150 && i % 32 != 7 && i < 509) continue;
        for (long d = -1; d <= 1; ++d) {
            long sz = (long)ts[i] + d;
            if (sz < 0) continue;
            out.push_back("fl a.0." + hx(sz) + " f.0");
        }
    }
    static const long sizes[] = {0, 1, 2, 4, 7, 8, 16, 24, 31, 32, 33, 40, 63, 64, 65, 96, 97, 128, 1000, 4096, 65536};
    // exhaustive short sequences over 3 slots and 5 sizes
    static const long small[] = {0, 4, 32, 33, 64};
    // every sequence up to length 3 over 3 slots; in the thorough tier also up to length 4 over 2 slots
    for (int pass = 0; pass < (thorough ? 2 : 1); ++pass) {
        const int nslots = pass == 0 ? 3 : 2;
        const int L = pass == 0 ? 3 : 4;
        std::vector<std::string> alpha;
        for (int s = 0; s < nslots; ++s) {
            for (long z : small) { alpha.push_back("a." + hx(s) + "." + hx(z)); alpha.push_back("r." + hx(s) + "." + hx(z)); }
            alpha.push_back("z." + hx(s) + ".4"); alpha.push_back("z." + hx(s) + ".21");
            alpha.push_back("f." + hx(s));
        }
        std::vector<int> ix;
        std::function<void()> rec = [&]() {
            if (!ix.empty() && (pass == 0 || (int)ix.size() == L)) { std::string l = "fl"; for (int i : ix) l += " " + alpha[i]; out.push_back(l); }
            if ((int)ix.size() == L) return;
            for (int i = 0; i < (int)alpha.size(); ++i) {
                if (ix.empty() && alpha[i][2] != '0') continue;           // first op on slot 0 (slots are interchangeable)
                ix.push_back(i); rec(); ix.pop_back();
            }
        };
        rec();
    }
    long n = thorough ? 60000 : 6000;
    for (long c = 0; c < n; ++c) {
        std::string l = "fl";
        int len = 4 + (int)R.below(14);
        for (int k = 0; k < len; ++k) {
            int s = (int)R.below(5);
            long z = sizes[R.below(sizeof sizes / sizeof *sizes)];
            switch (R.below(6)) {
            case 0: case 1: l += " a." + hx(s) + "." + hx(z); break;
            case 2: case 3: l += " f." + hx(s); break;
            case 4: l += " r." + hx(s) + "." + hx(z); break;
            default: l += " z." + hx(s) + "." + hx(z); break;
            }
        }
        out.push_back(l);
    }
    out.push_back("fl a.0.7ae8a0 f.0 a.1.7ae8a1 a.0.7ae8a0");   // the largest class and one byte more (throws)
    // GivMMRefCount
    static const long rsz[] = {0, 1, 8, 24, 25, 56, 57, 200};
    n = thorough ? 60000 : 8000;
    for (long c = 0; c < n; ++c) {
        std::string l = "rc";
        int len = 2 + (int)R.below(10);
        for (int k = 0; k < len; ++k) {
            int s = (int)R.below(4), j = (int)R.below(4);
            long z = rsz[R.below(8)];
            switch (R.below(8)) {
            case 0: case 1: l += " a." + hx(s) + "." + hx(z); break;
            case 2: l += " d." + hx(s); break;
            case 3: l += " s." + hx(s) + "." + hx(j); break;
            case 4: l += " i." + hx(s) + "." + hx(j); break;
            case 5: case 6: l += " r." + hx(s) + "." + hx(z); break;
            default: l += " z." + hx(s) + "." + hx(z); break;
            }
        }
        out.push_back(l);
    }
}
static std::string rnd_hex(vp::Rng& R, int limbs, bool neg) {
    std::string s = neg ? "-" : "";
    static const uint64_t pat[] = {0, 1, 0x8000000000000000ULL, 0xffffffffffffffffULL};
    bool lead = true;
    for (int i = 0; i < limbs; ++i) {
        uint64_t w = R.below(3) ? R.next() : pat[R.below(4)];
        char buf[20];
        snprintf(buf, sizeof buf, lead ? "%llx" : "%016llx", (unsigned long long)w);
        if (lead && w == 0 && i + 1 < limbs) continue;
        s += buf; lead = false;
    }
    if (lead) s += "0";
    if (s == "-0") s = "0";
    return s;
}
static void gen_leak(std::vector<std::string>& out, vp::Rng& R, const std::map<std::string, LeakFn>& T, bool thorough) {
    std::vector<std::string> grid = {"0", "1", "-1", "ffffffffffffffff", "10000000000000000", "-8000000000000000",
                                     "123456789abcdef0123456789abcdef0123456789abcdef", "-fedcba9876543210fedcba9876543210fedcba9876543210fedcba9876543210fedcba98"};
    for (auto& kv : T) {
        for (auto& x : grid) for (auto& y : grid) out.push_back("leak " + kv.first + " " + x + " " + y);
        long n = thorough ? 200 : 20;
        for (long c = 0; c < n; ++c)
            out.push_back("leak " + kv.first + " " + rnd_hex(R, 1 + (int)R.below(9), R.below(3) == 0) + " " + rnd_hex(R, 1 + (int)R.below(9), R.below(3) == 0));
    }
}

static std::vector<std::string> generate(const std::string& tier, uint64_t seed, const std::map<std::string, LeakFn>& LT) {
    std::vector<std::string> out;
    vp::Rng R(seed * 0x9E3779B97F4A7C15ULL + 17);
    bool th = tier == "thorough";
    (void)HEX;
    for (const char* T : {"i", "Z"}) {
        bool Z = T[0] == 'Z';
        if (!th) {
            // 2 handles, every sequence up to length 4 (int) / 3 (Integer) over sizes {0,1,2,5}; 3 handles up to length 3 (reduced sizes)
            gen_exhaustive(out, T, OpGen(2, {0, 1, 2, 5}, {0, 1, 2, 5}, {0, 5}, {2}, false), 3);
            gen_exhaustive(out, T, OpGen(3, {0, 2}, {0, 1, 5}, {1}, {}, false), 3);
            gen_random(out, T, R, Z ? 6000 : 12000);
        } else {
            gen_exhaustive(out, T, OpGen(2, {0, 1, 2, 5}, {0, 1, 2, 5}, {0, 5}, {2}, false), Z ? 3 : 4);
            gen_exhaustive(out, T, OpGen(2, {0, 1, 2, 5}, {0, 1, 2, 5}, {0, 1, 2, 5}, {0, 2, 5}, true), 3);
            gen_exhaustive(out, T, OpGen(3, {0, 1, 2, 5}, {0, 1, 2, 5}, {0, 2, 5}, {2}, true), 3);
            gen_random(out, T, R, Z ? 60000 : 100000);
        }
    }
    gen_fl(out, R, th);
    gen_leak(out, R, LT, th);
    return out;
}

// ---------------------------------------------------------------------------------------------------------
int main(int argc, char** argv) {
    mp_set_memory_functions(gmp_alloc, gmp_realloc, gmp_free);
    std::map<std::string, LeakFn> LT = leak_table();
    std::vector<std::string> cases;
    if (argc >= 3 && std::string(argv[1]) != "-") {
        cases = generate(argv[1], strtoull(argv[2], nullptr, 10), LT);
    } else {
        std::string l;
        while (std::getline(std::cin, l)) if (!l.empty() && l[0] != '#') cases.push_back(l);
    }
    if (argc >= 2 && std::string(argv[1]) == "--list") { for (auto& c : cases) puts(c.c_str()); return 0; }
    SH = (Shared*)mmap(nullptr, sizeof(Shared), PROT_READ | PROT_WRITE, MAP_SHARED | MAP_ANONYMOUS, -1, 0);
    if (SH == MAP_FAILED) { perror("mmap"); return 3; }
    // a broken tree can fail in very many cases: after 150 restarts inside one section (hist i / hist Z / fl / rc / leak)
    // the rest of that section is skipped (reported by a `capped` line, which the driver rejects)
    auto section = [&](long i) { const std::string& c = cases[i]; return c.substr(0, c.compare(0, 4, "hist") == 0 ? 6 : c.find(' ')); };
    long start = 0;
    std::map<std::string, long> restarts;
    const long N = (long)cases.size();
    while (start < N) {
        fflush(stdout);
        SH->cur = start; SH->buf[0] = 0;
        pid_t pid = fork();
        if (pid < 0) { perror("fork"); return 3; }
        if (pid == 0) {
            static char obuf[1 << 16];
            setvbuf(stdout, obuf, _IOLBF, sizeof obuf);   // a crash must not lose (or cut) the lines already produced
            for (long i = start; i < N; ++i) {
                if (i % 256 == 0) alarm(120);
                SH->cur = i;
                vp::Args a;
                std::istringstream ss(cases[i]);
                std::string t;
                while (ss >> t) a.tok.push_back(t);
                if (a.tok.empty()) { puts("? = BADLINE"); continue; }
                sh_set(cases[i] + " =");
                try {
                    if (a.tok[0] == "hist") { if (a.s(0) == "i") run_hist<int>(a); else run_hist<Integer>(a); }
                    else if (a.tok[0] == "fl") run_fl(a);
                    else if (a.tok[0] == "rc") run_rc(a);
                    else if (a.tok[0] == "leak") run_leak(a, LT);
                    else vp::emit(a, "NOFUNC");
                } catch (std::exception& e) { fputs((std::string(SH->buf) + " X:exception\n").c_str(), stdout); worker_abort(); }
                catch (...) { fputs((std::string(SH->buf) + " X:exception\n").c_str(), stdout); worker_abort(); }
            }
            fflush(stdout);
            _exit(0);
        }
        int st = 0;
        waitpid(pid, &st, 0);
        if (WIFEXITED(st) && WEXITSTATUS(st) == 0) break;
        if (!(WIFEXITED(st) && WEXITSTATUS(st) == 77)) {
            // crashed inside the library (or under the sanitizers): report the case with what had been observed so far
            std::string l(SH->buf);
            if (l.empty()) l = cases[SH->cur] + " =";
            printf("%s X:crash\n", l.c_str());
        }
        const std::string sec = section(SH->cur);
        start = SH->cur + 1;
        if (++restarts[sec] >= 150) {
            long skipped = 0;
            while (start < N && section(start) == sec) { ++start; ++skipped; }
            if (skipped) printf("capped %s %lx = CAPPED\n", sec.c_str(), skipped);
        }
    }
    fflush(stdout);
    _exit(0);   // static Integers of the library were allocated before the counting allocator was installed
}
