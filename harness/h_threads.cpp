// C18 cross-check harness (built with clang++ -fsanitize=thread): N threads use ONE shared domain object of each kind through its
// const operations (the probe of harness/domains.h: arithmetic, init, convert-by-write, comparisons) and copy-construct from it,
// on thread-private elements.  Every thread's digest must equal the sequential digest; ThreadSanitizer reports races on stderr.
//
//   h_threads <tier> <seed> [kind]
// output:  thr <kind> <nthreads> <rounds> = <sequential digest> <ok threads>/<threads>
#include "domains.h"
#include "proto.h"
#include <atomic>
#include <thread>

int main(int argc, char** argv) {
    std::string tier = argc > 1 ? argv[1] : "quick";
    std::string only = argc > 3 ? argv[3] : "";
    const int rounds = tier == "thorough" ? 200 : 20;
    const int storm = tier == "thorough" ? 200000 : 20000;
    const int tcounts[] = {2, 4, 8};
    for (const auto& kv : dz::kinds()) {
        if (!only.empty() && only != kv.first) continue;
        // RNSsystem<…> keeps its moduli and every residue vector in Array0, i.e. in the process-wide free lists that the property
        // excludes by name (documented global, not synchronised): no concurrent use of it is claimed
        if (kv.first.compare(0, 10, "RNSsystem_") == 0) continue;
        dz::enter_kind(kv.first);
        for (int p = 0; p < 2; ++p) {
            // the sequential digest comes from a separate object with the same parameters; the shared object of each round is FRESH:
            // its first use happens inside the threads (lazily initialised caches are filled on first use)
            std::unique_ptr<dz::Box> ref(kv.second(p));
            {   // before ANY const use: the constants the normalising predicates may be handed are stored normalised -- also in a copy,
                // a copy of a copy and an assignment target (read-only inspection of the representation, no library predicate involved)
                std::unique_ptr<dz::Box> c1(ref->copy()), c2(c1->copy()), c3(kv.second(1 - p));
                c3->assign(*ref);
                printf("norm %s.%d = %d %d %d %d\n", kv.first.c_str(), p, (int)ref->normalised(), (int)c1->normalised(), (int)c2->normalised(), (int)c3->normalised());
            }
            const uint64_t seq = dz::fnv(ref->probe());
            for (int nt : tcounts) {
                // the shared object is, in turn, freshly constructed (2 threads), a copy of a copy of a fresh object (4 threads) and the
                // target of an assignment from a fresh object (8 threads): a copy operation that leaves a cache or a table to be
                // filled by the first const use makes that first use a write to the shared object
                std::unique_ptr<dz::Box> shared;
                if (nt == 2) shared.reset(kv.second(p));
                else if (nt == 4) { std::unique_ptr<dz::Box> f(kv.second(p)), c1(f->copy()); shared.reset(c1->copy()); }
                else { std::unique_ptr<dz::Box> f(kv.second(p)); shared.reset(kv.second(1 - p)); shared->assign(*f); }
                const dz::Box& S = *shared;
                std::atomic<int> ok(0);
                std::vector<std::thread> ts;
                for (int t = 0; t < nt; ++t)
                    ts.emplace_back([&S, &ok, seq, rounds, storm]() {
                        bool good = true;
                        for (int r = 0; r < rounds; ++r) {
                            if (dz::fnv(S.probe()) != seq) good = false;
                            std::unique_ptr<dz::Box> c(S.copy());          // copy-construction from the shared object
                            if (dz::fnv(c->probe()) != seq) good = false;
                            (void)c->xprobe(S);                             // elements of the shared object used through the copy
                        }                                                   // … and destruction of the copy
                        // copy storm: many concurrent copy-constructions and destructions of the shared object (reference counts of
                        // shared tables are only exercised by volume: a lost update needs two increments to meet)
                        for (int r = 0; r < storm; ++r) { std::unique_ptr<dz::Box> c(S.copy()); }
                        if (good) ok++;
                    });
                for (auto& t : ts) t.join();
                if (dz::fnv(S.probe()) != seq) ok = -1;      // the shared object must still be intact after all copies are gone
                printf("thr %s.%d %d %d = %llx %d/%d\n", kv.first.c_str(), p, nt, rounds, (unsigned long long)seq, ok.load(), nt);
                fflush(stdout);
            }
        }
    }
    return 0;
}
