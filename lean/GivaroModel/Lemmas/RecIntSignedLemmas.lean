/- C06 helper lemmas: the rint<K> wrappers on the signed reading `sval`. -/
import GivaroModel.Lemmas.RecIntBezout
import GivaroModel.Lemmas.RecIntMixed
namespace Givaro.Model.RecInt

/-- two's-complement wrap of an integer into `[-2^(bits-1), 2^(bits-1))` -/
def swrap (n : Nat) (v : Int) : Int := if 2 * (v % (Bn n : Int)) < Bn n then v % (Bn n : Int) else v % (Bn n : Int) - Bn n

theorem sval_eq_swrap {n : Nat} (r : RU n) (v : Int) (h : (val r : Int) = v % Bn n) : sval r = swrap n v := sval_of_mod r v h

theorem swrap_id (n : Nat) (v : Int) (h0 : -(Bn n : Int) ≤ 2 * v) (h1 : 2 * v < Bn n) : swrap n v = v := by
  have hB : (0 : Int) < Bn n := by exact_mod_cast Bn_pos n
  unfold swrap
  by_cases hz : 0 ≤ v
  · rw [Int.emod_eq_of_lt hz (by omega), if_pos h1]
  · have e : v % (Bn n : Int) = v + Bn n := by
      rw [← Int.add_mul_emod_self_right v 1 (Bn n : Int), Int.one_mul]; exact Int.emod_eq_of_lt (by omega) (by omega)
    rw [e, if_neg (by omega)]; omega

theorem sval_range {n : Nat} (a : RU n) (ha : WF a) : -(Bn n : Int) ≤ 2 * sval a ∧ 2 * sval a < Bn n := by
  have := val_lt a ha
  unfold sval
  split <;> constructor <;> omega

/-- `isNegative()` is the sign of the signed reading; the image is the value (+ 2^bits for a negative one) -/
theorem isNegative_iff {n : Nat} (a : RU n) (ha : WF a) : (isNegative a = true ↔ sval a < 0) ∧
    (isNegative a = true → (val a : Int) = sval a + Bn n) ∧ (isNegative a = false → (val a : Int) = sval a) := by
  have hv := val_lt a ha
  rw [isNegative_eq]
  have hb := highest_bit_iff a ha
  unfold sval
  by_cases h : highest_bit a = true
  · have h2 := hb.mp h
    rw [if_neg (by omega)]
    exact ⟨⟨fun _ => by omega, fun _ => h⟩, fun _ => by omega, fun h' => by rw [h] at h'; exact absurd h' (by simp)⟩
  · have h2 : ¬ Bn n ≤ 2 * val a := fun h' => h (hb.mpr h')
    rw [if_pos (by omega)]
    exact ⟨⟨fun h' => absurd h' h, fun h' => by omega⟩, fun h' => absurd h' h, fun _ => rfl⟩

/-- `(-a).Value` of a negative `a` is its magnitude (also for the minimum, whose magnitude `2^(bits-1)` fits the unsigned type) -/
theorem neg_mag {n : Nat} (a : RU n) (ha : WF a) (hn : isNegative a = true) : WF (neg a) ∧ (val (neg a) : Int) = -sval a := by
  obtain ⟨hw, he⟩ := neg_ok a ha
  have hv := val_lt a ha
  obtain ⟨h1, h2, -⟩ := isNegative_iff a ha
  have hs := h1.mp hn
  have hva := h2 hn
  have hr := sval_range a ha
  refine ⟨hw, ?_⟩
  have hpos : 0 < val a := by omega
  rw [he, Nat.mod_eq_of_lt (by omega), Nat.cast_sub (Nat.le_of_lt hv)]
  omega

theorem int_of_mod_eq {n : Nat} (r : RU n) (hr : WF r) (v : Nat) (h : val r = v % Bn n) : (val r : Int) = (v : Int) % Bn n := by
  rw [h, Int.natCast_mod]

/-! ### add, sub, mul, neg, not -/
theorem s_add_ok {n : Nat} (b c : RU n) (hb : WF b) (hc : WF c) : WF (s_add b c) ∧ sval (s_add b c) = swrap n (sval b + sval c) := by
  unfold s_add
  rw [addNC_eq b c hb hc]
  have hw := (add_ok b c hb hc).1
  have he1 := (add_ok b c hb hc).exact.1
  refine ⟨hw, sval_eq_swrap _ _ ?_⟩
  rw [he1, Int.natCast_mod, Nat.cast_add, Int.add_emod, ← sval_mod b, ← sval_mod c, ← Int.add_emod]

theorem s_sub_ok {n : Nat} (b c : RU n) (hb : WF b) (hc : WF c) : WF (s_sub b c) ∧ sval (s_sub b c) = swrap n (sval b - sval c) := by
  unfold s_sub
  obtain ⟨hw, he⟩ := subNC_val b c hb hc
  have hs := (sub_ok b c hb hc).exact (val_lt b hb) (Nat.le_of_lt (val_lt c hc))
  have hvc := val_lt c hc
  refine ⟨hw, sval_eq_swrap _ _ ?_⟩
  rw [he, hs.1, Int.natCast_mod, Nat.cast_sub (by omega), Nat.cast_add]
  rw [show (val b : Int) + Bn n - val c = ((val b : Int) - val c) + 1 * Bn n by ring, Int.add_mul_emod_self_right,
    Int.sub_emod, ← sval_mod b, ← sval_mod c, ← Int.sub_emod]

theorem s_mul_ok (t : Nat) {n : Nat} (b c : RU n) (hb : WF b) (hc : WF c) : WF (s_mul t b c) ∧ sval (s_mul t b c) = swrap n (sval b * sval c) := by
  unfold s_mul
  obtain ⟨hw, he⟩ := mul_ok t b c hb hc
  refine ⟨hw, sval_eq_swrap _ _ ?_⟩
  rw [he, Int.natCast_mod, Nat.cast_mul, Int.mul_emod, ← sval_mod b, ← sval_mod c, ← Int.mul_emod]

theorem s_addmul_ok (t : Nat) {n : Nat} (a b c : RU n) (ha : WF a) (hb : WF b) (hc : WF c) :
    WF (s_addmul t a b c) ∧ sval (s_addmul t a b c) = swrap n (sval a + sval b * sval c) := by
  unfold s_addmul
  obtain ⟨hw, he⟩ := addmul_ok t a b c ha hb hc
  unfold addmul at hw he
  refine ⟨hw, sval_eq_swrap _ _ ?_⟩
  rw [he, Int.natCast_mod, Nat.cast_add, Nat.cast_mul, Int.add_emod, Int.mul_emod, ← sval_mod a, ← sval_mod b, ← sval_mod c,
    ← Int.mul_emod, ← Int.add_emod]

theorem s_neg_ok {n : Nat} (c : RU n) (hc : WF c) : WF (s_neg c) ∧ sval (s_neg c) = swrap n (-sval c) := by
  unfold s_neg
  obtain ⟨hw, he⟩ := neg_int c hc (sval c) (by rw [sval_mod c, Int.emod_eq_of_lt (wf_cast c hc).1 (wf_cast c hc).2])
  exact ⟨hw, sval_eq_swrap _ _ he⟩

/-- `~c = -c - 1` exactly (no wrap: the complement of a representable value is representable) -/
theorem s_not_ok {n : Nat} (c : RU n) (hc : WF c) : WF (s_not c) ∧ sval (s_not c) = -sval c - 1 := by
  unfold s_not
  obtain ⟨hw, he⟩ := not_ok c hc
  have hv := val_lt c hc
  refine ⟨hw, ?_⟩
  have hB := Bn_even n
  obtain ⟨h, hh, -⟩ := hB
  unfold sval
  by_cases h1 : 2 * val (not_ c) < Bn n <;> by_cases h2 : 2 * val c < Bn n
  · omega
  · rw [if_pos h1, if_neg h2]; omega
  · rw [if_neg h1, if_pos h2]; omega
  · omega

/-! ### cmp -/
theorem s_cmp_ok {n : Nat} (a b : RU n) (ha : WF a) (hb : WF b) :
    (s_cmp a b = -1 ∧ sval a < sval b) ∨ (s_cmp a b = 0 ∧ sval a = sval b) ∨ (s_cmp a b = 1 ∧ sval a > sval b) := by
  obtain ⟨a1, a2, a3⟩ := isNegative_iff a ha
  obtain ⟨b1, b2, b3⟩ := isNegative_iff b hb
  have ra := sval_range a ha
  have rb := sval_range b hb
  have hc := cmp_spec a b ha hb
  unfold s_cmp
  cases hna : isNegative a <;> cases hnb : isNegative b <;> simp only [Bool.not_true, Bool.not_false, Bool.false_eq_true, ↓reduceIte, ne_eq,
    not_true_eq_false, not_false_eq_true]
  · have := a3 hna; have := b3 hnb
    rcases hc with ⟨e, h⟩ | ⟨e, h⟩ | ⟨e, h⟩ <;> rw [e] <;> simp <;> omega
  · have := a3 hna; have := b1.mp hnb
    have : ¬ sval a < 0 := fun h => by have := a1.mpr h; simp [hna] at this
    simp; omega
  · have := a1.mp hna
    have : ¬ sval b < 0 := fun h => by have := b1.mpr h; simp [hnb] at this
    simp; omega
  · have := a2 hna; have := b2 hnb
    rcases hc with ⟨e, h⟩ | ⟨e, h⟩ | ⟨e, h⟩ <;> rw [e] <;> simp <;> omega

/-! ### sign extension, full product, square -/
theorem Bn_le_succ (n : Nat) : Bn n ≤ Bn (n+1) := by
  rw [Bn_succ]; have := Bn_pos n; nlinarith

theorem s_ext_ok {n : Nat} (a : RU n) (ha : WF a) : WF (s_ext a) ∧ sval (s_ext a) = sval a := by
  obtain ⟨a1, a2, a3⟩ := isNegative_iff a ha
  have ra := sval_range a ha
  have hz := val_zero n
  have hle : (Bn n : Int) ≤ Bn (n+1) := by exact_mod_cast Bn_le_succ n
  have hB : (0 : Int) < Bn n := by exact_mod_cast Bn_pos n
  have hid := swrap_id (n+1) (sval a) (by omega) (by omega)
  unfold s_ext
  cases hna : isNegative a
  · simp only [Bool.false_eq_true, ↓reduceIte]
    have hv := a3 hna
    have hw : WF (RU.node a (zero n)) := (WF_node _ _).mpr ⟨ha, hz.1⟩
    refine ⟨hw, ?_⟩
    rw [← hid]
    apply sval_eq_swrap
    rw [val_node, hz.2, Nat.mul_zero, Nat.add_zero, hv]
    have : ¬ sval a < 0 := fun h => by have := a1.mpr h; simp [hna] at this
    exact (Int.emod_eq_of_lt (by omega) (by omega)).symm
  · simp only [↓reduceIte]
    obtain ⟨hnw, hne⟩ := neg_mag a ha hna
    have hs := a1.mp hna
    have hw : WF (RU.node (neg a) (zero n)) := (WF_node _ _).mpr ⟨hnw, hz.1⟩
    have hv : (val (RU.node (neg a) (zero n)) : Int) = (-sval a) % Bn (n+1) := by
      rw [val_node, hz.2, Nat.mul_zero, Nat.add_zero, hne]
      exact (Int.emod_eq_of_lt (by omega) (by omega)).symm
    obtain ⟨hrw, hre⟩ := neg_int _ hw _ hv
    rw [Int.neg_neg] at hre
    exact ⟨hrw, by rw [← hid]; exact sval_eq_swrap _ _ hre⟩

theorem prod_range (B sb sc : Int) (hB : 0 < B) (b0 : -B ≤ 2 * sb) (b1 : 2 * sb < B) (c0 : -B ≤ 2 * sc) (c1 : 2 * sc < B) :
    -(B * B) ≤ 2 * (sb * sc) ∧ 2 * (sb * sc) < B * B := by
  have h1 : 0 ≤ (B + 2 * sb) * (B + 2 * sc) := mul_nonneg (by omega) (by omega)
  have h2 : 0 ≤ (B - 2 * sb) * (B - 2 * sc) := mul_nonneg (by omega) (by omega)
  have h3 : 0 ≤ (B + 2 * sb) * (B - 2 * sc) := mul_nonneg (by omega) (by omega)
  have h4 : 0 ≤ (B - 2 * sb) * (B + 2 * sc) := mul_nonneg (by omega) (by omega)
  have h5 : 0 < B * B := mul_pos hB hB
  constructor <;> nlinarith

/-- an unsigned result equal to the integer `v` (which is in range) is `v mod 2^bits` -/
theorem val_eq_emod {n : Nat} (r : RU n) (hr : WF r) (v : Int) (h : (val r : Int) = v) : (val r : Int) = v % Bn n := by
  have := wf_cast r hr
  rw [h] at this ⊢
  exact (Int.emod_eq_of_lt this.1 this.2).symm

theorem lmul_int (t : Nat) {n : Nat} (x y : RU n) (hx : WF x) (hy : WF y) :
    WF (lmul t x y) ∧ (val (lmul t x y) : Int) = (val x : Int) * val y := by
  obtain ⟨hw, he⟩ := lmul_ok t x y hx hy
  exact ⟨hw, by rw [he, Nat.cast_mul]⟩

/-- `lmul(rint<K+1>&, rint<K>, rint<K>)`: the exact product of the signed values (it always fits the double width) -/
theorem s_lmul_ok (t : Nat) {n : Nat} (b c : RU n) (hb : WF b) (hc : WF c) :
    WF (s_lmul t b c) ∧ sval (s_lmul t b c) = sval b * sval c := by
  obtain ⟨-, b2, b3⟩ := isNegative_iff b hb
  obtain ⟨-, c2, c3⟩ := isNegative_iff c hc
  have rb := sval_range b hb
  have rc := sval_range c hc
  have hB : (0 : Int) < Bn n := by exact_mod_cast Bn_pos n
  have hpr := prod_range (Bn n) (sval b) (sval c) hB rb.1 rb.2 rc.1 rc.2
  have hS : ((Bn (n+1) : Nat) : Int) = (Bn n : Int) * Bn n := by rw [Bn_succ, Nat.cast_mul]
  have hid := swrap_id (n+1) (sval b * sval c) (by rw [hS]; exact hpr.1) (by rw [hS]; exact hpr.2)
  unfold s_lmul
  cases hnb : isNegative b <;> cases hnc : isNegative c <;> simp only [Bool.not_true, Bool.not_false, Bool.false_eq_true, ↓reduceIte]
  · obtain ⟨hw, he⟩ := lmul_int t b c hb hc
    rw [b3 hnb, c3 hnc] at he
    exact ⟨hw, by rw [← hid]; exact sval_eq_swrap _ _ (val_eq_emod _ hw _ he)⟩
  · obtain ⟨hcw, hce⟩ := neg_mag c hc hnc
    obtain ⟨hw, he⟩ := lmul_int t b (neg c) hb hcw
    rw [b3 hnb, hce] at he
    obtain ⟨hrw, hre⟩ := neg_int _ hw _ (val_eq_emod _ hw _ he)
    rw [show -(sval b * -sval c) = sval b * sval c by ring] at hre
    exact ⟨hrw, by rw [← hid]; exact sval_eq_swrap _ _ hre⟩
  · obtain ⟨hbw, hbe⟩ := neg_mag b hb hnb
    obtain ⟨hw, he⟩ := lmul_int t (neg b) c hbw hc
    rw [hbe, c3 hnc] at he
    obtain ⟨hrw, hre⟩ := neg_int _ hw _ (val_eq_emod _ hw _ he)
    rw [show -(-sval b * sval c) = sval b * sval c by ring] at hre
    exact ⟨hrw, by rw [← hid]; exact sval_eq_swrap _ _ hre⟩
  · obtain ⟨hbw, hbe⟩ := neg_mag b hb hnb
    obtain ⟨hcw, hce⟩ := neg_mag c hc hnc
    obtain ⟨hw, he⟩ := lmul_int t (neg b) (neg c) hbw hcw
    rw [hbe, hce, show -sval b * -sval c = sval b * sval c by ring] at he
    exact ⟨hw, by rw [← hid]; exact sval_eq_swrap _ _ (val_eq_emod _ hw _ he)⟩

/-- `lsquare(rint<K+1>&, rint<K>)`: the exact square -/
theorem s_lsquare_ok (t : Nat) {n : Nat} (b : RU n) (hb : WF b) :
    WF (s_lsquare t b) ∧ sval (s_lsquare t b) = sval b * sval b := by
  obtain ⟨-, b2, b3⟩ := isNegative_iff b hb
  have rb := sval_range b hb
  have hB : (0 : Int) < Bn n := by exact_mod_cast Bn_pos n
  have hpr := prod_range (Bn n) (sval b) (sval b) hB rb.1 rb.2 rb.1 rb.2
  have hS : ((Bn (n+1) : Nat) : Int) = (Bn n : Int) * Bn n := by rw [Bn_succ, Nat.cast_mul]
  have hid := swrap_id (n+1) (sval b * sval b) (by rw [hS]; exact hpr.1) (by rw [hS]; exact hpr.2)
  unfold s_lsquare
  cases hnb : isNegative b <;> simp only [Bool.false_eq_true, ↓reduceIte]
  · obtain ⟨hw, he⟩ := lsquare_ok t b hb
    have he' : (val (lsquare t b) : Int) = sval b * sval b := by rw [he, Nat.cast_mul, b3 hnb]
    exact ⟨hw, by rw [← hid]; exact sval_eq_swrap _ _ (val_eq_emod _ hw _ he')⟩
  · obtain ⟨hbw, hbe⟩ := neg_mag b hb hnb
    obtain ⟨hw, he⟩ := lsquare_ok t (neg b) hbw
    have he' : (val (lsquare t (neg b)) : Int) = sval b * sval b := by rw [he, Nat.cast_mul, hbe]; ring
    exact ⟨hw, by rw [← hid]; exact sval_eq_swrap _ _ (val_eq_emod _ hw _ he')⟩

/-! ### division -/
theorem div_int (t : Nat) {n : Nat} (x y : RU n) (hx : WF x) (hy : WF y) (hne : val y ≠ 0) :
    WF (div t x y).1 ∧ WF (div t x y).2 ∧ (val (div t x y).1 : Int) = (val x : Int) / val y ∧ (val (div t x y).2 : Int) = (val x : Int) % val y := by
  obtain ⟨hq, hr, hqe, hre⟩ := div_vals t x y hx hy hne
  exact ⟨hq, hr, by rw [hqe, Int.natCast_ediv], by rw [hre, Int.natCast_mod]⟩

theorem tdiv_signs (X Y : Int) (hX : 0 ≤ X) :
    Int.tdiv X Y = X / Y ∧ Int.tdiv (-X) Y = -(X / Y) ∧ Int.tdiv X (-Y) = -(X / Y) ∧ Int.tdiv (-X) (-Y) = X / Y ∧
    Int.tmod X Y = X % Y ∧ Int.tmod (-X) Y = -(X % Y) := by
  have e := Int.tdiv_eq_ediv_of_nonneg (b := Y) hX
  have m := Int.tmod_eq_emod_of_nonneg (b := Y) hX
  refine ⟨e, ?_, ?_, ?_, m, ?_⟩
  · rw [Int.neg_tdiv, e]
  · rw [Int.tdiv_neg, e]
  · rw [Int.neg_tdiv, Int.tdiv_neg, e, Int.neg_neg]
  · rw [Int.neg_tmod, m]

/-- `div_q(q, a, b)`, `a / b` on `rint`: the quotient **truncated towards zero** of the signed values, wrapped
    (the only wrap is `MIN / -1 = MIN`); every divisor `b ≠ 0` -/
theorem s_divq_ok (t : Nat) {n : Nat} (a b : RU n) (ha : WF a) (hb : WF b) (hne : sval b ≠ 0) :
    WF (s_divq t a b) ∧ sval (s_divq t a b) = swrap n (Int.tdiv (sval a) (sval b)) := by
  obtain ⟨a1, a2, a3⟩ := isNegative_iff a ha
  obtain ⟨b1, b2, b3⟩ := isNegative_iff b hb
  unfold s_divq
  cases hna : isNegative a <;> cases hnb : isNegative b <;> simp only [Bool.false_eq_true, ↓reduceIte]
  · have hva := a3 hna; have hvb := b3 hnb
    have hy : val b ≠ 0 := fun h => hne (by rw [← hvb, h]; rfl)
    obtain ⟨hq, -, hqe, -⟩ := div_int t a b ha hb hy
    have hX : (0 : Int) ≤ val a := Int.natCast_nonneg _
    rw [← hva, ← hvb, (tdiv_signs _ (val b) hX).1]
    exact ⟨hq, sval_eq_swrap _ _ (val_eq_emod _ hq _ hqe)⟩
  · have hva := a3 hna
    obtain ⟨hbw, hbe⟩ := neg_mag b hb hnb
    have hy : val (neg b) ≠ 0 := fun h => hne (by have : (val (neg b) : Int) = 0 := by rw [h]; rfl
                                                  omega)
    obtain ⟨hq, -, hqe, -⟩ := div_int t a (neg b) ha hbw hy
    have hX : (0 : Int) ≤ val a := Int.natCast_nonneg _
    obtain ⟨hrw, hre⟩ := neg_int _ hq _ (val_eq_emod _ hq _ hqe)
    rw [← hva, show sval b = -(val (neg b) : Int) by omega, (tdiv_signs _ (val (neg b)) hX).2.2.1]
    exact ⟨hrw, sval_eq_swrap _ _ hre⟩
  · have hvb := b3 hnb
    obtain ⟨haw, hae⟩ := neg_mag a ha hna
    have hy : val b ≠ 0 := fun h => hne (by rw [← hvb, h]; rfl)
    obtain ⟨hq, -, hqe, -⟩ := div_int t (neg a) b haw hb hy
    have hX : (0 : Int) ≤ val (neg a) := Int.natCast_nonneg _
    obtain ⟨hrw, hre⟩ := neg_int _ hq _ (val_eq_emod _ hq _ hqe)
    rw [← hvb, show sval a = -(val (neg a) : Int) by omega, (tdiv_signs _ (val b) hX).2.1]
    exact ⟨hrw, sval_eq_swrap _ _ hre⟩
  · obtain ⟨haw, hae⟩ := neg_mag a ha hna
    obtain ⟨hbw, hbe⟩ := neg_mag b hb hnb
    have hy : val (neg b) ≠ 0 := fun h => hne (by have : (val (neg b) : Int) = 0 := by rw [h]; rfl
                                                  omega)
    obtain ⟨hq, -, hqe, -⟩ := div_int t (neg a) (neg b) haw hbw hy
    have hX : (0 : Int) ≤ val (neg a) := Int.natCast_nonneg _
    rw [show sval a = -(val (neg a) : Int) by omega, show sval b = -(val (neg b) : Int) by omega, (tdiv_signs _ (val (neg b)) hX).2.2.2.1]
    exact ⟨hq, sval_eq_swrap _ _ (val_eq_emod _ hq _ hqe)⟩

/-- `div_r(r, a, b)`, `a % b` on `rint` for a positive divisor (the code asserts `b > 1`): the remainder of the truncated
    division, which has the sign of the dividend -/
theorem s_divr_ok (t : Nat) {n : Nat} (a b : RU n) (ha : WF a) (hb : WF b) (hpos : 0 < sval b) :
    WF (s_divr t a b) ∧ sval (s_divr t a b) = Int.tmod (sval a) (sval b) := by
  obtain ⟨a1, a2, a3⟩ := isNegative_iff a ha
  obtain ⟨b1, b2, b3⟩ := isNegative_iff b hb
  have rb := sval_range b hb
  have hnb : isNegative b = false := by
    cases h : isNegative b
    · rfl
    · have := b1.mp h; omega
  have hvb := b3 hnb
  have hy : val b ≠ 0 := fun h => by rw [h] at hvb; have : sval b = 0 := by rw [← hvb]; rfl
                                     omega
  unfold s_divr
  cases hna : isNegative a <;> simp only [Bool.false_eq_true, ↓reduceIte]
  · have hva := a3 hna
    obtain ⟨-, hr, -, hre⟩ := div_int t a b ha hb hy
    have hX : (0 : Int) ≤ val a := Int.natCast_nonneg _
    have m0 := Int.emod_nonneg (val a : Int) (show (val b : Int) ≠ 0 by omega)
    have m1 := Int.emod_lt_of_pos (val a : Int) (show (0 : Int) < val b by omega)
    rw [← hva, ← hvb, (tdiv_signs _ (val b) hX).2.2.2.2.1, ← swrap_id n ((val a : Int) % val b) (by omega) (by omega)]
    exact ⟨hr, sval_eq_swrap _ _ (val_eq_emod _ hr _ hre)⟩
  · obtain ⟨haw, hae⟩ := neg_mag a ha hna
    obtain ⟨-, hr, -, hre⟩ := div_int t (neg a) b haw hb hy
    have hX : (0 : Int) ≤ val (neg a) := Int.natCast_nonneg _
    have m0 := Int.emod_nonneg (val (neg a) : Int) (show (val b : Int) ≠ 0 by omega)
    have m1 := Int.emod_lt_of_pos (val (neg a) : Int) (show (0 : Int) < val b by omega)
    obtain ⟨hrw, hre'⟩ := neg_int _ hr _ (val_eq_emod _ hr _ hre)
    rw [show sval a = -(val (neg a) : Int) by omega, ← hvb, (tdiv_signs _ (val b) hX).2.2.2.2.2, ← swrap_id n (-((val (neg a) : Int) % val b)) (by omega) (by omega)]
    exact ⟨hrw, sval_eq_swrap _ _ hre'⟩

/-! ### shifts -/
theorem s_shl_ok {n : Nat} (b : RU n) (d : Nat) (hb : WF b) : WF (s_shl b d) ∧ sval (s_shl b d) = swrap n (sval b * 2 ^ d) := by
  unfold s_shl
  obtain ⟨hw, he⟩ := (shift_ok n b d hb).1
  refine ⟨hw, sval_eq_swrap _ _ ?_⟩
  rw [he, Int.natCast_mod, Nat.cast_mul, Nat.cast_pow, Int.mul_emod, ← sval_mod b, ← Int.mul_emod]; rfl

theorem floor_neg (A p : Int) (hp : 0 < p) : A / p = -1 - (-A - 1) / p := by
  have h1 := Int.emod_add_mul_ediv (-A - 1) p
  have h2 := Int.emod_nonneg (-A - 1) (ne_of_gt hp)
  have h3 := Int.emod_lt_of_pos (-A - 1) hp
  have key := (Int.ediv_emod_unique hp (a := A) (q := -1 - (-A - 1) / p) (r := p - 1 - (-A - 1) % p)).mpr
    ⟨by linarith [show p * (-1 - (-A - 1) / p) = -p - p * ((-A - 1) / p) by ring], by omega, by omega⟩
  exact key.1

/-- `b >> c`, `b >>= c` on `rint`: the **arithmetic** shift, `⌊b / 2^c⌋` for every count (negative values through `~(~b >> c)`) -/
theorem s_shr_ok {n : Nat} (b : RU n) (d : Nat) (hb : WF b) : WF (s_shr b d) ∧ sval (s_shr b d) = sval b / 2 ^ d := by
  obtain ⟨b1, b2, b3⟩ := isNegative_iff b hb
  have rb := sval_range b hb
  have hB : (0 : Int) < Bn n := by exact_mod_cast Bn_pos n
  have hp : (0 : Int) < 2 ^ d := by positivity
  unfold s_shr
  cases hnb : isNegative b <;> simp only [Bool.false_eq_true, ↓reduceIte]
  · obtain ⟨hw, he⟩ := (shift_ok n b d hb).2
    have hvb := b3 hnb
    have hv : (val (right_shift b d) : Int) = sval b / 2 ^ d := by rw [he, Int.natCast_ediv, Nat.cast_pow, hvb]; rfl
    have hle : sval b / 2 ^ d ≤ sval b := Int.ediv_le_self _ (by omega)
    have h0 : 0 ≤ sval b / 2 ^ d := Int.ediv_nonneg (by omega) (by omega)
    rw [← swrap_id n (sval b / 2 ^ d) (by omega) (by omega)]
    exact ⟨hw, sval_eq_swrap _ _ (val_eq_emod _ hw _ hv)⟩
  · have hvb := b2 hnb
    have hs := b1.mp hnb
    obtain ⟨hnw, hne⟩ := not_ok b hb
    have hX : (val (not_ b) : Int) = -sval b - 1 := by
      have : ((val (not_ b) + val b + 1 : Nat) : Int) = Bn n := by rw [hne]
      push_cast at this; omega
    obtain ⟨hw, he⟩ := (shift_ok n (not_ b) d hnw).2
    have hv : (val (right_shift (not_ b) d) : Int) = (-sval b - 1) / 2 ^ d := by rw [he, Int.natCast_ediv, Nat.cast_pow, hX]; rfl
    obtain ⟨hrw, hre⟩ := not_ok _ hw
    have hR : (val (not_ (right_shift (not_ b) d)) : Int) = Bn n - 1 - (-sval b - 1) / 2 ^ d := by
      have : ((val (not_ (right_shift (not_ b) d)) + val (right_shift (not_ b) d) + 1 : Nat) : Int) = Bn n := by rw [hre]
      push_cast at this; omega
    have hle : (-sval b - 1) / 2 ^ d ≤ -sval b - 1 := Int.ediv_le_self _ (by omega)
    have h0 : 0 ≤ (-sval b - 1) / 2 ^ d := Int.ediv_nonneg (by omega) (by omega)
    refine ⟨hrw, ?_⟩
    rw [floor_neg (sval b) (2 ^ d) hp]
    unfold sval at hR ⊢
    generalize (-(if 2 * val b < Bn n then (val b : Int) else (val b : Int) - Bn n) - 1) / 2 ^ d = Q at *
    split <;> omega

end Givaro.Model.RecInt
