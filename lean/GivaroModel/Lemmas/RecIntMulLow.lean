/- C06 helper lemmas: low product, fused multiply-add, squares (rumul.h, ruaddmul.h). -/
import GivaroModel.Lemmas.RecIntMulFam
namespace Givaro.Model.RecInt

theorem mod_of_add_mul {R M Q p : Nat} (h : R + M * Q = p) (hR : R < M) : R = p % M := by
  rw [← h, Nat.add_mul_mod_self_left, Nat.mod_eq_of_lt hR]

theorem mod_q (x M : Nat) : ∃ q, x % M + M * q = x := ⟨x / M, Nat.mod_add_div x M⟩

theorem addNC_q {n : Nat} (x y : RU n) (hx : WF x) (hy : WF y) :
    WF (addNC x y) ∧ ∃ q, val (addNC x y) + Bn n * q = val x + val y := by
  rw [addNC_eq x y hx hy]
  have h := add_ok x y hx hy
  exact ⟨h.1, c2n (add x y).2, by rw [Nat.mul_comm]; exact h.2⟩

/-- `mul(a, b, c)`: the low half -/
theorem mul_ok (t : Nat) : ∀ {n : Nat} (b c : RU n), WF b → WF c → WF (mul t b c) ∧ val (mul t b c) = (val b * val c) % Bn n
  | 0, .limb b, .limb c, _, _ => by
      simp only [mul, WF, val, Bn_zero]; exact ⟨Nat.mod_lt _ (by decide), trivial⟩
  | n+1, .node bl bh, .node cl ch, hb, hc => by
      obtain ⟨hbl, hbh⟩ := hb
      obtain ⟨hcl, hch⟩ := hc
      simp only [mul]
      have h1 := mul_ok t bl ch hbl hch
      generalize mul t bl ch = m1 at h1 ⊢
      have h2 := mul_ok t bh cl hbh hcl
      generalize mul t bh cl = m2 at h2 ⊢
      obtain ⟨h1w, h1e⟩ := h1
      obtain ⟨h2w, h2e⟩ := h2
      obtain ⟨q1, hq1⟩ := mod_q (val bl * val ch) (Bn n)
      obtain ⟨q2, hq2⟩ := mod_q (val bh * val cl) (Bn n)
      rw [← h1e] at hq1
      rw [← h2e] at hq2
      obtain ⟨h3w, q3, hq3⟩ := addNC_q m1 m2 h1w h2w
      generalize addNC m1 m2 = bm at h3w hq3 ⊢
      obtain ⟨halw, hale⟩ := lmul_ok t bl cl hbl hcl
      generalize lmul t bl cl = al at halw hale ⊢
      have halw' := (WF_lo_hi _).mp halw
      obtain ⟨h4w, q4, hq4⟩ := addNC_q (hi al) bm halw'.2 h3w
      generalize addNC (hi al) bm = hh at h4w hq4 ⊢
      have hw : WF (RU.node (lo al) hh) := ⟨halw'.1, h4w⟩
      refine ⟨hw, ?_⟩
      have hlt := val_lt _ hw
      apply mod_of_add_mul (Q := q1 + q2 + q3 + q4 + val bh * val ch) _ hlt
      simp only [val_node, Bn_succ] at *
      rw [val_lo_hi al] at hale
      generalize Bn n = B at *
      linear_combination hale + B * hq1 + B * hq2 + B * hq3 + B * hq4

/-- `addmul(a, b, c)`: `a += b*c` -/
theorem addmul_ok (t : Nat) {n : Nat} (a b c : RU n) (ha : WF a) (hb : WF b) (hc : WF c) :
    WF (addmul t a b c) ∧ val (addmul t a b c) = (val a + val b * val c) % Bn n := by
  have hm := mul_ok t b c hb hc
  unfold addmul
  rw [addNC_eq a _ ha hm.1]
  have h := (add_ok a (mul t b c) ha hm.1)
  refine ⟨h.1, ?_⟩
  rw [h.exact.1, hm.2, Nat.add_mod_mod]

theorem highest_bit_eq : ∀ {n : Nat} (x : RU n), highest_bit x = (left_shift_1 x).2
  | _, .limb a => by simp [highest_bit, left_shift_1]
  | _, .node l h => by simp only [highest_bit, left_shift_1]; exact highest_bit_eq h

/-- `lsquare(a, b)` -/
theorem lsquare_ok (t : Nat) : ∀ {n : Nat} (b : RU n), WF b → MulOk (lsquare t b) (val b * val b)
  | 0, .limb b, hb => by
      simp only [WF] at hb
      have h := umul_pp_ok b b hb hb
      simp only [lsquare, MulOk, WF_node, WF_limb, val_node, val_limb, Bn_zero]
      exact ⟨⟨h.1, h.2.1⟩, h.2.2⟩
  | n+1, .node bl bh, hb => by
      have hvb := val_lt _ hb
      obtain ⟨hbl, hbh⟩ := hb
      simp only [lsquare]
      rw [highest_bit_eq]
      obtain ⟨hxw, hxe⟩ := lmul_ok t bh bl hbh hbl
      generalize lmul t bh bl = x0 at hxw hxe ⊢
      obtain ⟨haHw, haHe⟩ := lsquare_ok t bh hbh
      generalize lsquare t bh = aH at haHw haHe ⊢
      obtain ⟨haLw, haLe⟩ := lsquare_ok t bl hbl
      generalize lsquare t bl = aL at haLw haLe ⊢
      obtain ⟨hlsw, hlse⟩ := left_shift_1_ok x0 hxw
      generalize left_shift_1 x0 = ls at hlsw hlse ⊢
      have haHw' := (WF_lo_hi _).mp haHw
      have haLw' := (WF_lo_hi _).mp haLw
      have hlsw' := (WF_lo_hi _).mp hlsw
      obtain ⟨hs1w, hs1e⟩ := add_ok (hi aL) (lo ls.1) haLw'.2 hlsw'.1
      generalize add (hi aL) (lo ls.1) = s1 at hs1w hs1e ⊢
      obtain ⟨hs2w, hs2e⟩ := add_ok (lo aH) (hi ls.1) haHw'.1 hlsw'.2
      generalize add (lo aH) (hi ls.1) = s2 at hs2w hs2e ⊢
      have haH1w : WF (RU.node s2.1 (hi aH)) := ⟨hs2w, haHw'.2⟩
      obtain ⟨j1, ha2w, ha2e⟩ := ite_add_1NC_ok s1.2 (RU.node s2.1 (hi aH)) haH1w
      generalize (if s1.2 = true then (add_1 (RU.node s2.1 (hi aH))).1 else RU.node s2.1 (hi aH)) = aH2 at ha2w ha2e ⊢
      have ha2w' := (WF_lo_hi _).mp ha2w
      have hw : ((if s2.2 = true then 1 else 0) + (if ls.2 = true then 1 else 0) : Nat) < B64 := by
        have h1 : (if s2.2 = true then 1 else 0 : Nat) ≤ 1 := by split <;> omega
        have h2 : (if ls.2 = true then 1 else 0 : Nat) ≤ 1 := by split <;> omega
        simp only [B64]; omega
      have h0 : (s2.2 || ls.2) = false → ((if s2.2 = true then 1 else 0) + (if ls.2 = true then 1 else 0) : Nat) = 0 := by
        intro h; simp only [Bool.or_eq_false_iff] at h; simp [h.1, h.2]
      obtain ⟨j2, haHHw, haHHe⟩ := ite_add_l_ok (s2.2 || ls.2) (hi aH2) _ ha2w'.2 hw h0
      generalize (if (s2.2 || ls.2) = true then (add_l (hi aH2) ((if s2.2 = true then 1 else 0) + (if ls.2 = true then 1 else 0))).1 else hi aH2) = aHH at haHHw haHHe ⊢
      unfold MulOk
      simp only [WF_node, val_node] at *
      refine ⟨⟨⟨haLw'.1, hs1w⟩, ha2w'.1, haHHw⟩, ?_⟩
      have e1 : (if s2.2 = true then 1 else 0 : Nat) = c2n s2.2 := rfl
      have e2 : (if ls.2 = true then 1 else 0 : Nat) = c2n ls.2 := rfl
      rw [e1, e2] at haHHe
      rw [val_lo_hi aL] at haLe
      rw [val_lo_hi aH] at haHe
      rw [val_lo_hi ls.1] at hlse
      rw [val_lo_hi aH2] at ha2e
      rw [hxe] at hlse
      simp only [Bn_succ] at *
      generalize Bn n = B at *
      have E : val (lo aL) + B * val s1.1 + B * B * (val (lo aH2) + B * val aHH) + (j1 + j2) * (B * B * (B * B))
            = (val bl + B * val bh) * (val bl + B * val bh) := by
        linear_combination haLe + B * hlse + B * B * haHe + B * hs1e + B * B * hs2e + B * B * ha2e + B * B * B * haHHe
      exact (no_carry E (Nat.mul_lt_mul'' hvb hvb)).1

/-- `square(a, b)`: the low half of the square -/
theorem square_ok (t : Nat) : ∀ {n : Nat} (b : RU n), WF b → WF (square t b) ∧ val (square t b) = (val b * val b) % Bn n
  | 0, .limb b, _ => by
      simp only [square, WF, val, Bn_zero]; exact ⟨Nat.mod_lt _ (by decide), trivial⟩
  | n+1, .node bl bh, hb => by
      obtain ⟨hbl, hbh⟩ := hb
      simp only [square]
      obtain ⟨hmw, hme⟩ := mul_ok t bh bl hbh hbl
      generalize mul t bh bl = m at hmw hme ⊢
      obtain ⟨q1, hq1⟩ := mod_q (val bh * val bl) (Bn n)
      rw [← hme] at hq1
      obtain ⟨halw, hale⟩ := lsquare_ok t bl hbl
      generalize lsquare t bl = al at halw hale ⊢
      have halw' := (WF_lo_hi _).mp halw
      obtain ⟨hlsw, hlse⟩ := left_shift_1_ok m hmw
      generalize left_shift_1 m = ls at hlsw hlse ⊢
      obtain ⟨h4w, q4, hq4⟩ := addNC_q (hi al) ls.1 halw'.2 hlsw
      generalize addNC (hi al) ls.1 = hh at h4w hq4 ⊢
      have hw : WF (RU.node (lo al) hh) := ⟨halw'.1, h4w⟩
      refine ⟨hw, ?_⟩
      have hlt := val_lt _ hw
      apply mod_of_add_mul (Q := c2n ls.2 + 2 * q1 + q4 + val bh * val bh) _ hlt
      simp only [val_node, Bn_succ] at *
      rw [val_lo_hi al] at hale
      generalize Bn n = B at *
      linear_combination hale + 2 * B * hq1 + B * hlse + B * hq4

end Givaro.Model.RecInt
