/-
C03, `Modular<Log16>`: if the generator chain is valid (`exp` runs through (Z/p)^* along the powers of `g`,
`log` is its inverse, `log 0` is the representation of zero), then the index arithmetic of every
`__GIVARO_ZPZ16_LOG_*` operation on canonical representations yields the canonical representation of the
exact result: `val (op a b) = (val a ∘ val b) mod p`.
-/
import GivaroModel.Model.ModRingLog16
import GivaroModel.Lemmas.ModRingLemmas
namespace Givaro.Model.ModRing
open Givaro.Spec.ModRing

namespace L16

/-- validity of the chain: what the constructor's generator search establishes for a prime `p` -/
structure Valid (T : L16) : Prop where
  p2 : 2 ≤ T.p
  exp0 : T.exp 0 = 1
  chain : ∀ e, 0 ≤ e → e < T.M → T.exp ((e + 1) % T.M) = (T.exp e * T.g) % T.p
  range : ∀ e, 0 ≤ e → e < T.M → 1 ≤ T.exp e ∧ T.exp e < T.p
  logexp : ∀ e, 0 ≤ e → e < T.M → T.log (T.exp e) = e
  explog : ∀ v, 1 ≤ v → v < T.p → 0 ≤ T.log v ∧ T.log v < T.M ∧ T.exp (T.log v) = v
  log0 : T.log 0 = T.Z

/-- canonical representations: a logarithm in `[0, p-1)`, or `zero = 2(p-1)` -/
def okR (T : L16) (a : Int) : Prop := (0 ≤ a ∧ a < T.M) ∨ a = T.Z

variable {T : L16}

/-- the chain read periodically -/
def expm (T : L16) (x : Int) : Int := T.exp (x % T.M)

theorem M_pos (h : Valid T) : 0 < T.M := by have := h.p2; unfold M; omega

theorem expm_range (h : Valid T) (x : Int) : 1 ≤ T.expm x ∧ T.expm x < T.p :=
  h.range _ (Int.emod_nonneg _ (by have := M_pos h; omega)) (Int.emod_lt_of_pos _ (M_pos h))

theorem expm_of_range (h : Valid T) {e : Int} (h0 : 0 ≤ e) (h1 : e < T.M) : T.expm e = T.exp e := by
  unfold expm; rw [Int.emod_eq_of_lt h0 h1]

theorem expm_succ (h : Valid T) (x : Int) : T.expm (x + 1) = (T.expm x * T.g) % T.p := by
  have hM := M_pos h
  unfold expm
  rw [← h.chain (x % T.M) (Int.emod_nonneg _ (by omega)) (Int.emod_lt_of_pos _ hM), Int.emod_add_emod]

theorem expm_add_nat (h : Valid T) (x : Int) : ∀ n : Nat, T.expm (x + n) = (T.expm x * T.expm n) % T.p := by
  intro n
  induction n with
  | zero =>
    have h1 := expm_range h x
    have : T.expm ((0 : Nat) : Int) = 1 := by
      show T.exp ((0 : Int) % T.M) = 1
      rw [Int.zero_emod]; exact h.exp0
    rw [this]; simp only [Nat.cast_zero, Int.add_zero, Int.mul_one]
    exact (Int.emod_eq_of_lt (by omega) h1.2).symm
  | succ n ih =>
    have e1 : x + ((n + 1 : Nat) : Int) = (x + n) + 1 := by push_cast; ring
    have e2 : ((n + 1 : Nat) : Int) = (n : Int) + 1 := by push_cast; ring
    rw [e1, expm_succ h, ih, e2, expm_succ h]
    have l1 : ∀ A B : Int, (A % T.p * B) % T.p = (A * B) % T.p := fun A B => by
      rw [Int.mul_emod, Int.emod_emod_of_dvd _ (Int.dvd_refl T.p), ← Int.mul_emod]
    have l2 : ∀ A B : Int, (A * (B % T.p)) % T.p = (A * B) % T.p := fun A B => by
      rw [Int.mul_emod, Int.emod_emod_of_dvd _ (Int.dvd_refl T.p), ← Int.mul_emod]
    rw [l1, l2]
    congr 1; ring

/-- the chain is a homomorphism `(Z, +) → ((Z/p)^*, ·)` -/
theorem expm_add (h : Valid T) (x y : Int) : T.expm (x + y) = (T.expm x * T.expm y) % T.p := by
  have hM := M_pos h
  have hy0 := Int.emod_nonneg y (by omega : T.M ≠ 0)
  have e : T.expm (x + y) = T.expm (x + ((y % T.M).toNat : Int)) := by
    unfold expm
    rw [Int.toNat_of_nonneg hy0, Int.add_emod_emod]
  have e2 : T.expm y = T.expm ((y % T.M).toNat : Int) := by
    unfold expm
    rw [Int.toNat_of_nonneg hy0, Int.emod_emod_of_dvd _ (Int.dvd_refl _)]
  rw [e, e2]
  exact expm_add_nat h x _

theorem exp_inj (h : Valid T) {e1 e2 : Int} (h1 : 0 ≤ e1 ∧ e1 < T.M) (h2 : 0 ≤ e2 ∧ e2 < T.M)
    (he : T.exp e1 = T.exp e2) : e1 = e2 := by
  rw [← h.logexp e1 h1.1 h1.2, ← h.logexp e2 h2.1 h2.2, he]

theorem expm_M (h : Valid T) : T.expm T.M = 1 := by
  unfold expm; rw [Int.emod_self]; exact h.exp0

theorem expm_zero (h : Valid T) : T.expm 0 = 1 := by
  unfold expm; rw [Int.zero_emod]; exact h.exp0

/-- `g^((p-1)/2) = -1` (no primality argument: `p-1` is a power of `g` whose square is 1) -/
theorem expm_half (h : Valid T) (hp : 2 < T.p) : T.expm (T.M / 2) = T.p - 1 ∧ T.M % 2 = 0 := by
  have hM := M_pos h
  obtain ⟨t0, t1, ht⟩ := h.explog (T.p - 1) (by omega) (by omega)
  generalize htt : T.log (T.p - 1) = t at *
  have hsq : ((T.p - 1) * (T.p - 1)) % T.p = 1 :=
    emod_unique (by omega) (by omega) (T.p - 2) (by ring)
  have h2 : T.expm (t + t) = 1 := by
    rw [expm_add h, expm_of_range h t0 t1, ht, hsq]
  have h3 : (t + t) % T.M = 0 := by
    have := h.exp0
    unfold expm at h2
    exact exp_inj h ⟨Int.emod_nonneg _ (by omega), Int.emod_lt_of_pos _ hM⟩ ⟨Int.le_refl _, hM⟩ (by rw [h2, this])
  have h4 : t + t = 0 ∨ t + t = T.M := by
    obtain ⟨q, hq⟩ := Int.dvd_of_emod_eq_zero h3
    have : q = 0 ∨ q = 1 := by
      have h5 : 0 ≤ T.M * q := by omega
      have h6 : T.M * q < T.M * 2 := by omega
      have : 0 ≤ q := by
        by_contra hc; have : q ≤ -1 := by omega
        nlinarith
      have : q < 2 := by
        by_contra hc; have : 2 ≤ q := by omega
        nlinarith
      omega
    rcases this with h | h <;> rw [h] at hq <;> [left; right] <;> omega
  rcases h4 with h4 | h4
  · have : t = 0 := by omega
    rw [this, h.exp0] at ht; omega
  · have e : T.M / 2 = t := by omega
    refine ⟨?_, by omega⟩
    rw [e, expm_of_range h t0 t1, ht]

/-- multiplying by `p-1` negates -/
theorem mul_pm1 (p x : Int) (hp : 0 < p) : (x * (p - 1)) % p = (-x) % p := by
  have : x * (p - 1) = -x + p * x := by ring
  rw [this, Int.add_mul_emod_self_left]

theorem val_nonzero (h : Valid T) {a : Int} (h0 : 0 ≤ a) (h1 : a < T.M) : T.val a = T.expm a := by
  unfold val; rw [if_neg (by unfold M at h1; omega), expm_of_range h h0 h1]

theorem val_Z (h : Valid T) : T.val T.Z = 0 := by
  unfold val; rw [if_pos (by have := h.p2; unfold Z; omega)]

theorem mulT_mod (h : Valid T) {j : Int} (h0 : 0 ≤ j) (h1 : j < T.Z) :
    T.mulT j = j % T.M ∧ 0 ≤ T.mulT j ∧ T.mulT j < T.M := by
  have hM := M_pos h
  unfold mulT
  unfold Z at h1
  have hMd : T.M = T.p - 1 := rfl
  split
  · rw [Int.emod_eq_of_lt h0 (by assumption)]; omega
  · rw [if_pos (by unfold Z; omega)]
    have : j % T.M = j - T.M := emod_unique (by omega) (by omega) 1 (by ring)
    rw [this]; omega

theorem mulT_big (h : Valid T) {j : Int} (h1 : T.Z ≤ j) : T.mulT j = T.Z := by
  have hM := M_pos h
  unfold mulT
  have : T.Z = 2 * T.M := rfl
  rw [if_neg (by omega), if_neg (by omega)]

/-- mul / mulin -/
theorem mul_exact (h : Valid T) {a b : Int} (ha : T.okR a) (hb : T.okR b) :
    T.okR (T.mul a b) ∧ T.val (T.mul a b) = (T.val a * T.val b) % T.p := by
  have hM := M_pos h
  have hZ : T.Z = 2 * T.M := rfl
  unfold mul
  rcases ha with ha | ha <;> rcases hb with hb | hb
  · obtain ⟨e, m0, m1⟩ := mulT_mod h (by omega : 0 ≤ a + b) (by omega)
    refine ⟨Or.inl ⟨m0, m1⟩, ?_⟩
    rw [val_nonzero h m0 m1, e, val_nonzero h ha.1 ha.2, val_nonzero h hb.1 hb.2, ← expm_add h]
    unfold expm; rw [Int.emod_emod_of_dvd _ (Int.dvd_refl _)]
  · rw [mulT_big h (by omega), hb, val_Z h]; exact ⟨Or.inr rfl, by simp⟩
  · rw [mulT_big h (by omega), ha, val_Z h]; exact ⟨Or.inr rfl, by simp⟩
  · rw [mulT_big h (by omega), ha, val_Z h]; exact ⟨Or.inr rfl, by simp⟩

/-- inv / invin (non-zero operand): `_tab_div[-b]` -/
theorem inv_exact (h : Valid T) {b : Int} (hb : 0 ≤ b ∧ b < T.M) :
    (0 ≤ T.inv b ∧ T.inv b < T.M) ∧ (T.val (T.inv b) * T.val b) % T.p = 1 % T.p := by
  have hM := M_pos h
  have hZ : T.Z = 2 * T.M := rfl
  unfold inv
  obtain ⟨e, m0, m1⟩ := mulT_mod h (by omega : 0 ≤ T.M - b) (by omega)
  refine ⟨⟨m0, m1⟩, ?_⟩
  rw [val_nonzero h m0 m1, e, val_nonzero h hb.1 hb.2]
  have : T.expm ((T.M - b) % T.M) = T.expm (T.M - b) := by
    unfold expm; rw [Int.emod_emod_of_dvd _ (Int.dvd_refl _)]
  rw [this, ← expm_add h]
  have : T.M - b + b = T.M := by ring
  rw [this, expm_M h]
  have := h.p2
  exact (Int.emod_eq_of_lt (by omega) (by omega)).symm

/-- div (non-zero divisor): `_tab_div[a - b]` -/
theorem div_exact (h : Valid T) {a b : Int} (ha : T.okR a) (hb : 0 ≤ b ∧ b < T.M) :
    T.okR (T.div a b) ∧ (T.val (T.div a b) * T.val b) % T.p = T.val a % T.p := by
  have hM := M_pos h
  have hZ : T.Z = 2 * T.M := rfl
  unfold div
  rcases ha with ha | ha
  · obtain ⟨e, m0, m1⟩ := mulT_mod h (by omega : 0 ≤ T.M + (a - b)) (by omega)
    refine ⟨Or.inl ⟨m0, m1⟩, ?_⟩
    rw [val_nonzero h m0 m1, e, val_nonzero h hb.1 hb.2, val_nonzero h ha.1 ha.2]
    have : T.expm ((T.M + (a - b)) % T.M) = T.expm (T.M + (a - b)) := by
      unfold expm; rw [Int.emod_emod_of_dvd _ (Int.dvd_refl _)]
    rw [this, ← expm_add h]
    have : T.M + (a - b) + b = a + T.M := by ring
    rw [this, expm_add h, expm_M h]
    have := expm_range h a
    simp only [Int.mul_one]
  · rw [mulT_big h (by omega), ha, val_Z h]; exact ⟨Or.inr rfl, by simp⟩

/-- neg / negin: `_tab_neg[a] = _tab_mul[(p-1)/2 + a]` -/
theorem neg_exact (h : Valid T) {a : Int} (ha : T.okR a) :
    T.okR (T.neg a) ∧ T.val (T.neg a) = (-(T.val a)) % T.p := by
  have hM := M_pos h
  have hZ : T.Z = 2 * T.M := rfl
  have hp := h.p2
  unfold neg
  rcases ha with ha | ha
  · obtain ⟨e, m0, m1⟩ := mulT_mod h (by omega : 0 ≤ T.M / 2 + a) (by omega)
    refine ⟨Or.inl ⟨m0, m1⟩, ?_⟩
    rw [val_nonzero h m0 m1, e, val_nonzero h ha.1 ha.2]
    have : T.expm ((T.M / 2 + a) % T.M) = T.expm (T.M / 2 + a) := by
      unfold expm; rw [Int.emod_emod_of_dvd _ (Int.dvd_refl _)]
    rw [this, expm_add h]
    by_cases hp2 : T.p = 2
    · -- p = 2: (p-1)/2 = 0 and -1 = 1
      have hM1 : T.M = 1 := by unfold M; omega
      rw [hM1]; norm_num
      rw [expm_zero h, Int.one_mul]
      have := expm_range h a
      have h1 : T.expm a = 1 := by omega
      rw [h1, hp2]; decide
    · rw [(expm_half h (by omega)).1, Int.mul_comm, mul_pm1 _ _ (by omega)]
  · rw [mulT_big h (by omega), ha, val_Z h]; exact ⟨Or.inr rfl, by simp⟩

/-! ### add / sub through the Zech tables -/

theorem expm_period (T : L16) (x : Int) : T.expm (x + T.M) = T.expm x ∧ T.expm (x - T.M) = T.expm x := by
  unfold expm
  constructor
  · rw [Int.add_emod_right]
  · rw [Int.sub_emod_right]

/-- `_tab_mul[a + plusOne e]` for a non-zero `a`: the representation of `g^a·(1 + g^e)` -/
theorem plus_one_spec (h : Valid T) {a e : Int} (ha : 0 ≤ a ∧ a < T.M) (he : 0 ≤ e ∧ e < T.M) :
    T.okR (T.mulT (a + T.plusOne e)) ∧ T.val (T.mulT (a + T.plusOne e)) = (T.expm a * (1 + T.expm e)) % T.p := by
  have hM := M_pos h
  have hZ : T.Z = 2 * T.M := rfl
  have hMd : T.M = T.p - 1 := rfl
  have hr := h.range e he.1 he.2
  rw [expm_of_range h he.1 he.2]
  unfold plusOne
  split
  · next hlt =>
    obtain ⟨t0, t1, ht⟩ := h.explog (1 + T.exp e) (by omega) (by omega)
    obtain ⟨em, m0, m1⟩ := mulT_mod h (by omega : 0 ≤ a + T.log (1 + T.exp e)) (by omega)
    refine ⟨Or.inl ⟨m0, m1⟩, ?_⟩
    rw [val_nonzero h m0 m1, em]
    have : T.expm ((a + T.log (1 + T.exp e)) % T.M) = T.expm (a + T.log (1 + T.exp e)) := by
      unfold expm; rw [Int.emod_emod_of_dvd _ (Int.dvd_refl _)]
    rw [this, expm_add h, expm_of_range h t0 t1, ht]
  · next hge =>
    rw [h.log0, mulT_big h (by omega), val_Z h]
    refine ⟨Or.inr rfl, ?_⟩
    have : 1 + T.exp e = T.p := by omega
    rw [this, Int.mul_emod_left]

theorem add_mul_mod (x y p : Int) : (x * (1 + y % p)) % p = (x + (x * y) % p) % p := by
  have e1 : x * (1 + y % p) = x + x * (y % p) := by ring
  rw [e1, Int.add_emod_emod]
  apply Int.emod_eq_emod_iff_emod_sub_eq_zero.2
  apply Int.emod_eq_zero_of_dvd
  refine ⟨-(x * (y / p)), ?_⟩
  rw [Int.emod_def y p]; ring

/-- add / addin -/
theorem add_exact (h : Valid T) {a b : Int} (ha : T.okR a) (hb : T.okR b) :
    T.okR (T.add a b) ∧ T.val (T.add a b) = (T.val a + T.val b) % T.p := by
  have hM := M_pos h
  have hZ : T.Z = 2 * T.M := rfl
  have hp := h.p2
  have hMd : T.M = T.p - 1 := rfl
  unfold add
  rcases ha with ha | ha <;> rcases hb with hb | hb
  · -- both non-zero
    rw [val_nonzero h ha.1 ha.2, val_nonzero h hb.1 hb.2]
    have hb' : T.expm b = (T.expm a * T.expm (b - a)) % T.p := by
      rw [← expm_add h]; congr 1; ring
    have hra := expm_range h a
    unfold addone
    split
    · next hj =>
      -- 1 + g^j = 0
      rw [mulT_big h (by omega), val_Z h]
      refine ⟨Or.inr rfl, ?_⟩
      by_cases hp2 : T.p = 2
      · have hb1 := expm_range h b
        have e1 : T.expm a = 1 := by omega
        have e2 : T.expm b = 1 := by omega
        rw [e1, e2, hp2]; decide
      · obtain ⟨hh, hev⟩ := expm_half h (by omega)
        have hj' : T.expm (b - a) = T.p - 1 := by
          rcases hj with hj | hj
          · rw [hj, hh]
          · rw [hj, ← hh]
            have : -(T.M / 2) = T.M / 2 - T.M := by omega
            rw [this]; exact (expm_period T _).2
        rw [hb', hj', mul_pm1 _ _ (by omega)]
        rw [Int.add_emod_emod]; simp
    · next hj =>
      split
      · next hr =>
        obtain ⟨ok, hv⟩ := plus_one_spec h ha hr
        refine ⟨ok, ?_⟩
        rw [hv, hb']
        have he := expm_range h (b - a)
        have : T.expm (b - a) = T.expm (b - a) % T.p := (Int.emod_eq_of_lt (by omega) he.2).symm
        rw [this, add_mul_mod, ← this]
      · next hr =>
        split
        · next hr2 =>
          obtain ⟨ok, hv⟩ := plus_one_spec h ha (by omega : 0 ≤ b - a + T.M ∧ b - a + T.M < T.M)
          refine ⟨ok, ?_⟩
          rw [hv, hb', (expm_period T (b - a)).1]
          have he := expm_range h (b - a)
          have : T.expm (b - a) = T.expm (b - a) % T.p := (Int.emod_eq_of_lt (by omega) he.2).symm
          rw [this, add_mul_mod, ← this]
        · omega
  · -- b = 0
    rw [hb, val_Z h]
    unfold addone
    rw [if_neg (by omega), if_neg (by omega), if_neg (by omega), if_pos (by omega)]
    obtain ⟨em, m0, m1⟩ := mulT_mod h (by omega : 0 ≤ a + 0) (by omega)
    have e2 : T.mulT (a + 0) = a := by rw [em]; simp; exact Int.emod_eq_of_lt ha.1 ha.2
    rw [e2]
    refine ⟨Or.inl ha, ?_⟩
    have := expm_range h a
    rw [val_nonzero h ha.1 ha.2, Int.add_zero]; exact (Int.emod_eq_of_lt (by omega) this.2).symm
  · -- a = 0
    rw [ha, val_Z h]
    unfold addone
    rw [if_neg (by omega), if_neg (by omega), if_neg (by omega), if_neg (by omega)]
    have : T.Z + (b - T.Z) = b := by ring
    rw [this]
    obtain ⟨em, m0, m1⟩ := mulT_mod h hb.1 (by omega)
    have e2 : T.mulT b = b := by rw [em]; exact Int.emod_eq_of_lt hb.1 hb.2
    rw [e2]
    refine ⟨Or.inl hb, ?_⟩
    have := expm_range h b
    rw [val_nonzero h hb.1 hb.2, Int.zero_add]; exact (Int.emod_eq_of_lt (by omega) this.2).symm
  · -- 0 + 0
    rw [ha, hb, val_Z h]
    have hnn : 0 ≤ T.addone (T.Z - T.Z) := by
      unfold addone plusOne
      rw [Int.sub_self]
      split
      · omega
      · rw [if_pos (by omega)]
        have hr := h.range 0 (Int.le_refl _) hM
        split
        · exact (h.explog _ (by omega) (by omega)).1
        · rw [h.log0]; omega
    rw [mulT_big h (by omega), val_Z h]
    exact ⟨Or.inr rfl, by simp⟩

theorem sub_mul_mod (x y p : Int) : (x * (1 + (-y) % p)) % p = (x - (x * y) % p) % p := by
  apply Int.emod_eq_emod_iff_emod_sub_eq_zero.2
  apply Int.emod_eq_zero_of_dvd
  refine ⟨-(x * ((-y) / p)) - (x * y) / p, ?_⟩
  rw [Int.emod_def (-y) p, Int.emod_def (x * y) p]; ring

/-- for a non-zero `a` and any index `j'` in the chain range with `g^j' = -g^j`:
    `_tab_mul[a + addone j']` represents `g^a − g^(a+j)` -/
theorem sub_core (h : Valid T) (hp2 : 2 < T.p) {a b j' : Int} (ha : 0 ≤ a ∧ a < T.M) (hb : 0 ≤ b ∧ b < T.M)
    (hj' : 0 ≤ j' ∧ j' < T.M) (hneq : j' = T.M / 2 → b = a)
    (hexp : T.expm j' = T.expm (b - a + T.M / 2)) :
    T.okR (T.mulT (a + T.addone j')) ∧ T.val (T.mulT (a + T.addone j')) = (T.expm a - T.expm b) % T.p := by
  have hM := M_pos h
  have hZ : T.Z = 2 * T.M := rfl
  have hMd : T.M = T.p - 1 := rfl
  obtain ⟨hh, hev⟩ := expm_half h hp2
  have hb' : T.expm b = (T.expm a * T.expm (b - a)) % T.p := by
    rw [← expm_add h]; congr 1; ring
  have hj2 : T.expm j' = (-(T.expm (b - a))) % T.p := by
    rw [hexp, expm_add h, hh, mul_pm1 _ _ (by omega)]
  unfold addone
  split
  · next hj =>
    have : j' = T.M / 2 := by omega
    have hba := hneq this
    rw [mulT_big h (by omega), val_Z h, hba]
    exact ⟨Or.inr rfl, by simp⟩
  · next hj =>
    first | rw [if_pos hj'] | skip
    obtain ⟨ok, hv⟩ := plus_one_spec h ha hj'
    refine ⟨ok, ?_⟩
    rw [hv, hj2, hb', sub_mul_mod]

/-- sub / subin -/
theorem sub_exact (h : Valid T) {a b : Int} (ha : T.okR a) (hb : T.okR b) :
    T.okR (T.sub a b) ∧ T.val (T.sub a b) = (T.val a - T.val b) % T.p := by
  have hM := M_pos h
  have hZ : T.Z = 2 * T.M := rfl
  have hp := h.p2
  have hMd : T.M = T.p - 1 := rfl
  unfold sub
  by_cases hp2 : T.p = 2
  · -- p = 2: the only logarithm is 0
    have hM1 : T.M = 1 := by omega
    have hZ2 : T.Z = 2 := by omega
    have hao : T.addone 0 = T.Z := by unfold addone; rw [if_pos (by rw [hM1]; decide)]
    rcases ha with ha | ha <;> rcases hb with hb | hb
    · have ea : a = 0 := by omega
      have eb : b = 0 := by omega
      subst ea; subst eb
      have : T.subone (0 - 0) = T.Z := by
        unfold subone; rw [hM1]; norm_num; exact hao
      rw [this, mulT_big h (by omega), val_Z h]
      exact ⟨Or.inr rfl, by simp⟩
    · have ea : a = 0 := by omega
      subst ea
      rw [hb, val_Z h]
      have : T.subone (T.Z - 0) = 0 := by
        unfold subone; rw [hM1, hZ2]; norm_num
      rw [this]
      have e2 : T.mulT (0 + 0) = 0 := by unfold mulT; rw [hM1]; norm_num
      rw [e2]
      refine ⟨Or.inl ⟨by omega, by omega⟩, ?_⟩
      have := expm_range h 0
      rw [val_nonzero h (by omega) (by omega), Int.sub_zero]; exact (Int.emod_eq_of_lt (by omega) this.2).symm
    · have eb : b = 0 := by omega
      subst eb
      rw [ha, val_Z h]
      have : T.subone (0 - T.Z) = -2 := by
        unfold subone; rw [hM1, hZ2]; norm_num
      rw [this, hZ2]
      have e2 : T.mulT (2 + -2) = 0 := by unfold mulT; rw [hM1]; norm_num
      rw [e2]
      refine ⟨Or.inl ⟨by omega, by omega⟩, ?_⟩
      have h1 := expm_range h 0
      have : T.expm 0 = 1 := by omega
      rw [val_nonzero h (by omega) (by omega), this, hp2]; decide
    · rw [ha, hb, val_Z h]
      have : T.subone (T.Z - T.Z) = T.Z := by
        rw [Int.sub_self]; unfold subone; rw [hM1]; norm_num; exact hao
      rw [this, mulT_big h (by omega), val_Z h]
      exact ⟨Or.inr rfl, by simp⟩
  · have hp3 : 2 < T.p := by omega
    obtain ⟨hh, hev⟩ := expm_half h hp3
    have hM2 : 2 ≤ T.M := by omega
    rcases ha with ha | ha <;> rcases hb with hb | hb
    · -- both non-zero: three windows of the difference of logarithms
      rw [val_nonzero h ha.1 ha.2, val_nonzero h hb.1 hb.2]
      unfold subone
      split
      · next hw =>
        exact sub_core h hp3 ha hb (by omega) (by omega) rfl
      · next hw =>
        split
        · next hw2 =>
          refine sub_core h hp3 ha hb (by omega) (by omega) ?_
          have : b - a - T.M / 2 = (b - a + T.M / 2) - T.M := by omega
          rw [this]; exact (expm_period T _).2
        · next hw2 =>
          split
          · next hw3 =>
            exact sub_core h hp3 ha hb (by omega) (by omega) (expm_period T _).1
          · omega
    · -- b = 0
      rw [hb, val_Z h]
      unfold subone
      rw [if_neg (by omega), if_neg (by omega), if_neg (by omega), if_neg (by omega), if_neg (by omega)]
      obtain ⟨em, m0, m1⟩ := mulT_mod h (by omega : 0 ≤ a + 0) (by omega)
      have e2 : T.mulT (a + 0) = a := by rw [em]; simp; exact Int.emod_eq_of_lt ha.1 ha.2
      rw [e2]
      refine ⟨Or.inl ha, ?_⟩
      have := expm_range h a
      rw [val_nonzero h ha.1 ha.2, Int.sub_zero]; exact (Int.emod_eq_of_lt (by omega) this.2).symm
    · -- a = 0: the representation of -g^b is b ± (p-1)/2
      rw [ha, val_Z h, val_nonzero h hb.1 hb.2]
      have hneg : ∀ e, 0 ≤ e → e < T.M → (T.expm e = T.expm (b + T.M / 2)) →
          T.okR (T.mulT e) ∧ T.val (T.mulT e) = (0 - T.expm b) % T.p := by
        intro e e0 e1 he
        obtain ⟨em, m0, m1⟩ := mulT_mod h e0 (by omega)
        have e2 : T.mulT e = e := by rw [em]; exact Int.emod_eq_of_lt e0 e1
        rw [e2]
        refine ⟨Or.inl ⟨e0, e1⟩, ?_⟩
        rw [val_nonzero h e0 e1, he, expm_add h, hh, mul_pm1 _ _ (by omega), Int.zero_sub]
      unfold subone
      rw [if_neg (by omega), if_neg (by omega), if_neg (by omega)]
      split
      · next hw =>
        have : T.Z + (b - T.Z - T.M / 2) = b - T.M / 2 := by ring
        rw [this]
        refine hneg _ (by omega) (by omega) ?_
        have : b - T.M / 2 = (b + T.M / 2) - T.M := by omega
        rw [this]; exact (expm_period T _).2
      · next hw =>
        rw [if_pos (by omega)]
        have : T.Z + (b - T.Z + T.M / 2) = b + T.M / 2 := by ring
        rw [this]
        exact hneg _ (by omega) (by omega) rfl
    · rw [ha, hb, val_Z h]
      have : T.subone (T.Z - T.Z) = T.Z := by
        rw [Int.sub_self]; unfold subone
        rw [if_pos (by omega)]
        unfold addone; rw [if_pos (by left; omega)]
      rw [this, mulT_big h (by omega), val_Z h]
      exact ⟨Or.inr rfl, by simp⟩

end L16
end Givaro.Model.ModRing
