/- C06 helper lemmas: ruconvert.h / rconvert.h — conversions to and from big integers. -/
import GivaroModel.Lemmas.RecIntDiv2
namespace Givaro.Model.RecInt

theorem bits_eq (n : Nat) : bits n = 64 * nblimb n := by
  induction n with
  | zero => rfl
  | succ k ih => simp only [bits, nblimb, ih]; ring

theorem B64_pow_nblimb (n : Nat) : B64 ^ nblimb n = Bn n := by
  have e : B64 = 2 ^ 64 := by norm_num [B64]
  rw [e, ← pow_mul, Bn, bits_eq]

theorem limbsLS_length : ∀ {n : Nat} (b : RU n), (limbsLS b).length = nblimb n
  | _, .limb _ => rfl
  | _, .node l h => by simp only [limbsLS, List.length_append, limbsLS_length l, limbsLS_length h, nblimb]; ring

theorem limbsVal_append (l1 l2 : List Nat) : limbsVal (l1 ++ l2) = limbsVal l1 + B64 ^ l1.length * limbsVal l2 := by
  induction l1 with
  | nil => simp [limbsVal]
  | cons x xs ih => simp only [List.cons_append, limbsVal, ih, List.length_cons, pow_succ]; ring

/-- `ruint_to_mpz` (mpz_import of the limbs) is the represented value -/
theorem limbsVal_limbsLS : ∀ {n : Nat} (b : RU n), limbsVal (limbsLS b) = val b
  | _, .limb v => by simp [limbsLS, limbsVal, val]
  | _, .node l h => by
      rw [limbsLS, limbsVal_append, limbsLS_length, B64_pow_nblimb, limbsVal_limbsLS l, limbsVal_limbsLS h, val_node]

/-- the tree whose limb number `i` is `g i` -/
def tree : (n : Nat) → (Nat → Nat) → RU n
  | 0, g => .limb (g 0)
  | n+1, g => .node (tree n g) (tree n (fun i => g (nblimb n + i)))

theorem fold_low {n : Nat} (g : Nat → Nat) (h : RU n) : ∀ (xs : List Nat) (l : RU n), (∀ i ∈ xs, i < nblimb n) →
    xs.foldl (fun a i => set_limb a (g i) i) (RU.node l h) = RU.node (xs.foldl (fun a i => set_limb a (g i) i) l) h
  | [], _, _ => rfl
  | x :: xs, l, hx => by
      have hx0 : x < nblimb n := hx x (by simp)
      simp only [List.foldl_cons, set_limb, if_pos hx0]
      exact fold_low g h xs _ (fun i hi => hx i (by simp [hi]))

theorem fold_high {n : Nat} (g : Nat → Nat) (l : RU n) : ∀ (xs : List Nat) (h : RU n),
    (xs.map (nblimb n + ·)).foldl (fun a i => set_limb a (g i) i) (RU.node l h)
      = RU.node l (xs.foldl (fun a i => set_limb a (g (nblimb n + i)) i) h)
  | [], _ => rfl
  | x :: xs, h => by
      have hx0 : ¬ (nblimb n + x < nblimb n) := by omega
      simp only [List.map_cons, List.foldl_cons, set_limb, if_neg hx0, Nat.add_sub_cancel_left]
      exact fold_high g l xs _

/-- writing every limb with `set_limb`, in index order, builds the tree of the written limbs -/
theorem fold_set_all : ∀ (n : Nat) (g : Nat → Nat) (a : RU n),
    (List.range (nblimb n)).foldl (fun a i => set_limb a (g i) i) a = tree n g
  | 0, g, .limb v => by simp [nblimb, set_limb, tree, List.range_succ]
  | n+1, g, .node l h => by
      have e : nblimb (n+1) = nblimb n + nblimb n := by simp only [nblimb]; ring
      rw [e, List.range_add, List.foldl_append, fold_low g h _ l (fun i hi => List.mem_range.mp hi), fold_high,
        fold_set_all n g l, fold_set_all n (fun i => g (nblimb n + i)) h, tree]

/-- the loop of `mpz_to_ruint`: limb `i` receives `(c / 2^(64 i)) mod 2^64` -/
theorem fold_state {n : Nat} (a0 : RU n) (c0 : Nat) : ∀ m : Nat,
    (List.range m).foldl (fun (st : RU n × Nat) i => (set_limb st.1 (st.2 % B64) i, st.2 / B64)) (a0, c0)
      = ((List.range m).foldl (fun a i => set_limb a ((c0 / B64 ^ i) % B64) i) a0, c0 / B64 ^ m)
  | 0 => by simp
  | m+1 => by
      rw [List.range_succ, List.foldl_append, List.foldl_append, fold_state a0 c0 m]
      simp only [List.foldl_cons, List.foldl_nil, pow_succ, Nat.div_div_eq_div_mul]

theorem tree_digits : ∀ (n c : Nat), WF (tree n (fun i => (c / B64 ^ i) % B64)) ∧ val (tree n (fun i => (c / B64 ^ i) % B64)) = c % Bn n
  | 0, c => by simp [tree, WF, val, Bn_zero, Nat.mod_lt _ (show 0 < B64 by decide)]
  | n+1, c => by
      have e : (fun i => (c / B64 ^ (nblimb n + i)) % B64) = (fun i => ((c / Bn n) / B64 ^ i) % B64) := by
        funext i; rw [pow_add, B64_pow_nblimb, Nat.div_div_eq_div_mul]
      have h1 := tree_digits n c
      have h2 := tree_digits n (c / Bn n)
      simp only [tree, WF_node, val_node, e]
      refine ⟨⟨h1.1, h2.1⟩, ?_⟩
      rw [h1.2, h2.2, Bn_succ, Nat.mod_mul]

/-- `mpz_to_ruint(a, z)` is `z mod 2^bits` (a negative `z` is stored as its two's complement) -/
theorem mpz_to_ruint_ok (n : Nat) (z : Int) : WF (mpz_to_ruint n z) ∧ (val (mpz_to_ruint n z) : Int) = z % (Bn n : Int) := by
  have hB : (0 : Int) < Bn n := by exact_mod_cast Bn_pos n
  have hnn : 0 ≤ z % (Bn n : Int) := Int.emod_nonneg _ (by omega)
  have hlt : z % (Bn n : Int) < Bn n := Int.emod_lt_of_pos _ hB
  unfold mpz_to_ruint
  rw [fold_state, fold_set_all]
  have h := tree_digits n (z % (Bn n : Int)).toNat
  refine ⟨h.1, ?_⟩
  simp only [h.2]
  have : (z % (Bn n : Int)).toNat < Bn n := by omega
  rw [Nat.mod_eq_of_lt this]; omega

theorem ruint_to_mpz_ok {n : Nat} (b : RU n) : ruint_to_mpz b = (val b : Int) := by
  unfold ruint_to_mpz; rw [limbsVal_limbsLS]

theorem isNegative_eq : ∀ {n : Nat} (b : RU n), isNegative b = highest_bit b
  | _, .limb v => by simp only [isNegative, ms_limb, highest_bit]; exact decide_eq_decide.mpr Iff.rfl
  | _, .node l h => by
      have := isNegative_eq h
      simp only [isNegative, ms_limb, highest_bit] at this ⊢; exact this

/-- two's-complement reading of a residue -/
def sval {n : Nat} (b : RU n) : Int := if 2 * val b < Bn n then (val b : Int) else (val b : Int) - Bn n

/-- `rint_to_mpz` returns the two's-complement reading -/
theorem rint_to_mpz_ok {n : Nat} (b : RU n) (hb : WF b) : rint_to_mpz b = sval b := by
  have hv := val_lt b hb
  have hn := neg_ok b hb
  unfold rint_to_mpz sval
  rw [isNegative_eq]
  by_cases h : highest_bit b = true
  · have h2 := (highest_bit_iff b hb).mp h
    rw [if_pos h, if_neg (by omega), ruint_to_mpz_ok, hn.2]
    have hpos : 0 < val b := by have := Bn_pos n; omega
    rw [Nat.mod_eq_of_lt (by omega)]
    omega
  · have h2 : ¬ Bn n ≤ 2 * val b := fun h' => h ((highest_bit_iff b hb).mpr h')
    rw [if_neg h, if_pos (by omega), ruint_to_mpz_ok]

/-- `mpz_to_rint(a, z)` stores `z mod 2^bits` -/
theorem mpz_to_rint_ok (n : Nat) (z : Int) : WF (mpz_to_rint n z) ∧ (val (mpz_to_rint n z) : Int) = z % (Bn n : Int) := by
  have hB : (0 : Int) < Bn n := by exact_mod_cast Bn_pos n
  unfold mpz_to_rint
  by_cases hz : z < 0
  · rw [if_pos hz]
    have h1 := mpz_to_ruint_ok n (-z)
    have h2 := neg_ok _ h1.1
    refine ⟨h2.1, ?_⟩
    rw [h2.2]
    have hv := val_lt _ h1.1
    have e : ((Bn n - val (mpz_to_ruint n (-z)) : Nat) : Int) = (Bn n : Int) - (-z) % (Bn n : Int) := by
      rw [Nat.cast_sub (Nat.le_of_lt hv), h1.2]
    rw [Int.natCast_mod, e]
    rw [Int.sub_emod, Int.emod_emod_of_dvd _ (Int.dvd_refl _), ← Int.sub_emod]
    have : (Bn n : Int) - -z = z + 1 * (Bn n : Int) := by ring
    rw [this, Int.add_mul_emod_self_right]
  · rw [if_neg hz]; exact mpz_to_ruint_ok n z

end Givaro.Model.RecInt
