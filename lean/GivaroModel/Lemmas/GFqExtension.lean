/-
C05 — `Extension<BaseField>`: every member function, as composed in extension.h from `Poly1Dom` calls (model
`Model/GFqExtension.lean`), is the field operation of `R[X] ⧸ (f)` (`f` the stored irreducible polynomial, `R` the base field)
on classes, and returns a reduced polynomial; the `Poly1Dom` operations enter through their C08 laws (`PolyLaws`).
-/
import GivaroModel.Model.GFqExtension
import Mathlib.RingTheory.AdjoinRoot
import Mathlib.Algebra.Polynomial.FieldDivision
import Mathlib.Tactic.LinearCombination
namespace Givaro.Lemmas.GFqExtension
open Givaro.Model.GFqExtension Polynomial

/-- C08's laws for the `Poly1Dom` operations, through an interpretation `val` of stored polynomials as `R[X]` (`R` a field):
    ring operations are exact, `modin` is the remainder of the Euclidean division, `invmod a f` is a Bezout inverse of smaller
    degree whenever `a` is invertible modulo `f`. -/
structure PolyLaws {E : Type} {R : Type*} [_root_.Field R] (P : PolyOps E) (val : E → R[X]) : Prop where
  add : ∀ a b, val (P.add a b) = val a + val b
  sub : ∀ a b, val (P.sub a b) = val a - val b
  neg : ∀ a, val (P.neg a) = - val a
  mul : ∀ a b, val (P.mul a b) = val a * val b
  maxpy : ∀ a b c, val (P.maxpy a b c) = val c - val a * val b
  modin : ∀ a f, val (P.modin a f) = val a % val f
  invmod : ∀ a f, val f ≠ 0 → IsCoprime (val a) (val f) → val f ∣ val (P.invmod a f) * val a - 1 ∧
    (val (P.invmod a f)).degree < (val f).degree

section
variable {E : Type} {R : Type*} [_root_.Field R] (X : Ext E) (val : E → R[X])

/-- the class of a stored polynomial in `R[X] ⧸ (f)`, `f = val _irred` -/
noncomputable def cls (e : E) : AdjoinRoot (val X.irred) := AdjoinRoot.mk (val X.irred) (val e)

/-- an element is reduced: degree below the degree of the modulus -/
def Reduced (a : E) : Prop := (val a).degree < (val X.irred).degree

theorem mk_mod (f g : R[X]) : AdjoinRoot.mk f (g % f) = AdjoinRoot.mk f g := by
  rw [AdjoinRoot.mk_eq_mk]
  have := EuclideanDomain.div_add_mod g f
  exact ⟨-(g / f), by linear_combination this⟩

variable (L : PolyLaws X.pD val) [hf : Fact (Irreducible (val X.irred))]
include L

theorem add_exact (a b : E) : cls X val (X.add a b) = cls X val a + cls X val b ∧
    (Reduced X val a → Reduced X val b → Reduced X val (X.add a b)) := by
  unfold Ext.add cls Reduced
  rw [L.add, map_add]
  exact ⟨rfl, fun ha hb => lt_of_le_of_lt (degree_add_le _ _) (max_lt ha hb)⟩

theorem sub_exact (a b : E) : cls X val (X.sub a b) = cls X val a - cls X val b ∧
    (Reduced X val a → Reduced X val b → Reduced X val (X.sub a b)) := by
  unfold Ext.sub cls Reduced
  rw [L.sub, map_sub]
  exact ⟨rfl, fun ha hb => lt_of_le_of_lt (degree_sub_le _ _) (max_lt ha hb)⟩

theorem neg_exact (a : E) : cls X val (X.neg a) = - cls X val a ∧ (Reduced X val a → Reduced X val (X.neg a)) := by
  unfold Ext.neg cls Reduced
  rw [L.neg, map_neg]
  exact ⟨rfl, fun ha => by rwa [degree_neg]⟩

theorem mul_exact (a b : E) : cls X val (X.mul a b) = cls X val a * cls X val b ∧ Reduced X val (X.mul a b) := by
  unfold Ext.mul cls Reduced
  rw [L.modin, L.mul, mk_mod, map_mul]
  exact ⟨rfl, degree_mod_lt _ hf.out.ne_zero⟩

theorem inv_exact (a : E) (ha : cls X val a ≠ 0) :
    cls X val (X.inv a) * cls X val a = 1 ∧ Reduced X val (X.inv a) := by
  have hnd : ¬ val X.irred ∣ val a := by
    intro h; apply ha; unfold cls; rw [AdjoinRoot.mk_eq_zero]; exact h
  have hcop : IsCoprime (val a) (val X.irred) := ((hf.out.coprime_iff_not_dvd).mpr hnd).symm
  obtain ⟨h1, h2⟩ := L.invmod a X.irred hf.out.ne_zero hcop
  unfold Ext.inv cls Reduced
  refine ⟨?_, h2⟩
  rw [← map_mul, ← map_one (AdjoinRoot.mk (val X.irred)), AdjoinRoot.mk_eq_mk]
  exact h1

theorem div_exact (a b : E) (hb : cls X val b ≠ 0) :
    cls X val (X.div a b) * cls X val b = cls X val a ∧ Reduced X val (X.div a b) := by
  obtain ⟨hi, _⟩ := inv_exact X val L b hb
  obtain ⟨hm, hr⟩ := mul_exact X val L a (X.inv b)
  unfold Ext.div
  simp only []
  refine ⟨?_, hr⟩
  rw [hm, mul_assoc, hi, mul_one]

theorem axpy_exact (a b c : E) : cls X val (X.axpy a b c) = cls X val a * cls X val b + cls X val c ∧
    (Reduced X val c → Reduced X val (X.axpy a b c)) := by
  obtain ⟨hm, hr⟩ := mul_exact X val L a b
  unfold Ext.axpy Ext.add
  simp only []
  unfold cls Reduced at *
  rw [L.add, map_add, hm]
  exact ⟨rfl, fun hc => lt_of_le_of_lt (degree_add_le _ _) (max_lt hr hc)⟩

theorem axmy_exact (a b c : E) : cls X val (X.axmy a b c) = cls X val a * cls X val b - cls X val c ∧
    (Reduced X val c → Reduced X val (X.axmy a b c)) := by
  obtain ⟨hm, hr⟩ := mul_exact X val L a b
  unfold Ext.axmy
  simp only []
  unfold cls Reduced at *
  rw [L.sub, map_sub, hm]
  exact ⟨rfl, fun hc => lt_of_le_of_lt (degree_sub_le _ _) (max_lt hr hc)⟩

theorem maxpy_exact (a b c : E) : cls X val (X.maxpy a b c) = cls X val c - cls X val a * cls X val b ∧
    Reduced X val (X.maxpy a b c) := by
  unfold Ext.maxpy cls Reduced
  rw [L.modin, L.maxpy, mk_mod, map_sub, map_mul]
  exact ⟨rfl, degree_mod_lt _ hf.out.ne_zero⟩

theorem maxpyin_exact (r a b : E) : cls X val (X.maxpyin r a b) = cls X val r - cls X val a * cls X val b ∧
    Reduced X val (X.maxpyin r a b) := by
  unfold Ext.maxpyin cls Reduced
  rw [L.modin, L.maxpy, mk_mod, map_sub, map_mul]
  exact ⟨rfl, degree_mod_lt _ hf.out.ne_zero⟩

theorem axmyin_exact (r a b : E) : cls X val (X.axmyin r a b) = cls X val a * cls X val b - cls X val r ∧
    Reduced X val (X.axmyin r a b) := by
  obtain ⟨hm, hr⟩ := maxpyin_exact X val L r a b
  unfold Ext.axmyin
  unfold cls Reduced at *
  rw [L.neg, map_neg, hm, degree_neg]
  exact ⟨by ring, hr⟩

theorem axpyin_exact (r b c : E) : cls X val (X.axpyin r b c) = cls X val r + cls X val b * cls X val c ∧
    Reduced X val (X.axpyin r b c) := by
  unfold Ext.axpyin
  simp only []
  unfold cls Reduced
  rw [L.modin, L.add, L.mul, mk_mod, map_add, map_mul]
  exact ⟨rfl, degree_mod_lt _ hf.out.ne_zero⟩

theorem divin_exact (r b : E) (hb : cls X val b ≠ 0) :
    cls X val (X.divin r b) * cls X val b = cls X val r ∧ Reduced X val (X.divin r b) := by
  obtain ⟨hi, _⟩ := inv_exact X val L b hb
  unfold Ext.divin
  simp only []
  unfold cls Reduced at *
  rw [L.modin, L.mul, mk_mod, map_mul]
  refine ⟨?_, degree_mod_lt _ hf.out.ne_zero⟩
  rw [mul_assoc, hi, mul_one]

omit L in
/-- reduced polynomials are in bijection with the quotient: `mk` is injective on them and every class has a reduced
    representative (`g % f`) -/
theorem reduced_bijection :
    (∀ g h : R[X], g.degree < (val X.irred).degree → h.degree < (val X.irred).degree →
      AdjoinRoot.mk (val X.irred) g = AdjoinRoot.mk (val X.irred) h → g = h) ∧
    (∀ y : AdjoinRoot (val X.irred), ∃ g : R[X], g.degree < (val X.irred).degree ∧ AdjoinRoot.mk (val X.irred) g = y) := by
  constructor
  · intro g h hg hh e
    rw [AdjoinRoot.mk_eq_mk] at e
    have hd : (g - h).degree < (val X.irred).degree := lt_of_le_of_lt (degree_sub_le _ _) (max_lt hg hh)
    exact sub_eq_zero.mp (eq_zero_of_dvd_of_degree_lt e hd)
  · intro y
    obtain ⟨g, rfl⟩ := AdjoinRoot.mk_surjective y
    exact ⟨g % val X.irred, degree_mod_lt _ hf.out.ne_zero, mk_mod _ _⟩

end

/-- the laws are satisfiable: `E = R[X]` with the Euclidean operations -/
noncomputable def refOps (R : Type) [_root_.Field R] : PolyOps R[X] :=
  { add := (· + ·), sub := (· - ·), neg := (- ·), mul := (· * ·), modin := (· % ·),
    invmod := fun a f => @dite _ (IsCoprime a f) (Classical.propDecidable _) (fun h => (Classical.choose h) % f) (fun _ => 0)
    maxpy := fun a b c => c - a * b }

theorem refOps_laws (R : Type) [_root_.Field R] : PolyLaws (refOps R) (id : R[X] → R[X]) := by
  refine ⟨fun _ _ => rfl, fun _ _ => rfl, fun _ => rfl, fun _ _ => rfl, fun _ _ _ => rfl, fun _ _ => rfl, ?_⟩
  intro a f hf0 hcop
  have hcop' : IsCoprime a f := hcop
  have hf0' : f ≠ 0 := hf0
  show f ∣ (@dite _ (IsCoprime a f) (Classical.propDecidable _) (fun h => (Classical.choose h) % f) (fun _ => 0)) * a - 1 ∧
    (@dite _ (IsCoprime a f) (Classical.propDecidable _) (fun h => (Classical.choose h) % f) (fun _ => 0)).degree < f.degree
  rw [dif_pos hcop']
  obtain ⟨v, hv⟩ := Classical.choose_spec hcop'
  refine ⟨?_, degree_mod_lt _ hf0'⟩
  have hdm := EuclideanDomain.div_add_mod (Classical.choose hcop') f
  exact ⟨-v - (Classical.choose hcop' / f) * a, by linear_combination hv + a * hdm⟩

end Givaro.Lemmas.GFqExtension
