/-
C14 — from the Garner invariant to statements about the model functions: digits, range, congruences,
uniqueness and the two round trips.
-/
import GivaroModel.Lemmas.CRTGarner
import Mathlib.Algebra.Order.Group.Abs
import Mathlib.Tactic.Positivity

namespace Givaro.Lemmas.CRT
open Givaro.Model.CRT
open Givaro.Spec.CRT (prod mrValue)

/-- canonical residues: `0 ≤ r_i < p_i` (this also says `0 < p_i`) -/
def Canon (ps rs : List Int) : Prop := List.Forall₂ (fun p r => 0 ≤ r ∧ r < p) ps rs

theorem zip_fst_snd : ∀ L : List (Int × Int), (L.map Prod.fst).zip (L.map Prod.snd) = L
  | [] => rfl
  | x :: L => by simp [zip_fst_snd L]

theorem mr_fold : ∀ (rest : List (Int × Int)) (t : Int),
    rest.foldl (fun res (pm : Int × Int) => res * pm.1 + pm.2) t = t * accP rest + accV rest := by
  intro rest
  induction rest with
  | nil => intro t; simp [accP, accV]
  | cons pm rest ih => intro t; simp only [List.foldl_cons, ih, accP, accV]; ring

theorem mixedRadixToRing_acc (acc : List (Int × Int)) :
    mixedRadixToRing (acc.reverse.map Prod.fst) (acc.reverse.map Prod.snd) = accV acc := by
  unfold mixedRadixToRing
  rw [zip_fst_snd, List.reverse_reverse]
  cases acc with
  | nil => simp [accV]
  | cons pm rest =>
    simp only [mr_fold, accV]; ring

theorem mrValue_acc : ∀ (L : List (Int × Int)),
    mrValue (L.map Prod.fst) (L.map Prod.snd) = accV L.reverse ∧ accP L.reverse = prod (L.map Prod.fst) := by
  intro L
  refine ⟨?_, ?_⟩
  · -- by induction on L from the right is awkward; prove a generalisation over a suffix value
    suffices h : ∀ (L : List (Int × Int)) (A : List (Int × Int)),
        accV (L.reverse ++ A) = accV A + accP A * mrValue (L.map Prod.fst) (L.map Prod.snd) ∧
        accP (L.reverse ++ A) = accP A * prod (L.map Prod.fst) by
      have := (h L []).1
      simp only [List.append_nil, accV, accP] at this
      rw [this]; ring
    intro L
    induction L with
    | nil => intro A; simp [mrValue, prod]
    | cons x L ih =>
      intro A
      have h1 := ih (x :: A)
      simp only [List.reverse_cons, List.append_assoc, List.singleton_append, List.map_cons, mrValue, prod]
      refine ⟨?_, ?_⟩
      · rw [h1.1]; simp only [accV, accP]; ring
      · rw [h1.2]; simp only [accP]; ring
  · have := accP_eq_prod L.reverse
    rw [List.reverse_reverse] at this
    exact this

theorem accV_range : ∀ acc : List (Int × Int), (∀ pm ∈ acc, 0 ≤ pm.2 ∧ pm.2 < pm.1) →
    0 ≤ accV acc ∧ accV acc < accP acc
  | [], _ => by simp [accV, accP]
  | pm :: r, h => by
    have hm := h pm (List.mem_cons_self ..)
    have hr : ∀ q ∈ r, 0 ≤ q.2 ∧ q.2 < q.1 := fun q hq => h q (List.mem_cons_of_mem _ hq)
    have ih := accV_range r hr
    have hP : 0 < accP r := accP_pos r (fun q hq => lt_of_le_of_lt (hr q hq).1 (hr q hq).2)
    simp only [accV, accP]
    refine ⟨add_nonneg ih.1 (mul_nonneg hm.1 (le_of_lt hP)), ?_⟩
    have h1 : (pm.2 + 1) * accP r ≤ pm.1 * accP r :=
      mul_le_mul_of_nonneg_right (by omega) (le_of_lt hP)
    nlinarith [ih.2]

/-! ### coprimality and uniqueness -/

theorem isCoprime_prod {p : Int} : ∀ ps : List Int, (∀ q ∈ ps, IsCoprime p q) → IsCoprime p (prod ps)
  | [], _ => by simp only [prod]; exact isCoprime_one_right
  | a :: ps, h => by
    simp only [prod]
    exact IsCoprime.mul_right (h a (List.mem_cons_self ..)) (isCoprime_prod ps (fun q hq => h q (List.mem_cons_of_mem _ hq)))

theorem prod_dvd_of_pairwise {d : Int} : ∀ ps : List Int, ps.Pairwise IsCoprime → (∀ p ∈ ps, p ∣ d) → prod ps ∣ d
  | [], _, _ => by simp [prod]
  | a :: ps, hpw, h => by
    simp only [prod]
    have hpw' := List.pairwise_cons.mp hpw
    exact IsCoprime.mul_dvd (isCoprime_prod ps hpw'.1) (h a (List.mem_cons_self ..))
      (prod_dvd_of_pairwise ps hpw'.2 (fun q hq => h q (List.mem_cons_of_mem _ hq)))

theorem dvd_prod_of_mem : ∀ (ps : List Int) (p : Int), p ∈ ps → p ∣ prod ps
  | a :: ps, p, h => by
    simp only [prod]
    rcases List.mem_cons.mp h with h1 | h1
    · subst h1; exact dvd_mul_right _ _
    · exact (dvd_prod_of_mem ps p h1).mul_left _

theorem prod_pos : ∀ ps : List Int, (∀ p ∈ ps, 0 < p) → 0 < prod ps
  | [], _ => by simp [prod]
  | a :: ps, h => by
    simp only [prod]
    exact mul_pos (h a (List.mem_cons_self ..)) (prod_pos ps (fun q hq => h q (List.mem_cons_of_mem _ hq)))

/-- the Chinese remainder theorem's uniqueness half -/
theorem crt_unique (ps : List Int) (hpw : ps.Pairwise IsCoprime) (x y : Int)
    (hx : 0 ≤ x ∧ x < prod ps) (hy : 0 ≤ y ∧ y < prod ps) (h : ∀ p ∈ ps, x % p = y % p) : x = y := by
  have hd : prod ps ∣ x - y := by
    apply prod_dvd_of_pairwise ps hpw
    intro p hp
    have : y ≡ x [ZMOD p] := (h p hp).symm
    exact this.dvd
  have habs : |x - y| < prod ps := by
    rw [abs_lt]; constructor <;> omega
  have := Int.eq_zero_of_abs_lt_dvd hd habs
  omega

theorem Canon.pos {ps rs : List Int} (h : Canon ps rs) : ∀ p ∈ ps, 0 < p := by
  induction h with
  | nil => simp
  | cons h1 _ ih =>
    intro p hp
    rcases List.mem_cons.mp hp with h2 | h2
    · subst h2; exact lt_of_le_of_lt h1.1 h1.2
    · exact ih p h2

theorem canon_ringToRns (ps : List Int) (a : Int) (hpos : ∀ p ∈ ps, 0 < p) : Canon ps (ringToRns ps a) := by
  unfold Canon ringToRns
  induction ps with
  | nil => exact List.Forall₂.nil
  | cons p ps ih =>
    have hp := hpos p (List.mem_cons_self ..)
    exact List.Forall₂.cons ⟨Int.emod_nonneg _ (ne_of_gt hp), Int.emod_lt_of_pos _ hp⟩
      (ih (fun q hq => hpos q (List.mem_cons_of_mem _ hq)))

/-! ### what a Garner run computes (generic), then the two instances -/

structure GarnerResult (ps rs ms : List Int) (x : Int) : Prop where
  digits : Canon ps ms
  value : mrValue ps ms = x
  range : 0 ≤ x ∧ x < prod ps
  residues : List.Forall₂ (fun p r => x % p = r) ps rs

theorem garnerGen_result (digit : Int → List (Int × Int) → Int → Int → Int) (g : Int → List Int → Int)
    (hd : ∀ p acc c r, acc ≠ [] → 0 < p →
      digit p acc c r ≡ (r - accV acc) * c [ZMOD p] ∧ 0 ≤ digit p acc c r ∧ digit p acc c r < p)
    (hg : ∀ p pre, pre ≠ [] → 0 < p → (∀ q ∈ pre, 0 < q) → IsCoprime p (prod pre) →
      g p pre * prod pre ≡ 1 [ZMOD p])
    (ps rs : List Int) (hpw : ps.Pairwise IsCoprime) (hcan : Canon ps rs) :
    GarnerResult ps rs (((garnerGen digit [] ps (ckGen g [] ps) rs).reverse).map Prod.snd)
      (mixedRadixToRing ps (((garnerGen digit [] ps (ckGen g [] ps) rs).reverse).map Prod.snd)) := by
  obtain ⟨hinv, hps⟩ := garnerGen_spec digit g hd hg ps [] [] rs [] rfl hcan GInv.nil
    (by intro p _; simp only [accP]; exact isCoprime_one_right) hpw
  generalize garnerGen digit [] ps (ckGen g [] ps) rs = acc at hinv hps
  simp only [List.nil_append, List.append_nil] at hinv hps
  have hx : mixedRadixToRing ps (acc.reverse.map Prod.snd) = accV acc := by
    rw [← hps]; exact mixedRadixToRing_acc acc
  rw [hx]
  have hrange := accV_range acc hinv.dig
  have hmr := mrValue_acc acc.reverse
  rw [List.reverse_reverse] at hmr
  refine ⟨?_, ?_, ?_, ?_⟩
  · unfold Canon
    rw [← hps, List.forall₂_map_left_iff, List.forall₂_map_right_iff, List.forall₂_same]
    intro pm hpm
    exact hinv.dig pm (List.mem_reverse.mp hpm)
  · rw [← hps]; exact hmr.1
  · rw [← hps, ← hmr.2]; exact hrange
  · have h1 := hinv.cong
    have h2 : List.Forall₂ (Q acc) acc.reverse rs := by
      have := List.forall₂_reverse_iff.mpr h1
      simpa using this
    rw [← hps, List.forall₂_map_left_iff]
    -- turn congruence + canonical residue into equality of remainders
    have hcan' : List.Forall₂ (fun (pm : Int × Int) r => 0 ≤ r ∧ r < pm.1) acc.reverse rs := by
      have := hcan
      unfold Canon at this
      rw [← hps, List.forall₂_map_left_iff] at this
      exact this
    clear h1 hx hrange hmr hps hcan hinv
    generalize acc.reverse = L at h2 hcan'
    induction h2 with
    | nil => exact List.Forall₂.nil
    | cons hq _ ih =>
      cases hcan' with
      | cons hc hcs =>
        refine List.Forall₂.cons ?_ (ih hcs)
        have : accV acc % _ = _ % _ := hq.2
        rw [this]
        exact Int.emod_eq_of_lt hc.1 hc.2

/-- digit and reciprocal functions of `IntRNSsystem` satisfy the generic hypotheses -/
theorem int_digit_ok : ∀ p acc c r, acc ≠ [] → 0 < p →
    ((r - intHorner p acc) * c) % p ≡ (r - accV acc) * c [ZMOD p] ∧ 0 ≤ ((r - intHorner p acc) * c) % p ∧
      ((r - intHorner p acc) * c) % p < p := by
  intro p acc c r hne hp
  refine ⟨?_, Int.emod_nonneg _ (ne_of_gt hp), Int.emod_lt_of_pos _ hp⟩
  cases acc with
  | nil => exact absurd rfl hne
  | cons pm rest =>
    exact (Int.mod_modEq _ _).trans (((Int.ModEq.refl r).sub (intHorner_modEq p pm rest)).mul_right c)

theorem rns_digit_ok : ∀ p acc c r, acc ≠ [] → 0 < p →
    (((r - rnsHorner p acc) % p) * c) % p ≡ (r - accV acc) * c [ZMOD p] ∧ 0 ≤ (((r - rnsHorner p acc) % p) * c) % p ∧
      (((r - rnsHorner p acc) % p) * c) % p < p := by
  intro p acc c r hne hp
  refine ⟨?_, Int.emod_nonneg _ (ne_of_gt hp), Int.emod_lt_of_pos _ hp⟩
  cases acc with
  | nil => exact absurd rfl hne
  | cons pm rest =>
    exact (Int.mod_modEq _ _).trans
      (((Int.mod_modEq _ _).trans ((Int.ModEq.refl r).sub (rnsHorner_modEq p pm rest))).mul_right c)

theorem int_ck_ok {cof : Int → Int → Int} (hcof : CofOK cof) : ∀ p pre, pre ≠ [] → 0 < p → (∀ q ∈ pre, 0 < q) →
    IsCoprime p (prod pre) → cof p (intProdMod p pre) * prod pre ≡ 1 [ZMOD p] := by
  intro p pre _ hp hpos hco
  have hx := intProdMod_modEq p pre
  have := cof_inverts hcof hp (intProdMod_nonneg p hp pre hpos) hx hco
  exact (((Int.ModEq.refl _).mul hx.symm)).trans this

theorem rns_ck_ok {cof : Int → Int → Int} (hcof : CofOK cof) : ∀ p pre, pre ≠ [] → 0 < p → (∀ q ∈ pre, 0 < q) →
    IsCoprime p (prod pre) → (cof p (rnsProdMod p pre) % p) * prod pre ≡ 1 [ZMOD p] := by
  intro p pre _ hp _ hco
  have hx := rnsProdMod_modEq p pre
  have := cof_inverts hcof hp (rnsProdMod_nonneg p hp pre) hx hco
  exact (((Int.mod_modEq _ _).mul hx.symm)).trans this

theorem int_garner_result {cof : Int → Int → Int} (hcof : CofOK cof) (ps rs : List Int)
    (hpw : ps.Pairwise IsCoprime) (hcan : Canon ps rs) :
    GarnerResult ps rs (intRnsToMixedRadix ps (intComputeCk cof ps) rs)
      (mixedRadixToRing ps (intRnsToMixedRadix ps (intComputeCk cof ps) rs)) := by
  unfold intRnsToMixedRadix intComputeCk
  rw [intCkGo_eq, intGarnerGo_eq]
  exact garnerGen_result _ _ int_digit_ok (int_ck_ok hcof) ps rs hpw hcan

theorem rns_garner_result {cof : Int → Int → Int} (hcof : CofOK cof) (ps rs : List Int)
    (hpw : ps.Pairwise IsCoprime) (hcan : Canon ps rs) :
    GarnerResult ps rs (rnsRnsToMixedRadix ps (rnsComputeCk cof ps) rs)
      (mixedRadixToRing ps (rnsRnsToMixedRadix ps (rnsComputeCk cof ps) rs)) := by
  unfold rnsRnsToMixedRadix rnsComputeCk
  rw [rnsCkGo_eq, rnsGarnerGo_eq]
  exact garnerGen_result _ _ rns_digit_ok (rns_ck_ok hcof) ps rs hpw hcan

theorem map_emod_eq_of_forall₂ {x : Int} {ps rs : List Int} (h : List.Forall₂ (fun p r => x % p = r) ps rs) :
    ringToRns ps x = rs := by
  unfold ringToRns
  induction h with
  | nil => rfl
  | cons h1 _ ih => simp [h1, ih]

/-- second round trip, generic in the conversion -/
theorem roundtrip_of_result (ps : List Int) (hpw : ps.Pairwise IsCoprime) (hpos : ∀ p ∈ ps, 0 < p) (a x : Int)
    {ms : List Int} (h : GarnerResult ps (ringToRns ps a) ms x) : x = a % prod ps := by
  have hM := prod_pos ps hpos
  apply crt_unique ps hpw x (a % prod ps) h.range ⟨Int.emod_nonneg _ (ne_of_gt hM), Int.emod_lt_of_pos _ hM⟩
  intro p hp
  rw [Int.emod_emod_of_dvd a (dvd_prod_of_mem ps p hp)]
  have := h.residues
  unfold ringToRns at this
  rw [List.forall₂_map_right_iff, List.forall₂_same] at this
  exact this p hp

end Givaro.Lemmas.CRT
