/-
Histories (C03): if every operation of a ring is exact on canonical operands, then every program —
of any length, with any sharing of source registers and any in-place form — computes on the
representation exactly what the same program computes on plain residues.
-/
import GivaroModel.Model.ModRingHist
import GivaroModel.Lemmas.ModRingFloat
namespace Givaro.Model.ModRing
open Givaro.Spec.ModRing

/-- every API call is exact on canonical operands (`cn` canonical map, `ok` canonical range) -/
structure ExactOps (O : RingOps) (cn : Int → Int) (ok : Int → Prop) : Prop where
  cn_ok : ∀ x, ok (cn x)
  add : ∀ a b, ok a → ok b → O.add a b = some (cn (a + b))
  sub : ∀ a b, ok a → ok b → O.sub a b = some (cn (a - b))
  mul : ∀ a b, ok a → ok b → O.mul a b = some (cn (a * b))
  neg : ∀ a, ok a → O.neg a = some (cn (-a))
  axpy : ∀ a x y, ok a → ok x → ok y → O.axpy a x y = some (cn (a * x + y))
  axmy : ∀ a x y, ok a → ok x → ok y → O.axmy a x y = some (cn (a * x - y))
  maxpy : ∀ a x y, ok a → ok x → ok y → O.maxpy a x y = some (cn (y - a * x))
  axpyin : ∀ r a x, ok r → ok a → ok x → O.axpyin r a x = some (cn (a * x + r))
  axmyin : ∀ r a x, ok r → ok a → ok x → O.axmyin r a x = some (cn (a * x - r))
  maxpyin : ∀ r a x, ok r → ok a → ok x → O.maxpyin r a x = some (cn (r - a * x))
  addin : ∀ r a, ok r → ok a → O.addin r a = some (cn (r + a))
  subin : ∀ r a, ok r → ok a → O.subin r a = some (cn (r - a))
  mulin : ∀ r a, ok r → ok a → O.mulin r a = some (cn (r * a))
  negin : ∀ r, ok r → O.negin r = some (cn (-r))

theorem set_ok {ok : Int → Prop} {r : Regs} (hr : ∀ i, ok (r i)) (d : Nat) {v : Int} (hv : ok v) :
    ∀ i, ok (r.set d v i) := by
  intro i
  have h0 := hr 0; have h1 := hr 1; have h2 := hr 2; have h3 := hr 3
  match d, i with
  | 0, 0 | 1, 1 | 2, 2 => exact hv
  | 0, 1 => exact h1 | 0, 2 => exact h2 | 0, (_ + 3) => exact h3
  | 1, 0 => exact h0 | 1, 2 => exact h2 | 1, (_ + 3) => exact h3
  | 2, 0 => exact h0 | 2, 1 => exact h1 | 2, (_ + 3) => exact h3
  | (_ + 3), 0 => exact h0 | (_ + 3), 1 => exact h1 | (_ + 3), 2 => exact h2 | (_ + 3), (_ + 3) => exact hv

theorem step_exact {O : RingOps} {cn : Int → Int} {ok : Int → Prop} (h : ExactOps O cn ok)
    (r : Regs) (hr : ∀ i, ok (r i)) (ins : Instr) :
    O.step r ins = some (stepZ cn r ins) ∧ ∀ i, ok (stepZ cn r ins i) := by
  cases ins <;> simp only [RingOps.step, stepZ]
  case add d a b => rw [h.add _ _ (hr a) (hr b)]; exact ⟨rfl, set_ok hr d (h.cn_ok _)⟩
  case sub d a b => rw [h.sub _ _ (hr a) (hr b)]; exact ⟨rfl, set_ok hr d (h.cn_ok _)⟩
  case mul d a b => rw [h.mul _ _ (hr a) (hr b)]; exact ⟨rfl, set_ok hr d (h.cn_ok _)⟩
  case neg d a => rw [h.neg _ (hr a)]; exact ⟨rfl, set_ok hr d (h.cn_ok _)⟩
  case axpy d a x y => rw [h.axpy _ _ _ (hr a) (hr x) (hr y)]; exact ⟨rfl, set_ok hr d (h.cn_ok _)⟩
  case axmy d a x y => rw [h.axmy _ _ _ (hr a) (hr x) (hr y)]; exact ⟨rfl, set_ok hr d (h.cn_ok _)⟩
  case maxpy d a x y => rw [h.maxpy _ _ _ (hr a) (hr x) (hr y)]; exact ⟨rfl, set_ok hr d (h.cn_ok _)⟩
  case addin d a => rw [h.addin _ _ (hr d) (hr a)]; exact ⟨rfl, set_ok hr d (h.cn_ok _)⟩
  case subin d a => rw [h.subin _ _ (hr d) (hr a)]; exact ⟨rfl, set_ok hr d (h.cn_ok _)⟩
  case mulin d a => rw [h.mulin _ _ (hr d) (hr a)]; exact ⟨rfl, set_ok hr d (h.cn_ok _)⟩
  case negin d => rw [h.negin _ (hr d)]; exact ⟨rfl, set_ok hr d (h.cn_ok _)⟩
  case axpyin d a x => rw [h.axpyin _ _ _ (hr d) (hr a) (hr x)]; exact ⟨rfl, set_ok hr d (h.cn_ok _)⟩
  case axmyin d a x => rw [h.axmyin _ _ _ (hr d) (hr a) (hr x)]; exact ⟨rfl, set_ok hr d (h.cn_ok _)⟩
  case maxpyin d a x => rw [h.maxpyin _ _ _ (hr d) (hr a) (hr x)]; exact ⟨rfl, set_ok hr d (h.cn_ok _)⟩

/-- by induction over the program: representation run = residue run, for every program -/
theorem run_exact {O : RingOps} {cn : Int → Int} {ok : Int → Prop} (h : ExactOps O cn ok) :
    ∀ (prog : List Instr) (r : Regs), (∀ i, ok (r i)) →
      O.run prog r = some (runZ cn prog r) ∧ ∀ i, ok (runZ cn prog r i) := by
  intro prog
  induction prog with
  | nil => intro r hr; exact ⟨rfl, hr⟩
  | cons ins is ih =>
    intro r hr
    obtain ⟨h1, h2⟩ := step_exact h r hr ins
    simp only [RingOps.run, runZ, h1, Option.bind_some]
    exact ih _ h2

end Givaro.Model.ModRing
