/-
C05 — algebra behind the Zech-logarithm macros.

`ZechHyp F q γ elt` is what a `GFqDom` object must satisfy for its arithmetic to be that of a ring `K`:
index 0 decodes to 0, index `i ∈ [1,q-1]` to `γ^i`, `γ^(q-1) = 1`, `γ^mOne = -1`, and the table `plus1`
is the pre-shifted successor logarithm (`plus1 i = 0` iff `γ^i + 1 = 0`, else `γ^(plus1 i + (q-1)) = γ^i + 1`).
`Spec.GFq.Tables.tablesValid` checks exactly these facts on the dumped tables of every constructed object.
-/
import GivaroModel.Model.Zech
import Mathlib.Algebra.Ring.Units
import Mathlib.Algebra.Group.Units.Basic
import Mathlib.Tactic.Ring
import Mathlib.Tactic.Linarith
namespace Givaro.Lemmas.GFqZech
open Givaro.Model.Zech

structure ZechHyp {K : Type*} [CommRing K] (F : Dom) (q : Int) (γ : K) (elt : Int → K) : Prop where
  q_ge : 2 ≤ q
  mun_eq : F.mun = q - 1
  elt_zero : elt 0 = 0
  elt_pow : ∀ i, 1 ≤ i → i ≤ q - 1 → elt i = γ ^ i.toNat
  pow_card : γ ^ (q - 1).toNat = 1
  mo_lo : 1 ≤ F.mo
  mo_hi : F.mo ≤ q - 1
  mo_neg : γ ^ F.mo.toNat = -1
  pl_zero : ∀ i, 1 ≤ i → i ≤ q - 1 → F.pl i = 0 → γ ^ i.toNat + 1 = 0
  pl_lo : ∀ i, 1 ≤ i → i ≤ q - 1 → F.pl i ≠ 0 → -(q - 1) < F.pl i
  pl_hi : ∀ i, 1 ≤ i → i ≤ q - 1 → F.pl i ≠ 0 → F.pl i < 0
  pl_pow : ∀ i, 1 ≤ i → i ≤ q - 1 → F.pl i ≠ 0 → γ ^ (F.pl i + (q - 1)).toNat = γ ^ i.toNat + 1

/-- an index is canonical -/
def Canon (q x : Int) : Prop := 0 ≤ x ∧ x ≤ q - 1

section
variable {K : Type*} [CommRing K] {F : Dom} {q : Int} {γ : K} {elt : Int → K} (H : ZechHyp F q γ elt)
include H

/-- γ as a unit -/
noncomputable def ZechHyp.u : Kˣ :=
  Units.mkOfMulEqOne γ (γ ^ ((q - 1).toNat - 1)) (by
    have h := H.pow_card
    have hq := H.q_ge
    have : (q - 1).toNat = ((q - 1).toNat - 1) + 1 := by omega
    rw [this, pow_succ'] at h
    exact h)

/-- `γ^n` for an arbitrary integer exponent -/
noncomputable def ZechHyp.g (n : Int) : K := ((H.u ^ n : Kˣ) : K)

theorem g_nat (n : Int) (hn : 0 ≤ n) : H.g n = γ ^ n.toNat := by
  unfold ZechHyp.g
  obtain ⟨m, rfl⟩ := Int.eq_ofNat_of_zero_le hn
  simp [ZechHyp.u]

theorem g_add (a b : Int) : H.g (a + b) = H.g a * H.g b := by
  unfold ZechHyp.g; rw [zpow_add]; simp

theorem g_zero : H.g 0 = 1 := by unfold ZechHyp.g; simp

theorem g_mun : H.g (q - 1) = 1 := by
  rw [g_nat H _ (by have := H.q_ge; omega)]; exact H.pow_card

theorem g_period (n t : Int) : H.g (n + t * (q - 1)) = H.g n := by
  have h1 : H.u ^ (q - 1) = 1 := by
    apply Units.ext
    have := g_mun H
    unfold ZechHyp.g at this
    simpa using this
  unfold ZechHyp.g
  rw [zpow_add, mul_comm t, zpow_mul, h1]; simp

/-- exponents that differ by a multiple of `q-1` give the same power -/
theorem g_congr {e1 e2 : Int} (t : Int) (h : e1 = e2 + t * (q - 1)) : H.g e1 = H.g e2 := by
  rw [h, g_period]

theorem g_mo : H.g F.mo = -1 := by
  rw [g_nat H _ (by have := H.mo_lo; omega)]; exact H.mo_neg

theorem g_neg_mo : H.g (-F.mo) = -1 := by
  have h : H.g (-F.mo) * H.g F.mo = 1 := by rw [← g_add]; simp [g_zero]
  rw [g_mo] at h
  have : H.g (-F.mo) = -(H.g (-F.mo) * -1) := by ring
  rw [this, h]

theorem elt_g (i : Int) (h1 : 1 ≤ i) (h2 : i ≤ q - 1) : elt i = H.g i := by
  rw [g_nat H _ (by omega)]; exact H.elt_pow i h1 h2

theorem pl_g (i : Int) (h1 : 1 ≤ i) (h2 : i ≤ q - 1) (h : F.pl i ≠ 0) : H.g (F.pl i + (q - 1)) = H.g i + 1 := by
  have hl := H.pl_lo i h1 h2 h
  rw [g_nat H _ (by omega), g_nat H i (by omega)]; exact H.pl_pow i h1 h2 h

theorem pl_g0 (i : Int) (h1 : 1 ≤ i) (h2 : i ≤ q - 1) (h : F.pl i = 0) : H.g i + 1 = 0 := by
  rw [g_nat H i (by omega)]; exact H.pl_zero i h1 h2 h

end
end Givaro.Lemmas.GFqZech
