/- C06 helper lemmas: rutools.h normalization, rudiv.h div (general divisor), mod_n. -/
import GivaroModel.Lemmas.RecIntShiftGen
namespace Givaro.Model.RecInt

theorem and_two_pow_ne (k l : Nat) (hl : l < 2 ^ (k+1)) : (l &&& 2 ^ k ≠ 0) ↔ 2 ^ k ≤ l := by
  rw [Nat.and_two_pow, Nat.testBit_eq_decide_div_mod_eq]
  have hp : 0 < 2 ^ k := by positivity
  have hdiv : l / 2 ^ k < 2 := by
    apply Nat.div_lt_of_lt_mul; rw [pow_succ] at hl; exact hl
  constructor
  · intro h
    by_contra hc
    have : l / 2 ^ k = 0 := Nat.div_eq_of_lt (by omega)
    simp [this] at h
  · intro h
    have : 1 ≤ l / 2 ^ k := (Nat.one_le_div_iff hp).mpr h
    have e : l / 2 ^ k = 1 := by omega
    simp [e]

theorem clzLoop_ok : ∀ (k f l d : Nat), k + 2 ≤ f → 0 < l → l < 2 ^ (k+1) →
    ∃ e, clzLoop f (2 ^ k) l d = d + e ∧ e ≤ k ∧ 2 ^ k ≤ l * 2 ^ e ∧ l * 2 ^ e < 2 ^ (k+1)
  | k, 0, _, _, hf, _, _ => by omega
  | k, f+1, l, d, hf, hl0, hl => by
      have hp : 2 ^ k ≠ 0 := by positivity
      simp only [clzLoop, if_neg hp]
      by_cases hb : l &&& 2 ^ k ≠ 0
      · rw [if_pos hb]
        exact ⟨0, rfl, by omega, by simpa using (and_two_pow_ne k l hl).mp hb, by simpa using hl⟩
      · rw [if_neg hb]
        have hlt : l < 2 ^ k := by
          by_contra hc; exact hb ((and_two_pow_ne k l hl).mpr (by omega))
        cases k with
        | zero => simp at hlt; omega
        | succ k' =>
            have e2 : 2 ^ (k'+1) / 2 = 2 ^ k' := by rw [pow_succ]; omega
            rw [e2]
            obtain ⟨e, h1, h2, h3, h4⟩ := clzLoop_ok k' f l (d+1) (by omega) hl0 hlt
            refine ⟨e + 1, by rw [h1]; omega, by omega, ?_, ?_⟩
            · rw [pow_succ, pow_succ, ← Nat.mul_assoc]; omega
            · rw [pow_succ 2 e, pow_succ 2 (k'+1), ← Nat.mul_assoc]; omega

theorem normGo_ok : ∀ {n : Nat} (b : RU n) (rest : List Nat) (d0 : Nat), WF b →
    (val b = 0 → normGo ((limbsLS b).reverse ++ rest) d0 = normGo rest (d0 + bits n)) ∧
    (val b ≠ 0 → ∃ e, normGo ((limbsLS b).reverse ++ rest) d0 = d0 + e ∧ e < bits n ∧
        Bn n ≤ 2 * (val b * 2 ^ e) ∧ val b * 2 ^ e < Bn n)
  | _, .limb v, rest, d0, hw => by
      simp only [WF] at hw
      have e64 : B64 = 2 ^ 64 := by norm_num [B64]
      have e63 : (9223372036854775808 : Nat) = 2 ^ 63 := by norm_num
      simp only [limbsLS, List.reverse_cons, List.reverse_nil, List.nil_append, List.singleton_append, normGo, val, bits, Bn_zero]
      constructor
      · intro h; rw [if_pos h]
      · intro h; rw [if_neg h, e63]
        obtain ⟨e, h1, h2, h3, h4⟩ := clzLoop_ok 63 65 v d0 (by omega) (by omega) (by rw [e64] at hw; exact hw)
        refine ⟨e, h1, by omega, ?_, ?_⟩
        · rw [e64]; have : (2:Nat) ^ 64 = 2 * 2 ^ 63 := by norm_num
          omega
        · rw [e64]; exact h4
  | _, .node (n := n) l h, rest, d0, hw => by
      have ih := normGo_ok h ((limbsLS l).reverse ++ rest) d0 hw.2
      have hvl := val_lt l hw.1
      have hB := Bn_pos n
      simp only [limbsLS, List.reverse_append, List.append_assoc, val_node, bits, Bn_succ]
      constructor
      · intro h0
        have hh0 : val h = 0 := by
          by_contra hc
          have : 0 < Bn n * val h := Nat.mul_pos hB (Nat.pos_of_ne_zero hc)
          omega
        have hl0 : val l = 0 := by rw [hh0] at h0; omega
        rw [ih.1 hh0, (normGo_ok l rest (d0 + bits n) hw.1).1 hl0]; congr 1; omega
      · intro hne
        by_cases hh0 : val h = 0
        · have hl0 : val l ≠ 0 := by rw [hh0] at hne; omega
          rw [ih.1 hh0]
          obtain ⟨e, h1, h2, h3, h4⟩ := (normGo_ok l rest (d0 + bits n) hw.1).2 hl0
          refine ⟨bits n + e, by rw [h1]; omega, by omega, ?_, ?_⟩
          · rw [hh0, pow_add, ← Bn_eq_two_pow]; simp only [Nat.mul_zero, Nat.add_zero]; nlinarith
          · rw [hh0, pow_add, ← Bn_eq_two_pow]; simp only [Nat.mul_zero, Nat.add_zero]; nlinarith
        · obtain ⟨e, h1, h2, h3, h4⟩ := ih.2 hh0
          refine ⟨e, h1, by omega, ?_, ?_⟩
          · have k1 : Bn n * Bn n ≤ Bn n * (2 * (val h * 2 ^ e)) := Nat.mul_le_mul_left _ h3
            have e3 : 2 * ((val l + Bn n * val h) * 2 ^ e) = 2 * (val l * 2 ^ e) + Bn n * (2 * (val h * 2 ^ e)) := by ring
            omega
          · have hpe : 2 ^ bits n = 2 ^ (bits n - e) * 2 ^ e := pow_split _ _ (by omega)
            rw [Bn_eq_two_pow] at h4 hvl ⊢
            have h5 : val h < 2 ^ (bits n - e) := by
              rw [hpe] at h4; exact Nat.lt_of_mul_lt_mul_right h4
            have h6 : (val h + 1) * 2 ^ e ≤ 2 ^ bits n := by rw [hpe]; exact Nat.mul_le_mul_right _ h5
            have h7 : val l * 2 ^ e < 2 ^ bits n * 2 ^ e := Nat.mul_lt_mul_of_pos_right hvl (by positivity)
            nlinarith

/-- `normalization(d, b)` for `b ≠ 0`: the count that brings the top bit of `b` to the top position -/
theorem normalization_ok {n : Nat} (b : RU n) (hw : WF b) (hne : val b ≠ 0) :
    normalization b < bits n ∧ Bn n ≤ 2 * (val b * 2 ^ normalization b) ∧ val b * 2 ^ normalization b < Bn n := by
  obtain ⟨e, h1, h2, h3, h4⟩ := (normGo_ok b [] 0 hw).2 hne
  unfold normalization
  rw [List.append_nil, Nat.zero_add] at h1
  rw [h1]; exact ⟨h2, h3, h4⟩

/-- `div(q, r, a, b)` for every `b ≠ 0`: `a = q·b + r`, `r < b` -/
theorem div_ok (t : Nat) : ∀ {n : Nat} (a b : RU n), WF a → WF b → val b ≠ 0 →
    WF (div t a b).1 ∧ WF (div t a b).2 ∧ val a = val (div t a b).1 * val b + val (div t a b).2 ∧ val (div t a b).2 < val b
  | 0, .limb a, .limb b, ha, hb, hne => by
      simp only [WF, val] at ha hb hne
      simp only [div, WF, val]
      have hb0 : 0 < b := Nat.pos_of_ne_zero hne
      refine ⟨Nat.lt_of_le_of_lt (Nat.div_le_self _ _) ha, Nat.lt_trans (Nat.mod_lt _ hb0) hb, ?_, Nat.mod_lt _ hb0⟩
      rw [Nat.mul_comm]; exact (Nat.div_add_mod a b).symm
  | n+1, a, b, ha, hb, hne => by
      obtain ⟨hd, hn1, hn2⟩ := normalization_ok b hb hne
      have hva := val_lt a ha
      have hB := Bn_pos (n+1)
      simp only [div]
      generalize normalization b = d at hd hn1 hn2 ⊢
      have hpd : 2 ^ d < Bn (n+1) := by rw [Bn_eq_two_pow]; exact Nat.pow_lt_pow_right (by decide) hd
      have hpd0 : 0 < 2 ^ d := by positivity
      -- the shifted operands
      obtain ⟨hbbw, hbbe⟩ := (shift_ok (n+1) b d hb).1
      rw [Nat.mod_eq_of_lt hn2] at hbbe
      obtain ⟨haaw, haae⟩ := left_shift_x_ok a d ha
      have haalt : val a * 2 ^ d < Bn (n+1+1) := by
        rw [Bn_succ (n+1)]; exact Nat.mul_lt_mul'' hva hpd
      rw [Nat.mod_eq_of_lt haalt] at haae
      generalize left_shift b d = bb at hbbw hbbe ⊢
      generalize left_shift_x a d = aa at haaw haae ⊢
      have haaw' := (WF_lo_hi aa).mp haaw
      rw [val_lo_hi aa] at haae
      have hb1 : 1 ≤ val b := Nat.one_le_iff_ne_zero.mpr hne
      have hhi : val (hi aa) < val bb := by
        have h1 : Bn (n+1) * val (hi aa) < Bn (n+1) * 2 ^ d := by
          have := Nat.mul_lt_mul_of_pos_right hva hpd0
          omega
        have h2 : val (hi aa) < 2 ^ d := Nat.lt_of_mul_lt_mul_left h1
        have h3 : 2 ^ d ≤ val b * 2 ^ d := Nat.le_mul_of_pos_left _ hb1
        omega
      obtain ⟨hq, hr, he, hlt⟩ := (div_family t (n+1)).1 (hi aa) (lo aa) bb haaw'.2 haaw'.1 hbbw (by rw [hbbe]; exact hn1) hhi
      generalize div_2_1 t (hi aa) (lo aa) bb = x at hq hr he hlt ⊢
      obtain ⟨hrw, hre⟩ := (shift_ok (n+1) x.2 d hr).2
      refine ⟨hq, hrw, ?_, ?_⟩
      · rw [hre]
        -- a·2^d = q·b·2^d + r'  ⇒  r' is a multiple of 2^d
        have e1 : val a * 2 ^ d = (val x.1 * val b) * 2 ^ d + val x.2 := by
          rw [← haae, Nat.add_comm, Nat.mul_comm (Bn (n+1)), he, hbbe]; ring
        have hle : val x.1 * val b ≤ val a := by
          by_contra hc
          have : (val a + 1) * 2 ^ d ≤ (val x.1 * val b) * 2 ^ d := Nat.mul_le_mul_right _ (by omega)
          nlinarith
        have e2 : val x.2 = (val a - val x.1 * val b) * 2 ^ d := by
          rw [Nat.sub_mul]; omega
        rw [e2, Nat.mul_div_cancel _ hpd0]; omega
      · rw [hre]
        apply Nat.div_lt_of_lt_mul
        rw [Nat.mul_comm, ← hbbe]; exact hlt

theorem mod_unique {b m Q r : Nat} (h : b = m * Q + r) (hr : r < m) : r = b % m := by
  rw [h, Nat.mul_add_mod, Nat.mod_eq_of_lt hr]

/-- `mod_n(a, const ruint<K+1>& b, n)` for every `n ≠ 0` (no condition on `b`) -/
theorem mod_n2_ok (t : Nat) {n : Nat} (b : RU (n+1)) (m : RU n) (hb : WF b) (hm : WF m) (hne : val m ≠ 0) :
    WF (mod_n2 t b m) ∧ val (mod_n2 t b m) = val b % val m := by
  obtain ⟨hd, hn1, hn2⟩ := normalization_ok m hm hne
  have hvb := val_lt b hb
  have hB := Bn_pos n
  unfold mod_n2
  simp only
  generalize normalization m = d at hd hn1 hn2 ⊢
  have hpd : 2 ^ d < Bn n := by rw [Bn_eq_two_pow]; exact Nat.pow_lt_pow_right (by decide) hd
  have hpd0 : 0 < 2 ^ d := by positivity
  obtain ⟨hnnw, hnne⟩ := (shift_ok n m d hm).1
  rw [Nat.mod_eq_of_lt hn2] at hnne
  obtain ⟨hbbw, hbbe⟩ := left_shift_x_ok b d hb
  have hbblt : val b * 2 ^ d < Bn (n+1) * Bn n := Nat.mul_lt_mul'' hvb hpd
  have hbblt' : val b * 2 ^ d < Bn (n+1+1) := by
    rw [Bn_succ (n+1)]
    have : Bn n ≤ Bn (n+1) := by rw [Bn_succ]; exact Nat.le_mul_of_pos_left _ hB
    have := Nat.mul_le_mul_left (Bn (n+1)) this
    omega
  rw [Nat.mod_eq_of_lt hbblt'] at hbbe
  generalize left_shift m d = nn at hnnw hnne ⊢
  generalize left_shift_x b d = bb at hbbw hbbe ⊢
  have hw1 := (WF_lo_hi bb).mp hbbw
  have hwl := (WF_lo_hi (lo bb)).mp hw1.1
  have hwh := (WF_lo_hi (hi bb)).mp hw1.2
  rw [val_lo_hi bb, val_lo_hi (lo bb), val_lo_hi (hi bb), Bn_succ n] at hbbe
  rw [Bn_succ n] at hbblt
  have hm1 : 1 ≤ val m := Nat.one_le_iff_ne_zero.mpr hne
  have hd0 := val_lt _ hwl.1
  have hd1 := val_lt _ hwl.2
  -- top digit is zero, digit 2 is below 2^d
  have hd3 : val (hi (hi bb)) = 0 := by
    by_contra hc
    have h1 : 1 ≤ val (hi (hi bb)) := Nat.one_le_iff_ne_zero.mpr hc
    have h2 : Bn n * Bn n * (Bn n * 1) ≤ Bn n * Bn n * (Bn n * val (hi (hi bb))) :=
      Nat.mul_le_mul_left _ (Nat.mul_le_mul_left _ h1)
    have h3 : 2 ^ d * (Bn n * Bn n) < Bn n * (Bn n * Bn n) := Nat.mul_lt_mul_of_pos_right hpd (Nat.mul_pos hB hB)
    nlinarith
  rw [hd3] at hbbe
  simp only [Nat.mul_zero, Nat.add_zero] at hbbe
  have hd2 : val (lo (hi bb)) < val nn := by
    have h1 : Bn n * Bn n * val (lo (hi bb)) < Bn n * Bn n * 2 ^ d := by
      have hb2 : val b * 2 ^ d < Bn n * Bn n * 2 ^ d := Nat.mul_lt_mul_of_pos_right (by rw [Bn_succ] at hvb; exact hvb) hpd0
      omega
    have h2 : val (lo (hi bb)) < 2 ^ d := Nat.lt_of_mul_lt_mul_left h1
    have h3 : 2 ^ d ≤ val m * 2 ^ d := Nat.le_mul_of_pos_left _ hm1
    omega
  have hnorm : Bn n ≤ 2 * val nn := by rw [hnne]; exact hn1
  obtain ⟨hx1, hx2, hxe, hxlt⟩ := (div_family t n).1 (lo (hi bb)) (hi (lo bb)) nn hwh.1 hwl.2 hnnw hnorm hd2
  generalize div_2_1 t (lo (hi bb)) (hi (lo bb)) nn = x at hx1 hx2 hxe hxlt ⊢
  obtain ⟨hy1, hy2, hye, hylt⟩ := (div_family t n).1 x.2 (lo (lo bb)) nn hx2 hwl.1 hnnw hnorm hxlt
  generalize div_2_1 t x.2 (lo (lo bb)) nn = y at hy1 hy2 hye hylt ⊢
  obtain ⟨hrw, hre⟩ := (shift_ok n y.2 d hy2).2
  refine ⟨hrw, ?_⟩
  rw [hre]
  have e1 : val b * 2 ^ d = (val m * (Bn n * val x.1 + val y.1)) * 2 ^ d + val y.2 := by
    rw [← hbbe]
    rw [hnne] at hxe hye
    linear_combination Bn n * hxe + hye
  have hle : val m * (Bn n * val x.1 + val y.1) ≤ val b := by
    by_contra hc
    have : (val b + 1) * 2 ^ d ≤ (val m * (Bn n * val x.1 + val y.1)) * 2 ^ d := Nat.mul_le_mul_right _ (by omega)
    nlinarith
  have e2 : val y.2 = (val b - val m * (Bn n * val x.1 + val y.1)) * 2 ^ d := by
    rw [Nat.sub_mul]; omega
  rw [e2, Nat.mul_div_cancel _ hpd0]
  apply mod_unique (Q := Bn n * val x.1 + val y.1) (by omega)
  have : (val b - val m * (Bn n * val x.1 + val y.1)) * 2 ^ d < val m * 2 ^ d := by rw [← e2, ← hnne]; exact hylt
  exact Nat.lt_of_mul_lt_mul_right this

end Givaro.Model.RecInt
