/-
C19 — `mpz_to_ruint` (limb by limb: `get_ui`, `>>= 64`) is reduction modulo 2^(2^K) on non-negative integers.
-/
import GivaroModel.Model.Text
import Mathlib.Tactic.Ring
namespace Givaro.Lemmas.Text
open Givaro.Model.Text

theorem mpzToRuintLoop_nat (bits : Nat) : ∀ (n m i acc : Nat),
    mpzToRuintLoop bits n (m : Int) i acc = acc + (m % 2 ^ (64 * n)) * 2 ^ (64 * i) := by
  intro n
  induction n with
  | zero => intro m i acc; simp [mpzToRuintLoop, Nat.mod_one]
  | succ n ih =>
    intro m i acc
    have hc : (m : Int) / (2 ^ 64 : Int) = ((m / 2 ^ 64 : Nat) : Int) := by norm_cast
    simp only [mpzToRuintLoop, Int.natAbs_natCast, hc]
    rw [ih]
    have h1 : 2 ^ (64 * (n + 1)) = 2 ^ 64 * 2 ^ (64 * n) := by rw [← Nat.pow_add]; congr 1; omega
    have h2 : 2 ^ (64 * (i + 1)) = 2 ^ (64 * i) * 2 ^ 64 := by rw [← Nat.pow_add]; congr 1
    rw [h1, Nat.mod_mul, h2]
    ring

theorem limbs_bits (K : Nat) (hK : 6 ≤ K) : 64 * (2 ^ K / 64) = 2 ^ K := by
  obtain ⟨j, rfl⟩ : ∃ j, K = 6 + j := ⟨K - 6, by omega⟩
  rw [Nat.pow_add]; norm_num

/-- `mpz_to_ruint` is reduction modulo 2^(2^K) into `[0, 2^(2^K))`, for every integer of either sign -/
theorem mpzToRuint_int (K : Nat) (hK : 6 ≤ K) (b : Int) : (mpzToRuint K b : Int) = b % ((2 ^ 2 ^ K : Nat) : Int) := by
  have hNpos : (0 : Int) < ((2 ^ 2 ^ K : Nat) : Int) := by exact_mod_cast Nat.pow_pos (by decide : 0 < 2)
  have h0 : 0 ≤ b % ((2 ^ 2 ^ K : Nat) : Int) := Int.emod_nonneg _ (by omega)
  have hlt : b % ((2 ^ 2 ^ K : Nat) : Int) < ((2 ^ 2 ^ K : Nat) : Int) := Int.emod_lt_of_pos _ hNpos
  obtain ⟨m, hm⟩ : ∃ m : Nat, b % ((2 ^ 2 ^ K : Nat) : Int) = (m : Int) := ⟨_, (Int.toNat_of_nonneg h0).symm⟩
  have hmlt : m < 2 ^ 2 ^ K := by rw [hm] at hlt; exact_mod_cast hlt
  simp only [mpzToRuint, hm, mpzToRuintLoop_nat, limbs_bits K hK, Nat.mod_eq_of_lt hmlt]
  simp

theorem mpzToRuint_nat (K : Nat) (hK : 6 ≤ K) (a : Nat) (ha : a < 2 ^ 2 ^ K) : mpzToRuint K (a : Int) = a := by
  have h := mpzToRuint_int K hK (a : Int)
  rw [Int.emod_eq_of_lt (by omega) (by exact_mod_cast ha)] at h
  exact_mod_cast h

end Givaro.Lemmas.Text
