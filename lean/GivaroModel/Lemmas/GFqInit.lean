/-
C05 — `GFqDom::init(Rep&, const Vector&)` (model `Model/GFqInit.lean`) is exact on valid tables.
-/
import GivaroModel.Model.GFqInit
import GivaroModel.Lemmas.GFqField
import GivaroModel.Lemmas.GFqCtor
namespace Givaro.Lemmas.GFqZech
open Givaro.Model.Zech Givaro.Spec.GFq Givaro.Model.GFqInit

/-- in valid tables `pol2log` is also a right inverse of `log2pol` on the codes -/
theorem tablesValid_p2l_right (T : Tables) (hv : T.tablesValid = true) (c : Nat) (hc : c < T.q) :
    T.p2l c < T.q ∧ T.l2p (T.p2l c) = c := by
  obtain ⟨_, _, _, hb⟩ := tablesValid_parts T hv
  have hl2p : Function.Bijective (fun i : Fin T.q => (⟨T.l2p i.val, (hb i.val i.isLt).1⟩ : Fin T.q)) := by
    rw [← Finite.injective_iff_bijective]
    intro i j h
    have h' : T.l2p i.val = T.l2p j.val := congrArg Fin.val h
    apply Fin.ext
    rw [← (hb i.val i.isLt).2, ← (hb j.val j.isLt).2, h']
  obtain ⟨j, hj⟩ := hl2p.2 ⟨c, hc⟩
  have hj' : T.l2p j.val = c := congrArg Fin.val hj
  have : T.p2l c = j.val := by rw [← hj']; exact (hb j.val j.isLt).2
  rw [this]; exact ⟨j.isLt, hj'⟩

theorem tablesValid_p2l_size (T : Tables) (hv : T.tablesValid = true) : T.pol2log.size = T.q := by
  unfold Tables.tablesValid at hv
  simp only [Bool.and_eq_true, decide_eq_true_eq, beq_iff_eq] at hv
  exact hv.1.1.1.1.1.1.1.1.2

section
variable {K : Type*} [CommRing K] (x : K)

theorem ev_append_zeros (l : List Nat) (n : Nat) : ev x (l ++ List.replicate n 0) = ev x l := by
  induction l with
  | nil => simp [ev_replicate, ev]
  | cons a as ih => simp only [List.cons_append, ev, ih]

theorem undigits_append_zeros (p : Nat) (l : List Nat) (n : Nat) : undigits p (l ++ List.replicate n 0) = undigits p l := by
  induction l with
  | nil =>
    induction n with
    | zero => rfl
    | succ n ih => simp only [List.nil_append, List.replicate_succ, undigits] at ih ⊢; rw [ih]; simp [undigits]
  | cons a as ih => simp only [List.cons_append, undigits, ih]

/-- a coefficient list whose `degreeOf` is below `k` is `l ++ zeros` with `l.length ≤ k` -/
theorem split_of_degree_lt (cs : List Nat) (k : Nat) (h : degreeOf cs < (k : Int)) :
    ∃ l n, cs = l ++ List.replicate n 0 ∧ l.length ≤ k := by
  unfold degreeOf at h
  generalize htw : cs.reverse.takeWhile (· == 0) = tw
  generalize hdw : cs.reverse.dropWhile (· == 0) = dw at h
  have h1 : cs.reverse = tw ++ dw := by rw [← htw, ← hdw]; exact (List.takeWhile_append_dropWhile).symm
  have h2 : tw = List.replicate tw.length 0 := by
    apply List.eq_replicate_of_mem
    intro b hb
    have hall : tw.all (· == 0) = true := by rw [← htw]; exact List.all_takeWhile
    rw [List.all_eq_true] at hall
    simpa using hall b hb
  have h3 : cs = dw.reverse ++ tw.reverse := by
    have := congrArg List.reverse h1
    rwa [List.reverse_reverse, List.reverse_append] at this
  refine ⟨dw.reverse, tw.length, ?_, by simp; omega⟩
  calc cs = dw.reverse ++ tw.reverse := h3
    _ = dw.reverse ++ (List.replicate tw.length 0).reverse := by rw [← h2]
    _ = dw.reverse ++ List.replicate tw.length 0 := by rw [List.reverse_replicate]


theorem digits_undigits_pad {p : Nat} (hp : 0 < p) (k : Nat) (l : List Nat) (hl : l.length ≤ k) (hlt : ∀ d ∈ l, d < p) :
    digits p k (undigits p l) = l ++ List.replicate (k - l.length) 0 := by
  have h1 : (l ++ List.replicate (k - l.length) 0).length = k := by simp; omega
  have h2 : ∀ d ∈ l ++ List.replicate (k - l.length) 0, d < p := by
    intro d hd
    rw [List.mem_append] at hd
    rcases hd with hd | hd
    · exact hlt d hd
    · rw [List.mem_replicate] at hd; omega
  have := digits_undigits hp _ h2
  rw [h1, undigits_append_zeros] at this
  exact this

/-- **`GFqDom::init(Rep&, const Vector&)` is exact**: for valid tables, any commutative ring `K` with `p = 0` containing a root `x`
    of the defining polynomial, `Pdom.mod(·, Irreducible)` taken by its C08 law (`modF cs` has `k` coefficients `< p` and the same
    value at the root), and every coefficient vector `cs` (entries `< p`, any length, stored leading zeros allowed): the call
    stays inside the table and returns the index whose polynomial, evaluated at `x`, is `Σ c_i x^i`. -/
theorem initVec_exact (T : Tables) (hv : T.tablesValid = true) (hp0 : ((T.F.p : Nat) : K) = 0)
    (modF : List Nat → List Nat)
    (hmod : ∀ cs, (modF cs).length = T.F.k ∧ (∀ d ∈ modF cs, d < T.F.p) ∧ ev x (modF cs) = ev x cs)
    (cs : List Nat) (hcs : ∀ c ∈ cs, c < T.F.p) :
    ∃ r, initVec T modF cs = some r ∧ r < T.q ∧ ev x (digits T.F.p T.F.k (T.l2p r)) = ev x cs := by
  obtain ⟨hprime, hk, hq, _⟩ := tablesValid_parts T hv
  have hp : 0 < T.F.p := hprime.pos
  have hsz := tablesValid_p2l_size T hv
  unfold initVec
  simp only []
  by_cases hd : degreeOf cs ≥ (T.F.k : Int)
  · simp only [hd, ↓reduceIte]
    obtain ⟨ml, mlt, mev⟩ := hmod cs
    have hlt : undigits T.F.p (modF cs) < T.q := by
      have := undigits_lt hp (modF cs) mlt
      rwa [ml] at this
    obtain ⟨r1, r2⟩ := tablesValid_p2l_right T hv _ hlt
    refine ⟨_, by rw [hsz]; simp [hlt], r1, ?_⟩
    rw [r2]
    have := digits_undigits hp (modF cs) mlt
    rw [ml] at this
    rw [this, mev]
  · simp only [hd, ↓reduceIte]
    obtain ⟨l, n, rfl, hl⟩ := split_of_degree_lt cs T.F.k (by omega)
    have hll : ∀ d ∈ l, d < T.F.p := fun d hd' => hcs d (List.mem_append_left _ hd')
    rw [undigits_append_zeros]
    have hlt : undigits T.F.p l < T.q := by
      have h1 := undigits_lt hp l hll
      have h2 : T.F.p ^ l.length ≤ T.F.p ^ T.F.k := Nat.pow_le_pow_right hp hl
      exact lt_of_lt_of_le h1 h2
    obtain ⟨r1, r2⟩ := tablesValid_p2l_right T hv _ hlt
    refine ⟨_, by rw [hsz]; simp [hlt], r1, ?_⟩
    rw [r2, digits_undigits_pad hp T.F.k l hl hll, ev_append_zeros, ev_append_zeros]

end
end Givaro.Lemmas.GFqZech
