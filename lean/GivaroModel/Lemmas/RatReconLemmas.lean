/-
C11 — lemmas about the model of Rational::ratrecon (Model/RatRecon.lean): the Euclid-loop invariant
with ghost cofactors, termination (fuel), and the arithmetic behind soundness and completeness.
-/
import GivaroModel.Model.RatRecon
import GivaroModel.Spec.RatReconSpec
import Mathlib.Tactic.Ring
import Mathlib.Tactic.Linarith
import Mathlib.Tactic.LinearCombination
import Mathlib.Data.Nat.Sqrt
namespace Givaro.Lemmas.RatRecon
open Givaro.Model.RatRecon Givaro.Spec.RatRecon

/-! ### truncated division on the operands the loop sees -/

theorem tdiv_facts (a b : Int) (ha : 0 ≤ a) (hb : 0 < b) :
    0 ≤ Int.tdiv a b ∧ 0 ≤ a - b * Int.tdiv a b ∧ a - b * Int.tdiv a b < b := by
  have h1 : Int.tdiv a b = a / b := Int.tdiv_eq_ediv_of_nonneg ha
  rw [h1]
  have h2 := Int.emod_add_mul_ediv a b
  have h3 := Int.emod_nonneg a (by omega : b ≠ 0)
  have h4 := Int.emod_lt_of_pos a hb
  have h5 : 0 ≤ a / b := Int.ediv_nonneg ha (by omega)
  refine ⟨h5, ?_, ?_⟩ <;> omega

/-- the normalised start residue: non-negative and congruent to f -/
theorem startR1_facts (f m : Int) (hm : 0 < m) :
    0 ≤ startR1 f m ∧ m ∣ (startR1 f m - f) ∧ (f < 0 → startR1 f m < m) := by
  unfold startR1
  split
  · rename_i hf
    have h1 : Int.tmod f m = -((-f) % m) := by
      have : f = -(-f) := by omega
      rw [this, Int.neg_tmod, Int.tmod_eq_emod_of_nonneg (by omega)]
      simp
    have h2 := Int.emod_add_mul_ediv (-f) m
    have h3 := Int.emod_nonneg (-f) (by omega : m ≠ 0)
    have h4 := Int.emod_lt_of_pos (-f) hm
    simp only [h1]
    split
    · refine ⟨by omega, ⟨(-f) / m + 1, ?_⟩, fun _ => by omega⟩
      have : m * ((-f) / m + 1) = m * ((-f) / m) + m := by ring
      omega
    · refine ⟨by omega, ⟨(-f) / m, ?_⟩, fun _ => by omega⟩
      omega
  · exact ⟨by omega, ⟨0, by omega⟩, by omega⟩

theorem unit_of_mul (c x : Int) (h : c * x = 1 ∨ c * x = -1) : c = 1 ∨ c = -1 := by
  have h0 : c.natAbs * x.natAbs = 1 := by
    rw [← Int.natAbs_mul]; rcases h with h | h <;> rw [h] <;> rfl
  have h1 : c.natAbs = 1 := Nat.eq_one_of_mul_eq_one_right h0
  omega

/-! ### the loop invariant (with ghost Bezout cofactors `s0`, `s1` of `m`) -/

/-- `fp` is the start residue `startR1 f m`.  `sg = ±1` alternates; `r_i = s_i m + t_i fp`;
    `s0 t1 - s1 t0 = sg`; `t1` has the sign of `sg`, `t0` the opposite one (or is 0). -/
structure LInv (fp m k : Int) (s : LoopSt) : Prop where
  r0pos : 0 < s.r0
  r1nn : 0 ≤ s.r1
  r0k : k ≤ s.r0
  cof : ∃ s0 s1 sg : Int, (sg = 1 ∨ sg = -1) ∧ s.r0 = s0 * m + s.t0 * fp ∧ s.r1 = s1 * m + s.t1 * fp ∧
        s0 * s.t1 - s1 * s.t0 = sg ∧ 0 ≤ sg * s.t1 ∧ sg * s.t0 ≤ 0
  nz1 : s.t1 ≠ 0 ∨ s.r1 = m
  nz0 : s.t0 ≠ 0 ∨ s.r0 = m

theorem linv_init (fp m k : Int) (hm : 0 < m) (hk : k ≤ m) (hfp : 0 ≤ fp) : LInv fp m k ⟨m, 0, fp, 1⟩ where
  r0pos := hm
  r1nn := hfp
  r0k := hk
  cof := ⟨1, 0, 1, Or.inl rfl, by simp, by simp, by simp, by simp, by simp⟩
  nz1 := Or.inl (by simp)
  nz0 := Or.inr rfl

theorem linv_step (fp m k : Int) (s : LoopSt) (hk : 1 ≤ k) (h : LInv fp m k s) (hc : s.r1 ≥ k) :
    LInv fp m k (step s) ∧ (step s).r1 < s.r1 := by
  obtain ⟨r0pos, r1nn, r0k, ⟨s0, s1, sg, hsg, e0, e1, hdet, hs1, hs0⟩, nz1, nz0⟩ := h
  have hr1 : 0 < s.r1 := by omega
  obtain ⟨q0, qlo, qhi⟩ := tdiv_facts s.r0 s.r1 (by omega) hr1
  generalize hq : Int.tdiv s.r0 s.r1 = q at q0 qlo qhi
  have hst : step s = ⟨s.r1, s.t1, s.r0 - s.r1 * q, s.t0 - s.t1 * q⟩ := by
    unfold step; simp only [hq]
  rw [hst]
  refine ⟨⟨hr1, qlo, hc, ⟨s1, s0 - s1 * q, -sg, by omega, e1, ?_, ?_, ?_, ?_⟩, ?_, nz1⟩, qhi⟩
  · show s.r0 - s.r1 * q = (s0 - s1 * q) * m + (s.t0 - s.t1 * q) * fp
    rw [e0, e1]; ring
  · show s1 * (s.t0 - s.t1 * q) - (s0 - s1 * q) * s.t1 = -sg
    rw [← hdet]; ring
  · show 0 ≤ -sg * (s.t0 - s.t1 * q)
    rcases hsg with rfl | rfl
    · have : 0 ≤ s.t1 * q := Int.mul_nonneg (by omega) q0
      linarith
    · have : 0 ≤ (-s.t1) * q := Int.mul_nonneg (by omega) q0
      linarith
  · show -sg * s.t1 ≤ 0
    linarith
  · show s.t0 - s.t1 * q ≠ 0 ∨ s.r0 - s.r1 * q = m
    by_cases hz : s.t0 - s.t1 * q = 0
    · right
      -- t0 = t1 q with opposite signs: t0 = 0 and t1 q = 0
      have ht0 : s.t0 = 0 ∧ s.t1 * q = 0 := by
        rcases hsg with rfl | rfl
        · have : 0 ≤ s.t1 * q := Int.mul_nonneg (by omega) q0
          constructor <;> omega
        · have : 0 ≤ (-s.t1) * q := Int.mul_nonneg (by omega) q0
          have : (-s.t1) * q = -(s.t1 * q) := by ring
          constructor <;> omega
      have hr0 : s.r0 = m := by
        rcases nz0 with h | h
        · exact absurd ht0.1 h
        · exact h
      have hq0 : q = 0 := by
        rcases Int.mul_eq_zero.mp ht0.2 with h | h
        · -- t1 = 0 and t0 = 0 contradict the determinant
          exfalso
          rw [h, ht0.1] at hdet
          simp at hdet
          omega
        · exact h
      rw [hq0, hr0]; simp
    · left; exact hz

/-! ### the loop -/

theorem loop_inv (fp m k : Int) (hk : 1 ≤ k) : ∀ (fuel : Nat) (s : LoopSt), LInv fp m k s → LInv fp m k (loop k fuel s) := by
  intro fuel
  induction fuel with
  | zero => intro s h; exact h
  | succ n ih =>
    intro s h
    unfold loop
    split
    · rename_i hc
      exact ih _ (linv_step fp m k s hk h hc).1
    · exact h

/-- termination: `r1` strictly decreases, so `r1.toNat + 1` iterations reach `r1 < k` -/
theorem loop_exit (fp m k : Int) (hk : 1 ≤ k) : ∀ (fuel : Nat) (s : LoopSt), LInv fp m k s → s.r1.toNat < fuel →
    (loop k fuel s).r1 < k := by
  intro fuel
  induction fuel with
  | zero => intro s _ hf; omega
  | succ n ih =>
    intro s h hf
    unfold loop
    split
    · rename_i hc
      have hs := linv_step fp m k s hk h hc
      have := hs.1.r1nn
      exact ih _ hs.1 (by omega)
    · omega

/-- once the loop condition is false, more fuel changes nothing -/
theorem loop_stable (k : Int) : ∀ (n : Nat) (s : LoopSt), (loop k n s).r1 < k → ∀ j, loop k (n + j) s = loop k n s := by
  intro n
  induction n with
  | zero =>
    intro s h j
    cases j with
    | zero => rfl
    | succ j =>
      simp only [loop] at h
      show loop k (0 + (j + 1)) s = loop k 0 s
      rw [Nat.zero_add]
      unfold loop
      rw [if_neg (by omega)]
  | succ n ih =>
    intro s h j
    rw [Nat.add_right_comm]
    unfold loop at h ⊢
    split
    · rename_i hc
      rw [if_pos hc] at h
      exact ih _ h j
    · rfl

/-! ### what the exit state gives -/

/-- soundness of the code after the loop, from the invariant and the negated loop condition -/
theorem finish_sound (f fp m k : Int) (fr : Bool) (s : LoopSt) (hm : 0 < m) (hk : 1 ≤ k) (hkm : k ≤ m)
    (hfp : m ∣ (fp - f)) (h : LInv fp m k s) (hx : s.r1 < k) :
    (finish s f m k fr).ok = true → Sound f m k fr (finish s f m k fr).num (finish s f m k fr).den := by
  obtain ⟨r0pos, r1nn, r0k, ⟨s0, s1, sg, hsg, e0, e1, hdet, hs1, hs0⟩, nz1, nz0⟩ := h
  obtain ⟨e, he⟩ := hfp
  have ht1 : s.t1 ≠ 0 := by
    rcases nz1 with h | h
    · exact h
    · omega
  -- candidate (i)
  have c1 : m ∣ ((if s.t1 < 0 then -s.r1 else s.r1) - (if s.t1 < 0 then -s.t1 else s.t1) * f) := by
    split
    · refine ⟨-s1 - s.t1 * e, ?_⟩
      have : f = fp - m * e := by omega
      rw [e1, this]; ring
    · refine ⟨s1 + s.t1 * e, ?_⟩
      have : f = fp - m * e := by omega
      rw [e1, this]; ring
  have c2 : (((if s.t1 < 0 then -s.r1 else s.r1) : Int).natAbs : Int) < k := by split <;> omega
  have c3 : 0 < (if s.t1 < 0 then -s.t1 else s.t1) := by split <;> omega
  have hnum : (if s.t1 < 0 then -s.r1 else s.r1) = 0 ↔ s.r1 = 0 := by split <;> omega
  have hone : s.r1 = 0 → (s.t1 = 1 ∨ s.t1 = -1) →
      Int.gcd (if s.t1 < 0 then -s.r1 else s.r1) (if s.t1 < 0 then -s.t1 else s.t1) = 1 := by
    intro h0 hu; rcases hu with hu | hu <;> simp [hu, h0]
  unfold finish
  simp only []
  generalize (if s.t1 < 0 then -s.r1 else s.r1) = num at c1 c2 hnum hone ⊢
  generalize (if s.t1 < 0 then -s.t1 else s.t1) = den at c1 c3 hone ⊢
  cases fr with
  | false =>
    intro _
    exact ⟨c1, c2, c3, by intro h; cases h⟩
  | true =>
    simp only [if_true]
    by_cases hg : Int.gcd num den ≠ 1
    · rw [if_pos hg]
      by_cases hn0 : num = 0
      · rw [if_pos hn0]
        -- num = 0: the `f % m == 0` branch cannot be reached with gcd ≠ 1
        by_cases hfm : Int.tmod f m = 0
        · rw [if_pos hfm]
          exfalso
          have hr1 : s.r1 = 0 := hnum.mp hn0
          have hmf : m ∣ f := Int.dvd_of_tmod_eq_zero hfm
          obtain ⟨c, hc⟩ := hmf
          -- fp = m (c + e);  0 = r1 = m (s1 + t1 (c+e));  sg = t1 (s0 + (c+e) t0)
          have hfp' : fp = m * (c + e) := by rw [Int.mul_add, ← hc]; omega
          have h1 : m * (s1 + s.t1 * (c + e)) = 0 := by
            have : m * (s1 + s.t1 * (c + e)) = s1 * m + s.t1 * (m * (c + e)) := by ring
            rw [this, ← hfp', ← e1, hr1]
          have h2 : s1 = -(s.t1 * (c + e)) := by
            rcases Int.mul_eq_zero.mp h1 with h | h <;> omega
          have h3 : s.t1 * (s0 + (c + e) * s.t0) = sg := by
            rw [← hdet, h2]; ring
          have hu : s.t1 = 1 ∨ s.t1 = -1 :=
            unit_of_mul _ _ (by rcases hsg with h | h <;> rw [h] at h3 <;> [left; right] <;> exact h3)
          exact hg (hone hr1 hu)
        · rw [if_neg hfm]; intro h; cases h
      · rw [if_neg hn0]
        -- second candidate
        have hr1 : 0 < s.r1 := by
          have : s.r1 ≠ 0 := fun h0 => hn0 (hnum.mpr h0)
          omega
        obtain ⟨q0, qlo, qhi⟩ := tdiv_facts (s.r0 + s.r1 - k) s.r1 (by omega) hr1
        generalize Int.tdiv (s.r0 + s.r1 - k) s.r1 = q at q0 qlo qhi ⊢
        have hq1 : 1 ≤ q := by
          by_contra hq
          have : q = 0 := by omega
          rw [this] at qhi; omega
        have hr0' : 0 < s.r0 - q * s.r1 ∧ s.r0 - q * s.r1 < k := by
          have : q * s.r1 = s.r1 * q := Int.mul_comm _ _
          constructor <;> omega
        have hden : s.t0 - q * s.t1 ≠ 0 := by
          rcases hsg with rfl | rfl
          · have : 1 * s.t1 ≤ q * s.t1 := Int.mul_le_mul_of_nonneg_right hq1 (by omega)
            omega
          · have : 1 * (-s.t1) ≤ q * (-s.t1) := Int.mul_le_mul_of_nonneg_right hq1 (by omega)
            have : q * (-s.t1) = -(q * s.t1) := by ring
            omega
        have d1 : m ∣ ((if s.t0 - q * s.t1 < 0 then -(s.r0 - q * s.r1) else s.r0 - q * s.r1)
            - (if s.t0 - q * s.t1 < 0 then -(s.t0 - q * s.t1) else s.t0 - q * s.t1) * f) := by
          have hf : f = fp - m * e := by omega
          split
          · refine ⟨-(s0 - q * s1) - (s.t0 - q * s.t1) * e, ?_⟩
            rw [e0, e1, hf]; ring
          · refine ⟨(s0 - q * s1) + (s.t0 - q * s.t1) * e, ?_⟩
            rw [e0, e1, hf]; ring
        have d2 : (((if s.t0 - q * s.t1 < 0 then -(s.r0 - q * s.r1) else s.r0 - q * s.r1) : Int).natAbs : Int) < k := by
          split <;> omega
        have d3 : 0 < (if s.t0 - q * s.t1 < 0 then -(s.t0 - q * s.t1) else s.t0 - q * s.t1) := by split <;> omega
        generalize (if s.t0 - q * s.t1 < 0 then -(s.r0 - q * s.r1) else s.r0 - q * s.r1) = num' at d1 d2 ⊢
        generalize (if s.t0 - q * s.t1 < 0 then -(s.t0 - q * s.t1) else s.t0 - q * s.t1) = den' at d1 d3 ⊢
        by_cases hg2 : Int.gcd num' den' ≠ 1
        · rw [if_pos hg2]; intro h; cases h
        · rw [if_neg hg2]; intro _
          exact ⟨d1, d2, d3, fun _ => by by_contra hh; exact hg2 hh⟩
    · rw [if_neg hg]
      intro _
      exact ⟨c1, c2, c3, fun _ => by by_contra hh; exact hg hh⟩

/-- bound above the modulus with a start residue already below it: the loop body never runs -/
theorem ratrecon_noloop (f m k : Int) (fr : Bool) (fuel : Nat) (hm : 0 < m) (hlt : startR1 f m < k) :
    ratreconFuel fuel f m k fr = ⟨true, startR1 f m, 1⟩ := by
  have hl : loop k fuel ⟨m, 0, startR1 f m, 1⟩ = ⟨m, 0, startR1 f m, 1⟩ := by
    cases fuel with
    | zero => rfl
    | succ n => unfold loop; rw [if_neg (by simp; omega)]
  unfold ratreconFuel
  rw [hl]
  unfold finish
  simp

theorem ratreconFuel_sound (f m k : Int) (fr : Bool) (fuel : Nat) (hm : 0 < m) (hk : 1 ≤ k)
    (hkm : k ≤ m ∨ startR1 f m < k) (hfuel : fuelFor f m ≤ fuel) :
    (ratreconFuel fuel f m k fr).ok = true →
      Sound f m k fr (ratreconFuel fuel f m k fr).num (ratreconFuel fuel f m k fr).den := by
  obtain ⟨h0, hd, _⟩ := startR1_facts f m hm
  by_cases hlt : startR1 f m < k
  · rw [ratrecon_noloop f m k fr fuel hm hlt]
    intro _
    refine ⟨by simpa using hd, ?_, by simp, fun _ => by simp⟩
    show ((startR1 f m).natAbs : Int) < k
    omega
  · have hkm' : k ≤ m := by rcases hkm with h | h <;> omega
    have hi := linv_init (startR1 f m) m k hm hkm' h0
    have hl := loop_inv (startR1 f m) m k hk fuel _ hi
    have hx := loop_exit (startR1 f m) m k hk fuel _ hi (by unfold fuelFor at hfuel; simp only [] ; omega)
    exact finish_sound f (startR1 f m) m k fr _ hm hk hkm' hd hl hx

theorem normResidue_facts (f m : Int) (hm : 0 < m) :
    0 ≤ normResidue f m ∧ normResidue f m ≤ m ∧ m ∣ (normResidue f m - f) := by
  unfold normResidue
  have key : ∀ g : Int, g < 0 → -m < Int.tmod g m ∧ Int.tmod g m ≤ 0 ∧ m ∣ (Int.tmod g m - g) := by
    intro g hg
    have h1 : Int.tmod g m = -((-g) % m) := by
      have : g = -(-g) := by omega
      rw [this, Int.neg_tmod, Int.tmod_eq_emod_of_nonneg (by omega)]
      simp
    have h2 := Int.emod_add_mul_ediv (-g) m
    have h3 := Int.emod_nonneg (-g) (by omega : m ≠ 0)
    have h4 := Int.emod_lt_of_pos (-g) hm
    refine ⟨by omega, by omega, ⟨(-g) / m, by omega⟩⟩
  split
  · rename_i hf
    simp only []
    split
    · obtain ⟨k1, k2, ⟨c, hc⟩⟩ := key f hf
      split
      · exact ⟨by omega, by omega, ⟨c + 1, by rw [Int.mul_add]; omega⟩⟩
      · exact ⟨by omega, by omega, ⟨c, by omega⟩⟩
    · exact ⟨by omega, by omega, ⟨1, by omega⟩⟩
  · rename_i hf
    split
    · have h1 : Int.tmod f m = f % m := Int.tmod_eq_emod_of_nonneg (by omega)
      have h2 := Int.emod_add_mul_ediv f m
      have h3 := Int.emod_nonneg f (by omega : m ≠ 0)
      have h4 := Int.emod_lt_of_pos f hm
      rw [h1]
      exact ⟨h3, by omega, ⟨-(f / m), by rw [Int.mul_neg]; omega⟩⟩
    · exact ⟨by omega, by omega, ⟨0, by omega⟩⟩

/-- what the widening loop returns: the state it was given, or the result of one more call with a bound in `[newk, f)` -/
theorem widen_cases (x m f : Int) (fr : Bool) : ∀ (n : Nat) (newk : Int) (cur : Out), 1 ≤ newk →
    widen x m f fr n newk cur = cur ∨
    ∃ k', newk ≤ k' ∧ k' < f ∧ widen x m f fr n newk cur = ratrecon x m k' fr := by
  intro n
  induction n with
  | zero => intro newk cur _; left; rfl
  | succ n ih =>
    intro newk cur hk
    unfold widen
    split
    · rename_i hc
      simp only [Bool.and_eq_true, Bool.not_eq_true', decide_eq_true_eq] at hc
      rcases ih (newk * 2) (ratrecon x m newk fr) (by omega) with h | ⟨k', h1, h2, h3⟩
      · right; exact ⟨newk, by omega, hc.2, h⟩
      · right; exact ⟨k', by omega, h2, h3⟩
    · left; rfl

theorem sound_of_congr (f x m k : Int) (fr : Bool) (n d : Int) (hx : m ∣ (x - f)) (h : Sound x m k fr n d) :
    Sound f m k fr n d := by
  obtain ⟨⟨c, hc⟩, h2, h3, h4⟩ := h
  obtain ⟨e, he⟩ := hx
  refine ⟨⟨c + d * e, ?_⟩, h2, h3, h4⟩
  have : x = f + m * e := by omega
  rw [this] at hc
  have : n - d * f = m * c + d * (m * e) := by
    have : d * (f + m * e) = d * f + d * (m * e) := by ring
    omega
  rw [this]; ring

/-! ### completeness inside the uniqueness envelope (MCA Thm 5.26, via the ghost cofactors) -/

theorem finish_complete (f fp m k a b : Int) (s : LoopSt) (hm : 0 < m) (hk : 1 ≤ k) (hkk : k * k ≤ m)
    (hfp : m ∣ (fp - f)) (hres : m ∣ (b * f - a)) (hb : 0 < b) (hab : Int.gcd a b = 1)
    (ha4 : 4 * (a.natAbs : Int) ≤ k) (hb4 : 4 * b ≤ k)
    (h : LInv fp m k s) (hx : s.r1 < k) : finish s f m k true = ⟨true, a, b⟩ := by
  obtain ⟨r0pos, r1nn, r0k, ⟨s0, s1, sg, hsg, e0, e1, hdet, hs1, hs0⟩, nz1, nz0⟩ := h
  obtain ⟨e, he⟩ := hfp
  obtain ⟨c', hc'⟩ := hres
  -- b fp - a = m w
  have hw : b * fp - a = m * (b * e + c') := by
    have : b * fp - a = b * (fp - f) + (b * f - a) := by ring
    rw [this, he, hc']; ring
  generalize b * e + c' = w at hw
  -- |t1| k ≤ m
  have hdet2 : s.r0 * s.t1 - s.r1 * s.t0 = m * sg := by
    rw [← hdet]
    have h1 : s.r0 * s.t1 = (s0 * m + s.t0 * fp) * s.t1 := by rw [← e0]
    have h2 : s.r1 * s.t0 = (s1 * m + s.t1 * fp) * s.t0 := by rw [← e1]
    rw [h1, h2]; ring
  have hT : 0 ≤ sg * s.t1 ∧ k * (sg * s.t1) ≤ m := by
    refine ⟨hs1, ?_⟩
    rcases hsg with rfl | rfl
    · have h1 : 0 ≤ s.r1 * (-s.t0) := Int.mul_nonneg r1nn (by omega)
      have h2 : k * (1 * s.t1) ≤ s.r0 * (1 * s.t1) := Int.mul_le_mul_of_nonneg_right r0k (by omega)
      have h3 : s.r1 * (-s.t0) = -(s.r1 * s.t0) := by ring
      have h4 : s.r0 * (1 * s.t1) = s.r0 * s.t1 := by ring
      omega
    · have h1 : 0 ≤ s.r1 * s.t0 := Int.mul_nonneg r1nn (by omega)
      have h2 : k * (-1 * s.t1) ≤ s.r0 * (-1 * s.t1) := Int.mul_le_mul_of_nonneg_right r0k (by omega)
      have h4 : s.r0 * (-1 * s.t1) = -(s.r0 * s.t1) := by ring
      omega
  generalize hTd : sg * s.t1 = T at hT
  -- X = a t1 - b r1 is a multiple of m of absolute value < m
  have hX : m ∣ (a * s.t1 - b * s.r1) := by
    refine ⟨-(s.t1 * w) - b * s1, ?_⟩
    have : a = b * fp - m * w := by omega
    rw [e1]
    calc a * s.t1 - b * (s1 * m + s.t1 * fp) = s.t1 * (a - b * fp) - b * s1 * m := by ring
      _ = s.t1 * (-(m * w)) - b * s1 * m := by rw [show a - b * fp = -(m * w) by omega]
      _ = m * (-(s.t1 * w) - b * s1) := by ring
  have hAT : -((a.natAbs : Int) * T) ≤ a * s.t1 ∧ a * s.t1 ≤ (a.natAbs : Int) * T := by
    rw [← hTd]
    rcases hsg with rfl | rfl <;> rcases Int.natAbs_eq a with ha | ha
    · have : a * s.t1 = (a.natAbs : Int) * (1 * s.t1) := by rw [← ha]; ring
      constructor <;> nlinarith [Int.mul_nonneg (Int.natCast_nonneg a.natAbs) hs1]
    · have : a * s.t1 = -((a.natAbs : Int) * (1 * s.t1)) := by
        have : a * s.t1 = -(-a * (1 * s.t1)) := by ring
        rw [this]; congr 2; omega
      constructor <;> nlinarith [Int.mul_nonneg (Int.natCast_nonneg a.natAbs) hs1]
    · have : a * s.t1 = -((a.natAbs : Int) * (-1 * s.t1)) := by rw [← ha]; ring
      constructor <;> nlinarith [Int.mul_nonneg (Int.natCast_nonneg a.natAbs) hs1]
    · have : a * s.t1 = (a.natAbs : Int) * (-1 * s.t1) := by
        have : a * s.t1 = (-a) * (-1 * s.t1) := by ring
        rw [this]; congr 1; omega
      constructor <;> nlinarith [Int.mul_nonneg (Int.natCast_nonneg a.natAbs) hs1]
  have h4AT : 4 * ((a.natAbs : Int) * T) ≤ m := by
    have : 4 * (a.natAbs : Int) * T ≤ k * T := Int.mul_le_mul_of_nonneg_right ha4 hT.1
    have : 4 * ((a.natAbs : Int) * T) = 4 * (a.natAbs : Int) * T := by ring
    omega
  have h4br : 4 * (b * s.r1) < m := by
    have h1 : 4 * b * s.r1 ≤ k * s.r1 := Int.mul_le_mul_of_nonneg_right hb4 r1nn
    have h2 : k * s.r1 ≤ k * (k - 1) := Int.mul_le_mul_of_nonneg_left (by omega) (by omega)
    have h3 : k * (k - 1) = k * k - k := by ring
    have h4 : 4 * (b * s.r1) = 4 * b * s.r1 := by ring
    omega
  have hbr0 : 0 ≤ b * s.r1 := Int.mul_nonneg (by omega) r1nn
  have hAT0 : 0 ≤ (a.natAbs : Int) * T := Int.mul_nonneg (Int.natCast_nonneg _) hT.1
  have hX0 : a * s.t1 - b * s.r1 = 0 :=
    Int.eq_zero_of_abs_lt_dvd hX (abs_lt.mpr ⟨by omega, by omega⟩)
  -- t1 = b c, r1 = a c
  have hbt : b ∣ s.t1 := by
    have h1 : b ∣ a * s.t1 := ⟨s.r1, by omega⟩
    exact Int.dvd_of_dvd_mul_right_of_gcd_one h1 (by rw [Int.gcd_comm]; exact hab)
  obtain ⟨c, hc⟩ := hbt
  have hr1c : s.r1 = a * c := by
    have h1 : b * s.r1 = b * (a * c) := by
      have : a * s.t1 = b * (a * c) := by rw [hc]; ring
      omega
    exact Int.eq_of_mul_eq_mul_left (by omega) h1
  -- c is a unit
  have hs1 : m * (s1 + c * w) = 0 := by
    have h1 : s.r1 = s1 * m + b * c * fp := by rw [← hc]; exact e1
    have h2 : b * c * fp = c * (a + m * w) := by
      have : b * fp = a + m * w := by omega
      calc b * c * fp = c * (b * fp) := by ring
        _ = c * (a + m * w) := by rw [this]
    have h3 : m * (s1 + c * w) = s1 * m + c * (a + m * w) - a * c := by ring
    rw [h3, ← h2, ← h1, hr1c]; ring
  have hs1' : s1 = -(c * w) := by
    rcases Int.mul_eq_zero.mp hs1 with h | h <;> omega
  have hcu : c = 1 ∨ c = -1 := by
    have h3 : c * (s0 * b + w * s.t0) = sg := by
      rw [← hdet, hs1', hc]; ring
    exact unit_of_mul _ _ (by rcases hsg with h | h <;> rw [h] at h3 <;> [left; right] <;> exact h3)
  -- the first candidate is a/b and is reduced
  have hnum : (if s.t1 < 0 then -s.r1 else s.r1) = a := by
    rcases hcu with rfl | rfl
    · rw [if_neg (by omega)]; omega
    · rw [if_pos (by omega)]; omega
  have hden : (if s.t1 < 0 then -s.t1 else s.t1) = b := by
    rcases hcu with rfl | rfl
    · rw [if_neg (by omega)]; omega
    · rw [if_pos (by omega)]; omega
  unfold finish
  simp only [hnum, hden, if_true, hab, ne_eq, not_true_eq_false, if_false]

end Givaro.Lemmas.RatRecon
