/-
C05 — the checker's code arithmetic (`Spec.GFq`: p-adic digit lists, `csucc`, `cmul` = schoolbook product reduced
modulo the monic polynomial `X^k + flow`) is sound in every commutative ring `K` with `p = 0` that contains a root `x`
of that polynomial: decoding a code through its digits evaluated at `x` is a `Decoding`.  With
`tablesValid_gives_ZechHyp` this connects the dumped tables of a constructed GF(p^k) object to arithmetic in
`F_p[X]/(f)` (take `x` = the class of `X`); no Mathlib `Polynomial` is needed for the statement.
-/
import GivaroModel.Lemmas.GFqTables
import Mathlib.Tactic.Ring
import Mathlib.Tactic.Linarith
import Mathlib.Tactic.LinearCombination
namespace Givaro.Lemmas.GFqZech
open Givaro.Model.Zech Givaro.Spec.GFq

section
variable {K : Type*} [CommRing K] (x : K)

/-- value at `x` of a coefficient list (low degree first) -/
def ev : List Nat → K
  | [] => 0
  | d :: ds => (d : K) + x * ev ds

variable {p : Nat}

theorem len_polyAdd : ∀ (a b : List Nat), a.length = b.length → (polyAdd p a b).length = a.length
  | [], [], _ => by simp [polyAdd]
  | a :: as, b :: bs, h => by
    simp only [polyAdd, List.length_cons]
    rw [len_polyAdd as bs (by simpa using h)]
  | [], _ :: _, h => by simp at h
  | _ :: _, [], h => by simp at h

theorem lt_polyAdd (hp : 0 < p) : ∀ (a b : List Nat), a.length = b.length → ∀ d ∈ polyAdd p a b, d < p
  | [], [], _ => by simp [polyAdd]
  | a :: as, b :: bs, h => by
    intro d hd
    simp only [polyAdd, List.mem_cons] at hd
    rcases hd with rfl | hd
    · exact Nat.mod_lt _ hp
    · exact lt_polyAdd hp as bs (by simpa using h) d hd
  | [], _ :: _, h => by simp at h
  | _ :: _, [], h => by simp at h

theorem lt_polyScale (hp : 0 < p) (c : Nat) (a : List Nat) : ∀ d ∈ polyScale p c a, d < p := by
  intro d hd
  simp only [polyScale, List.mem_map] at hd
  obtain ⟨y, _, rfl⟩ := hd
  exact Nat.mod_lt _ hp

theorem ev_append_single (l : List Nat) (d : Nat) : ev x (l ++ [d]) = ev x l + (d : K) * x ^ l.length := by
  induction l with
  | nil => simp [ev]
  | cons a as ih => simp only [List.cons_append, ev, ih, List.length_cons, pow_succ]; ring

theorem ev_replicate (n : Nat) : ev x (List.replicate n 0) = 0 := by
  induction n with
  | zero => simp [ev]
  | succ n ih => simp only [List.replicate_succ, ev, ih]; simp

variable (hp0 : ((p : Nat) : K) = 0)
include hp0

theorem cast_mod (n : Nat) : ((n % p : Nat) : K) = (n : K) := by
  conv_rhs => rw [← Nat.div_add_mod n p]
  push_cast
  rw [hp0]; ring

theorem ev_polyAdd : ∀ (a b : List Nat), a.length = b.length → ev x (polyAdd p a b) = ev x a + ev x b
  | [], [], _ => by simp [polyAdd, ev]
  | a :: as, b :: bs, h => by
    simp only [polyAdd, ev]
    rw [cast_mod hp0, ev_polyAdd as bs (by simpa using h)]
    push_cast; ring
  | [], _ :: _, h => by simp at h
  | _ :: _, [], h => by simp at h

theorem ev_polyScale (c : Nat) : ∀ (a : List Nat), ev x (polyScale p c a) = (c : K) * ev x a
  | [] => by simp [polyScale, ev]
  | a :: as => by
    have ih := ev_polyScale c as
    simp only [polyScale, List.map_cons, ev] at ih ⊢
    rw [cast_mod hp0, ih]; push_cast; ring

theorem ev_polyNeg : ∀ (a : List Nat), (∀ d ∈ a, d < p) → ev x (polyNeg p a) = - ev x a
  | [], _ => by simp [polyNeg, ev]
  | a :: as, h => by
    have ih := ev_polyNeg as (fun d hd => h d (List.mem_cons_of_mem _ hd))
    have ha : a < p := h a (List.mem_cons_self ..)
    simp only [polyNeg, List.map_cons, ev] at ih ⊢
    rw [cast_mod hp0, ih, Nat.mod_eq_of_lt ha]
    have : ((p - a : Nat) : K) = (p : K) - a := by rw [Nat.cast_sub (le_of_lt ha)]
    rw [this, hp0]; ring

theorem mulX_spec (hp : 0 < p) (flow a : List Nat) (hk : 1 ≤ flow.length) (ha : a.length = flow.length)
    (hroot : ev x flow + x ^ flow.length = 0) :
    ev x (polyMulX p flow a) = x * ev x a ∧ (polyMulX p flow a).length = flow.length := by
  have hne : a ≠ [] := by intro h; rw [h] at ha; simp at ha; omega
  obtain ⟨lead, hl⟩ : ∃ lead, a.getLast? = some lead := by
    cases h : a.getLast? with
    | none => exact absurd (List.getLast?_eq_none_iff.mp h) hne
    | some v => exact ⟨v, rfl⟩
  have hsplit : a = a.dropLast ++ [lead] :=
    (List.dropLast_append_getLast? lead (Option.mem_def.mpr hl)).symm
  have hdl : a.dropLast.length = flow.length - 1 := by rw [List.length_dropLast, ha]
  unfold polyMulX
  simp only [hl]
  have hlen1 : (0 :: a.dropLast).length = (polyScale p lead flow).length := by
    simp only [List.length_cons, hdl, polyScale, List.length_map]; omega
  unfold polySub
  have hlen2 : (0 :: a.dropLast).length = (polyNeg p (polyScale p lead flow)).length := by
    rw [hlen1]; simp [polyNeg]
  constructor
  · rw [ev_polyAdd x hp0 _ _ hlen2, ev_polyNeg x hp0 _ (lt_polyScale hp lead flow), ev_polyScale x hp0]
    conv_rhs => rw [hsplit, ev_append_single, hdl]
    simp only [ev, Nat.cast_zero, zero_add]
    have hx : x * x ^ (flow.length - 1) = x ^ flow.length := by
      rw [← pow_succ']; congr 1; omega
    have : ev x flow = - x ^ flow.length := by linear_combination hroot
    rw [this, mul_add, mul_left_comm, hx]; ring
  · rw [len_polyAdd _ _ hlen2]; simp only [List.length_cons, hdl]; omega

theorem mul_spec (hp : 0 < p) (flow a : List Nat) (hk : 1 ≤ flow.length) (ha : a.length = flow.length)
    (hroot : ev x flow + x ^ flow.length = 0) :
    ∀ b : List Nat, ev x (polyMul p flow a b) = ev x a * ev x b ∧ (polyMul p flow a b).length = flow.length
  | [] => by simp [polyMul, ev, ha, ev_replicate]
  | b :: bs => by
    obtain ⟨ih, ihl⟩ := mul_spec hp flow a hk ha hroot bs
    obtain ⟨m1, m2⟩ := mulX_spec x hp0 hp flow (polyMul p flow a bs) hk ihl hroot
    have hlen : (polyMulX p flow (polyMul p flow a bs)).length = (polyScale p b a).length := by
      rw [m2]; simp [polyScale, ha]
    simp only [polyMul]
    constructor
    · rw [ev_polyAdd x hp0 _ _ hlen, m1, ih, ev_polyScale x hp0, ev]; ring
    · rw [len_polyAdd _ _ hlen, m2]

end
end Givaro.Lemmas.GFqZech

namespace Givaro.Lemmas.GFqZech
open Givaro.Model.Zech Givaro.Spec.GFq

theorem len_digits (p : Nat) : ∀ k n, (digits p k n).length = k
  | 0, _ => rfl
  | k + 1, n => by simp [digits, len_digits p k]

theorem lt_digits {p : Nat} (hp : 0 < p) : ∀ k n, ∀ d ∈ digits p k n, d < p
  | 0, _ => by simp [digits]
  | k + 1, n => by
    intro d hd
    simp only [digits, List.mem_cons] at hd
    rcases hd with rfl | hd
    · exact Nat.mod_lt _ hp
    · exact lt_digits hp k _ d hd

theorem digits_undigits {p : Nat} (hp : 0 < p) : ∀ (ds : List Nat), (∀ d ∈ ds, d < p) → digits p ds.length (undigits p ds) = ds
  | [], _ => rfl
  | d :: ds, h => by
    have hd : d < p := h d (List.mem_cons_self ..)
    have ih := digits_undigits hp ds (fun e he => h e (List.mem_cons_of_mem _ he))
    simp only [List.length_cons, digits, undigits]
    rw [Nat.add_mul_mod_self_left, Nat.mod_eq_of_lt hd, Nat.add_mul_div_left _ _ hp, Nat.div_eq_of_lt hd, Nat.zero_add, ih]

section
variable {K : Type*} [CommRing K] (x : K) {p : Nat}

theorem ev_digits_zero : ∀ k, ev x (digits p k 0) = 0
  | 0 => rfl
  | k + 1 => by simp [digits, ev, ev_digits_zero k]

theorem ev_digits_one (hp : 2 ≤ p) (k : Nat) : ev x (digits p (k + 1) 1) = 1 := by
  simp only [digits, ev]
  rw [Nat.mod_eq_of_lt (by omega), Nat.div_eq_of_lt (by omega), ev_digits_zero]; simp

variable (hp0 : ((p : Nat) : K) = 0)
include hp0

theorem ev_csucc (F : Field) (hF : F.p = p) (hp : 2 ≤ p) (k : Nat) (hk : F.k = k + 1) (a : Nat) :
    ev x (digits p (k + 1) (F.csucc a)) = ev x (digits p (k + 1) a) + 1 := by
  unfold Field.csucc
  rw [hF]
  simp only [digits, ev]
  split
  · rename_i h
    have hle : p - 1 ≤ a := by have := Nat.mod_le a p; omega
    have h1 : (a - (p - 1)) % p = 0 := by
      have : a = p * (a / p) + (p - 1) := by have := Nat.div_add_mod a p; omega
      rw [this, Nat.add_sub_cancel]; exact Nat.mul_mod_right _ _
    have h2 : (a - (p - 1)) / p = a / p := by
      have : a = p * (a / p) + (p - 1) := by have := Nat.div_add_mod a p; omega
      conv_lhs => rw [this, Nat.add_sub_cancel]
      exact Nat.mul_div_cancel_left _ (by omega)
    rw [h1, h2, h]
    have : ((p - 1 : Nat) : K) = (p : K) - 1 := by rw [Nat.cast_sub (by omega)]; simp
    rw [this, hp0]; simp
  · rename_i h
    have hlt : a % p < p := Nat.mod_lt _ (by omega)
    have h1 : (a + 1) % p = a % p + 1 := by
      rw [Nat.add_mod, Nat.mod_eq_of_lt (show 1 < p by omega), Nat.mod_eq_of_lt (by omega)]
    have h2 : (a + 1) / p = a / p := by
      have := Nat.div_add_mod a p
      have e : a + 1 = p * (a / p) + (a % p + 1) := by omega
      rw [e, Nat.mul_add_div (by omega), Nat.div_eq_of_lt (show a % p + 1 < p by omega)]; simp
    rw [h1, h2]; push_cast; ring

/-- The code arithmetic of the checker is sound in every commutative ring `K` of characteristic dividing `p`
    that contains a root `x` of the field's polynomial `f = X^k + flow`: decoding a code through its p-adic digits
    evaluated at `x` is compatible with `csucc` and `cmul`.  (In particular for `K = F_p[X]/(f)`, `x` = class of `X`.) -/
theorem decoding_of_root (F : Field) (hF : F.p = p) (hp : 2 ≤ p) (hk1 : 1 ≤ F.k)
    (hroot : 2 ≤ F.k → ev x F.flow + x ^ F.k = 0) :
    Decoding K F (fun a => ev x (digits p F.k a)) := by
  obtain ⟨k, hk⟩ : ∃ k, F.k = k + 1 := ⟨F.k - 1, by omega⟩
  refine ⟨?_, ?_, ?_, ?_⟩
  · exact ev_digits_zero x _
  · rw [hk]; exact ev_digits_one x hp k
  · intro a _; show ev x (digits p F.k (F.csucc a)) = ev x (digits p F.k a) + 1
    rw [hk]; exact ev_csucc x hp0 F hF hp k hk a
  · intro a b _ _
    show ev x (digits p F.k (F.cmul a b)) = ev x (digits p F.k a) * ev x (digits p F.k b)
    unfold Field.cmul
    by_cases h1 : F.k ≤ 1
    · have hk0 : F.k = 1 := by omega
      simp only [hk0, Nat.le_refl, ↓reduceIte, digits, ev, hF, mul_zero, add_zero]
      rw [Nat.mod_mod, cast_mod hp0, cast_mod hp0, cast_mod hp0]; push_cast; ring
    · simp only [h1, ↓reduceIte, hF]
      have hfl : F.flow.length = F.k := by unfold Field.flow; exact len_digits _ _ _
      have hr := hroot (by omega)
      rw [← hfl] at hr
      obtain ⟨m1, m2⟩ := mul_spec x hp0 (by omega) F.flow (digits p F.k a) (by omega) (by rw [len_digits, hfl]) hr (digits p F.k b)
      have hlt : ∀ d ∈ polyMul p F.flow (digits p F.k a) (digits p F.k b), d < p := by
        cases hb : digits p F.k b with
        | nil => have := len_digits p F.k b; rw [hb] at this; simp at this; omega
        | cons b0 bs =>
          intro d hd
          simp only [polyMul] at hd
          obtain ⟨_, l2⟩ := mul_spec x hp0 (by omega) F.flow (digits p F.k a) (by omega) (by rw [len_digits, hfl]) hr bs
          obtain ⟨_, l3⟩ := mulX_spec x hp0 (by omega) F.flow _ (by omega) l2 hr
          exact lt_polyAdd (by omega) _ _ (by rw [l3]; simp [polyScale, len_digits, hfl]) d hd
      have := digits_undigits (by omega : 0 < p) _ hlt
      rw [m2, hfl] at this
      rw [this, m1]
end
end Givaro.Lemmas.GFqZech
