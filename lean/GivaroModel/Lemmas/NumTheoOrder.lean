/- C13 — the strip-the-prime-factors-of-φ loop of `order` / `is_prim_root` (helper lemmas). -/
import GivaroModel.Lemmas.NumTheoLemmas
import GivaroModel.Spec.NumTheoSpec
import Mathlib.GroupTheory.OrderOfElement
import Mathlib.FieldTheory.Finite.Basic
namespace Givaro.Lemmas.NumTheo
open Givaro.Model.NumTheo

section
variable {M : Type} [Monoid M] (x : M)

/-- if `x^(g/q) ≠ 1` and `g' ∣ g`, `q ∣ g'` then `x^(g'/q) ≠ 1` -/
theorem good_of_dvd {g g' q : Nat} (_hg' : 0 < g') (hq : 0 < q) (hd : g' ∣ g) (hqg : q ∣ g')
    (h : x ^ (g / q) ≠ 1) : x ^ (g' / q) ≠ 1 := by
  intro hc
  apply h
  obtain ⟨m, hm⟩ := hd
  obtain ⟨k, hk⟩ := hqg
  have : g / q = (g' / q) * m := by
    rw [hm, hk, Nat.mul_assoc, Nat.mul_div_cancel_left _ hq, Nat.mul_div_cancel_left _ hq]
  rw [this, pow_mul, hc, one_pow]

/-- `Good q g`: the factor `q` cannot be stripped from `g` any more -/
def Good (q g : Nat) : Prop := q ∣ g → x ^ (g / q) ≠ 1

theorem Good.mono {q g g' : Nat} (hg' : 0 < g') (hq : 0 < q) (hd : g' ∣ g) (h : Good x q g) : Good x q g' :=
  fun hqg => good_of_dvd x hg' hq hd hqg (h (dvd_trans hqg hd))

end

section
variable {n : Nat} (x : ZMod n) (A : Int)
variable (hP : ∀ e : Nat, powmod A e n = 1 ↔ x ^ e = 1)
include hP

theorem stripOne_spec (F : Nat) (hF : 2 ≤ F) : ∀ (fuel G : Nat), 0 < G → G < 2 ^ fuel → x ^ G = 1 →
    ∃ G' : Nat, stripOne fuel A n G F = G' ∧ 0 < G' ∧ G' ∣ G ∧ x ^ G' = 1 ∧ Good x F G' := by
  intro fuel
  induction fuel with
  | zero => intro G h0 hlt _; simp at hlt; omega
  | succ k ih =>
    intro G h0 hlt hx
    rw [stripOne]
    have htd : Int.tdiv (G : Int) (F : Int) = ((G / F : Nat) : Int) := by
      rw [Int.tdiv_eq_ediv_of_nonneg (by positivity)]; norm_cast
    have hmod : ((G : Int) % (F : Int) = 0) ↔ F ∣ G := by
      constructor
      · intro h; exact Int.natCast_dvd_natCast.mp (Int.dvd_of_emod_eq_zero h)
      · intro h; exact Int.emod_eq_zero_of_dvd (Int.natCast_dvd_natCast.mpr h)
    rw [htd, Int.toNat_natCast]
    simp only [hmod, hP]
    by_cases hc : F ∣ G ∧ x ^ (G / F) = 1
    · rw [if_pos hc]
      obtain ⟨hd, hx'⟩ := hc
      have hpos : 0 < G / F := Nat.div_pos (Nat.le_of_dvd h0 hd) (by omega)
      have hlt' : G / F < 2 ^ k := by
        apply Nat.div_lt_of_lt_mul
        calc G < 2 ^ (k + 1) := hlt
          _ = 2 * 2 ^ k := by rw [pow_succ]; ring
          _ ≤ F * 2 ^ k := Nat.mul_le_mul_right _ hF
      obtain ⟨G', h1, h2, h3, h4, h5⟩ := ih (G / F) hpos hlt' hx'
      exact ⟨G', h1, h2, dvd_trans h3 (Nat.div_dvd_of_dvd hd), h4, h5⟩
    · rw [if_neg hc]
      refine ⟨G, rfl, h0, dvd_refl _, hx, ?_⟩
      intro hd hx'
      exact hc ⟨hd, hx'⟩

theorem stripAll_spec : ∀ (l : List Nat) (G : Nat), (∀ f ∈ l, 2 ≤ f) → 0 < G → x ^ G = 1 →
    ∃ G' : Nat, stripAll A n G (l.map (Nat.cast : Nat → Int)) = G' ∧ 0 < G' ∧ G' ∣ G ∧ x ^ G' = 1 ∧
      ∀ f ∈ l, Good x f G' := by
  intro l
  induction l with
  | nil => intro G _ h0 hx; exact ⟨G, rfl, h0, dvd_refl _, hx, by simp⟩
  | cons f t ih =>
    intro G h2 h0 hx
    simp only [List.map_cons, stripAll]
    have hf : 2 ≤ f := h2 f (by simp)
    have hfuel : G < 2 ^ ((G : Int).natAbs.log2 + 2) := by
      rw [Int.natAbs_natCast]
      calc G < 2 ^ (G.log2 + 1) := Nat.lt_log2_self
        _ ≤ 2 ^ (G.log2 + 2) := Nat.pow_le_pow_right (by norm_num) (by omega)
    obtain ⟨G1, e1, p1, d1, x1, g1⟩ := stripOne_spec x A hP f hf _ G h0 hfuel hx
    rw [e1]
    obtain ⟨G2, e2, p2, d2, x2, g2⟩ := ih G1 (fun q hq => h2 q (by simp [hq])) p1 x1
    refine ⟨G2, e2, p2, dvd_trans d2 d1, x2, ?_⟩
    intro q hq
    rcases List.mem_cons.mp hq with h | h
    · subst h; exact Good.mono x p2 (by omega) d2 g1
    · exact g2 q h

theorem firstHit_none (phin : Nat) : ∀ (l : List Nat), (∀ f ∈ l, 0 < f) →
    firstHit A n phin (l.map (Nat.cast : Nat → Int)) = none → ∀ f ∈ l, x ^ (phin / f) ≠ 1 := by
  intro l
  induction l with
  | nil => intro _ _ f hf; simp at hf
  | cons f t ih =>
    intro hpos h q hq
    simp only [List.map_cons, firstHit] at h
    have htd : Int.tdiv (phin : Int) (f : Int) = ((phin / f : Nat) : Int) := by
      rw [Int.tdiv_eq_ediv_of_nonneg (by positivity)]; norm_cast
    rw [htd, Int.toNat_natCast] at h
    simp only [hP] at h
    split at h
    · simp at h
    · next hne =>
      rcases List.mem_cons.mp hq with hh | hh
      · subst hh; exact hne
      · exact ih (fun g hg => hpos g (by simp [hg])) h q hh

theorem firstHit_some (phin : Nat) : ∀ (l : List Nat) (g : Int) (rest : List Int),
    firstHit A n phin (l.map (Nat.cast : Nat → Int)) = some (g, rest) →
    ∃ (l1 : List Nat) (fh : Nat) (l2 : List Nat), l = l1 ++ fh :: l2 ∧ g = ((phin / fh : Nat) : Int) ∧
      rest = (fh :: l2).map (Nat.cast : Nat → Int) ∧ (∀ f ∈ l1, x ^ (phin / f) ≠ 1) ∧ x ^ (phin / fh) = 1 := by
  intro l
  induction l with
  | nil => intro g rest h; simp [firstHit] at h
  | cons f t ih =>
    intro g rest h
    simp only [List.map_cons, firstHit] at h
    have htd : Int.tdiv (phin : Int) (f : Int) = ((phin / f : Nat) : Int) := by
      rw [Int.tdiv_eq_ediv_of_nonneg (by positivity)]; norm_cast
    rw [htd, Int.toNat_natCast] at h
    simp only [hP] at h
    split at h
    · next hx1 =>
      simp only [Option.some.injEq, Prod.mk.injEq] at h
      exact ⟨[], f, t, rfl, h.1.symm, by rw [← h.2]; rfl, by simp, hx1⟩
    · next hne =>
      obtain ⟨l1, fh, l2, e1, e2, e3, e4, e5⟩ := ih g rest h
      refine ⟨f :: l1, fh, l2, by rw [e1]; rfl, e2, e3, ?_, e5⟩
      intro q hq
      rcases List.mem_cons.mp hq with hh | hh
      · subst hh; exact hne
      · exact e4 q hh

end
theorem powmod_eq_one_iff (A : Int) (n : Nat) (hn : 2 ≤ n) (e : Nat) :
    powmod A e n = 1 ↔ (A : ZMod n) ^ e = 1 := by
  constructor
  · intro h
    have := congrArg (fun (t : Int) => (t : ZMod n)) h
    simpa [cast_powmod] using this
  · intro h
    by_contra hc
    exact powmod_ne_one_cast A e n hn hc h

/-- well-formedness of the factor list the code obtains for `φ(n)` (contract of `IntFactorDom::set`, C12) -/
structure PhiFactors (n : Nat) (Lf : List Nat) : Prop where
  phi_eq : phi (n : Int) = (n.totient : Int)
  list_eq : primeFactors (phi (n : Int)) = Lf.map (Nat.cast : Nat → Int)
  prime : ∀ f ∈ Lf, f.Prime
  dvd : ∀ f ∈ Lf, f ∣ n.totient
  all : ∀ q : Nat, q.Prime → q ∣ n.totient → q ∈ Lf

theorem cast_emod_toNat (a : Int) (n : Nat) (hn : 2 ≤ n) : (((a % (n : Int)).toNat : Nat) : ZMod n) = (a : ZMod n) := by
  have h0 : 0 ≤ a % (n : Int) := Int.emod_nonneg _ (by omega)
  have : (((a % (n : Int)).toNat : Nat) : Int) = a % (n : Int) := Int.toNat_of_nonneg h0
  have h2 : ((((a % (n : Int)).toNat : Nat) : Int) : ZMod n) = ((a % (n : Int) : Int) : ZMod n) := by rw [this]
  rw [ZMod.intCast_mod] at h2
  exact_mod_cast h2

theorem gcd_toNat (a : Int) (n : Nat) (hn : 2 ≤ n) : Int.gcd (a % (n : Int)) n = Nat.gcd (a % (n : Int)).toNat n := by
  have h0 : 0 ≤ a % (n : Int) := Int.emod_nonneg _ (by omega)
  rw [Int.gcd, Int.natAbs_natCast]
  congr 1
  omega

theorem pow_totient_of_coprime (a : Int) (n : Nat) (hn : 2 ≤ n) (hc : Int.gcd (a % (n : Int)) n = 1) :
    (a : ZMod n) ^ n.totient = 1 := by
  rw [gcd_toNat a n hn] at hc
  have hu := ZMod.pow_totient (ZMod.unitOfCoprime _ hc)
  have := congrArg Units.val hu
  rw [Units.val_pow_eq_pow_val, ZMod.coe_unitOfCoprime, cast_emod_toNat a n hn] at this
  simpa using this

theorem orderOf_eq_zero_of_not_coprime (a : Int) (n : Nat) (hn : 2 ≤ n) (hc : Int.gcd (a % (n : Int)) n ≠ 1) :
    orderOf (a : ZMod n) = 0 := by
  rw [orderOf_eq_zero_iff']
  intro k hk hx
  apply hc
  rw [gcd_toNat a n hn]
  have hu : IsUnit (a : ZMod n) := IsUnit.of_pow_eq_one hx (by omega)
  rw [← cast_emod_toNat a n hn] at hu
  exact (ZMod.isUnit_iff_coprime _ _).mp hu


end Givaro.Lemmas.NumTheo
