/-
C12 — the divisor list built by `IntFactorDom::divisors(L, Lf, Le)` (model: `Model.Primes.divisors`) has no duplicates and is,
as a set, `Nat.divisors` of the product, for every list of distinct primes with arbitrary exponents (induction over the
prime-power list; `p ∤ d`, `p ∤ d'`, `d p^i = d' p^j` force `d = d'`, `i = j`).
-/
import GivaroModel.Lemmas.PrimesLemmas
import Mathlib.NumberTheory.Divisors
namespace Givaro.Lemmas.Primes
open Givaro Givaro.Model.Primes Givaro.Spec.Primes

theorem mul_pow_cancel {p d d' i j : Nat} (hp : Nat.Prime p) (hd : ¬ p ∣ d) (hd' : ¬ p ∣ d')
    (h : d * p ^ i = d' * p ^ j) : d = d' ∧ i = j := by
  have hp0 : 0 < p := hp.pos
  have key : ∀ {a b x y : Nat}, ¬ p ∣ a → x ≤ y → a * p ^ x = b * p ^ y → a = b ∧ x = y := by
    intro a b x y ha hxy hab
    obtain ⟨c, rfl⟩ := Nat.exists_eq_add_of_le hxy
    rw [pow_add, ← Nat.mul_assoc, Nat.mul_comm b, Nat.mul_assoc] at hab
    have hab' : a = p ^ c * b := by
      have := Nat.eq_of_mul_eq_mul_right (Nat.pow_pos hp0 : 0 < p ^ x) (by rw [hab]; ring : a * p ^ x = (p ^ c * b) * p ^ x)
      exact this
    rcases Nat.eq_zero_or_pos c with hc | hc
    · subst hc; simp at hab'; exact ⟨hab', rfl⟩
    · exact absurd (hab' ▸ Dvd.dvd.mul_right (dvd_pow_self p (by omega)) b) ha
  rcases Nat.le_total i j with hij | hij
  · exact key hd hij h
  · obtain ⟨a, b⟩ := key hd' hij h.symm
    exact ⟨a.symm, b.symm⟩

theorem mulChain_nodup (p : Nat) (hp : 2 ≤ p) : ∀ (e d : Nat), 0 < d → (mulChain p e d).Nodup := by
  intro e
  induction e with
  | zero => intro d _; simp [mulChain]
  | succ k ih =>
    intro d hd
    simp only [mulChain, List.nodup_cons]
    have hdp : 0 < d * p := Nat.mul_pos hd (by omega)
    refine ⟨?_, ih (d * p) hdp⟩
    rw [mem_mulChain]
    rintro ⟨i, h1, _, h3⟩
    have : 2 ^ 1 ≤ p ^ i := by
      calc 2 ^ 1 ≤ p ^ 1 := Nat.pow_le_pow_left hp 1
        _ ≤ p ^ i := Nat.pow_le_pow_right (by omega) h1
    have : d * p * 2 ≤ d * p * p ^ i := Nat.mul_le_mul_left _ (by simpa using this)
    omega

theorem divisorsStep_nodup (res : List Nat) (p e : Nat) (hp : Nat.Prime p) (hres : res.Nodup)
    (hnd : ∀ d ∈ res, ¬ p ∣ d) : (divisorsStep res (p, e)).Nodup := by
  unfold divisorsStep
  have hpos : ∀ d ∈ res, 0 < d := fun d hd => Nat.pos_of_ne_zero (fun h => hnd d hd (h ▸ dvd_zero p))
  apply List.Nodup.append hres
  · rw [List.nodup_flatMap]
    refine ⟨fun d hd => mulChain_nodup p hp.two_le e d (hpos d hd), ?_⟩
    apply List.Pairwise.imp_of_mem _ hres
    intro a b ha hb hab
    show List.Disjoint (mulChain p e a) (mulChain p e b)
    intro x hxa hxb
    rw [mem_mulChain] at hxa hxb
    obtain ⟨i, _, _, hi⟩ := hxa
    obtain ⟨j, _, _, hj⟩ := hxb
    exact hab (mul_pow_cancel hp (hnd a ha) (hnd b hb) (hi ▸ hj)).1
  · intro x hx hx2
    rw [List.mem_flatMap] at hx2
    obtain ⟨d, hd, hxd⟩ := hx2
    rw [mem_mulChain] at hxd
    obtain ⟨i, hi1, _, hxi⟩ := hxd
    exact hnd x hx (hxi ▸ Dvd.dvd.mul_left (dvd_pow_self p (by omega)) d)

theorem foldl_divisors_nodup : ∀ (fs : List (Nat × Nat)) (res : List Nat) (M : Nat),
    (∀ x, x ∈ res ↔ x ∣ M) → res.Nodup → M ≠ 0 →
    (∀ pe ∈ fs, Nat.Prime pe.1 ∧ ¬ pe.1 ∣ M) → (fs.map Prod.fst).Nodup →
    (fs.foldl divisorsStep res).Nodup := by
  intro fs
  induction fs with
  | nil => intro res M _ h _ _ _; simpa using h
  | cons a l ih =>
    intro res M hmem hres hM hfs hnd
    obtain ⟨p, e⟩ := a
    obtain ⟨hp, hpM⟩ := hfs (p, e) (by simp)
    rw [List.map_cons, List.nodup_cons] at hnd
    rw [List.foldl_cons]
    apply ih (divisorsStep res (p, e)) (M * p ^ e)
    · intro y
      rw [mem_divisorsStep, dvd_mul_prime_pow p hp]
      constructor
      · rintro ⟨d, hd, r⟩; exact ⟨d, (hmem d).1 hd, r⟩
      · rintro ⟨d, hd, r⟩; exact ⟨d, (hmem d).2 hd, r⟩
    · exact divisorsStep_nodup res p e hp hres (fun d hd hpd => hpM (Nat.dvd_trans hpd ((hmem d).1 hd)))
    · exact Nat.mul_ne_zero hM (pow_ne_zero _ hp.ne_zero)
    · intro pe hpe
      obtain ⟨hq, hqM⟩ := hfs pe (List.mem_cons_of_mem _ hpe)
      refine ⟨hq, fun hdvd => ?_⟩
      rcases (Nat.Prime.dvd_mul hq).1 hdvd with h | h
      · exact hqM h
      · have : pe.1 = p := (Nat.prime_dvd_prime_iff_eq hq hp).1 (hq.dvd_of_dvd_pow h)
        exact hnd.1 (this ▸ List.mem_map.2 ⟨pe, hpe, rfl⟩)
    · exact hnd.2

theorem prodPow_ne_zero (fs : List (Nat × Nat)) (hp : ∀ pe ∈ fs, Nat.Prime pe.1) : prodPow fs ≠ 0 := by
  induction fs with
  | nil => simp [prodPow]
  | cons a l ih =>
    obtain ⟨p, e⟩ := a
    simp only [prodPow]
    exact Nat.mul_ne_zero (pow_ne_zero _ (hp (p, e) (by simp)).ne_zero) (ih (fun pe h => hp pe (List.mem_cons_of_mem _ h)))

/-- the divisor list has no duplicates -/
theorem divisors_nodup_of_primes (fs : List (Nat × Nat)) (hp : ∀ pe ∈ fs, Nat.Prime pe.1) (hnd : (fs.map Prod.fst).Nodup) :
    (divisors fs).Nodup := by
  unfold divisors
  apply foldl_divisors_nodup fs [1] 1 (by intro y; simp) (by simp) (by simp) _ hnd
  intro pe hpe
  exact ⟨hp pe hpe, fun h => by have := (hp pe hpe).two_le; have := Nat.le_of_dvd (by omega) h; omega⟩

theorem divisors_toFinset_of_primes (fs : List (Nat × Nat)) (hp : ∀ pe ∈ fs, Nat.Prime pe.1) :
    (divisors fs).toFinset = Nat.divisors (prodPow fs) := by
  ext x
  have hx : x ∈ divisors fs ↔ x ∣ prodPow fs := by
    unfold divisors
    rw [mem_foldl_divisors fs [1] 1 (by intro y; simp) hp x, Nat.one_mul]
  rw [List.mem_toFinset, hx, Nat.mem_divisors]
  exact ⟨fun h => ⟨h, prodPow_ne_zero fs hp⟩, fun h => h.1⟩

end Givaro.Lemmas.Primes
