/-
Helper lemmas for C03: inside the advertised range of moduli no wrap-around of the integral
`Modular<Storage,Compute>` model is observable, and the shared `extended_euclid` loop maintains the
classical invariants (cofactor congruences, the determinant identity `u0*r1 + u1*d = b` that bounds
the unsigned cofactors by `b`, and the divisor set of `(d, r1)`).
-/
import GivaroModel.Model.ModRing
import GivaroModel.Spec.ModRingSpec
import Mathlib.Tactic.Ring
import Mathlib.Tactic.Linarith
import Mathlib.Tactic.NormNum
import Mathlib.Data.Int.GCD
namespace Givaro.Model.ModRing
open Givaro.Spec.ModRing

theorem emod_unique {z y p : Int} (h0 : 0 ≤ y) (h1 : y < p) (q : Int) (h : z = y + p * q) : z % p = y := by
  subst h; rw [Int.add_mul_emod_self_left]; exact Int.emod_eq_of_lt h0 h1

/-- `(-x) mod p` from `x mod p` (what `negin` computes) -/
theorem neg_emod_eq (x p : Int) (hp : 0 < p) :
    (-x) % p = if x % p = 0 then 0 else p - x % p := by
  have h := Int.emod_add_mul_ediv x p
  have h0 := Int.emod_nonneg x (by omega : p ≠ 0)
  have h1 := Int.emod_lt_of_pos x hp
  split
  · next hz => exact emod_unique (by omega) hp (-(x / p)) (by rw [hz] at h; linarith)
  · next hz => exact emod_unique (by omega) (by omega) (-(x / p) - 1) (by linarith)

/-- what the proofs need from a configuration and a modulus: no conversion changes a value below -/
structure IOk (k : ICfg) (p : Int) : Prop where
  toE_id : ∀ x, 0 ≤ x → x ≤ p → k.toE x = x
  toC_id : ∀ x, 0 ≤ x → x < p * p → k.toC x = x
  arC_id : ∀ x, 0 ≤ x → x < p * p → k.arC x = x
  arE_id : ∀ x, 0 ≤ x → x ≤ p → k.arE x = x
  arU_id : ∀ x, 0 ≤ x → x ≤ p → k.arU x = x

/-- every instantiated configuration, every modulus up to its `maxCardinality()` -/
theorem iok_of_valid (k : ICfg) (hv : k.valid) (p : Int) (hp : 2 ≤ p) (hm : p ≤ k.maxCard) : IOk k p := by
  obtain ⟨s, sg, c⟩ := k
  simp only [ICfg.valid] at hv
  have hpp : ∀ B : Int, 0 ≤ B → p ≤ B → ∀ x, 0 ≤ x → x < p * p → x < B * B := fun B hB0 hB x hx0 hx => by
    nlinarith
  rcases hv with ⟨h1 | h1 | h1 | h1, h2 | h2⟩ <;> subst h1 <;> subst h2 <;> cases sg <;>
    simp only [ICfg.maxCard] at hm <;> norm_num at hm <;>
    (have h2 := hpp _ (by norm_num) hm
     refine ⟨?_, ?_, ?_, ?_, ?_⟩ <;> intro x hx0 hx1 <;>
     (try have h3 := h2 x hx0 hx1) <;>
     simp only [ICfg.toE, ICfg.toC, ICfg.arC, ICfg.arE, ICfg.arU, wrapUw, wrapSw] <;> norm_num <;> omega)

section nonlinear
variable {k : ICfg} {p a b c : Int}

theorem mul_lt_sq (hp : 2 ≤ p) (ha : 0 ≤ a ∧ a < p) (hb : 0 ≤ b ∧ b < p) :
    0 ≤ a * b ∧ a * b ≤ (p - 1) * (p - 1) := by
  constructor
  · exact Int.mul_nonneg ha.1 hb.1
  · nlinarith

theorem mul_model (ok : IOk k p) (hp : 2 ≤ p) (ha : 0 ≤ a ∧ a < p) (hb : 0 ≤ b ∧ b < p) :
    k.mul p a b = (a * b) % p := by
  have hab := mul_lt_sq hp ha hb
  have hpp : p ≤ p * p := by nlinarith
  have hsq : (p - 1) * (p - 1) < p * p := by nlinarith
  unfold ICfg.mul
  rw [ok.toC_id a ha.1 (by omega), ok.toC_id b hb.1 (by omega), ok.toC_id p (by omega) (by nlinarith),
    ok.arC_id _ hab.1 (by omega), Int.tmod_eq_emod_of_nonneg hab.1]
  exact ok.toE_id _ (Int.emod_nonneg _ (by omega)) (Int.le_of_lt (Int.emod_lt_of_pos _ (by omega)))

theorem axpy_model (ok : IOk k p) (hp : 2 ≤ p) (ha : 0 ≤ a ∧ a < p) (hb : 0 ≤ b ∧ b < p) (hc : 0 ≤ c ∧ c < p) :
    k.axpy p a b c = (a * b + c) % p := by
  have hab := mul_lt_sq hp ha hb
  have hpp : p ≤ p * p := by nlinarith
  have hsq : (p - 1) * (p - 1) + p < p * p := by nlinarith
  unfold ICfg.axpy
  rw [ok.toC_id a ha.1 (by omega), ok.toC_id b hb.1 (by omega), ok.toC_id c hc.1 (by omega),
    ok.toC_id p (by omega) (by nlinarith), ok.arC_id _ hab.1 (by omega), ok.arC_id (a * b + c) (by omega) (by omega),
    Int.tmod_eq_emod_of_nonneg (by omega)]
  exact ok.toE_id _ (Int.emod_nonneg _ (by omega)) (Int.le_of_lt (Int.emod_lt_of_pos _ (by omega)))

theorem axmy_model (ok : IOk k p) (hp : 2 ≤ p) (ha : 0 ≤ a ∧ a < p) (hb : 0 ≤ b ∧ b < p) (hc : 0 ≤ c ∧ c < p) :
    k.axmy p a b c = (a * b - c) % p := by
  have hab := mul_lt_sq hp ha hb
  have hpp : p ≤ p * p := by nlinarith
  have hsq : (p - 1) * (p - 1) + p < p * p := by nlinarith
  unfold ICfg.axmy
  rw [ok.toC_id a ha.1 (by omega), ok.toC_id b hb.1 (by omega), ok.toC_id c hc.1 (by omega),
    ok.toC_id p (by omega) (by nlinarith), ok.arC_id _ hab.1 (by omega), ok.arC_id (a * b + p) (by omega) (by omega),
    ok.arC_id (a * b + p - c) (by omega) (by omega), Int.tmod_eq_emod_of_nonneg (by omega)]
  rw [ok.toE_id _ (Int.emod_nonneg _ (by omega)) (Int.le_of_lt (Int.emod_lt_of_pos _ (by omega)))]
  have : a * b + p - c = (a * b - c) + p * 1 := by ring
  rw [this, Int.add_mul_emod_self_left]

theorem neg_model (ok : IOk k p) (hp : 2 ≤ p) (ha : 0 ≤ a ∧ a < p) :
    k.neg p a = (-a) % p := by
  unfold ICfg.neg
  rw [neg_emod_eq a p (by omega), Int.emod_eq_of_lt ha.1 ha.2]
  split
  · rfl
  · rw [ok.toE_id p (by omega) (by omega), ok.arE_id _ (by omega) (by omega), ok.toE_id _ (by omega) (by omega)]

theorem maxpy_model (ok : IOk k p) (hp : 2 ≤ p) (ha : 0 ≤ a ∧ a < p) (hb : 0 ≤ b ∧ b < p) (hc : 0 ≤ c ∧ c < p) :
    k.maxpy p a b c = (c - a * b) % p := by
  have hab := mul_lt_sq hp ha hb
  have hpp : p ≤ p * p := by nlinarith
  have hsq : (p - 1) * (p - 1) + p < p * p := by nlinarith
  have hr : k.toE (Int.tmod (k.arC (k.arC (k.toC a * k.toC b) + k.arC (k.toC p - k.toC c))) (k.toC p))
      = (a * b - c) % p := by
    rw [ok.toC_id a ha.1 (by omega), ok.toC_id b hb.1 (by omega), ok.toC_id c hc.1 (by omega),
      ok.toC_id p (by omega) (by nlinarith), ok.arC_id _ hab.1 (by omega), ok.arC_id (p - c) (by omega) (by omega),
      ok.arC_id (a * b + (p - c)) (by omega) (by omega), Int.tmod_eq_emod_of_nonneg (by omega)]
    rw [ok.toE_id _ (Int.emod_nonneg _ (by omega)) (Int.le_of_lt (Int.emod_lt_of_pos _ (by omega)))]
    have : a * b + (p - c) = (a * b - c) + p * 1 := by ring
    rw [this, Int.add_mul_emod_self_left]
  unfold ICfg.maxpy
  simp only [hr]
  rw [neg_model ok hp ⟨Int.emod_nonneg _ (by omega), Int.emod_lt_of_pos _ (by omega)⟩]
  have h := Int.emod_add_mul_ediv (a * b - c) p
  have e : -((a * b - c) % p) = (c - a * b) + p * ((a * b - c) / p) := by linarith
  rw [e, Int.add_mul_emod_self_left]

end nonlinear

/-! ### the shared `extended_euclid` -/

/-- loop invariant of `extended_euclid(x,d,a,b)`; `sg st = 1` when `neg` is set, `-1` otherwise -/
structure EuInv (a b : Int) (st : ICfg.EuState) : Prop where
  r0 : 0 ≤ st.r1
  rd : st.r1 < st.d
  db : st.d ≤ b
  u0 : 0 ≤ st.u0
  u01 : st.u0 ≤ st.u1
  det : st.u0 * st.r1 + st.u1 * st.d = b
  c0 : b ∣ st.u0 * a + (if st.ng then 1 else -1) * st.d
  c1 : b ∣ st.u1 * a - (if st.ng then 1 else -1) * st.r1
  dv : ∀ g : Int, (g ∣ st.d ∧ g ∣ st.r1) ↔ (g ∣ b ∧ g ∣ a)

theorem euInv_init {a b : Int} (ha : 0 ≤ a ∧ a < b) : EuInv a b ⟨0, 1, b, a, true⟩ where
  r0 := ha.1
  rd := ha.2
  db := Int.le_refl _
  u0 := Int.le_refl _
  u01 := by show (0 : Int) ≤ 1; omega
  det := by simp
  c0 := by simp
  c1 := by simp
  dv := fun g => Iff.rfl

/-- what the proofs need from the configuration for Euclid on `(·, b)` -/
structure EOk (k : ICfg) (b : Int) : Prop where
  toE_id : ∀ x, 0 ≤ x → x ≤ b → k.toE x = x
  arE_id : ∀ x, 0 ≤ x → x ≤ b → k.arE x = x

theorem euStep_val {k : ICfg} {a b : Int} (ok : EOk k b) {st : ICfg.EuState} (h : EuInv a b st) (hr : st.r1 ≠ 0) :
    k.euStep st = ⟨st.u1, st.d / st.r1 * st.u1 + st.u0, st.r1, st.d % st.r1, !st.ng⟩
    ∧ 0 ≤ st.d / st.r1 * st.u1 ∧ st.d / st.r1 * st.r1 ≤ st.d ∧ 1 ≤ st.d / st.r1
    ∧ (st.d / st.r1 * st.u1 + st.u0) * st.r1 ≤ b := by
  have hr1 : 0 < st.r1 := by have := h.r0; omega
  have hd : 0 ≤ st.d := by have := h.rd; omega
  have hq0 : 0 ≤ st.d / st.r1 := Int.ediv_nonneg hd h.r0
  have hqd : st.d / st.r1 ≤ st.d := Int.ediv_le_self _ hd
  have hqr : st.d / st.r1 * st.r1 ≤ st.d := Int.ediv_mul_le _ hr
  have hlt := Int.lt_ediv_add_one_mul_self st.d hr1
  have hmod : st.d - st.d / st.r1 * st.r1 = st.d % st.r1 := by
    rw [Int.emod_def]; ring
  have hm0 := Int.emod_nonneg st.d hr
  have hm1 := Int.emod_lt_of_pos st.d hr1
  have hrd := h.rd
  have hdb := h.db
  have hu0 := h.u0
  have hu01 := h.u01
  have hdet := h.det
  have hr0 := h.r0
  unfold ICfg.euStep
  simp only
  rw [Int.tdiv_eq_ediv_of_nonneg hd]
  generalize st.d / st.r1 = q at *
  generalize st.d % st.r1 = m at *
  have hq1 : 1 ≤ q := by
    by_contra hc
    have hq : q = 0 := by omega
    rw [hq] at hlt; omega
  have hu1 : 0 ≤ st.u1 := by omega
  have hqu : 0 ≤ q * st.u1 := Int.mul_nonneg hq0 hu1
  have hu0r : 0 ≤ st.u0 * st.r1 := Int.mul_nonneg hu0 hr0
  -- (q*u1 + u0) * r1 = u1 * (q*r1) + u0*r1 ≤ u1*d + u0*r1 = b
  have hnew : (q * st.u1 + st.u0) * st.r1 ≤ b := by nlinarith
  have hqu_b : q * st.u1 + st.u0 ≤ b := by
    nlinarith [Int.mul_nonneg (show 0 ≤ q * st.u1 + st.u0 by omega) (show 0 ≤ st.r1 - 1 by omega)]
  have hqrn : 0 ≤ q * st.r1 := Int.mul_nonneg hq0 hr0
  refine ⟨?_, hqu, hqr, hq1, hnew⟩
  rw [ok.toE_id _ hq0 (by omega),
    ok.arE_id _ hqu (by omega), ok.arE_id _ (by omega) hqu_b, ok.toE_id _ (by omega) hqu_b,
    ok.arE_id (q * st.r1) hqrn (by omega), hmod,
    ok.arE_id _ hm0 (by omega), ok.toE_id _ hm0 (by omega)]

theorem euInv_step {k : ICfg} {a b : Int} (ok : EOk k b) {st : ICfg.EuState} (h : EuInv a b st) (hr : st.r1 ≠ 0) :
    EuInv a b (k.euStep st) ∧ (k.euStep st).r1 < st.r1 := by
  obtain ⟨hv, hqu, hqr, hq1, hnew⟩ := euStep_val ok h hr
  have hr1 : 0 < st.r1 := by have := h.r0; omega
  have hm0 := Int.emod_nonneg st.d hr
  have hm1 := Int.emod_lt_of_pos st.d hr1
  have hu1 : 0 ≤ st.u1 := by have := h.u0; have := h.u01; omega
  have hmod : st.d % st.r1 = st.d - st.r1 * (st.d / st.r1) := Int.emod_def _ _
  rw [hv]
  refine ⟨⟨hm0, hm1, ?_, hu1, ?_, ?_, ?_, ?_, ?_⟩, hm1⟩
  · have := h.rd; have := h.db; show st.r1 ≤ b; omega
  · show st.u1 ≤ st.d / st.r1 * st.u1 + st.u0
    have := h.u0; nlinarith
  · show st.u1 * (st.d % st.r1) + (st.d / st.r1 * st.u1 + st.u0) * st.r1 = b
    rw [hmod]; have := h.det; linarith [this, (by ring : st.u1 * (st.d - st.r1 * (st.d / st.r1)) + (st.d / st.r1 * st.u1 + st.u0) * st.r1 = st.u0 * st.r1 + st.u1 * st.d)]
  · show b ∣ st.u1 * a + (if (!st.ng) = true then 1 else -1) * st.r1
    have := h.c1
    cases hn : st.ng <;> simp only [hn] at this ⊢ <;> simpa [sub_eq_add_neg] using this
  · show b ∣ (st.d / st.r1 * st.u1 + st.u0) * a - (if (!st.ng) = true then 1 else -1) * (st.d % st.r1)
    have h0 := h.c0
    have h1 := h.c1
    rw [hmod]
    cases hn : st.ng <;> simp only [hn] at h0 h1 ⊢
    · have e : (st.d / st.r1 * st.u1 + st.u0) * a - (if (!false) = true then 1 else -1) * (st.d - st.r1 * (st.d / st.r1))
          = st.d / st.r1 * (st.u1 * a - (if false = true then 1 else -1) * st.r1) + (st.u0 * a + (if false = true then 1 else -1) * st.d) := by
        simp; ring
      rw [e]; exact Int.dvd_add (Dvd.dvd.mul_left h1 _) h0
    · have e : (st.d / st.r1 * st.u1 + st.u0) * a - (if (!true) = true then 1 else -1) * (st.d - st.r1 * (st.d / st.r1))
          = st.d / st.r1 * (st.u1 * a - (if true = true then 1 else -1) * st.r1) + (st.u0 * a + (if true = true then 1 else -1) * st.d) := by
        simp; ring
      rw [e]; exact Int.dvd_add (Dvd.dvd.mul_left h1 _) h0
  · intro g
    show (g ∣ st.r1 ∧ g ∣ st.d % st.r1) ↔ _
    rw [← h.dv g, hmod]
    constructor
    · rintro ⟨h1, h2⟩
      refine ⟨?_, h1⟩
      have : st.d = (st.d - st.r1 * (st.d / st.r1)) + st.r1 * (st.d / st.r1) := by ring
      rw [this]; exact Int.dvd_add h2 (Dvd.dvd.mul_right h1 _)
    · rintro ⟨h1, h2⟩
      exact ⟨h2, Int.dvd_sub h1 (Dvd.dvd.mul_right h2 _)⟩

theorem euLoop_inv {k : ICfg} {a b : Int} (ok : EOk k b) :
    ∀ (fuel : Nat) (st : ICfg.EuState), EuInv a b st → st.r1 < fuel →
      EuInv a b (k.euLoop fuel st) ∧ (k.euLoop fuel st).r1 = 0 := by
  intro fuel
  induction fuel with
  | zero => intro st h hf; have := h.r0; omega
  | succ n ih =>
    intro st h hf
    unfold ICfg.euLoop
    split
    · next hz => exact ⟨h, hz⟩
    · next hz =>
      obtain ⟨h', hlt⟩ := euInv_step ok h hz
      exact ih _ h' (by push_cast at hf; omega)

/-- `extended_euclid(x,d,a,b)` for `0 ≤ a < b`, `2 ≤ b`: `d = gcd(a,b)`, `0 ≤ x < b`, `x·a ≡ d (mod b)` -/
theorem euclid_spec {k : ICfg} {a b : Int} (ok : EOk k b) (ha : 0 ≤ a ∧ a < b) (hb : 2 ≤ b) :
    (k.euclid a b).2 = (Int.gcd a b : Int) ∧ 0 ≤ (k.euclid a b).1 ∧ (k.euclid a b).1 < b
      ∧ b ∣ (k.euclid a b).1 * a - (k.euclid a b).2 := by
  have hfuel : a < ((2 * k.s + 2 + a.natAbs : Nat) : Int) := by
    have := ha.1
    omega
  obtain ⟨hI, hz⟩ := euLoop_inv ok (2 * k.s + 2 + a.natAbs) _ (euInv_init ha) hfuel
  unfold ICfg.euclid
  simp only
  generalize k.euLoop (2 * k.s + 2 + a.natAbs) ⟨0, 1, b, a, true⟩ = st at hI hz
  have hd0 : 0 < st.d := by have := hI.rd; have := hI.r0; omega
  have hdet : st.u1 * st.d = b := by have := hI.det; rw [hz] at this; simpa using this
  have hu1b : st.u1 ≤ b := by
    have hu1 : 0 ≤ st.u1 := by have := hI.u0; have := hI.u01; omega
    nlinarith
  have hdg : st.d = (Int.gcd a b : Int) := by
    apply Int.gcd_greatest (Int.le_of_lt hd0)
    · exact ((hI.dv st.d).1 ⟨Int.dvd_refl _, by rw [hz]; exact Int.dvd_zero _⟩).2
    · exact ((hI.dv st.d).1 ⟨Int.dvd_refl _, by rw [hz]; exact Int.dvd_zero _⟩).1
    · intro e h1 h2; exact ((hI.dv e).2 ⟨h2, h1⟩).1
  refine ⟨hdg, ?_⟩
  have hc0 := hI.c0
  have hu0 := hI.u0
  have hu01 := hI.u01
  by_cases hn : st.ng = true
  · by_cases hu : st.u0 > 0
    · rw [if_pos ⟨hn, hu⟩, ok.arE_id _ (by omega) (by omega), ok.toE_id _ (by omega) (by omega)]
      refine ⟨by omega, by omega, ?_⟩
      simp only [hn, if_true, one_mul] at hc0
      have e : (b - st.u0) * a - st.d = b * a - (st.u0 * a + st.d) := by ring
      rw [e]; exact Int.dvd_sub (Int.dvd_mul_right _ _) hc0
    · have hu0z : st.u0 = 0 := by omega
      rw [if_neg (by intro h; exact hu h.2)]
      simp only [hn, if_true, one_mul, hu0z, zero_mul, zero_add] at hc0 ⊢
      refine ⟨Int.le_refl _, by omega, ?_⟩
      simpa using hc0
  · have hnf : st.ng = false := by cases h : st.ng <;> simp_all
    rw [if_neg (by intro h; exact hn h.1)]
    simp only [hnf] at hc0
    have hc0' : b ∣ st.u0 * a - st.d := by simpa [sub_eq_add_neg] using hc0
    refine ⟨hu0, ?_, hc0'⟩
    by_contra hge
    have hub : st.u0 = b := by omega
    have hu1 : st.u1 = b := by omega
    have hd1 : st.d = 1 := by
      rw [hu1] at hdet
      have : b * st.d = b * 1 := by linarith
      exact Int.eq_of_mul_eq_mul_left (by omega) this
    rw [hub, hd1] at hc0'
    have : b ∣ 1 := by
      have h2 : b ∣ b * a := Int.dvd_mul_right _ _
      have := Int.dvd_sub h2 hc0'
      simpa using this
    have := Int.le_of_dvd (by decide) this
    omega

end Givaro.Model.ModRing
