/-
C19 — the infix text written by `Poly1Dom::write` is parsed back by the reference parser of Spec/TextSpec.lean:
building blocks (prefix stripping, integer/natural prefixes, one term, the separator identity of the writer, the loop).
-/
import GivaroModel.Model.Text
import GivaroModel.Spec.TextSpec
import GivaroModel.Lemmas.TextLemmas
import GivaroModel.Lemmas.TextAux
namespace Givaro.Lemmas.Text
open Givaro.Model.Text Givaro.Spec.Text

/-- degree-normalised: the last stored coefficient is not zero -/
def Norm : List Int → Prop
  | [] => True
  | [c] => c ≠ 0
  | _ :: d :: ds => Norm (d :: ds)

/-- the text after a term: nothing, or a blank (the separator `" + "`) -/
def sepStart (rest : List Char) : Bool :=
  match rest with
  | [] => true
  | c :: _ => c = ' '

theorem sepStart_facts (rest : List Char) (h : sepStart rest = true) :
    startsWithDigit rest = false ∧ rest.head? ≠ some '^' ∧ rest.head? ≠ some '*' := by
  cases rest with
  | nil => simp [startsWithDigit]
  | cons c t =>
    have hc : c = ' ' := by simpa [sepStart] using h
    subst hc
    refine ⟨by simp [startsWithDigit]; decide, by simp, by simp⟩

/-! ### normalisation -/

theorem polyNorm_Norm (R : List Int) : Norm (polyNorm R) := by
  induction R with
  | nil => simp [polyNorm, Norm]
  | cons c cs ih =>
    simp only [polyNorm]
    split
    · split <;> simp [Norm, *]
    · rename_i d ds h
      rw [h] at ih
      exact ih

theorem polyNorm_of_Norm (P : List Int) (h : Norm P) : polyNorm P = P := by
  induction P with
  | nil => rfl
  | cons c cs ih =>
    cases cs with
    | nil => simp [polyNorm, Norm] at h ⊢; exact h
    | cons d ds =>
      have h' : Norm (d :: ds) := h
      simp only [polyNorm] at ih ⊢
      rw [ih h']

theorem polyNorm_idem (R : List Int) : polyNorm (polyNorm R) = polyNorm R :=
  polyNorm_of_Norm _ (polyNorm_Norm R)

theorem Norm_cons (c : Int) (cs : List Int) (h : Norm (c :: cs)) (hne : cs ≠ []) : Norm cs := by
  cases cs with
  | nil => exact absurd rfl hne
  | cons d ds => exact h

theorem Norm_zero_cons (cs : List Int) (h : Norm (0 :: cs)) : cs ≠ [] := by
  intro e; subst e; simp [Norm] at h

/-! ### prefixes -/

theorem stripPrefix_append (p t : List Char) : stripPrefix p (p ++ t) = some t := by
  induction p with
  | nil => cases t <;> rfl
  | cons a p ih => simpa [stripPrefix] using ih

theorem stripPrefix_head_ne (a b : Char) (p t : List Char) (h : a ≠ b) : stripPrefix (a :: p) (b :: t) = none := by
  simp [stripPrefix, h]

theorem readIntPrefix_showInt (c : Int) (rest : List Char) (h : startsWithDigit rest = false) :
    readIntPrefix (showInt c ++ rest) = some (c, rest) := by
  obtain ⟨hne, hall, hval⟩ := decDigits_spec c.natAbs
  cases hd : decDigits c.natAbs with
  | nil => exact absurd hd hne
  | cons d0 ds =>
    have h0 : isDigit d0 = true := by rw [hd] at hall; exact hall d0 (by simp)
    obtain ⟨_, hm, _, _, _⟩ := isDigit_facts d0 h0
    have htw := takeWhile_digits (d0 :: ds) rest (by rw [← hd]; exact hall) h
    have hval' : valOf 0 (d0 :: ds) = c.natAbs := by rw [← hd, hval]
    by_cases hn : c < 0
    · have ht : showInt c ++ rest = '-' :: (d0 :: ds ++ rest) := by simp [showInt, hn, hd]
      rw [ht]
      simp only [readIntPrefix, List.head?_cons, decide_true, ↓reduceIte, List.drop_succ_cons, List.drop_zero,
        htw.1, htw.2, digitsValue_eq, hval', List.isEmpty_cons, Bool.false_eq_true]
      congr 2; omega
    · have ht : showInt c ++ rest = d0 :: ds ++ rest := by simp [showInt, hn, hd]
      have hm' : ¬ (some d0 = some '-') := by simpa using hm
      have htw1 : (d0 :: (ds ++ rest)).takeWhile isDigit = d0 :: ds := by simpa using htw.1
      have htw2 : (d0 :: (ds ++ rest)).dropWhile isDigit = rest := by simpa using htw.2
      rw [ht]
      simp only [readIntPrefix, List.cons_append, List.head?_cons, hm', decide_false, Bool.false_eq_true, ↓reduceIte,
        htw1, htw2, digitsValue_eq, hval', List.isEmpty_cons]
      congr 2; omega

theorem readNatPrefix_decDigits (l : Nat) (rest : List Char) (h : startsWithDigit rest = false) :
    readNatPrefix (decDigits l ++ rest) = some (l, rest) := by
  obtain ⟨hne, hall, hval⟩ := decDigits_spec l
  have htw := takeWhile_digits (decDigits l) rest hall h
  cases hd : decDigits l with
  | nil => exact absurd hd hne
  | cons d0 ds =>
    rw [hd] at htw hval
    simp only [readNatPrefix, htw.1, htw.2, List.isEmpty_cons, Bool.false_eq_true, ↓reduceIte, digitsValue_eq, hval]

/-! ### one term -/

/-- the exponent part the writer emits for degree `l ≥ 1` -/
def powText (l : Nat) : List Char := if l ≥ 2 then '^' :: decDigits l else []

theorem degreePart_powText (c : Int) (l : Nat) (hl : 1 ≤ l) (rest : List Char) (h : sepStart rest = true) :
    degreePart c (powText l ++ rest) = some (c, l, rest) := by
  obtain ⟨hsd, hpow, _⟩ := sepStart_facts rest h
  by_cases h2 : l ≥ 2
  · simp only [powText, h2, ↓reduceIte, List.cons_append, degreePart, readNatPrefix_decDigits l rest hsd]
  · have h1 : l = 1 := by omega
    subst h1
    simp only [powText, h2, ↓reduceIte, List.nil_append]
    cases rest with
    | nil => rfl
    | cons a t =>
      have : a ≠ '^' := by simpa using hpow
      simp [degreePart, this]

theorem polyTerm_eq (x : List Char) (c : Int) (l : Nat) :
    polyTerm x c l = (if c ≠ 1 then '(' :: showInt c ++ [')', '*'] else []) ++ x ++ powText l := by
  simp [polyTerm, powText, elemShow]

theorem nameOk_cons (x : List Char) (h : nameOk x = true) :
    ∃ a x', x = a :: x' ∧ isDigit a = false ∧ a ≠ '(' := by
  cases x with
  | nil => simp [nameOk] at h
  | cons a x' =>
    refine ⟨a, x', rfl, ?_, ?_⟩ <;> simp [nameOk] at h <;> simp [h.1, h.2]

/-- an indeterminate term `(c)*x^l` / `x^l` followed by nothing or by a separator -/
theorem parseTerm_xterm (x : List Char) (hx : nameOk x = true) (c : Int) (l : Nat) (hl : 1 ≤ l)
    (rest : List Char) (h : sepStart rest = true) :
    parseTerm x (polyTerm x c l ++ rest) = some (c, l, rest) := by
  obtain ⟨a, x', rfl, hdig, hpar⟩ := nameOk_cons x hx
  rw [polyTerm_eq]
  by_cases hc : c = 1
  · subst hc
    simp only [ne_eq, not_true_eq_false, ↓reduceIte, List.nil_append, List.cons_append, parseTerm, hpar]
    have := stripPrefix_append (a :: x') (powText l ++ rest)
    simp only [List.cons_append] at this
    rw [List.append_assoc, this]
    exact degreePart_powText 1 l hl rest h
  · have hri := readIntPrefix_showInt c (')' :: '*' :: ((a :: x') ++ powText l ++ rest)) (by simp [startsWithDigit]; decide)
    have hsp := stripPrefix_append (a :: x') (powText l ++ rest)
    simp only [ne_eq, hc, not_false_eq_true, ↓reduceIte, List.cons_append, List.append_assoc, parseTerm] at hri hsp ⊢
    simp only [List.singleton_append, List.cons_append, List.nil_append, hri, ne_eq, not_true_eq_false, ↓reduceIte, hc, hsp,
      Option.bind_some]
    exact degreePart_powText c l hl rest h

/-- the constant term: `1` or `(c)` -/
def constText (c0 : Int) : List Char := if c0 = 1 then showInt c0 else '(' :: showInt c0 ++ [')']

theorem parseTerm_const (x : List Char) (hx : nameOk x = true) (c0 : Int) (rest : List Char) (h : sepStart rest = true) :
    parseTerm x (constText c0 ++ rest) = some (c0, 0, rest) := by
  obtain ⟨a, x', rfl, hdig, hpar⟩ := nameOk_cons x hx
  obtain ⟨_, _, hstar⟩ := sepStart_facts rest h
  by_cases hc : c0 = 1
  · subst hc
    have hct : constText 1 = ['1'] := by decide
    have ha1 : a ≠ '1' := by intro e; subst e; revert hdig; decide
    rw [hct]
    simp [parseTerm, stripPrefix_head_ne a '1' x' rest ha1]
  · have hri := readIntPrefix_showInt c0 (')' :: rest) (by simp [startsWithDigit]; decide)
    simp only [constText, hc, ↓reduceIte, List.cons_append, List.append_assoc, List.nil_append, parseTerm, hri, ne_eq,
      not_true_eq_false]
    cases rest with
    | nil => rfl
    | cons d t =>
      have : d ≠ '*' := by simpa using hstar
      simp [this]

/-! ### the writer's separators -/

theorem polyTail_sep (x : List Char) (cs : List Int) (c : Int) (m : Nat) :
    polyTail x cs c m = (if c ≠ 0 ∧ cs ≠ [] then [' ', '+', ' '] else []) ++ polyTail x cs 0 m := by
  cases cs with
  | nil => simp [polyTail]
  | cons d ds =>
    by_cases hc : c = 0
    · simp [polyTail, hc]
    · simp [polyTail, hc]

theorem sepStart_tail (x : List Char) (cs : List Int) (c : Int) (m : Nat) : sepStart (polyTail x cs c m) = true ∨ c = 0 := by
  by_cases hc : c = 0
  · exact Or.inr hc
  · left
    rw [polyTail_sep]
    cases cs with
    | nil => simp [polyTail, sepStart]
    | cons d ds => simp [hc, sepStart]

/-! ### the loop -/

theorem parseLoop_tail (x : List Char) (hx : nameOk x = true) :
    ∀ (cs : List Int), Norm cs → cs ≠ [] → ∀ (l k fuel : Nat) (acc : List Int), 1 ≤ l → k ≤ l →
      (polyTail x cs 0 l).length < fuel →
      parseLoop x fuel k acc (polyTail x cs 0 l) = some (acc ++ List.replicate (l - k) 0 ++ cs) := by
  intro cs
  induction cs with
  | nil => intro _ h; exact absurd rfl h
  | cons c cs ih =>
    intro hN _ l k fuel acc hl hk hf
    by_cases hc : c = 0
    · subst hc
      have hne := Norm_zero_cons cs hN
      have hN' := Norm_cons 0 cs hN hne
      have e : polyTail x (0 :: cs) 0 l = polyTail x cs 0 (l + 1) := by simp [polyTail]
      rw [e] at hf ⊢
      rw [ih hN' hne (l + 1) k fuel acc (by omega) (by omega) hf]
      have : l + 1 - k = (l - k) + 1 := by omega
      rw [this, List.replicate_succ']
      simp
    · have e : polyTail x (c :: cs) 0 l = polyTerm x c l ++ polyTail x cs c (l + 1) := by simp [polyTail, hc]
      rw [e] at hf ⊢
      have hss : sepStart (polyTail x cs c (l + 1)) = true := by
        rcases sepStart_tail x cs c (l + 1) with h | h
        · exact h
        · exact absurd h hc
      cases fuel with
      | zero => omega
      | succ f =>
        have hnot : ¬ (c = 0 ∨ l < k) := by omega
        simp only [parseLoop, parseTerm_xterm x hx c l hl _ hss, hnot, ↓reduceIte]
        cases hcs : cs with
        | nil => simp [polyTail]
        | cons d ds =>
          have hne : cs ≠ [] := by simp [hcs]
          have hN' := Norm_cons c cs hN hne
          have hsep : polyTail x cs c (l + 1) = [' ', '+', ' '] ++ polyTail x cs 0 (l + 1) := by
            rw [polyTail_sep]; simp [hc, hne]
          rw [← hcs, hsep]
          simp only [List.cons_append, List.nil_append]
          have hst : stripPrefix [' ', '+', ' '] (' ' :: '+' :: ' ' :: polyTail x cs 0 (l + 1)) = some (polyTail x cs 0 (l + 1)) :=
            stripPrefix_append [' ', '+', ' '] _
          rw [hst]
          have hlen : (polyTail x cs 0 (l + 1)).length < f := by
            rw [hsep] at hf
            simp only [List.length_append, List.length_cons, List.length_nil] at hf
            omega
          have hih := ih hN' hne (l + 1) (l + 1) f (acc ++ List.replicate (l - k) 0 ++ [c]) (by omega) (by omega) hlen
          simp at hih ⊢
          simp [hih]

/-- the reference parser reads back what the body of `write` emits for a degree-normalised polynomial -/
theorem parsePoly_polyShow (x : List Char) (hx : nameOk x = true) (P : List Int) (hP : Norm P) :
    parsePoly x (polyShow x P) = some P := by
  cases P with
  | nil =>
    obtain ⟨a, x', rfl, hdig, hpar⟩ := nameOk_cons x hx
    have ha0 : a ≠ '0' := by intro e; subst e; revert hdig; decide
    simp [parsePoly, polyShow, parseLoop, parseTerm, stripPrefix_head_ne a '0' x' [] ha0]
  | cons c0 cs =>
    by_cases hc : c0 = 0
    · subst hc
      have hne := Norm_zero_cons cs hP
      have hN' := Norm_cons 0 cs hP hne
      have e : polyShow x (0 :: cs) = polyTail x cs 0 1 := by simp [polyShow]
      rw [e, parsePoly, parseLoop_tail x hx cs hN' hne 1 0 _ [] (by omega) (by omega) (by omega)]
      simp
    · have e : polyShow x (c0 :: cs) = constText c0 ++ polyTail x cs c0 1 := by
        simp [polyShow, constText, hc, elemShow]
      have hss : sepStart (polyTail x cs c0 1) = true := by
        rcases sepStart_tail x cs c0 1 with h | h
        · exact h
        · exact absurd h hc
      rw [e, parsePoly]
      have hnot : ¬ (c0 = 0 ∨ 0 < 0) := by omega
      simp only [parseLoop, parseTerm_const x hx c0 _ hss, hnot, ↓reduceIte]
      cases hcs : cs with
      | nil => simp [polyTail]
      | cons d ds =>
        have hne : cs ≠ [] := by simp [hcs]
        have hN' := Norm_cons c0 cs hP hne
        have hsep : polyTail x cs c0 1 = [' ', '+', ' '] ++ polyTail x cs 0 1 := by
          rw [polyTail_sep]; simp [hc, hne]
        rw [← hcs, hsep]
        simp only [List.cons_append, List.nil_append]
        have hst : stripPrefix [' ', '+', ' '] (' ' :: '+' :: ' ' :: polyTail x cs 0 1) = some (polyTail x cs 0 1) :=
          stripPrefix_append [' ', '+', ' '] _
        rw [hst]
        have hih := parseLoop_tail x hx cs hN' hne 1 1 (constText c0 ++ ' ' :: '+' :: ' ' :: polyTail x cs 0 1).length [c0]
          (by omega) (by omega) (by simp only [List.length_append, List.length_cons]; omega)
        simp at hih ⊢
        simp [hih]

end Givaro.Lemmas.Text
