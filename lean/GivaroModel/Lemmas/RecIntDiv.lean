/- C06 helper lemmas: rudiv.h — div_3_2 / div_2_1 are exact for a normalised divisor (both quotient corrections). -/
import GivaroModel.Lemmas.RecIntMulLow
namespace Givaro.Model.RecInt

theorem highest_bit_iff : ∀ {n : Nat} (b : RU n), WF b → (highest_bit b = true ↔ Bn n ≤ 2 * val b)
  | _, .limb a, hw => by
      simp only [WF] at hw
      rw [Bn_zero]
      simp only [highest_bit, val, decide_eq_true_eq, limb_hbit a hw]
      simp only [B64]; omega
  | _, .node (n := n) l h, hw => by
      have ih := highest_bit_iff h hw.2
      have hl := val_lt l hw.1
      obtain ⟨k, hk, hkpos⟩ := Bn_even n
      simp only [highest_bit, val_node, Bn_succ]
      rw [ih]
      generalize Bn n = B at *
      subst hk
      constructor
      · intro h1; nlinarith
      · intro h1
        by_contra h2
        have h3 : val h + 1 ≤ k := by omega
        have : 2 * k * (val h + 1) ≤ 2 * k * k := Nat.mul_le_mul_left _ h3
        nlinarith

theorem ones_ok : ∀ (n : Nat), WF (ones n) ∧ val (ones n) + 1 = Bn n
  | 0 => by rw [Bn_zero]; simp [ones, WF, val, B64]
  | n+1 => by
      have ih := ones_ok n
      simp only [ones, WF_node, val_node, Bn_succ]
      refine ⟨⟨ih.1, ih.1⟩, ?_⟩
      have := ih.2
      generalize Bn n = B at *
      nlinarith

/-- the lexicographic test `d1 > c || (d1 == c && d0 > a0)` is the comparison of the two-digit values -/
theorem lex_gt_iff {n : Nat} (d1 d0 c a0 : RU n) (h1 : WF d1) (h0 : WF d0) (hc : WF c) (ha : WF a0) :
    (decide (cmp d1 c > 0) || (decide (cmp d1 c = 0) && decide (cmp d0 a0 > 0))) = true ↔
      val a0 + Bn n * val c < val d0 + Bn n * val d1 := by
  have hd0 := val_lt d0 h0
  have ha0 := val_lt a0 ha
  have hB := Bn_pos n
  rcases cmp_spec d1 c h1 hc with ⟨e, h⟩ | ⟨e, h⟩ | ⟨e, h⟩
  · rw [e]; simp only [gt_iff_lt, Int.reduceNeg, Int.reduceLT, decide_false, Int.reduceEq, Bool.false_and, Bool.or_self, Bool.false_eq_true, false_iff]
    nlinarith
  · rw [e, h]
    rcases cmp_spec d0 a0 h0 ha with ⟨e', h'⟩ | ⟨e', h'⟩ | ⟨e', h'⟩ <;> rw [e'] <;> simp <;> omega
  · rw [e]; simp only [gt_iff_lt, Int.reduceLT, decide_true, Bool.true_or, true_iff]
    nlinarith

/-- bookkeeping of the remainder in `div_3_2` at the two-digit level (everything linear once the flags are fixed) -/
theorem d32_core (B2 b D X r : Nat) (ret1 β1 : Bool)
    (hD : D < B2) (hb : b < B2) (hK2 : B2 ≤ 2 * b) (hT : X + c2n ret1 * B2 < b + D) (hr : r < B2)
    (P1 : r + D = X + c2n β1 * B2) :
    (¬(ret1 = false ∧ X < D) → r + D = X + c2n ret1 * B2 ∧ r < b) ∧
    (ret1 = false ∧ X < D → ∀ (x : Nat) (ρ : Bool), x < B2 → x + c2n ρ * B2 = r + b →
        (ρ = true → x + D = X + b ∧ x < b) ∧
        (ρ = false → X + b < D ∧ ∀ (y : Nat) (ρ' : Bool), y < B2 → y + c2n ρ' * B2 = x + b → y + D = X + 2 * b ∧ y < b)) := by
  constructor
  · intro hn
    cases ret1 <;> cases β1 <;> simp only [c2n_true, c2n_false, Nat.one_mul, Nat.zero_mul, Nat.add_zero, true_and, Bool.true_eq_false, false_and, not_false_eq_true, not_lt] at * <;> omega
  · rintro ⟨h1, h2⟩ x ρ hx hxe
    subst h1
    constructor
    · intro hρ; subst hρ
      cases β1 <;> simp only [c2n_true, c2n_false, Nat.one_mul, Nat.zero_mul, Nat.add_zero] at * <;> omega
    · intro hρ; subst hρ
      refine ⟨?_, ?_⟩
      · cases β1 <;> simp only [c2n_true, c2n_false, Nat.one_mul, Nat.zero_mul, Nat.add_zero] at * <;> omega
      · intro y ρ' hy hye
        cases β1 <;> cases ρ' <;> simp only [c2n_true, c2n_false, Nat.one_mul, Nat.zero_mul, Nat.add_zero] at * <;> omega

theorem sub_1_pos {n : Nat} (q : RU n) (hq : WF q) (h1 : 1 ≤ val q) : WF (sub_1 q).1 ∧ val (sub_1 q).1 + 1 = val q := by
  have h := sub_1_ok q hq
  have hv := val_lt _ h.1
  refine ⟨h.1, ?_⟩
  have he := h.2
  cases hb : (sub_1 q).2 <;> rw [hb] at he <;> simp only [c2n_true, c2n_false, Nat.one_mul, Nat.zero_mul, Nat.add_zero] at he <;> omega

/-- what a quotient/remainder routine with a two-digit divisor must deliver -/
def Div32Ok {n : Nat} (x : RU n × RU n × RU n) (a2 a1 a0 b1 b0 : RU n) : Prop :=
  WF x.1 ∧ WF x.2.1 ∧ WF x.2.2 ∧
  (val a2 * Bn n + val a1) * Bn n + val a0 = val x.1 * (val b1 * Bn n + val b0) + (val x.2.1 * Bn n + val x.2.2) ∧
  val x.2.1 * Bn n + val x.2.2 < val b1 * Bn n + val b0
def Div21Ok {n : Nat} (x : RU n × RU n) (ah al b : RU n) : Prop :=
  WF x.1 ∧ WF x.2 ∧ val ah * Bn n + val al = val x.1 * val b + val x.2 ∧ val x.2 < val b

/-! ### the generic `div_3_2` template, split into the quotient estimate and the remainder/correction part -/
/-- the quotient estimate `(q, c, ret1)`: `div_2_1(a2, a1, b1)` when `a2 < b1`, otherwise `B-1` with `c = a1 + b1` and its carry -/
def qhatR {m : Nat} (t : Nat) (a2 a1 b1 : RU (m+1)) : RU (m+1) × RU (m+1) × Bool :=
  if cmp a2 b1 < 0 then ((div_2_1 t a2 a1 b1).1, (div_2_1 t a2 a1 b1).2, false) else (ones (m + 1), (add a1 b1).1, (add a1 b1).2)

/-- the rest of the template: `d = q·b0`, `r = (c|a0) - d`, up to two corrections -/
def div32tailR {k : Nat} (t : Nat) (q c : RU k) (ret1 : Bool) (a0 b1 b0 : RU k) : RU k × RU k × RU k :=
  if !ret1 && (decide (cmp (hi (lmul t q b0)) c > 0) || (decide (cmp (hi (lmul t q b0)) c = 0) && decide (cmp (lo (lmul t q b0)) a0 > 0))) then
    if !(add_wc (sub_wcNC c (hi (lmul t q b0)) (sub a0 (lo (lmul t q b0))).2) b1 (add (sub a0 (lo (lmul t q b0))).1 b0).2).2 then
      ((sub_1 (sub_1 q).1).1,
       add_wcNC (add_wc (sub_wcNC c (hi (lmul t q b0)) (sub a0 (lo (lmul t q b0))).2) b1 (add (sub a0 (lo (lmul t q b0))).1 b0).2).1 b1
         (add (add (sub a0 (lo (lmul t q b0))).1 b0).1 b0).2,
       (add (add (sub a0 (lo (lmul t q b0))).1 b0).1 b0).1)
    else ((sub_1 q).1, (add_wc (sub_wcNC c (hi (lmul t q b0)) (sub a0 (lo (lmul t q b0))).2) b1 (add (sub a0 (lo (lmul t q b0))).1 b0).2).1,
          (add (sub a0 (lo (lmul t q b0))).1 b0).1)
  else (q, sub_wcNC c (hi (lmul t q b0)) (sub a0 (lo (lmul t q b0))).2, (sub a0 (lo (lmul t q b0))).1)

theorem div_3_2_succ_eq {m : Nat} (t : Nat) (a2 a1 a0 b1 b0 : RU (m+1)) :
    div_3_2 t a2 a1 a0 b1 b0 = div32tailR t (qhatR t a2 a1 b1).1 (qhatR t a2 a1 b1).2.1 (qhatR t a2 a1 b1).2.2 a0 b1 b0 := by
  simp only [div_3_2, div32tailR, qhatR]
  rfl

theorem qhatR_ok (t m : Nat)
    (IH21 : ∀ ah al b : RU (m+1), WF ah → WF al → WF b → Bn (m+1) ≤ 2 * val b → val ah < val b → Div21Ok (div_2_1 t ah al b) ah al b)
    (a2 a1 b1 b0 : RU (m+1)) (ha2 : WF a2) (ha1 : WF a1) (hb1 : WF b1) (hb0 : WF b0)
    (hn : Bn (m+1) ≤ 2 * val b1) (hlt : val a2 * Bn (m+1) + val a1 < val b1 * Bn (m+1) + val b0) :
    WF (qhatR t a2 a1 b1).1 ∧ WF (qhatR t a2 a1 b1).2.1 ∧
    (val a2 * Bn (m+1) + val a1 = val (qhatR t a2 a1 b1).1 * val b1 + val (qhatR t a2 a1 b1).2.1 + c2n (qhatR t a2 a1 b1).2.2 * Bn (m+1)) ∧
    (((qhatR t a2 a1 b1).2.2 = false ∧ val (qhatR t a2 a1 b1).2.1 < val b1) ∨
     (val (qhatR t a2 a1 b1).1 + 1 = Bn (m+1) ∧ val a1 < val b0 ∧
       val (qhatR t a2 a1 b1).2.1 + c2n (qhatR t a2 a1 b1).2.2 * Bn (m+1) = val a1 + val b1)) := by
  have hvb0 := val_lt _ hb0
  unfold qhatR
  by_cases hc : cmp a2 b1 < 0
  · rw [if_pos hc]
    have hlt' := (cmp_lt a2 b1 ha2 hb1).mp hc
    obtain ⟨h1, h2, h3, h4⟩ := IH21 a2 a1 b1 ha2 ha1 hb1 hn hlt'
    exact ⟨h1, h2, by simpa using h3, Or.inl ⟨rfl, h4⟩⟩
  · rw [if_neg hc]
    have hge : ¬ val a2 < val b1 := fun h => hc ((cmp_lt a2 b1 ha2 hb1).mpr h)
    have heq : val a2 = val b1 := by
      by_contra hne
      have : val b1 + 1 ≤ val a2 := by omega
      have := Nat.mul_le_mul_right (Bn (m+1)) this
      nlinarith
    have ho := ones_ok (m+1)
    obtain ⟨hsw, hse⟩ := add_ok a1 b1 ha1 hb1
    have ha1b0 : val a1 < val b0 := by rw [heq] at hlt; omega
    refine ⟨ho.1, hsw, ?_, Or.inr ⟨ho.2, ha1b0, hse⟩⟩
    simp only
    rw [heq]
    have := ho.2
    generalize Bn (m+1) = B at *
    generalize val (ones (m+1)) = o at *
    subst this
    linear_combination hse.symm

/-- everything the branches need to know about `d = q·b0` and the first remainder -/
structure D32R {k : Nat} (q c a0 b1 b0 : RU k) (ret1 : Bool) (d : RU (k+1)) (s0 : RU k × Bool) (r1 : RU k) : Prop where
  hd0 : WF (lo d)
  hd1 : WF (hi d)
  hde : val (lo d) + Bn k * val (hi d) = val q * val b0
  hs0 : WF s0.1
  hr1 : WF r1
  hlex : (decide (cmp (hi d) c > 0) || (decide (cmp (hi d) c = 0) && decide (cmp (lo d) a0 > 0))) = true ↔
      val a0 + Bn k * val c < val (lo d) + Bn k * val (hi d)
  core : (¬(ret1 = false ∧ val a0 + Bn k * val c < val (lo d) + Bn k * val (hi d)) →
      (val s0.1 + Bn k * val r1) + (val (lo d) + Bn k * val (hi d)) = (val a0 + Bn k * val c) + c2n ret1 * (Bn k * Bn k) ∧
      val s0.1 + Bn k * val r1 < val b0 + Bn k * val b1) ∧
    (ret1 = false ∧ val a0 + Bn k * val c < val (lo d) + Bn k * val (hi d) → ∀ (x : Nat) (ρ : Bool), x < Bn k * Bn k →
      x + c2n ρ * (Bn k * Bn k) = (val s0.1 + Bn k * val r1) + (val b0 + Bn k * val b1) →
        (ρ = true → x + (val (lo d) + Bn k * val (hi d)) = (val a0 + Bn k * val c) + (val b0 + Bn k * val b1) ∧ x < val b0 + Bn k * val b1) ∧
        (ρ = false → (val a0 + Bn k * val c) + (val b0 + Bn k * val b1) < val (lo d) + Bn k * val (hi d) ∧
          ∀ (y : Nat) (ρ' : Bool), y < Bn k * Bn k → y + c2n ρ' * (Bn k * Bn k) = x + (val b0 + Bn k * val b1) →
            y + (val (lo d) + Bn k * val (hi d)) = (val a0 + Bn k * val c) + 2 * (val b0 + Bn k * val b1) ∧ y < val b0 + Bn k * val b1))
  hq0 : val q = 0 → val (lo d) + Bn k * val (hi d) = 0
  hq1 : val q ≤ 1 → val (lo d) + Bn k * val (hi d) ≤ val b0 + Bn k * val b1

theorem d32R_facts {k : Nat} (t : Nat) (q c a0 b1 b0 : RU k) (ret1 : Bool) (a1 : Nat)
    (hq : WF q) (hc : WF c) (ha0 : WF a0) (hb1 : WF b1) (hb0 : WF b0) (hn : Bn k ≤ 2 * val b1)
    (hcase : (ret1 = false ∧ val c < val b1) ∨ (val q + 1 = Bn k ∧ a1 < val b0 ∧ val c + c2n ret1 * Bn k = a1 + val b1)) :
    D32R q c a0 b1 b0 ret1 (lmul t q b0) (sub a0 (lo (lmul t q b0))) (sub_wcNC c (hi (lmul t q b0)) (sub a0 (lo (lmul t q b0))).2) := by
  have hva0 := val_lt _ ha0
  have hvb1 := val_lt _ hb1
  have hvb0 := val_lt _ hb0
  have hB := Bn_pos k
  obtain ⟨hdw, hde⟩ := lmul_ok t q b0 hq hb0
  generalize lmul t q b0 = d at hdw hde ⊢
  have hdw' := (WF_lo_hi _).mp hdw
  have hvd := val_lt _ hdw
  rw [val_lo_hi d] at hde hvd
  obtain ⟨hs0w, hs0e⟩ := sub_ok a0 (lo d) ha0 hdw'.1
  generalize sub a0 (lo d) = s0 at hs0w hs0e ⊢
  have hr1 := sub_wcNC_val c (hi d) s0.2 hc hdw'.2
  obtain ⟨-, hr1e⟩ := sub_wc_ok c (hi d) s0.2 hc hdw'.2
  rw [← hr1.2] at hr1e
  generalize (sub_wc c (hi d) s0.2).2 = β1 at hr1e
  obtain ⟨hr1w, -⟩ := hr1
  generalize sub_wcNC c (hi d) s0.2 = r1 at hr1w hr1e ⊢
  have hvb := val_lt (RU.node b0 b1) ⟨hb0, hb1⟩
  have hvr := val_lt (RU.node s0.1 r1) ⟨hs0w, hr1w⟩
  have hvc := val_lt _ hc
  simp only [val_node] at hvb hvr
  simp only [Bn_succ k] at hvb hvr hvd
  have P1 : (val s0.1 + Bn k * val r1) + (val (lo d) + Bn k * val (hi d)) = (val a0 + Bn k * val c) + c2n β1 * (Bn k * Bn k) := by
    linear_combination hs0e + Bn k * hr1e
  have hK2 : Bn k * Bn k ≤ 2 * (val b0 + Bn k * val b1) := by nlinarith
  have hT : (val a0 + Bn k * val c) + c2n ret1 * (Bn k * Bn k) < (val b0 + Bn k * val b1) + (val (lo d) + Bn k * val (hi d)) := by
    rcases hcase with ⟨h1, h2⟩ | ⟨h1, h2, h3⟩
    · subst h1; simp only [c2n_false, Nat.zero_mul, Nat.add_zero]
      have : val c + 1 ≤ val b1 := h2
      have := Nat.mul_le_mul_left (Bn k) this
      nlinarith
    · rw [hde]
      have e1 : val a0 + Bn k * val c + c2n ret1 * (Bn k * Bn k) = val a0 + Bn k * (a1 + val b1) := by rw [← h3]; ring
      rw [e1]
      have : a1 + 1 ≤ val b0 := h2
      have h5 := Nat.mul_le_mul_left (Bn k) this
      have e2 : val q * val b0 + val b0 = Bn k * val b0 := by rw [← h1]; ring
      nlinarith
  exact {
    hd0 := hdw'.1, hd1 := hdw'.2, hde := hde, hs0 := hs0w, hr1 := hr1w
    hlex := lex_gt_iff (hi d) (lo d) c a0 hdw'.2 hdw'.1 hc ha0
    core := d32_core (Bn k * Bn k) (val b0 + Bn k * val b1) (val (lo d) + Bn k * val (hi d)) (val a0 + Bn k * val c)
      (val s0.1 + Bn k * val r1) ret1 β1 hvd hvb hK2 hT hvr P1
    hq0 := by intro h; rw [hde, h]; simp
    hq1 := by
      intro h; rw [hde]
      have := Nat.mul_le_mul_right (val b0) h
      omega }

theorem comm_ltR {B y1 y0 b1 b0 : Nat} (h : y0 + B * y1 < b0 + B * b1) : y1 * B + y0 < b1 * B + b0 := by
  rw [Nat.mul_comm y1, Nat.mul_comm b1]; omega

/-- the remainder / correction part is exact -/
theorem div32tailR_ok {k : Nat} (t : Nat) (q c a0 b1 b0 a2 a1 : RU k) (ret1 : Bool)
    (hq : WF q) (hc : WF c) (ha0 : WF a0) (hb1 : WF b1) (hb0 : WF b0) (hn : Bn k ≤ 2 * val b1)
    (hA : val a2 * Bn k + val a1 = val q * val b1 + val c + c2n ret1 * Bn k)
    (hcase : (ret1 = false ∧ val c < val b1) ∨ (val q + 1 = Bn k ∧ val a1 < val b0 ∧ val c + c2n ret1 * Bn k = val a1 + val b1)) :
    Div32Ok (div32tailR t q c ret1 a0 b1 b0) a2 a1 a0 b1 b0 := by
  have F := d32R_facts t q c a0 b1 b0 ret1 (val a1) hq hc ha0 hb1 hb0 hn hcase
  unfold div32tailR
  generalize lmul t q b0 = d at F ⊢
  generalize sub a0 (lo d) = s0 at F ⊢
  generalize sub_wcNC c (hi d) s0.2 = r1 at F ⊢
  obtain ⟨hd0, hd1, hde, hs0w, hr1w, hlex, core, hq0, hq1⟩ := F
  unfold Div32Ok
  by_cases hcond : (!ret1 && (decide (cmp (hi d) c > 0) || decide (cmp (hi d) c = 0) && decide (cmp (lo d) a0 > 0))) = true
  · rw [if_pos hcond]
    simp only [Bool.and_eq_true, Bool.not_eq_true'] at hcond
    have hneg : ret1 = false ∧ val a0 + Bn k * val c < val (lo d) + Bn k * val (hi d) := ⟨hcond.1, hlex.mp hcond.2⟩
    have hq1' : 1 ≤ val q := by
      by_contra h; have := hq0 (by omega); omega
    obtain ⟨hQ1w, hQ1e⟩ := sub_1_pos q hq hq1'
    generalize (sub_1 q).1 = Q1 at hQ1w hQ1e ⊢
    obtain ⟨hx0w, hx0e⟩ := add_ok s0.1 b0 hs0w hb0
    generalize add s0.1 b0 = x0 at hx0w hx0e ⊢
    obtain ⟨hx1w, hx1e⟩ := add_wc_ok r1 b1 x0.2 hr1w hb1
    generalize add_wc r1 b1 x0.2 = x1 at hx1w hx1e ⊢
    have hvx := val_lt (RU.node x0.1 x1.1) ⟨hx0w, hx1w⟩
    simp only [val_node, Bn_succ k] at hvx
    have Px : (val x0.1 + Bn k * val x1.1) + c2n x1.2 * (Bn k * Bn k)
        = (val s0.1 + Bn k * val r1) + (val b0 + Bn k * val b1) := by
      linear_combination hx0e + Bn k * hx1e
    obtain ⟨hρt, hρf⟩ := core.2 hneg _ x1.2 hvx Px
    have hA' := hA
    rw [hneg.1] at hA'
    simp only [c2n_false, Nat.zero_mul, Nat.add_zero] at hA'
    by_cases hx12 : (!x1.2) = true
    · rw [if_pos hx12]
      simp only [Bool.not_eq_true'] at hx12
      obtain ⟨hXb, hyy⟩ := hρf hx12
      have hq2 : 1 ≤ val Q1 := by
        by_contra h
        have := hq1 (by omega)
        omega
      obtain ⟨hQ2w, hQ2e⟩ := sub_1_pos Q1 hQ1w hq2
      generalize (sub_1 Q1).1 = Q2 at hQ2w hQ2e ⊢
      obtain ⟨hy0w, hy0e⟩ := add_ok x0.1 b0 hx0w hb0
      generalize add x0.1 b0 = y0 at hy0w hy0e ⊢
      rw [add_wcNC_eq x1.1 b1 y0.2 hx1w hb1]
      obtain ⟨hy1w, hy1e⟩ := add_wc_ok x1.1 b1 y0.2 hx1w hb1
      generalize add_wc x1.1 b1 y0.2 = y1 at hy1w hy1e ⊢
      have hvy := val_lt (RU.node y0.1 y1.1) ⟨hy0w, hy1w⟩
      simp only [val_node, Bn_succ k] at hvy
      have Py : (val y0.1 + Bn k * val y1.1) + c2n y1.2 * (Bn k * Bn k)
          = (val x0.1 + Bn k * val x1.1) + (val b0 + Bn k * val b1) := by
        linear_combination hy0e + Bn k * hy1e
      obtain ⟨F2, F3⟩ := hyy _ y1.2 hvy Py
      refine ⟨hQ2w, hy1w, hy0w, ?_, comm_ltR F3⟩
      have hqq : val q = val Q2 + 2 := by omega
      rw [hqq] at hA' hde
      linear_combination Bn k * hA' + F2.symm + hde
    · rw [if_neg hx12]
      simp only [Bool.not_eq_true', Bool.not_eq_false] at hx12
      obtain ⟨F2, F3⟩ := hρt hx12
      refine ⟨hQ1w, hx1w, hx0w, ?_, comm_ltR F3⟩
      have hqq : val q = val Q1 + 1 := by omega
      rw [hqq] at hA' hde
      linear_combination Bn k * hA' + F2.symm + hde
  · rw [if_neg hcond]
    have hnn : ¬ (ret1 = false ∧ val a0 + Bn k * val c < val (lo d) + Bn k * val (hi d)) := by
      rintro ⟨h1, h2⟩
      apply hcond
      simp only [Bool.and_eq_true, Bool.not_eq_true']
      exact ⟨h1, hlex.mpr h2⟩
    obtain ⟨F2, F3⟩ := core.1 hnn
    refine ⟨hq, hr1w, hs0w, ?_, comm_ltR F3⟩
    linear_combination Bn k * hA + F2.symm + hde

/-- the generic `div_3_2` template at level `m+1`, given `div_2_1` at that level -/
theorem div_3_2_step (t m : Nat)
    (IH21 : ∀ ah al b : RU (m+1), WF ah → WF al → WF b → Bn (m+1) ≤ 2 * val b → val ah < val b → Div21Ok (div_2_1 t ah al b) ah al b)
    (a2 a1 a0 b1 b0 : RU (m+1)) (ha2 : WF a2) (ha1 : WF a1) (ha0 : WF a0) (hb1 : WF b1) (hb0 : WF b0)
    (hn : Bn (m+1) ≤ 2 * val b1) (hlt : val a2 * Bn (m+1) + val a1 < val b1 * Bn (m+1) + val b0) :
    Div32Ok (div_3_2 t a2 a1 a0 b1 b0) a2 a1 a0 b1 b0 := by
  obtain ⟨h1, h2, h3, h4⟩ := qhatR_ok t m IH21 a2 a1 b1 b0 ha2 ha1 hb1 hb0 hn hlt
  rw [div_3_2_succ_eq]
  exact div32tailR_ok t _ _ a0 b1 b0 a2 a1 _ h1 h2 ha0 hb1 hb0 hn h3 h4

end Givaro.Model.RecInt
