/-
C05 — GFqExtFast: the q-adic transform is Kronecker substitution with `shift = _BITS`, `maxn = maxdot()`; it commutes with dot
products of at most `maxdot()` terms and the accumulated value is exact in a double.
-/
import GivaroModel.Model.GFqExt
import GivaroModel.Lemmas.GFqKron
namespace Givaro.Lemmas.GFqKron
open Givaro.Model.GFqKron Givaro.Model.GFqExt Givaro.Lemmas.GFqZech

/-- the q-adic state of a `GFqExtFast` object seen as a Kronecker state -/
def qstate (p k : Nat) : KState :=
  { p := p, k := k, shift := bits k, base := 2 ^ bits k, mask := 2 ^ bits k - 1, maxn := maxdot p k }

theorem div_div_div (a b c d : Nat) : a / b / c / d = a / (b * c * d) := by
  rw [Nat.div_div_eq_div_mul, Nat.div_div_eq_div_mul, mul_assoc]

theorem maxdot_room (p k : Nat) : maxdot p k * epmunsq p k < 2 ^ bits k := by
  unfold maxdot epmunsq
  rw [div_div_div]
  have hpos : 0 < 2 ^ bits k := Nat.pow_pos (by norm_num)
  have e : (p - 1) * (p - 1) * k = k * (p - 1) * (p - 1) := by ring
  rw [e]
  have := Nat.div_mul_le_self (2 ^ bits k - 1) (k * (p - 1) * (p - 1))
  omega

theorem inv_qstate (p k : Nat) : Inv (qstate p k) := ⟨rfl, rfl, maxdot_room p k⟩

theorem pack_eq (p k : Nat) : ∀ cs, pack k cs = convert (qstate p k) cs
  | [] => rfl
  | c :: cs => by
    simp only [pack, convert, Nat.shiftLeft_eq, pack_eq p k cs]
    rfl

theorem qadicDigits_eq_unpack (p k d : Nat) :
    (qadicDigits k d).map (· % p) = unpack (qstate p k) d := by
  unfold qadicDigits unpack qstate
  simp only [List.map_map]
  apply List.map_congr_left
  intro j _
  simp only [Function.comp, Nat.and_two_pow_sub_one_eq_mod, Nat.shiftRight_eq_div_pow, pow_mul]


/-- the double the application accumulates: `Σ_t convert(a_t)·convert(b_t)` (an exact integer) -/
def accDouble (k : Nat) : List (List Nat × List Nat) → Nat
  | [] => 0
  | (a, b) :: rest => pack k a * pack k b + accDouble k rest

theorem accDouble_eq (p k : Nat) : ∀ ts, accDouble k ts = accInt (qstate p k) ts
  | [] => rfl
  | (a, b) :: rest => by simp only [accDouble, accInt, pack_eq p k, accDouble_eq p k rest]

/-- **q-adic transform commutes with the dot product** (GFqExtFast): for at most `maxdot()` pairs of elements, the coefficients
    `init(double)` reads from the accumulated double, reduced modulo `p`, form a polynomial whose value at any `x` of any
    commutative ring with `p = 0` is `Σ_t a_t(x)·b_t(x)`. -/
theorem qadic_dot {K : Type*} [CommRing K] (x : K) (p k : Nat) (hk : 1 ≤ k) (hp0 : ((p : Nat) : K) = 0)
    (ts : List (List Nat × List Nat))
    (hts : ∀ t ∈ ts, t.1.length = k ∧ t.2.length = k ∧ (∀ c ∈ t.1, c ≤ p - 1) ∧ (∀ c ∈ t.2, c ≤ p - 1))
    (hn : ts.length ≤ maxdot p k) :
    ev x ((qadicDigits k (accDouble k ts)).map (· % p)) = dotK x ts := by
  rw [qadicDigits_eq_unpack, accDouble_eq p k]
  exact kronecker_dot x (qstate p k) (inv_qstate p k) hk hp0 ts hts hn

/-- and the accumulated value is exactly representable in a double: below `2^53` -/
theorem accDouble_lt (p k : Nat) (hk : 1 ≤ k) (ts : List (List Nat × List Nat))
    (hts : ∀ t ∈ ts, t.1.length = k ∧ t.2.length = k ∧ (∀ c ∈ t.1, c ≤ p - 1) ∧ (∀ c ∈ t.2, c ≤ p - 1))
    (hn : ts.length ≤ maxdot p k) : accDouble k ts < 2 ^ 53 := by
  rw [accDouble_eq p k, accInt_eq]
  have hI := inv_qstate p k
  have hlen := len_accPoly k hk ts (fun t ht => ⟨(hts t ht).1, (hts t ht).2.1⟩)
  have hb : ∀ c ∈ accPoly ts, c < 2 ^ bits k := by
    intro c hc
    have h1 := bnd_accPoly k (p - 1) ts hts c hc
    have h2 := maxdot_room p k
    have : ts.length * (k * ((p - 1) * (p - 1))) ≤ maxdot p k * epmunsq p k := by
      unfold epmunsq
      calc ts.length * (k * ((p - 1) * (p - 1))) ≤ maxdot p k * (k * ((p - 1) * (p - 1))) := Nat.mul_le_mul_right _ hn
        _ = maxdot p k * (k * (p - 1) * (p - 1)) := by ring
    omega
  -- a digit string of at most 2k-1 digits below 2^bits is below 2^(bits (2k-1)) ≤ 2^53
  have hev : ∀ (l : List Nat), (∀ c ∈ l, c < 2 ^ bits k) → evB (2 ^ bits k) l < (2 ^ bits k) ^ l.length := by
    intro l
    induction l with
    | nil => intro _; simp [evB]
    | cons a as ih =>
      intro h
      have ha := h a (List.mem_cons_self ..)
      have := ih (fun c hc => h c (List.mem_cons_of_mem _ hc))
      simp only [evB, List.length_cons, pow_succ]
      nlinarith
  have h1 := hev _ hb
  show evB (2 ^ (qstate p k).shift) (accPoly ts) < 2 ^ 53
  have hsh : (qstate p k).shift = bits k := rfl
  rw [hsh]
  calc evB (2 ^ bits k) (accPoly ts) < (2 ^ bits k) ^ (accPoly ts).length := h1
    _ ≤ (2 ^ bits k) ^ (2 * k - 1) := Nat.pow_le_pow_right (Nat.pow_pos (by norm_num)) hlen
    _ = 2 ^ (bits k * (2 * k - 1)) := by rw [← pow_mul]
    _ ≤ 2 ^ 53 := by
      apply Nat.pow_le_pow_right (by norm_num)
      unfold bits
      exact Nat.div_mul_le_self 53 (2 * k - 1)

end Givaro.Lemmas.GFqKron
