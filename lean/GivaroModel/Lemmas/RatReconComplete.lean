/-
C11 — completeness and uniqueness of integer rational reconstruction (MCA Thm 5.26 for the code as written):
every reduced solution (n, d) of  n ≡ d f (mod m), |n| < k, 0 < d, d·k ≤ m  is one of the two candidates the code
examines; Wang's uniqueness lemma; the widening loop.
-/
import GivaroModel.Lemmas.RatReconLemmas
import Mathlib.Tactic.Positivity
namespace Givaro.Lemmas.RatRecon
open Givaro.Model.RatRecon Givaro.Spec.RatRecon

/-- the arithmetic core: in the basis of the two rows at loop exit (`r1 < k ≤ r0`, `m = r0 T1 + r1 T0`) a solution
    `(±(b r1 − a r0), a T0 + b T1)` within the bounds has `a = 0`, or `a = 1` and `b` is the code's quotient -/
theorem cand_arith (r0 r1 T0 T1 k a b m : Int) (h1 : 0 ≤ r1) (h2 : r1 < k) (h3 : k ≤ r0) (hT0 : 0 ≤ T0) (hT1 : 0 < T1)
    (hm : m = r0 * T1 + r1 * T0) (hn1 : -k < b * r1 - a * r0) (hn2 : b * r1 - a * r0 < k)
    (hd : 0 < a * T0 + b * T1) (hdk : (a * T0 + b * T1) * k ≤ m) :
    (a = 0 ∧ 0 < b) ∨
    (a = 1 ∧ 0 < r1 ∧ 0 < b ∧ k - r1 ≤ r0 - b * r1 ∧ m < 2 * k * (a * T0 + b * T1)) := by
  have hr0 : 0 < r0 := by omega
  -- a ≥ 0
  have ha0 : 0 ≤ a := by
    by_contra hneg
    have ha : a ≤ -1 := by omega
    have e1 : a * T0 ≤ 0 := Int.mul_nonpos_of_nonpos_of_nonneg (by omega) hT0
    have hb : 0 < b := by
      by_contra hb
      have : b * T1 ≤ 0 := Int.mul_nonpos_of_nonpos_of_nonneg (by omega) (by omega)
      omega
    have e2 : 0 ≤ b * r1 := Int.mul_nonneg (by omega) h1
    have e3 : 1 * r0 ≤ (-a) * r0 := Int.mul_le_mul_of_nonneg_right (by omega) (by omega)
    have e4 : (-a) * r0 = -(a * r0) := by ring
    omega
  by_cases haz : a = 0
  · left
    refine ⟨haz, ?_⟩
    rw [haz] at hd
    by_contra hb
    have : b * T1 ≤ 0 := Int.mul_nonpos_of_nonpos_of_nonneg (by omega) (by omega)
    omega
  right
  have ha1 : 1 ≤ a := by omega
  have e5 : 1 * r0 ≤ a * r0 := Int.mul_le_mul_of_nonneg_right ha1 (by omega)
  have hbr : 0 < b * r1 := by omega
  have hr1 : 0 < r1 := by
    by_contra h
    have : r1 = 0 := by omega
    rw [this] at hbr; simp at hbr
  have hb : 0 < b := by
    by_contra hb
    have : b * r1 ≤ 0 := Int.mul_nonpos_of_nonpos_of_nonneg (by omega) h1
    omega
  -- b k ≤ r0
  have hbk : b * k ≤ r0 := by
    have e6 : 1 * (T0 * k) ≤ a * (T0 * k) := Int.mul_le_mul_of_nonneg_right ha1 (Int.mul_nonneg hT0 (by omega))
    have e7 : T0 * r1 ≤ T0 * k := Int.mul_le_mul_of_nonneg_left (by omega) hT0
    have e8 : (a * T0 + b * T1) * k = a * (T0 * k) + (b * k) * T1 := by ring
    have e9 : r1 * T0 = T0 * r1 := by ring
    have e10 : (b * k) * T1 ≤ r0 * T1 := by omega
    by_contra hcon
    have : (r0 + 1) * T1 ≤ (b * k) * T1 := Int.mul_le_mul_of_nonneg_right (by omega) (by omega)
    have : (r0 + 1) * T1 = r0 * T1 + T1 := by ring
    omega
  have hbr1 : b * r1 < b * k := Int.mul_lt_mul_of_pos_left h2 hb
  -- a ≤ 1
  have ha : a = 1 := by
    by_contra hne
    have : 2 * r0 ≤ a * r0 := Int.mul_le_mul_of_nonneg_right (by omega) (by omega)
    omega
  subst ha
  refine ⟨rfl, hr1, hb, ?_, ?_⟩
  · by_contra hw
    have e11 : (b - 1) * r1 ≤ (b - 1) * k := Int.mul_le_mul_of_nonneg_left (by omega) (by omega)
    have e12 : (b - 1) * r1 = b * r1 - r1 := by ring
    have e13 : (b - 1) * k = b * k - k := by ring
    omega
  · by_contra hcon
    have hle : 2 * k * (1 * T0 + b * T1) ≤ m := by omega
    have e14 : 2 * k * (1 * T0 + b * T1) = 2 * (T0 * k) + (2 * k * b) * T1 := by ring
    have e7 : T0 * r1 ≤ T0 * k := Int.mul_le_mul_of_nonneg_left (by omega) hT0
    have e15 : 0 ≤ T0 * k := Int.mul_nonneg hT0 (by omega)
    have e9 : r1 * T0 = T0 * r1 := by ring
    have e16 : (2 * k * b) * T1 ≤ r0 * T1 := by omega
    have e17 : 2 * k * b ≤ r0 := by
      by_contra hc
      have : (r0 + 1) * T1 ≤ (2 * k * b) * T1 := Int.mul_le_mul_of_nonneg_right (by omega) (by omega)
      have : (r0 + 1) * T1 = r0 * T1 + T1 := by ring
      omega
    have e18 : 2 * k * b = 2 * (b * k) := by ring
    have e19 : k * 1 ≤ k * b := Int.mul_le_mul_of_nonneg_left (by omega) (by omega)
    have e20 : k * b = b * k := by ring
    omega

/-! ### evaluating the code after the loop -/

def cand1 (s : LoopSt) : Int × Int := (if s.t1 < 0 then -s.r1 else s.r1, if s.t1 < 0 then -s.t1 else s.t1)

def cand2 (s : LoopSt) (k : Int) : Int × Int :=
  let q := Int.tdiv (s.r0 + s.r1 - k) s.r1
  (if s.t0 - q * s.t1 < 0 then -(s.r0 - q * s.r1) else s.r0 - q * s.r1,
   if s.t0 - q * s.t1 < 0 then -(s.t0 - q * s.t1) else s.t0 - q * s.t1)

theorem finish_noreduce (s : LoopSt) (f m k : Int) : finish s f m k false = ⟨true, (cand1 s).1, (cand1 s).2⟩ := by
  unfold finish cand1; simp

theorem finish_cand1 (s : LoopSt) (f m k : Int) (fr : Bool) (hg : Int.gcd (cand1 s).1 (cand1 s).2 = 1) :
    finish s f m k fr = ⟨true, (cand1 s).1, (cand1 s).2⟩ := by
  unfold cand1 at hg
  unfold finish cand1
  simp only [] at hg ⊢
  cases fr with
  | false => simp
  | true => simp only [if_true]; rw [if_neg (by rw [hg]; simp)]

theorem finish_cand2 (s : LoopSt) (f m k : Int) (hg1 : Int.gcd (cand1 s).1 (cand1 s).2 ≠ 1) (hn0 : (cand1 s).1 ≠ 0)
    (hg2 : Int.gcd (cand2 s k).1 (cand2 s k).2 = 1) :
    finish s f m k true = ⟨true, (cand2 s k).1, (cand2 s k).2⟩ := by
  unfold cand1 at hg1 hn0
  unfold cand2 at hg2
  unfold finish cand2
  simp only [] at hg1 hn0 hg2 ⊢
  simp only [if_true]
  rw [if_pos hg1, if_neg hn0, if_neg (by rw [hg2]; simp)]

/-- MCA Thm 5.26 for the code: a reduced solution within the documented bounds (`|n| < k`, `0 < d ≤ m/k`) makes
    `ratrecon` succeed; the answer is that solution unless `2 k d > m` (then it may be the other candidate) -/
theorem finish_general (f fp m k n d : Int) (fr : Bool) (s : LoopSt) (hm : 0 < m) (hk : 1 ≤ k) (hkm : k ≤ m)
    (hfp : m ∣ (fp - f)) (hsol : m ∣ (n - d * f)) (hn : (n.natAbs : Int) < k) (hd : 0 < d) (hdk : d * k ≤ m)
    (hg : Int.gcd n d = 1) (h : LInv fp m k s) (hx : s.r1 < k) :
    (finish s f m k fr).ok = true ∧ (finish s f m k fr = ⟨true, n, d⟩ ∨ m < 2 * k * d) := by
  obtain ⟨r0pos, r1nn, r0k, ⟨s0, s1, sg, hsg, e0, e1, hdet, hs1, hs0⟩, nz1, nz0⟩ := h
  obtain ⟨e, he⟩ := hfp
  obtain ⟨c, hc⟩ := hsol
  have ht1 : s.t1 ≠ 0 := by
    rcases nz1 with h | h
    · exact h
    · omega
  -- n = S m + d fp
  have hnS : n = (c - d * e) * m + d * fp := by
    have h1 : n = m * c + d * f := by omega
    have h2 : fp = f + m * e := by omega
    rw [h1, h2]; ring
  generalize c - d * e = S at hnS
  have hdet2 : s.r0 * s.t1 - s.r1 * s.t0 = m * sg := by
    rw [← hdet]
    have h1 : s.r0 * s.t1 = (s0 * m + s.t0 * fp) * s.t1 := by rw [← e0]
    have h2 : s.r1 * s.t0 = (s1 * m + s.t1 * fp) * s.t0 := by rw [← e1]
    rw [h1, h2]; ring
  have hnb : -k < n ∧ n < k := by omega
  rcases hsg with rfl | rfl
  · -- sg = 1 : t1 > 0, t0 ≤ 0
    have hT1 : 0 < s.t1 := by omega
    have hT0 : 0 ≤ -s.t0 := by omega
    have hn' : n = -(-(S * s.t1 - s1 * d)) * s.r0 + (s0 * d - S * s.t0) * s.r1 := by
      rw [hnS, e0, e1]; linear_combination (-(S * m + d * fp)) * hdet
    have hd' : d = -(S * s.t1 - s1 * d) * (-s.t0) + (s0 * d - S * s.t0) * s.t1 := by
      linear_combination (-d) * hdet
    generalize -(S * s.t1 - s1 * d) = a at hn' hd'
    generalize s0 * d - S * s.t0 = b at hn' hd'
    have hmm : m = s.r0 * s.t1 + s.r1 * (-s.t0) := by
      have : s.r1 * (-s.t0) = -(s.r1 * s.t0) := by ring
      omega
    have hn2 : n = b * s.r1 - a * s.r0 := by rw [hn']; ring
    rcases cand_arith s.r0 s.r1 (-s.t0) s.t1 k a b m r1nn hx r0k hT0 hT1 hmm (by omega) (by omega)
        (by rw [← hd']; exact hd) (by rw [← hd']; exact hdk) with ⟨ha, hb⟩ | ⟨ha, hr1, hb, hw, hbig⟩
    · -- first candidate
      rw [ha] at hn2 hd'
      have hb1 : b = 1 := by
        have h1 : Int.gcd (b * s.r1) (b * s.t1) = 1 := by
          have e1' : n = b * s.r1 := by omega
          have e2' : d = b * s.t1 := by omega
          rw [← e1', ← e2']; exact hg
        rw [Int.gcd_mul_left] at h1
        have := Nat.eq_one_of_mul_eq_one_right h1
        omega
      rw [hb1] at hn2 hd'
      have hc1 : cand1 s = (n, d) := by
        unfold cand1
        rw [if_neg (by omega), if_neg (by omega)]
        ext <;> simp <;> omega
      have hfin := finish_cand1 s f m k fr (by rw [hc1]; exact hg)
      rw [hc1] at hfin
      exact ⟨by rw [hfin], Or.inl hfin⟩
    · -- second candidate
      rw [ha] at hn2 hd' hbig
      have hbig' : m < 2 * k * d := by rw [hd']; exact hbig
      obtain ⟨q0, qlo, qhi⟩ := tdiv_facts (s.r0 + s.r1 - k) s.r1 (by omega) hr1
      have hqb : Int.tdiv (s.r0 + s.r1 - k) s.r1 = b := by
        generalize Int.tdiv (s.r0 + s.r1 - k) s.r1 = q at q0 qlo qhi
        by_contra hne
        rcases Int.lt_or_gt_of_ne hne with hlt | hgt
        · have : s.r1 * (q + 1) ≤ s.r1 * b := Int.mul_le_mul_of_nonneg_left (by omega) (by omega)
          have e1' : s.r1 * (q + 1) = s.r1 * q + s.r1 := by ring
          have e2' : s.r1 * b = b * s.r1 := by ring
          omega
        · have : s.r1 * (b + 1) ≤ s.r1 * q := Int.mul_le_mul_of_nonneg_left (by omega) (by omega)
          have e1' : s.r1 * (b + 1) = s.r1 * b + s.r1 := by ring
          have e2' : s.r1 * b = b * s.r1 := by ring
          omega
      have hc2 : cand2 s k = (n, d) := by
        unfold cand2
        simp only [hqb]
        have : s.t0 - b * s.t1 < 0 := by omega
        rw [if_pos this, if_pos this]
        ext <;> simp <;> omega
      by_cases hg1 : Int.gcd (cand1 s).1 (cand1 s).2 = 1
      · have hfin := finish_cand1 s f m k fr hg1
        exact ⟨by rw [hfin], Or.inr hbig'⟩
      · cases fr with
        | false => exact ⟨by rw [finish_noreduce], Or.inr hbig'⟩
        | true =>
          have hn0 : (cand1 s).1 ≠ 0 := by unfold cand1; simp only []; split <;> omega
          have hfin := finish_cand2 s f m k hg1 hn0 (by rw [hc2]; exact hg)
          rw [hc2] at hfin
          exact ⟨by rw [hfin], Or.inl hfin⟩
  · -- sg = -1 : t1 < 0, t0 ≥ 0
    have hT1 : 0 < -s.t1 := by omega
    have hT0 : 0 ≤ s.t0 := by omega
    have hn' : n = -(S * s.t1 - s1 * d) * s.r0 - (s0 * d - S * s.t0) * s.r1 := by
      rw [hnS, e0, e1]; linear_combination (S * m + d * fp) * hdet
    have hd' : d = -(S * s.t1 - s1 * d) * s.t0 + (s0 * d - S * s.t0) * (-s.t1) := by
      linear_combination d * hdet
    generalize -(S * s.t1 - s1 * d) = a at hn' hd'
    generalize s0 * d - S * s.t0 = b at hn' hd'
    have hmm : m = s.r0 * (-s.t1) + s.r1 * s.t0 := by
      have : s.r0 * (-s.t1) = -(s.r0 * s.t1) := by ring
      omega
    have hn2 : -n = b * s.r1 - a * s.r0 := by rw [hn']; ring
    rcases cand_arith s.r0 s.r1 s.t0 (-s.t1) k a b m r1nn hx r0k hT0 hT1 hmm (by omega) (by omega)
        (by rw [← hd']; exact hd) (by rw [← hd']; exact hdk) with ⟨ha, hb⟩ | ⟨ha, hr1, hb, hw, hbig⟩
    · rw [ha] at hn2 hd'
      have hb1 : b = 1 := by
        have h1 : Int.gcd (b * (-s.r1)) (b * (-s.t1)) = 1 := by
          have e1' : n = b * (-s.r1) := by
            have : b * (-s.r1) = -(b * s.r1) := by ring
            omega
          have e2' : d = b * (-s.t1) := by omega
          rw [← e1', ← e2']; exact hg
        rw [Int.gcd_mul_left] at h1
        have := Nat.eq_one_of_mul_eq_one_right h1
        omega
      rw [hb1] at hn2 hd'
      have hc1 : cand1 s = (n, d) := by
        unfold cand1
        rw [if_pos (by omega), if_pos (by omega)]
        ext <;> simp <;> omega
      have hfin := finish_cand1 s f m k fr (by rw [hc1]; exact hg)
      rw [hc1] at hfin
      exact ⟨by rw [hfin], Or.inl hfin⟩
    · rw [ha] at hn2 hd' hbig
      have hbig' : m < 2 * k * d := by rw [hd']; exact hbig
      obtain ⟨q0, qlo, qhi⟩ := tdiv_facts (s.r0 + s.r1 - k) s.r1 (by omega) hr1
      have hqb : Int.tdiv (s.r0 + s.r1 - k) s.r1 = b := by
        generalize Int.tdiv (s.r0 + s.r1 - k) s.r1 = q at q0 qlo qhi
        by_contra hne
        rcases Int.lt_or_gt_of_ne hne with hlt | hgt
        · have : s.r1 * (q + 1) ≤ s.r1 * b := Int.mul_le_mul_of_nonneg_left (by omega) (by omega)
          have e1' : s.r1 * (q + 1) = s.r1 * q + s.r1 := by ring
          have e2' : s.r1 * b = b * s.r1 := by ring
          omega
        · have : s.r1 * (b + 1) ≤ s.r1 * q := Int.mul_le_mul_of_nonneg_left (by omega) (by omega)
          have e1' : s.r1 * (b + 1) = s.r1 * b + s.r1 := by ring
          have e2' : s.r1 * b = b * s.r1 := by ring
          omega
      have hbt : b * (-s.t1) = -(b * s.t1) := by ring
      have hc2 : cand2 s k = (n, d) := by
        unfold cand2
        simp only [hqb]
        have : ¬ (s.t0 - b * s.t1 < 0) := by omega
        rw [if_neg this, if_neg this]
        ext <;> simp <;> omega
      by_cases hg1 : Int.gcd (cand1 s).1 (cand1 s).2 = 1
      · have hfin := finish_cand1 s f m k fr hg1
        exact ⟨by rw [hfin], Or.inr hbig'⟩
      · cases fr with
        | false => exact ⟨by rw [finish_noreduce], Or.inr hbig'⟩
        | true =>
          have hn0 : (cand1 s).1 ≠ 0 := by unfold cand1; simp only []; split <;> omega
          have hfin := finish_cand2 s f m k hg1 hn0 (by rw [hc2]; exact hg)
          rw [hc2] at hfin
          exact ⟨by rw [hfin], Or.inl hfin⟩

/-- the documented denominator bound `0 < den ≤ m/k` of the first candidate -/
theorem cand1_bound (fp m k : Int) (s : LoopSt) (h : LInv fp m k s) (hx : s.r1 < k) (hkm : k ≤ m) :
    0 < (cand1 s).2 ∧ (cand1 s).2 * k ≤ m := by
  obtain ⟨r0pos, r1nn, r0k, ⟨s0, s1, sg, hsg, e0, e1, hdet, hs1, hs0⟩, nz1, nz0⟩ := h
  have ht1 : s.t1 ≠ 0 := by
    rcases nz1 with h | h
    · exact h
    · omega
  have hdet2 : s.r0 * s.t1 - s.r1 * s.t0 = m * sg := by
    rw [← hdet]
    have h1 : s.r0 * s.t1 = (s0 * m + s.t0 * fp) * s.t1 := by rw [← e0]
    have h2 : s.r1 * s.t0 = (s1 * m + s.t1 * fp) * s.t0 := by rw [← e1]
    rw [h1, h2]; ring
  unfold cand1
  simp only []
  rcases hsg with rfl | rfl
  · rw [if_neg (by omega)]
    have h1 : 0 ≤ s.r1 * (-s.t0) := Int.mul_nonneg r1nn (by omega)
    have h2 : k * s.t1 ≤ s.r0 * s.t1 := Int.mul_le_mul_of_nonneg_right r0k (by omega)
    have h3 : s.r1 * (-s.t0) = -(s.r1 * s.t0) := by ring
    have h4 : s.t1 * k = k * s.t1 := by ring
    exact ⟨by omega, by omega⟩
  · rw [if_pos (by omega)]
    have h1 : 0 ≤ s.r1 * s.t0 := Int.mul_nonneg r1nn (by omega)
    have h2 : k * (-s.t1) ≤ s.r0 * (-s.t1) := Int.mul_le_mul_of_nonneg_right r0k (by omega)
    have h4 : s.r0 * (-s.t1) = -(s.r0 * s.t1) := by ring
    have h5 : -s.t1 * k = k * (-s.t1) := by ring
    exact ⟨by omega, by omega⟩

/-- the state the model's loop stops in -/
def exitSt (f m k : Int) : LoopSt := loop k (fuelFor f m) ⟨m, 0, startR1 f m, 1⟩

theorem ratrecon_eq_finish (f m k : Int) (fr : Bool) : ratrecon f m k fr = finish (exitSt f m k) f m k fr := rfl

theorem exitSt_facts (f m k : Int) (hm : 0 < m) (hk : 1 ≤ k) (hkm : k ≤ m) :
    LInv (startR1 f m) m k (exitSt f m k) ∧ (exitSt f m k).r1 < k ∧ m ∣ (startR1 f m - f) := by
  obtain ⟨h0, hd, _⟩ := startR1_facts f m hm
  have hi := linv_init (startR1 f m) m k hm hkm h0
  exact ⟨loop_inv _ m k hk _ _ hi, loop_exit _ m k hk _ _ hi (by unfold fuelFor; simp only []; omega), hd⟩

/-- Wang's uniqueness lemma: two reduced fractions congruent to `f` with `|num| ≤ N`, `0 < den ≤ D`, `2 N D < m` coincide -/
theorem wang_unique (f m N D n1 d1 n2 d2 : Int) (h1 : m ∣ (n1 - d1 * f)) (h2 : m ∣ (n2 - d2 * f))
    (hn1 : -N ≤ n1 ∧ n1 ≤ N) (hn2 : -N ≤ n2 ∧ n2 ≤ N) (hd1 : 0 < d1 ∧ d1 ≤ D) (hd2 : 0 < d2 ∧ d2 ≤ D)
    (hND : 2 * N * D < m) (hg1 : Int.gcd n1 d1 = 1) (hg2 : Int.gcd n2 d2 = 1) : n1 = n2 ∧ d1 = d2 := by
  obtain ⟨c1, hc1⟩ := h1
  obtain ⟨c2, hc2⟩ := h2
  have hX : m ∣ (n1 * d2 - n2 * d1) := ⟨c1 * d2 - c2 * d1, by
    have e1 : n1 = m * c1 + d1 * f := by omega
    have e2 : n2 = m * c2 + d2 * f := by omega
    rw [e1, e2]; ring⟩
  have hN : 0 ≤ N := by omega
  have b1 : 0 ≤ (N - n1) * d2 := Int.mul_nonneg (by omega) (by omega)
  have b2 : 0 ≤ (N + n1) * d2 := Int.mul_nonneg (by omega) (by omega)
  have b3 : 0 ≤ (N - n2) * d1 := Int.mul_nonneg (by omega) (by omega)
  have b4 : 0 ≤ (N + n2) * d1 := Int.mul_nonneg (by omega) (by omega)
  have b5 : 0 ≤ N * (D - d2) := Int.mul_nonneg hN (by omega)
  have b6 : 0 ≤ N * (D - d1) := Int.mul_nonneg hN (by omega)
  have x1 : (N - n1) * d2 = N * d2 - n1 * d2 := by ring
  have x2 : (N + n1) * d2 = N * d2 + n1 * d2 := by ring
  have x3 : (N - n2) * d1 = N * d1 - n2 * d1 := by ring
  have x4 : (N + n2) * d1 = N * d1 + n2 * d1 := by ring
  have x5 : N * (D - d2) = N * D - N * d2 := by ring
  have x6 : N * (D - d1) = N * D - N * d1 := by ring
  have x7 : 2 * N * D = 2 * (N * D) := by ring
  have hX0 : n1 * d2 - n2 * d1 = 0 :=
    Int.eq_zero_of_abs_lt_dvd hX (abs_lt.mpr ⟨by omega, by omega⟩)
  have hcross : n1 * d2 = n2 * d1 := by omega
  have hd12 : d1 ∣ d2 := by
    have : d1 ∣ n1 * d2 := ⟨n2, by rw [hcross]; ring⟩
    exact Int.dvd_of_dvd_mul_right_of_gcd_one this (by rw [Int.gcd_comm]; exact hg1)
  have hd21 : d2 ∣ d1 := by
    have : d2 ∣ n2 * d1 := ⟨n1, by rw [← hcross]; ring⟩
    exact Int.dvd_of_dvd_mul_right_of_gcd_one this (by rw [Int.gcd_comm]; exact hg2)
  have hdd : d1 = d2 := Int.le_antisymm (Int.le_of_dvd (by omega) hd12) (Int.le_of_dvd (by omega) hd21)
  refine ⟨?_, hdd⟩
  rw [hdd] at hcross
  exact Int.eq_of_mul_eq_mul_right (by omega) hcross

/-! ### the widening loop `for (newk = k+1; !res && newk < f; newk <<= 1)` -/

theorem widen_of_ok (x m f : Int) (fr : Bool) (n : Nat) (newk : Int) (cur : Out) (h : cur.ok = true) :
    widen x m f fr n newk cur = cur := by
  cases n with
  | zero => rfl
  | succ n => unfold widen; simp [h]

/-- `widenFuel` suffices and a failure of the widening loop means that *every* bound `newk·2^i < f` failed
    (and the state it started from was a failure) -/
theorem widen_fail (x m f : Int) (fr : Bool) : ∀ (n : Nat) (newk : Int) (cur : Out), 1 ≤ newk → (f - newk).toNat < n →
    (widen x m f fr n newk cur).ok = false →
    cur.ok = false ∧ ∀ i : Nat, newk * 2 ^ i < f → (ratrecon x m (newk * 2 ^ i) fr).ok = false := by
  intro n
  induction n with
  | zero => intro newk cur _ hf; omega
  | succ n ih =>
    intro newk cur hk hf hres
    unfold widen at hres
    by_cases hc : (!cur.ok && decide (newk < f)) = true
    · rw [if_pos hc] at hres
      simp only [Bool.and_eq_true, Bool.not_eq_true', decide_eq_true_eq] at hc
      obtain ⟨h1, h2⟩ := ih (newk * 2) (ratrecon x m newk fr) (by omega) (by omega) hres
      refine ⟨hc.1, ?_⟩
      intro i hi
      cases i with
      | zero => simpa using h1
      | succ i =>
        have : newk * 2 ^ (i + 1) = newk * 2 * 2 ^ i := by rw [pow_succ]; ring
        rw [this] at hi ⊢
        exact h2 i hi
    · rw [if_neg hc] at hres
      refine ⟨hres, ?_⟩
      intro i hi
      exfalso
      simp only [Bool.and_eq_true, Bool.not_eq_true', decide_eq_true_eq, not_and] at hc
      have h2 : (1 : Int) ≤ 2 ^ i := by
        have : (0 : Int) < 2 ^ i := by positivity
        omega
      have : newk * 1 ≤ newk * 2 ^ i := Int.mul_le_mul_of_nonneg_left h2 (by omega)
      exact hc hres (by omega)

end Givaro.Lemmas.RatRecon
